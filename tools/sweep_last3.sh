#!/bin/bash
# sweep of the checks whose generators changed in round 9: quick seeds 2-3, thorough seed 1
python3 run.py setup > setup.log 2>&1
for seed in 2 3; do for c in C03 C12 C16 C19; do
  VERIF_SEED=$seed python3 run.py check $c --tier quick 2>&1 | grep -E "^\[|VIOLATION|broken:|oracle:|disagreement" | head -6
done; done
for c in C03 C16 C19 C12; do
  VERIF_SEED=1 python3 run.py check $c --tier thorough 2>&1 | grep -E "^\[|VIOLATION|broken:|oracle:|disagreement" | head -6
done
