#!/bin/bash
# sweep of the checks whose generators changed in round 8: quick seeds 2-4, thorough seeds 1-2
python3 run.py setup > setup.log 2>&1
for seed in 2 3 4; do for c in C03 C04 C05 C07 C13 C20; do
  VERIF_SEED=$seed python3 run.py check $c --tier quick 2>&1 | grep -E "^\[|VIOLATION|broken:|oracle:|disagreement" | head -6
done; done
for seed in 1 2; do for c in C03 C04 C05 C07 C13 C20; do
  VERIF_SEED=$seed python3 run.py check $c --tier thorough 2>&1 | grep -E "^\[|VIOLATION|broken:|oracle:|disagreement" | head -6
done; done
