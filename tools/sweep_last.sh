#!/bin/bash
# sweep of the checks whose generators changed after tools/sweep_final.sh ran (round 7 + F16): quick seeds 2-4, thorough seeds 1-2
python3 run.py setup > setup.log 2>&1
for seed in 2 3 4; do for c in C04 C09 C10 C11 C12 C16 C19; do
  VERIF_SEED=$seed python3 run.py check $c --tier quick 2>&1 | grep -E "^\[|VIOLATION|broken:|oracle:|disagreement" | head -6
done; done
for seed in 1 2; do for c in C09 C10 C12 C16 C19 C04; do
  VERIF_SEED=$seed python3 run.py check $c --tier thorough 2>&1 | grep -E "^\[|VIOLATION|broken:|oracle:|disagreement" | head -6
done; done
