#!/bin/bash
# final sweep on the unchanged tree: every check, quick tier at seeds 2-5, thorough tier at seeds 1-2; prints one line per run
python3 run.py setup > setup.log 2>&1
for seed in 2 3 4 5; do for i in $(seq 1 20); do c=$(printf "C%02d" $i)
  VERIF_SEED=$seed python3 run.py check $c --tier quick 2>&1 | grep -E "^\[|VIOLATION|broken:|oracle:|disagreement" | head -6
done; done
for seed in 1 2; do for i in $(seq 1 20); do c=$(printf "C%02d" $i)
  VERIF_SEED=$seed python3 run.py check $c --tier thorough 2>&1 | grep -E "^\[|VIOLATION|broken:|oracle:|disagreement" | head -6
done; done
