#!/bin/bash
# thorough sweep of the checks whose generators changed in round 4, seeds 1 2 3
for seed in 1 2 3; do for c in C01 C03 C05 C06 C07 C10 C11 C12 C16; do
  VERIF_SEED=$seed python3 run.py check $c --tier thorough 2>&1 | grep -E "^\[|VIOLATION|KNOWN|broken|oracle:|disagreement" | head -8
done; done
