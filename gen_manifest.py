#!/usr/bin/env python3
"""Writes MANIFEST.json from props.py (claimed checks) and the fixed property list."""
import json, os, sys
ROOT = os.path.dirname(os.path.abspath(__file__))
sys.path.insert(0, ROOT)
from props import PROPS, MANIFEST_TEXT

ids = [json.loads(l)["id"] for l in open(os.path.join(ROOT, "properties.jsonl"))]
checks, na = [], []
for pid in ids:
    if pid in PROPS and pid in MANIFEST_TEXT and not MANIFEST_TEXT[pid].get("not_applicable"):
        t = MANIFEST_TEXT[pid]
        checks.append({
            "property_id": pid,
            "quick_cmd": f"python3 run.py check {pid} --tier quick",
            "thorough_cmd": f"python3 run.py check {pid} --tier thorough",
            "evidence_file": f"/verif/evidence/{pid}.json",
            "replay_cmd_template": "python3 run.py replay {path}",
            "engine": "lean-model+correspondence",
            "level_claimed": {"category": "proof", "text": t["text"], "design_ref": t.get("design_ref", "DESIGN.md §6 " + pid)},
            "level_note": t["note"],
            "technique": t["technique"],
        })
    else:
        reason = MANIFEST_TEXT.get(pid, {}).get("not_applicable", "check not built yet in this round (model and correspondence driver pending); no claim is made")
        na.append({"property_id": pid, "reason": reason})
m = {
    "version": 1,
    "setup_cmd": "python3 run.py setup",
    "hooks": {"guard": "verif", "enable": "no hooks are needed: every property is observed through exported API; checks build /repo as is (a `verif` build tag is reserved and unused)",
              "baseline_off_cmd": "cd /repo && GOFLAGS=-mod=mod GOPROXY=off go test -json -vet=off -count=1 -timeout 25m ./...",
              "source_commits": [], "add_only": True},
    "engines": [{"name": "lean-model+correspondence", "path": "/verif/run.py", "serves_properties": [c["property_id"] for c in checks],
                 "kind_free_text": "Lean 4 model (lean/TdxModel) with kernel-checked theorems per property (lean/TdxProofs/Props), constants and site inventories regenerated from /repo by a go/types extractor on every run, and a differential correspondence check that runs the real Go code and the compiled model on the same generated cases"}],
    "checks": checks,
    "not_applicable": na,
    "notes": "See DESIGN.md. Every check rebuilds extractor output, proofs, model executable and Go harness from /repo's working tree. known_findings.json lists recorded/fixed defects.",
}
json.dump(m, open(os.path.join(ROOT, "MANIFEST.json"), "w"), indent=1)
print("claimed:", [c["property_id"] for c in checks], "not applicable:", [n["property_id"] for n in na])
