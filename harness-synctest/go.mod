module tdxsynctest

go 1.26

require github.com/google/go-tdx-guest v0.0.0

replace github.com/google/go-tdx-guest => /repo
