// Package tdxsynctest is the C20 correspondence driver: the REAL trust.RetryHTTPSGetter.Get runs in
// a testing/synctest bubble (virtual time, go1.26) against a scripted wrapped getter; the exact
// virtual timestamps of every call and of the return are written for the Lean model to predict.
//
// It is a test binary because testing/synctest needs a *testing.T.  Protocol (same files as
// harness/cmd/tdxdriver): env TDX_OUT = output directory (cases.txt, observed.txt, meta.json),
// TDX_TIER = quick|thorough, TDX_SEED = seed.  Without TDX_OUT the test is skipped.
//
// Case line:   C20.get to=<ns> max=<ns> script=<dur>:<0|1>,… tie=<bits|-> spin=<n>
//   script  per call: duration (ns) and success flag; the last entry repeats for ever
//   tie     bit k = 1 iff the real code made another call after call k.  The model looks at it only
//           where Go's select may go either way (retry timer and deadline ready at the same virtual
//           instant); everywhere else the model's trace is forced and must equal the observed one.
//   spin    spin guard: that many consecutive calls starting at one virtual instant → observed `spin`
// Observed:    ok k=<index of the call whose response came back> n=<calls> at=<ns> calls=… waits=…
//              err n=<calls> at=<ns> calls=… waits=…   |  spin  |  never-returns  |  panic
package tdxsynctest

import (
	neturl "net/url"
	"context"
	"bytes"
	"errors"
	"fmt"
	"os"
	"reflect"
	"strconv"
	"strings"
	"sync/atomic"
	"testing"
	"testing/synctest"
	"time"

	"github.com/google/go-tdx-guest/verify/trust"

	"tdxsynctest/hx"
)

const spinLimit = 10000

type entry struct {
	dur time.Duration
	ok  bool
}

type config struct {
	to, max time.Duration
	script  []entry // never empty; the last entry repeats
}

func (c config) entry(i int) entry {
	if i < len(c.script) {
		return c.script[i]
	}
	return c.script[len(c.script)-1]
}

func (c config) scriptString() string {
	s := make([]string, len(c.script))
	for i, e := range c.script {
		s[i] = fmt.Sprintf("%d:%d", int64(e.dur), hx.B(e.ok))
	}
	return strings.Join(s, ",")
}

func (c config) maxDur() time.Duration {
	var m time.Duration
	for _, e := range c.script {
		m = max(m, e.dur)
	}
	return m
}

// giveUpLimit: virtual time after which a run that has not returned is declared hanging.
func (c config) giveUpLimit() time.Duration {
	return 4*(max(c.to, 0)+max(c.max, 0)) + time.Minute + 2*c.maxDur()
}

type callRec struct {
	start, end time.Duration
	ok         bool
	hdr        map[string][]string // pristine copies of what the call handed out (nil for failures)
	body       []byte
}

type result struct {
	calls    []callRec
	returned bool
	retAt    time.Duration
	hdr      map[string][]string
	body     []byte
	err      error
	spin     atomic.Bool
	never    atomic.Bool
	panicked string
}

// response of the idx-th call: distinct per call, two header keys, multi-valued header, binary body
func makeResp(idx int) (map[string][]string, []byte) {
	// keys as servers spell them, not as net/http canonicalises them (Intel's PCS sends TCB-Info-Issuer-Chain), keys that
	// differ only in case, an empty value list: "unmodified" means the very map content the wrapped getter returned
	h := map[string][]string{
		"X-Call":                {strconv.Itoa(idx)},
		"Content-Type":          {"application/json", "charset=utf-8"},
		"TCB-Info-Issuer-Chain": {"-----BEGIN%20CERTIFICATE-----" + strconv.Itoa(idx)},
		"x-trace":               {"lower"},
		"X-Trace":               {"canonical"},
		"sgx-pck-crl-issuer-chain": {},
	}
	b := []byte(fmt.Sprintf("{\"call\":%d,\"pad\":\"\x00\xff%s\"}", idx, strings.Repeat("z", idx%5)))
	// a success is a success whatever its body: also an empty one (204-style answers, empty CRL bodies …)
	switch idx % 4 {
	case 2:
		b = []byte{}
	case 3:
		b = nil
	}
	return h, b
}

type scripted struct {
	c     config
	since func() time.Duration
	sleep func(time.Duration)
	res   *result
	same  int
	limit time.Duration
	abort atomic.Bool
}

func (s *scripted) Get(url string) (map[string][]string, []byte, error) {
	now := s.since()
	n := len(s.res.calls)
	if n > 0 && s.res.calls[n-1].start == now {
		s.same++
	} else {
		s.same = 1
	}
	if s.same >= spinLimit {
		s.res.spin.Store(true)
	}
	if now > s.limit {
		s.res.never.Store(true)
	}
	if s.res.spin.Load() || s.res.never.Load() || s.abort.Load() {
		// guard tripped: let the loop under test finish so that the bubble can end
		return map[string][]string{"X-Guard": {"abort"}}, []byte("guard"), nil
	}
	e := s.c.entry(n)
	s.res.calls = append(s.res.calls, callRec{start: now})
	s.sleep(e.dur)
	rec := &s.res.calls[n]
	rec.end = s.since()
	rec.ok = e.ok
	if !e.ok {
		// a failing getter may still hand out junk; it must never surface
		// failures of every class an HTTP client produces: plain, timeout-class (net.Error with Timeout() true), wrapped deadline
		var ferr error = errors.New("scripted failure")
		switch n % 3 {
		case 1:
			ferr = timeoutErr{}
		case 2:
			ferr = &neturl.Error{Op: "Get", URL: url, Err: context.DeadlineExceeded}
		}
		// … nor steer the retry loop: a failed attempt's headers (here: a server's Retry-After hint far above any configured
		// delay, spelled the way servers and net/http spell it) are not a reason to wait longer than MaxRetryDelay
		return map[string][]string{"X-Failed": {strconv.Itoa(n)}, "Retry-After": {"3600"}, "retry-after": {"7200"}}, []byte("failed-" + strconv.Itoa(n)), ferr
	}
	rec.hdr, rec.body = makeResp(n)
	h, b := makeResp(n)
	return h, b, nil
}

// runVirtual runs the real Get inside a synctest bubble.
func runVirtual(t *testing.T, c config) *result {
	res := &result{}
	synctest.Test(t, func(t *testing.T) {
		start := time.Now()
		s := &scripted{c: c, res: res, limit: c.giveUpLimit(),
			since: func() time.Duration { return time.Since(start) }, sleep: time.Sleep}
		g := &trust.RetryHTTPSGetter{Timeout: c.to, MaxRetryDelay: c.max, Getter: s}
		done := make(chan struct{})
		go func() {
			defer close(done)
			defer func() {
				if e := recover(); e != nil {
					res.panicked = fmt.Sprint(e)
				}
			}()
			h, b, err := g.Get("https://pcs.invalid/tdx/certification/v4/tcb?fmspc=00")
			res.retAt = time.Since(start)
			res.hdr, res.body, res.err = h, b, err
			res.returned = true
		}()
		wd := time.NewTimer(s.limit + time.Second)
		defer wd.Stop()
		select {
		case <-done:
		case <-wd.C:
			res.never.Store(true)
			s.abort.Store(true)
			<-done // a finite sleep ends in virtual time; the next wrapped call releases the loop
		}
	})
	return res
}

func ints(l []time.Duration) string {
	if len(l) == 0 {
		return "-"
	}
	s := make([]string, len(l))
	for i, d := range l {
		s[i] = strconv.FormatInt(int64(d), 10)
	}
	return strings.Join(s, ",")
}

func (r *result) waits() []time.Duration {
	var w []time.Duration
	for i := 0; i+1 < len(r.calls); i++ {
		w = append(w, r.calls[i+1].start-r.calls[i].end)
	}
	return w
}

// observed is the canonical line; it must be byte-identical to the model's output.
func observed(res *result) string {
	switch {
	case res.panicked != "":
		return "panic"
	case res.spin.Load():
		return "spin"
	case res.never.Load() || !res.returned:
		return "never-returns"
	}
	starts := make([]time.Duration, len(res.calls))
	for i, c := range res.calls {
		starts[i] = c.start
	}
	tail := fmt.Sprintf("n=%d at=%d calls=%s waits=%s", len(res.calls), int64(res.retAt), ints(starts), ints(res.waits()))
	if res.err != nil {
		return "err " + tail
	}
	k := "?"
	for i, c := range res.calls {
		if c.ok && reflect.DeepEqual(res.hdr, c.hdr) && bytes.Equal(res.body, c.body) && (res.body == nil) == (c.body == nil) && res.hdr != nil {
			k = strconv.Itoa(i)
			break
		}
	}
	return "ok k=" + k + " " + tail
}

func tieBits(res *result) string {
	if res.panicked != "" || res.spin.Load() || res.never.Load() || len(res.calls) == 0 {
		return "-"
	}
	return strings.Repeat("1", len(res.calls)-1) + "0"
}

const fourSeconds = 4 * time.Second // twice the documented initial retry delay

// oracle is the property statement evaluated on the recorded trace, independent of the model:
// first success returned intact and nothing called after it; every wait ≤ Max (Max ≥ 0) and
// ≥ min(4 s, Max) (Max > 0), no attempt without a wait before it; all-fail ⇒ an error by
// Timeout⁺ + longest call + Max⁺; never hangs.  slack loosens the upper bounds for real-time runs.
func oracle(c config, res *result, slack time.Duration) string {
	if res.panicked != "" {
		return "panic: " + res.panicked
	}
	if res.spin.Load() {
		return fmt.Sprintf("busy loop: %d attempts at one virtual instant, no wait between failed attempts", spinLimit)
	}
	if res.never.Load() || !res.returned {
		return "never returns: no result within 4*(Timeout+Max)+1min (hangs instead of giving up)"
	}
	var reasons []string
	if len(res.calls) == 0 {
		what := "a failure"
		if c.entry(0).ok {
			what = "a success"
		}
		reasons = append(reasons, fmt.Sprintf("no attempt at all: the wrapped getter was never called (its first response would have been %s), whatever Timeout is (%v) the first successful response must be returned", what, c.to))
	}
	first := -1
	for i, cl := range res.calls {
		if cl.ok {
			first = i
			break
		}
	}
	if first >= 0 {
		cl := res.calls[first]
		if res.err != nil {
			reasons = append(reasons, fmt.Sprintf("error returned although call %d succeeded", first))
		} else if !reflect.DeepEqual(res.hdr, cl.hdr) || !bytes.Equal(res.body, cl.body) {
			reasons = append(reasons, fmt.Sprintf("returned headers/body are not those of the first success (call %d), unmodified", first))
		}
		if len(res.calls) != first+1 {
			reasons = append(reasons, fmt.Sprintf("%d further call(s) after the first success", len(res.calls)-first-1))
		}
	} else {
		if res.err == nil {
			reasons = append(reasons, "a response was returned although every call failed")
		}
		// "returns the first successful response … for all k up to the number of attempts the timeout allows": giving up is for
		// when the timeout has run out.  An error returned so early that even the longest permitted wait would have ended before
		// the timeout, while the next response of the wrapped getter is a success, withholds that success.
		if n := len(res.calls); res.err != nil && n > 0 && c.max >= 0 {
			// walk the script from where the getter stopped, charging every wait at its maximum: a success whose attempt would
			// still have started before the timeout was withheld
			t := res.retAt
			for j := n; j < n+64; j++ {
				t += c.max
				if t+slack >= c.to {
					break
				}
				if c.entry(j).ok {
					reasons = append(reasons, fmt.Sprintf("gave up early: error returned at %v after %d failed attempt(s) although the timeout is %v, a wait is at most MaxRetryDelay = %v, and attempt %d — which even at the longest permitted waits starts at %v, before the timeout — succeeds: the first successful response is not returned for k = %d failures, which the timeout allows", res.retAt, n, c.to, c.max, j+1, t, j))
					break
				}
				t += c.entry(j).dur
			}
		}
		// the time between the end of the last failed attempt and giving up is a wait like any other
		if n := len(res.calls); res.err != nil && n > 0 && c.max >= 0 && res.retAt-res.calls[n-1].end > c.max+slack {
			reasons = append(reasons, fmt.Sprintf("wait above MaxRetryDelay: after the last failed attempt (ended at %v) the getter sat for %v before giving up at %v; a wait is at most %v", res.calls[n-1].end, res.retAt-res.calls[n-1].end, res.retAt, c.max))
		}
		bound := max(c.to, 0) + c.maxDur() + max(c.max, 0) + slack
		if res.retAt > bound {
			reasons = append(reasons, fmt.Sprintf("gave up too late: returned at %v, bound Timeout+call+Max = %v", res.retAt, bound))
		}
	}
	deadline := max(c.to, 0)
	// the timeout runs from the call: with a positive retry delay no attempt STARTS after it has run out (an attempt in flight
	// at that moment may finish) — a deadline counted from anywhere later (the first failure, the last success) lets the getter
	// go on for longer than "roughly the timeout plus one retry delay" when attempts take time.  (Delays <= 0: finding F13.)
	if c.max > 0 {
		for i, cl := range res.calls {
			if i > 0 && cl.start > deadline+slack {
				reasons = append(reasons, fmt.Sprintf("attempt %d started at %v, after the timeout (%v from the call) had run out", i+1, cl.start, c.to))
				break
			}
		}
	}
	for i, w := range res.waits() {
		if c.max >= 0 && w > c.max+slack {
			reasons = append(reasons, fmt.Sprintf("wait %d above MaxRetryDelay: %v > %v", i, w, c.max))
		}
		if c.max > 0 && w < min(fourSeconds, c.max) {
			reasons = append(reasons, fmt.Sprintf("wait below min(4s,Max): wait %d = %v", i, w))
		}
		if w <= 0 {
			when := "before"
			if res.calls[i].end >= deadline {
				when = "after"
			}
			reasons = append(reasons, fmt.Sprintf("busy loop: attempt %d follows the failed attempt %d without any wait (%s the deadline)", i+1, i, when))
			break
		}
	}
	return strings.Join(reasons, "; ")
}

type emitter struct {
	t *testing.T
	r *hx.Run
}

// one virtual-time case: run the real code, then write the case line (with the branch choices it
// made), the observation and the oracle's verdict
func (e *emitter) virtual(c config, family string) *result {
	res := runVirtual(e.t, c)
	obs := observed(res)
	line := fmt.Sprintf("C20.get to=%d max=%d script=%s tie=%s spin=%d", int64(c.to), int64(c.max), c.scriptString(), tieBits(res), spinLimit)
	kind := obs
	if i := strings.IndexByte(obs, ' '); i > 0 {
		kind = obs[:i]
	}
	tags := []string{"family=" + family, "result=" + kind, "calls=" + bucket(len(res.calls))}
	switch {
	case c.max < 0:
		tags = append(tags, "max<0")
	case c.max == 0:
		tags = append(tags, "max=0")
	default:
		tags = append(tags, "max>0")
	}
	if c.to <= 0 {
		tags = append(tags, "timeout<=0")
	}
	for i, cl := range res.calls {
		if i > 0 && cl.start >= max(c.to, 0) {
			tags = append(tags, "attempt-at-or-after-deadline")
			break
		}
	}
	nontrivial := len(res.calls) > 1 || res.spin.Load()
	e.r.Emit(line, obs, oracle(c, res, 0), fmt.Sprintf("%d|%d|%s", c.to, c.max, c.scriptString()), nontrivial, tags...)
	return res
}

func bucket(n int) string {
	switch {
	case n <= 1:
		return strconv.Itoa(n)
	case n <= 4:
		return "2-4"
	case n <= 16:
		return "5-16"
	case n <= 128:
		return "17-128"
	default:
		return ">128"
	}
}

func kThenOK(k int, dur time.Duration) []entry {
	s := make([]entry, 0, k+1)
	for i := 0; i < k; i++ {
		s = append(s, entry{dur, false})
	}
	return append(s, entry{dur, true})
}

// grid: Timeout × Max × call duration × {fail for ever, k failures then success for every k up to
// one more than the number of attempts the timeout allows}
func (e *emitter) grid() {
	const s = time.Second
	for _, to := range []time.Duration{0, s, 7 * s, 8 * s, 2 * time.Minute} {
		for _, mx := range []time.Duration{s, 3 * s, 4 * s, 30 * s, 5 * time.Minute} {
			for _, dur := range []time.Duration{0, s, mx} {
				forever := e.virtual(config{to, mx, []entry{{dur, false}}}, "grid-fail-forever")
				n := len(forever.calls)
				for k := 0; k <= n+1; k++ {
					e.virtual(config{to, mx, kThenOK(k, dur)}, "grid-k-then-success")
				}
			}
		}
	}
}

// F13 grid: MaxRetryDelay ≤ 0
func (e *emitter) gridNonPositiveMax() {
	const s = time.Second
	for _, to := range []time.Duration{0, s, 7 * s, 8 * s, 2 * time.Minute} {
		for _, mx := range []time.Duration{0, -s} {
			for _, dur := range []time.Duration{0, s, 250 * time.Millisecond} {
				e.virtual(config{to, mx, []entry{{dur, false}}}, "nonpositive-max")
				for _, k := range []int{0, 1, 2, 3, 5, 9} {
					e.virtual(config{to, mx, kThenOK(k, dur)}, "nonpositive-max")
				}
			}
			// time passes in the calls first, then the getter fails at once for ever
			e.virtual(config{to, mx, []entry{{s, false}, {s / 2, false}, {0, false}}}, "nonpositive-max")
		}
	}
}

func (e *emitter) random(n int) {
	rng := e.r.Rng(20)
	const ms = time.Millisecond
	pick := func(l ...time.Duration) time.Duration { return l[rng.IntN(len(l))] }
	for i := 0; i < n; i++ {
		whole := rng.IntN(2) == 0 // whole seconds: many exact timer/deadline coincidences
		unit := ms
		if whole {
			unit = time.Second
		}
		var c config
		switch rng.IntN(8) {
		case 0:
			c.to = pick(0, 0, -time.Second, -1)
		case 1:
			c.to = pick(4, 12, 28, 60, 8, 16, 20, 58, 120) * time.Second
		default:
			if whole {
				c.to = time.Duration(1+rng.IntN(200)) * time.Second
			} else {
				c.to = time.Duration(1+rng.IntN(200000)) * ms
			}
		}
		nonpos := rng.IntN(7) == 0
		switch {
		case nonpos:
			c.max = pick(0, 0, -1, -time.Second, -time.Duration(1+rng.IntN(1<<30)), -time.Duration(1)<<61)
		case rng.IntN(3) == 0:
			c.max = time.Duration(1+rng.IntN(10000)) * ms
		case whole:
			c.max = time.Duration(1+rng.IntN(400)) * time.Second
		default:
			c.max = time.Duration(1+rng.IntN(400000)) * ms
		}
		ln := 1 + rng.IntN(10)
		for j := 0; j < ln; j++ {
			var d time.Duration
			switch {
			case rng.IntN(3) == 0:
				d = 0
			case nonpos:
				d = time.Duration(1+rng.IntN(50)) * 100 * ms // ≥ 100 ms: bounded number of attempts
			case whole:
				d = time.Duration(rng.IntN(1+int(min(2*c.max+2*time.Second, 60*time.Second)/time.Second))) * time.Second
			default:
				d = time.Duration(rng.Int64N(1 + int64(min(2*c.max+2*time.Second, 60*time.Second)/unit))) * unit
			}
			c.script = append(c.script, entry{d, rng.IntN(6) == 0})
		}
		if rng.IntN(2) == 0 {
			c.script[ln-1].ok = true
		}
		e.virtual(c, "random")
	}
}

// realTime: a few millisecond-scale runs outside any bubble (real timers, real clock): the bubble
// is not what makes the property hold.  Harness-only lines (`#…`): the oracle decides, with slack
// on the upper bounds only.
func (e *emitter) realTime() {
	const ms = time.Millisecond
	for _, c := range []config{
		{80 * ms, 10 * ms, []entry{{0, false}}},
		{80 * ms, 10 * ms, kThenOK(3, 0)},
		{50 * ms, 20 * ms, kThenOK(2, 5*ms)},
		{0, 5 * ms, []entry{{0, false}}},
		{60 * ms, 25 * ms, kThenOK(0, 2*ms)},
		{40 * ms, 15 * ms, []entry{{3 * ms, false}}},
	} {
		res := &result{}
		start := time.Now()
		s := &scripted{c: c, res: res, limit: c.giveUpLimit(),
			since: func() time.Duration { return time.Since(start) }, sleep: time.Sleep}
		g := &trust.RetryHTTPSGetter{Timeout: c.to, MaxRetryDelay: c.max, Getter: s}
		done := make(chan struct{})
		go func() {
			defer close(done)
			defer func() {
				if e := recover(); e != nil {
					res.panicked = fmt.Sprint(e)
				}
			}()
			h, b, err := g.Get("https://pcs.invalid/real")
			res.retAt = time.Since(start)
			res.hdr, res.body, res.err = h, b, err
			res.returned = true
		}()
		select {
		case <-done:
		case <-time.After(10 * time.Second):
			res.never.Store(true)
			s.abort.Store(true)
			<-done
		}
		obs := observed(res)
		kind := obs
		if i := strings.IndexByte(obs, ' '); i > 0 {
			kind = obs[:i]
		}
		// no timestamps in the canonical line of a real-time run
		line := fmt.Sprintf("#C20.real to=%d max=%d script=%s", int64(c.to), int64(c.max), c.scriptString())
		e.r.Emit(line, fmt.Sprintf("%s n=%d", kind, len(res.calls)), oracle(c, res, 2*time.Second), "real|"+line, len(res.calls) > 1,
			"family=real-time", "result="+kind)
	}
}

func TestC20(t *testing.T) {
	out := os.Getenv("TDX_OUT")
	if out == "" {
		t.Skip("TDX_OUT not set: this test is the C20 correspondence driver, run through run.py")
	}
	tier := os.Getenv("TDX_TIER")
	if tier == "" {
		tier = "quick"
	}
	seed, _ := strconv.ParseUint(os.Getenv("TDX_SEED"), 10, 64)
	if seed == 0 {
		seed = 1
	}
	r, err := hx.NewRun("C20", tier, seed, out)
	if err != nil {
		t.Fatal(err)
	}
	e := &emitter{t: t, r: r}
	e.grid()
	e.gridNonPositiveMax()
	if tier == "thorough" {
		e.random(30000)
		e.realTime()
	} else {
		e.random(500)
	}
	e.defaults()
	r.Exhaust = true
	r.Note("grid", "Timeout{0,1s,7s,8s,2m} x Max{1s,3s,4s,30s,5m} x call duration{0,1s,Max} x {fail for ever, k failures then success for k = 0..attempts+1}; Max{0,-1s} x the same timeouts x duration{0,1s,250ms} x {for ever, k in 0,1,2,3,5,9} (F13)")
	r.Note("random", "seeded random scripts (1-10 entries, last repeats), random Timeout (incl. <=0) and Max (1/7 <= 0), half of them in whole seconds to provoke timer/deadline ties")
	r.Note("spin_guard", spinLimit)
	if err := r.Close(); err != nil {
		t.Fatal(err)
	}
}


// defaults: trust.DefaultHTTPSGetter() is a fresh getter with the documented configuration on every call — changing one
// caller's instance must not reconfigure anybody else's (harness-only).
func (e *emitter) defaults() {
	obs, fail := "fresh", ""
	g1, ok1 := trust.DefaultHTTPSGetter().(*trust.RetryHTTPSGetter)
	if !ok1 {
		obs, fail = "other-type", "DefaultHTTPSGetter is not the retrying getter"
	} else {
		wantT, wantM := g1.Timeout, g1.MaxRetryDelay
		g1.Timeout, g1.MaxRetryDelay, g1.Getter = time.Nanosecond, -1, nil
		g2, ok2 := trust.DefaultHTTPSGetter().(*trust.RetryHTTPSGetter)
		switch {
		case !ok2:
			obs, fail = "other-type", "DefaultHTTPSGetter is not the retrying getter"
		case g1 == g2:
			obs, fail = "shared", "two calls of DefaultHTTPSGetter return the same instance: one caller's configuration change reconfigures every user of the default"
		case g2.Timeout != wantT || g2.MaxRetryDelay != wantM || g2.Getter == nil:
			obs, fail = "reconfigured", fmt.Sprintf("a later DefaultHTTPSGetter carries Timeout=%v MaxRetryDelay=%v after another caller changed its own instance (default %v / %v)", g2.Timeout, g2.MaxRetryDelay, wantT, wantM)
		case wantT != 2*time.Minute || wantM != 30*time.Second:
			obs, fail = "other-defaults", fmt.Sprintf("default configuration is Timeout=%v MaxRetryDelay=%v, documented 2m / 30s", wantT, wantM)
		}
	}
	e.r.Emit("# C20.defaults", obs, fail, "defaults", true, "defaults")
}


type timeoutErr struct{}

func (timeoutErr) Error() string   { return "scripted failure: i/o timeout" }
func (timeoutErr) Timeout() bool   { return true }
func (timeoutErr) Temporary() bool { return true }
