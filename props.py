"""Per-property registry used by run.py: driver, rule text, trusted base, projections."""

PROPS = {
    "C15": {
        "rule": "exhaustive grid report{err,0,1,7,8,9} x quote{err,0,1,9} x status{0,in-flight,error,unavailable,5,2^63+5} x OutLen{0,1,5006,16383,16384,16385,2^32-1} x buffer{pattern,left-in-place,random} through client.GetRawQuote with a scripted client.Device, plus random scripts, the 12 provider behaviours and GetQuote on the sample quote; a case is non-trivial when the report request succeeded (the quote request is reached); distinct = distinct (script outcome tuple, buffer kind)",
        "trusted_base": ["client/client_linux.go (ioctl marshalling, LinuxDevice) is not modelled; the fallback path is only observed to be taken"],
        "assumptions": ["device scripts fix the device's behaviour independently of the request contents"],
    },
}

# Text for MANIFEST.json (gen_manifest.py)
MANIFEST_TEXT = {
    "C15": {
        "text": "Lean theorems over all device scripts (device_relay_spec: ok iff both requests succeed, status 0, 0<OutLen<=ReqBufSize, bytes = first OutLen bytes the device left; never_panics; failure_is_error; request contents; provider_spec), with the model tied to client.go by regenerated linuxabi constants and an exhaustive behavioural grid through the real client.GetRawQuote with a scripted Device / QuoteProvider.",
        "note": "Trusted: Lean kernel (axioms propext/Classical.choice/Quot.sound at most), extractor, harness. Not modelled: client_linux.go ioctl marshalling and the real LinuxDevice used by the provider fallback (only observed to be taken). Device scripts fix device behaviour independently of the request.",
        "technique": "Lean 4 proof over an executable model + differential correspondence (exhaustive grid)",
    },
}
