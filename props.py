"""Per-property registry used by run.py: driver, rule text, trusted base, projections."""

import re as _re

def strip_cls(line):
    """verification group: the model appends its error class (diagnostic only); compare verdict, URLs and Options.Now only"""
    return _re.sub(r" cls=\S*$", "", line)

PROPS = {
    "C15": {
        "rule": "exhaustive grid report{err,0,1,7,8,9} x quote{err,0,1,9} x status{0,in-flight,error,unavailable,5,2^63+5} x OutLen{0,1,5006,16383,16384,16385,2^32-1} x buffer{pattern,left-in-place,random} through client.GetRawQuote with a scripted client.Device, plus random scripts, the 12 provider behaviours and GetQuote on the sample quote; the last six successful results are kept and re-compared after every later fetch (a result must not share memory with a later request); a case is non-trivial when the report request succeeded (the quote request is reached); distinct = distinct (script outcome tuple, buffer kind)",
        "trusted_base": ["client/client_linux.go (ioctl marshalling, LinuxDevice) is not modelled; the fallback path is only observed to be taken"],
        "assumptions": ["device scripts fix the device's behaviour independently of the request contents"],
    },
}

# Text for MANIFEST.json (gen_manifest.py)
MANIFEST_TEXT = {
    "C15": {
        "text": "Lean theorems over all device scripts (device_relay_spec: ok iff both requests succeed, status 0, 0<OutLen<=ReqBufSize, bytes = first OutLen bytes the device left; never_panics; failure_is_error; request contents; provider_spec), with the model tied to client.go by regenerated linuxabi constants and an exhaustive behavioural grid through the real client.GetRawQuote with a scripted Device / QuoteProvider.",
        "note": "Trusted: Lean kernel (axioms propext/Classical.choice/Quot.sound at most), extractor, harness. Not modelled: client_linux.go ioctl marshalling and the real LinuxDevice used by the provider fallback (only observed to be taken). Device scripts fix device behaviour independently of the request.",
        "technique": "Lean 4 proof over an executable model + differential correspondence (exhaustive grid)",
    },
}

PROPS["C09"] = {
    "rule": "abi.QuoteToProto on: every truncation length of the Intel sample and of synthetic quotes, boundary values {0,1,exact-1,exact,exact+1,max/2,max} of each of the 9 size/type fields singly and in pairs, plus the number of bytes that follow the field inside each enclosing container (whole input, signed data) -8..+2, trailing bytes, random/structure-aware mutants, fresh synthetic quotes (distinct bytes in equal-sized fields); abi.QuoteToAbiBytes/CheckQuoteV4/sub-serialisers on every single structural mutation of valid messages (each sub-message absent, each bytes field at length 0/n-1/n+1, RTMR count 0-5, numeric boundary values) and random well-formed messages; non-trivial = input reaches past the fixed header+body (>= 636 bytes) / message passes CheckQuoteV4; distinct by input spec",
    "trusted_base": ["uint32 truncation of lengths is modelled without wrap-around: inputs are assumed shorter than 2^32 bytes (O-6)",
                     "serialisers are modelled as check-then-concatenate; that Go's make+copy-at-offset equals concatenation rests on the regenerated offsets tiling the records (theorem layout_contiguous) and on the behavioural comparison"],
    "assumptions": ["protobuf nil/empty bytes are identified (proto.Equal semantics)"],
}

MANIFEST_TEXT["C09"] = {
    "text": "Lean theorems over all byte strings: serialize_parse (accepted input is reproduced byte for byte), signed_message_is_prefix (re-serialised header||body = bytes 0-631), layout_contiguous (regenerated offset table tiles the records in Intel's order), F1 witnesses; Go-faithful parser/serialiser model with the regenerated offsets, compared with abi.QuoteToProto / QuoteToAbiBytes on every truncation, size-field boundary pairs, mutants and structural message mutations, with an independent cursor-based layout oracle.",
    "note": "Trusted: Lean kernel, extractor, harness. Inputs assumed < 2^32 bytes (uint32 truncation not modelled). Serialisers modelled as check-then-concatenate (justified by layout_contiguous + behavioural comparison). protobuf decoding itself is not modelled.",
    "technique": "Lean 4 proof over a Go-faithful executable model + differential correspondence",
}

PROPS["C20"] = {
    "rule": "go1.26.8 testing/synctest: the real trust.RetryHTTPSGetter.Get in a virtual-time bubble with a scripted wrapped getter; exhaustive grid Timeout{0,1s,7s,8s,2m} x Max{1s,3s,4s,30s,5m} x call duration{0,1s,Max} x {fail for ever, k failures then success for every k = 0..attempts+1}, Max{0,-1s} x the same timeouts x duration{0,1s,250ms} (F13), seeded random scripts (thorough: 30000, plus 6 real-time millisecond runs outside the bubble); the exact virtual timestamps of every call and of the return are compared with the model's trace; a case is non-trivial when at least one retry happened; distinct = distinct (Timeout, Max, script)",
    "prebuild": [
        # a temporary modfile carries the replace directive (the tracked go.mod is never edited)
        {"cwd": "{root}/harness-synctest", "copy": [["{root}/harness-synctest/go.mod", "{root}/.cache/synctest.mod"], ["{repo}/go.sum", "{root}/.cache/synctest.sum"]],
         "cmd": ["go1.26.8", "mod", "edit", "-modfile={root}/.cache/synctest.mod", "-replace", "github.com/google/go-tdx-guest={repo}"]},
        {"cwd": "{root}/harness-synctest",
         "cmd": ["go1.26.8", "test", "-c", "-modfile={root}/.cache/synctest.mod", "-o", "{bin}/tdxsynctest", "."]},
    ],
    "driver_cmd": ["env", "TDX_OUT={out}", "TDX_TIER={tier}", "TDX_SEED={seed}", "{bin}/tdxsynctest", "-test.run", "^TestC20$", "-test.count=1", "-test.timeout=20m"],
    "trusted_base": ["testing/synctest (go1.26.8) virtual clock and its scheduling of simultaneous timers; OS timers are exercised only by the 6 millisecond-scale real-time runs of the thorough tier",
                     "where Go's select may go either way (retry timer and deadline ready at the same virtual instant) the model follows the branch the real code took (tie= token of the case line)"],
    "assumptions": ["the wrapped getter returns from every call (a getter that blocks for ever is outside the model and outside the property)",
                    "|MaxRetryDelay| < 2^62 ns, so that delay+delay does not overflow int64",
                    "MaxRetryDelay <= 0 is the known finding F13 (busy loop); the theorems no_busy_loop / terminates / gives_up_in_bounded_time assume 0 < MaxRetryDelay"],
}

MANIFEST_TEXT["C20"] = {
    "text": "Lean theorems over an executable virtual-time model of RetryHTTPSGetter.Get, for every script of the wrapped getter, every Timeout/MaxRetryDelay (also <= 0) and every resolution of timer/deadline ties (returns_first_success_intact, no_call_after_success, timeout_only_after_failures, each_wait_le_max, no_busy_loop, waits_exact = min(2^(i+2) s, Max), terminates with a computable call bound, gives_up_in_bounded_time <= max(Timeout,0) + longest call; max_zero_spins_witness = known finding F13), tied to trust.go by the regenerated initial delay / default constants and by running the real Get under go1.26.8 testing/synctest against a scripted getter on an exhaustive grid: the exact virtual timestamps of every call and of the return equal the model's trace.",
    "note": "Partial: OS timers and a wrapped getter that never returns are outside the model; virtual-time traces are exact (real time is only sanity-checked at millisecond scale in the thorough tier). Trusted: Lean kernel (axioms propext/Classical.choice/Quot.sound at most), extractor, harness, testing/synctest. When the retry timer and the deadline fire at the same virtual instant Go may take either branch; the model is proved for every resolution and the comparison follows the branch the real code took. Known finding F13 (not fixed, spec clauses conflict at Max = 0): MaxRetryDelay <= 0 gives zero-length waits, a busy loop until the deadline and a random number of extra attempts after it.",
    "technique": "Lean 4 proof over an executable model + differential correspondence in virtual time (testing/synctest, exhaustive grid)",
}

PROPS['C17'] = {'rule': 'the real rtmr.ExtendDigestClient / rtmr.ExtendEventLogClient (and go-configfs-tsm v0.3.2 rtmr.ExtendDigest underneath) against a recording in-memory '
         'configfsi.Client with real SHA-384 registers: (a) every single request of index{-2^31,-1,0,1,2,3,4,5,2^31-1} x (digest length{0,1,47,48,49,64} + '
         'algorithm{SHA-384,SHA-256,SHA-512,0,SHA3-384 (available, 48-byte output)} x log{empty,1 byte,1 KiB}) = 189 requests x 4 pre-existing states (no '
         'entry / entry bound to the index / eight junk entries: plain file, empty, text, unreadable, 2^64-1, >2^64, +n, -1 / entry bound to another index); '
         '(b) ALL sequences of length <=3 (quick; each under all 4 pre-existing states) or <=5 (thorough; 271 452 sequences, lengths 4-5 rotate the state) '
         "over a 12-letter sub-alphabet (valid digests for 0,1,2,2',3; valid logs for 2,3; index 4; index -1; 47-byte digest; SHA-256; empty log); (c) random "
         '20-request histories with random digests/logs, random pre-existing entries (index spelled n, n\\n, 0n\\n\\n, 000n) and random initial register '
         'values. Compared with the model: per-request result, the complete canonical operation trace (ReadDir/ReadFile/MkdirTemp/WriteFile with entry names '
         'and data) and the four register values (the model computes SHA-384 itself). A case is non-trivial when at least one request is valid; distinct = '
         'distinct case line',
 'trusted_base': ['go-configfs-tsm v0.3.2 rtmr.ExtendDigest is modelled as pinned (search/create/write order) and re-validated by every correspondence run; '
                  'the in-memory TSM of the driver (kernel-like: EBUSY on a second binding of an index, EINVAL on a non-48-byte digest, digest write extends '
                  "the register of the entry's index) stands for the kernel's configfs-tsm, which is out of scope",
                  'SHA-384 is a parameter of the theorems (any function with 48-byte output); the executable model instantiates it with a SHA-384 written in '
                  'Lean (constants computed from the primes), whose agreement with crypto/sha512 is checked by every compared register and event-log digest'],
 'assumptions': ['64-bit Go int (int(uint64) wraps at 2^63)',
                 'the TSM starts well formed: distinct entry names, at most one entry bound per index (the kernel enforces this with EBUSY)',
                 'client operations on existing entries do not fail spontaneously (ReadDir/MkdirTemp/WriteFile I/O errors are not modelled)']}

MANIFEST_TEXT['C17'] = {'text': 'Lean theorems for every hash function with 48-byte output, every TSM state, request and request history (invalid_request_touches_nothing: no client '
         'operation, error, state unchanged; valid_request_one_extend: success, exactly one digest write of the requested digest / sha384(log) to an entry '
         'bound to the index, re-used if one exists, otherwise created by one MkdirTemp + one index write, only that register extended; wellFormed_step / '
         'at_most_one_entry_per_index invariant; registers_are_extend_chains by induction over the history), over an executable model of rtmr/extend.go on top '
         "of go-configfs-tsm v0.3.2's entry search, tied to the code by an exhaustive differential run (all single requests of the alphabet x 4 pre-existing "
         'TSM states, all sequences up to length 3 / 5 over 12 letters, random 20-request histories) of the real ExtendDigestClient / ExtendEventLogClient '
         'against a recording configfsi.Client with real SHA-384 registers, comparing results, complete operation traces and register values, plus an '
         'independent Go oracle of the statement.',
 'note': 'Trusted: Lean kernel (axioms propext/Classical.choice/Quot.sound at most), harness. go-configfs-tsm is modelled as pinned (v0.3.2) and re-validated '
         "by the same correspondence run; the real kernel TSM is out of scope (the driver's in-memory TSM implements: digest write extends the register bound "
         "to the entry's index, EBUSY on double binding, EINVAL on wrong digest length). SHA-384 is a parameter of the theorems. The literals 0, 3 (index "
         'range), 48 (crypto.SHA384.Size()) and 6 (crypto.SHA384) are inline in extend.go / the Go standard library and not regenerated; 48 and the range are '
         'tied by rfl/decide to abi.RtmrSize and abi.rtmrsCount. I/O failures of the client are not modelled.',
 'technique': 'Lean 4 proof over an executable model + differential correspondence (exhaustive bounded histories + random)'}

PROPS['C13'] = {'rule': 'real X.509 leaf certificates (crypto/x509.CreateCertificate + ParseCertificate, six extensions, SGX extension value assembled with encoding/asn1) '
         'through pcs.PckCertificateExtensions: boundary values per component {0,127,128,255 | 256,-1,257,511,65535,65536,-128,-129,-256,2^31,2^63-1,-2^63, '
         'four >64-bit} and for PCESVN {0,1,127,128,255,256,32767,32768,65534,65535 | 65536,65537,-1,-32768,-65536,131071,2^31,2^32,2^63-1,-2^63, three '
         '>64-bit}, each in canonical and shuffled order; 200 (quick) / 5000 (thorough) random permutations of both sequences with random values and 0-3 '
         'unknown sub-extensions; every octet string at size-1/size+1/0/size+2/2*size/3/130, double-wrapped (O-4b), wrapped with wrong inner size / trailing '
         'byte / long-form length / other tag / twice; wrong ASN.1 types in every field (11 non-INTEGER and 8 non-OCTET-STRING forms); malformed elements, '
         'non-minimal INTEGER and length encodings, trailing bytes, truncation, SET/indefinite/over-long top level, junk inside sequences; SGX extension '
         'absent, 5 and 7 extensions, decoy extension id; O-4 shapes (missing/duplicate items and components, 17/19 TCB elements, 3 SGX elements), extra '
         "fields / critical flag / junk a struct target ignores; 400 / 6000 random byte mutations of valid DER. The model's input is the driver's own "
         "encoding/asn1 RawValue walk of the parsed certificate's extension value. A case is non-trivial when the certificate has six extensions and the SGX "
         'value decodes to a SEQUENCE with nothing after it; distinct = distinct model input lines',
 'trusted_base': ['encoding/asn1 (DER framing and primitive decoding) and crypto/x509 (certificate parsing) are parameters: the proof is over decoded trees, '
                  'the tree of every generated certificate is produced by encoding/asn1 itself in the driver',
                  'the per-target reading of a tree (RawValue / []RawValue / pkix.AttributeTypeAndValue / pkix.Extension / ANY) is modelled from '
                  "encoding/asn1's source (go1.23.5) and exercised by every correspondence run, including random byte mutations"],
 'assumptions': ['O-4 and O-4b (DESIGN.md §7) are modelled as the code behaves: absent items/components silently keep their zero value; an octet-string item '
                 'that is a DER OCTET STRING of the wanted size is unwrapped',
                 'the three octet-string sizes are < 128 (checked by `sizes_small : … := by decide` against the extracted constants)']}

MANIFEST_TEXT['C13'] = {'text': 'Lean theorems over all decoded ASN.1 trees of the SGX extension value (extraction_exact: for every value assignment, every List.Perm of the 18 TCB '
         'elements and of the SGX sub-extensions with any unknown sub-extensions added, plain or wrapped octet strings, the result is exactly the encoded '
         'values; out_of_range_is_error, wrong_size_is_error (+cpusvn), wrong_type_is_error (+cpusvn, item, tcb), missing_sgx_extension_is_error, '
         'wrong_extension_count_is_error, malformed_asn1_is_error: one bad element at any position makes the whole extraction an error; octet_item_sound; '
         'extract_never_panics), with the model tied to pcs.go by the regenerated OIDs/sizes and by running the real pcs.PckCertificateExtensions on real '
         'generated X.509 certificates (boundary values, random permutations, every malformed variant, random byte mutations) whose extension value the driver '
         "decodes with encoding/asn1 into the model's tree.",
 'note': "DER decoding is encoding/asn1's and is a parameter: the proof is over decoded trees; how each asn1.Unmarshal target reads a tree is modelled from "
         'the Go 1.23.5 source and checked behaviourally. O-4 (absent component/item silently zero/empty) and O-4b (double-wrapped octet strings accepted) are '
         'modelled as the code behaves and are outside the error theorems. Trusted: Lean kernel (axioms propext/Classical.choice/Quot.sound at most), '
         'extractor, harness.',
 'technique': 'Lean 4 proof over an executable model + differential correspondence (structured grid + random)'}

PROPS["C08"] = {
    "rule": "validate.TdxQuote on a structurally valid base message under: every single XFAM / TD_ATTRIBUTES bit set and cleared (256), QE/PCE SVN minimums at -1/0/+1 and extremes, each of the 16 TEE_TCB_SVN components at -1/0/+1, pairs of components moved in opposite and in equal directions (-1/+1, -1/-1, +1/+1) and 200 (quick) / 5000 (thorough) vectors with every component independently below / equal / above / arbitrary, MinimumTeeTcbSvn of length 0/1/3/15/16/17/32, each of the 10 byte options in 8 variants {nil, empty, equal, differs in first/last/random byte, one short, one long} singly and pairwise (3-wise sample in thorough), RTMR lists of length 0-5 over {empty, equal, wrong, short} entries, allowed-MR_TD lists of length 0-4 with the match at each position and empty / wrongly sized entries, every structural mutation of the message, nil options, random combinations; non-trivial = options non-nil and the message structurally valid; distinct by case line",
    "trusted_base": ["validate.go is modelled Go-faithfully incl. eager evaluation of multierr.Combine arguments; logging is ignored"],
    "assumptions": ["nil vs empty byte slices are distinguished only where the code does (lengthCheck, isSvnHigherOrEqual)"],
}
PROPS["C14"] = {
    "rule": "validate.PolicyToOptions on: nil / empty policy, absent sub-policies, the full policy, each byte field independently {absent, empty, equal, different, one short, one long, 1 byte} alone and inside the full policy, SVN minimums {0, 261, 262, 65535, 65536, 2^32-1}, RTMR lists 0-5, allowed-MR_TD lists 0-4, all 625 compositions of a 4-entry RTMR list and all allowed-MR_TD lists up to length 3 over {empty, right, other content, one short, one long}, every field variant with the OTHER sub-policy absent (nil message), random policies; every successfully converted policy then validates 8 probe quotes (matching and one mismatching per field) and the verdict is compared with the policy's literal meaning; non-trivial = conversion succeeded; distinct by case line",
    "trusted_base": ["protobuf getters' nil-safety is assumed (absent sub-policies read as zero values)"],
    "assumptions": [],
}

MANIFEST_TEXT["C08"] = {
    "text": "Lean theorem validate_ok_iff_meets over every message and every options value: validation = ok exactly when CheckQuoteV4 holds and the declarative predicate Meets holds (exact fields, RTMR list, allowed MR_TD set, component-wise TEE_TCB_SVN, little-endian QE/PCE SVN minimums, XFAM / TD_ATTRIBUTES masks stated bit-wise against the regenerated constants); validate_never_panics for every (possibly nil / malformed) input; miss_is_rejected; F7 witnesses. Go-faithful model of validate.go compared with validate.TdxQuote on bit-exhaustive mask cases, boundary SVNs, pairwise option variants and structural message mutations, with an independent oracle over the statement.",
    "note": "Trusted: Lean kernel, extractor (mask constants and sizes regenerated), harness. multierr.Combine is modelled as eager evaluation of all arguments; logging ignored; protobuf getters assumed nil-safe.",
    "technique": "Lean 4 proof (refinement to a declarative spec) + differential correspondence",
}
MANIFEST_TEXT["C14"] = {
    "text": "Lean theorems: conversion_ok_iff (PolicyToOptions succeeds exactly on well-sized policies: 16-bit SVN minimums, every byte-string expectation incl. minimum_tee_tcb_svn nil or exactly sized, 4 RTMR entries), field_mapping (the options are the policy's fields, none dropped or crossed), conversion_preserves_meaning (under converted options validation = the policy's literal meaning for every quote, and never panics), F7 witnesses; compared with validate.PolicyToOptions + validate.TdxQuote on per-field size variants, SVN range boundaries, list shapes and probe quotes.",
    "note": "Trusted: Lean kernel, extractor, harness. Builds on the C08 refinement theorem. protobuf getters assumed nil-safe.",
    "technique": "Lean 4 proof (corollary of the C08 refinement) + differential correspondence",
}

PROPS['C19'] = {'rule': 'subprocess runs of the tools/check binary built from the tree under check (16 in parallel): family A = for each of the 14 policy fields the complete '
         'matrix config class {absent, matching, mismatching, malformed lengths / >65535} x flag class {absent, empty, matching (hex, upper case, base64, '
         '0x/0b literals, zero-stripped), mismatching, short-padded, blank, too long, not hex, >32 bit, negative} x config {none, binary, .textproto} x {Intel '
         'sample quote, generated-PKI quote}; family C = exhaustive config/flag check_crl x get_collateral (incl. the conflict and `maybe`) and config '
         'cabundle_paths x cabundles x -trusted_roots over {Intel root, generated root, unrelated root, file without certificates, missing file}; family F = '
         'config shapes with absent sub-messages (policy / header_policy / td_quote_body_policy / root_of_trust) x flags; family Q = {valid, generated, '
         'signature-corrupted, unparsable, empty-message} quote x bin/proto/textproto x file/stdin/missing/-inform=der; family B = pairwise covering rows over '
         'all 41 dimensions with the other choices benign (thorough: plus 24 000 rows around uncovered triples); family N = real getter with the network '
         "unreachable (dead proxy), -get_collateral from flag or config; family P = command lines Go's flag package rejects; plus in-process errors.As checks "
         'for each of the four fetches failing in turn. A case is non-trivial when command line and config are well formed (the run reaches the consistency '
         'check, the quote and the library); distinct = distinct abstract invocations',
 'trusted_base': ['the library verdicts (verify.RootOfTrustToOptions, verify.TdxQuote, validate.PolicyToOptions, validate.TdxQuote) enter the model as '
                  "per-case tables computed in-process; their correctness is C01-C14's business",
                  "github.com/google/go-sev-guest/tools/lib/cmdline (hex-then-base64 decoding of byte flags) and Go's flag package are abstracted to tokens "
                  '(decoded bytes / malformed); google.golang.org/protobuf decoding of the config file is abstracted to the message'],
 'assumptions': ['no network: the real getter is pointed at a dead local proxy, so every fetch fails at once; the in-process counterpart is a getter that '
                 'always fails',
                 "the Intel sample quote's certificates are valid at the wall clock (PCK leaf until 2029-09-20); the generated-PKI quote covers exit 0/4 "
                 'independently of it']}

MANIFEST_TEXT['C19'] = {'text': 'Lean theorems over all config shapes, flag tokens and library verdicts (exit_zero_iff: exit 0 iff the invocation is usable, the quote verifies under '
         'the effective root of trust, the effective policy converts and is satisfied; exit_code_table: usage 1 / verification 2 / download 3 / policy 4, '
         'total and injective; flag_overrides_config_* and unset_flag_keeps_config_* for bool, numeric, sized-bytes, rtmrs and path fields; '
         'network_failure_is_exit_3 and download_error_is_distinguishable for the four fetches; never_crashes / merge_never_crashes for every absent '
         'sub-message), tied to tools/check by regenerated exit codes, defaults and field sizes and by running the built binary over a structured grid whose '
         'expected class comes from in-process library calls on the effective settings.',
 'note': 'Trusted: Lean kernel (axioms propext/Classical.choice/Quot.sound at most), extractor, harness. Abstracted: flag/protobuf/cmdline decoding (tokens), '
         "the library's verdicts (per-case tables from in-process calls), the network (dead proxy / failing getter). The tool has no verification-time flag, "
         'so with collateral only exit 2/3 are reachable; exit 0/4 are exercised without collateral under the embedded root and a generated root bundle.',
 'technique': 'Lean 4 proof (decision table + merge) + differential correspondence at process level'}

# internal: base honest-world run of the verification group (not a property check; used to validate the world generator)
PROPS["V"] = {"project": strip_cls, "rule": "honest worlds at the four option settings", "no_escalation": True}

MANIFEST_TEXT["C09"] = {'text': 'Lean theorems over all byte strings / all messages: serialize_parse (accepted input is reproduced byte for byte), signed_message_is_prefix '
         '(re-serialised header||body = bytes 0-631), parse_serialize (every WellFormed message survives serialise-then-parse unchanged), '
         'size_inconsistent_rejected / roundtrip_iff_sizeConsistent (inconsistent nested sizes are rejected, never mis-parsed), parse_ok_iff_layout / '
         'parse_err_iff_not_layout (accepted inputs = the declarative V4Layout), fields_are_slices / parse_ok_iff (every field is the absolute little-endian '
         'slice), parse_eq_spec (agreement with the independent table-driven cursor parser specParse of TdxModel/AbiSpec.lean), layout_contiguous (regenerated '
         "offset table tiles the records in Intel's order), F1 witnesses; Go-faithful parser/serialiser model with the regenerated offsets, compared with "
         'abi.QuoteToProto / QuoteToAbiBytes on every truncation, size-field boundary pairs, mutants and structural message mutations, with an independent '
         'cursor-based layout oracle.',
 'note': 'Trusted: Lean kernel, extractor, harness. Inputs assumed < 2^32 bytes (uint32 truncation not modelled). Serialisers modelled as '
         'check-then-concatenate (justified by layout_contiguous + behavioural comparison). protobuf decoding itself is not modelled.',
 'technique': 'Lean 4 proof over a Go-faithful executable model + differential correspondence'}

PROPS["C18"] = {
    "rule": "rtmr.ParseCcelWithTdQuote on the repository's CCEL log with the cos-113 sample quote: genuine under the library's default options; header/body re-signed under a generated PKI (so RTMRs can change while every signature stays valid); every single-bit change of each RTMR (1/16 sample in quick, all 4x384 in thorough); 7 verification faults; 5 policy variants incl. right/wrong/empty nonce; every structural mutation of the message; unsupported Go types; seven default option sets (nonce lengths 0-64) alive at once, each checked to keep its own REPORT_DATA binding. Gate facts (verification alone, validation alone, direct go-eventlog replay against the harness's own bank) feed the model; rtmr.GetRtmrsFromTdQuote directly on every structural mutant. non-trivial = both gates pass; distinct by case line",
    "trusted_base": ["go-eventlog's replay (ccel.ReplayAndExtract) is a parameter: its verdict for the quote's RTMR bank is computed by calling it directly",
                     "verify.TdxQuote / validate.TdxQuote are parameters here (their own correctness is C01-C14); their verdicts when called alone are the gate facts"],
    "assumptions": ["the gates are deterministic functions of (quote, options) — guaranteed by C12's no-history theorem"],
}
MANIFEST_TEXT["C18"] = {
    "text": "Lean theorems over the gate sequencing of ParseCcelWithTdQuote for arbitrary gate outcomes and replay functions, the result being Go's (state, error) pair (state_implies_gates, gates_passed, failure_returns_no_state, failed_gate_never_yields_state, replay_mismatch_returns_no_state, parse_panics_only_if_part_does) and over GetRtmrsFromTdQuote for every message (bank_is_quote_rtmrs: entry i = (i, RTMR i), at most four; five_rtmrs_is_error; getRtmrs_never_panics; F12 witness), compared with the real function on a re-signed sample quote with every RTMR bit flipped, gate faults, other event logs (none, empty, cut, changed), caller-owned nonce buffers and structural mutants.",
    "note": "Trusted: Lean kernel, extractor, harness. Replay semantics are go-eventlog's (parameter); which registers the sample log has events for is observed through the direct replay call.",
    "technique": "Lean 4 proof (sequencing over parametric gates) + differential correspondence",
}

PROPS["C16"] = {
    "prebuild": [{"cwd": "{root}/harness", "cmd": ["go", "test", "-race", "-c", "-modfile={root}/.cache/harness.mod", "-o", "{bin}/tdxrace", "./race"]}],
    "driver_cmd": ["env", "TDX_OUT={out}", "TDX_TIER={tier}", "TDX_SEED={seed}", "{bin}/tdxrace", "-test.run", "^TestC16$", "-test.count=1", "-test.timeout=30m"],
    "tie_theorems": [],
    "rule": "byte-for-byte snapshots TO CAPACITY (spare capacity pre-filled with a sentinel) of every field of the message, the raw input and the option byte strings around each single call of 12 entry points (verify.TdxQuote at three option levels, SupportedTcbLevelsFromCollateral, validate.TdxQuote, QuoteToAbiBytes, the three exported sub-serialisers, CheckQuoteV4, ExtractChainFromQuote, GetRtmrsFromTdQuote) for quotes parsed from bytes / re-homed field by field inside one shared arena / round-tripped through protobuf / built directly, with QE auth data of 0,1,17,32,64,200 bytes; pointer-range disjointness of parsed fields from the input and overwrite-after-parse; go test -race with 8 (quick) / 48 (thorough) goroutines x 150 / 1500 iterations over one shared message with per-goroutine options, verdicts compared with the solo run; a cold-start worker (3 / 20 fresh processes whose FIRST 32 verifications run concurrently with the embedded root, then alone); non-trivial = every case; distinct = (entry point, construction, auth length)",
    "trusted_base": ["the Go race detector and memory model (no conflicting access => no race); schedules are only explored",
                     "the write-site inventory's provenance classification is a conservative syntactic analysis (unknown => not fresh)"],
    "assumptions": ["callees in the standard library, protobuf and go-eventlog do not write to their byte-slice arguments (exercised by the snapshots, not proved)"],
}
MANIFEST_TEXT["C16"] = {
    "text": "Lean heap model (buffers with identity, slices with capacity, Go append semantics, write log): the frame lemma, concat_key_auth / concat_header_body / apply_mask write only into buffers allocated during the call, clone_is_fresh_copy, readers_commute (any interleaving of write logs that avoid the shared buffers reads the same); tie to the source by two regenerated inventories proved by kernel evaluation — all_write_sites_fresh (every append/copy/store/PutUint site of abi.go, verify.go, validate.go has a fresh destination) and parser_output_disjoint_from_input (no *ToProto function lets a field alias its parameter) — plus dynamic validation: snapshots to capacity around 12 entry points for four constructions of the message, aliasing checks, and the race detector on concurrent use.",
    "note": "Partial: the model proves there is nothing to race on and ties that to the source through the write-site inventory; actual interleavings are only explored with the race detector. Trusted: Lean kernel, extractor (syntactic provenance analysis), harness, Go race detector.",
    "technique": "Lean 4 proof over a heap model + regenerated write-site/alias inventories + snapshot and race-detector exploration",
}

PROPS["C10"] = {
    "project": strip_cls,
    "rule": "crash-only oracle (any panic; any call not returned after 30 s) over: the complete C09 generator (abi.QuoteToProto on every truncation, size-field boundary pairs, mutants; QuoteToAbiBytes / CheckQuoteV4 / sub-serialisers on structural message mutants), the C08 generator (validate.TdxQuote on option variants and structural mutants), the C13 generator (pcs.PckCertificateExtensions on malformed and mutated DER), the C18 generator (GetRtmrsFromTdQuote, ParseCcelWithTdQuote), plus verify.RawTdxQuote / validate.RawTdxQuote on truncations and mutants of the Intel sample, nil / typed-nil / wrong-type arguments for every entry point, structurally arbitrary messages and arbitrary certificate-chain bytes through verify.TdxQuote and ExtractChainFromQuote, arbitrary TCB-Info / QE-Identity bodies (empty, non-JSON, wrong shape, null members, huge numbers, bad hex, unknown status, deep nesting, byte mutants of a genuine body), every issuer-chain header fault, garbage / failing / very large CRLs; non-trivial = every case; distinct by case line",
    "trusted_base": ["panics or hangs INSIDE encoding/pem, crypto/x509, encoding/json, encoding/asn1, protobuf and go-eventlog on adversarial bytes are only explored (recover + watchdog), not proved; the proved part is every slice, index, type assertion and dereference the repository's own code performs, as modelled"],
    "assumptions": ["SHA-256 returns 32 bytes (hypothesis of verify_TdxQuote_never_panics)"],
}
MANIFEST_TEXT["C10"] = {
    "text": "One Lean theorem per public entry point, each for every input: QuoteToProto (all byte strings), QuoteToAbiBytes / CheckQuoteV4 / the three sub-serialisers (all messages incl. nil), validate.TdxQuote and RawTdxQuote (all messages, all options), verify.TdxQuote and RawTdxQuote (all messages, all worlds of decoded chain / collateral / CRL / header facts, all options), ExtractChainFromQuote, PckCertificateExtensions (all decoded trees), GetRtmrsFromTdQuote; model functions are structurally recursive (no fuel); witnesses for F1, F2, F7, F12. The models carry a panic outcome at every slice / index / type assertion / nil dereference of the repository's own code; the correspondence re-runs all adversarial generators under a crash-only oracle with a 30 s watchdog.",
    "note": "Partial: crashes or hangs inside the standard library, protobuf or go-eventlog on adversarial bytes are only explored. Trusted: Lean kernel, extractor, harness.",
    "technique": "Lean 4 proof (panic-carrying Go-faithful models) + crash-only differential exploration",
}

# ---- verification group, part A (C01 C02 C11)
PROPS["C01"] = {
    "project": strip_cls,
    "rule": "complete synthetic attestation worlds (harness/world: PKI, quote, signed collateral, CRLs, scripted getter) and the repository's Intel sample quote through the real verify.TdxQuote, every world also put to the model (V.verify): "
            "(a) single-bit mutants of every wire byte in front of the certificate chain (header, TD body, signed-data size, signature, attestation key, certification type/size, QE report, QE report signature, auth size, auth data, chain type/size) of 3 genuine synthetic quotes (auth data 32 / 1-63 / 0 bytes) and of tdx_prod_quote_SPR_E4.dat, each flipped in the corresponding message field (self-checked: the mutated message serialises to the genuine bytes with exactly that bit flipped) — quick: one bit of every byte plus all bits of the version/type/size fields, thorough: all bits — rotating over the three valid option levels; "
            "(b) 40 structured forgeries x 4 option settings x 2 (quick) / 25 (thorough) fresh worlds with otherwise honest collateral: quote signed by a foreign key / the leaf key, r and s swapped, zeroed, r zeroed, one bit flipped, signature over the header only / the body only / the digest; attestation key replaced by a foreign on-curve key, an off-curve point, zeros (QE report re-bound, so only link 1 breaks) or exchanged / x-y swapped after signing; QE report signed by the attestation key / a foreign key / the intermediate / the root / the TCB signer; report data = wrong hash, right hash with non-zero tail, hash of the key alone, hash of auth||key (QE report re-signed by the leaf, only link 2 breaks); auth data changed / extended / truncated after signing; a header field, a body field, two swapped body fields, REPORT_DATA with trailing zeros dropped / truncated / extended (F15), a QE report field, the QE report data changed after signing; QE report signature bit-flipped / zeroed / swapped / replaced by the quote signature; controls: honest world, (r, n-s) malleated signature; "
            "(c) 2 000 (quick) / 50 000 (thorough) random multi-byte mutants (runs, scattered bytes, whole field, zero/ones fill, numeric perturbation, length changes) of 1-3 random message fields. "
            "A case is non-trivial throughout (every world runs the pipeline); distinct = distinct (fault, options, error class, line hash bucket)",
    "trusted_base": ["ECDSA P-256, SHA-256, PEM and X.509 parsing are the Go standard library's and enter the model as oracle facts (Crypto.verifyRaw / verifyCert / sha256, PemFacts, CertF) computed by harness/world/facts.go with crypto/ecdsa, crypto/sha256, crypto/x509 on the message's own fields",
                     "the 'no covered bit can change' clause is proved relative to explicit binding hypotheses on the given genuine quote (each genuine signature verifies only its original digest under its key; SHA-256 does not collide on the two inputs at hand), not as a claim about ECDSA or SHA-256",
                     "the property oracle recomputes the three links with crypto/ecdsa.Verify / crypto/sha256 / crypto/x509 on world.HeaderBytes / BodyBytes / QeReportBytes of the message and the first PEM block of its chain, independently of model, facts and code"],
    "assumptions": ["protobuf nil/empty bytes are identified", "names inside certificates are valid UTF-8 (the line protocol carries them as strings; random chain mutations that break this are reverted and counted)"],
}

MANIFEST_TEXT["C01"] = {
    "text": "Lean theorems over every world, message, option setting and every Crypto parameter (acceptance implies: header||body signature verifies under the carried attestation key, QE report data = sha256(key||auth) followed by 32 zero bytes, QE report signature verifies under the chain's leaf certificate; the signed message is the re-serialised header||body; consequently any change of header, body, attestation key, QE report or auth data of a genuine quote is rejected under explicit signature/hash binding hypotheses), over the executable pipeline model TdxModel/Verify.lean, tied to verify.go by running the real verify.TdxQuote on complete synthetic worlds and the Intel sample: every single-bit mutant of the bytes in front of the chain, 40 structured forgeries under all four option settings, random multi-byte mutants — model verdict, fetched URLs and option state compared case by case, plus an independent oracle that recomputes the three links with the standard library.",
    "note": "Partial by nature: cryptographic hardness is a parameter (the theorems speak about what was verified, the bit-flip clause is relative to binding hypotheses on the genuine quote). Trusted: Lean kernel (axioms propext/Classical.choice/Quot.sound at most), extractor, harness incl. the world generator and its fact emission; Go's crypto/ecdsa, crypto/sha256, encoding/pem, crypto/x509 as oracle facts. Bits of SignedDataSize and CertificationData.Size are not covered by any link and are not checked by CheckQuoteV4 (observation O-1): such mutants are accepted, by model and code alike, and are not violations.",
    "technique": "Lean 4 proof over an executable model of the verification pipeline + differential correspondence on generated attestation worlds (bit-exhaustive + structured + random) + independent property oracle",
}

PROPS["C02"] = {
    "project": strip_cls,
    "rule": "synthetic worlds with a genuine PKI A and a look-alike PKI B (identical subject names, optionally identical serial numbers, other keys; each with complete self-consistent collateral and CRLs) through the real verify.TdxQuote under the three valid option levels (1 in 12: CheckRevocations without GetCollateral), every world also put to the model: "
            "chain composition {A,B}^3 (leaf, intermediate, root) x pool {A, B, A then B, B then A, empty, nil = embedded Intel root, A + TCB signer} (56) + B chain with A's collateral and both roots listed; pools listing the intermediate, the leaf, look-alike intermediate/leaf, the TCB signer (8); role confusion (27): TCB signer as leaf (as is / with SGX extension under the intermediate / under the root), intermediate, root, a CA with SGX extension as leaf, leaf issued directly by the root (also with the root in the intermediate position), intermediate not a CA / without certSign, root not a CA, 7 leaf CNs other than the PCK phrase (trailing space, case, NUL, plural, other roles, empty), leaf without SGX extension (5 and 6 extensions), intermediate CN Processor CA / other, root CN other, cross-signed copy of the listed root in the chain, CA flag on an otherwise genuine PCK leaf (accepted: it is a PCK certificate); chain shapes (41): nil, empty, 1 / 2 / 4 blocks (2 blocks also with NUL, with the root as second block, with the intermediate listed), 4 wrong PEM types x 3 positions, unparsable DER x 3 positions, trailer NUL (accepted) / two NULs / letter / newline / NUL+newline / space / 0x01 / 0xff / stray END line, 6 orders and repetitions, text in front of the first block (accepted); 1 (quick) / 14 (thorough) fresh worlds per kind and level. "
            "Harness-only lines: 30 verify.RootOfTrustToOptions configurations with bundle files written to the run directory (nil, empty, one/two files, two certificates in one file, certificate amid text / key block / unparsable CERTIFICATE block, inline one/two/two-in-one, mixed, intermediate or leaf listed, empty / text / binary / key-only / unparsable-only file, missing file, good then missing / empty, empty then good, good file + empty or text inline, directory as path): the pool must equal (CertPool.Equal) the set of listed certificates, a chain of each PKI must verify against it (crypto/x509 and verify.TdxQuote with the produced options) iff one of its certificates is listed, nil pool iff both lists are empty, error iff some bundle is unreadable or lists no certificate, check_crl/get_collateral carried over. "
            "Non-trivial throughout; distinct = distinct (fault, options, error class, line hash bucket)",
    "trusted_base": ["PEM decoding, X.509 parsing, signature checking and Certificate.Verify path building are the Go standard library's; they enter the model as facts (PemFacts, CertF.signedBy / canSignCert / validity, pool membership) and the model's pathValid states what Verify does for pools of listed certificates and at most one intermediate",
                     "the property oracle calls crypto/x509 itself: three CERTIFICATE blocks, leaf CN and SGX extension, intermediate and root CN, leaf.Verify(Roots = the listed certificates or the embedded root, Intermediates = the carried second block, CurrentTime = Now.PckCertChain, any key usage) with a returned chain that passes only through the carried intermediate",
                     "verify.RootOfTrustToOptions is checked by the harness oracle only (file system and PEM bundle parsing are not modelled beyond the decision theorem)"],
    "assumptions": ["a caller who lists the intermediate or the leaf itself in the trusted pool has made it a trust anchor (Go's x509 semantics): acceptance is then not a violation",
                    "verify.RootOfTrustToOptions(nil) crashes (nil message dereference): recorded as an observation for C10, not judged here since a nil message lists nothing"],
}

MANIFEST_TEXT["C02"] = {
    "text": "Lean theorems over every world and option setting (acceptance implies three CERTIFICATE blocks, leaf named Intel SGX PCK Certificate with an SGX extension signed by the carried Platform CA intermediate, that signed by the carried self-signed Intel SGX Root CA, and a path leaf -> carried intermediate -> member of the effective pool, the embedded root when no pool is given; a pool none of whose keys verifies the chain rejects whatever the names are; wrong leaf role rejects; the root-of-trust pool is exactly the listed certificates), over TdxModel/Verify.lean, tied to verify.go by running the real verify.TdxQuote on worlds with a genuine and a same-named look-alike PKI: all A/B chain compositions x pools, role-confusion chains, chain shapes, pools listing non-roots — compared with the model case by case, plus an independent crypto/x509 oracle; verify.RootOfTrustToOptions on 30 bundle configurations against an exact-pool oracle.",
    "note": "X.509 parsing, signature and path validation are the standard library's and enter as facts. Trusted: Lean kernel (axioms propext/Classical.choice/Quot.sound at most), extractor, harness with its world generator. The intermediate must be named Platform CA (observation O-3: Processor CA chains are fetched for but rejected). A leaf or intermediate that the caller lists in the pool is a trust anchor by Go's x509 semantics.",
    "technique": "Lean 4 proof over an executable model of the verification pipeline + differential correspondence on generated two-PKI worlds + independent crypto/x509 oracle",
}

PROPS["C11"] = {
    "project": strip_cls,
    "rule": "1 000 (quick) / 20 000 (thorough) honest synthetic worlds through the real verify.TdxQuote, one third each at base / collateral / collateral+revocation level, every world also put to the model; per world independently random: header, body and QE report field contents (random / all zero / all ones), QE auth data length 0-4096 (boundaries 0,1,31,32,33,63,64,65,255,256,1023,4095,4096), 0-64 bytes after the signed data, NUL after the chain or not, the 16 SGX and 16 TDX SVN components from {0,1,127,128,129,200,254,255,random}, PCE SVN up to 65535, TEE_TCB_SVN[1] zero / non-zero, TCB level lists of length 1-8 with the first matching UpToDate level at every position (earlier levels exceed the platform in one SGX component, the PCE SVN or one compared TDX component — half of them equal to the platform elsewhere; later levels arbitrary incl. Revoked), 1-5 module identities with the matching TDX_<hex> id at any position among near-miss ids (+ a later duplicate with Revoked), module and QE level lists of length 1-6 / 1-8 with the match at every position, masks random / zero / ones, FMSPC lower / upper / mixed case, certificate serials of 8-158 bits, CRLs with 0-15 other serials incl. serial+-1, +2^64, mod 2^64, <<8 of the checked ones (1 in 6: the serial of a certificate of the other issuer), 0-3 failing (unreachable / garbage) root-CRL distribution points before the good one and 0-2 after it, every certificate, document and CRL with its own validity window around a common instant (widths 0 s, 1 s, up to 1000 days) and each of the five verification times at the lower bound, the upper bound, 1 ns inside it or anywhere inside its own window, 1 in 8 worlds with Now = nil and windows of years around the wall clock, pools with 0-3 further roots (unrelated, same-named with another key, expired) in random order. "
            "Plus tdx_prod_quote_SPR_E4.dat and ccel/cos-113-tdx-quote.dat, read by the harness's own layout reader, under the embedded Intel root (nil pool) at the middle, the lower and the upper bound of their chain's validity window, at 2023-12-01 and at the wall clock (base level: must be accepted); with collateral their verdict (nothing can be fetched) is only compared with the model. Non-trivial throughout",
    "trusted_base": ["the Go standard library's PEM / X.509 / JSON / ECDSA / SHA-256 enter the model as oracle facts computed by harness/world/facts.go",
                     "'honest' is the generator's construction (harness/cmd/tdxdriver/cv_c11.go c11Spec on top of cverify.go honestSpec), not derived from model or code; the Lean predicate Honest is a statement about the facts of such a world"],
    "assumptions": ["wall-clock cases (Now = nil) assume the run takes less than a day and the sandbox clock lies inside 2022-2029 for the SPR sample / 2024-2031 for the COS sample (otherwise those cases are not claimed honest)",
                    "serial numbers are per issuer: a CRL entry equal to the serial of a certificate of another issuer does not list that certificate"],
}

MANIFEST_TEXT["C11"] = {
    "text": "Lean theorems honest_accepted (and its specialisations honest_accepted_base / honest_accepted_collateral; converse accepted_is_honest) over every world whose facts satisfy the decidable predicate Honest (three links valid; chain rooted in the effective pool and in date at its time; collateral authentic, in date, ids/versions right, identity fields matching, the first matching platform / module / QE level at any index UpToDate; CRLs authentic, in date, not listing the checked serials), over TdxModel/Verify.lean, tied to verify.go by running the real verify.TdxQuote on 1 000 / 20 000 honest synthetic worlds covering the variety of the statement (auth data 0-4096 bytes, extra bytes, NUL, SVN >= 128, match at every list position, boundary instants of every window, Now = nil, several CRL distribution points, extra roots) at the three option levels and on both genuine Intel sample quotes under the embedded root — compared with the model case by case; oracle: an honest world was rejected.",
    "note": "Trusted: Lean kernel (axioms propext/Classical.choice/Quot.sound at most), extractor, harness with its world generator (honesty is by construction of the generator). With the recorded 2023 collateral the Intel samples cannot be expected to pass the TCB comparison; they are required to be accepted at the base level only.",
    "technique": "Lean 4 proof over an executable model of the verification pipeline + differential correspondence on generated honest worlds + genuine sample quotes",
}

# ---- verification group, part C (C05 C06 C12)
PROPS["C05"] = {
    "project": strip_cls,
    "rule": "the real verify.TdxQuote on generated worlds (own PKI, signed quote, signed TCB Info / QE Identity with DISTINCT signing certificates, PCK CRL, Root CA CRL, scripted recording getter); each world = honest world + ONE fault, run under all four GetCollateral x CheckRevocations combinations: revoked-serial sets {empty, exactly the target, target+1, target-1, 2^64, 2^159, the target's low 64 bits, 1000 entries with the target first / last / absent} for each of the four targets (leaf in the PCK CRL; intermediate CA, TCB-Info signer, QE-Identity signer in the Root CA CRL) and for the two WRONG lists (leaf's serial in the Root CRL, intermediate's in the PCK CRL), serials of three magnitudes (int-sized, around 2^64, up to 2^158); CRL signer {right CA, the other CA's key, foreign key with the right issuer name, right key under the other CA's / the TCB signer's name / the same CN with another organisation}; endpoint outcome {fetch error, unparsable bytes, the other issuer's CRL, three distribution points with failing / unparsable / forged / revoking prefixes incl. first-success-wins, no distribution point on the QE-Identity issuer root}; PCK-CRL issuer-chain header {absent, two values, one block, wrong PEM type, empty, bad escape, unparsable DER, swapped}; plus random combinations of several dimensions (600 quick / 8000 thorough). Every world is also predicted by the Lean model (verdict, URL list, Options.Now). Non-trivial = every case (all reach the chain checks); distinct = distinct (fault, options, error text, line hash)",
    "trusted_base": ["crypto/x509 (CRL parsing, RevocationList.CheckSignatureFrom, certificate parsing and path building), encoding/pem, encoding/json, ECDSA/SHA-256 enter the model as per-world oracle facts computed by the harness with the Go standard library (DESIGN.md 5a); the model covers what verify.go does with them",
                     "the property oracle re-parses the served CRL bytes and authenticates them with crypto/x509 itself; it shares the standard library, not the model or the code under check"],
    "assumptions": ["'the Root CA CRL that was obtained' is read as the answer of the last distribution point the verifier asked; an authentic Root CA CRL fetched on the way that lists one of the serials must not be ignored either",
                    "faults of the PCK-CRL issuer-chain HEADER are outside the statement (the CRL is authenticated against the quote's own chain); they are compared with the model only",
                    "non-vacuity: a world whose CRLs are authentic and list none of the four serials must be accepted with GetCollateral and CheckRevocations (reported with the prefix 'non-vacuity:')"],
}

MANIFEST_TEXT["C05"] = {
    "text": "Lean theorems over the executable model of verify.tdxQuoteV4 (oracle facts for everything the Go standard library decides): acceptance with CheckRevocations implies both CRLs were obtained, the Root CA CRL verifies under the chain's root and the PCK CRL under the chain's intermediate CA, and none of leaf / intermediate / TCB-Info signer / QE-Identity signer serial is listed; any CRL fetch, parse or authentication failure rejects; CheckRevocations without GetCollateral always rejects. The model is tied to verify.go by a differential run of the real verify.TdxQuote over generated worlds (serial-set x target, CRL signer, endpoint outcome, issuer-chain header faults, all four option combinations, random combinations), with an independent oracle that re-parses and authenticates the served CRLs with crypto/x509.",
    "note": "Trusted: Lean kernel (axioms propext/Classical.choice/Quot.sound at most), extractor, harness, and the Go standard library for X.509 / CRL / ECDSA / JSON (facts, not modelled). 'Obtained Root CA CRL' = the first distribution point that fetches and parses (the code's rule); the oracle additionally refuses an acceptance after any fetched authentic CRL that lists a target.",
    "technique": "Lean 4 proof over an executable model with oracle facts + differential correspondence on generated attestation worlds",
}

PROPS["C06"] = {
    "project": strip_cls,
    "rule": "the real verify.TdxQuote on generated worlds in which each of the 14 expiring artifacts has its OWN certificate / document and window: quote chain root, intermediate, leaf; trusted pool root (same key and name as the chain root, own serial and window); TCB-Info signer and header root; QE-Identity signer (own key) and header root; PCK-CRL header signer and header root; TCB Info, QE Identity, PCK CRL, Root CA CRL nextUpdate. Per artifact one world (the artifact alone expires early / starts late) verified at: expiry + {-1 s, -1 ns, 0, +1 ns, +1 s} on the artifact's OWN TimeSet entry (the pool root on each of PckCertChain, TcbInfo, QeIdentity) with the other four entries far inside all windows and pairwise distinct; expiry + 1 s on every WRONG entry; notBefore + {-1 s, 0, +1 s} on the own entry and notBefore - 1 s on every wrong entry for every certificate; the expired probe again at T + {1 s, 1 h, 10 years} on the own entry and on all entries (monotonicity pairs) and at the GetCollateral-only, base and CheckRevocations-only levels; a variant with a second certificate of the intermediate CA in the pool (the chain's own intermediate off the validated path); 500 (quick) / 8000 (thorough) random time assignments (entries far inside / on a random artifact boundary +-1 s, +-1 ns / far past / far before) over worlds with random windows at random option levels; Options.Now = nil against the wall clock (honest, each artifact expired a day ago, path roles not yet valid). Every case is also predicted by the Lean model. Non-trivial = every case; distinct = distinct (probe, options, error text, line hash)",
    "trusted_base": ["crypto/x509 Certificate.Verify is assumed to judge every certificate of the path it builds (leaf, intermediate, trusted root) against VerifyOptions.CurrentTime with notBefore <= t <= notAfter; the model's pathValid states exactly that and every probe re-validates it",
                     "certificate, CRL and JSON times have one-second granularity; the +-1 ns probes sit between two representable expiry values"],
    "assumptions": ["the oracle knows only the windows the generator chose, the time set and the option level; for Options.Now = nil it uses the wall clock read before the call (windows are at least a day away from it)",
                    "which artifacts count at an option level: quote chain + pool root always; TCB Info / QE Identity documents and issuer chains with GetCollateral; the CRLs and the PCK-CRL issuer chain with GetCollateral and CheckRevocations",
                    "a rejected world in which every artifact that counts is in date at its own entry is reported too ('judged against a wrong entry?'): each artifact must be judged against its own entry only",
                    "finding F9 (Options.Now persisted) is visible in the Now = nil cases as now=set in both the observed and the predicted line; its oracle belongs to C12"],
}

MANIFEST_TEXT["C06"] = {
    "text": "Lean theorems over the executable model of verify.tdxQuoteV4: acceptance at time set T implies, for the nine certificate roles, two documents and two CRLs, T[class a] <= expiry a, and notBefore a <= T[class a] for the roles on validated paths (leaf, intermediate, collateral signers, trusted root), with the property's class assignment (PCK chain -> PckCertChain, TCB Info and its issuer chain -> TcbInfo, QE Identity -> QeIdentity, PCK CRL and its issuer chain -> PckCrl, Root CA CRL -> RootCaCrl); expired stays expired for every pointwise later time set. Tied to verify.go by running the real verify.TdxQuote on worlds where each artifact expires alone, probed at expiry +-1 s / +-1 ns on its own and on every wrong TimeSet entry, notBefore probes, monotonicity pairs, random assignments and Now = nil, with an oracle that knows only the generator's windows.",
    "note": "Trusted: Lean kernel, extractor, harness, crypto/x509 path validation (facts + the model's pathValid). Header-chain roots and the chain root are checked for expiry only (not for notBefore) by the code; the property asks no more.",
    "technique": "Lean 4 proof over an executable model with oracle facts + differential correspondence on generated attestation worlds (boundary grid + random)",
}

PROPS["C12"] = {
    "project": strip_cls,
    "rule": "the real verify.TdxQuote with a recording getter: (a) 1 (quick) / 2 (thorough) REAL-TIME histories: world 1 verified with Options.Now = nil through a shared options value, world 2 whose certificates become valid 1-2 s later, sleep, world 2 through the shared value and through fresh options; (b) a mixed population (38 kinds: honest, trailing NUL, quote / QE-report signature by a foreign key, hash binding, TEE type, foreign root, nil pool, leaf expired / not yet valid, intermediate expired, leaf / intermediate / collateral signer revoked, OutOfDate TCB and QE levels, TCB Info / QE Identity signed by a foreign key or tampered, each of the four fetches failing, unparsable bodies, missing issuer-chain header, forged PCK CRL, three distribution points, wrong QE identity, TCB Info naming ANOTHER FMSPC, expired documents / CRLs, leaf issued by the Processor CA (O-3) or an unknown CA, leaf without SGX extension; a part of them around the wall clock with Now = nil), every world under ALL FOUR option combinations: verdict lattice and URL sequences; (c) histories of length 2-4 through ONE shared *verify.Options over new and revisited worlds, GetCollateral / CheckRevocations / TrustedRoots {own, another world's, nil} / Getter flips, Now left alone / set / reset: before each call the shared value's current Now is read and rendered into the model's input line, the shared verdict is compared with the model and with a fresh-options run of the same world. 520 / 5000 worlds x 4, 200 / 2000 histories. Non-trivial = every case; distinct = distinct (fault, options, error text, line hash)",
    "trusted_base": ["the oracle takes the leaf's FMSPC and issuer CN from the generator's specification of the leaf certificate and classifies requests by URL path (/tcb?, /qe/identity, /pckcrl, anything else = a CRL distribution point)",
                     "the hidden fields of verify.Options (chain, collateral, extensions) are overwritten by every call that gets past collateral fetching and are never read by TdxQuote before that; the model has no hidden state and the histories check exactly this"],
    "assumptions": ["'fresh options' carry the Now the caller itself put there (nil if the caller never set it)",
                    "the single-call form of F9 (Options.Now nil before and set after a call) is reported for the first 25 calls of a run and counted by tag afterwards"],
}

MANIFEST_TEXT["C12"] = {
    "text": "Lean theorems over the executable model of verify.tdxQuoteV4 for every world and fetcher: more_checks_never_accept_more (accepted with collateral and revocation checking => accepted with collateral checking => accepted with signature and chain checking), no_fetch_without_collateral, requests_are_gated_and_named (CRL endpoints only with revocation checking; the TCB Info URL names the leaf's FMSPC, the PCK CRL URL the issuing CA: ca_is_leaf_issuer), urls_are_fetch_stage, options_unchanged, verdict_independent_of_history (repaired behaviour: a defaulted Now is not persisted; unfixed witness = finding F9). Tied to verify.go by running the real verify.TdxQuote with a recording getter over a mixed population under all four option combinations and over histories through one shared options value (incl. one real-time history), each call predicted by the model (verdict, URL list, Options.Now afterwards) and judged by an independent oracle: lattice, forbidden or mis-addressed requests, shared-vs-fresh verdict difference, caller's Options.Now modified.",
    "note": "Trusted: Lean kernel, extractor, harness, Go standard library facts. O-3: a leaf issued by the Processor CA is fetched for with ca=processor and then rejected by the fixed intermediate CN; the property only fixes the request. Unchanged tree: violated (F9) until the defaulted Now is no longer stored in the caller's options.",
    "technique": "Lean 4 proof over an executable model with oracle facts + differential correspondence on generated attestation worlds and option histories",
}

# ---- verification group, part B (C03 C04 C07)
PROPS["C03"] = {
    "project": strip_cls,
    "rule": "verify.TdxQuote with GetCollateral (CheckRevocations for 1/6 of the cases) on generated worlds = honest world (own PRNG per case: PCG(seed, case index)) + ONE fault on the TCB Info or on the QE Identity response, both responses alike: single-bit mutants of the signed member (quick: every 8th bit of a 600-byte prefix; thorough: every bit of the prefix + 800 sampled bits behind it), of the signature (every 8th / every bit of the 512) and of the escaped issuer-chain header value (300 / 8000 evenly spread bits); 207 structured faults x 2 responses x 2 (quick) / 20 (thorough) fresh worlds: re-signing with a foreign / the PCK leaf's / the intermediate's / the root's / the attestation key, role confusion (intermediate CA, root or PCK leaf certificate as signer), look-alike PKI (signer and root; signer under the genuine root; genuine signer under the look-alike root; issuer name right but foreign signature), signer with 6 wrong CNs / other organisation, signer issued by the intermediate (root, intermediate or three blocks in the header), header root not self-signed / wrong CN although listed / second listed root (control) / genuine but not listed, member re-encoded without re-signing (whitespace, trailing space, key order, \\u escape), signature over the whole body / other bytes / the other document, 8 malformed signature strings, swapped halves, wrong id / version / version 256+v / empty levels / documents swapped (all signed), member missing / signature missing / order / unrelated extra members, genuine signature under a long-s key, genuine document only under an upper-case key, body not JSON / array / null / {} / empty / number / trailing garbage / fetch failure, header absent / duplicated / empty / bad escape / one block / three blocks / swapped order / wrong PEM type / garbage DER / trailing bytes / unescaped / double escaped / leading text; unsigned extra or duplicate members: document member x spelling {exact, UPPER, MiXed, lower, UPPER with nested keys in long-s (U+017F) / Kelvin (U+212A) spellings} x position {before, between, after the genuine member} x alternative {complete and better (signed one OutOfDate), complete and worse, partial: only tcbLevels, only tdxModuleIdentities (QE: only mrsigner), only nextUpdate}, a signed document that omits a member with an unsigned exact-spelling duplicate before it, signature member x spelling {exact, UPPER, MiXed, long-s, long-s upper} x position x value {zeros, random, number, null, empty}. Quick 2756 worlds, thorough 36504. Every world is also put to the Lean model (verdict, URL list, Options.Now). A case is non-trivial when the quote reaches the collateral stage (always); distinct = distinct (fault, options, error class, line hash mod 64)",
    "trusted_base": ["crypto/x509, crypto/ecdsa, encoding/pem, net/url, encoding/json of the Go standard library: used by the oracle directly on the bytes on the wire (issuer-chain header, body) and, through the world's fact emission, as the model's oracle facts; the model abstracts x509.Verify as a path search over at most one intermediate",
                     "the oracle's own document decoder (exact key spellings, generic JSON values) and its own reading of the C04 / C07 decision (intelTcb / intelQe in cv_c04.go / cv_c07.go)",
                     "the line protocol carries names and URLs as UTF-8: a world in which a bit flip produced a certificate with a non-UTF-8 CRL distribution point or name is decided by the oracle alone (tag harness-only:non-utf8-string, below 1 % of the header-bit cases)"],
    "assumptions": ["a response whose issuer-chain header has more than one value has no unique issuer chain and must be rejected (reading of 'any alteration of ... the issuer chain')",
                    "the signature string may sit under any key spelling and the signed member under any key: what counts is that the exact raw bytes of the member whose values are used verify under the header's signing certificate (the code is stricter: member and signature are looked up under their exact / case-folded names)",
                    "nextUpdate of the signed document is one of the values that drive the verdict (it is compared with Options.Now)"],
}

PROPS["C04"] = {
    "project": strip_cls,
    "rule": "verify.TdxQuote with GetCollateral, then verify.SupportedTcbLevelsFromCollateral on the same options value (one V.verify and one V.levels line per world), on generated worlds whose TCB Info is built from an abstract description: G0 two canonical worlds; G1 one level x SGX comparison {all equal, all strictly below, mixed, above at index 0 / 1 / 2 / 15} x PCE SVN {equal, below, above} x TDX comparison (same 7) x TEE_TCB_SVN[1] in {0,1} (x 7 statuses in thorough); G2 two levels: first level {matches with equality, matches mixed, SGX above at a random index / at 0, PCE above, TDX above at a random index >= 2 / at 0 / at 1 / at 2} x 7 statuses x second level {matches strictly below, matches mixed, no match} x 7 statuses x TEE_TCB_SVN[1] (quick: a pseudo-random third; thorough: all, with an UpToDate and an OutOfDate module level); G3 module identity {absent, no levels, one level below / at / above TEE_TCB_SVN[0] x 7 statuses, two levels x 9 position pairs x 4 (thorough 49) status pairs, duplicated identity with opposite statuses} x TEE_TCB_SVN[1] x platform status {UpToDate, OutOfDate} (thorough: all 7); G4 identity fields {FMSPC bit, FMSPC letter case (must not matter), PCE-ID bit, MRSIGNERSEAM bit, masked SEAMATTRIBUTES bit, bits outside the mask (must not matter), identity value bit outside the mask, mask length 7 / 9 / 0, value length 7, value not hex} x TEE_TCB_SVN[1] x 3 (30) worlds; S document vectors of length 0 / 15 / 17 / 32, SVN 256 / -1 / PCE SVN 65536 in the document, QE list without match, no match on both sides, TDX components 0 and 1 above the platform's, controls; R 1900 (22000) random worlds with 1-6 levels, random SVN vectors around the platform's (extremes 0 / 255), 0-3 module identities with 0-3 levels, TEE_TCB_SVN[1] in 0..3, identity mismatch in 1/10. G2b (both tiers, complete) first level matches with equality in the SGX / PCE / TDX comparison and carries one of the 6 other statuses, second level strictly below everywhere and UpToDate. Quick 3573 worlds (7146 lines), thorough 37858 worlds (75716 lines). A case is non-trivial always (every world reaches the TCB evaluation or the collateral decode); distinct = distinct abstract world (grid) / (fault, options, error class, line hash) otherwise",
    "trusted_base": ["the oracle is an independent reading of the statement (intelTcb, platformLevelMatches in cv_c04.go) on the GENERATOR's description of the document and of the platform (PCK extension values, TD quote body), not on anything decoded by the code or by the world's fact emission",
                     "encoding/json and crypto/x509 enter the model as oracle facts (document decode, PCK extension tree)"],
    "assumptions": ["a TCB level whose component vector does not have 16 entries matches no platform",
                    "the module identity is looked up under the name TDX_<two lower-case hex digits of TEE_TCB_SVN[1]>; the first identity of that name counts",
                    "'no level matches' for the levels API covers the platform level, the TDX module level when TEE_TCB_SVN[1] != 0 and the QE Identity level (the API reports both)"],
}

PROPS["C07"] = {
    "project": strip_cls,
    "rule": "verify.TdxQuote with GetCollateral on generated worlds = honest world + ONE fault on the QE side (report fields are set before the world is built, so the QE report is re-signed by the PCK leaf key and only the identity comparison can refuse): MISCSELECT / ATTRIBUTES masks {all ones, all zero, single bit, random}^2 with matching values; per mask kind: report bit outside the mask (must not matter), report bit inside the mask, identity value bit outside the mask (can never match) for both fields; value / mask lengths {0,3,4,5}^2 (MISCSELECT), {15,16,17}^2 (ATTRIBUTES), MRSIGNER length 0/31/33/48; MRSIGNER one bit off (every 8th / every bit of the identity's, one of the report's); ISVPRODID identity +-1, report +-1 / far above, swapped with ISVSVN, 65536; level lists of length 0-5 in descending and ascending order with the report's ISVSVN above / at every level and below all, the selected level carrying each of the 7 statuses and every other level the opposite; unknown status strings in the selected / another level; odd-length, non-hex, upper-case and 0x-prefixed hex strings in each of the 5 hex members; 616 (840) structured faults x 1 (12) + 900 (16000) random combinations. Quick 1516 worlds, thorough 26080. A case is non-trivial always; distinct = distinct (fault, options, error class, line hash mod 64)",
    "trusted_base": ["the oracle is an independent reading of the statement (intelQe in cv_c07.go) on the generator's description of the QE Identity and of the QE report",
                     "encoding/json (document decode incl. hex and status strings) enters the model as oracle facts"],
    "assumptions": ["'equal the identity's values once the identity's masks are applied' is read as (report AND mask) = identity value, with mask and value of exactly the report field's length (4 / 16 bytes)",
                    "an unknown status string in a level that is not selected makes the code refuse the whole document (decode error); the oracle only requires the selected level to be UpToDate, so such worlds count as 'statement allows acceptance, rejected'"],
}

MANIFEST_TEXT["C03"] = {
    "text": "Lean theorems (TdxProofs/Props/C03.lean) over the executable pipeline model Tdx.Verify.tdxQuote under Fixes.all, for every world of oracle facts: acceptance with collateral implies that the TCB Info / QE Identity values used are the decode of the exact raw member, that this member verifies under the signature string with the header's signing certificate, that signer and root carry the expected names, the root is self-signed, the signer is issued by it and anchored in the effective roots, and id / version / non-empty levels; unsigned members cannot replace the signed values; F6 witness for the pinned behaviour. Tied to verify.go by running the real verify.TdxQuote on generated worlds (bit mutants of member, signature and header; structured signing / PKI / body / header faults; unsigned duplicate members under exact, case-folded, U+017F and U+212A spellings before and after the genuine member) with every verdict compared with the model's, plus an independent standard-library oracle on the bytes on the wire that re-decides C04 / C07 from the signed member alone.",
    "note": "Trusted: Lean kernel (axioms propext/Classical.choice/Quot.sound at most), extractor, harness. Parameters (facts, not modelled): ECDSA, X.509 parsing and path building, PEM, URL unescaping, JSON (member order, exact-key map lookup, case / Unicode folding and merging of struct decoding). A response with more than one issuer-chain header value is read as having no unique issuer chain. Worlds whose mutated certificates carry non-UTF-8 strings are decided by the oracle alone.",
    "technique": "Lean 4 proof over an executable model of the pipeline + differential correspondence on generated worlds with an independent oracle",
}

MANIFEST_TEXT["C04"] = {
    "text": "Lean theorems (TdxProofs/Props/C04.lean) over Tdx.Verify.tdBodyCheck / tcbStatusCheck / supportedLevelsCall under Fixes.all for level lists of any length: acceptance with collateral implies FMSPC, PCE-ID, MRSIGNERSEAM and masked SEAMATTRIBUTES match, the first level in listed order whose SGX components, PCE SVN and TDX components (from index 2 when TEE_TCB_SVN[1] != 0) are not above the platform's is UpToDate and, when TEE_TCB_SVN[1] != 0, the first level of identity TDX_<version> with isvsvn <= TEE_TCB_SVN[0] is UpToDate too; no match is an error of verification and of the levels API; F4 / F5 witnesses for the pinned behaviour. Tied to verify.go by running verify.TdxQuote and then verify.SupportedTcbLevelsFromCollateral on the same options over an exhaustive small-scope grid of abstract worlds (comparison outcome per vector and index class x statuses x module identity shapes x identity-field mismatches) and random worlds, each compared with the model (verdict, URLs, Options.Now, reported levels) and judged by an independent implementation of the statement on the generator's data.",
    "note": "Trusted: Lean kernel (axioms propext/Classical.choice/Quot.sound at most), extractor, harness. JSON decoding of the document and the PCK extension tree are facts. A level vector of another length than 16 matches nothing; the module identity is the first one named TDX_<2 lower-case hex digits>.",
    "technique": "Lean 4 proof over an executable model + differential correspondence (exhaustive small-scope grid + random) with an independent oracle",
}

MANIFEST_TEXT["C07"] = {
    "text": "Lean theorems (TdxProofs/Props/C07.lean) over Tdx.Verify.qeReportCheck / qeStatusCheck for all mask contents and level lists of any length: acceptance with collateral implies MRSIGNER and ISVPRODID equal the identity's, (MISCSELECT AND mask) and (ATTRIBUTES AND mask) equal the identity's values with 4- and 16-byte masks, and the first level in listed order with isvsvn <= the report's ISVSVN is UpToDate; no match is an error. Tied to verify.go by running verify.TdxQuote on generated worlds with re-signed QE reports (mask kinds, bits inside / outside the masks on either side, field lengths, MRSIGNER bits, ISVPRODID neighbours and the ISVSVN swap, level lists of length 0-5 in both orders with every status, undecodable status / hex strings), each compared with the model and judged by an independent predicate on the generator's data.",
    "note": "Trusted: Lean kernel (axioms propext/Classical.choice/Quot.sound at most), extractor, harness. JSON decoding (hex strings, the seven status strings) is a fact supplied by the harness's mirror structs.",
    "technique": "Lean 4 proof over an executable model + differential correspondence with an independent oracle",
}

# ---- non-vacuity of the verification group: the concrete honest world of lean/TdxProofs/Example (built and audited with each of these checks)
for _p in ("C01", "C02", "C03", "C04", "C05", "C06", "C07", "C11", "C12"):
    PROPS[_p]["tie_modules"] = ["TdxProofs.Example.NonVacuity"]
    PROPS[_p]["tie_theorems"] = ["Tdx.Example.accepted_base", "Tdx.Example.accepted_collateral", "Tdx.Example.accepted_revocation"]

# ---- generator families added after the seeded-change rounds (appended to the rule texts that go into the evidence)
_RULE_ADDENDA = {
    "C01": "; every single-bit mutant is also put, as a byte string, to verify.RawTdxQuote; forgery kinds with 16-bit numbers carrying high bits after signing",
    "C02": "; trusted-roots transitions through one shared options value (pair histories); root-of-trust configurations on worlds around the wall clock with the produced options value used exactly as returned; a caller extending the pool of its own default options followed by a nil-pool verification of a foreign chain; both Intel samples with the carried root replaced by an in-date look-alike (same DN, serial, validity)",
    "C04": "; module versions whose hex / decimal / upper-case spellings differ, decoy identities under those spellings",
    "C05": "; a foreign CA with the intermediate's DN served in the CRL's own issuer-chain header; two trusted roots with the same name (collateral and Root CA CRL under the other one); a re-issued, revoked certificate of the TCB signer signing the QE Identity; the same world verified again after an endpoint serves a forged CRL with the same CRL number; level-transition pair histories",
    "C06": "; TCB Info and QE Identity under one shared issuer chain judged at both times; Options.Now inspected after 9 call outcomes x 3 levels with no time given; options converted from a root-of-trust configuration must carry no time",
    "C07": "; ISVSVN / ISVPRODID with high bits added after signing (judged by the signed 16-bit value)",
    "C09": "; after every accepted parse the input buffer is overwritten and the parsed quote serialised again",
    "C10": "; every member of a genuine TCB Info / QE Identity body replaced by every other kind of JSON value (numbers, booleans, null, one-character scalars, objects, arrays)",
    "C11": "; earlier non-matching levels that are below the platform in other components; honest pair histories through one options value",
    "C12": "; 40 fault kinds in turn incl. an expired carried root re-issued in the pool; systematic pair histories (levels x same/other world x trusted-roots transitions)",
    "C13": "; 16 goroutines extracting from 48 certificates concurrently, every result compared with the encoded values",
    "C15": "; unsupported provider with an openable non-device path (the device's failure must be returned); GetQuote on raw quotes ending in zero bytes",
    "C16": "; a message with SignedDataSize unset; a cold-start worker (first concurrent verifications of a fresh process, embedded root)",
    "C17": "; indexes around 2^8, 2^16, 2^32, 2^63 whose low bits are a valid index; a TSM that reports an error on the digest write of a valid request, after or without extending the register (exactly one digest write, error returned)",
    "C18": "; every verification fault x {collateral, collateral+revocation} x {all endpoints reachable, TCB Info / QE Identity / PCK CRL / Root CRL unavailable, PCK CRL garbage}; seven default option sets alive at once",
    "C19": "; the expected class of the root of trust is computed by the harness itself (exactly the listed certificates; embedded root when nothing is listed), not by verify.RootOfTrustToOptions",
    "C20": "; response headers with non-canonical keys, keys differing only in case and an empty value list; two DefaultHTTPSGetter() instances must be independent and carry the documented 2 min / 30 s",
}
for _p, _t in _RULE_ADDENDA.items():
    PROPS[_p]["rule"] = PROPS[_p]["rule"] + _t

# ---- shared static obligations (no package-level state, no unmodelled hidden option state): built and audited with every
#      check whose property says "depends only on the inputs of the call"
for _p in ("C01", "C02", "C03", "C04", "C05", "C06", "C07", "C08", "C09", "C10", "C11", "C12", "C13", "C14", "C15", "C17", "C18", "C20"):
    PROPS[_p]["tie_modules"] = list(PROPS[_p].get("tie_modules", [])) + ["TdxProofs.Props.Shared"]
    PROPS[_p]["tie_theorems"] = list(PROPS[_p].get("tie_theorems", [])) + ["Tdx.Props.Shared.no_package_state_written", "Tdx.Props.Shared.hidden_option_state_is_modelled"]
