#!/usr/bin/env python3
"""run.py — the single entry point registered in MANIFEST.json.

  python3 run.py setup                      build everything from files on disk (offline)
  python3 run.py check C15 [--tier quick]   decide one property on /repo's current working tree
  python3 run.py replay replays/<file>      re-run one recorded case

Data flow of `check` (DESIGN.md §2):
  1. extractor regenerates lean/TdxModel/Generated/*.lean from /repo          (L1 + L2 tie)
  2. lake build of the property's proof module + the model executable          (proof obligations)
     and `#print axioms` audit of every theorem in TdxProofs/Props/<id>.lean
  3. go build of the harness against /repo; the property's driver runs the real code
  4. tdxmodel predicts every case; 5. diff + property oracle + evidence + replays.
"""
import argparse, fcntl, hashlib, json, os, re, shutil, subprocess, sys, time

ROOT = os.path.dirname(os.path.abspath(__file__))
REPO = os.environ.get("VERIF_REPO", "/repo")
LEAN = os.path.join(ROOT, "lean")
CACHE = os.path.join(ROOT, ".cache")
BIN = os.path.join(CACHE, "bin")
WORK = os.path.join(CACHE, "work")
EVID = os.path.join(ROOT, "evidence")
REPLAYS = os.path.join(ROOT, "replays")
ALLOWED_AXIOMS = {"propext", "Classical.choice", "Quot.sound"}
FORBIDDEN = re.compile(r"\bsorry\b|\badmit\b|^axiom |native_decide|bv_decide|implemented_by|\bunsafe |maxHeartbeats 0", re.M)

GOENV = dict(os.environ, GOFLAGS="-mod=mod", GOPROXY="off", GOSUMDB="off", GOTOOLCHAIN="local", CGO_ENABLED=os.environ.get("CGO_ENABLED", "1"))

sys.path.insert(0, ROOT)
from props import PROPS  # noqa: E402  (per-property registry)


def sh(cmd, cwd=None, env=None, timeout=None, input=None):
    """run a command; returns (exit status, combined output). A command that does not finish in time is killed: (124, …)."""
    try:
        p = subprocess.run(cmd, cwd=cwd, env=env, stdout=subprocess.PIPE, stderr=subprocess.STDOUT, text=True, timeout=timeout, input=input)
        return p.returncode, p.stdout
    except subprocess.TimeoutExpired as e:
        out = e.stdout or ""
        if isinstance(out, bytes):
            out = out.decode("utf-8", "replace")
        return 124, out + f"\n[killed: no result after {timeout} s] " + " ".join(map(str, cmd[:6]))


class Lock:
    def __init__(self, name):
        os.makedirs(CACHE, exist_ok=True)
        self.path = os.path.join(CACHE, name + ".lock")
    def __enter__(self):
        self.f = open(self.path, "w")
        fcntl.flock(self.f, fcntl.LOCK_EX)
    def __exit__(self, *a):
        fcntl.flock(self.f, fcntl.LOCK_UN)
        self.f.close()


# ---------------------------------------------------------------------------------- build steps

def build_extractor():
    os.makedirs(BIN, exist_ok=True)
    rc, out = sh(["go", "build", "-o", os.path.join(BIN, "tdxextract"), "."], cwd=os.path.join(ROOT, "extract"), env=GOENV)
    if rc != 0:
        raise SystemExit("extractor build failed (framework error):\n" + out)


def run_extractor():
    """Regenerate the Lean facts from /repo. Returns (ok, message)."""
    rc, out = sh([os.path.join(BIN, "tdxextract"), "-repo", REPO, "-out", os.path.join(LEAN, "TdxModel", "Generated"),
                  "-pinned", os.path.join(ROOT, "extract", "pinned_consts.json")], env=GOENV, timeout=300)
    return rc == 0, out


def missing_consts():
    """constants of the pinned tree that the extractor no longer finds under their name (their pinned values are kept)"""
    p = os.path.join(LEAN, "TdxModel", "Generated", "missing_consts.txt")
    try:
        return [l for l in open(p).read().split("\n") if l]
    except OSError:
        return []


def lake_build(targets):
    rc, out = sh(["lake", "build"] + targets, cwd=LEAN, timeout=3600)
    return rc == 0, out


def build_harness():
    """go build of the harness against REPO (a temporary modfile carries the `replace`, so VERIF_REPO is honoured)."""
    h = os.path.join(ROOT, "harness")
    os.makedirs(CACHE, exist_ok=True)
    mod = os.path.join(CACHE, "harness.mod")
    shutil.copyfile(os.path.join(h, "go.mod"), mod)
    shutil.copyfile(os.path.join(REPO, "go.sum"), os.path.join(CACHE, "harness.sum"))
    rc, out = sh(["go", "mod", "edit", "-modfile=" + mod, "-replace", "github.com/google/go-tdx-guest=" + REPO], cwd=h, env=GOENV)
    if rc != 0:
        return False, out
    rc, out = sh(["go", "build", "-modfile=" + mod, "-o", os.path.join(BIN, "tdxdriver"), "./cmd/tdxdriver"], cwd=h, env=GOENV, timeout=1200)
    return rc == 0, out


def theorems_of(prop):
    """(name, is_property_theorem) for every theorem in TdxProofs/Props/<prop>.lean"""
    path = os.path.join(LEAN, "TdxProofs", "Props", prop + ".lean")
    src = open(path).read()
    names = re.findall(r"^theorem\s+([A-Za-z0-9_'.]+)", src, re.M)
    return [f"Tdx.Props.{prop}.{n}" for n in names], src


def audit(prop):
    """#print axioms for every theorem of the property. Returns dict name -> list of axioms (or None if missing)."""
    names, src = theorems_of(prop)
    tie = PROPS[prop].get("tie_theorems", [])
    allnames = names + tie
    os.makedirs(WORK, exist_ok=True)
    f = os.path.join(WORK, f"Audit_{prop}.lean")
    imports = [f"import TdxProofs.Props.{prop}"] + [f"import {m}" for m in PROPS[prop].get("tie_modules", [])]
    with open(f, "w") as fh:
        fh.write("\n".join(imports) + "\n")
        for n in allnames:
            fh.write(f"#print axioms {n}\n")
    rc, out = sh(["lake", "env", "lean", f], cwd=LEAN, timeout=1200)
    res = {}
    for n in allnames:
        m = re.search(r"'" + re.escape(n) + r"' depends on axioms: \[([^\]]*)\]", out)
        if m:
            res[n] = [a.strip() for a in m.group(1).replace("\n", " ").split(",") if a.strip()]
        elif re.search(r"'" + re.escape(n) + r"' does not depend on any axioms", out):
            res[n] = []
        else:
            res[n] = None
    # forbidden constructs anywhere in the proof/model sources (comments stripped)
    bad = []
    for d in ("TdxModel", "TdxProofs"):
        for dp, _, fs in os.walk(os.path.join(LEAN, d)):
            for fn in fs:
                if fn.endswith(".lean"):
                    txt = open(os.path.join(dp, fn)).read()
                    txt = re.sub(r"/-.*?-/", "", txt, flags=re.S)
                    txt = re.sub(r"--.*", "", txt)
                    if FORBIDDEN.search(txt):
                        bad.append(os.path.relpath(os.path.join(dp, fn), LEAN))
    return res, bad, out if rc != 0 else ""


# ---------------------------------------------------------------------------------- known findings

def load_known():
    p = os.path.join(ROOT, "known_findings.json")
    if not os.path.exists(p):
        return []
    return [k for k in json.load(open(p)).get("known", [])]


def known_match(prop, case_line, reason, known):
    for k in known:
        if k["property"] != prop:
            continue
        if re.search(k["case_regex"], case_line) and re.search(k.get("reason_regex", ""), reason or ""):
            return k
    return None


# ---------------------------------------------------------------------------------- the check

def run_driver(prop, tier, seed, outdir):
    if os.path.isdir(outdir):
        shutil.rmtree(outdir)
    os.makedirs(outdir)
    spec = PROPS[prop]
    env = dict(GOENV)
    env["GOMEMLIMIT"] = "6GiB"
    t0 = time.time()
    if "driver_cmd" in spec:
        cmd = [c.format(bin=BIN, out=outdir, tier=tier, seed=seed, root=ROOT, repo=REPO) for c in spec["driver_cmd"]]
        rc, out = sh(cmd, cwd=spec.get("driver_cwd", ROOT).format(root=ROOT), env=env, timeout=spec.get("timeout", {}).get(tier, {"quick": 900}.get(tier, 3000)))
    else:
        rc, out = sh([os.path.join(BIN, "tdxdriver"), "-prop", spec.get("driver", prop), "-tier", tier, "-seed", str(seed), "-out", outdir], env=env,
                     timeout=spec.get("timeout", {}).get(tier, {"quick": 900}.get(tier, 3000)))
    return rc, out, time.time() - t0


def run_model(outdir):
    exe = os.path.join(LEAN, ".lake", "build", "bin", "tdxmodel")
    with open(os.path.join(outdir, "cases.txt")) as fi, open(os.path.join(outdir, "predicted.txt"), "w") as fo:
        p = subprocess.run([exe], stdin=fi, stdout=fo, stderr=subprocess.PIPE, text=True, timeout=3000)
    return p.returncode, p.stderr


def compare(prop, outdir):
    """Returns (n_compared, disagreements[list of dict]) comparing observed vs predicted on model-visible cases."""
    cases = open(os.path.join(outdir, "cases.txt")).read().split("\n")
    obs = open(os.path.join(outdir, "observed.txt")).read().split("\n")
    pred = open(os.path.join(outdir, "predicted.txt")).read().split("\n")
    proj = PROPS[prop].get("project")
    dis = []
    j = 0
    n = 0
    for i, c in enumerate(cases):
        if c == "" and i == len(cases) - 1:
            break
        if c.startswith("#") or c.strip() == "":
            continue  # harness-only case (oracle decides), the model is not asked
        p = pred[j] if j < len(pred) else "MODEL-OUTPUT-MISSING"
        j += 1
        n += 1
        o = obs[i]
        po, pp = (proj(o), proj(p)) if proj else (o, p)
        if po != pp:
            dis.append({"index": i, "case": c, "observed": o, "predicted": p})
    return n, dis


def write_replay(prop, seed, tier, kind, payload):
    os.makedirs(REPLAYS, exist_ok=True)
    h = hashlib.sha256(json.dumps(payload, sort_keys=True).encode()).hexdigest()[:10]
    path = os.path.join(REPLAYS, f"{prop}-{seed}-{kind}-{h}.json")
    payload = dict(payload, property=prop, seed=seed, tier=tier, kind=kind,
                   rerun=f"VERIF_SEED={seed} python3 run.py check {prop} --tier {tier}",
                   replay=f"python3 run.py replay {os.path.relpath(path, ROOT)}")
    with open(path, "w") as f:
        json.dump(payload, f, indent=1)
    return os.path.relpath(path, ROOT)


def run_prebuild(spec):
    """Per-property extra build steps (race test binary, synctest harness). Returns the failed ones."""
    failed = []
    for pb in spec.get("prebuild", []):
        cwd = pb.get("cwd", ROOT).format(root=ROOT, repo=REPO)
        for cp_src, cp_dst in pb.get("copy", []):
            shutil.copyfile(cp_src.format(root=ROOT, repo=REPO), cp_dst.format(root=ROOT, repo=REPO))
        rc, out = sh([c.format(bin=BIN, root=ROOT, repo=REPO) for c in pb["cmd"]], cwd=cwd, env=dict(GOENV, **pb.get("env", {})), timeout=1800)
        if rc != 0:
            failed.append(("prebuild " + " ".join(pb["cmd"][:3]), out[-3000:]))
    return failed


def check(prop, tier, seed):
    t_start = time.time()
    spec = PROPS[prop]
    known = load_known()
    broken = []          # proof / tie obligations that no longer check: (name, detail)
    notes = []
    with Lock("build"):
        build_extractor()
        ok, msg = run_extractor()
        if not ok:
            broken.append(("extractor", msg[-3000:]))
        proof_target = f"TdxProofs.Props.{prop}"
        targets = [proof_target] + spec.get("tie_modules", [])
        ok_proofs, out_proofs = lake_build(targets)
        if not ok_proofs:
            errs = re.findall(r"error: (.*?\.lean:\d+:\d+: .*)", out_proofs)
            broken.append((proof_target, "\n".join(errs[:20]) or out_proofs[-3000:]))
        ok_exe, out_exe = lake_build(["tdxmodel"])
        if not ok_exe:
            errs = re.findall(r"error: (.*?\.lean:\d+:\d+: .*)", out_exe)
            broken.append(("tdxmodel (model executable)", "\n".join(errs[:20]) or out_exe[-3000:]))
        ok_h, out_h = build_harness()
        if not ok_h:
            # the harness only uses exported API; if it no longer builds the tree changed its API
            broken.append(("harness build against /repo", out_h[-3000:]))
        for name, out in run_prebuild(spec):
            ok_h = False
            broken.append((name, out))
        axioms, forbidden, audit_err = ({}, [], "")
        if ok_proofs:
            axioms, forbidden, audit_err = audit(prop)
    obligations = len(axioms)
    discharged = 0
    for n, ax in axioms.items():
        if ax is None:
            broken.append((n, "theorem missing from the audit output\n" + audit_err[-1500:]))
        elif not set(ax) <= ALLOWED_AXIOMS:
            broken.append((n, "depends on disallowed axioms: " + ", ".join(ax)))
        else:
            discharged += 1
    if forbidden:
        broken.append(("source audit", "forbidden construct (sorry/admit/axiom/native_decide/bv_decide/implemented_by/unsafe/maxHeartbeats 0) in " + ", ".join(forbidden)))
    if ok_proofs and obligations == 0:
        broken.append((f"TdxProofs/Props/{prop}.lean", "no theorems found"))

    leanchecker = None
    if tier == "thorough" and ok_proofs:
        rc, out = sh(["lake", "env", "leanchecker", f"TdxProofs.Props.{prop}"], cwd=LEAN, timeout=3000)
        leanchecker = (rc == 0)
        if rc != 0:
            broken.append(("leanchecker " + f"TdxProofs.Props.{prop}", out[-2000:]))

    # ---- correspondence ----
    outdir = os.path.join(WORK, f"{prop}-{tier}-{seed}")
    meta = {"evaluations": 0, "distinct_nontrivial": 0, "histogram": {}, "samples": [], "oracle_failures": [], "notes": {}, "exhaustive": False}
    disagreements = []
    compared = 0
    driver_s = 0.0
    if ok_h:
        rc, out, driver_s = run_driver(prop, tier, seed, outdir)
        if rc != 0 or not os.path.exists(os.path.join(outdir, "meta.json")):
            broken.append(("correspondence driver " + prop, f"driver exited {rc}\n" + out[-3000:]))
        else:
            meta = json.load(open(os.path.join(outdir, "meta.json")))
            if ok_exe:
                rc2, err2 = run_model(outdir)
                if rc2 != 0:
                    broken.append(("tdxmodel run", err2[-2000:]))
                else:
                    compared, disagreements = compare(prop, outdir)
    # drop what the known-findings file lists
    known_hits = {}
    fails = []
    for f in (meta.get("oracle_failures") or []):
        k = known_match(prop, f["case"], f["reason"], known)
        if k:
            known_hits.setdefault(k["id"], k)
        else:
            fails.append(f)
    dis2 = []
    for d in disagreements:
        k = known_match(prop, d["case"], "", [k for k in known if k.get("covers_disagreement")])
        if k:
            known_hits.setdefault(k["id"], k)
        else:
            dis2.append(d)
    disagreements = dis2
    driver_errors = [d for d in disagreements if d["predicted"].startswith("DRIVER-ERROR") or d["predicted"] == "MODEL-OUTPUT-MISSING"]

    violation = None
    if fails:
        f = fails[0]
        pred = next((d["predicted"] for d in disagreements if d["index"] == f["index"]), None)
        path = write_replay(prop, seed, tier, "oracle", {"index": f["index"], "case": f["case"], "observed": f["observed"], "predicted": pred,
                                                         "property_oracle": f["reason"], "further_failures": len(fails) - 1,
                                                         "broken_obligations": [b[0] for b in broken]})
        violation = (path, "")
    elif disagreements or broken:
        # the property is no longer *shown* to hold: search harder for a concrete failing input
        found = None
        driver_died = any(b[0].startswith("correspondence driver") for b in broken)   # crashed or hung: the bigger run would too
        if ok_h and tier != "thorough" and not spec.get("no_escalation") and not driver_died:
            sdir = os.path.join(WORK, f"{prop}-search-{seed}")
            rc, out, _ = run_driver(prop, "thorough", seed, sdir)
            if rc == 0 and os.path.exists(os.path.join(sdir, "meta.json")):
                m2 = json.load(open(os.path.join(sdir, "meta.json")))
                for f in (m2.get("oracle_failures") or []):
                    if not known_match(prop, f["case"], f["reason"], known):
                        found = f
                        break
            shutil.rmtree(sdir, ignore_errors=True)
        if found:
            path = write_replay(prop, seed, "thorough", "oracle", {"index": found["index"], "case": found["case"], "observed": found["observed"],
                                                                    "property_oracle": found["reason"], "found_by": "escalated search after a broken obligation/correspondence",
                                                                    "broken_obligations": [b[0] for b in broken], "first_disagreement": disagreements[:1]})
            violation = (path, "")
        else:
            what = []
            if broken:
                what += [{"no_longer_checks": b[0], "detail": b[1]} for b in broken]
            if disagreements:
                what.append({"no_longer_checks": f"correspondence {prop} (model vs code)", "disagreements": len(disagreements), "first": disagreements[:3]})
            path = write_replay(prop, seed, tier, "unproved", {"broken": what})
            violation = (path, " no-failing-input-found")

    # ---- evidence ----
    os.makedirs(EVID, exist_ok=True)
    wall = time.time() - t_start
    theorem_list = sorted(axioms.keys())
    ev = {
        "property_id": prop, "tier": tier, "seed": seed, "level": "proof",
        "coverage": {
            "obligations": max(obligations, 1) if not ok_proofs else obligations,
            "discharged": discharged,
            "checker_cmd": f"cd lean && lake build TdxProofs.Props.{prop} && lake env lean <#print axioms of every theorem>" + (" && lake env leanchecker TdxProofs.Props." + prop if tier == "thorough" else ""),
            "trusted_base": spec.get("trusted_base", []) + [
                "Lean 4.33.0 kernel; axioms allowed: propext, Classical.choice, Quot.sound (audited per theorem on this run)",
                "extractor /verif/extract (go/types constant evaluation, syntactic provenance analysis)",
                "correspondence harness /verif/harness (differential testing, bounded sample — see evaluations/rule)"],
            "theorems": {n: axioms[n] for n in theorem_list},
            "evaluations": meta.get("evaluations", 0),
            "distinct_nontrivial": meta.get("distinct_nontrivial", 0),
            "rule": spec.get("rule", ""),
            "samples": (meta.get("samples") or [])[:6] or ["(driver did not run)"],
            "exhaustive": bool(meta.get("exhaustive", False)),
            "histogram": meta.get("histogram", {}),
            "compared_with_model": compared,
            "disagreements": len(disagreements),
            "model_driver_errors": len(driver_errors),
            "oracle_failures": len(fails),
            "known_findings_seen": sorted(known_hits.keys()),
            "broken_obligations": [b[0] for b in broken],
            "leanchecker_ok": leanchecker,
            "driver_notes": meta.get("notes", {}),
            "constants_not_found_by_name_pinned_value_kept": missing_consts(),
            "driver_wall_s": round(driver_s, 2),
        },
        "assumptions": spec.get("assumptions", []),
        "wall_s": round(wall, 2),
        "violations": 1 if violation else 0,
    }
    with open(os.path.join(EVID, prop + ".json"), "w") as f:
        json.dump(ev, f, indent=1)

    for kid, k in sorted(known_hits.items()):
        print(f"KNOWN-FINDING: property={prop} {k['what']}")
    print(f"[{prop}] tier={tier} seed={seed} theorems={discharged}/{obligations} cases={meta.get('evaluations', 0)} "
          f"distinct={meta.get('distinct_nontrivial', 0)} compared={compared} disagreements={len(disagreements)} oracle_failures={len(fails)} "
          f"broken={len(broken)} wall={wall:.1f}s")
    if violation:
        for b in broken[:5]:
            print(f"  broken: {b[0]}: {b[1][:400]}")
        for d in disagreements[:3]:
            print(f"  disagreement #{d['index']}: observed={d['observed'][:200]} predicted={d['predicted'][:200]}")
        for f in fails[:3]:
            print(f"  oracle: #{f['index']}: {f['reason'][:300]}")
        print(f"VIOLATION property={prop} replay={violation[0]}{violation[1]}")
        return 1
    return 0


def replay(path):
    p = json.load(open(os.path.join(ROOT, path) if not os.path.isabs(path) else path))
    prop, seed, tier = p["property"], p["seed"], p["tier"]
    print(json.dumps({k: p[k] for k in p if k not in ("broken",)}, indent=1)[:4000])
    if p["kind"] == "unproved":
        print(json.dumps(p["broken"], indent=1)[:6000])
        print("re-running the check:")
        return check(prop, tier, seed)
    with Lock("build"):
        build_extractor(); run_extractor(); lake_build(["tdxmodel"]); ok, out = build_harness()
        for name, o in run_prebuild(PROPS[prop]):
            ok, out = False, name + "\n" + o
    if not ok:
        print(out); return 2
    outdir = os.path.join(WORK, f"{prop}-replay")
    rc, out, _ = run_driver(prop, tier, seed, outdir)
    if rc != 0:
        print(out); return 2
    cases = open(os.path.join(outdir, "cases.txt")).read().split("\n")
    obs = open(os.path.join(outdir, "observed.txt")).read().split("\n")
    i = p["index"]
    same = i < len(cases) and cases[i] == p["case"]
    print(f"case #{i} regenerated {'identically' if same else 'DIFFERENTLY (nondeterministic bytes such as ECDSA nonces; verdict-level replay)'}")
    print("observed now :", obs[i] if i < len(obs) else None)
    meta = json.load(open(os.path.join(outdir, "meta.json")))
    still = [f for f in (meta["oracle_failures"] or []) if f["index"] == i]
    print("property oracle now:", still[0]["reason"] if still else "holds")
    return 1 if still else 0


def setup():
    with Lock("build"):
        build_extractor()
        ok, msg = run_extractor()
        if not ok:
            print(msg); return 1
        ok, out = lake_build([])
        print(out[-2000:])
        if not ok:
            return 1
        ok, out = build_harness()
        if not ok:
            print(out); return 1
        for extra in PROPS.get("_setup", []):
            rc, out = sh(extra["cmd"], cwd=extra.get("cwd", ROOT), env=GOENV)
            if rc != 0:
                print(out); return 1
    print("setup ok")
    return 0


def main():
    ap = argparse.ArgumentParser()
    sub = ap.add_subparsers(dest="cmd", required=True)
    c = sub.add_parser("check"); c.add_argument("prop"); c.add_argument("--tier", default="quick")
    r = sub.add_parser("replay"); r.add_argument("path")
    sub.add_parser("setup")
    a = ap.parse_args()
    if a.cmd == "setup":
        sys.exit(setup())
    if a.cmd == "replay":
        sys.exit(replay(a.path))
    tier = os.environ.get("VERIF_TIER") or a.tier
    seed = int(os.environ.get("VERIF_SEED", "1") or "1")
    if a.prop not in PROPS:
        print("unknown property", a.prop); sys.exit(2)
    sys.exit(check(a.prop, tier, seed))


if __name__ == "__main__":
    main()
