// Command tdxextract regenerates the facts the Lean model depends on from the current
// working tree of /repo (L1 constants and L2 site inventories of DESIGN.md §3).
//
// Usage: tdxextract -repo /repo -out <dir>
// Writes <dir>/Consts.lean and <dir>/Sites.lean (only when their content changes).
package main

import (
	"encoding/json"
	"bytes"
	"crypto/sha256"
	"encoding/hex"
	"flag"
	"fmt"
	"go/ast"
	"go/constant"
	"go/token"
	"go/types"
	"math/big"
	"os"
	"path/filepath"
	"sort"
	"strings"

	"golang.org/x/tools/go/packages"
)

var pkgPaths = []string{"./abi", "./validate", "./verify", "./verify/trust", "./pcs", "./client", "./client/linuxabi", "./rtmr", "./tools/check"}

func leanName(pkg, name string) string {
	p := strings.ReplaceAll(pkg, "/", "_")
	return p + "_" + name
}

func leanString(s string) string {
	var b strings.Builder
	b.WriteByte('"')
	for _, r := range s {
		switch {
		case r == '"':
			b.WriteString("\\\"")
		case r == '\\':
			b.WriteString("\\\\")
		case r == '\n':
			b.WriteString("\\n")
		case r < 0x20 || r > 0x7e:
			fmt.Fprintf(&b, "\\u{%x}", r)
		default:
			b.WriteRune(r)
		}
	}
	b.WriteByte('"')
	return b.String()
}

type def struct{ name, typ, val string }

func constDef(short string, c *types.Const) (def, bool) {
	v := c.Val()
	switch v.Kind() {
	case constant.Int:
		bi, ok := new(big.Int).SetString(v.ExactString(), 10)
		if !ok {
			return def{}, false
		}
		if bi.Sign() < 0 {
			return def{short, "Int", "(" + bi.String() + ")"}, true
		}
		return def{short, "Nat", bi.String()}, true
	case constant.Float:
		if constant.ToInt(v).Kind() == constant.Int {
			return constDef(short, types.NewConst(token.NoPos, nil, short, c.Type(), constant.ToInt(v)))
		}
		return def{}, false
	case constant.String:
		return def{short, "String", leanString(constant.StringVal(v))}, true
	case constant.Bool:
		if constant.BoolVal(v) {
			return def{short, "Bool", "true"}, true
		}
		return def{short, "Bool", "false"}, true
	}
	return def{}, false
}

func shortPkg(p *packages.Package) string {
	// path relative to module root
	const mod = "github.com/google/go-tdx-guest/"
	return strings.TrimPrefix(p.PkgPath, mod)
}

func intList(info *types.Info, e ast.Expr) ([]string, bool) {
	// asn1.ObjectIdentifier([]int{...}) or []int{...}
	if call, ok := e.(*ast.CallExpr); ok && len(call.Args) == 1 {
		e = call.Args[0]
	}
	cl, ok := e.(*ast.CompositeLit)
	if !ok {
		return nil, false
	}
	var out []string
	for _, el := range cl.Elts {
		tv, ok := info.Types[el]
		if !ok || tv.Value == nil || tv.Value.Kind() != constant.Int {
			return nil, false
		}
		out = append(out, tv.Value.ExactString())
	}
	return out, true
}

func main() {
	repo := flag.String("repo", "/repo", "repository root")
	out := flag.String("out", "", "output directory for generated Lean files")
	pinned := flag.String("pinned", "", "JSON file with the constants of the pinned tree (fallback for names no longer found)")
	writePinned := flag.Bool("write-pinned", false, "write the pinned-constants file from the current tree")
	flag.Parse()
	if *out == "" {
		fmt.Fprintln(os.Stderr, "need -out")
		os.Exit(2)
	}
	cfg := &packages.Config{Mode: packages.NeedName | packages.NeedTypes | packages.NeedTypesInfo | packages.NeedSyntax | packages.NeedFiles | packages.NeedImports | packages.NeedDeps,
		Dir: *repo, Tests: false, Env: append(os.Environ(), "GOFLAGS=-mod=mod", "GOPROXY=off", "GOSUMDB=off")}
	pkgs, err := packages.Load(cfg, pkgPaths...)
	if err != nil {
		fmt.Fprintln(os.Stderr, "load:", err)
		os.Exit(1)
	}
	bad := false
	for _, p := range pkgs {
		for _, e := range p.Errors {
			fmt.Fprintln(os.Stderr, "package error:", e)
			bad = true
		}
	}
	if bad {
		os.Exit(1)
	}
	sort.Slice(pkgs, func(i, j int) bool { return pkgs[i].PkgPath < pkgs[j].PkgPath })

	var defs []def
	for _, p := range pkgs {
		sp := shortPkg(p)
		sc := p.Types.Scope()
		names := sc.Names()
		sort.Strings(names)
		for _, nm := range names {
			switch o := sc.Lookup(nm).(type) {
			case *types.Const:
				if d, ok := constDef(leanName(sp, nm), o); ok {
					defs = append(defs, d)
				}
			}
		}
		// package-level var initialisers that are constant or int-list literals
		for _, f := range p.Syntax {
			for _, decl := range f.Decls {
				gd, ok := decl.(*ast.GenDecl)
				if !ok || gd.Tok != token.VAR {
					continue
				}
				for _, spec := range gd.Specs {
					vs := spec.(*ast.ValueSpec)
					for i, id := range vs.Names {
						if i >= len(vs.Values) {
							continue
						}
						val := vs.Values[i]
						if tv, ok := p.TypesInfo.Types[val]; ok && tv.Value != nil {
							if d, ok := constDef(leanName(sp, id.Name), types.NewConst(token.NoPos, nil, id.Name, tv.Type, tv.Value)); ok {
								defs = append(defs, d)
							}
							continue
						}
						if il, ok := intList(p.TypesInfo, val); ok {
							defs = append(defs, def{leanName(sp, id.Name), "List Nat", "[" + strings.Join(il, ", ") + "]"})
							continue
						}
						// http.CanonicalHeaderKey(const)
						if call, ok := val.(*ast.CallExpr); ok && len(call.Args) == 1 {
							if se, ok := call.Fun.(*ast.SelectorExpr); ok && se.Sel.Name == "CanonicalHeaderKey" {
								if tv, ok := p.TypesInfo.Types[call.Args[0]]; ok && tv.Value != nil && tv.Value.Kind() == constant.String {
									defs = append(defs, def{leanName(sp, id.Name) + "_arg", "String", leanString(constant.StringVal(tv.Value))})
								}
							}
						}
					}
				}
			}
		}
		// function-local facts
		for _, f := range p.Syntax {
			ast.Inspect(f, func(n ast.Node) bool {
				fd, ok := n.(*ast.FuncDecl)
				if !ok || fd.Body == nil {
					return true
				}
				fname := fd.Name.Name
				if fd.Recv != nil && len(fd.Recv.List) == 1 {
					t := fd.Recv.List[0].Type
					if st, ok := t.(*ast.StarExpr); ok {
						t = st.X
					}
					if id, ok := t.(*ast.Ident); ok {
						fname = id.Name + "_" + fname
					}
				}
				ast.Inspect(fd.Body, func(m ast.Node) bool {
					switch s := m.(type) {
					case *ast.AssignStmt:
						// `x := <const expr>` (first definition only)
						if s.Tok == token.DEFINE && len(s.Lhs) == 1 && len(s.Rhs) == 1 {
							if id, ok := s.Lhs[0].(*ast.Ident); ok {
								if tv, ok := p.TypesInfo.Types[s.Rhs[0]]; ok && tv.Value != nil {
									if _, isLit := s.Rhs[0].(*ast.BasicLit); !isLit || sp == "verify/trust" {
										if d, ok := constDef(leanName(sp, "local_"+fname+"_"+id.Name), types.NewConst(token.NoPos, nil, id.Name, tv.Type, tv.Value)); ok {
											defs = append(defs, d)
										}
									}
								}
							}
						}
					case *ast.CompositeLit:
						// struct literals with constant-valued keyed fields in trust.DefaultHTTPSGetter
						if sp == "verify/trust" && fname == "DefaultHTTPSGetter" {
							for _, el := range s.Elts {
								kv, ok := el.(*ast.KeyValueExpr)
								if !ok {
									continue
								}
								k, ok := kv.Key.(*ast.Ident)
								if !ok {
									continue
								}
								if tv, ok := p.TypesInfo.Types[kv.Value]; ok && tv.Value != nil {
									if d, ok := constDef(leanName(sp, "default_"+k.Name), types.NewConst(token.NoPos, nil, k.Name, tv.Type, tv.Value)); ok {
										defs = append(defs, d)
									}
								}
							}
						}
					}
					return true
				})
				return false
			})
		}
	}
	// embedded trust anchor
	if pem, err := os.ReadFile(filepath.Join(*repo, "verify", "trusted_root.pem")); err == nil {
		h := sha256.Sum256(pem)
		defs = append(defs, def{"verify_trusted_root_pem_sha256", "String", leanString(hex.EncodeToString(h[:]))})
	} else {
		fmt.Fprintln(os.Stderr, "trusted_root.pem:", err)
		os.Exit(1)
	}

	// constants the model was written against but that are no longer found under their name (renamed / inlined / removed):
	// keep the pinned value so that a rename alone breaks nothing — the behavioural comparison decides whether the value
	// still is what the code uses — and report them
	if *pinned != "" {
		if *writePinned {
			m := map[string][2]string{}
			for _, d := range defs {
				if _, dup := m[d.name]; !dup {
					m[d.name] = [2]string{d.typ, d.val}
				}
			}
			js, _ := json.MarshalIndent(m, "", " ")
			if err := os.WriteFile(*pinned, js, 0o644); err != nil {
				fmt.Fprintln(os.Stderr, "write pinned:", err)
				os.Exit(1)
			}
		} else if js, err := os.ReadFile(*pinned); err == nil {
			m := map[string][2]string{}
			if err := json.Unmarshal(js, &m); err != nil {
				fmt.Fprintln(os.Stderr, "pinned constants:", err)
				os.Exit(1)
			}
			have := map[string]bool{}
			for _, d := range defs {
				have[d.name] = true
			}
			var missing []string
			for n := range m {
				if !have[n] {
					missing = append(missing, n)
				}
			}
			sort.Strings(missing)
			for _, n := range missing {
				defs = append(defs, def{n, m[n][0], m[n][1]})
				fmt.Fprintln(os.Stderr, "constant not found by name, pinned value kept:", n)
			}
			writeIfChanged(filepath.Join(*out, "missing_consts.txt"), []byte(strings.Join(missing, "\n")))
		}
	}

	// de-duplicate (first wins) and emit
	seen := map[string]bool{}
	var b bytes.Buffer
	b.WriteString("/- GENERATED by /verif/extract from /repo's working tree. Do not edit. -/\nnamespace Tdx.Gen\n\n")
	for _, d := range defs {
		if seen[d.name] {
			continue
		}
		seen[d.name] = true
		fmt.Fprintf(&b, "@[reducible, simp] def %s : %s := %s\n", d.name, d.typ, d.val)
	}
	b.WriteString("\nend Tdx.Gen\n")
	writeIfChanged(filepath.Join(*out, "Consts.lean"), b.Bytes())
	// the same names as a simp set for proofs (TdxProofs may import Lean's tactic framework; the model may not)
	var a bytes.Buffer
	a.WriteString("/- GENERATED by /verif/extract. Do not edit. -/\nimport TdxProofs.GenAttr\nimport TdxModel.Generated.Consts\n\nattribute [gen_const]\n")
	for n := range seen {
		_ = n
	}
	for _, d := range defs {
		if seen[d.name] {
			fmt.Fprintf(&a, "  Tdx.Gen.%s\n", d.name)
			seen[d.name] = false
		}
	}
	writeIfChanged(filepath.Join(*out, "..", "..", "TdxProofs", "Generated", "ConstsSimp.lean"), a.Bytes())

	sites := extractSites(pkgs)
	writeIfChanged(filepath.Join(*out, "Sites.lean"), sites)
}

func writeIfChanged(path string, data []byte) {
	old, err := os.ReadFile(path)
	if err == nil && bytes.Equal(old, data) {
		return
	}
	if err := os.WriteFile(path, data, 0o644); err != nil {
		fmt.Fprintln(os.Stderr, "write:", err)
		os.Exit(1)
	}
	fmt.Fprintln(os.Stderr, "updated", path)
}
