package main

import (
	"bytes"
	"fmt"
	"go/ast"
	"go/constant"
	"go/token"
	"go/types"
	"path/filepath"
	"sort"
	"strings"

	"golang.org/x/tools/go/packages"
)

// Files whose slice / index / write sites are inventoried (repo-owned glue that touches bytes).
var siteFiles = map[string]bool{
	"abi/abi.go": true, "validate/validate.go": true, "verify/verify.go": true,
	"pcs/pcs.go": true, "client/client.go": true, "rtmr/ccel.go": true, "rtmr/extend.go": true,
}

type site struct {
	file, fn, kind, lo, hi string
}

type wsite struct {
	file, fn, op, dest string // dest: fresh | input | unknown
}

func constStr(info *types.Info, e ast.Expr) string {
	if e == nil {
		return "_"
	}
	if tv, ok := info.Types[e]; ok && tv.Value != nil && tv.Value.Kind() == constant.Int {
		return tv.Value.ExactString()
	}
	return "?"
}

func isBuiltin(info *types.Info, id *ast.Ident, name string) bool {
	if id.Name != name {
		return false
	}
	obj := info.Uses[id]
	_, ok := obj.(*types.Builtin)
	return ok
}

func funcName(fd *ast.FuncDecl) string {
	name := fd.Name.Name
	if fd.Recv != nil && len(fd.Recv.List) == 1 {
		t := fd.Recv.List[0].Type
		if st, ok := t.(*ast.StarExpr); ok {
			t = st.X
		}
		if id, ok := t.(*ast.Ident); ok {
			name = id.Name + "." + name
		}
	}
	return name
}

// provenance analysis -----------------------------------------------------------------------

type prov int

const (
	pUnknown prov = iota
	pFresh
	pInput
)

func (p prov) String() string { return [...]string{"unknown", "fresh", "input"}[p] }

func join(a, b prov) prov {
	if a == b {
		return a
	}
	if a == pInput || b == pInput {
		return pInput
	}
	return pUnknown
}

// functions whose result is a freshly allocated buffer (summaries; each is itself inventoried or stdlib)
func freshCallee(name string) bool {
	switch name {
	case "make", "new", "clone", "applyMask", "DecodeString", "EncodeToString", "Sum", "Sum256", "Marshal",
		"HeaderToAbiBytes", "TdQuoteBodyToAbiBytes", "EnclaveReportToAbiBytes", "QuoteToAbiBytes", "SignatureToDER",
		"pckCertificateChainToAbiBytes", "qeAuthDataToAbiBytes", "qeReportCertificationDataToAbiBytes",
		"certificationDataToAbiBytes", "signedDataToAbiBytes", "quoteToAbiBytesV4", "getHeaderAndTdQuoteBodyInAbiBytes",
		"Bytes", "ReadFile", "ReadAll", "QueryUnescape", "Sprintf":
		return true
	}
	return false
}

type fnEnv struct {
	info   *types.Info
	params map[types.Object]bool
	vars   map[types.Object]prov
	set    map[types.Object]bool
	// strict: no callee summaries except clone/make; a call to a function in `aliasing` passes its first argument through
	strict   bool
	aliasing map[string]bool
}

func (e *fnEnv) classify(x ast.Expr) prov {
	switch v := x.(type) {
	case *ast.ParenExpr:
		return e.classify(v.X)
	case *ast.Ident:
		obj := e.info.Uses[v]
		if obj == nil {
			obj = e.info.Defs[v]
		}
		if obj == nil {
			return pUnknown
		}
		if e.params[obj] {
			return pInput
		}
		if p, ok := e.vars[obj]; ok {
			return p
		}
		if _, ok := obj.(*types.Nil); ok {
			return pFresh
		}
		return pUnknown
	case *ast.SliceExpr:
		return e.classify(v.X)
	case *ast.IndexExpr:
		return e.classify(v.X)
	case *ast.StarExpr:
		return e.classify(v.X)
	case *ast.UnaryExpr:
		if v.Op == token.AND {
			return e.classify(v.X)
		}
		return pUnknown
	case *ast.SelectorExpr:
		// field of a local value: provenance of the holder (fresh message under construction, or input)
		return e.classify(v.X)
	case *ast.CompositeLit:
		return pFresh
	case *ast.CallExpr:
		switch f := v.Fun.(type) {
		case *ast.Ident:
			if isBuiltin(e.info, f, "append") && len(v.Args) > 0 {
				return e.classify(v.Args[0])
			}
			if e.strict {
				if f.Name == "clone" || f.Name == "make" || f.Name == "new" {
					return pFresh
				}
				if known, ok := e.aliasing[f.Name]; ok {
					if known && len(v.Args) > 0 {
						return e.classify(v.Args[0])
					}
					return pFresh
				}
			}
			if freshCallee(f.Name) {
				return pFresh
			}
			// conversion such as []byte(x)
			if tv, ok := e.info.Types[v.Fun]; ok && tv.IsType() && len(v.Args) == 1 {
				if bt, ok := e.info.Types[v.Args[0]]; ok {
					if b, ok := bt.Type.Underlying().(*types.Basic); ok && b.Info()&types.IsString != 0 {
						return pFresh
					}
				}
				return e.classify(v.Args[0])
			}
		case *ast.SelectorExpr:
			if strings.HasPrefix(f.Sel.Name, "Get") {
				// protobuf getter: a view of the receiver
				return e.classify(f.X)
			}
			if freshCallee(f.Sel.Name) {
				return pFresh
			}
			// binary.*.AppendUintNN(b, v), hex.AppendEncode(b, src), strconv.AppendInt(b, …), fmt.Appendf(b, …):
			// like the append builtin, the result is (an extension of) the first argument
			if strings.HasPrefix(f.Sel.Name, "Append") && len(v.Args) > 0 {
				return e.classify(v.Args[0])
			}
		case *ast.ArrayType:
			if len(v.Args) == 1 {
				if bt, ok := e.info.Types[v.Args[0]]; ok {
					if b, ok := bt.Type.Underlying().(*types.Basic); ok && b.Info()&types.IsString != 0 {
						return pFresh
					}
				}
				return e.classify(v.Args[0])
			}
		}
		return pUnknown
	}
	return pUnknown
}

func (e *fnEnv) assign(lhs ast.Expr, p prov) {
	id, ok := lhs.(*ast.Ident)
	if !ok {
		return
	}
	obj := e.info.Defs[id]
	if obj == nil {
		obj = e.info.Uses[id]
	}
	if obj == nil || e.params[obj] {
		return
	}
	if e.set[obj] {
		e.vars[obj] = join(e.vars[obj], p)
	} else {
		e.vars[obj] = p
		e.set[obj] = true
	}
}

// parserAliases computes, for the *ToProto functions of abi/abi.go, whether a field of the returned message can alias
// the function's byte-slice parameter (i.e. is assigned from parameter-derived bytes that did not pass through clone).
func parserAliases(pkgs []*packages.Package) (map[string]bool, []string) {
	aliasing := map[string]bool{}
	var order []string
	var decls []*ast.FuncDecl
	var info *types.Info
	for _, p := range pkgs {
		if shortPkg(p) != "abi" {
			continue
		}
		info = p.TypesInfo
		for _, f := range p.Syntax {
			if filepath.Base(p.Fset.Position(f.Pos()).Filename) != "abi.go" {
				continue
			}
			for _, d := range f.Decls {
				if fd, ok := d.(*ast.FuncDecl); ok && fd.Body != nil && (strings.HasSuffix(fd.Name.Name, "ToProto") || strings.HasPrefix(fd.Name.Name, "quoteToProto")) {
					decls = append(decls, fd)
					aliasing[fd.Name.Name] = false
					order = append(order, fd.Name.Name)
				}
			}
		}
	}
	sort.Strings(order)
	for changed := true; changed; {
		changed = false
		for _, fd := range decls {
			env := &fnEnv{info: info, params: map[types.Object]bool{}, vars: map[types.Object]prov{}, set: map[types.Object]bool{}, strict: true, aliasing: aliasing}
			for _, fl := range fd.Type.Params.List {
				for _, n := range fl.Names {
					env.params[info.Defs[n]] = true
				}
			}
			for pass := 0; pass < 2; pass++ {
				ast.Inspect(fd.Body, func(n ast.Node) bool {
					switch s := n.(type) {
					case *ast.AssignStmt:
						if len(s.Lhs) == len(s.Rhs) {
							for i := range s.Lhs {
								env.assign(s.Lhs[i], env.classify(s.Rhs[i]))
							}
						} else if len(s.Rhs) == 1 {
							pr := env.classify(s.Rhs[0])
							for i := range s.Lhs {
								if i == 0 {
									env.assign(s.Lhs[i], pr)
								} else {
									env.assign(s.Lhs[i], pFresh)
								}
							}
						}
					}
					return true
				})
			}
			alias := false
			ast.Inspect(fd.Body, func(n ast.Node) bool {
				switch s := n.(type) {
				case *ast.AssignStmt:
					for i, l := range s.Lhs {
						if _, ok := l.(*ast.SelectorExpr); ok && i < len(s.Rhs) {
							// message.Field = expr : bytes (or a sub-message built by a callee)
							if t, ok := info.Types[s.Rhs[i]]; ok {
								switch t.Type.Underlying().(type) {
								case *types.Slice, *types.Pointer:
									if env.classify(s.Rhs[i]) == pInput {
										alias = true
									}
								}
							}
						}
					}
				case *ast.ReturnStmt:
					// return quoteToProtoV4(b): the result aliases whatever the callee's result aliases
					if len(s.Results) == 1 {
						if call, ok := s.Results[0].(*ast.CallExpr); ok {
							if id, ok := call.Fun.(*ast.Ident); ok {
								if _, known := aliasing[id.Name]; known && env.classify(call) == pInput {
									alias = true
								}
							}
						}
					}
				case *ast.CallExpr:
					// report.Rtmrs = append(report.Rtmrs, arr)
					if id, ok := s.Fun.(*ast.Ident); ok && isBuiltin(info, id, "append") {
						for _, a := range s.Args[1:] {
							if env.classify(a) == pInput {
								alias = true
							}
						}
					}
				}
				return true
			})
			if alias && !aliasing[fd.Name.Name] {
				aliasing[fd.Name.Name] = true
				changed = true
			}
		}
	}
	return aliasing, order
}

func extractSites(pkgs []*packages.Package) []byte {
	var sites []site
	var wsites []wsite
	for _, p := range pkgs {
		sp := shortPkg(p)
		for _, f := range p.Syntax {
			rel := sp + "/" + filepath.Base(p.Fset.Position(f.Pos()).Filename)
			if !siteFiles[rel] {
				continue
			}
			for _, decl := range f.Decls {
				fd, ok := decl.(*ast.FuncDecl)
				if !ok || fd.Body == nil {
					continue
				}
				fn := funcName(fd)
				env := &fnEnv{info: p.TypesInfo, params: map[types.Object]bool{}, vars: map[types.Object]prov{}, set: map[types.Object]bool{}}
				if fd.Recv != nil {
					for _, fl := range fd.Recv.List {
						for _, n := range fl.Names {
							env.params[p.TypesInfo.Defs[n]] = true
						}
					}
				}
				for _, fl := range fd.Type.Params.List {
					for _, n := range fl.Names {
						env.params[p.TypesInfo.Defs[n]] = true
					}
				}
				// two passes so that later reassignments are joined before classification of uses
				for pass := 0; pass < 2; pass++ {
					ast.Inspect(fd.Body, func(n ast.Node) bool {
						switch s := n.(type) {
						case *ast.AssignStmt:
							if len(s.Lhs) == len(s.Rhs) {
								for i := range s.Lhs {
									env.assign(s.Lhs[i], env.classify(s.Rhs[i]))
								}
							} else if len(s.Rhs) == 1 {
								pr := env.classify(s.Rhs[0])
								// multi-value call: every result that can carry bytes (slice, pointer, interface, map) has the call's
								// provenance (pem.Decode's second result is a slice of its argument); err / len / bool results are fresh
								for i := range s.Lhs {
									carries := i == 0
									if t, ok := p.TypesInfo.Types[s.Lhs[i]]; ok && t.Type != nil {
										switch t.Type.Underlying().(type) {
										case *types.Slice, *types.Pointer, *types.Map:
											carries = true
										case *types.Interface:
											carries = i == 0
										}
									} else if id, ok := s.Lhs[i].(*ast.Ident); ok {
										if obj := p.TypesInfo.Defs[id]; obj != nil && obj.Type() != nil {
											switch obj.Type().Underlying().(type) {
											case *types.Slice, *types.Pointer, *types.Map:
												carries = true
											}
										}
									}
									if carries {
										env.assign(s.Lhs[i], pr)
									} else {
										env.assign(s.Lhs[i], pFresh)
									}
								}
							}
						case *ast.ValueSpec:
							for i, n := range s.Names {
								if i < len(s.Values) {
									env.assign(n, env.classify(s.Values[i]))
								} else {
									env.assign(n, pFresh) // zero value (nil slice, zero array)
								}
							}
						case *ast.RangeStmt:
							if s.Key != nil {
								env.assign(s.Key, pFresh)
							}
							if s.Value != nil {
								env.assign(s.Value, env.classify(s.X))
							}
						}
						return true
					})
				}
				ast.Inspect(fd.Body, func(n ast.Node) bool {
					switch s := n.(type) {
					case *ast.SliceExpr:
						if t, ok := p.TypesInfo.Types[s.X]; ok {
							switch t.Type.Underlying().(type) {
							case *types.Slice, *types.Array, *types.Pointer, *types.Basic:
								sites = append(sites, site{rel, fn, "slice", constStr(p.TypesInfo, s.Low), constStr(p.TypesInfo, s.High)})
							}
						}
					case *ast.IndexExpr:
						if t, ok := p.TypesInfo.Types[s.X]; ok {
							switch t.Type.Underlying().(type) {
							case *types.Slice, *types.Array, *types.Basic:
								sites = append(sites, site{rel, fn, "index", constStr(p.TypesInfo, s.Index), "_"})
							}
						}
					case *ast.TypeAssertExpr:
						if s.Type != nil {
							// single-value assertion panics on mismatch; comma-ok form does not
							sites = append(sites, site{rel, fn, "assert", "_", "_"})
						}
					case *ast.SelectorExpr:
						// explicit field selection through a pointer to a protobuf message (nil deref if absent)
						if sel, ok := p.TypesInfo.Selections[s]; ok && sel.Kind() == types.FieldVal && sel.Indirect() {
							if named, ok := derefNamed(sel.Recv()); ok && strings.Contains(named.Obj().Pkg().Path(), "/proto/") {
								sites = append(sites, site{rel, fn, "deref", named.Obj().Name() + "." + s.Sel.Name, "_"})
							}
						}
					case *ast.CallExpr:
						switch f := s.Fun.(type) {
						case *ast.Ident:
							if isBuiltin(p.TypesInfo, f, "append") && len(s.Args) > 0 {
								wsites = append(wsites, wsite{rel, fn, "append", env.classify(s.Args[0]).String()})
							}
							if isBuiltin(p.TypesInfo, f, "copy") && len(s.Args) > 0 {
								wsites = append(wsites, wsite{rel, fn, "copy", env.classify(s.Args[0]).String()})
							}
						case *ast.SelectorExpr:
							if strings.HasPrefix(f.Sel.Name, "PutUint") && len(s.Args) > 0 {
								wsites = append(wsites, wsite{rel, fn, "put", env.classify(s.Args[0]).String()})
							}
							if strings.HasPrefix(f.Sel.Name, "Append") && len(s.Args) > 0 {
								if t, ok := p.TypesInfo.Types[s.Args[0]]; ok {
									if _, isSlice := t.Type.Underlying().(*types.Slice); isSlice {
										wsites = append(wsites, wsite{rel, fn, "append", env.classify(s.Args[0]).String()})
									}
								}
							}
						}
					case *ast.AssignStmt:
						for _, l := range s.Lhs {
							if ix, ok := l.(*ast.IndexExpr); ok {
								if t, ok := p.TypesInfo.Types[ix.X]; ok {
									switch t.Type.Underlying().(type) {
									case *types.Slice, *types.Array:
										wsites = append(wsites, wsite{rel, fn, "store", env.classify(ix.X).String()})
									}
								}
							}
						}
					}
					return true
				})
			}
		}
	}
	sort.SliceStable(sites, func(i, j int) bool {
		a, b := sites[i], sites[j]
		if a.file != b.file {
			return a.file < b.file
		}
		if a.fn != b.fn {
			return a.fn < b.fn
		}
		if a.kind != b.kind {
			return a.kind < b.kind
		}
		if a.lo != b.lo {
			return a.lo < b.lo
		}
		return a.hi < b.hi
	})
	sort.SliceStable(wsites, func(i, j int) bool {
		a, b := wsites[i], wsites[j]
		if a.file != b.file {
			return a.file < b.file
		}
		if a.fn != b.fn {
			return a.fn < b.fn
		}
		if a.op != b.op {
			return a.op < b.op
		}
		return a.dest < b.dest
	})
	var b bytes.Buffer
	b.WriteString("/- GENERATED by /verif/extract from /repo's working tree. Do not edit. -/\nnamespace Tdx.Gen\n\n")
	b.WriteString("/-- (file, function, kind, low/index bound, high bound); constants by value, `?` = not constant, `_` = absent -/\n")
	b.WriteString("def accessSites : List (String × String × String × String × String) := [\n")
	for i, s := range sites {
		sep := ","
		if i == len(sites)-1 {
			sep = ""
		}
		fmt.Fprintf(&b, "  (%s, %s, %s, %s, %s)%s\n", leanString(s.file), leanString(s.fn), leanString(s.kind), leanString(s.lo), leanString(s.hi), sep)
	}
	b.WriteString("]\n\n")
	b.WriteString("inductive Dest | fresh | input | unknown\nderiving DecidableEq, Repr\n\n")
	b.WriteString("/-- (file, function, operation, provenance of the destination buffer) -/\n")
	b.WriteString("def writeSites : List (String × String × String × Dest) := [\n")
	for i, s := range wsites {
		sep := ","
		if i == len(wsites)-1 {
			sep = ""
		}
		fmt.Fprintf(&b, "  (%s, %s, %s, .%s)%s\n", leanString(s.file), leanString(s.fn), leanString(s.op), s.dest, sep)
	}
	b.WriteString("]\n\n")
	aliasing, order := parserAliases(pkgs)
	b.WriteString("/-- for each parser function of abi/abi.go: can a field of its result alias its byte-slice parameter (no clone on the way)? -/\n")
	b.WriteString("def parserAliasesParam : List (String × Bool) := [\n")
	for i, n := range order {
		sep := ","
		if i == len(order)-1 {
			sep = ""
		}
		fmt.Fprintf(&b, "  (%s, %v)%s\n", leanString(n), aliasing[n], sep)
	}
	b.WriteString("]\n\n")
	// ---- hidden state: writes to package-level variables outside init(), and the unexported fields of verify.Options
	gw := packageStateWrites(pkgs)
	b.WriteString("/-- (file, function, package-level variable) for every assignment / inc-dec / address-taking of a package-level variable\n    outside `init` in the library files of the verification, validation, parsing and client paths -/\n")
	b.WriteString("def packageStateWrites : List (String × String × String) := [\n")
	for i, w := range gw {
		sep := ","
		if i == len(gw)-1 {
			sep = ""
		}
		fmt.Fprintf(&b, "  (%s, %s, %s)%s\n", leanString(w[0]), leanString(w[1]), leanString(w[2]), sep)
	}
	b.WriteString("]\n\n")
	b.WriteString("/-- the unexported fields of verify.Options (state a call can leave behind in the caller's options), with their types -/\n")
	b.WriteString("def optionsHiddenFields : List (String × String) := [\n")
	hf := optionsHiddenFields(pkgs)
	for i, f := range hf {
		sep := ","
		if i == len(hf)-1 {
			sep = ""
		}
		fmt.Fprintf(&b, "  (%s, %s)%s\n", leanString(f[0]), leanString(f[1]), sep)
	}
	b.WriteString("]\n\nend Tdx.Gen\n")
	return b.Bytes()
}

// stateFiles: library files whose functions run during parsing, verification, validation, extension extraction and quote
// fetching; a write to a package-level variable there is state shared between calls and goroutines.
var stateFiles = map[string]bool{
	"abi/abi.go": true, "validate/validate.go": true, "verify/verify.go": true, "pcs/pcs.go": true,
	"client/client.go": true, "rtmr/ccel.go": true, "rtmr/extend.go": true, "verify/trust/trust.go": true,
}

func rootIdent(e ast.Expr) *ast.Ident {
	for {
		switch x := e.(type) {
		case *ast.Ident:
			return x
		case *ast.SelectorExpr:
			e = x.X
		case *ast.IndexExpr:
			e = x.X
		case *ast.StarExpr:
			e = x.X
		case *ast.ParenExpr:
			e = x.X
		case *ast.SliceExpr:
			e = x.X
		default:
			return nil
		}
	}
}

func packageStateWrites(pkgs []*packages.Package) [][3]string {
	var out [][3]string
	for _, p := range pkgs {
		sp := shortPkg(p)
		isPkgVar := func(e ast.Expr) (string, bool) {
			id := rootIdent(e)
			if id == nil {
				return "", false
			}
			obj, ok := p.TypesInfo.Uses[id].(*types.Var)
			if !ok || obj.Pkg() == nil || obj.Parent() != obj.Pkg().Scope() {
				return "", false
			}
			return obj.Pkg().Name() + "." + obj.Name(), true
		}
		for _, f := range p.Syntax {
			rel := sp + "/" + filepath.Base(p.Fset.Position(f.Pos()).Filename)
			if !stateFiles[rel] {
				continue
			}
			for _, decl := range f.Decls {
				fd, ok := decl.(*ast.FuncDecl)
				if !ok || fd.Body == nil || (fd.Recv == nil && fd.Name.Name == "init") {
					continue
				}
				fn := funcName(fd)
				ast.Inspect(fd.Body, func(n ast.Node) bool {
					switch s := n.(type) {
					case *ast.AssignStmt:
						if s.Tok == token.DEFINE {
							return true
						}
						for _, l := range s.Lhs {
							if v, ok := isPkgVar(l); ok {
								out = append(out, [3]string{rel, fn, v})
							}
						}
					case *ast.IncDecStmt:
						if v, ok := isPkgVar(s.X); ok {
							out = append(out, [3]string{rel, fn, v})
						}
					case *ast.UnaryExpr:
						if s.Op == token.AND {
							if v, ok := isPkgVar(s.X); ok {
								out = append(out, [3]string{rel, fn, "&" + v})
							}
						}
					case *ast.SliceExpr:
						// slicing a package-level array or slice hands out a writable view of package memory (scratch buffers
						// passed to Sum / Read / append …)
						if v, ok := isPkgVar(s.X); ok {
							out = append(out, [3]string{rel, fn, v + "[:]"})
						}
					case *ast.CallExpr:
						// pointer-receiver methods on a package-level variable (sync.Pool.Get/Put, Once.Do, map/cache objects …)
						if sel, ok := s.Fun.(*ast.SelectorExpr); ok {
							if selInfo, ok := p.TypesInfo.Selections[sel]; ok && selInfo.Kind() == types.MethodVal {
								if v, ok := isPkgVar(sel.X); ok {
									if sig, ok := selInfo.Obj().Type().(*types.Signature); ok && sig.Recv() != nil {
										if _, ptr := sig.Recv().Type().(*types.Pointer); ptr {
											out = append(out, [3]string{rel, fn, v + "." + sel.Sel.Name + "()"})
										}
									}
								}
							}
						}
					}
					return true
				})
			}
		}
	}
	sort.Slice(out, func(i, j int) bool { return out[i][0]+out[i][1]+out[i][2] < out[j][0]+out[j][1]+out[j][2] })
	return out
}

func optionsHiddenFields(pkgs []*packages.Package) [][2]string {
	var out [][2]string
	for _, p := range pkgs {
		if shortPkg(p) != "verify" {
			continue
		}
		obj := p.Types.Scope().Lookup("Options")
		if obj == nil {
			continue
		}
		st, ok := obj.Type().Underlying().(*types.Struct)
		if !ok {
			continue
		}
		for i := 0; i < st.NumFields(); i++ {
			f := st.Field(i)
			if !f.Exported() {
				out = append(out, [2]string{f.Name(), types.TypeString(f.Type(), func(q *types.Package) string { return q.Name() })})
			}
		}
	}
	// by name: the order of declaration is not state
	sort.Slice(out, func(i, j int) bool { return out[i][0] < out[j][0] })
	return out
}

func derefNamed(t types.Type) (*types.Named, bool) {
	if p, ok := t.Underlying().(*types.Pointer); ok {
		t = p.Elem()
	}
	n, ok := t.(*types.Named)
	if !ok || n.Obj().Pkg() == nil {
		return nil, false
	}
	return n, true
}
