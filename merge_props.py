#!/usr/bin/env python3
"""merge_props.py <clone>: append PROPS[...] / MANIFEST_TEXT[...] entries an agent added inside the dict literals of its clone's props.py"""
import sys, importlib.util, pprint, os
clone = sys.argv[1]
def load(path, name):
    spec = importlib.util.spec_from_file_location(name, path); m = importlib.util.module_from_spec(spec); spec.loader.exec_module(m); return m
mine = load(os.path.join(os.path.dirname(os.path.abspath(__file__)), "props.py"), "mine")
theirs = load(os.path.join(clone, "props.py"), "theirs")
out = []
for k, v in theirs.PROPS.items():
    if k not in mine.PROPS and not k.startswith("_"):
        out.append(f"\nPROPS[{k!r}] = " + pprint.pformat(v, width=160, sort_dicts=False) + "\n")
for k, v in theirs.MANIFEST_TEXT.items():
    if k not in mine.MANIFEST_TEXT:
        out.append(f"\nMANIFEST_TEXT[{k!r}] = " + pprint.pformat(v, width=160, sort_dicts=False) + "\n")
open(os.path.join(os.path.dirname(os.path.abspath(__file__)), "props.py"), "a").write("".join(out))
print("merged", len(out), "entries")
