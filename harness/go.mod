module tdxharness

go 1.23

require (
	github.com/google/go-configfs-tsm v0.3.2
	github.com/google/go-eventlog v0.0.2-0.20241213203620-f921bdc3aeb0
	github.com/google/go-tdx-guest v0.0.0
	golang.org/x/crypto v0.17.0
	google.golang.org/protobuf v1.34.2
)

require (
	github.com/google/go-tpm v0.9.0 // indirect
	github.com/google/logger v1.1.1 // indirect
	go.uber.org/multierr v1.11.0 // indirect
	golang.org/x/sys v0.19.0 // indirect
)

replace github.com/google/go-tdx-guest => /repo
