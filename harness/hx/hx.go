// Package hx is the small runtime shared by all correspondence drivers: case emission in the
// line protocol, panic capture, one PRNG, statistics for the evidence file.
package hx

import (
	"bufio"
	"crypto/sha256"
	"encoding/hex"
	"encoding/json"
	"fmt"
	"math/rand/v2"
	"os"
	"path/filepath"
	"runtime/debug"
	"sort"
	"strings"
	"sync"
	"time"
)

// Fail is an oracle failure: the property statement itself is contradicted by what the code did.
type Fail struct {
	Index    int    `json:"index"`
	Case     string `json:"case"`
	Observed string `json:"observed"`
	Reason   string `json:"reason"`
}

type Run struct {
	Prop, Tier string
	Seed       uint64
	Dir        string

	mu       sync.Mutex
	cases    *bufio.Writer
	observed *bufio.Writer
	files    []*os.File
	n        int
	tags     map[string]int
	distinct map[[16]byte]struct{}
	samples  []string
	fails    []Fail
	notes    map[string]any
	Exhaust  bool
	// CrashOnly: keep only oracle failures that are crashes / hangs (reason starts with "crash" or "hang");
	// used when generators of other properties are re-run under C10's oracle
	CrashOnly bool
}

func NewRun(prop, tier string, seed uint64, dir string) (*Run, error) {
	if err := os.MkdirAll(dir, 0o755); err != nil {
		return nil, err
	}
	r := &Run{Prop: prop, Tier: tier, Seed: seed, Dir: dir, tags: map[string]int{}, distinct: map[[16]byte]struct{}{}, notes: map[string]any{}}
	for _, name := range []string{"cases.txt", "observed.txt"} {
		f, err := os.Create(filepath.Join(dir, name))
		if err != nil {
			return nil, err
		}
		r.files = append(r.files, f)
	}
	r.cases = bufio.NewWriterSize(r.files[0], 1<<20)
	r.observed = bufio.NewWriterSize(r.files[1], 1<<20)
	return r, nil
}

// Rng returns the PRNG for case stream `stream` (one per generator family), derived from the seed.
func (r *Run) Rng(stream uint64) *rand.Rand { return rand.New(rand.NewPCG(r.Seed, stream)) }

// Emit records one case. caseLine is the model's input, observed the canonical result of the real
// code, oracleFail non-empty iff the independent property predicate is violated. key identifies
// the case for distinctness; nontrivial says whether it reached past the first check.
func (r *Run) Emit(caseLine, observed, oracleFail, key string, nontrivial bool, tags ...string) {
	r.mu.Lock()
	defer r.mu.Unlock()
	if strings.ContainsAny(caseLine, "\n\r") || strings.ContainsAny(observed, "\n\r") {
		panic("newline in protocol line")
	}
	fmt.Fprintln(r.cases, caseLine)
	fmt.Fprintln(r.observed, observed)
	idx := r.n
	r.n++
	for _, t := range tags {
		r.tags[t]++
	}
	if nontrivial {
		h := sha256.Sum256([]byte(key))
		var k [16]byte
		copy(k[:], h[:16])
		r.distinct[k] = struct{}{}
	}
	if len(r.samples) < 6 && (idx%997 == 0 || idx < 2) {
		s := caseLine
		if len(s) > 600 {
			s = s[:600] + "…"
		}
		r.samples = append(r.samples, s+"  =>  "+trunc(observed, 300))
	}
	if r.CrashOnly && !(strings.HasPrefix(oracleFail, "crash") || strings.HasPrefix(oracleFail, "hang")) {
		oracleFail = ""
	}
	if oracleFail != "" {
		if len(r.fails) < 200 {
			r.fails = append(r.fails, Fail{idx, caseLine, observed, oracleFail})
		}
		r.tags["oracle-fail"]++
	}
}

// Trunc shortens s to n bytes.
func Trunc(s string, n int) string { return trunc(s, n) }

func trunc(s string, n int) string {
	if len(s) > n {
		return s[:n] + "…"
	}
	return s
}

func (r *Run) Note(k string, v any) { r.mu.Lock(); r.notes[k] = v; r.mu.Unlock() }

func (r *Run) Close() error {
	r.cases.Flush()
	r.observed.Flush()
	for _, f := range r.files {
		f.Close()
	}
	keys := make([]string, 0, len(r.tags))
	for k := range r.tags {
		keys = append(keys, k)
	}
	sort.Strings(keys)
	hist := map[string]int{}
	for _, k := range keys {
		hist[k] = r.tags[k]
	}
	meta := map[string]any{
		"property": r.Prop, "tier": r.Tier, "seed": r.Seed, "evaluations": r.n,
		"distinct_nontrivial": len(r.distinct), "histogram": hist, "samples": r.samples,
		"oracle_failures": r.fails, "notes": r.notes, "exhaustive": r.Exhaust,
	}
	b, _ := json.MarshalIndent(meta, "", " ")
	return os.WriteFile(filepath.Join(r.Dir, "meta.json"), b, 0o644)
}

// Guard runs f; a panic becomes ("panic", stack).
func Guard(f func() string) (res string, stack string) {
	defer func() {
		if e := recover(); e != nil {
			res = "panic"
			stack = fmt.Sprintf("%v\n%s", e, debug.Stack())
		}
	}()
	return f(), ""
}

// GuardTimeout is Guard with a watchdog: a call that has not returned after d is reported as ("hang", "").
func GuardTimeout(d time.Duration, f func() string) (string, string) {
	type res struct{ r, st string }
	ch := make(chan res, 1)
	go func() {
		r, st := Guard(f)
		ch <- res{r, st}
	}()
	select {
	case x := <-ch:
		return x.r, x.st
	case <-time.After(d):
		return "hang", ""
	}
}

func Hex(b []byte) string {
	if len(b) == 0 {
		return "-"
	}
	return hex.EncodeToString(b)
}

// OptHex: nil → "nil", empty non-nil → "e"
func OptHex(b []byte) string {
	if b == nil {
		return "nil"
	}
	if len(b) == 0 {
		return "e"
	}
	return hex.EncodeToString(b)
}

func HexList(l [][]byte) string {
	if len(l) == 0 {
		return "-"
	}
	s := make([]string, len(l))
	for i, b := range l {
		if len(b) == 0 {
			s[i] = "e"
		} else {
			s[i] = hex.EncodeToString(b)
		}
	}
	return strings.Join(s, ",")
}

// Fnv1a is the 64-bit FNV-1a fingerprint, same as the model's `Proto.fnv1a`.
func Fnv1a(b []byte) uint64 {
	h := uint64(14695981039346656037)
	for _, x := range b {
		h ^= uint64(x)
		h *= 1099511628211
	}
	return h
}

func Fp(b []byte) string { return fmt.Sprintf("%d:%d", len(b), Fnv1a(b)) }

func Pat(n, a, c int) []byte {
	out := make([]byte, n)
	for i := range out {
		out[i] = byte((a*i + c) % 256)
	}
	return out
}

func B(v bool) int {
	if v {
		return 1
	}
	return 0
}

func RandBytes(rng *rand.Rand, n int) []byte {
	b := make([]byte, n)
	for i := range b {
		b[i] = byte(rng.UintN(256))
	}
	return b
}
