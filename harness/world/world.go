// Package world builds complete synthetic attestation worlds — PKI, TDX quote, PCS collateral,
// CRLs, a scripted HTTPS getter, verification options — from a declarative Spec, and emits the
// oracle facts (DESIGN.md §5a) the Lean pipeline model consumes.  Nothing here calls the code under
// check: artifacts are built and inspected with the Go standard library only.
package world

import (
	"crypto/ecdsa"
	"crypto/elliptic"
	crand "crypto/rand"
	"crypto/sha256"
	"crypto/x509"
	"crypto/x509/pkix"
	"encoding/asn1"
	"encoding/binary"
	"encoding/hex"
	"encoding/json"
	"encoding/pem"
	"fmt"
	"math/big"
	"math/rand/v2"
	"net/url"
	"strings"
	"time"

	pb "github.com/google/go-tdx-guest/proto/tdx"
)

// ---------------------------------------------------------------------------------------- keys

type Key struct {
	ID   int
	Priv *ecdsa.PrivateKey
}

// NewKey constructs a key pair deterministically from the PRNG (ecdsa.GenerateKey is deliberately
// not reproducible under a fixed reader).
func NewKey(rng *rand.Rand, id int, curve elliptic.Curve) *Key {
	n := curve.Params().N
	buf := make([]byte, (n.BitLen()+7)/8+8)
	for i := range buf {
		buf[i] = byte(rng.UintN(256))
	}
	d := new(big.Int).SetBytes(buf)
	d.Mod(d, new(big.Int).Sub(n, big.NewInt(1)))
	d.Add(d, big.NewInt(1))
	x, y := curve.ScalarBaseMult(d.Bytes())
	return &Key{ID: id, Priv: &ecdsa.PrivateKey{PublicKey: ecdsa.PublicKey{Curve: curve, X: x, Y: y}, D: d}}
}

func (k *Key) Raw64() []byte {
	out := make([]byte, 64)
	k.Priv.X.FillBytes(out[:32])
	k.Priv.Y.FillBytes(out[32:])
	return out
}

// RawSig signs sha256(msg) and returns r‖s (32+32 bytes).
func RawSig(k *Key, msg []byte) []byte {
	h := sha256.Sum256(msg)
	r, s, err := ecdsa.Sign(crand.Reader, k.Priv, h[:])
	if err != nil {
		panic(err)
	}
	out := make([]byte, 64)
	r.FillBytes(out[:32])
	s.FillBytes(out[32:])
	return out
}

// ---------------------------------------------------------------------------------------- spec

type SgxSpec struct {
	PPID   []byte
	Comps  [16]int
	PceSvn int
	CpuSvn []byte
	PceID  []byte
	Fmspc  []byte
	Absent bool // no SGX extension at all
	RawDER []byte // if non-nil, used verbatim as the extension value
	Critical bool // the extension is marked critical (crypto/x509 does not know it: path validation of that leaf fails)
}

type CertSpec struct {
	Role      string
	CN        string
	Org       string // part of the subject name (default "Intel Corporation")
	Serial    *big.Int
	NotBefore time.Time
	NotAfter  time.Time
	IsCA      bool
	Key       int    // subject key id
	SignKey   int    // key that signs the certificate
	IssuerOf  string // role whose subject name is used as issuer name ("" = self)
	SigAlg    x509.SignatureAlgorithm
	CRLDPs    []string
	Sgx       *SgxSpec
	ExtraExts int // additional dummy extensions (changes the extension count)
	NoKeyUsageCertSign bool
	NoKeyUsageCrlSign  bool // a CA whose key usage lacks cRLSign (keyCertSign stays)
}

type BlockSpec struct {
	Role    string // certificate to embed …
	Type    string // … under this PEM type ("" = CERTIFICATE)
	Garbage bool   // DER replaced by bytes that do not parse
}

type Level struct {
	Sgx    [16]int
	PceSvn int
	Tdx    [16]int
	Status string
	SgxRaw []int // if non-nil: the sgxtcbcomponents list verbatim (any length, any values) instead of Sgx
	TdxRaw []int // if non-nil: the tdxtcbcomponents list verbatim instead of Tdx
}

type ModLevel struct {
	Isvsvn int
	Status string
}

type ModIdentity struct {
	ID     string
	Levels []ModLevel
}

type TcbDoc struct {
	ID         string
	Version    int
	IssueDate  time.Time
	NextUpdate time.Time
	Fmspc      string
	PceID      string
	Mrsigner   string // hex
	Attributes string
	Mask       string
	Identities []ModIdentity
	Levels     []Level
}

type QeLevel struct {
	Isvsvn int
	Status string
}

type QeDoc struct {
	ID             string
	Version        int
	IssueDate      time.Time
	NextUpdate     time.Time
	Miscselect     string
	MiscselectMask string
	Attributes     string
	AttributesMask string
	Mrsigner       string
	IsvProdID      int
	Levels         []QeLevel
}

// Member is one member of a response body, in order.
type Member struct {
	Key  string // spelling of the JSON key
	Kind string // "signed" (the signed document), "alt" (AltJSON, unsigned), "sig" (the signature string), "raw" (Raw literal)
	Raw  string
}

type RespSpec struct {
	Fetch     string   // "ok" | "fail" | "garbage"
	SignKey   int      // key that signs the member
	SignOver  string   // "member" | "body" | "other"
	Members   []Member // default: [{name, signed}, {"signature", sig}]
	AltJSON   []byte   // the unsigned alternative document for Kind "alt"
	SigMut    func([]byte) []byte // applied to the raw signature before hex encoding
	SigString *string  // overrides the hex string entirely
	SigStrMut func(string) string // applied to the hex spelling of the (genuine) signature
	MemberMut func([]byte) []byte // applied to the member bytes AFTER signing (tampering)
	HdrRoles  []string // issuer chain header: certificate roles (default signer, root)
	HdrMode   string   // "ok" | "absent" | "two" | "empty" | "badescape" | "wrongtype" | "garbageder"
	HdrTrailer string  // bytes after the last block (before escaping)
	BodyOverride []byte // if non-nil, sent as the response body verbatim
	HdrMut    func([]byte) []byte // applied to the escaped header value (each value) before it is put on the wire
	BodyRaw   []byte   // if non-nil: the response body verbatim (members, signature and Fetch "garbage" ignored)
	HdrDecoy  string   // "" | "lower" | "upper": besides the header under its exact name, the same name in another case carries a chain that does not verify (the two blocks swapped) | "only-lower" | "only-upper": the exact name is absent, the genuine chain sits under the other spelling
}

type CrlSpec struct {
	Fetch      string // "ok" | "fail" | "garbage"
	IssuerOf   string // role whose subject names the CRL issuer
	SignKey    int
	Revoked    []*big.Int
	ThisUpdate time.Time
	NextUpdate time.Time
	RevokedAt  time.Time // revocation date of every entry (default: ThisUpdate)
	IssuerUTF8 bool      // the issuer name is DER-encoded with UTF8String values (the certificates use PrintableString): same name, other bytes
}

type QuoteSpec struct {
	Header      *pb.Header
	Body        *pb.TDQuoteBody
	QeReport    *pb.EnclaveReport // ReportData filled by the builder according to ReportDataMode
	AttKey      int
	SignKey     int // key signing header‖body (default AttKey)
	QeSignKey   int // key signing the QE report (default: the leaf's key)
	Auth        []byte
	Extra       []byte
	ReportDataMode string // "ok" | "wronghash" | "tail" | "keyonly" | "authkey" | "short"
	AttKeyBytes []byte // overrides the serialised attestation key (e.g. off-curve)
}

type Spec struct {
	Keys        []*Key // index = id; Keys[0] unused
	Certs       []*CertSpec
	Chain       []BlockSpec
	ChainTrailer []byte
	ChainNil    bool
	Quote       QuoteSpec
	Tcb         TcbDoc
	TcbResp     RespSpec
	Qe          QeDoc
	QeResp      RespSpec
	PckCrl      CrlSpec
	PckCrlHdrRoles []string
	PckCrlHdrMode string
	PckCrlHdrDecoy string // see RespSpec.HdrDecoy
	RootCrls    []CrlSpec // one per distribution point of the QE-identity issuer root (same order as its CRLDPs)
	GC, CR      bool
	Pool        []string // roles; nil + PoolNil=true → embedded root
	PoolNil     bool
	Now         *[5]time.Time
	MsgMut      []func(q *pb.QuoteV4)
	ReuseGetterBuffer bool // the scripted getter hands out every body in one reused buffer
	Honest      bool     // the generator's claim: nothing in this world should make verification fail
	Fault       string   // name of the injected fault ("" = none)
}

func (s *Spec) Cert(role string) *CertSpec {
	for _, c := range s.Certs {
		if c.Role == role {
			return c
		}
	}
	return nil
}

// ---------------------------------------------------------------------------------------- built world

type BuiltCert struct {
	Spec *CertSpec
	DER  []byte
	Cert *x509.Certificate
}

type Response struct {
	Headers map[string][]string
	Body    []byte
	Err     bool
}

type World struct {
	Spec    *Spec
	Certs   map[string]*BuiltCert
	Quote   *pb.QuoteV4
	Getter  *Getter
	TcbURL, QeURL, PckCrlURL string
	RootCrlURLs []string
	TcbMember, QeMember []byte // the signed member bytes (before tampering)
	PoolCerts []*x509.Certificate
}

type Getter struct {
	M    map[string]*Response
	URLs []string
	// ReuseBuffer: like a client with one receive buffer, every body is handed out in the SAME backing array, which is
	// overwritten by the next request.  NOT used by any check: the unchanged library itself keeps references into the bodies
	// it was given (x509.ParseRevocationList aliases its input), so honest worlds are rejected under such a getter — the
	// properties are read over getters that do not touch a body after returning it (DESIGN.md O-10)
	ReuseBuffer bool
	buf         []byte
}

func (g *Getter) Get(u string) (map[string][]string, []byte, error) {
	g.URLs = append(g.URLs, u)
	r, ok := g.M[u]
	if !ok || r.Err {
		return nil, nil, fmt.Errorf("scripted getter: cannot fetch %s", u)
	}
	if g.ReuseBuffer {
		if g.buf == nil {
			g.buf = make([]byte, 1<<20)
		}
		for i := range g.buf[:cap(g.buf)] {
			g.buf[i] = 0xEE
		}
		if len(r.Body) > cap(g.buf) {
			g.buf = make([]byte, 2*len(r.Body))
		}
		n := copy(g.buf[:cap(g.buf)], r.Body)
		return r.Headers, g.buf[:n:n], nil
	}
	return r.Headers, r.Body, nil
}

var oidSgx = asn1.ObjectIdentifier{1, 2, 840, 113741, 1, 13, 1}

func oidSub(s ...int) asn1.ObjectIdentifier {
	return append(append(asn1.ObjectIdentifier{}, oidSgx...), s...)
}

type tv struct {
	T asn1.ObjectIdentifier
	V any
}

func sgxExtValue(s *SgxSpec) []byte {
	if s.RawDER != nil {
		return s.RawDER
	}
	var tcb []tv
	for i := 0; i < 16; i++ {
		tcb = append(tcb, tv{oidSub(2, i+1), s.Comps[i]})
	}
	tcb = append(tcb, tv{oidSub(2, 17), s.PceSvn})
	tcb = append(tcb, tv{oidSub(2, 18), s.CpuSvn})
	top := []tv{{oidSub(1), s.PPID}, {oidSub(2), tcb}, {oidSub(3), s.PceID}, {oidSub(4), s.Fmspc}, {oidSub(5), asn1.Enumerated(0)}}
	der, err := asn1.Marshal(top)
	if err != nil {
		panic(err)
	}
	return der
}

func subjectName(cn, org string) pkix.Name {
	if org == "" {
		org = "Intel Corporation"
	}
	return pkix.Name{CommonName: cn, Organization: []string{org}, Locality: []string{"Santa Clara"}, Province: []string{"CA"}, Country: []string{"US"}}
}

func ski(k *Key) []byte {
	h := sha256.Sum256(elliptic.Marshal(k.Priv.Curve, k.Priv.X, k.Priv.Y))
	return h[:20]
}

func (s *Spec) buildCert(c *CertSpec) *BuiltCert {
	key := s.Keys[c.Key]
	signer := s.Keys[c.SignKey]
	tmpl := &x509.Certificate{
		SerialNumber: c.Serial, Subject: subjectName(c.CN, c.Org), NotBefore: c.NotBefore, NotAfter: c.NotAfter,
		KeyUsage: x509.KeyUsageDigitalSignature, BasicConstraintsValid: true, IsCA: c.IsCA,
		SignatureAlgorithm: c.SigAlg, CRLDistributionPoints: c.CRLDPs, SubjectKeyId: ski(key),
	}
	if tmpl.SignatureAlgorithm == 0 {
		tmpl.SignatureAlgorithm = x509.ECDSAWithSHA256
	}
	if c.IsCA && !c.NoKeyUsageCertSign {
		tmpl.KeyUsage |= x509.KeyUsageCertSign | x509.KeyUsageCRLSign
	}
	if c.NoKeyUsageCrlSign {
		tmpl.KeyUsage &^= x509.KeyUsageCRLSign
	}
	if c.Sgx != nil && !c.Sgx.Absent {
		tmpl.ExtraExtensions = append(tmpl.ExtraExtensions, pkix.Extension{Id: oidSgx, Critical: c.Sgx.Critical, Value: sgxExtValue(c.Sgx)})
	}
	for i := 0; i < c.ExtraExts; i++ {
		tmpl.ExtraExtensions = append(tmpl.ExtraExtensions, pkix.Extension{Id: asn1.ObjectIdentifier{1, 2, 3, 4, 5, 100 + i}, Value: []byte{5, 0}})
	}
	// the "parent" only contributes the issuer name and the authority key id; the signature is the signer key's
	issuer := c
	if c.IssuerOf != "" {
		issuer = s.Cert(c.IssuerOf)
	}
	parent := &x509.Certificate{Subject: subjectName(issuer.CN, issuer.Org), SubjectKeyId: ski(signer), PublicKey: &signer.Priv.PublicKey}
	if c.IssuerOf == "" {
		parent = tmpl
	}
	der, err := x509.CreateCertificate(crand.Reader, tmpl, parent, &key.Priv.PublicKey, signer.Priv)
	if err != nil {
		panic(fmt.Sprintf("CreateCertificate %s: %v", c.Role, err))
	}
	parsed, err := x509.ParseCertificate(der)
	if err != nil {
		panic(err)
	}
	return &BuiltCert{c, der, parsed}
}

func pemOf(typ string, der []byte) []byte {
	if typ == "" {
		typ = "CERTIFICATE"
	}
	return pem.EncodeToMemory(&pem.Block{Type: typ, Bytes: der})
}

func (w *World) blocks(bs []BlockSpec) []byte {
	var out []byte
	for _, b := range bs {
		der := w.Certs[b.Role].DER
		if b.Garbage {
			der = append([]byte{0x30, 0x03, 0x02, 0x01}, der[:8]...)
		}
		out = append(out, pemOf(b.Type, der)...)
	}
	return out
}

// URL builders written independently of pcs (property C12 fixes what they must contain)
const (
	sgxBase = "https://api.trustedservices.intel.com/sgx/certification/v4"
	tdxBase = "https://api.trustedservices.intel.com/tdx/certification/v4"
	HdrTcb  = "Tcb-Info-Issuer-Chain"
	HdrQe   = "Sgx-Enclave-Identity-Issuer-Chain"
	HdrCrl  = "Sgx-Pck-Crl-Issuer-Chain"
)

func jsonTime(t time.Time) string { return t.UTC().Format(time.RFC3339) }

type comp struct {
	Svn int `json:"svn"`
}

func comps(v [16]int) []comp {
	out := make([]comp, 16)
	for i := range v {
		out[i] = comp{v[i]}
	}
	return out
}

func compsOf(v [16]int, raw []int) []comp {
	if raw == nil {
		return comps(v)
	}
	out := make([]comp, len(raw))
	for i := range raw {
		out[i] = comp{raw[i]}
	}
	return out
}

func (d *TcbDoc) JSON() []byte {
	var levels []any
	for _, l := range d.Levels {
		levels = append(levels, map[string]any{"tcb": map[string]any{"sgxtcbcomponents": compsOf(l.Sgx, l.SgxRaw), "pcesvn": l.PceSvn, "tdxtcbcomponents": compsOf(l.Tdx, l.TdxRaw)},
			"tcbDate": "2024-03-13T00:00:00Z", "tcbStatus": l.Status})
	}
	if levels == nil {
		levels = []any{}
	}
	var ids []any
	for _, m := range d.Identities {
		var ls []any
		for _, l := range m.Levels {
			ls = append(ls, map[string]any{"tcb": map[string]any{"isvsvn": l.Isvsvn}, "tcbDate": "2024-03-13T00:00:00Z", "tcbStatus": l.Status})
		}
		if ls == nil {
			ls = []any{}
		}
		ids = append(ids, map[string]any{"id": m.ID, "mrsigner": d.Mrsigner, "attributes": d.Attributes, "attributesMask": d.Mask, "tcbLevels": ls})
	}
	if ids == nil {
		ids = []any{}
	}
	m := map[string]any{"id": d.ID, "version": d.Version, "issueDate": jsonTime(d.IssueDate), "nextUpdate": jsonTime(d.NextUpdate), "fmspc": d.Fmspc,
		"pceId": d.PceID, "tcbType": 0, "tcbEvaluationDataNumber": 17,
		"tdxModule": map[string]any{"mrsigner": d.Mrsigner, "attributes": d.Attributes, "attributesMask": d.Mask},
		"tdxModuleIdentities": ids, "tcbLevels": levels}
	b, err := json.Marshal(m)
	if err != nil {
		panic(err)
	}
	return b
}

func (d *QeDoc) JSON() []byte {
	var levels []any
	for _, l := range d.Levels {
		levels = append(levels, map[string]any{"tcb": map[string]any{"isvsvn": l.Isvsvn}, "tcbDate": "2024-03-13T00:00:00Z", "tcbStatus": l.Status})
	}
	if levels == nil {
		levels = []any{}
	}
	m := map[string]any{"id": d.ID, "version": d.Version, "issueDate": jsonTime(d.IssueDate), "nextUpdate": jsonTime(d.NextUpdate),
		"tcbEvaluationDataNumber": 17, "miscselect": d.Miscselect, "miscselectMask": d.MiscselectMask, "attributes": d.Attributes,
		"attributesMask": d.AttributesMask, "mrsigner": d.Mrsigner, "isvprodid": d.IsvProdID, "tcbLevels": levels}
	b, err := json.Marshal(m)
	if err != nil {
		panic(err)
	}
	return b
}

func (w *World) response(name string, member []byte, r *RespSpec, hdrKey string, defRoles []string) (*Response, []byte) {
	s := w.Spec
	if r.Fetch == "fail" {
		return &Response{Err: true}, member
	}
	signed := member
	sig := RawSig(s.Keys[r.SignKey], signed)
	members := r.Members
	if members == nil {
		members = []Member{{Key: name, Kind: "signed"}, {Key: "signature", Kind: "sig"}}
	}
	onWire := member
	if r.MemberMut != nil {
		onWire = r.MemberMut(append([]byte{}, member...))
	}
	build := func(sigStr string) []byte {
		var sb strings.Builder
		sb.WriteByte('{')
		for i, m := range members {
			if i > 0 {
				sb.WriteByte(',')
			}
			kb, _ := json.Marshal(m.Key)
			sb.Write(kb)
			sb.WriteByte(':')
			switch m.Kind {
			case "signed":
				sb.Write(onWire)
			case "alt":
				sb.Write(r.AltJSON)
			case "sig":
				vb, _ := json.Marshal(sigStr)
				sb.Write(vb)
			default:
				sb.WriteString(m.Raw)
			}
		}
		sb.WriteByte('}')
		return []byte(sb.String())
	}
	switch r.SignOver {
	case "body":
		sig = RawSig(s.Keys[r.SignKey], build(""))
	case "other":
		sig = RawSig(s.Keys[r.SignKey], append([]byte("x"), member...))
	}
	if r.SigMut != nil {
		sig = r.SigMut(sig)
	}
	sigStr := hex.EncodeToString(sig)
	if r.SigStrMut != nil {
		sigStr = r.SigStrMut(sigStr)
	}
	if r.SigString != nil {
		sigStr = *r.SigString
	}
	body := build(sigStr)
	if r.Fetch == "garbage" {
		body = []byte("<html>service unavailable</html>")
	}
	if r.BodyOverride != nil {
		body = r.BodyOverride
	}
	if r.BodyRaw != nil {
		body = r.BodyRaw
	}
	hdr := w.issuerHeader(hdrKey, r.HdrRoles, defRoles, r.HdrMode, r.HdrTrailer)
	w.hdrDecoy(hdr, hdrKey, r.HdrRoles, defRoles, r.HdrDecoy)
	if r.HdrMut != nil {
		for i, v := range hdr[hdrKey] {
			hdr[hdrKey][i] = string(r.HdrMut([]byte(v)))
		}
	}
	return &Response{Headers: hdr, Body: body}, signed
}

func (w *World) issuerHeader(key string, roles, defRoles []string, mode, trailer string) map[string][]string {
	if roles == nil {
		roles = defRoles
	}
	var bs []BlockSpec
	for _, r := range roles {
		bs = append(bs, BlockSpec{Role: r})
	}
	switch mode {
	case "wrongtype":
		bs[0].Type = "X509 CERTIFICATE"
	case "garbageder":
		bs[len(bs)-1].Garbage = true
	}
	val := url.QueryEscape(string(w.blocks(bs)) + trailer)
	h := map[string][]string{"Content-Type": {"application/json"}}
	switch mode {
	case "absent":
	case "two":
		h[key] = []string{val, val}
	case "empty":
		h[key] = []string{""}
	case "novalues": // the key is present, its value list is empty
		h[key] = []string{}
	case "nilvalues":
		h[key] = nil
	case "three":
		h[key] = []string{val, val, val}
	case "badescape":
		h[key] = []string{val[:len(val)/2] + "%zz" + val[len(val)/2:]}
	default:
		h[key] = []string{val}
	}
	return h
}

// hdrDecoy: header maps are plain maps — nothing stops an endpoint (or a getter that does not canonicalise) from delivering
// two keys that differ in case only.  The library reads the exact name.
func (w *World) hdrDecoy(h map[string][]string, key string, roles, defRoles []string, decoy string) {
	if decoy == "" {
		return
	}
	if roles == nil {
		roles = defRoles
	}
	other := strings.ToLower(key)
	if strings.HasSuffix(decoy, "upper") {
		other = strings.ToUpper(key)
	}
	if strings.HasPrefix(decoy, "only-") {
		if v, ok := h[key]; ok {
			delete(h, key)
			h[other] = v
		}
		return
	}
	var bs []BlockSpec
	for i := len(roles) - 1; i >= 0; i-- {
		bs = append(bs, BlockSpec{Role: roles[i]})
	}
	h[other] = []string{url.QueryEscape(string(w.blocks(bs)))}
}

func (w *World) crl(c *CrlSpec) *Response {
	s := w.Spec
	if c.Fetch == "fail" {
		return &Response{Err: true}
	}
	if c.Fetch == "garbage" {
		return &Response{Body: []byte{0x30, 0x82, 0x01, 0x00, 0x01, 0x02}}
	}
	issuerSpec := s.Cert(c.IssuerOf)
	signer := s.Keys[c.SignKey]
	issuer := &x509.Certificate{Subject: subjectName(issuerSpec.CN, issuerSpec.Org), SubjectKeyId: ski(signer), KeyUsage: x509.KeyUsageCRLSign, PublicKey: &signer.Priv.PublicKey}
	if c.IssuerUTF8 {
		var rdns pkix.RDNSequence
		for _, rdn := range issuer.Subject.ToRDNSequence() {
			var set pkix.RelativeDistinguishedNameSET
			for _, atv := range rdn {
				if str, ok := atv.Value.(string); ok {
					atv.Value = asn1.RawValue{Class: asn1.ClassUniversal, Tag: asn1.TagUTF8String, Bytes: []byte(str)}
				}
				set = append(set, atv)
			}
			rdns = append(rdns, set)
		}
		raw, err := asn1.Marshal(rdns)
		if err != nil {
			panic(err)
		}
		issuer.RawSubject = raw
	}
	at := c.RevokedAt
	if at.IsZero() {
		at = c.ThisUpdate
	}
	var entries []x509.RevocationListEntry
	for _, sn := range c.Revoked {
		entries = append(entries, x509.RevocationListEntry{SerialNumber: sn, RevocationTime: at})
	}
	der, err := x509.CreateRevocationList(crand.Reader, &x509.RevocationList{Number: big.NewInt(7), ThisUpdate: c.ThisUpdate, NextUpdate: c.NextUpdate,
		RevokedCertificateEntries: entries, SignatureAlgorithm: x509.ECDSAWithSHA256}, issuer, signer.Priv)
	if err != nil {
		panic(fmt.Sprintf("CreateRevocationList: %v", err))
	}
	return &Response{Body: der}
}

// ReplacePckCrl / ReplaceRootCrl re-issue a CRL of an already built world from a changed spec (same certificates, same CRL
// number): what an endpoint serves later in the life of the same process.
func (w *World) ReplacePckCrl(c CrlSpec) {
	w.Spec.PckCrl = c
	r := w.crl(&w.Spec.PckCrl)
	if !r.Err {
		r.Headers = w.Getter.M[w.PckCrlURL].Headers
	}
	w.Getter.M[w.PckCrlURL] = r
}

func (w *World) ReplaceRootCrl(i int, c CrlSpec) {
	w.Spec.RootCrls[i] = c
	w.Getter.M[w.RootCrlURLs[i]] = w.crl(&w.Spec.RootCrls[i])
}

// Layout-independent serialisers for the two signed byte strings (own field order, sequential appends).
func HeaderBytes(h *pb.Header) []byte {
	var b []byte
	b = binary.LittleEndian.AppendUint16(b, uint16(h.Version))
	b = binary.LittleEndian.AppendUint16(b, uint16(h.AttestationKeyType))
	b = binary.LittleEndian.AppendUint32(b, h.TeeType)
	b = append(b, h.PceSvn...)
	b = append(b, h.QeSvn...)
	b = append(b, h.QeVendorId...)
	return append(b, h.UserData...)
}

func fit(b []byte, n int) []byte {
	out := make([]byte, n)
	copy(out, b)
	return out
}

func BodyBytes(t *pb.TDQuoteBody) []byte {
	var b []byte
	for _, f := range [][]byte{t.TeeTcbSvn, t.MrSeam, t.MrSignerSeam, t.SeamAttributes, t.TdAttributes, t.Xfam, t.MrTd, t.MrConfigId, t.MrOwner, t.MrOwnerConfig} {
		b = append(b, f...)
	}
	for _, r := range t.Rtmrs {
		b = append(b, r...)
	}
	return append(b, fit(t.ReportData, 64)...)
}

func QeReportBytes(r *pb.EnclaveReport) []byte {
	var b []byte
	b = append(b, r.CpuSvn...)
	b = binary.LittleEndian.AppendUint32(b, r.MiscSelect)
	b = append(b, r.Reserved1...)
	b = append(b, r.Attributes...)
	b = append(b, r.MrEnclave...)
	b = append(b, r.Reserved2...)
	b = append(b, r.MrSigner...)
	b = append(b, r.Reserved3...)
	b = binary.LittleEndian.AppendUint16(b, uint16(r.IsvProdId))
	b = binary.LittleEndian.AppendUint16(b, uint16(r.IsvSvn))
	b = append(b, r.Reserved4...)
	return append(b, r.ReportData...)
}

// Build constructs every artifact of the world.
func Build(s *Spec) *World {
	w := &World{Spec: s, Certs: map[string]*BuiltCert{}}
	for _, c := range s.Certs {
		w.Certs[c.Role] = s.buildCert(c)
	}
	// --- quote
	qs := &s.Quote
	att := s.Keys[qs.AttKey]
	attBytes := att.Raw64()
	if qs.AttKeyBytes != nil {
		attBytes = qs.AttKeyBytes
	}
	rep := qs.QeReport
	h := sha256.Sum256(append(append([]byte{}, attBytes...), qs.Auth...))
	switch qs.ReportDataMode {
	case "", "ok":
		rep.ReportData = append(h[:], make([]byte, 32)...)
	case "wronghash":
		bad := sha256.Sum256(append([]byte("x"), attBytes...))
		rep.ReportData = append(bad[:], make([]byte, 32)...)
	case "tail":
		rep.ReportData = append(h[:], append(make([]byte, 31), 1)...)
	case "keyonly":
		k := sha256.Sum256(attBytes)
		rep.ReportData = append(k[:], make([]byte, 32)...)
	case "authkey":
		k := sha256.Sum256(append(append([]byte{}, qs.Auth...), attBytes...))
		rep.ReportData = append(k[:], make([]byte, 32)...)
	}
	signKey := qs.SignKey
	if signKey == 0 {
		signKey = qs.AttKey
	}
	qeSignKey := qs.QeSignKey
	if qeSignKey == 0 {
		qeSignKey = s.Cert(s.Chain[0].Role).Key
	}
	var chain []byte
	if !s.ChainNil {
		chain = append(w.blocks(s.Chain), s.ChainTrailer...)
	}
	q := &pb.QuoteV4{Header: qs.Header, TdQuoteBody: qs.Body,
		SignedData: &pb.Ecdsa256BitQuoteV4AuthData{
			Signature:           RawSig(s.Keys[signKey], append(HeaderBytes(qs.Header), BodyBytes(qs.Body)...)),
			EcdsaAttestationKey: attBytes,
			CertificationData: &pb.CertificationData{CertificateDataType: 6, QeReportCertificationData: &pb.QEReportCertificationData{
				QeReport: rep, QeReportSignature: RawSig(s.Keys[qeSignKey], QeReportBytes(rep)),
				QeAuthData:              &pb.QeAuthData{ParsedDataSize: uint32(len(qs.Auth)), Data: qs.Auth},
				PckCertificateChainData: &pb.PCKCertificateChainData{CertificateDataType: 5, Size: uint32(len(chain)), PckCertChain: chain}}}},
		ExtraBytes: qs.Extra}
	q.SignedData.CertificationData.Size = uint32(384 + 64 + 2 + len(qs.Auth) + 6 + len(chain))
	q.SignedDataSize = 64 + 64 + 6 + q.SignedData.CertificationData.Size
	for _, m := range s.MsgMut {
		m(q)
	}
	w.Quote = q
	// --- collateral
	g := &Getter{M: map[string]*Response{}, ReuseBuffer: s.ReuseGetterBuffer}
	w.Getter = g
	leafSgx := s.Cert(s.Chain[0].Role).Sgx
	fm := ""
	if leafSgx != nil {
		fm = hex.EncodeToString(leafSgx.Fmspc)
	}
	w.TcbURL = tdxBase + "/tcb?fmspc=" + fm
	w.QeURL = tdxBase + "/qe/identity"
	ca := "platform"
	if ic := s.Cert(s.Chain[0].Role); ic != nil && ic.IssuerOf != "" && s.Cert(ic.IssuerOf).CN == "Intel SGX PCK Processor CA" {
		ca = "processor"
	}
	w.PckCrlURL = sgxBase + "/pckcrl?ca=" + ca + "&encoding=der"
	var r *Response
	r, w.TcbMember = w.response("tcbInfo", s.Tcb.JSON(), &s.TcbResp, HdrTcb, []string{"signer", "root"})
	g.M[w.TcbURL] = r
	r, w.QeMember = w.response("enclaveIdentity", s.Qe.JSON(), &s.QeResp, HdrQe, []string{"signer", "root"})
	g.M[w.QeURL] = r
	pr := w.crl(&s.PckCrl)
	if !pr.Err {
		pr.Headers = w.issuerHeader(HdrCrl, s.PckCrlHdrRoles, []string{"inter", "root"}, s.PckCrlHdrMode, "")
		w.hdrDecoy(pr.Headers, HdrCrl, s.PckCrlHdrRoles, []string{"inter", "root"}, s.PckCrlHdrDecoy)
	}
	g.M[w.PckCrlURL] = pr
	qeRootRole := "root"
	if s.QeResp.HdrRoles != nil && len(s.QeResp.HdrRoles) > 1 {
		qeRootRole = s.QeResp.HdrRoles[1]
	}
	if rc := s.Cert(qeRootRole); rc != nil {
		for i, u := range rc.CRLDPs {
			if i < len(s.RootCrls) {
				g.M[u] = w.crl(&s.RootCrls[i])
				w.RootCrlURLs = append(w.RootCrlURLs, u)
			}
		}
	}
	for _, role := range s.Pool {
		w.PoolCerts = append(w.PoolCerts, w.Certs[role].Cert)
	}
	return w
}

func (w *World) Pool() *x509.CertPool {
	if w.Spec.PoolNil {
		return nil
	}
	p := x509.NewCertPool()
	for _, c := range w.PoolCerts {
		p.AddCert(c)
	}
	return p
}
