package world

import (
	"crypto/ecdsa"
	"crypto/x509"
	"encoding/pem"

	pb "github.com/google/go-tdx-guest/proto/tdx"
)

// FromQuote wraps an externally produced quote (e.g. one of the repository's genuine Intel sample quotes,
// parsed by the harness's own layout reader) in a World, so that Facts and the drivers' run/emit functions
// work on it.  Nothing is built: there are no generated certificates, no collateral is scripted (every fetch
// of the getter fails, so only the base option level can succeed), and the Spec only carries the options
// (GC, CR, PoolNil, Now) and the generator's claims (Honest, Fault).  Trusted roots other than the embedded
// one are given as parsed certificates in `pool` (ignored when s.PoolNil).
//
// `Facts` determines who signed a certificate by probing the keys of Spec.Keys.  For an external quote the
// signing keys are not the generator's: when s.Keys is nil it is filled with public-only keys (Priv.D == nil,
// never used for signing) for every certificate that can appear in the world's certificate table — the PEM
// blocks of the quote's chain, the pool and the embedded root — so that the `signedBy` facts name them.
func FromQuote(q *pb.QuoteV4, s *Spec, pool ...*x509.Certificate) *World {
	w := &World{Spec: s, Certs: map[string]*BuiltCert{}, Quote: q, Getter: &Getter{M: map[string]*Response{}}}
	if !s.PoolNil {
		w.PoolCerts = append(w.PoolCerts, pool...)
	}
	if s.Keys == nil {
		s.Keys = []*Key{nil}
		seen := map[string]bool{}
		add := func(c *x509.Certificate) {
			pk, ok := c.PublicKey.(*ecdsa.PublicKey)
			if !ok || seen[pubBytes(pk)] {
				return
			}
			seen[pubBytes(pk)] = true
			s.Keys = append(s.Keys, &Key{ID: len(s.Keys), Priv: &ecdsa.PrivateKey{PublicKey: *pk}})
		}
		rest := q.GetSignedData().GetCertificationData().GetQeReportCertificationData().GetPckCertificateChainData().GetPckCertChain()
		for i := 0; i < 8; i++ {
			var blk *pem.Block
			blk, rest = pem.Decode(rest)
			if blk == nil {
				break
			}
			if c, err := x509.ParseCertificate(blk.Bytes); err == nil {
				add(c)
			}
		}
		for _, c := range w.PoolCerts {
			add(c)
		}
		if EmbeddedRoot != nil {
			add(EmbeddedRoot)
		}
	}
	return w
}
