package world

import (
	"bytes"
	"crypto/ecdsa"
	"crypto/elliptic"
	"crypto/sha256"
	"crypto/x509"
	"encoding/asn1"
	"encoding/hex"
	"encoding/json"
	"encoding/pem"
	"fmt"
	"math/big"
	"net/url"
	"reflect"
	"strconv"
	"strings"
	"unicode/utf8"
	"time"

	pb "github.com/google/go-tdx-guest/proto/tdx"

	"tdxharness/hx"
)

// ---- mirror of the JSON shapes of the PCS responses (same field types / tags as the verifier
// decodes into; owned by the harness so that facts never come from repo code) ----

type mHex struct{ Bytes []byte }

func (h *mHex) UnmarshalJSON(s []byte) error {
	u, err := strconv.Unquote(string(s))
	if err != nil {
		return err
	}
	v, err := hex.DecodeString(u)
	if err != nil {
		return err
	}
	h.Bytes = v
	return nil
}

type mStatus string

var statuses = map[string]bool{"UpToDate": true, "SWHardeningNeeded": true, "ConfigurationNeeded": true, "ConfigurationAndSWHardeningNeeded": true,
	"OutOfDate": true, "OutOfDateConfigurationNeeded": true, "Revoked": true}

func (st *mStatus) UnmarshalJSON(s []byte) error {
	u, err := strconv.Unquote(string(s))
	if err != nil {
		return err
	}
	if !statuses[u] {
		return fmt.Errorf("unexpected tcb status %q", u)
	}
	*st = mStatus(u)
	return nil
}

type mComp struct {
	Svn      byte   `json:"svn"`
	Category string `json:"category"`
	Type     string `json:"type"`
}
type mTcb struct {
	SgxTcbcomponents []mComp `json:"sgxtcbcomponents"`
	Pcesvn           uint16  `json:"pcesvn"`
	TdxTcbcomponents []mComp `json:"tdxtcbcomponents"`
	Isvsvn           uint32  `json:"isvsvn"`
}
type mLevel struct {
	Tcb         mTcb     `json:"tcb"`
	TcbDate     string   `json:"tcbDate"`
	TcbStatus   mStatus  `json:"tcbStatus"`
	AdvisoryIDs []string `json:"advisoryIDs"`
}
type mModule struct {
	Mrsigner       mHex `json:"mrsigner"`
	Attributes     mHex `json:"attributes"`
	AttributesMask mHex `json:"attributesMask"`
}
type mModuleID struct {
	ID             string   `json:"id"`
	Mrsigner       mHex     `json:"mrsigner"`
	Attributes     mHex     `json:"attributes"`
	AttributesMask mHex     `json:"attributesMask"`
	TcbLevels      []mLevel `json:"tcbLevels"`
}
type mTcbInfo struct {
	ID                      string      `json:"id"`
	Version                 byte        `json:"version"`
	IssueDate               time.Time   `json:"issueDate"`
	NextUpdate              time.Time   `json:"nextUpdate"`
	Fmspc                   string      `json:"fmspc"`
	PceID                   string      `json:"pceId"`
	TcbType                 byte        `json:"tcbType"`
	TcbEvaluationDataNumber int         `json:"tcbEvaluationDataNumber"`
	TdxModule               mModule     `json:"tdxModule"`
	TdxModuleIdentities     []mModuleID `json:"tdxModuleIdentities"`
	TcbLevels               []mLevel    `json:"tcbLevels"`
}
type mTdxTcbInfo struct {
	TcbInfo   mTcbInfo `json:"tcbInfo"`
	Signature string   `json:"signature"`
}
type mEnclaveIdentity struct {
	ID                      string    `json:"id"`
	Version                 byte      `json:"version"`
	IssueDate               time.Time `json:"issueDate"`
	NextUpdate              time.Time `json:"nextUpdate"`
	TcbEvaluationDataNumber int       `json:"tcbEvaluationDataNumber"`
	Miscselect              mHex      `json:"miscselect"`
	MiscselectMask          mHex      `json:"miscselectMask"`
	Attributes              mHex      `json:"attributes"`
	AttributesMask          mHex      `json:"attributesMask"`
	Mrsigner                mHex      `json:"mrsigner"`
	IsvProdID               uint16    `json:"isvprodid"`
	TcbLevels               []mLevel  `json:"tcbLevels"`
}
type mQeIdentity struct {
	EnclaveIdentity mEnclaveIdentity `json:"enclaveIdentity"`
	Signature       string           `json:"signature"`
}

// ---- fact emission ----

type factCtx struct {
	w      *World
	certs  []*x509.Certificate // table
	ders   [][]byte
	names  map[string]int
	keys   map[string]int
	tokens []string
	pckFor map[int]bool
}

// hs renders a string fact.  The model carries names and URLs as strings and only ever compares them (with the constant
// ASCII phrases of the source, and with each other); a Go string that is not valid UTF-8 (certificate names after random
// byte mutation) is therefore replaced by an injective, valid stand-in: U+FFFD '!' followed by the hex of its bytes.
func hs(s string) string {
	if s == "" {
		return "-"
	}
	return hex.EncodeToString([]byte(StandIn(s)))
}

// StandIn: the string as the model sees it (identity for valid UTF-8).  Observations that are compared with the model's
// strings (the requested URLs) go through the same mapping.
func StandIn(s string) string {
	if !utf8.ValidString(s) || strings.HasPrefix(s, "\uFFFD!") {
		return "\uFFFD!" + hex.EncodeToString([]byte(s))
	}
	return s
}

// JoinURLs: the canonical form of a request log whose fingerprint is compared with the model's prediction.
func JoinURLs(urls []string) string {
	out := make([]string, len(urls))
	for i, u := range urls {
		out[i] = StandIn(u)
	}
	return strings.Join(out, "\n")
}

func (c *factCtx) add(format string, a ...any) { c.tokens = append(c.tokens, fmt.Sprintf(format, a...)) }

func (c *factCtx) nameID(s string) int {
	if id, ok := c.names[s]; ok {
		return id
	}
	id := len(c.names) + 1
	c.names[s] = id
	return id
}

func pubBytes(pub any) string {
	if k, ok := pub.(*ecdsa.PublicKey); ok {
		return string(elliptic.Marshal(k.Curve, k.X, k.Y))
	}
	b, _ := x509.MarshalPKIXPublicKey(pub)
	return string(b)
}

func (c *factCtx) keyID(pub any) int {
	s := pubBytes(pub)
	if id, ok := c.keys[s]; ok {
		return id
	}
	id := len(c.keys) + 1
	c.keys[s] = id
	return id
}

// certIdx returns the table index of a parsed certificate (deduplicated by DER).
func (c *factCtx) certIdx(cert *x509.Certificate) int {
	for i, d := range c.ders {
		if bytes.Equal(d, cert.Raw) {
			return i
		}
	}
	c.ders = append(c.ders, cert.Raw)
	c.certs = append(c.certs, cert)
	return len(c.certs) - 1
}

// signedBy: the id of the key under which the certificate's signature verifies (0: none of the world's keys).
func (c *factCtx) signedBy(tbs, sig []byte, alg x509.SignatureAlgorithm) int {
	for _, k := range c.w.Spec.Keys[1:] {
		probe := &x509.Certificate{PublicKey: &k.Priv.PublicKey, PublicKeyAlgorithm: x509.ECDSA}
		if probe.CheckSignature(alg, tbs, sig) == nil {
			return c.keyID(&k.Priv.PublicKey)
		}
	}
	return 0
}

func b01(v bool) int {
	if v {
		return 1
	}
	return 0
}

func (c *factCtx) pemFacts(data []byte, max int) string {
	var parts []string
	rest := data
	for i := 0; i < max; i++ {
		blk, rem := pem.Decode(rest)
		if blk == nil {
			parts = append(parts, "x")
			break
		}
		idx := -1
		if cert, err := x509.ParseCertificate(blk.Bytes); err == nil {
			idx = c.certIdx(cert)
		}
		parts = append(parts, fmt.Sprintf("%d,%d,%d,%d", b01(blk.Type == "CERTIFICATE"), len(rem), b01(bytes.Equal(rem, []byte{0})), idx))
		rest = rem
	}
	if len(parts) == 0 {
		return "-"
	}
	return strings.Join(parts, "/")
}

func (c *factCtx) hdrFacts(h map[string][]string, key string) string {
	v, ok := h[key]
	if !ok {
		return "a"
	}
	if len(v) != 1 {
		return fmt.Sprintf("n%d", len(v))
	}
	if v[0] == "" {
		return "e"
	}
	un, err := url.QueryUnescape(v[0])
	if err != nil {
		return "u"
	}
	return "b" + c.pemFacts([]byte(un), 2)
}

// instant: a verification instant as nanoseconds since the epoch.  The zero time.Time (an entry of the time set the caller
// left unset: 1 January of year 1) is outside UnixNano's range; it is before every date a certificate, document or CRL can
// carry, which is all the comparisons made with it can see — the model gets the smallest representable instant.
// (Only the two CRL instants may be left unset in generated time sets: x509 path validation reads a zero time as "now".)
func instant(t time.Time) string {
	if t.IsZero() {
		return "-4611686018427387904"
	}
	// seconds and nanoseconds separately: UnixNano() is only defined for years 1678–2262, verification times and validity
	// ends are not confined to them
	n := new(big.Int).Mul(big.NewInt(t.Unix()), big.NewInt(1000000000))
	return n.Add(n, big.NewInt(int64(t.Nanosecond()))).String()
}

func levelsFacts(ls []mLevel) string {
	if len(ls) == 0 {
		return "-"
	}
	var parts []string
	for _, l := range ls {
		sgx := make([]byte, len(l.Tcb.SgxTcbcomponents))
		for i, x := range l.Tcb.SgxTcbcomponents {
			sgx[i] = x.Svn
		}
		tdx := make([]byte, len(l.Tcb.TdxTcbcomponents))
		for i, x := range l.Tcb.TdxTcbcomponents {
			tdx[i] = x.Svn
		}
		st := string(l.TcbStatus)
		if st == "" {
			st = "_"
		}
		parts = append(parts, fmt.Sprintf("%s:%d:%s:%d:%s", hx.Hex(sgx), l.Tcb.Pcesvn, hx.Hex(tdx), l.Tcb.Isvsvn, st))
	}
	return strings.Join(parts, "/")
}

func (c *factCtx) tcbDoc(p string, d *mTcbInfo) {
	c.add("%sid=%s %sver=%d %snext=%s %sfmspc=%s %spceid=%s %smrs=%s %sattr=%s %smask=%s %snid=%d %slv=%s", p, hs(d.ID), p, d.Version, p, instant(d.NextUpdate),
		p, hs(d.Fmspc), p, hs(d.PceID), p, hx.Hex(d.TdxModule.Mrsigner.Bytes), p, hx.Hex(d.TdxModule.Attributes.Bytes), p, hx.Hex(d.TdxModule.AttributesMask.Bytes),
		p, len(d.TdxModuleIdentities), p, levelsFacts(d.TcbLevels))
	for i, m := range d.TdxModuleIdentities {
		c.add("%sid%d=%s %sidlv%d=%s", p, i, hs(m.ID), p, i, levelsFacts(m.TcbLevels))
	}
}

func (c *factCtx) qeDoc(p string, d *mEnclaveIdentity) {
	c.add("%sid=%s %sver=%d %snext=%s %smisc=%s %smiscm=%s %sattr=%s %sattrm=%s %smrs=%s %sprod=%d %slv=%s", p, hs(d.ID), p, d.Version, p, instant(d.NextUpdate),
		p, hx.Hex(d.Miscselect.Bytes), p, hx.Hex(d.MiscselectMask.Bytes), p, hx.Hex(d.Attributes.Bytes), p, hx.Hex(d.AttributesMask.Bytes),
		p, hx.Hex(d.Mrsigner.Bytes), p, d.IsvProdID, p, levelsFacts(d.TcbLevels))
}

func rawMember(body []byte, name string) ([]byte, bool) {
	if len(body) == 0 {
		return nil, false
	}
	var m map[string]json.RawMessage
	if err := json.Unmarshal(body, &m); err != nil {
		return nil, false
	}
	v, ok := m[name]
	return v, ok
}

// vcert entries collected while emitting
type vcertEntry struct {
	idx      int
	msg, sig []byte
}

func derSig(raw []byte) []byte {
	der, err := asn1.Marshal(struct{ R, S *big.Int }{new(big.Int).SetBytes(raw[:32]), new(big.Int).SetBytes(raw[32:64])})
	if err != nil {
		panic(err)
	}
	return der
}

func (c *factCtx) crlFacts(body []byte) string {
	crl, err := x509.ParseRevocationList(body)
	if err != nil {
		return "perr"
	}
	var rev []string
	for _, e := range crl.RevokedCertificateEntries {
		rev = append(rev, e.SerialNumber.String())
	}
	r := "-"
	if len(rev) > 0 {
		r = strings.Join(rev, "+")
	}
	return fmt.Sprintf("%d,%d,%s,%s", c.nameID(crl.Issuer.String()), c.signedBy(crl.RawTBSRevocationList, crl.Signature, crl.SignatureAlgorithm), r, instant(crl.NextUpdate))
}

// StructOK: all sub-messages present and every checked field of its layout size (harness-side reading of CheckQuoteV4).
var StructOK func(q *pb.QuoteV4) bool

// EmbeddedRoot is the parsed verify/trusted_root.pem of the tree under check (set by the driver).
var EmbeddedRoot *x509.Certificate

// Facts renders the `V.verify` case line for this world (fx: the four repair flags f2 f4 f6 f9).
func (w *World) Facts(fx string, msgTokens string, clock time.Time) string {
	s := w.Spec
	c := &factCtx{w: w, names: map[string]int{}, keys: map[string]int{}, pckFor: map[int]bool{}}
	q := w.Quote
	c.add("V.verify fx=%s %s gc=%d cr=%d", fx, msgTokens, b01(s.GC), b01(s.CR))
	if s.Now == nil {
		c.add("now=nil")
	} else {
		c.add("now=%s,%s,%s,%s,%s", instant(s.Now[0]), instant(s.Now[1]), instant(s.Now[2]), instant(s.Now[3]), instant(s.Now[4]))
	}
	c.add("clock=%s", instant(clock))
	// chain
	chainBytes := q.GetSignedData().GetCertificationData().GetQeReportCertificationData().GetPckCertificateChainData().GetPckCertChain()
	leafIdx := -1
	if chainBytes == nil {
		c.add("chain=nil")
	} else {
		f := c.pemFacts(chainBytes, 3)
		c.add("chain=%s", f)
		if first := strings.SplitN(f, "/", 2)[0]; first != "x" && first != "-" {
			parts := strings.Split(first, ",")
			fmt.Sscan(parts[3], &leafIdx)
		}
	}
	// pool and embedded root
	emb := c.certIdx(EmbeddedRoot)
	c.add("emb=%d", emb)
	if s.PoolNil {
		c.add("pool=nil")
	} else if len(w.PoolCerts) == 0 {
		c.add("pool=-")
	} else {
		var ids []string
		for _, pc := range w.PoolCerts {
			ids = append(ids, fmt.Sprint(c.certIdx(pc)))
		}
		c.add("pool=%s", strings.Join(ids, ","))
	}
	// responses
	var vcerts []vcertEntry
	respFacts := func(p string, u string, hdrKey string, name string) {
		c.add("%surl=%s", p, hs(u))
		r, ok := w.Getter.M[u]
		if !ok || r.Err {
			c.add("%sf=fail", p)
			return
		}
		c.add("%sf=ok %sh=%s", p, p, c.hdrFacts(r.Headers, hdrKey))
		signerIdx := -1
		if hf := c.hdrFacts(r.Headers, hdrKey); strings.HasPrefix(hf, "b") {
			first := strings.Split(strings.SplitN(hf[1:], "/", 2)[0], ",")
			if len(first) == 4 {
				fmt.Sscan(first[3], &signerIdx)
			}
		}
		var sig string
		var raw []byte
		var rawOK bool
		if name == "tcbInfo" {
			var st mTdxTcbInfo
			if err := json.Unmarshal(r.Body, &st); err != nil {
				c.add("%sb=bad", p)
				return
			}
			sig = st.Signature
			raw, rawOK = rawMember(r.Body, name)
			var rd mTcbInfo
			rdOK := rawOK && json.Unmarshal(raw, &rd) == nil
			zero := reflect.DeepEqual(st, mTdxTcbInfo{})
			if fx[2] == '1' {
				zero = rdOK && reflect.DeepEqual(mTdxTcbInfo{TcbInfo: rd, Signature: sig}, mTdxTcbInfo{})
			}
			c.add("%sb=ok %ssig=%s %sz=%d", p, p, hs(sig), p, b01(zero))
			c.tcbDoc(p+"s.", &st.TcbInfo)
			if rdOK {
				c.add("%srd=ok", p)
				c.tcbDoc(p+"r.", &rd)
			} else {
				c.add("%srd=err", p)
			}
		} else {
			var st mQeIdentity
			if err := json.Unmarshal(r.Body, &st); err != nil {
				c.add("%sb=bad", p)
				return
			}
			sig = st.Signature
			raw, rawOK = rawMember(r.Body, name)
			var rd mEnclaveIdentity
			rdOK := rawOK && json.Unmarshal(raw, &rd) == nil
			zero := reflect.DeepEqual(st, mQeIdentity{})
			if fx[2] == '1' {
				zero = rdOK && reflect.DeepEqual(mQeIdentity{EnclaveIdentity: rd, Signature: sig}, mQeIdentity{})
			}
			c.add("%sb=ok %ssig=%s %sz=%d", p, p, hs(sig), p, b01(zero))
			c.qeDoc(p+"s.", &st.EnclaveIdentity)
			if rdOK {
				c.add("%srd=ok", p)
				c.qeDoc(p+"r.", &rd)
			} else {
				c.add("%srd=err", p)
			}
		}
		if rawOK {
			c.add("%sraw=%s", p, hx.Hex(raw))
			if sb, err := hex.DecodeString(sig); err == nil && len(sb) == 64 && signerIdx >= 0 {
				vcerts = append(vcerts, vcertEntry{signerIdx, raw, sb})
			}
		} else {
			c.add("%sraw=nil", p)
		}
	}
	respFacts("t", w.TcbURL, HdrTcb, "tcbInfo")
	respFacts("q", w.QeURL, HdrQe, "enclaveIdentity")
	c.add("purl=%s", hs(w.PckCrlURL))
	if r, ok := w.Getter.M[w.PckCrlURL]; !ok || r.Err {
		c.add("pf=fail")
	} else {
		c.add("pf=ok ph=%s pcrl=%s", c.hdrFacts(r.Headers, HdrCrl), c.crlFacts(r.Body))
	}
	c.add("nr=%d", len(w.RootCrlURLs))
	for i, u := range w.RootCrlURLs {
		c.add("r%durl=%s", i, hs(u))
		if r := w.Getter.M[u]; r == nil || r.Err {
			c.add("r%d=fail", i)
		} else {
			c.add("r%d=%s", i, c.crlFacts(r.Body))
		}
	}
	// crypto facts over the message
	if StructOK(q) {
		sd := q.SignedData
		qc := sd.CertificationData.QeReportCertificationData
		key := sd.EcdsaAttestationKey
		msg := append(HeaderBytes(q.Header), BodyBytes(q.TdQuoteBody)...)
		x, y := new(big.Int).SetBytes(key[:32]), new(big.Int).SetBytes(key[32:])
		on := elliptic.P256().IsOnCurve(x, y)
		res := false
		if on && len(sd.Signature) == 64 {
			h := sha256.Sum256(msg)
			res = ecdsa.VerifyASN1(&ecdsa.PublicKey{Curve: elliptic.P256(), X: x, Y: y}, h[:], derSig(sd.Signature))
		}
		c.add("onc=%d vraw=%s,%s,%s,%d", b01(on), hx.Fp(key), hx.Fp(msg), hx.Fp(sd.Signature), b01(res))
		in := append(append([]byte{}, key...), qc.QeAuthData.Data...)
		h := sha256.Sum256(in)
		c.add("sha=%s,%s", hx.Fp(in), hex.EncodeToString(h[:]))
		if leafIdx >= 0 && len(qc.QeReportSignature) == 64 {
			vcerts = append(vcerts, vcertEntry{leafIdx, QeReportBytes(qc.QeReport), qc.QeReportSignature})
		}
	} else {
		c.add("onc=0 vraw=- sha=-")
	}
	if len(vcerts) == 0 {
		c.add("vcert=-")
	} else {
		var parts []string
		for _, v := range vcerts {
			ok := c.certs[v.idx].CheckSignature(x509.ECDSAWithSHA256, v.msg, derSig(v.sig)) == nil
			parts = append(parts, fmt.Sprintf("%d,%s,%s,%d", v.idx, hx.Fp(v.msg), hx.Fp(v.sig), b01(ok)))
		}
		c.add("vcert=%s", strings.Join(parts, "/"))
	}
	// certificate table (after everything that can add to it)
	c.add("nc=%d", len(c.certs))
	for i, cert := range c.certs {
		pk, isEC := cert.PublicKey.(*ecdsa.PublicKey)
		curveOK := isEC && pk.Curve.Params().Name == "P-256"
		v3ca := cert.BasicConstraintsValid && cert.IsCA
		if cert.Version != 3 {
			v3ca = !cert.BasicConstraintsValid || cert.IsCA
		}
		canCert := v3ca && (cert.KeyUsage == 0 || cert.KeyUsage&x509.KeyUsageCertSign != 0)
		canCrl := v3ca && (cert.KeyUsage == 0 || cert.KeyUsage&x509.KeyUsageCRLSign != 0)
		dps := "-"
		if len(cert.CRLDistributionPoints) > 0 {
			var d []string
			for _, u := range cert.CRLDistributionPoints {
				d = append(d, hs(u))
			}
			dps = strings.Join(d, "+")
		}
		c.add("c%d=%d,%d,%d,%d,%s,%s,%d,%d,%s,%s,%s,%d,%d,%d,%d,%s", i, cert.Version, b01(cert.SignatureAlgorithm == x509.ECDSAWithSHA256), b01(cert.PublicKeyAlgorithm == x509.ECDSA), b01(curveOK),
			hs(cert.Subject.CommonName), hs(cert.Issuer.CommonName), c.nameID(cert.Subject.String()), c.nameID(cert.Issuer.String()), cert.SerialNumber.String(),
			instant(cert.NotBefore), instant(cert.NotAfter), b01(canCert), b01(canCrl), c.keyID(cert.PublicKey), c.signedBy(cert.RawTBSCertificate, cert.Signature, cert.SignatureAlgorithm), dps)
		if i == leafIdx {
			c.add("x%d=%s", i, PckFacts(cert))
		}
	}
	return strings.Join(c.tokens, " ")
}

// PckFacts is set by the driver: the C13 encoding `<n>:<oids>:<sgx fact>` of a certificate's extensions.
var PckFacts func(cert *x509.Certificate) string
