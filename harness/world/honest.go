package world

import (
	"crypto/elliptic"
	"encoding/hex"
	"fmt"
	"math/big"
	"math/rand/v2"
	"strings"
	"time"

	pb "github.com/google/go-tdx-guest/proto/tdx"

	"tdxharness/hx"
)

// T0 is the reference instant of generated worlds.
var T0 = time.Date(2025, 6, 1, 12, 0, 0, 0, time.UTC)


// HonestSpec: a world in which nothing should make verification fail, with random field contents.
func HonestSpec(rng *rand.Rand) *Spec {
	s := &Spec{Honest: true}
	s.Keys = []*Key{nil}
	for i := 1; i <= 9; i++ {
		s.Keys = append(s.Keys, NewKey(rng, i, elliptic.P256()))
	}
	// keys: 1 root, 2 inter, 3 leaf, 4 tcb signer, 5 attestation key, 6.. foreign / look-alike PKI
	nb, na := T0.Add(-240*time.Hour), T0.Add(2400*time.Hour)
	fmspc := hx.RandBytes(rng, 6)
	sgx := &SgxSpec{PPID: hx.RandBytes(rng, 16), PceSvn: 5 + rng.IntN(20), CpuSvn: hx.RandBytes(rng, 16), PceID: hx.RandBytes(rng, 2), Fmspc: fmspc}
	for i := range sgx.Comps {
		sgx.Comps[i] = 2 + rng.IntN(200)
	}
	s.Certs = []*CertSpec{
		{Role: "root", CN: "Intel SGX Root CA", Serial: big.NewInt(1001), NotBefore: nb, NotAfter: na, IsCA: true, Key: 1, SignKey: 1, CRLDPs: []string{"https://certificates.example/IntelSGXRootCA.der"}},
		{Role: "inter", CN: "Intel SGX PCK Platform CA", Serial: big.NewInt(1002), NotBefore: nb, NotAfter: na, IsCA: true, Key: 2, SignKey: 1, IssuerOf: "root"},
		{Role: "leaf", CN: "Intel SGX PCK Certificate", Serial: big.NewInt(1003), NotBefore: nb, NotAfter: na, Key: 3, SignKey: 2, IssuerOf: "inter", Sgx: sgx, CRLDPs: []string{"https://api.example/pckcrl"}},
		{Role: "signer", CN: "Intel SGX TCB Signing", Serial: big.NewInt(1004), NotBefore: nb, NotAfter: na, Key: 4, SignKey: 1, IssuerOf: "root"},
	}
	s.Chain = []BlockSpec{{Role: "leaf"}, {Role: "inter"}, {Role: "root"}}
	s.Pool = []string{"root"}
	tee := hx.RandBytes(rng, 16)
	tee[1] = 0
	if rng.IntN(2) == 0 {
		tee[1] = byte(1 + rng.IntN(3))
	}
	mrSignerSeam := hx.RandBytes(rng, 48)
	seamAttr := hx.RandBytes(rng, 8)
	qeAttr := hx.RandBytes(rng, 16)
	qeMrsigner := hx.RandBytes(rng, 32)
	isvProd, isvSvn := rng.IntN(65536), 2+rng.IntN(60000)
	misc := rng.Uint32()
	s.Quote = QuoteSpec{
		Header: &pb.Header{Version: 4, AttestationKeyType: 2, TeeType: 0x81, PceSvn: hx.RandBytes(rng, 2), QeSvn: hx.RandBytes(rng, 2), QeVendorId: hx.RandBytes(rng, 16), UserData: hx.RandBytes(rng, 20)},
		Body: &pb.TDQuoteBody{TeeTcbSvn: tee, MrSeam: hx.RandBytes(rng, 48), MrSignerSeam: mrSignerSeam, SeamAttributes: seamAttr, TdAttributes: hx.RandBytes(rng, 8), Xfam: hx.RandBytes(rng, 8),
			MrTd: hx.RandBytes(rng, 48), MrConfigId: hx.RandBytes(rng, 48), MrOwner: hx.RandBytes(rng, 48), MrOwnerConfig: hx.RandBytes(rng, 48),
			Rtmrs: [][]byte{hx.RandBytes(rng, 48), hx.RandBytes(rng, 48), hx.RandBytes(rng, 48), hx.RandBytes(rng, 48)}, ReportData: hx.RandBytes(rng, 64)},
		QeReport: &pb.EnclaveReport{CpuSvn: hx.RandBytes(rng, 16), MiscSelect: misc, Reserved1: hx.RandBytes(rng, 28), Attributes: qeAttr, MrEnclave: hx.RandBytes(rng, 32), Reserved2: hx.RandBytes(rng, 32),
			MrSigner: qeMrsigner, Reserved3: hx.RandBytes(rng, 96), IsvProdId: uint32(isvProd), IsvSvn: uint32(isvSvn), Reserved4: hx.RandBytes(rng, 60)},
		AttKey: 5, Auth: hx.RandBytes(rng, rng.IntN(64)),
	}
	// TCB Info: the matching UpToDate level somewhere in a list of 1..4 levels (earlier levels demand more than the platform has)
	var sgxLv, tdxLv [16]int
	for i := 0; i < 16; i++ {
		sgxLv[i] = sgx.Comps[i] - rng.IntN(2)
		tdxLv[i] = int(tee[i])
		if tdxLv[i] > 0 {
			tdxLv[i] -= rng.IntN(2)
		}
	}
	match := Level{Sgx: sgxLv, PceSvn: sgx.PceSvn - rng.IntN(2), Tdx: tdxLv, Status: "UpToDate"}
	var levels []Level
	for n := rng.IntN(3); n > 0; n-- {
		hi := match
		switch k := 2 + rng.IntN(14); {
		case rng.IntN(3) == 0 && tee[k] < 255:
			// above the platform in ONE TDX component only (SGX components and PCE SVN are met)
			hi.Tdx[k] = int(tee[k]) + 1
		case rng.IntN(4) == 0 && sgx.PceSvn < 65535:
			// above the platform in the PCE SVN only
			hi.PceSvn = sgx.PceSvn + 1
		default:
			hi.Sgx[rng.IntN(16)] = 255
			if sgx.Comps[0] == 255 {
				hi.PceSvn = 65535
			}
			hi.Sgx[0] = sgx.Comps[0] + 1
		}
		hi.Status = []string{"UpToDate", "OutOfDate", "Revoked"}[rng.IntN(3)]
		levels = append(levels, hi)
	}
	levels = append(levels, match, Level{Status: "OutOfDate"})
	modID := fmt.Sprintf("TDX_%02x", tee[1])
	ids := []ModIdentity{{ID: "TDX_7f", Levels: []ModLevel{{Isvsvn: 0, Status: "Revoked"}}},
		{ID: modID, Levels: []ModLevel{{Isvsvn: int(tee[0]) + 1, Status: "OutOfDate"}, {Isvsvn: int(tee[0]), Status: "UpToDate"}, {Isvsvn: 0, Status: "OutOfDate"}}}}
	mask := hx.RandBytes(rng, 8)
	attrs := make([]byte, 8)
	for i := range attrs {
		attrs[i] = mask[i] & seamAttr[i]
	}
	fmStr := hex.EncodeToString(fmspc)
	if rng.IntN(2) == 0 {
		fmStr = strings.ToUpper(fmStr)
	}
	s.Tcb = TcbDoc{ID: "TDX", Version: 3, IssueDate: nb, NextUpdate: na, Fmspc: fmStr, PceID: hex.EncodeToString(sgx.PceID), Mrsigner: hex.EncodeToString(mrSignerSeam),
		Attributes: hex.EncodeToString(attrs), Mask: hex.EncodeToString(mask), Identities: ids, Levels: levels}
	s.TcbResp = RespSpec{Fetch: "ok", SignKey: 4}
	mm := rng.Uint32()
	qmask := hx.RandBytes(rng, 16)
	qattrs := make([]byte, 16)
	for i := range qattrs {
		qattrs[i] = qmask[i] & qeAttr[i]
	}
	le := func(v uint32) string { return hex.EncodeToString([]byte{byte(v), byte(v >> 8), byte(v >> 16), byte(v >> 24)}) }
	s.Qe = QeDoc{ID: "TD_QE", Version: 2, IssueDate: nb, NextUpdate: na, Miscselect: le(misc & mm), MiscselectMask: le(mm), Attributes: hex.EncodeToString(qattrs),
		AttributesMask: hex.EncodeToString(qmask), Mrsigner: hex.EncodeToString(qeMrsigner), IsvProdID: isvProd,
		Levels: []QeLevel{{Isvsvn: isvSvn + 1, Status: "OutOfDate"}, {Isvsvn: isvSvn - rng.IntN(2), Status: "UpToDate"}, {Isvsvn: 1, Status: "OutOfDate"}}}
	s.QeResp = RespSpec{Fetch: "ok", SignKey: 4}
	s.PckCrl = CrlSpec{Fetch: "ok", IssuerOf: "inter", SignKey: 2, Revoked: []*big.Int{big.NewInt(555), big.NewInt(1<<62 + 7)}, ThisUpdate: nb, NextUpdate: na}
	s.RootCrls = []CrlSpec{{Fetch: "ok", IssuerOf: "root", SignKey: 1, Revoked: []*big.Int{big.NewInt(777)}, ThisUpdate: nb, NextUpdate: na}}
	now := [5]time.Time{T0, T0.Add(time.Hour), T0.Add(2 * time.Hour), T0.Add(3 * time.Hour), T0.Add(4 * time.Hour)}
	s.Now = &now
	return s
}

