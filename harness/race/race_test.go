// Package race is the dynamic side of C16: byte-for-byte snapshots TO CAPACITY around every check-side entry
// point, aliasing of parsed quotes with their input, and concurrent use under the race detector.
// It is compiled with `go test -race -c` and driven through environment variables (TDX_OUT, TDX_TIER, TDX_SEED).
package race

import (
	"encoding/base64"
	"encoding/hex"
	"bytes"
	"fmt"
	"math/rand/v2"
	"os"
	"os/exec"
	"reflect"
	"strings"
	"sync"
	"testing"
	"time"
	"unsafe"

	"github.com/google/go-tdx-guest/abi"
	pb "github.com/google/go-tdx-guest/proto/tdx"
	"github.com/google/go-tdx-guest/rtmr"
	"github.com/google/go-tdx-guest/validate"
	"github.com/google/go-tdx-guest/verify"
	"google.golang.org/protobuf/proto"

	"tdxharness/hx"
	"tdxharness/world"
)

const sentinel = 0xA5

// toCap returns the slice extended to its capacity (what a stray append could touch).
func toCap(b []byte) []byte {
	if cap(b) == 0 {
		return nil
	}
	return b[:cap(b)]
}

type field struct {
	name string
	p    *[]byte
}

func msgFields(q *pb.QuoteV4) []field {
	var fs []field
	add := func(n string, p *[]byte) { fs = append(fs, field{n, p}) }
	if h := q.Header; h != nil {
		add("hdr.pce_svn", &h.PceSvn)
		add("hdr.qe_svn", &h.QeSvn)
		add("hdr.qe_vendor_id", &h.QeVendorId)
		add("hdr.user_data", &h.UserData)
	}
	if t := q.TdQuoteBody; t != nil {
		for _, x := range []struct {
			n string
			p *[]byte
		}{{"tee_tcb_svn", &t.TeeTcbSvn}, {"mr_seam", &t.MrSeam}, {"mr_signer_seam", &t.MrSignerSeam}, {"seam_attributes", &t.SeamAttributes}, {"td_attributes", &t.TdAttributes},
			{"xfam", &t.Xfam}, {"mr_td", &t.MrTd}, {"mr_config_id", &t.MrConfigId}, {"mr_owner", &t.MrOwner}, {"mr_owner_config", &t.MrOwnerConfig}, {"report_data", &t.ReportData}} {
			add("td."+x.n, x.p)
		}
		for i := range t.Rtmrs {
			add(fmt.Sprintf("td.rtmr%d", i), &t.Rtmrs[i])
		}
	}
	if s := q.SignedData; s != nil {
		add("sd.signature", &s.Signature)
		add("sd.attestation_key", &s.EcdsaAttestationKey)
		if qc := s.GetCertificationData().GetQeReportCertificationData(); qc != nil {
			add("qe.signature", &qc.QeReportSignature)
			if r := qc.QeReport; r != nil {
				for _, x := range []struct {
					n string
					p *[]byte
				}{{"cpu_svn", &r.CpuSvn}, {"reserved1", &r.Reserved1}, {"attributes", &r.Attributes}, {"mr_enclave", &r.MrEnclave}, {"reserved2", &r.Reserved2},
					{"mr_signer", &r.MrSigner}, {"reserved3", &r.Reserved3}, {"reserved4", &r.Reserved4}, {"report_data", &r.ReportData}} {
					add("qe."+x.n, x.p)
				}
			}
			if a := qc.QeAuthData; a != nil {
				add("qe.auth_data", &a.Data)
			}
			if p := qc.PckCertificateChainData; p != nil {
				add("qe.pck_chain", &p.PckCertChain)
			}
		}
	}
	add("extra_bytes", &q.ExtraBytes)
	return fs
}

// spread re-homes every field of q inside ONE shared arena, each followed by `spare` sentinel bytes of capacity.
func spread(q *pb.QuoteV4, spare int) (*pb.QuoteV4, []byte) {
	c := proto.Clone(q).(*pb.QuoteV4)
	fs := msgFields(c)
	total := 0
	for _, f := range fs {
		total += len(*f.p) + spare
	}
	arena := bytes.Repeat([]byte{sentinel}, total+spare)
	off := 0
	for _, f := range fs {
		n := len(*f.p)
		copy(arena[off:], *f.p)
		*f.p = arena[off : off+n : off+n+spare]
		off += n + spare
	}
	return c, arena
}

type snap struct {
	names []string
	data  [][]byte
}

func snapshot(q *pb.QuoteV4, extra map[string][]byte) snap {
	var s snap
	for _, f := range msgFields(q) {
		s.names = append(s.names, f.name)
		s.data = append(s.data, append([]byte{}, toCap(*f.p)...))
	}
	for n, b := range extra {
		s.names = append(s.names, n)
		s.data = append(s.data, append([]byte{}, toCap(b)...))
	}
	return s
}

func (a snap) diff(q *pb.QuoteV4, extra map[string][]byte) string {
	b := snapshot(q, extra)
	idx := map[string][]byte{}
	for i, n := range b.names {
		idx[n] = b.data[i]
	}
	for i, n := range a.names {
		if !bytes.Equal(a.data[i], idx[n]) {
			return n
		}
	}
	return ""
}

type entry struct {
	name string
	call func(q *pb.QuoteV4, w *world.World, vo *validate.Options) string
}

func verdict(err error) string {
	if err != nil {
		return "err"
	}
	return "ok"
}

func vopts(w *world.World, gc, cr bool) *verify.Options {
	n := w.Spec.Now
	return &verify.Options{GetCollateral: gc, CheckRevocations: cr, Getter: &world.Getter{M: w.Getter.M}, TrustedRoots: w.Pool(),
		Now: &verify.TimeSet{PckCertChain: n[0], TcbInfo: n[1], QeIdentity: n[2], PckCrl: n[3], RootCaCrl: n[4]}}
}

var entries = []entry{
	{"verify.TdxQuote", func(q *pb.QuoteV4, w *world.World, _ *validate.Options) string { return verdict(verify.TdxQuote(q, vopts(w, false, false))) }},
	{"verify.TdxQuote+collateral", func(q *pb.QuoteV4, w *world.World, _ *validate.Options) string { return verdict(verify.TdxQuote(q, vopts(w, true, false))) }},
	{"verify.TdxQuote+collateral+crl", func(q *pb.QuoteV4, w *world.World, _ *validate.Options) string { return verdict(verify.TdxQuote(q, vopts(w, true, true))) }},
	{"verify.SupportedTcbLevelsFromCollateral", func(q *pb.QuoteV4, w *world.World, _ *validate.Options) string {
		o := vopts(w, true, false)
		verify.TdxQuote(q, o)
		_, _, err := verify.SupportedTcbLevelsFromCollateral(q, o)
		return verdict(err)
	}},
	{"validate.TdxQuote", func(q *pb.QuoteV4, _ *world.World, vo *validate.Options) string { return verdict(validate.TdxQuote(q, vo)) }},
	{"abi.QuoteToAbiBytes", func(q *pb.QuoteV4, _ *world.World, _ *validate.Options) string { _, err := abi.QuoteToAbiBytes(q); return verdict(err) }},
	{"abi.HeaderToAbiBytes", func(q *pb.QuoteV4, _ *world.World, _ *validate.Options) string { _, err := abi.HeaderToAbiBytes(q.Header); return verdict(err) }},
	{"abi.TdQuoteBodyToAbiBytes", func(q *pb.QuoteV4, _ *world.World, _ *validate.Options) string { _, err := abi.TdQuoteBodyToAbiBytes(q.TdQuoteBody); return verdict(err) }},
	{"abi.EnclaveReportToAbiBytes", func(q *pb.QuoteV4, _ *world.World, _ *validate.Options) string {
		_, err := abi.EnclaveReportToAbiBytes(q.SignedData.CertificationData.QeReportCertificationData.QeReport)
		return verdict(err)
	}},
	{"abi.CheckQuoteV4", func(q *pb.QuoteV4, _ *world.World, _ *validate.Options) string { return verdict(abi.CheckQuoteV4(q)) }},
	{"verify.ExtractChainFromQuote", func(q *pb.QuoteV4, _ *world.World, _ *validate.Options) string { _, err := verify.ExtractChainFromQuote(q); return verdict(err) }},
	{"rtmr.GetRtmrsFromTdQuote", func(q *pb.QuoteV4, _ *world.World, _ *validate.Options) string { _, err := rtmr.GetRtmrsFromTdQuote(q); return verdict(err) }},
}

// valOptions: validation options whose byte strings (with spare capacity) equal the quote's fields
func valOptions(q *pb.QuoteV4, spare int) (*validate.Options, map[string][]byte) {
	mk := func(b []byte) []byte {
		out := append(make([]byte, 0, len(b)+spare), b...)
		for i := len(b); i < cap(out); i++ {
			out[:cap(out)][i] = sentinel
		}
		return out
	}
	t := q.TdQuoteBody
	o := &validate.Options{HeaderOptions: validate.HeaderOptions{QeVendorID: mk(q.Header.QeVendorId)},
		TdQuoteBodyOptions: validate.TdQuoteBodyOptions{MinimumTeeTcbSvn: mk(t.TeeTcbSvn), TdAttributes: mk(t.TdAttributes), Xfam: mk(t.Xfam), MrSeam: mk(t.MrSeam), MrTd: mk(t.MrTd), MrConfigID: mk(t.MrConfigId), MrOwner: mk(t.MrOwner),
			MrOwnerConfig: mk(t.MrOwnerConfig), ReportData: mk(t.ReportData), Rtmrs: [][]byte{mk(t.Rtmrs[0]), nil, mk(t.Rtmrs[2]), nil}, AnyMrTd: [][]byte{mk(bytes.Repeat([]byte{0xff}, 48)), mk(t.MrTd), mk(make([]byte, 48))}}}
	to := o.TdQuoteBodyOptions
	extra := map[string][]byte{"opt.qe_vendor_id": o.HeaderOptions.QeVendorID, "opt.min_tee_tcb_svn": to.MinimumTeeTcbSvn, "opt.td_attributes": to.TdAttributes, "opt.xfam": to.Xfam, "opt.mr_seam": to.MrSeam, "opt.mr_td": to.MrTd,
		"opt.mr_config_id": to.MrConfigID, "opt.mr_owner": to.MrOwner, "opt.mr_owner_config": to.MrOwnerConfig, "opt.report_data": to.ReportData,
		"opt.rtmr0": to.Rtmrs[0], "opt.rtmr2": to.Rtmrs[2], "opt.any_mr_td0": to.AnyMrTd[0], "opt.any_mr_td1": to.AnyMrTd[1], "opt.any_mr_td2": to.AnyMrTd[2]}
	return o, extra
}

// listIdentity: which byte slice (address, length) stands at which position of the policy's list-valued options — a check that
// reorders or replaces the entries of the caller's list has written to the caller's options even if every byte is still somewhere.
func listIdentity(o *validate.Options) string {
	if o == nil {
		return ""
	}
	var sb strings.Builder
	for _, l := range [][][]byte{o.TdQuoteBodyOptions.Rtmrs, o.TdQuoteBodyOptions.AnyMrTd} {
		fmt.Fprintf(&sb, "[%d:", len(l))
		for _, e := range l {
			fmt.Fprintf(&sb, "%p/%d,", unsafe.SliceData(e), len(e))
		}
		sb.WriteString("]")
	}
	return sb.String()
}

func honestWorld(rng *rand.Rand, authLen int) *world.World {
	s := world.HonestSpec(rng)
	s.Quote.Auth = hx.RandBytes(rng, authLen)
	s.Quote.Extra = hx.RandBytes(rng, 5)
	// valid XFAM / TD_ATTRIBUTES so that validation accepts as well
	copy(s.Quote.Body.Xfam, []byte{3, 0, 0, 0, 0, 0, 0, 0})
	copy(s.Quote.Body.TdAttributes, []byte{0, 0, 0, 0x10, 0, 0, 0, 0})
	return world.Build(s)
}

func TestC16(t *testing.T) {
	out := os.Getenv("TDX_OUT")
	if out == "" {
		t.Skip("driver entry point: set TDX_OUT")
	}
	tier := os.Getenv("TDX_TIER")
	var seed uint64 = 1
	fmt.Sscan(os.Getenv("TDX_SEED"), &seed)
	r, err := hx.NewRun("C16", tier, seed, out)
	if err != nil {
		t.Fatal(err)
	}
	rng := r.Rng(16)
	nWorlds := 6
	if tier == "thorough" {
		nWorlds = 60
	}
	for wi := 0; wi < nWorlds; wi++ {
		authLen := []int{0, 1, 17, 32, 64, 200}[wi%6]
		w := honestWorld(rng, authLen)
		raw, err := abi.QuoteToAbiBytes(w.Quote)
		if err != nil {
			t.Fatal(err)
		}
		for _, src := range []string{"parsed", "arena", "proto-roundtrip", "built", "built-signed-data-size-unset", "chain-END-NUL-without-line-break", "chain-with-4th-block-and-NUL", "short-report-data-option",
			"parsed+body-changed-after-signing", "arena+header-changed-after-signing", "parsed+qe-report-changed-after-signing", "parsed+signature-bit-flipped",
			"option-mismatch:xfam", "option-mismatch:td_attributes", "option-mismatch:mr_td", "option-mismatch:min_tee_tcb_svn", "option-mismatch:any_mr_td", "option-mismatch:rtmr2"} {
			var q *pb.QuoteV4
			refused := false // the construction is one the checks (some of them) are expected to refuse: only the memory is compared
			extra := map[string][]byte{}
			switch src {
			case "parsed":
				rawc := append(make([]byte, 0, len(raw)+64), raw...)
				any, err := abi.QuoteToProto(rawc)
				if err != nil {
					t.Fatal(err)
				}
				q = any.(*pb.QuoteV4)
				extra["raw_input"] = rawc
			case "arena":
				var arena []byte
				q, arena = spread(w.Quote, 1+rng.IntN(300))
				extra["arena"] = arena
			case "proto-roundtrip":
				b, _ := proto.Marshal(w.Quote)
				q = &pb.QuoteV4{}
				if err := proto.Unmarshal(b, q); err != nil {
					t.Fatal(err)
				}
			case "chain-END-NUL-without-line-break", "chain-with-4th-block-and-NUL":
				// inputs the checks REFUSE are not written to either: a chain whose last END line is followed directly by the
				// NUL terminator / by more bytes ending in NUL (sizes adjusted so that the structure stays valid)
				q = proto.Clone(w.Quote).(*pb.QuoteV4)
				pc := q.SignedData.CertificationData.QeReportCertificationData.PckCertificateChainData
				chain := bytes.TrimRight(pc.PckCertChain, "\x00\n")
				if src == "chain-with-4th-block-and-NUL" {
					chain = append(append(append([]byte{}, chain...), '\n'), chain[bytes.LastIndex(chain, []byte("-----BEGIN")):]...)
				}
				chain = append(append(make([]byte, 0, len(chain)+40), chain...), 0)
				delta := uint32(len(chain)) - pc.Size
				pc.PckCertChain, pc.Size = chain, uint32(len(chain))
				q.SignedData.CertificationData.Size += delta
				q.SignedDataSize += delta
				refused = true
			case "parsed+body-changed-after-signing", "arena+header-changed-after-signing", "parsed+qe-report-changed-after-signing", "parsed+signature-bit-flipped":
				// quotes that each signature check refuses, in the memory layouts that leave spare capacity behind the fields: the
				// refusing branches (error texts, diagnostics) do not write either
				if strings.HasPrefix(src, "arena") {
					var arena []byte
					q, arena = spread(w.Quote, 1+rng.IntN(300))
					extra["arena"] = arena
				} else {
					rawc := append(make([]byte, 0, len(raw)+64), raw...)
					any, err := abi.QuoteToProto(rawc)
					if err != nil {
						t.Fatal(err)
					}
					q = any.(*pb.QuoteV4)
					extra["raw_input"] = rawc
				}
				switch {
				case strings.HasSuffix(src, "body-changed-after-signing"):
					q.TdQuoteBody.MrTd[3] ^= 0x10
				case strings.HasSuffix(src, "header-changed-after-signing"):
					q.Header.UserData[0] ^= 0x80
				case strings.HasSuffix(src, "qe-report-changed-after-signing"):
					q.SignedData.CertificationData.QeReportCertificationData.QeReport.MrSigner[1] ^= 1
				default:
					q.SignedData.Signature[5] ^= 0x04
				}
				refused = true
			case "short-report-data-option", "option-mismatch:xfam", "option-mismatch:td_attributes", "option-mismatch:mr_td", "option-mismatch:min_tee_tcb_svn",
				"option-mismatch:any_mr_td", "option-mismatch:rtmr2":
				q = proto.Clone(w.Quote).(*pb.QuoteV4)
				refused = true
			case "built-signed-data-size-unset":
				// a message assembled field by field with the redundant size left at its zero value (no check relates it to
				// the data, O-1): the serialiser computes the size — into its output, not into the caller's message
				q = proto.Clone(w.Quote).(*pb.QuoteV4)
				q.SignedDataSize = 0
			default:
				q = proto.Clone(w.Quote).(*pb.QuoteV4)
			}
			vo, optExtra := valOptions(q, 40)
			if src == "short-report-data-option" {
				// an expectation shorter than the field (a 32-byte nonce for the 64-byte REPORT_DATA), cut from a longer buffer: the
				// bytes behind it are the caller's too
				buf := append(make([]byte, 0, 96), q.TdQuoteBody.ReportData...)
				buf = append(buf, bytes.Repeat([]byte{sentinel}, 32)...)
				vo.TdQuoteBodyOptions.ReportData = buf[:32]
				optExtra["opt.report_data(short)"] = buf[:32]
			}
			if what, ok := strings.CutPrefix(src, "option-mismatch:"); ok {
				// an expectation the quote does NOT meet (the error path of the comparison): distinct, non-palindromic bytes so that
				// any rearrangement shows; the option's memory is the caller's on this path too
				odd := func(b []byte) {
					for i := range b {
						b[i] = byte(0x11*(i+1)) ^ b[i]
					}
				}
				to := &vo.TdQuoteBodyOptions
				switch what {
				case "xfam":
					odd(to.Xfam)
				case "td_attributes":
					odd(to.TdAttributes)
				case "mr_td":
					odd(to.MrTd)
					odd(to.AnyMrTd[1])
				case "min_tee_tcb_svn":
					for i := range to.MinimumTeeTcbSvn {
						to.MinimumTeeTcbSvn[i] = 0xf0 | byte(i)
					}
				case "any_mr_td":
					odd(to.AnyMrTd[1])
				case "rtmr2":
					odd(to.Rtmrs[2])
				}
			}
			for k, v := range optExtra {
				extra[k] = v
			}
			ref := proto.Clone(q).(*pb.QuoteV4)
			for _, e := range entries {
				before := snapshot(q, extra)
				listsBefore := listIdentity(vo)
				verdictS, stack := hx.Guard(func() string { return e.call(q, w, vo) })
				dirty := before.diff(q, extra)
				if dirty == "" && listIdentity(vo) != listsBefore {
					dirty = "the option lists (which slice stands at which position of Rtmrs / AnyMrTd)"
				}
				obs := "clean"
				fail := ""
				if verdictS == "panic" {
					obs, fail = "panic", "crash: "+strings.SplitN(stack, "\n", 2)[0]
				} else if dirty != "" {
					obs, fail = "dirty:"+dirty, fmt.Sprintf("%s wrote to memory reachable from %s (quote built as %q, QE auth data %d bytes)", e.name, dirty, src, authLen)
				} else if !proto.Equal(q, ref) {
					obs, fail = "changed", e.name+" changed the message"
				} else if verdictS != "ok" && !refused {
					fail = e.name + " rejected an honest quote: generator problem"
				}
				key := q.SignedData.EcdsaAttestationKey
				spare := cap(key) - len(key)
				if strings.HasPrefix(e.name, "verify.TdxQuote") {
					// the one modelled write site: the key ‖ auth concatenation of verifyHash256
					line := fmt.Sprintf("C16.concat keylen=%d keyspare=%d auth=%d", len(key), spare, authLen)
					o := obs
					if strings.HasPrefix(obs, "dirty:") {
						o = "dirty" // which neighbouring field's capacity the write landed in depends on the layout
					}
					r.Emit(line, o, fail, fmt.Sprintf("%s|%s|%v|%d", e.name, src, spare > 0, authLen), true, "snapshot:"+src, "entry:"+e.name, "obs:"+strings.SplitN(obs, ":", 2)[0])
				} else {
					r.Emit(fmt.Sprintf("# C16.snapshot entry=%s src=%s auth=%d", e.name, src, authLen), obs, fail, fmt.Sprintf("%s|%s|%d", e.name, src, authLen), true,
						"snapshot:"+src, "entry:"+e.name, "obs:"+strings.SplitN(obs, ":", 2)[0])
				}
			}
		}
		// raw inputs of every spelling — the quote's bytes, the same as base64 / hex text, text with a line break, plain garbage —
		// through the three entry points that take raw bytes: the buffer is the caller's, up to its capacity, whether or not the
		// input is accepted
		if wi < 3 || tier == "thorough" {
			b64 := []byte(base64.StdEncoding.EncodeToString(raw))
			forms := map[string][]byte{"binary": raw, "base64": b64, "base64+newline": append(append([]byte{}, b64...), '\n'), "base64-damaged": append(append([]byte{}, b64[:len(b64)/2]...), []byte("!!!!")...),
				"hex": []byte(hex.EncodeToString(raw)), "garbage": []byte("this is not a quote"), "binary-cut": raw[:len(raw)/2]}
			for fname, form := range forms {
				for _, ep := range []string{"abi.QuoteToProto", "verify.RawTdxQuote", "validate.RawTdxQuote"} {
					buf := append(make([]byte, 0, len(form)+32), form...)
					for i := len(form); i < cap(buf); i++ {
						buf[:cap(buf)][i] = sentinel
					}
					want := append([]byte{}, buf[:cap(buf)]...)
					res, stack := hx.Guard(func() string {
						switch ep {
						case "abi.QuoteToProto":
							_, err := abi.QuoteToProto(buf)
							return verdict(err)
						case "verify.RawTdxQuote":
							return verdict(verify.RawTdxQuote(buf, vopts(w, false, false)))
						}
						return verdict(validate.RawTdxQuote(buf, &validate.Options{}))
					})
					obs, fail := "clean", ""
					if res == "panic" {
						obs, fail = "panic", "crash: "+strings.SplitN(stack, "\n", 2)[0]
					} else if !bytes.Equal(buf[:cap(buf)], want) {
						obs, fail = "dirty", fmt.Sprintf("%s wrote to the caller's raw input buffer (input spelled as %s, %d bytes, capacity %d; the call returned %s)", ep, fname, len(form), cap(buf), res)
					}
					r.Emit(fmt.Sprintf("# C16.rawinput world=%d form=%s entry=%s", wi, fname, ep), obs, fail, fmt.Sprintf("rawinput|%d|%s|%s", wi, fname, ep), true, "rawinput:"+fname, "entry:"+ep, "obs:"+obs)
				}
			}
		}
		// aliasing: a parsed quote shares no memory with its input — whatever the capacity of the input buffer (spare capacity, or
		// exactly as large as the quote) and whether or not bytes follow the signed data
		for ai, rawIn := range [][]byte{raw, raw[:len(raw)-len(w.Quote.ExtraBytes)]} {
		for _, exact := range []bool{false, true} {
		rawc := append(make([]byte, 0, len(rawIn)+37), rawIn...)
		if exact {
			rawc = make([]byte, len(rawIn))
			copy(rawc, rawIn)
		}
		raw := rawIn
		any, err := abi.QuoteToProto(rawc)
		if err != nil {
			t.Fatal(err)
		}
		q := any.(*pb.QuoteV4)
		ref := proto.Clone(q).(*pb.QuoteV4)
		lo, hi := uintptr(unsafe.Pointer(unsafe.SliceData(rawc))), uintptr(unsafe.Pointer(unsafe.SliceData(rawc)))+uintptr(cap(rawc))
		overlap := ""
		for _, f := range msgFields(q) {
			if cap(*f.p) == 0 {
				continue
			}
			a := uintptr(unsafe.Pointer(unsafe.SliceData(*f.p)))
			b := a + uintptr(cap(*f.p))
			if a < hi && lo < b {
				overlap = f.name
			}
		}
		for i := range rawc {
			rawc[i] ^= 0xff
		}
		obs, fail := "disjoint", ""
		if overlap != "" {
			obs, fail = "alias:"+overlap, "parsed field "+overlap+" shares memory with the input buffer"
		} else if !proto.Equal(q, ref) {
			obs, fail = "changed", "overwriting the input buffer after parsing changed the parsed quote"
		}
		r.Emit(fmt.Sprintf("# C16.alias world=%d len=%d trailing=%v exact-capacity=%v", wi, len(raw), ai == 0, exact), obs, fail, fmt.Sprintf("alias|%d|%d|%v", wi, ai, exact), true, "alias", "obs:"+strings.SplitN(obs, ":", 2)[0])
		}
		}
	}
	// concurrency: the same binary re-executed as a worker under the race detector
	workers, iters := 8, 150
	if tier == "thorough" {
		workers, iters = 48, 1500
	}
	for _, src := range []string{"parsed", "arena", "uncounted-nul"} {
		cmd := exec.Command(os.Args[0], "-test.run", "^TestRaceWorker$", "-test.count=1")
		cmd.Env = append(os.Environ(), "TDX_OUT=", fmt.Sprintf("TDX_RACE_WORKERS=%d", workers), fmt.Sprintf("TDX_RACE_ITERS=%d", iters), "TDX_RACE_SRC="+src,
			fmt.Sprintf("TDX_SEED=%d", seed), "GORACE=halt_on_error=0 exitcode=66")
		outB, err := cmd.CombinedOutput()
		text := string(outB)
		obs, fail := "norace verdicts-equal", ""
		if strings.Contains(text, "WARNING: DATA RACE") {
			i := strings.Index(text, "WARNING: DATA RACE")
			end := i + 900
			if end > len(text) {
				end = len(text)
			}
			obs, fail = "race", "data race while one quote is verified/validated concurrently: "+strings.ReplaceAll(text[i:end], "\n", " | ")
		} else if strings.Contains(text, "VERDICT-MISMATCH") {
			obs, fail = "verdict-mismatch", "a concurrent call returned a different verdict than the solo run"
		} else if err != nil {
			obs, fail = "worker-failed", "race worker failed: "+hx.Trunc(strings.ReplaceAll(text, "\n", " | "), 600)
		}
		r.Emit(fmt.Sprintf("# C16.race src=%s workers=%d iters=%d", src, workers, iters), obs, fail, "race|"+src, true, "race", "obs:"+strings.SplitN(obs, " ", 2)[0])
	}
	// cold start: the FIRST verifications of a fresh process run concurrently, with the embedded root (TrustedRoots nil);
	// lazily initialised package state (pools, caches, tables) is only ever written then
	procs := 3
	if tier == "thorough" {
		procs = 20
	}
	coldObs, coldFail := "norace verdicts-equal", ""
	for p := 0; p < procs && coldFail == ""; p++ {
		cmd := exec.Command(os.Args[0], "-test.run", "^TestColdStartWorker$", "-test.count=1")
		cmd.Env = append(os.Environ(), "TDX_OUT=", "TDX_COLD=1", "GORACE=halt_on_error=0 exitcode=66")
		outB, err := cmd.CombinedOutput()
		text := string(outB)
		if i := strings.Index(text, "WARNING: DATA RACE"); i >= 0 {
			end := i + 900
			if end > len(text) {
				end = len(text)
			}
			coldObs, coldFail = "race", "data race between the first concurrent verifications of a process (TrustedRoots nil, own options each): "+strings.ReplaceAll(text[i:end], "\n", " | ")
		} else if strings.Contains(text, "VERDICT-MISMATCH") {
			coldObs, coldFail = "verdict-mismatch", "a concurrent cold-start call returned a different verdict than the solo run"
		} else if err != nil {
			coldObs, coldFail = "worker-failed", "cold-start worker failed: "+hx.Trunc(strings.ReplaceAll(text, "\n", " | "), 600)
		}
	}
	r.Emit(fmt.Sprintf("# C16.race src=coldstart procs=%d", procs), coldObs, coldFail, "race|coldstart", true, "race", "obs:"+strings.SplitN(coldObs, " ", 2)[0])
	r.Note("entries", len(entries))
	if err := r.Close(); err != nil {
		t.Fatal(err)
	}
}

// TestRaceWorker: many goroutines use ONE quote message concurrently, each with its own options.
func TestRaceWorker(t *testing.T) {
	if os.Getenv("TDX_RACE_WORKERS") == "" {
		t.Skip("worker entry point")
	}
	var workers, iters int
	var seed uint64 = 1
	fmt.Sscan(os.Getenv("TDX_RACE_WORKERS"), &workers)
	fmt.Sscan(os.Getenv("TDX_RACE_ITERS"), &iters)
	fmt.Sscan(os.Getenv("TDX_SEED"), &seed)
	rng := rand.New(rand.NewPCG(seed, 1616))
	w := honestWorld(rng, 32)
	raw, err := abi.QuoteToAbiBytes(w.Quote)
	if err != nil {
		t.Fatal(err)
	}
	var q *pb.QuoteV4
	if os.Getenv("TDX_RACE_SRC") == "arena" {
		q, _ = spread(w.Quote, 128)
	} else if os.Getenv("TDX_RACE_SRC") == "uncounted-nul" {
		// a message the checks refuse (the chain bytes end in a NUL that the size fields do not count): refused inputs are
		// shared between goroutines just the same, and a check that "repairs" its input for the duration of the call writes to it
		q = proto.Clone(w.Quote).(*pb.QuoteV4)
		pc := q.SignedData.CertificationData.QeReportCertificationData.PckCertificateChainData
		pc.PckCertChain = append(append(make([]byte, 0, len(pc.PckCertChain)+9), bytes.TrimRight(pc.PckCertChain, "\x00")...), 0)
		pc.Size = uint32(len(pc.PckCertChain) - 1)
	} else {
		any, err := abi.QuoteToProto(raw)
		if err != nil {
			t.Fatal(err)
		}
		q = any.(*pb.QuoteV4)
	}
	vo, _ := valOptions(q, 16)
	solo := make([]string, len(entries))
	for i, e := range entries {
		solo[i] = e.call(q, w, vo)
	}
	var wg sync.WaitGroup
	var mu sync.Mutex
	mismatch := 0
	for g := 0; g < workers; g++ {
		wg.Add(1)
		go func(g int) {
			defer wg.Done()
			myVo, _ := valOptions(q, 8) // per-goroutine options
			for it := 0; it < iters; it++ {
				i := (g + it) % len(entries)
				if v := entries[i].call(q, w, myVo); v != solo[i] {
					mu.Lock()
					mismatch++
					mu.Unlock()
				}
			}
		}(g)
	}
	wg.Wait()
	if mismatch > 0 {
		fmt.Println("VERDICT-MISMATCH", mismatch)
		t.Fail()
	}
	_ = reflect.DeepEqual
}


// TestColdStartWorker: in a fresh process, 32 goroutines released together make the process's first calls of
// verify.TdxQuote / verify.RawTdxQuote / validate on the repository's sample quote, each with its own options and the
// embedded root of trust; afterwards the same calls run alone and the verdicts are compared.
func TestColdStartWorker(t *testing.T) {
	if os.Getenv("TDX_COLD") == "" {
		t.Skip("worker entry point")
	}
	root := "/repo"
	if v := os.Getenv("VERIF_REPO"); v != "" {
		root = v
	}
	raw, err := os.ReadFile(root + "/testing/testdata/tdx_prod_quote_SPR_E4.dat")
	if err != nil {
		t.Fatal(err)
	}
	at := time.Date(2023, 12, 1, 0, 0, 0, 0, time.UTC)
	one := func(i int) string {
		now := &verify.TimeSet{PckCertChain: at, TcbInfo: at, QeIdentity: at, PckCrl: at, RootCaCrl: at}
		o := &verify.Options{Now: now}
		switch i % 3 {
		case 0:
			return verdict(verify.RawTdxQuote(append([]byte{}, raw...), o))
		case 1:
			any, err := abi.QuoteToProto(append([]byte{}, raw...))
			if err != nil {
				return "parse-err"
			}
			return verdict(verify.TdxQuote(any, o))
		}
		_, err := verify.ExtractChainFromQuote(func() any { q, _ := abi.QuoteToProto(append([]byte{}, raw...)); return q }())
		return verdict(err)
	}
	const n = 32
	res := make([]string, n)
	start := make(chan struct{})
	var wg sync.WaitGroup
	for g := 0; g < n; g++ {
		wg.Add(1)
		go func(g int) {
			defer wg.Done()
			<-start
			res[g] = one(g)
		}(g)
	}
	close(start)
	wg.Wait()
	for g := 0; g < n; g++ {
		if solo := one(g); solo != res[g] {
			fmt.Println("VERDICT-MISMATCH", g, res[g], solo)
			t.Fail()
		}
	}
}
