package main

import (
	"encoding/hex"
	"bytes"
	"fmt"
	"strings"
	"time"

	"github.com/google/go-eventlog/ccel"
	"github.com/google/go-eventlog/register"
	pb "github.com/google/go-tdx-guest/proto/tdx"
	"github.com/google/go-tdx-guest/rtmr"
	"github.com/google/go-tdx-guest/validate"
	"github.com/google/go-tdx-guest/verify"
	"google.golang.org/protobuf/proto"

	"tdxharness/hx"
	"tdxharness/world"
)

func init() { drivers["C18"] = c18 }

func gateStr(f func() error) string {
	s, _ := hx.Guard(func() string {
		if err := f(); err != nil {
			return "err"
		}
		return "ok"
	})
	return s
}

func c18(r *hx.Run) {
	rng := r.Rng(18)
	ccelB, tableB := mustRead("testing/testdata/ccel/ccel_data.dat"), mustRead("testing/testdata/ccel/ccel_table.dat")
	quoteB, nonce := mustRead("testing/testdata/ccel/cos-113-tdx-quote.dat"), mustRead("testing/testdata/ccel/nonce.dat")
	src, err := safeParse(quoteB)
	if err != nil {
		panic("cos-113 quote does not parse: " + err.Error())
	}
	thorough := r.Tier == "thorough"

	ccelGenuine := ccelB
	// one case: quote q, verification options builder, validation options (the event log is `ccelB`, re-assigned by the log family)
	run := func(q *pb.QuoteV4, vo func() *verify.Options, val *validate.Options, tags ...string) {
		clone := func() *pb.QuoteV4 {
			if q == nil {
				return nil
			}
			return proto.Clone(q).(*pb.QuoteV4)
		}
		opts := rtmr.TdxDefaultOpts(nonce)
		opts.Verification, opts.Validation = vo(), val
		var gotState bool
		var gerr error
		obs, stack := hx.Guard(func() string {
			st, err := rtmr.ParseCcelWithTdQuote(ccelB, tableB, clone(), &opts)
			gotState, gerr = st != nil, err
			if err != nil {
				if st != nil {
					return "state+err"
				}
				return "err"
			}
			if st == nil {
				return "nil"
			}
			return "state"
		})
		// the gates alone, and the replay computed directly with go-eventlog on the harness's own bank
		v := gateStr(func() error { return verify.TdxQuote(clone(), vo()) })
		va := gateStr(func() error { return validate.TdxQuote(clone(), val) })
		// the replay: what go-eventlog hands back for the bank of this quote — a Go pair: a state, an error, or BOTH (the replay
		// matched but an extraction step failed, e.g. "no GRUB measurements found" for a log without GRUB events)
		rp := "err"
		if q != nil && q.TdQuoteBody != nil && len(q.TdQuoteBody.Rtmrs) <= 4 {
			bank := register.RTMRBank{}
			for i, d := range q.TdQuoteBody.Rtmrs {
				bank.RTMRs = append(bank.RTMRs, register.RTMR{Index: i, Digest: d})
			}
			rp, _ = hx.Guard(func() string {
				st, err := ccel.ReplayAndExtract(tableB, ccelB, bank, opts.ExtractOpt)
				switch {
				case st != nil && err == nil:
					return "ok"
				case st != nil:
					return "state+err"
				case err != nil:
					return "err"
				}
				return "nil"
			})
		}
		replayGivesState := rp == "ok" || rp == "state+err"
		fail := ""
		switch {
		case obs == "panic":
			fail = "crash: " + strings.SplitN(stack, "\n", 2)[0]
		case gotState && v != "ok":
			fail = "state returned although verification fails when called alone"
		case gotState && va != "ok":
			fail = "state returned although policy validation fails when called alone"
		case gotState && !replayGivesState:
			fail = "state returned although replaying the log against the quote's RTMRs yields no state"
		case (v != "ok" || va != "ok") && gerr == nil:
			fail = "a gate fails when called alone but the call returned no error"
		case !gotState && gerr == nil:
			fail = "neither a state nor an error"
		case !gotState && v == "ok" && va == "ok" && replayGivesState:
			fail = "both gates pass and the replay yields a state, but no state was returned: " + gerr.Error()
		}
		line := fmt.Sprintf("C18.parse v=%s val=%s rp=%s %s", v, va, rp, msgTokens(q))
		r.Emit(line, obs, fail, fmt.Sprint(hx.Fnv1a([]byte(line))), v == "ok" && va == "ok", append(tags, "c18:"+obs)...)
	}

	build := func(mut func(s *world.Spec)) (*world.World, func() *verify.Options) {
		s := honestSpec(rng)
		s.Quote.Header = proto.Clone(src.Header).(*pb.Header)
		s.Quote.Body = proto.Clone(src.TdQuoteBody).(*pb.TDQuoteBody)
		// the generated TCB Info must describe THIS body (so that the collateral levels can accept the quote at all)
		{
			b := s.Quote.Body
			s.Tcb.Mrsigner = hex.EncodeToString(b.MrSignerSeam)
			mask, _ := hex.DecodeString(s.Tcb.Mask)
			attrs := make([]byte, 8)
			for i := range attrs {
				attrs[i] = mask[i] & b.SeamAttributes[i]
			}
			s.Tcb.Attributes = hex.EncodeToString(attrs)
			for li := range s.Tcb.Levels {
				l := &s.Tcb.Levels[li]
				if l.Status == "UpToDate" && l.Sgx[0] <= s.Cert("leaf").Sgx.Comps[0] {
					for k := 0; k < 16; k++ {
						l.Tdx[k] = int(b.TeeTcbSvn[k])
					}
				}
			}
			s.Tcb.Identities = append(s.Tcb.Identities, world.ModIdentity{ID: fmt.Sprintf("TDX_%02x", b.TeeTcbSvn[1]),
				Levels: []world.ModLevel{{Isvsvn: int(b.TeeTcbSvn[0]), Status: "UpToDate"}}})
		}
		if mut != nil {
			mut(s)
		}
		w := world.Build(s)
		return w, func() *verify.Options {
			n := s.Now
			return &verify.Options{TrustedRoots: w.Pool(), Getter: w.Getter, GetCollateral: s.GC, CheckRevocations: s.CR,
				Now: &verify.TimeSet{PckCertChain: n[0], TcbInfo: n[1], QeIdentity: n[2], PckCrl: n[3], RootCaCrl: n[4]}}
		}
	}
	defVal := func(n []byte) *validate.Options { return rtmr.TdxDefaultOpts(n).Validation }

	// the genuine sample under the library's default options (embedded root) and re-signed under a generated PKI
	run(src, func() *verify.Options { return rtmr.TdxDefaultOpts(nonce).Verification }, defVal(nonce), "genuine-default-opts")
	w, vo := build(nil)
	run(w.Quote, vo, defVal(nonce), "resigned")
	wrongNonce := append([]byte{nonce[0] ^ 1}, nonce[1:]...)
	run(w.Quote, vo, defVal(wrongNonce), "wrong-nonce")
	run(w.Quote, vo, defVal(nil), "empty-nonce")
	// every RTMR bit (sampled in quick)
	for i := 0; i < 4; i++ {
		for bit := 0; bit < 384; bit++ {
			if !thorough && (bit*7+i)%16 != 0 {
				continue
			}
			i, bit := i, bit
			w, vo := build(func(s *world.Spec) { s.Quote.Body.Rtmrs[i][bit/8] ^= 1 << (bit % 8) })
			run(w.Quote, vo, defVal(nonce), fmt.Sprintf("rtmr%d-bit", i))
		}
	}
	// verification faults
	vfaults := map[string]func(s *world.Spec){
		"quote-signed-by-foreign-key": func(s *world.Spec) { s.Quote.SignKey = 6 },
		"qe-report-signed-by-foreign": func(s *world.Spec) { s.Quote.QeSignKey = 6 },
		"hash-binding-broken":         func(s *world.Spec) { s.Quote.ReportDataMode = "wronghash" },
		"foreign-root":                func(s *world.Spec) { s.Cert("root").Key, s.Cert("root").SignKey, s.Cert("inter").SignKey = 7, 7, 7; s.Pool = nil },
		"leaf-expired":                func(s *world.Spec) { s.Cert("leaf").NotAfter = t0.Add(-24 * 365 * time.Hour) },
		"body-changed-after-signing":  func(s *world.Spec) { s.MsgMut = append(s.MsgMut, func(q *pb.QuoteV4) { q.TdQuoteBody.MrTd[0] ^= 1 }) },
		"rtmr-changed-after-signing":  func(s *world.Spec) { s.MsgMut = append(s.MsgMut, func(q *pb.QuoteV4) { q.TdQuoteBody.Rtmrs[3][0] ^= 1 }) },
		// faults that only the requested checking level catches: the gate is verification UNDER THE GIVEN OPTIONS
		"leaf-revoked":         func(s *world.Spec) { s.PckCrl.Revoked = append(s.PckCrl.Revoked, s.Cert("leaf").Serial) },
		"intermediate-revoked": func(s *world.Spec) { s.RootCrls[0].Revoked = append(s.RootCrls[0].Revoked, s.Cert("inter").Serial) },
		"tcb-signer-revoked":   func(s *world.Spec) { s.RootCrls[0].Revoked = append(s.RootCrls[0].Revoked, s.Cert("signer").Serial) },
		"tcb-info-out-of-date": func(s *world.Spec) {
			for i := range s.Tcb.Levels {
				s.Tcb.Levels[i].Status = "OutOfDate"
			}
		},
		"tcb-info-signed-by-foreign-key": func(s *world.Spec) { s.TcbResp.SignKey = 7 },
	}
	for name, f := range vfaults {
		w, vo := build(f)
		run(w.Quote, vo, defVal(nonce), "vfault:"+name)
	}
	// the verification gate under every checking level and with each collateral endpoint unavailable: no class of verification
	// error (download failure, CRL unavailable, …) opens the gate, whatever is wrong or right with the quote
	endpoints := map[string]func(s *world.Spec){
		"all-reachable":  func(s *world.Spec) {},
		"tcbinfo-fails":  func(s *world.Spec) { s.TcbResp.Fetch = "fail" },
		"qeid-fails":     func(s *world.Spec) { s.QeResp.Fetch = "fail" },
		"pckcrl-fails":   func(s *world.Spec) { s.PckCrl.Fetch = "fail" },
		"pckcrl-garbage": func(s *world.Spec) { s.PckCrl.Fetch = "garbage" },
		"rootcrl-fails":  func(s *world.Spec) { s.RootCrls[0].Fetch = "fail" },
	}
	vfaults["none"] = func(s *world.Spec) {}
	for name, f := range vfaults {
		for ename, ef := range endpoints {
			for _, lv := range [][2]bool{{true, false}, {true, true}} {
				name, f, ef, lv := name, f, ef, lv
				w, vo := build(func(s *world.Spec) { f(s); ef(s); s.GC, s.CR = lv[0], lv[1] })
				run(w.Quote, vo, defVal(nonce), "vfault:"+name, "endpoint:"+ename, fmt.Sprintf("level:gc%dcr%d", hx.B(lv[0]), hx.B(lv[1])))
			}
		}
	}
	delete(vfaults, "none")
	// other event logs — none at all, an empty one, the genuine one cut short, with one byte changed — with a good quote and with
	// quotes each gate refuses: what is (or is not) in the log never opens a gate
	{
		half := append([]byte{}, ccelGenuine[:len(ccelGenuine)/2]...)
		flipped := append([]byte{}, ccelGenuine...)
		flipped[len(flipped)/3] ^= 0x10
		logs := map[string][]byte{"nil": nil, "empty": {}, "first-half": half, "one-byte-changed": flipped, "one-zero-byte": {0}}
		gw, gvo := build(nil)
		for lname, lb := range logs {
			ccelB = lb
			run(src, func() *verify.Options { return rtmr.TdxDefaultOpts(nonce).Verification }, defVal(nonce), "log:"+lname, "quote:genuine")
			run(gw.Quote, gvo, defVal(nonce), "log:"+lname, "quote:resigned")
			run(gw.Quote, gvo, defVal(wrongNonce), "log:"+lname, "quote:wrong-nonce")
			run(gw.Quote, gvo, nil, "log:"+lname, "quote:policy-nil")
			for _, name := range []string{"quote-signed-by-foreign-key", "qe-report-signed-by-foreign", "body-changed-after-signing", "foreign-root", "leaf-expired"} {
				fw, fvo := build(vfaults[name])
				run(fw.Quote, fvo, defVal(nonce), "log:"+lname, "vfault:"+name)
			}
		}
		ccelB = ccelGenuine
	}
	// policy faults
	w, vo = build(nil)
	pol := func(f func(o *validate.Options)) *validate.Options { o := defVal(nonce); f(o); return o }
	run(w.Quote, vo, pol(func(o *validate.Options) { o.HeaderOptions.MinimumQeSvn = 65535 }), "policy:min-qe-svn")
	run(w.Quote, vo, pol(func(o *validate.Options) { o.TdQuoteBodyOptions.MrTd = make([]byte, 48) }), "policy:mr-td")
	run(w.Quote, vo, pol(func(o *validate.Options) { o.TdQuoteBodyOptions.Rtmrs = [][]byte{nil, nil, nil, make([]byte, 48)} }), "policy:rtmr3")
	run(w.Quote, vo, pol(func(o *validate.Options) { o.TdQuoteBodyOptions.MrTd = w.Quote.TdQuoteBody.MrTd }), "policy:mr-td-ok")
	run(w.Quote, vo, nil, "policy:nil")
	// structurally arbitrary messages
	structuralMutants(w.Quote, rng, func(name string, q *pb.QuoteV4) {
		if strings.HasPrefix(name, "num") || (strings.HasPrefix(name, "len") && !thorough && !strings.HasPrefix(name, "len1")) {
			return
		}
		run(q, vo, defVal(nonce), "struct:"+strings.SplitN(name, ":", 2)[0])
		// GetRtmrsFromTdQuote directly
		var bank *register.RTMRBank
		var berr error
		obs, stack := hx.Guard(func() string {
			bank, berr = rtmr.GetRtmrsFromTdQuote(q)
			if berr != nil {
				return "err"
			}
			var parts []string
			for _, e := range bank.RTMRs {
				parts = append(parts, fmt.Sprintf("%d:%s", e.Index, hx.Fp(e.Digest)))
			}
			if len(parts) == 0 {
				return "ok -"
			}
			return "ok " + strings.Join(parts, ",")
		})
		fail := ""
		if obs == "panic" {
			fail = "crash in GetRtmrsFromTdQuote: " + strings.SplitN(stack, "\n", 2)[0]
		} else if berr == nil && q != nil && q.TdQuoteBody != nil {
			for i, e := range bank.RTMRs {
				if e.Index != i || string(e.Digest) != string(q.TdQuoteBody.Rtmrs[i]) {
					fail = "bank entry is not (i, RTMR i of the quote)"
				}
			}
			if len(bank.RTMRs) != len(q.TdQuoteBody.Rtmrs) || len(bank.RTMRs) > 4 {
				fail = "bank does not hold the quote's RTMRs (at most four)"
			}
		}
		line := "C18.bank " + msgTokens(q)
		r.Emit(line, obs, fail, fmt.Sprint(hx.Fnv1a([]byte(line))), q != nil, "bank:"+strings.SplitN(obs, " ", 2)[0])
	})
	// "the given policy" of the default options is the caller's nonce, per option set: several default option sets alive at once
	// (harness-only; nonce lengths 0..64 incl. a short one after a long one)
	{
		// the nonce buffers are the caller's: some are cut from larger buffers (spare capacity behind the nonce), and all of them
		// are overwritten once the option sets exist (a server reusing its receive buffer) — the options keep the nonce they were
		// made for, and making them wrote nothing into the caller's buffers
		big1, big2, big3 := hx.RandBytes(rng, 96), hx.RandBytes(rng, 96), hx.RandBytes(rng, 200)
		nonces := [][]byte{hx.RandBytes(rng, 64), hx.RandBytes(rng, 64), hx.RandBytes(rng, 20), nil, hx.RandBytes(rng, 1), hx.RandBytes(rng, 63), append([]byte{}, nonce...),
			big1[:20], big2[:64], big3[:100], append(make([]byte, 0, 64), hx.RandBytes(rng, 64)...)}
		var sets []rtmr.ParseTdxCcelOpts
		var orig, origCap [][]byte
		for _, n := range nonces {
			orig = append(orig, append([]byte{}, n...))
			origCap = append(origCap, append([]byte{}, n[:cap(n)]...))
		}
		for _, n := range nonces {
			sets = append(sets, rtmr.TdxDefaultOpts(n))
		}
		wrote := -1
		for i, n := range nonces {
			if !bytes.Equal(n[:cap(n)], origCap[i]) {
				wrote = i
			}
			for k := range n[:cap(n)] {
				n[:cap(n)][k] ^= 0xa5
			}
		}
		for i := range nonces {
			n := orig[i]
			want := make([]byte, 64)
			copy(want, n)
			obs, fail := "bound", ""
			got := sets[i].Validation.TdQuoteBodyOptions.ReportData
			if wrote == i {
				obs, fail = "wrote", fmt.Sprintf("TdxDefaultOpts wrote into the caller's nonce buffer #%d (%d bytes, capacity %d)", i, len(n), len(origCap[i]))
			} else if !bytes.Equal(got, want) {
				obs, fail = "rebound", fmt.Sprintf("default options created for nonce #%d (%d bytes) expect REPORT_DATA %x.. once later option sets exist and the caller has reused its nonce buffer, not the nonce they were made for, padded with zeros, %x..", i, len(n), got[:min(8, len(got))], want[:8])
			}
			for j := range sets {
				if j != i && sets[j].Validation == sets[i].Validation {
					obs, fail = "shared", "two default option sets share one validation policy"
				}
			}
			// and the gate really uses it: the re-signed sample carries `nonce` (64 bytes) as REPORT_DATA
			va := gateStr(func() error { return validate.TdxQuote(proto.Clone(src).(*pb.QuoteV4), sets[i].Validation) })
			wantVa := "err"
			if bytes.Equal(want, src.TdQuoteBody.ReportData) {
				wantVa = "ok"
			}
			if fail == "" && va != wantVa {
				obs, fail = "gate-"+va, fmt.Sprintf("policy of default options for nonce #%d: validation of the sample quote says %s, its REPORT_DATA vs. the nonce says %s", i, va, wantVa)
			}
			r.Emit(fmt.Sprintf("# C18.defaults i=%d len=%d", i, len(n)), obs, fail, fmt.Sprintf("defaults|%d", i), true, "defaults")
		}
	}
	// quote of an unsupported Go type (harness-only)
	for _, bad := range []any{nil, "quote", 42, &pb.Header{}, []byte{1}} {
		var st any
		var e error
		obs, _ := hx.Guard(func() string {
			opts := rtmr.TdxDefaultOpts(nonce)
			s, err := rtmr.ParseCcelWithTdQuote(ccelB, tableB, bad, &opts)
			st, e = s, err
			if err != nil {
				return "err"
			}
			return "state"
		})
		fail := ""
		if obs != "err" || e == nil {
			fail = fmt.Sprintf("unsupported quote type %T: %s", bad, obs)
		}
		_ = st
		r.Emit(fmt.Sprintf("# C18.type %T", bad), obs, fail, fmt.Sprintf("type %T", bad), false, "type")
	}
}
