package main

// C01 — accepted quotes are authentic.
//
// Worlds: (a) every single-bit mutant of the bytes in front of the certificate chain of genuine quotes
// (three synthetic ones and the repository's Intel sample), applied to the corresponding MESSAGE field;
// (b) the structured forgeries of the statement, each under all four option settings with honest collateral;
// (c) random multi-byte mutants of message fields.
// Oracle: the three links recomputed with crypto/ecdsa, crypto/sha256 on the message's own fields.
//
// This file also holds what the three verification-group drivers of this author share (cv_c01.go, cv_c02.go,
// cv_c11.go): ordered parallel emission, per-case PRNGs, the field table of the quote, world derivation.

import (
	"github.com/google/go-tdx-guest/verify"
	"github.com/google/go-tdx-guest/verify/trust"
	"bytes"
	"crypto/ecdsa"
	"crypto/elliptic"
	"crypto/sha256"
	"crypto/x509"
	"encoding/binary"
	"encoding/pem"
	"fmt"
	"math/big"
	"math/rand/v2"
	"runtime"
	"runtime/debug"
	"sort"
	"strings"
	"sync"
	"time"
	"unicode/utf8"

	"github.com/google/go-tdx-guest/abi"
	pb "github.com/google/go-tdx-guest/proto/tdx"
	"google.golang.org/protobuf/proto"

	"tdxharness/hx"
	"tdxharness/world"
)

func init() { drivers["C01"] = c01 }

// ---------------------------------------------------------------------------- shared: ordered parallel emission

// vCase is one world ready to be run, with its property oracle and its tags.
type vCase struct {
	w      *world.World
	oracle func(vr vResult) string
	tags   []string
}

type emitRec struct {
	line, obs, fail, key string
	tags                 []string
}

// prepWorld does everything emitWorld (cverify.go) does except the final r.Emit — same call of the real code,
// same case line, same oracle handling, same key and tags — so that many worlds can be evaluated on all CPUs
// while the records are still emitted in case-index order (a replay finds case #i again).
func prepWorld(w *world.World, oracle func(vr vResult) string, tags ...string) emitRec {
	clock := time.Now()
	vr := runVerify(w)
	line := w.Facts(verifyFx, msgTokens(w.Quote), clock)
	fail := ""
	if vr.panicked {
		fail = "crash in verify.TdxQuote"
	} else if oracle != nil {
		fail = oracle(vr)
	}
	if fail == "" {
		fail = vr.side
	}
	cls := "-"
	if vr.err != nil {
		cls = strings.ReplaceAll(hx.Trunc(vr.err.Error(), 40), " ", "_")
	}
	// distinctness: emitWorld's key (fault, options, error class, hash bucket of the line) refined by the variety tags
	key := fmt.Sprintf("%s|%v|%v|%s|%d|%s", w.Spec.Fault, w.Spec.GC, w.Spec.CR, cls, hx.Fnv1a([]byte(line))%64, strings.Join(tags, ","))
	all := append(append([]string{}, tags...), "verdict:"+strings.SplitN(vr.obs, " ", 2)[0], fmt.Sprintf("opts:gc%dcr%d", hx.B(w.Spec.GC), hx.B(w.Spec.CR)))
	return emitRec{line, vr.obs, fail, key, all}
}

// runOrdered evaluates gen(0) … gen(n-1) concurrently (gen must be a pure function of its index: own sub-PRNG,
// no shared mutable state) and emits the records in index order.
func runOrdered(r *hx.Run, n int, gen func(i int) vCase) {
	if n <= 0 {
		return
	}
	// case lines are tens of kilobytes of short-lived strings: with the default pacing the collector, not the work, sets the speed
	debug.SetGCPercent(800)
	workers := runtime.GOMAXPROCS(0)
	if workers > n {
		workers = n
	}
	const window = 512
	slots := make([]chan emitRec, n)
	for i := range slots {
		slots[i] = make(chan emitRec, 1)
	}
	tokens := make(chan struct{}, window)
	var mu sync.Mutex
	next := 0
	var wg sync.WaitGroup
	for k := 0; k < workers; k++ {
		wg.Add(1)
		go func() {
			defer wg.Done()
			for {
				tokens <- struct{}{}
				mu.Lock()
				i := next
				next++
				mu.Unlock()
				if i >= n {
					<-tokens
					return
				}
				c := gen(i)
				slots[i] <- prepWorld(c.w, c.oracle, c.tags...)
			}
		}()
	}
	for i := 0; i < n; i++ {
		rec := <-slots[i]
		slots[i] = nil
		r.Emit(rec.line, rec.obs, rec.fail, rec.key, true, rec.tags...)
		<-tokens
	}
	wg.Wait()
}

// parallelDo runs f(0) … f(n-1) on all CPUs (used to build base worlds).
func parallelDo(n int, f func(i int)) {
	var wg sync.WaitGroup
	sem := make(chan struct{}, runtime.GOMAXPROCS(0))
	for i := 0; i < n; i++ {
		wg.Add(1)
		sem <- struct{}{}
		go func(i int) {
			defer wg.Done()
			f(i)
			<-sem
		}(i)
	}
	wg.Wait()
}

// caseRng: the PRNG of case `i` of generator family `family` (deterministic per case index, whatever the scheduling).
func caseRng(r *hx.Run, family, i int) *rand.Rand {
	return rand.New(rand.NewPCG(r.Seed, uint64(family)<<40|uint64(i)))
}

var optLevels = [4][2]bool{{false, false}, {true, false}, {true, true}, {false, true}}

// deriveWorld: a world that shares every built artifact with `base` (read-only) but has its own message
// (a mutated clone), its own options and its own recording getter.
func deriveWorld(base *world.World, fault string, gc, cr bool, mut func(q *pb.QuoteV4)) *world.World {
	sp := *base.Spec
	sp.GC, sp.CR, sp.Fault, sp.Honest = gc, cr, fault, false
	w := *base
	w.Spec = &sp
	w.Getter = &world.Getter{M: base.Getter.M}
	w.Quote = proto.Clone(base.Quote).(*pb.QuoteV4)
	if mut != nil {
		mut(w.Quote)
	}
	return &w
}

// counters collected by oracles running on several goroutines
type vNotes struct {
	mu sync.Mutex
	n  map[string]int
	ex map[string][]string
}

func newNotes() *vNotes { return &vNotes{n: map[string]int{}, ex: map[string][]string{}} }
func (v *vNotes) add(k, example string) {
	v.mu.Lock()
	v.n[k]++
	if example != "" && len(v.ex[k]) < 5 {
		v.ex[k] = append(v.ex[k], example)
	}
	v.mu.Unlock()
}
func (v *vNotes) flush(r *hx.Run, prefix string) {
	v.mu.Lock()
	defer v.mu.Unlock()
	for k, n := range v.n {
		r.Note(prefix+k, map[string]any{"count": n, "examples": v.ex[k]})
	}
}

// ---------------------------------------------------------------------------- shared: the quote's fields in wire order

// qField is one field of the v4 wire layout in front of the certificate chain, read and written on the MESSAGE
// as the bytes it occupies on the wire (little endian for the numeric ones).
type qField struct {
	group, name string
	num         int // 0: bytes field; 2 / 4: little-endian number of that many bytes
	ref         func(q *pb.QuoteV4) *[]byte
	getN        func(q *pb.QuoteV4) uint32
	setN        func(q *pb.QuoteV4, v uint32)
}

func (f *qField) get(q *pb.QuoteV4) []byte {
	if f.num == 0 {
		return append([]byte{}, *f.ref(q)...)
	}
	b := make([]byte, 4)
	binary.LittleEndian.PutUint32(b, f.getN(q))
	return b[:f.num]
}

func (f *qField) set(q *pb.QuoteV4, b []byte) {
	if f.num == 0 {
		*f.ref(q) = b
		return
	}
	var v [4]byte
	copy(v[:], b)
	f.setN(q, binary.LittleEndian.Uint32(v[:]))
}

func qcd(q *pb.QuoteV4) *pb.CertificationData { return q.SignedData.CertificationData }
func qqc(q *pb.QuoteV4) *pb.QEReportCertificationData {
	return q.SignedData.CertificationData.QeReportCertificationData
}
func qrep(q *pb.QuoteV4) *pb.EnclaveReport { return qqc(q).QeReport }

var quoteFields = func() []qField {
	by := func(group, name string, ref func(q *pb.QuoteV4) *[]byte) qField {
		return qField{group: group, name: name, ref: ref}
	}
	nu := func(group, name string, n int, g func(q *pb.QuoteV4) uint32, s func(q *pb.QuoteV4, v uint32)) qField {
		return qField{group: group, name: name, num: n, getN: g, setN: s}
	}
	fs := []qField{
		nu("hdr", "version", 2, func(q *pb.QuoteV4) uint32 { return q.Header.Version }, func(q *pb.QuoteV4, v uint32) { q.Header.Version = v }),
		nu("hdr", "akt", 2, func(q *pb.QuoteV4) uint32 { return q.Header.AttestationKeyType }, func(q *pb.QuoteV4, v uint32) { q.Header.AttestationKeyType = v }),
		nu("hdr", "tee", 4, func(q *pb.QuoteV4) uint32 { return q.Header.TeeType }, func(q *pb.QuoteV4, v uint32) { q.Header.TeeType = v }),
		by("hdr", "pcesvn", func(q *pb.QuoteV4) *[]byte { return &q.Header.PceSvn }),
		by("hdr", "qesvn", func(q *pb.QuoteV4) *[]byte { return &q.Header.QeSvn }),
		by("hdr", "vendor", func(q *pb.QuoteV4) *[]byte { return &q.Header.QeVendorId }),
		by("hdr", "user", func(q *pb.QuoteV4) *[]byte { return &q.Header.UserData }),
		by("body", "teetcbsvn", func(q *pb.QuoteV4) *[]byte { return &q.TdQuoteBody.TeeTcbSvn }),
		by("body", "mrseam", func(q *pb.QuoteV4) *[]byte { return &q.TdQuoteBody.MrSeam }),
		by("body", "mrsignerseam", func(q *pb.QuoteV4) *[]byte { return &q.TdQuoteBody.MrSignerSeam }),
		by("body", "seamattr", func(q *pb.QuoteV4) *[]byte { return &q.TdQuoteBody.SeamAttributes }),
		by("body", "tdattr", func(q *pb.QuoteV4) *[]byte { return &q.TdQuoteBody.TdAttributes }),
		by("body", "xfam", func(q *pb.QuoteV4) *[]byte { return &q.TdQuoteBody.Xfam }),
		by("body", "mrtd", func(q *pb.QuoteV4) *[]byte { return &q.TdQuoteBody.MrTd }),
		by("body", "mrconfigid", func(q *pb.QuoteV4) *[]byte { return &q.TdQuoteBody.MrConfigId }),
		by("body", "mrowner", func(q *pb.QuoteV4) *[]byte { return &q.TdQuoteBody.MrOwner }),
		by("body", "mrownerconfig", func(q *pb.QuoteV4) *[]byte { return &q.TdQuoteBody.MrOwnerConfig }),
	}
	for i := 0; i < 4; i++ {
		i := i
		fs = append(fs, by("body", fmt.Sprintf("rtmr%d", i), func(q *pb.QuoteV4) *[]byte { return &q.TdQuoteBody.Rtmrs[i] }))
	}
	fs = append(fs,
		by("body", "reportdata", func(q *pb.QuoteV4) *[]byte { return &q.TdQuoteBody.ReportData }),
		nu("size", "sds", 4, func(q *pb.QuoteV4) uint32 { return q.SignedDataSize }, func(q *pb.QuoteV4, v uint32) { q.SignedDataSize = v }),
		by("sig", "signature", func(q *pb.QuoteV4) *[]byte { return &q.SignedData.Signature }),
		by("key", "attkey", func(q *pb.QuoteV4) *[]byte { return &q.SignedData.EcdsaAttestationKey }),
		nu("size", "cdtype", 2, func(q *pb.QuoteV4) uint32 { return qcd(q).CertificateDataType }, func(q *pb.QuoteV4, v uint32) { qcd(q).CertificateDataType = v }),
		nu("size", "cdsize", 4, func(q *pb.QuoteV4) uint32 { return qcd(q).Size }, func(q *pb.QuoteV4, v uint32) { qcd(q).Size = v }),
		by("qe", "cpusvn", func(q *pb.QuoteV4) *[]byte { return &qrep(q).CpuSvn }),
		nu("qe", "misc", 4, func(q *pb.QuoteV4) uint32 { return qrep(q).MiscSelect }, func(q *pb.QuoteV4, v uint32) { qrep(q).MiscSelect = v }),
		by("qe", "res1", func(q *pb.QuoteV4) *[]byte { return &qrep(q).Reserved1 }),
		by("qe", "attr", func(q *pb.QuoteV4) *[]byte { return &qrep(q).Attributes }),
		by("qe", "mrenclave", func(q *pb.QuoteV4) *[]byte { return &qrep(q).MrEnclave }),
		by("qe", "res2", func(q *pb.QuoteV4) *[]byte { return &qrep(q).Reserved2 }),
		by("qe", "mrsigner", func(q *pb.QuoteV4) *[]byte { return &qrep(q).MrSigner }),
		by("qe", "res3", func(q *pb.QuoteV4) *[]byte { return &qrep(q).Reserved3 }),
		nu("qe", "prodid", 2, func(q *pb.QuoteV4) uint32 { return qrep(q).IsvProdId }, func(q *pb.QuoteV4, v uint32) { qrep(q).IsvProdId = v }),
		nu("qe", "isvsvn", 2, func(q *pb.QuoteV4) uint32 { return qrep(q).IsvSvn }, func(q *pb.QuoteV4, v uint32) { qrep(q).IsvSvn = v }),
		by("qe", "res4", func(q *pb.QuoteV4) *[]byte { return &qrep(q).Reserved4 }),
		by("qe", "reportdata", func(q *pb.QuoteV4) *[]byte { return &qrep(q).ReportData }),
		by("qesig", "qesignature", func(q *pb.QuoteV4) *[]byte { return &qqc(q).QeReportSignature }),
		nu("size", "authsize", 2, func(q *pb.QuoteV4) uint32 { return qqc(q).QeAuthData.ParsedDataSize }, func(q *pb.QuoteV4, v uint32) { qqc(q).QeAuthData.ParsedDataSize = v }),
		by("auth", "authdata", func(q *pb.QuoteV4) *[]byte { return &qqc(q).QeAuthData.Data }),
		nu("size", "pcktype", 2, func(q *pb.QuoteV4) uint32 { return qqc(q).PckCertificateChainData.CertificateDataType }, func(q *pb.QuoteV4, v uint32) { qqc(q).PckCertificateChainData.CertificateDataType = v }),
		nu("size", "pcksize", 4, func(q *pb.QuoteV4) uint32 { return qqc(q).PckCertificateChainData.Size }, func(q *pb.QuoteV4, v uint32) { qqc(q).PckCertificateChainData.Size = v }),
	)
	return fs
}()

// quoteRaw serialises a structurally complete message: world.HeaderBytes / BodyBytes / QeReportBytes for the
// three records, own concatenation for the rest (no repository code).
func quoteRaw(q *pb.QuoteV4) []byte {
	le16 := func(b []byte, v uint32) []byte { return binary.LittleEndian.AppendUint16(b, uint16(v)) }
	qc := qqc(q)
	var b []byte
	b = append(b, world.HeaderBytes(q.Header)...)
	b = append(b, world.BodyBytes(q.TdQuoteBody)...)
	b = binary.LittleEndian.AppendUint32(b, q.SignedDataSize)
	b = append(b, q.SignedData.Signature...)
	b = append(b, q.SignedData.EcdsaAttestationKey...)
	b = le16(b, qcd(q).CertificateDataType)
	b = binary.LittleEndian.AppendUint32(b, qcd(q).Size)
	b = append(b, world.QeReportBytes(qc.QeReport)...)
	b = append(b, qc.QeReportSignature...)
	b = le16(b, qc.QeAuthData.ParsedDataSize)
	b = append(b, qc.QeAuthData.Data...)
	b = le16(b, qc.PckCertificateChainData.CertificateDataType)
	b = binary.LittleEndian.AppendUint32(b, qc.PckCertificateChainData.Size)
	b = append(b, qc.PckCertificateChainData.PckCertChain...)
	return append(b, q.ExtraBytes...)
}

// bitTarget: wire byte offset → (field, byte within the field)
type bitTarget struct {
	field *qField
	off   int
}

// fieldMap lays the field table over the message and checks it against the serialisation (harness self-check).
func fieldMap(q *pb.QuoteV4) []bitTarget {
	var m []bitTarget
	var cat []byte
	for i := range quoteFields {
		f := &quoteFields[i]
		b := f.get(q)
		for k := range b {
			m = append(m, bitTarget{f, k})
		}
		cat = append(cat, b...)
	}
	raw := quoteRaw(q)
	if len(raw) < len(cat) || !bytes.Equal(raw[:len(cat)], cat) {
		panic("harness self-check: the field table does not tile the serialised quote")
	}
	if p, ok := indepParse(raw); !ok || !proto.Equal(p, q) {
		panic("harness self-check: the serialised genuine quote does not read back as the message")
	}
	return m
}

// flipBit flips bit `bit` of wire byte `t` in the message field that carries it; the self-check confirms that the
// mutated message serialises to exactly the genuine bytes with that one bit flipped.
func flipBit(q *pb.QuoteV4, genuine []byte, pos int, t bitTarget, bit int) {
	b := t.field.get(q)
	b[t.off] ^= 1 << bit
	t.field.set(q, b)
	want := append([]byte{}, genuine...)
	want[pos] ^= 1 << bit
	if !bytes.Equal(quoteRaw(q), want) {
		panic(fmt.Sprintf("harness self-check: bit %d of byte %d (%s) did not map to one bit of the message", bit, pos, t.field.name))
	}
}

// ---------------------------------------------------------------------------- the independent oracle

type c01Links struct {
	sigByAttKey, hashBinding, qeByLeaf bool
}

func (l c01Links) all() bool { return l.sigByAttKey && l.hashBinding && l.qeByLeaf }
func (l c01Links) broken() string {
	s := ""
	if !l.sigByAttKey {
		s += "1"
	}
	if !l.hashBinding {
		s += "2"
	}
	if !l.qeByLeaf {
		s += "3"
	}
	if s == "" {
		return "none"
	}
	return s
}

func p256Verify(pub *ecdsa.PublicKey, msg, rs []byte) bool {
	if pub == nil || len(rs) != 64 {
		return false
	}
	h := sha256.Sum256(msg)
	return ecdsa.Verify(pub, h[:], new(big.Int).SetBytes(rs[:32]), new(big.Int).SetBytes(rs[32:]))
}

func sumLens(fs ...[]byte) int {
	n := 0
	for _, f := range fs {
		n += len(f)
	}
	return n
}

// linksOf recomputes the three links of the statement from the message alone.
func linksOf(q *pb.QuoteV4) (l c01Links) {
	if q == nil || q.Header == nil || q.TdQuoteBody == nil || q.SignedData == nil {
		return
	}
	qc := q.SignedData.GetCertificationData().GetQeReportCertificationData()
	if qc == nil {
		return
	}
	h, t := q.Header, q.TdQuoteBody
	key := q.SignedData.EcdsaAttestationKey
	// 1. header ‖ body signed by the attestation key carried in the quote
	hdrOK := h.Version < 1<<16 && h.AttestationKeyType < 1<<16 && sumLens(h.PceSvn, h.QeSvn, h.QeVendorId, h.UserData) == 40 && len(h.PceSvn) == 2 && len(h.QeSvn) == 2 && len(h.QeVendorId) == 16
	bodyOK := len(t.Rtmrs) == 4 && len(t.ReportData) == 64 && len(world.BodyBytes(t)) == 584
	if len(key) == 64 && hdrOK && bodyOK {
		x, y := new(big.Int).SetBytes(key[:32]), new(big.Int).SetBytes(key[32:])
		if elliptic.P256().IsOnCurve(x, y) {
			l.sigByAttKey = p256Verify(&ecdsa.PublicKey{Curve: elliptic.P256(), X: x, Y: y}, append(world.HeaderBytes(h), world.BodyBytes(t)...), q.SignedData.Signature)
		}
	}
	// 2. QE report data = SHA-256(attestation key ‖ QE authentication data) ‖ 32 zero bytes
	if rep := qc.QeReport; rep != nil {
		d := sha256.Sum256(append(append([]byte{}, key...), qc.GetQeAuthData().GetData()...))
		l.hashBinding = bytes.Equal(rep.ReportData, append(d[:], make([]byte, 32)...))
		// 3. QE report signed by the key of the leaf certificate of the embedded chain
		if blk, _ := pem.Decode(qc.GetPckCertificateChainData().GetPckCertChain()); blk != nil {
			if leaf, err := x509.ParseCertificate(blk.Bytes); err == nil {
				if pk, ok := leaf.PublicKey.(*ecdsa.PublicKey); ok && pk.Curve == elliptic.P256() && rep.IsvProdId < 1<<16 && rep.IsvSvn < 1<<16 {
					if rb := world.QeReportBytes(rep); len(rb) == 384 && len(rep.ReportData) == 64 {
						l.qeByLeaf = p256Verify(pk, rb, qc.QeReportSignature)
					}
				}
			}
		}
	}
	return
}

// c01Oracle: accepted ∧ one of the links false.  `expect` (what the generator meant to break; "?" = not stated) only
// feeds the generator statistics.
func c01Oracle(w *world.World, expect string, notes *vNotes) func(vResult) string {
	return func(vr vResult) string {
		l := linksOf(w.Quote)
		if expect != "?" && l.broken() != expect {
			notes.add("generator_broke_other_links_than_named", fmt.Sprintf("%s: named %s, recomputed %s", w.Spec.Fault, expect, l.broken()))
		}
		if l.all() {
			notes.add("links_intact", "")
			if vr.accepted {
				notes.add("links_intact_accepted", "")
			}
		}
		if vr.accepted && !l.all() {
			return fmt.Sprintf("accepted although link(s) %s fail on recomputation (1: header‖body signed by the attestation key; 2: QE report data = SHA-256(key‖auth)‖0^32; 3: QE report signed by the leaf certificate's key) [%s]", l.broken(), w.Spec.Fault)
		}
		return ""
	}
}

// ---------------------------------------------------------------------------- generators

// sampleWorld wraps one of the repository's genuine Intel quotes (read with the harness's own layout reader) under
// the embedded root at a time inside its chain's validity.
func sampleWorld(rel string, gc, cr bool, now *[5]time.Time) *world.World {
	q, ok := indepParse(mustRead(rel))
	if !ok {
		panic("sample quote does not follow the v4 layout: " + rel)
	}
	return world.FromQuote(q, &world.Spec{GC: gc, CR: cr, PoolNil: true, Now: now, Honest: !gc && !cr})
}

// sampleTime: the middle of the intersection of the validity windows of the sample's chain and the embedded root.
func sampleTime(rel string) time.Time {
	q, ok := indepParse(mustRead(rel))
	if !ok {
		panic("sample quote does not follow the v4 layout: " + rel)
	}
	lo, hi := world.EmbeddedRoot.NotBefore, world.EmbeddedRoot.NotAfter
	rest := qqc(q).PckCertificateChainData.PckCertChain
	for {
		var blk *pem.Block
		blk, rest = pem.Decode(rest)
		if blk == nil {
			break
		}
		c, err := x509.ParseCertificate(blk.Bytes)
		if err != nil {
			panic(err)
		}
		if c.NotBefore.After(lo) {
			lo = c.NotBefore
		}
		if c.NotAfter.Before(hi) {
			hi = c.NotAfter
		}
	}
	if !lo.Before(hi) {
		panic("sample chain has no common validity window")
	}
	return lo.Add(hi.Sub(lo) / 2)
}

const (
	sampleSPR = "testing/testdata/tdx_prod_quote_SPR_E4.dat"
	sampleCOS = "testing/testdata/ccel/cos-113-tdx-quote.dat"
)

func fiveTimes(t time.Time) *[5]time.Time { return &[5]time.Time{t, t, t, t, t} }

// c01Kinds: the structured forgeries; each returns the links it means to break ("none": a control).
type c01Kind struct {
	name   string
	expect string
	apply  func(rng *rand.Rand, s *world.Spec)
}

func xorByte(rng *rand.Rand, b []byte) {
	if len(b) > 0 {
		b[rng.IntN(len(b))] ^= byte(1 + rng.IntN(255))
	}
}

func swapHalves(b []byte) []byte { return append(append([]byte{}, b[32:]...), b[:32]...) }

func offCurve(rng *rand.Rand, k *world.Key) []byte {
	for {
		b := k.Raw64()
		b[32+rng.IntN(32)] ^= byte(1 + rng.IntN(255))
		if !elliptic.P256().IsOnCurve(new(big.Int).SetBytes(b[:32]), new(big.Int).SetBytes(b[32:])) {
			return b
		}
	}
}

var bodyByteFields, hdrByteFields, qeByteFields = func() (b, h, q []*qField) {
	for i := range quoteFields {
		f := &quoteFields[i]
		switch {
		case f.group == "body":
			b = append(b, f)
		case f.group == "hdr" && f.num == 0:
			h = append(h, f)
		case f.group == "qe" && f.name != "reportdata":
			q = append(q, f)
		}
	}
	return
}()

func mutField(rng *rand.Rand, q *pb.QuoteV4, f *qField) {
	b := f.get(q)
	xorByte(rng, b)
	f.set(q, b)
}

func c01KindList() []c01Kind {
	msg := func(s *world.Spec, f func(q *pb.QuoteV4)) { s.MsgMut = append(s.MsgMut, f) }
	ensureAuth := func(rng *rand.Rand, s *world.Spec) {
		if len(s.Quote.Auth) == 0 {
			s.Quote.Auth = hx.RandBytes(rng, 1+rng.IntN(64))
		}
	}
	return []c01Kind{
		{"control-honest", "none", func(rng *rand.Rand, s *world.Spec) { s.Honest = true }},
		{"control-sig-s-negated", "none", func(rng *rand.Rand, s *world.Spec) {
			// (r, n−s) verifies whenever (r, s) does: not a forgery, no covered bit changed — must still be accepted
			s.Honest = true
			msg(s, func(q *pb.QuoteV4) {
				sig := q.SignedData.Signature
				ns := new(big.Int).Sub(elliptic.P256().Params().N, new(big.Int).SetBytes(sig[32:]))
				out := append([]byte{}, sig[:32]...)
				q.SignedData.Signature = append(out, ns.FillBytes(make([]byte, 32))...)
			})
		}},
		{"sig-foreign-key", "1", func(rng *rand.Rand, s *world.Spec) { s.Quote.SignKey = 6 + rng.IntN(4) }},
		{"sig-by-leaf-key", "1", func(rng *rand.Rand, s *world.Spec) { s.Quote.SignKey = 3 }},
		{"sig-rs-swapped", "1", func(rng *rand.Rand, s *world.Spec) {
			msg(s, func(q *pb.QuoteV4) { q.SignedData.Signature = swapHalves(q.SignedData.Signature) })
		}},
		{"sig-zero", "1", func(rng *rand.Rand, s *world.Spec) {
			msg(s, func(q *pb.QuoteV4) { q.SignedData.Signature = make([]byte, 64) })
		}},
		{"sig-r-zero", "1", func(rng *rand.Rand, s *world.Spec) {
			msg(s, func(q *pb.QuoteV4) { copy(q.SignedData.Signature[:32], make([]byte, 32)) })
		}},
		{"sig-bitflip", "1", func(rng *rand.Rand, s *world.Spec) {
			i, b := rng.IntN(64), rng.IntN(8)
			msg(s, func(q *pb.QuoteV4) { q.SignedData.Signature[i] ^= 1 << b })
		}},
		{"sig-over-header-only", "1", func(rng *rand.Rand, s *world.Spec) {
			k := s.Keys[s.Quote.AttKey]
			msg(s, func(q *pb.QuoteV4) { q.SignedData.Signature = world.RawSig(k, world.HeaderBytes(q.Header)) })
		}},
		{"sig-over-body-only", "1", func(rng *rand.Rand, s *world.Spec) {
			k := s.Keys[s.Quote.AttKey]
			msg(s, func(q *pb.QuoteV4) { q.SignedData.Signature = world.RawSig(k, world.BodyBytes(q.TdQuoteBody)) })
		}},
		{"sig-over-digest", "1", func(rng *rand.Rand, s *world.Spec) {
			// signs SHA-256(SHA-256(message)): a verifier that hashes twice / not at all would be fooled
			k := s.Keys[s.Quote.AttKey]
			msg(s, func(q *pb.QuoteV4) {
				d := sha256.Sum256(append(world.HeaderBytes(q.Header), world.BodyBytes(q.TdQuoteBody)...))
				q.SignedData.Signature = world.RawSig(k, d[:])
			})
		}},
		{"key-foreign-rebound", "1", func(rng *rand.Rand, s *world.Spec) { s.Quote.AttKeyBytes = s.Keys[6+rng.IntN(4)].Raw64() }},
		{"key-offcurve-rebound", "1", func(rng *rand.Rand, s *world.Spec) { s.Quote.AttKeyBytes = offCurve(rng, s.Keys[5]) }},
		{"key-zero-rebound", "1", func(rng *rand.Rand, s *world.Spec) { s.Quote.AttKeyBytes = make([]byte, 64) }},
		{"key-foreign-after-signing", "12", func(rng *rand.Rand, s *world.Spec) {
			k := s.Keys[6+rng.IntN(4)].Raw64()
			msg(s, func(q *pb.QuoteV4) { q.SignedData.EcdsaAttestationKey = k })
		}},
		{"key-xy-swapped-after-signing", "12", func(rng *rand.Rand, s *world.Spec) {
			msg(s, func(q *pb.QuoteV4) { q.SignedData.EcdsaAttestationKey = swapHalves(q.SignedData.EcdsaAttestationKey) })
		}},
		{"qe-signed-by-attkey", "3", func(rng *rand.Rand, s *world.Spec) { s.Quote.QeSignKey = 5 }},
		{"qe-signed-by-foreign", "3", func(rng *rand.Rand, s *world.Spec) { s.Quote.QeSignKey = 6 + rng.IntN(4) }},
		{"qe-signed-by-intermediate", "3", func(rng *rand.Rand, s *world.Spec) { s.Quote.QeSignKey = 2 }},
		{"qe-signed-by-root", "3", func(rng *rand.Rand, s *world.Spec) { s.Quote.QeSignKey = 1 }},
		{"qe-signed-by-tcb-signer", "3", func(rng *rand.Rand, s *world.Spec) { s.Quote.QeSignKey = 4 }},
		{"rd-wronghash", "2", func(rng *rand.Rand, s *world.Spec) { s.Quote.ReportDataMode = "wronghash" }},
		{"rd-tail", "2", func(rng *rand.Rand, s *world.Spec) { s.Quote.ReportDataMode = "tail" }},
		{"rd-keyonly", "2", func(rng *rand.Rand, s *world.Spec) { ensureAuth(rng, s); s.Quote.ReportDataMode = "keyonly" }},
		{"rd-authkey", "2", func(rng *rand.Rand, s *world.Spec) { ensureAuth(rng, s); s.Quote.ReportDataMode = "authkey" }},
		{"auth-byte-changed-after-signing", "2", func(rng *rand.Rand, s *world.Spec) {
			ensureAuth(rng, s)
			msg(s, func(q *pb.QuoteV4) { xorByte(rng, qqc(q).QeAuthData.Data) })
		}},
		{"auth-extended-after-signing", "2", func(rng *rand.Rand, s *world.Spec) {
			extra := hx.RandBytes(rng, 1+rng.IntN(8))
			if rng.IntN(2) == 0 {
				extra = []byte{0}
			}
			msg(s, func(q *pb.QuoteV4) {
				a := qqc(q).QeAuthData
				a.Data = append(append([]byte{}, a.Data...), extra...)
				a.ParsedDataSize = uint32(len(a.Data))
			})
		}},
		{"auth-truncated-after-signing", "2", func(rng *rand.Rand, s *world.Spec) {
			ensureAuth(rng, s)
			msg(s, func(q *pb.QuoteV4) {
				a := qqc(q).QeAuthData
				a.Data = a.Data[:rng.IntN(len(a.Data))]
				a.ParsedDataSize = uint32(len(a.Data))
			})
		}},
		{"hdr-field-changed-after-signing", "1", func(rng *rand.Rand, s *world.Spec) {
			f := hdrByteFields[rng.IntN(len(hdrByteFields))]
			msg(s, func(q *pb.QuoteV4) { mutField(rng, q, f) })
		}},
		{"body-field-changed-after-signing", "1", func(rng *rand.Rand, s *world.Spec) {
			f := bodyByteFields[rng.IntN(len(bodyByteFields))]
			msg(s, func(q *pb.QuoteV4) { mutField(rng, q, f) })
		}},
		{"body-fields-swapped-after-signing", "1", func(rng *rand.Rand, s *world.Spec) {
			msg(s, func(q *pb.QuoteV4) { t := q.TdQuoteBody; t.MrOwner, t.MrOwnerConfig = t.MrOwnerConfig, t.MrOwner })
		}},
		// REPORT_DATA of another length than 64: a serialiser that copies into a fixed 64-byte slot pads / cuts it, so the
		// signature over the genuine 584-byte body still verifies — the message is nevertheless not the signed body (F15)
		{"body-reportdata-trailing-zeros-dropped", "1", func(rng *rand.Rand, s *world.Spec) {
			k := 1 + rng.IntN(64)
			copy(s.Quote.Body.ReportData[64-k:], make([]byte, k))
			msg(s, func(q *pb.QuoteV4) { q.TdQuoteBody.ReportData = q.TdQuoteBody.ReportData[:64-k] })
		}},
		{"body-reportdata-truncated", "1", func(rng *rand.Rand, s *world.Spec) {
			k := rng.IntN(64)
			msg(s, func(q *pb.QuoteV4) { q.TdQuoteBody.ReportData = q.TdQuoteBody.ReportData[:k] })
		}},
		{"body-reportdata-extended", "1", func(rng *rand.Rand, s *world.Spec) {
			extra := hx.RandBytes(rng, 1+rng.IntN(64))
			if rng.IntN(2) == 0 {
				extra = make([]byte, 1+rng.IntN(8))
			}
			msg(s, func(q *pb.QuoteV4) {
				q.TdQuoteBody.ReportData = append(append([]byte{}, q.TdQuoteBody.ReportData...), extra...)
			})
		}},
		{"qe-field-changed-after-signing", "3", func(rng *rand.Rand, s *world.Spec) {
			f := qeByteFields[rng.IntN(len(qeByteFields))]
			msg(s, func(q *pb.QuoteV4) {
				if f.num != 0 {
					f.setN(q, f.getN(q)^(1<<rng.IntN(8*f.num)))
				} else {
					mutField(rng, q, f)
				}
			})
		}},
		// numbers the wire stores in 16 bits but the message carries in 32: high bits that a truncating serialiser drops, so
		// the signature over the genuine bytes still verifies — the message is nevertheless not what was signed
		{"qe-isvsvn-high-bits", "3", func(rng *rand.Rand, s *world.Spec) {
			k := uint32(1 + rng.IntN(65535))
			msg(s, func(q *pb.QuoteV4) { qrep(q).IsvSvn += k << 16 })
		}},
		{"qe-isvprodid-high-bits", "3", func(rng *rand.Rand, s *world.Spec) {
			k := uint32(1 + rng.IntN(65535))
			msg(s, func(q *pb.QuoteV4) { qrep(q).IsvProdId += k << 16 })
		}},
		{"hdr-version-high-bits", "1", func(rng *rand.Rand, s *world.Spec) {
			k := uint32(1 + rng.IntN(65535))
			msg(s, func(q *pb.QuoteV4) { q.Header.Version += k << 16 })
		}},
		{"hdr-keytype-high-bits", "1", func(rng *rand.Rand, s *world.Spec) {
			k := uint32(1 + rng.IntN(65535))
			msg(s, func(q *pb.QuoteV4) { q.Header.AttestationKeyType += k << 16 })
		}},
		{"qe-reportdata-changed-after-signing", "23", func(rng *rand.Rand, s *world.Spec) {
			msg(s, func(q *pb.QuoteV4) { xorByte(rng, qrep(q).ReportData) })
		}},
		{"qesig-bitflip", "3", func(rng *rand.Rand, s *world.Spec) {
			i, b := rng.IntN(64), rng.IntN(8)
			msg(s, func(q *pb.QuoteV4) { qqc(q).QeReportSignature[i] ^= 1 << b })
		}},
		{"qesig-zero", "3", func(rng *rand.Rand, s *world.Spec) {
			msg(s, func(q *pb.QuoteV4) { qqc(q).QeReportSignature = make([]byte, 64) })
		}},
		{"qesig-rs-swapped", "3", func(rng *rand.Rand, s *world.Spec) {
			msg(s, func(q *pb.QuoteV4) { qqc(q).QeReportSignature = swapHalves(qqc(q).QeReportSignature) })
		}},
		{"qesig-is-quote-signature", "3", func(rng *rand.Rand, s *world.Spec) {
			msg(s, func(q *pb.QuoteV4) { qqc(q).QeReportSignature = append([]byte{}, q.SignedData.Signature...) })
		}},
	}
}

func c01(r *hx.Run) {
	thorough := r.Tier == "thorough"
	notes := newNotes()

	// ---- (a) single-bit mutants of genuine quotes
	type base struct {
		w       *world.World
		name    string
		genuine []byte
		m       []bitTarget
		levels  [][2]bool
	}
	var bases []*base
	authLens := []int{32, -1, 0}
	for k := 0; k < 3; k++ {
		rng := caseRng(r, 1, k)
		s := honestSpec(rng)
		if authLens[k] >= 0 {
			s.Quote.Auth = hx.RandBytes(rng, authLens[k])
		} else {
			s.Quote.Auth = hx.RandBytes(rng, 1+rng.IntN(63))
		}
		if k == 1 {
			s.ChainTrailer = []byte{0}
		}
		w := world.Build(s)
		bases = append(bases, &base{w: w, name: fmt.Sprintf("synth%d", k), levels: optLevels[:3][:]})
	}
	sprNow := fiveTimes(sampleTime(sampleSPR))
	bases = append(bases, &base{w: sampleWorld(sampleSPR, false, false, sprNow), name: "intel-spr", levels: [][2]bool{{false, false}}})
	type bitCase struct {
		b        *base
		pos, bit int
	}
	var bitCases []bitCase
	for k, b := range bases {
		b.genuine = quoteRaw(b.w.Quote)
		b.m = fieldMap(b.w.Quote)
		// the genuine quote itself, at every level it is claimed for
		for pos, t := range b.m {
			for bit := 0; bit < 8; bit++ {
				sizeOrType := t.field.group == "size" || t.field.name == "version" || t.field.name == "akt" || t.field.name == "tee"
				if thorough || sizeOrType || bit == (pos+3*k)%8 {
					bitCases = append(bitCases, bitCase{b, pos, bit})
				}
			}
		}
	}
	r.Note("bit_mutant_bases", func() any {
		out := map[string]any{}
		for _, b := range bases {
			out[b.name] = map[string]int{"bytes_in_front_of_chain": len(b.m), "auth_len": len(qqc(b.w.Quote).QeAuthData.Data), "raw_len": len(b.genuine)}
		}
		return out
	}())
	// genuine quotes first: they must be accepted (non-vacuity of "a genuine quote")
	var genuineCases []vCase
	for _, b := range bases {
		for _, o := range b.levels {
			w := deriveWorld(b.w, "", o[0], o[1], nil)
			w.Spec.Honest = true
			genuineCases = append(genuineCases, vCase{w, func(vr vResult) string {
				if f := c01Oracle(w, "none", notes)(vr); f != "" {
					return f
				}
				if !vr.accepted {
					notes.add("genuine_base_quote_rejected", b.name+": "+vr.err.Error())
				}
				return ""
			}, []string{"genuine", "base:" + b.name}})
		}
	}
	runOrdered(r, len(genuineCases), func(i int) vCase { return genuineCases[i] })
	runOrdered(r, len(bitCases), func(i int) vCase {
		c := bitCases[i]
		t := c.b.m[c.pos]
		o := c.b.levels[(c.pos+c.bit)%len(c.b.levels)]
		fault := "bit:" + t.field.group + "." + t.field.name
		w := deriveWorld(c.b.w, fault, o[0], o[1], func(q *pb.QuoteV4) { flipBit(q, c.b.genuine, c.pos, t, c.bit) })
		expect := map[string]string{"hdr": "1", "body": "1", "sig": "1", "key": "12", "qesig": "3", "auth": "2", "size": "none"}[t.field.group]
		if t.field.group == "qe" {
			expect = "3"
			if t.field.name == "reportdata" {
				expect = "23"
			}
		}
		inner := c01Oracle(w, expect, notes)
		// the same mutant as a byte string through the raw entry point: "no bit … can change" is a statement about the bytes
		// the guest produced, whichever entry point receives them
		raw := append([]byte{}, c.b.genuine...)
		raw[c.pos] ^= 1 << c.bit
		return vCase{w, func(vr vResult) string {
			if f := inner(vr); f != "" {
				return f
			}
			if expect == "none" {
				return ""
			}
			ro := &verify.Options{GetCollateral: w.Spec.GC, CheckRevocations: w.Spec.CR, Getter: &world.Getter{M: w.Getter.M}, TrustedRoots: w.Pool()}
			if n := w.Spec.Now; n != nil {
				ro.Now = &verify.TimeSet{PckCertChain: n[0], TcbInfo: n[1], QeIdentity: n[2], PckCrl: n[3], RootCaCrl: n[4]}
			}
			var rerr error
			res, _ := hx.Guard(func() string { rerr = verify.RawTdxQuote(raw, ro); return "" })
			if res == "panic" {
				return "crash in verify.RawTdxQuote on a single-bit mutant"
			}
			if rerr == nil {
				return fmt.Sprintf("verify.RawTdxQuote accepted the genuine quote with bit %d of byte 0x%x (%s) flipped: that bit is covered by link %s [%s]", c.bit, c.pos, fault, expect, w.Spec.Fault)
			}
			// and as the message the library's own parser produces from the genuine bytes, in which the caller then REPLACES the
			// field (a new slice, the way application code edits a message): the verdict is about the content of the message, not
			// about where its fields live in memory
			pm, perr := abi.QuoteToProto(c.b.genuine)
			pq, isV4 := pm.(*pb.QuoteV4)
			if perr != nil || !isV4 {
				return ""
			}
			nb := t.field.get(pq)
			nb[t.off] ^= 1 << c.bit
			t.field.set(pq, nb)
			ro.Getter = &world.Getter{M: w.Getter.M}
			res, _ = hx.Guard(func() string { rerr = verify.TdxQuote(pq, ro); return "" })
			if res == "panic" {
				return "crash in verify.TdxQuote on a parsed message with one field replaced"
			}
			if rerr == nil {
				return fmt.Sprintf("verify.TdxQuote accepted the message parsed from the genuine quote after its field %s was replaced by a copy with bit %d of byte %d flipped: that bit is covered by link %s [%s]", fault, c.bit, t.off, expect, w.Spec.Fault)
			}
			return ""
		}, []string{"bit-mutant", fault, "base:" + c.b.name}}
	})

	// ---- (b) structured forgeries, each under the four option settings with honest collateral
	kinds := c01KindList()
	reps := 2
	if thorough {
		reps = 25
	}
	nb := len(kinds) * 4 * reps
	runOrdered(r, nb, func(i int) vCase {
		k := kinds[i%len(kinds)]
		o := optLevels[(i/len(kinds))%4]
		rng := caseRng(r, 2, i)
		s := honestSpec(rng)
		s.Honest = false
		k.apply(rng, s)
		s.Fault = k.name
		s.GC, s.CR = o[0], o[1]
		if o[1] && !o[0] {
			s.Honest = false
		}
		w := world.Build(s)
		inner := c01Oracle(w, k.expect, notes)
		return vCase{w, func(vr vResult) string {
			if f := inner(vr); f != "" {
				return f
			}
			if w.Spec.Honest && !vr.accepted {
				notes.add("control_rejected", k.name+": "+vr.err.Error())
			}
			return ""
		}, []string{"forgery", "kind:" + k.name, "breaks:" + k.expect}}
	})

	// ---- (b') a genuine quote and tampered copies of it (same signatures) verified at the same time, own options each
	{
		rng := caseRng(r, 8, 0)
		base := world.Build(honestSpec(rng))
		base.Spec.Fault = "genuine"
		ws := []*world.World{base,
			deriveWorld(base, "body-field-changed-after-signing", false, false, func(q *pb.QuoteV4) { q.TdQuoteBody.MrTd[3] ^= 0x10 }),
			deriveWorld(base, "rtmr-changed-after-signing", false, false, func(q *pb.QuoteV4) { q.TdQuoteBody.Rtmrs[2][7] ^= 1 }),
			deriveWorld(base, "header-field-changed-after-signing", false, false, func(q *pb.QuoteV4) { q.Header.UserData[0] ^= 0x80 }),
			deriveWorld(base, "reportdata-changed-after-signing", false, false, func(q *pb.QuoteV4) { q.TdQuoteBody.ReportData[63] ^= 1 }),
			deriveWorld(base, "genuine-again", false, false, nil)}
		cvConcurrent(r, "C01", ws, map[bool]time.Duration{true: 8 * time.Second, false: 2 * time.Second}[thorough])
		// one options value across entry points and quotes: whatever a call on the genuine quote (bytes or message) leaves in
		// the options must not authenticate the next, tampered one (harness-only)
		raw := quoteRaw(base.Quote)
		for si, seq := range [][2]string{{"raw", "msg"}, {"msg", "raw"}, {"raw", "raw"}, {"msg", "msg"}} {
			for ti, tampered := range ws[1:5] {
				o := &verify.Options{Getter: &world.Getter{M: base.Getter.M}, TrustedRoots: base.Pool()}
				if n := base.Spec.Now; n != nil {
					o.Now = vTimeSet(n)
				}
				call := func(kind string, w *world.World) string {
					var err error
					res, _ := hx.Guard(func() string {
						if kind == "raw" {
							err = verify.RawTdxQuote(quoteRaw(w.Quote), o)
						} else {
							err = verify.TdxQuote(proto.Clone(w.Quote).(*pb.QuoteV4), o)
						}
						return ""
					})
					if res == "panic" {
						return "panic"
					}
					if err != nil {
						return "err"
					}
					return "ok"
				}
				_ = raw
				first, second := call(seq[0], base), call(seq[1], tampered)
				obs, fail := first+","+second, ""
				if first != "ok" {
					fail = "generator: the genuine quote was not accepted: " + first
				} else if second != "err" {
					fail = fmt.Sprintf("after the genuine quote was verified through the %s entry point, a copy with %s was put to the %s entry point through the SAME options value: %s", seq[0], tampered.Spec.Fault, seq[1], second)
				}
				r.Emit(fmt.Sprintf("# C01.sequence %s-then-%s tampered=%d", seq[0], seq[1], ti), obs, fail, fmt.Sprintf("sequence|%d|%d", si, ti), true, "sequence")
			}
		}
		// a collateral fetch that goes wrong in the worst way — the caller's getter panics (none configured inside the retrying
		// getter, a typed-nil getter, a getter that dies on its n-th request): whatever then happens to the call (the panic reaches
		// the caller, or an error comes back), a quote whose links do not hold is NOT reported as verified (harness-only)
		getters := []struct {
			name string
			mk   func() trust.HTTPSGetter
		}{
			{"retrying-getter-without-inner-getter", func() trust.HTTPSGetter { return &trust.RetryHTTPSGetter{Timeout: time.Second, MaxRetryDelay: time.Millisecond} }},
			{"typed-nil-getter", func() trust.HTTPSGetter { return (*world.Getter)(nil) }},
			{"getter-panics-on-request-1", func() trust.HTTPSGetter { return &panicGetter{inner: &world.Getter{M: base.Getter.M}, at: 1} }},
			{"getter-panics-on-request-2", func() trust.HTTPSGetter { return &panicGetter{inner: &world.Getter{M: base.Getter.M}, at: 2} }},
			{"getter-panics-on-request-3", func() trust.HTTPSGetter { return &panicGetter{inner: &world.Getter{M: base.Getter.M}, at: 3} }},
		}
		for gi, g := range getters {
			for ti, w := range ws[:5] {
				for _, cr := range []bool{false, true} {
					for _, entry := range []string{"msg", "raw"} {
						o := &verify.Options{GetCollateral: true, CheckRevocations: cr, Getter: g.mk(), TrustedRoots: base.Pool()}
						if n := base.Spec.Now; n != nil {
							o.Now = vTimeSet(n)
						}
						var err error
						res, _ := hx.GuardTimeout(20*time.Second, func() string {
							if entry == "raw" {
								err = verify.RawTdxQuote(quoteRaw(w.Quote), o)
							} else {
								err = verify.TdxQuote(proto.Clone(w.Quote).(*pb.QuoteV4), o)
							}
							if err != nil {
								return "err"
							}
							return "ok"
						})
						fail := ""
						if res == "ok" && ti > 0 {
							fail = fmt.Sprintf("reported as verified although the quote has %s (link 1 does not hold) — the collateral getter was %s, collateral checking on", w.Spec.Fault, g.name)
						}
						r.Emit(fmt.Sprintf("# C01.getter-panics getter=%d quote=%d cr=%v entry=%s", gi, ti, cr, entry), map[bool]string{true: "accepted", false: "not-accepted"}[res == "ok"], fail,
							fmt.Sprintf("getter-panics|%d|%d|%v|%s", gi, ti, cr, entry), true, "getter-panics:"+g.name)
					}
				}
			}
		}
	}

	// ---- (c) random multi-byte mutants of message fields
	nBase, nRand := 16, 2000
	if thorough {
		nBase, nRand = 128, 50000
	}
	rb := make([]*world.World, nBase)
	parallelDo(nBase, func(i int) {
		rng := caseRng(r, 3, i)
		s := honestSpec(rng)
		if i%4 == 1 {
			s.Quote.Auth = hx.RandBytes(rng, 64+rng.IntN(400))
		}
		rb[i] = world.Build(s)
	})
	runOrdered(r, nRand, func(i int) vCase {
		rng := caseRng(r, 4, i)
		b := rb[i%nBase]
		o := optLevels[rng.IntN(3)]
		if rng.IntN(16) == 0 {
			o = optLevels[3]
		}
		var touched []string
		w := deriveWorld(b, "", o[0], o[1], func(q *pb.QuoteV4) {
			for n := 1 + rng.IntN(3); n > 0; n-- {
				f := &quoteFields[rng.IntN(len(quoteFields))]
				touched = append(touched, f.group)
				cur := f.get(q)
				switch {
				case f.num != 0:
					// numeric field: a random value of its width, or a small perturbation
					v := rng.Uint32() >> (32 - 8*f.num)
					if rng.IntN(2) == 0 {
						v = f.getN(q) ^ uint32(1+rng.IntN(255))<<(8*rng.IntN(f.num))
					}
					f.setN(q, v)
				case rng.IntN(12) == 0:
					// length change (structurally invalid unless it is the auth data, whose size field follows)
					if len(cur) > 0 && rng.IntN(2) == 0 {
						cur = cur[:rng.IntN(len(cur))]
					} else {
						cur = append(cur, hx.RandBytes(rng, 1+rng.IntN(4))...)
					}
					f.set(q, cur)
					if f.name == "authdata" && rng.IntN(2) == 0 {
						qqc(q).QeAuthData.ParsedDataSize = uint32(len(cur))
					}
				case len(cur) > 0:
					switch rng.IntN(4) {
					case 0: // a run of random bytes
						at := rng.IntN(len(cur))
						for j := at; j < len(cur) && j < at+1+rng.IntN(8); j++ {
							cur[j] = byte(rng.UintN(256))
						}
					case 1: // scattered byte changes
						for n := 1 + rng.IntN(8); n > 0; n-- {
							xorByte(rng, cur)
						}
					case 2: // whole field replaced
						cur = hx.RandBytes(rng, len(cur))
					default: // zeroed / all ones
						v := byte(0)
						if rng.IntN(2) == 0 {
							v = 0xff
						}
						for j := range cur {
							cur[j] = v
						}
					}
					f.set(q, cur)
				}
			}
			if rng.IntN(40) == 0 {
				c := qqc(q).PckCertificateChainData
				orig := c.PckCertChain
				c.PckCertChain = append([]byte{}, orig...)
				xorByte(rng, c.PckCertChain)
				if namesAreUTF8(c.PckCertChain) {
					touched = append(touched, "chain")
				} else {
					// the line protocol carries names as UTF-8 strings; a certificate whose (mutated) name is not UTF-8 cannot be put to the model
					c.PckCertChain = orig
					touched = append(touched, "chain(reverted:non-utf8-name)")
				}
			}
		})
		sort.Strings(touched)
		touched = uniqStrings(touched)
		w.Spec.Fault = "random:" + strings.Join(touched, "+")
		tags := []string{"random-mutant"}
		for _, g := range touched {
			tags = append(tags, "touches:"+g)
		}
		return vCase{w, c01Oracle(w, "?", notes), tags}
	})
	notes.flush(r, "c01_")
}

// namesAreUTF8: every certificate that parses out of the chain bytes has names the line protocol can carry
func namesAreUTF8(chain []byte) bool {
	rest := chain
	for i := 0; i < 4; i++ {
		var blk *pem.Block
		blk, rest = pem.Decode(rest)
		if blk == nil {
			break
		}
		c, err := x509.ParseCertificate(blk.Bytes)
		if err != nil {
			continue
		}
		strs := append([]string{c.Subject.CommonName, c.Issuer.CommonName, c.Subject.String(), c.Issuer.String()}, c.CRLDistributionPoints...)
		for _, s := range strs {
			if !utf8.ValidString(s) {
				return false
			}
		}
	}
	return true
}

func uniqStrings(s []string) []string {
	var out []string
	for i, x := range s {
		if i == 0 || x != s[i-1] {
			out = append(out, x)
		}
	}
	return out
}


// panicGetter answers like its inner getter until request number `at`, which panics.
type panicGetter struct {
	inner trust.HTTPSGetter
	n, at int
}

func (g *panicGetter) Get(url string) (map[string][]string, []byte, error) {
	g.n++
	if g.n == g.at {
		panic("c01: the getter dies on this request")
	}
	return g.inner.Get(url)
}
