package main

import (
	"encoding/binary"
	"math/rand/v2"

	pb "github.com/google/go-tdx-guest/proto/tdx"

	"tdxharness/hx"
)

// Independent description of the Intel TDX quote v4 wire layout (written from the Intel format:
// ordered (name, size) tables, cursor based) — deliberately NOT derived from abi.go's offset table.

type fld struct {
	name string
	size int
}

var hdrLayout = []fld{{"version", 2}, {"akt", 2}, {"tee", 4}, {"pcesvn", 2}, {"qesvn", 2}, {"vendor", 16}, {"user", 20}}
var bodyLayout = []fld{{"teetcbsvn", 16}, {"mrseam", 48}, {"mrsignerseam", 48}, {"seamattr", 8}, {"tdattr", 8}, {"xfam", 8}, {"mrtd", 48},
	{"mrconfigid", 48}, {"mrowner", 48}, {"mrownerconfig", 48}, {"rtmr0", 48}, {"rtmr1", 48}, {"rtmr2", 48}, {"rtmr3", 48}, {"reportdata", 64}}
var qeLayout = []fld{{"cpusvn", 16}, {"misc", 4}, {"res1", 28}, {"attr", 16}, {"mrenclave", 32}, {"res2", 32}, {"mrsigner", 32}, {"res3", 96},
	{"prodid", 2}, {"isvsvn", 2}, {"res4", 60}, {"reportdata", 64}}

func layoutSize(l []fld) int {
	n := 0
	for _, f := range l {
		n += f.size
	}
	return n
}

type cursor struct {
	b   []byte
	pos int
	ok  bool
}

func (c *cursor) take(n int) []byte {
	if !c.ok || n < 0 || c.pos+n > len(c.b) {
		c.ok = false
		return nil
	}
	out := c.b[c.pos : c.pos+n]
	c.pos += n
	return out
}

func (c *cursor) rec(l []fld) map[string][]byte {
	m := map[string][]byte{}
	for _, f := range l {
		m[f.name] = c.take(f.size)
	}
	return m
}

// indepParse decides whether raw follows the v4 layout and, if so, returns the message a correct
// parser must produce.
func indepParse(raw []byte) (*pb.QuoteV4, bool) {
	if len(raw) < 0x3FC {
		return nil, false
	}
	c := &cursor{b: raw, ok: true}
	h := c.rec(hdrLayout)
	t := c.rec(bodyLayout)
	szb := c.take(4)
	if !c.ok {
		return nil, false
	}
	le16 := binary.LittleEndian.Uint16
	le32 := binary.LittleEndian.Uint32
	if le16(h["version"]) != 4 || le16(h["akt"]) != 2 || le32(h["tee"]) != 0x81 {
		return nil, false
	}
	n := int(le32(szb))
	sd := c.take(n)
	if !c.ok {
		return nil, false
	}
	extra := raw[c.pos:]
	s := &cursor{b: sd, ok: true}
	sig := s.take(64)
	key := s.take(64)
	ctype := s.take(2)
	csize := s.take(4)
	if !s.ok || le16(ctype) != 6 || int(le32(csize)) != len(sd)-s.pos {
		return nil, false
	}
	qr := s.rec(qeLayout)
	qsig := s.take(64)
	asz := s.take(2)
	if !s.ok {
		return nil, false
	}
	auth := s.take(int(le16(asz)))
	ptype := s.take(2)
	psize := s.take(4)
	if !s.ok || le16(ptype) != 5 || int(le32(psize)) != len(sd)-s.pos {
		return nil, false
	}
	chain := sd[s.pos:]
	q := &pb.QuoteV4{
		Header: &pb.Header{Version: uint32(le16(h["version"])), AttestationKeyType: uint32(le16(h["akt"])), TeeType: le32(h["tee"]), PceSvn: h["pcesvn"], QeSvn: h["qesvn"], QeVendorId: h["vendor"], UserData: h["user"]},
		TdQuoteBody: &pb.TDQuoteBody{TeeTcbSvn: t["teetcbsvn"], MrSeam: t["mrseam"], MrSignerSeam: t["mrsignerseam"], SeamAttributes: t["seamattr"], TdAttributes: t["tdattr"], Xfam: t["xfam"], MrTd: t["mrtd"],
			MrConfigId: t["mrconfigid"], MrOwner: t["mrowner"], MrOwnerConfig: t["mrownerconfig"], Rtmrs: [][]byte{t["rtmr0"], t["rtmr1"], t["rtmr2"], t["rtmr3"]}, ReportData: t["reportdata"]},
		SignedDataSize: uint32(n),
		SignedData: &pb.Ecdsa256BitQuoteV4AuthData{Signature: sig, EcdsaAttestationKey: key, CertificationData: &pb.CertificationData{CertificateDataType: 6, Size: le32(csize),
			QeReportCertificationData: &pb.QEReportCertificationData{
				QeReport: &pb.EnclaveReport{CpuSvn: qr["cpusvn"], MiscSelect: le32(qr["misc"]), Reserved1: qr["res1"], Attributes: qr["attr"], MrEnclave: qr["mrenclave"], Reserved2: qr["res2"], MrSigner: qr["mrsigner"],
					Reserved3: qr["res3"], IsvProdId: uint32(le16(qr["prodid"])), IsvSvn: uint32(le16(qr["isvsvn"])), Reserved4: qr["res4"], ReportData: qr["reportdata"]},
				QeReportSignature:       qsig,
				QeAuthData:              &pb.QeAuthData{ParsedDataSize: uint32(le16(asz)), Data: auth},
				PckCertificateChainData: &pb.PCKCertificateChainData{CertificateDataType: 5, Size: le32(psize), PckCertChain: chain}}}},
	}
	if len(extra) > 0 {
		q.ExtraBytes = extra
	}
	return q, true
}

// synthQuote builds raw quote bytes by sequential appends from the layout tables; every field gets
// distinct content (field index in the high nibble) so a swapped pair of equal-sized fields shows.
type synthOpts struct {
	authLen, chainLen, extraLen int
}

func fillRec(rng *rand.Rand, l []fld, tag byte) []byte {
	var out []byte
	for i, f := range l {
		b := hx.RandBytes(rng, f.size)
		if f.size > 0 {
			b[0] = tag<<4 | byte(i&0xf)
		}
		out = append(out, b...)
	}
	return out
}

func synthQuote(rng *rand.Rand, o synthOpts) []byte {
	hdr := fillRec(rng, hdrLayout, 1)
	binary.LittleEndian.PutUint16(hdr[0:], 4)
	binary.LittleEndian.PutUint16(hdr[2:], 2)
	binary.LittleEndian.PutUint32(hdr[4:], 0x81)
	body := fillRec(rng, bodyLayout, 2)
	qe := fillRec(rng, qeLayout, 3)
	auth := hx.RandBytes(rng, o.authLen)
	chain := hx.RandBytes(rng, o.chainLen)
	var qc []byte
	qc = append(qc, qe...)
	qc = append(qc, hx.RandBytes(rng, 64)...)
	qc = binary.LittleEndian.AppendUint16(qc, uint16(o.authLen))
	qc = append(qc, auth...)
	qc = binary.LittleEndian.AppendUint16(qc, 5)
	qc = binary.LittleEndian.AppendUint32(qc, uint32(o.chainLen))
	qc = append(qc, chain...)
	var sd []byte
	sd = append(sd, hx.RandBytes(rng, 128)...)
	sd = binary.LittleEndian.AppendUint16(sd, 6)
	sd = binary.LittleEndian.AppendUint32(sd, uint32(len(qc)))
	sd = append(sd, qc...)
	var raw []byte
	raw = append(raw, hdr...)
	raw = append(raw, body...)
	raw = binary.LittleEndian.AppendUint32(raw, uint32(len(sd)))
	raw = append(raw, sd...)
	raw = append(raw, hx.RandBytes(rng, o.extraLen)...)
	return raw
}
