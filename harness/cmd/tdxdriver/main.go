// Command tdxdriver runs the real go-tdx-guest code on generated cases and writes, for the model
// to predict and run.py to compare: cases.txt (model input), observed.txt (canonical results of
// the real code), meta.json (distribution, oracle failures).
package main

import (
	"flag"
	"fmt"
	"io"
	"log"
	"os"

	"tdxharness/hx"
)

type driver func(r *hx.Run)

var drivers = map[string]driver{}

func main() {
	prop := flag.String("prop", "", "property id, e.g. C15")
	tier := flag.String("tier", "quick", "quick|thorough")
	seed := flag.Uint64("seed", 1, "VERIF_SEED")
	out := flag.String("out", "", "output directory")
	flag.Parse()
	log.SetOutput(io.Discard) // the repo logs through github.com/google/logger to stdout; keep ours clean
	d, ok := drivers[*prop]
	if !ok || *out == "" {
		fmt.Fprintln(os.Stderr, "unknown -prop or missing -out")
		os.Exit(2)
	}
	r, err := hx.NewRun(*prop, *tier, *seed, *out)
	if err != nil {
		fmt.Fprintln(os.Stderr, err)
		os.Exit(2)
	}
	d(r)
	if err := r.Close(); err != nil {
		fmt.Fprintln(os.Stderr, err)
		os.Exit(2)
	}
}
