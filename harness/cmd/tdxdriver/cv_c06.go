package main

// C06 — expiry, each artifact judged at its own entry of the time set.
//
// The C06 worlds give every expiring artifact its OWN certificate / document with its own validity window:
// the quote chain (root, inter, leaf), the trusted pool root (same key and name as the chain root, own serial and
// window), the TCB-Info issuer chain (signer, troot), the QE-Identity issuer chain (qsigner with its own key, qroot —
// which carries the Root CA CRL distribution point), the PCK-CRL issuer chain (psigner, proot), the two documents'
// nextUpdate and the two CRLs' nextUpdate.  One world is built per probed artifact and then verified under many
// time sets (the artifacts do not depend on Options.Now).  The oracle (c06Oracle) knows only the windows the
// generator chose (c06World.win), the time set and the option level.

import (
	"google.golang.org/protobuf/proto"
	"github.com/google/go-tdx-guest/verify"
	pb "github.com/google/go-tdx-guest/proto/tdx"
	ccpb "github.com/google/go-tdx-guest/proto/checkconfig"
	"fmt"
	"math/big"
	"math/rand/v2"
	"strings"
	"time"

	"tdxharness/hx"
	"tdxharness/world"
)

func init() { drivers["C06"] = c06 }

// an expiring artifact: the TimeSet entries ("classes": 0 PckCertChain, 1 TcbInfo, 2 QeIdentity, 3 PckCrl, 4 RootCaCrl)
// it is judged at, the option level from which on that entry matters (0 always, 1 GetCollateral, 2 GetCollateral+CheckRevocations)
type c06Art struct {
	name    string
	role    string // certificate role ("" = document / CRL)
	classes []int
	levels  []int
	path    bool // on a path that is validated up to the trusted roots: notBefore matters as well
}

var c06Arts = []c06Art{
	{"chain-root", "root", []int{0}, []int{0}, false},
	{"intermediate", "inter", []int{0}, []int{0}, true},
	{"leaf", "leaf", []int{0}, []int{0}, true},
	{"tcbinfo-signer", "signer", []int{1}, []int{1}, true},
	{"tcbinfo-hdr-root", "troot", []int{1}, []int{1}, false},
	{"qeidentity-signer", "qsigner", []int{2}, []int{1}, true},
	{"qeidentity-hdr-root", "qroot", []int{2}, []int{1}, false},
	{"pckcrl-hdr-signer", "psigner", []int{3}, []int{2}, false},
	{"pckcrl-hdr-root", "proot", []int{3}, []int{2}, false},
	{"tcbinfo-nextUpdate", "", []int{1}, []int{1}, false},
	{"qeidentity-nextUpdate", "", []int{2}, []int{1}, false},
	{"pckcrl-nextUpdate", "", []int{3}, []int{2}, false},
	{"rootcrl-nextUpdate", "", []int{4}, []int{2}, false},
	{"pool-root", "poolroot", []int{0, 1, 2}, []int{0, 1, 1}, true},
}

var c06ClassNames = []string{"PckCertChain", "TcbInfo", "QeIdentity", "PckCrl", "RootCaCrl"}

// c06SharedArts: Intel's PCS serves TCB Info and QE Identity under ONE issuer chain; its signer and root are then judged
// at both Now.TcbInfo and Now.QeIdentity (each response at its own entry).
var c06SharedArts = func() []c06Art {
	var out []c06Art
	for _, a := range c06Arts {
		switch a.name {
		case "qeidentity-signer", "qeidentity-hdr-root":
			continue
		case "tcbinfo-signer", "tcbinfo-hdr-root":
			a.name, a.classes, a.levels = strings.Replace(a.name, "tcbinfo", "shared", 1), []int{1, 2}, []int{1, 1}
		}
		out = append(out, a)
	}
	return out
}()

type c06World struct {
	arts    []c06Art
	w       *world.World
	win     map[string][2]time.Time // artifact → (notBefore, expiry) as the generator chose them
	altPath bool                    // the pool also holds a second certificate of the intermediate CA: the chain's own intermediate is off the validated path
	base    time.Time
}

// c06Windows: default windows, all far away from base and pairwise distinct.
func c06Windows(base time.Time) map[string][2]time.Time {
	win := map[string][2]time.Time{}
	for i, a := range append(append([]c06Art{}, c06Arts...), c06SharedArts...) {
		win[a.name] = [2]time.Time{base.Add(-time.Duration(50+i) * 24 * time.Hour), base.Add(time.Duration(100+7*i) * 24 * time.Hour)}
	}
	return win
}

func c06Build(rng *rand.Rand, base time.Time, win map[string][2]time.Time, altPath bool) *c06World {
	return c06BuildArts(rng, base, win, altPath, c06Arts)
}

func c06BuildArts(rng *rand.Rand, base time.Time, win map[string][2]time.Time, altPath bool, arts []c06Art) *c06World {
	shared := len(arts) != len(c06Arts)
	s := honestSpec(rng)
	root, inter, signer := s.Cert("root"), s.Cert("inter"), s.Cert("signer")
	dps := root.CRLDPs
	root.CRLDPs = nil
	clone := func(like *world.CertSpec, role string, serial int64) *world.CertSpec {
		c := *like
		c.Role, c.Serial = role, big.NewInt(serial)
		s.Certs = append(s.Certs, &c)
		return &c
	}
	clone(root, "poolroot", 2001)
	clone(root, "troot", 2002)
	clone(root, "qroot", 2003).CRLDPs = dps
	clone(root, "proot", 2004)
	clone(inter, "psigner", 2005)
	clone(signer, "qsigner", 2006).Key = 6
	s.Pool = []string{"poolroot"}
	if altPath {
		c := clone(inter, "inter2", 2007)
		c.NotBefore, c.NotAfter = base.Add(-300*24*time.Hour), base.Add(3000*24*time.Hour)
		s.Pool = append(s.Pool, "inter2")
	}
	for _, a := range arts {
		if a.role != "" {
			c := s.Cert(a.role)
			c.NotBefore, c.NotAfter = win[a.name][0], win[a.name][1]
		}
	}
	s.TcbResp.HdrRoles = []string{"signer", "troot"}
	if shared {
		s.QeResp.HdrRoles = []string{"signer", "troot"}
		s.Cert("troot").CRLDPs = dps
	} else {
		s.QeResp.HdrRoles = []string{"qsigner", "qroot"}
		s.QeResp.SignKey = 6
	}
	s.PckCrlHdrRoles = []string{"psigner", "proot"}
	issued := base.Add(-400 * 24 * time.Hour)
	s.Tcb.IssueDate, s.Tcb.NextUpdate = issued, win["tcbinfo-nextUpdate"][1]
	s.Qe.IssueDate, s.Qe.NextUpdate = issued, win["qeidentity-nextUpdate"][1]
	s.PckCrl.ThisUpdate, s.PckCrl.NextUpdate = issued, win["pckcrl-nextUpdate"][1]
	s.RootCrls[0].ThisUpdate, s.RootCrls[0].NextUpdate = issued, win["rootcrl-nextUpdate"][1]
	s.GC, s.CR = true, true
	return &c06World{arts, world.Build(s), win, altPath, base}
}

// c06Inside: a time set far inside every default window, entries pairwise distinct.
func c06Inside(rng *rand.Rand, base time.Time) [5]time.Time {
	var t [5]time.Time
	for i := range t {
		t[i] = base.Add(time.Duration(i+1)*time.Hour + time.Duration(rng.IntN(3000))*time.Second + time.Duration(rng.IntN(1000))*time.Millisecond)
	}
	return t
}

func c06Checked(level int, gc, cr bool) bool {
	return level == 0 || (level == 1 && gc) || (level == 2 && gc && cr)
}

// c06Oracle: accepted although an artifact that is checked at this option level is past its expiry — or, for a role on a
// validated path, outside its window — at ITS OWN time-set entry.  inDate reports that no checked artifact is out of date.
func c06Oracle(cw *c06World, T [5]time.Time, gc, cr, accepted bool) (fail string, inDate bool) {
	inDate = true
	for _, a := range cw.arts {
		w := cw.win[a.name]
		for k, c := range a.classes {
			if !c06Checked(a.levels[k], gc, cr) {
				continue
			}
			// with a second certificate of the intermediate CA in the pool the PCK path leaf → that certificate is valid on its own:
			// the chain's intermediate then only has to be unexpired, and the pool root is not needed at Now.PckCertChain
			if cw.altPath && c == 0 && a.name == "pool-root" {
				continue
			}
			onPath := a.path && !(cw.altPath && a.name == "intermediate")
			if T[c].After(w[1]) {
				inDate = false
				if accepted && fail == "" {
					fail = fmt.Sprintf("accepted although %s is past its expiry at Now.%s (%s > %s)", a.name, c06ClassNames[c], T[c].UTC().Format(time.RFC3339Nano), w[1].UTC().Format(time.RFC3339))
				}
			} else if onPath && T[c].Before(w[0]) {
				inDate = false
				if accepted && fail == "" {
					fail = fmt.Sprintf("accepted although %s (on a validated path) is not yet valid at Now.%s (%s < %s)", a.name, c06ClassNames[c], T[c].UTC().Format(time.RFC3339Nano), w[0].UTC().Format(time.RFC3339))
				}
			}
		}
	}
	return fail, inDate
}

// c06Run: one verification of the world at time set T (nil = Options.Now nil) and option level (gc, cr).
// expired-at-T is returned for the monotonicity pairs.
func c06Run(r *hx.Run, cw *c06World, T *[5]time.Time, gc, cr bool, prev *c06Prev, tags ...string) *c06Prev {
	s := cw.w.Spec
	s.GC, s.CR, s.Now = gc, cr, T
	clock := time.Now()
	vr := runVerify(cw.w)
	eff := [5]time.Time{clock, clock, clock, clock, clock}
	if T != nil {
		eff = *T
	}
	fail, inDate := c06Oracle(cw, eff, gc, cr, vr.accepted)
	s.Honest = inDate && !(cr && !gc)
	if fail == "" && s.Honest && !vr.accepted {
		fail = "world rejected although every artifact checked at this option level is in date at its own time-set entry (judged against a wrong entry?): " + hx.Trunc(fmt.Sprint(vr.err), 160)
	}
	if fail == "" && vr.again != nil && T != nil {
		// the first call modified what the caller handed in; the identical second call is judged against the SAME caller-supplied times
		if f2, _ := c06Oracle(cw, eff, gc, cr, vr.again.accepted); f2 != "" {
			fail = "on the second of two identical calls (" + vr.againWhy + "): " + f2
		}
	}
	if fail == "" && prev != nil && prev.expired && !prev.accepted && vr.accepted {
		fail = "monotonicity: rejected because expired at T, accepted at a pointwise later T'"
	}
	s.Fault = strings.Join(tags, ",")
	c06Emit(r, cw.w, vr, clock, fail, inDate, tags...)
	return &c06Prev{expired: !inDate, accepted: vr.accepted}
}

type c06Prev struct{ expired, accepted bool }

func c06Emit(r *hx.Run, w *world.World, vr vResult, clock time.Time, fail string, inDate bool, tags ...string) {
	c05Emit(r, w, vr, clock, fail, append(tags, fmt.Sprintf("in-date:%v/%s", inDate, map[bool]string{true: "accepted", false: "rejected"}[vr.accepted]))...)
}

var c06Levels = [][2]bool{{true, true}, {true, false}, {false, false}}

func c06Later(T [5]time.Time, c int, d time.Duration) *[5]time.Time {
	out := T
	if c < 0 {
		for i := range out {
			out[i] = out[i].Add(d)
		}
	} else {
		out[c] = out[c].Add(d)
	}
	return &out
}

// c06Probe: all probes around one artifact on one world.
func c06Probe(r *hx.Run, rng *rand.Rand, cw *c06World, a c06Art) {
	E, NB := cw.win[a.name][1], cw.win[a.name][0]
	own := map[int]bool{}
	tag := "art:" + a.name
	if cw.altPath {
		tag += "(second-intermediate-in-pool)"
	}
	for _, c := range a.classes {
		own[c] = true
		// expiry probes on the artifact's own entry, at gc+cr
		for _, d := range []time.Duration{-time.Second, -1, 0, 1, time.Second} {
			T := c06Inside(rng, cw.base)
			T[c] = E.Add(d)
			p := c06Run(r, cw, &T, true, true, nil, tag, "probe:expiry-own-entry", "delta:"+d.String())
			if d == time.Second {
				// monotonicity: pointwise later time sets stay rejected
				// … also centuries later: 240 years after 2025 is past the last instant a 64-bit nanosecond count can express
				for _, dd := range []time.Duration{time.Second, time.Hour, 10 * 365 * 24 * time.Hour, 240 * 365 * 24 * time.Hour, 290 * 365 * 24 * time.Hour} {
					c06Run(r, cw, c06Later(T, c, dd), true, true, p, tag, "probe:monotone-own-entry", "later:"+dd.String())
					c06Run(r, cw, c06Later(T, -1, dd), true, true, p, tag, "probe:monotone-all-entries", "later:"+dd.String())
				}
				// the same expired probe at the lower option levels (collateral / CRL artifacts must not matter there)
				for _, o := range c06Levels[1:] {
					c06Run(r, cw, &T, o[0], o[1], nil, tag, "probe:expiry-own-entry-lower-level")
				}
				c06Run(r, cw, &T, false, true, nil, tag, "probe:expiry-own-entry-lower-level")
			}
		}
		if a.role != "" {
			for _, d := range []time.Duration{-time.Second, 0, time.Second} {
				T := c06Inside(rng, cw.base)
				T[c] = NB.Add(d)
				what := "probe:notBefore-own-entry(path-role)"
				if !a.path {
					what = "probe:notBefore-own-entry(not-on-a-path)"
				}
				c06Run(r, cw, &T, true, true, nil, tag, what, "delta:"+d.String())
			}
		}
	}
	// the same probes on every WRONG entry: must not matter
	for c := 0; c < 5; c++ {
		if own[c] {
			continue
		}
		T := c06Inside(rng, cw.base)
		T[c] = E.Add(time.Second)
		c06Run(r, cw, &T, true, true, nil, tag, "probe:expiry-on-wrong-entry")
		if a.role != "" {
			T := c06Inside(rng, cw.base)
			T[c] = NB.Add(-time.Second)
			c06Run(r, cw, &T, true, true, nil, tag, "probe:notBefore-on-wrong-entry")
		}
	}
}

func c06(r *hx.Run) {
	reps, randWorlds, perWorld := 4, 50, 10
	if r.Tier == "thorough" {
		reps, randWorlds, perWorld = 40, 400, 20
	}
	idx := 0
	day := 24 * time.Hour
	// (1) the grid: one world per artifact, the artifact expiring / starting alone
	for rep := 0; rep < reps; rep++ {
		for i := 0; i <= len(c06Arts); i++ {
			rng := c05CaseRng(r, 0x06, idx)
			idx++
			alt := i == len(c06Arts)
			a := c06Arts[1]
			if !alt {
				a = c06Arts[i]
			}
			win := c06Windows(t0)
			win[a.name] = [2]time.Time{t0.Add(-day - time.Duration(rng.IntN(3600))*time.Second), t0.Add(30*day + time.Duration(rng.IntN(3600))*time.Second)}
			cw := c06Build(rng, t0, win, alt)
			c06Probe(r, rng, cw, a)
		}
	}
	// (1b) TCB Info and QE Identity served under one shared issuer chain: its signer, its header root and the pool root
	for rep := 0; rep < reps; rep++ {
		for _, a := range c06SharedArts {
			if !strings.HasPrefix(a.name, "shared-") && a.name != "pool-root" {
				continue
			}
			rng := c05CaseRng(r, 0x36, idx)
			idx++
			win := c06Windows(t0)
			win[a.name] = [2]time.Time{t0.Add(-day - time.Duration(rng.IntN(3600))*time.Second), t0.Add(30*day + time.Duration(rng.IntN(3600))*time.Second)}
			cw := c06BuildArts(rng, t0, win, false, c06SharedArts)
			c06Probe(r, rng, cw, a)
		}
	}
	// (2) random windows and random time assignments (500 quick / 8000 thorough)
	for i := 0; i < randWorlds; i++ {
		rng := c05CaseRng(r, 0x16, i)
		win := c06Windows(t0)
		var bounds []time.Time
		arts := c06Arts
		if rng.IntN(3) == 0 {
			arts = c06SharedArts
		}
		for _, a := range arts {
			w := [2]time.Time{t0.Add(-time.Duration(1+rng.IntN(60*86400)) * time.Second), t0.Add(time.Duration(20*86400+rng.IntN(180*86400)) * time.Second)}
			win[a.name] = w
			bounds = append(bounds, w[0], w[1])
		}
		cw := c06BuildArts(rng, t0, win, len(arts) == len(c06Arts) && rng.IntN(8) == 0, arts)
		for k := 0; k < perWorld; k++ {
			var T [5]time.Time
			shape := ""
			for c := range T {
				switch x := rng.IntN(10); {
				case x < 5:
					T[c] = t0.Add(time.Duration(rng.IntN(19*86400)) * time.Second)
					shape += "i"
				case x < 8:
					T[c] = bounds[rng.IntN(len(bounds))].Add([]time.Duration{-time.Second, -1, 0, 1, time.Second}[rng.IntN(5)])
					shape += "b"
				case x < 9:
					T[c] = t0.Add(time.Duration(200+rng.IntN(4000)) * day)
					shape += "p"
				default:
					T[c] = t0.Add(-time.Duration(61+rng.IntN(4000)) * day)
					shape += "f"
				}
			}
			o := [][2]bool{{true, true}, {true, true}, {true, true}, {true, true}, {true, false}, {false, false}, {false, true}}[rng.IntN(7)]
			c06Run(r, cw, &T, o[0], o[1], nil, "probe:random-assignment", fmt.Sprintf("random-entries-on-a-boundary:%d", strings.Count(shape, "b")), fmt.Sprintf("random-entries-far-past-or-before:%d", strings.Count(shape, "p")+strings.Count(shape, "f")))
		}
	}
	// (3) Options.Now = nil: the wall clock, windows at least a day away from it
	now := time.Now().Truncate(time.Second)
	for i := -1; i < len(c06Arts); i++ {
		rng := c05CaseRng(r, 0x26, i+1)
		win := c06Windows(now)
		tag := "art:none"
		if i >= 0 {
			win[c06Arts[i].name] = [2]time.Time{now.Add(-40 * day), now.Add(-day)}
			tag = "art:" + c06Arts[i].name
		}
		cw := c06Build(rng, now, win, false)
		for _, o := range c06Levels {
			if i < 0 || o[0] && o[1] || rng.IntN(2) == 0 {
				c06Run(r, cw, nil, o[0], o[1], nil, tag, "probe:now-nil(wall-clock)")
			}
		}
		if i >= 0 && c06Arts[i].path {
			win := c06Windows(now)
			win[c06Arts[i].name] = [2]time.Time{now.Add(day), now.Add(400 * day)}
			cw := c06Build(rng, now, win, false)
			c06Run(r, cw, nil, true, true, nil, tag, "probe:now-nil(wall-clock)-not-yet-valid")
		}
	}
	c06DefaultTime(r)
	c06Reissue(r)
	r.Note("grid", fmt.Sprintf("%d artifacts (+ second-intermediate-in-pool) x %d repetitions; %d random worlds x %d assignments; Now=nil around the wall clock", len(c06Arts), reps, randWorlds, perWorld))
}


// c06DefaultTime: "when no time is given everything is judged at the time of the call" — of THIS call: an options value that
// carries no time must still carry none after a call, however the call ended (early structural / chain failure, failed
// download, failed signature, success), and options produced from a root-of-trust configuration carry no time either (a time
// fixed at conversion would judge every later verification at that moment).  Harness-only.
func c06DefaultTime(r *hx.Run) {
	now := time.Now()
	kinds := []struct {
		name string
		mut  func(s *world.Spec)
	}{
		{"accepted", func(s *world.Spec) {}},
		{"chain-one-block", func(s *world.Spec) { s.Chain = s.Chain[:1] }},
		{"leaf-not-a-pck-certificate", func(s *world.Spec) { s.Cert("leaf").CN = "Somebody Else" }},
		{"tcbinfo-download-fails", func(s *world.Spec) { s.TcbResp.Fetch = "fail" }},
		{"qeidentity-download-fails", func(s *world.Spec) { s.QeResp.Fetch = "fail" }},
		{"pckcrl-download-fails", func(s *world.Spec) { s.PckCrl.Fetch = "fail" }},
		{"quote-signature-by-foreign-key", func(s *world.Spec) { s.Quote.SignKey = 7 }},
		{"tcb-level-out-of-date", func(s *world.Spec) {
			for i := range s.Tcb.Levels {
				s.Tcb.Levels[i].Status = "OutOfDate"
			}
		}},
		{"structurally-invalid-message", func(s *world.Spec) { s.MsgMut = append(s.MsgMut, func(q *pb.QuoteV4) { q.TdQuoteBody.MrTd = q.TdQuoteBody.MrTd[:47] }) }},
	}
	idx := 0
	for _, k := range kinds {
		for _, lv := range [][2]bool{{false, false}, {true, false}, {true, true}} {
			rng := c05CaseRng(r, 0x46, idx)
			idx++
			s := c12Wall(rng, now)
			k.mut(s)
			s.GC, s.CR, s.Now = lv[0], lv[1], nil
			w := world.Build(s)
			o := &verify.Options{GetCollateral: lv[0], CheckRevocations: lv[1], Getter: w.Getter, TrustedRoots: w.Pool()}
			var err error
			res, _ := hx.Guard(func() string { err = verify.TdxQuote(proto.Clone(w.Quote).(*pb.QuoteV4), o); return "" })
			obs, fail := "now-still-nil", ""
			verdict := "ok"
			if err != nil {
				verdict = "err"
			}
			if res == "panic" {
				obs, fail = "panic", "crash in verify.TdxQuote"
			} else if o.Now != nil {
				obs = "now-set"
				fail = fmt.Sprintf("the options carried no time before the call (%s, verdict %s) and carry %s afterwards: later calls through this options value are judged at the time of THIS call, not at theirs", k.name, verdict, o.Now.PckCertChain.UTC().Format(time.RFC3339))
			}
			r.Emit(fmt.Sprintf("# C06.default-time kind=%s gc=%d cr=%d", k.name, hx.B(lv[0]), hx.B(lv[1])), obs+" "+verdict, fail, fmt.Sprintf("default-time|%s|%v", k.name, lv), true, "probe:default-time-not-persisted", "kind:"+k.name)
		}
	}
	for i, rot := range []*ccpb.RootOfTrust{{}, {GetCollateral: true}, {CheckCrl: true, GetCollateral: true}} {
		var o *verify.Options
		var err error
		res, _ := hx.Guard(func() string { o, err = verify.RootOfTrustToOptions(rot); return "" })
		obs, fail := "no-time", ""
		if res == "panic" || err != nil || o == nil {
			obs, fail = "err", fmt.Sprintf("RootOfTrustToOptions failed on a configuration without bundles: %v", err)
		} else if o.Now != nil {
			obs, fail = "time-fixed", "options converted from a root-of-trust configuration carry a time set fixed at conversion ("+o.Now.PckCertChain.UTC().Format(time.RFC3339)+"): every later verification is judged at that moment instead of at the time of the call"
		}
		r.Emit(fmt.Sprintf("# C06.rot-time cfg=%d", i), obs, fail, fmt.Sprintf("rot-time|%d", i), true, "probe:root-of-trust-options-carry-no-time")
	}
}


// c06Reissue: what was valid in an EARLIER verification does not vouch for what a later quote carries.  An honest world is
// verified; then a quote of the same PKI (same keys and names) whose carried intermediate / leaf is a re-issued certificate
// that is not yet valid (or already expired) at the verification time.  The second quote is judged on its own.
func c06Reissue(r *hx.Run) {
	n := 6
	if r.Tier == "thorough" {
		n = 60
	}
	for i := 0; i < n; i++ {
		rng := c05CaseRng(r, 0x66, i)
		s1 := honestSpec(rng)
		s1.GC, s1.CR = i%3 >= 1, i%3 == 2
		w1 := world.Build(s1)
		w1.Spec.Fault = "reissue:first(honest)"
		vr1 := runVerify(w1)
		c05Emit(r, w1, vr1, time.Now(), map[bool]string{true: "", false: "generator: honest first world rejected: " + fmt.Sprint(vr1.err)}[vr1.accepted], "probe:reissue", "step:1")
		s2 := *s1
		s2.Certs = nil
		for _, c := range s1.Certs {
			cc := *c
			s2.Certs = append(s2.Certs, &cc)
		}
		role := []string{"inter", "leaf", "inter"}[i%3]
		c := s2.Cert(role)
		c.Serial = new(big.Int).Add(c.Serial, big.NewInt(7000))
		kind := "not-yet-valid"
		if i%2 == 0 {
			c.NotBefore = s2.Now[0].Add(time.Hour)
		} else {
			c.NotAfter, kind = s2.Now[0].Add(-time.Hour), "expired"
		}
		s2.Honest = false
		s2.Fault = "reissue:second(" + role + "-reissued-" + kind + ")"
		w2 := world.Build(&s2)
		vr2 := runVerify(w2)
		fail := ""
		if vr2.accepted {
			fail = fmt.Sprintf("accepted although the %s certificate the quote carries is %s at Now.PckCertChain; an honest quote of the same PKI (same CA key and name, valid certificate) was verified earlier in this process", role, kind)
		}
		c05Emit(r, w2, vr2, time.Now(), fail, "probe:reissue", "step:2", "reissued:"+role+"-"+kind)
	}
}
