package main

// C13 — PCK extension values extracted exactly.
//
// Every case is a REAL X.509 leaf certificate (crypto/x509.CreateCertificate + ParseCertificate)
// whose SGX extension value was assembled with encoding/asn1 from values the generator chose.  The
// real pcs.PckCertificateExtensions is run on it.  For the model the driver decodes the value of
// the SGX extension of the *parsed* certificate with encoding/asn1 (RawValue walk) into the tree
// syntax of lean/TdxModel/Drive/PckExt.lean.  The oracle knows only what the generator encoded.

import (
	"sync"
	"sync/atomic"
	"bytes"
	crand "crypto/rand"
	"crypto/ecdsa"
	"crypto/elliptic"
	"crypto/sha256"
	"crypto/x509"
	"crypto/x509/pkix"
	"encoding/asn1"
	"encoding/hex"
	"fmt"
	"math/big"
	"math/rand/v2"
	"strconv"
	"strings"
	"time"

	"github.com/google/go-tdx-guest/pcs"

	"tdxharness/hx"
)

func init() { drivers["C13"] = c13 }

// ---------------------------------------------------------------- DER building (encoding/asn1)

func c13must(b []byte, err error) []byte {
	if err != nil {
		panic("c13 generator: " + err.Error())
	}
	return b
}
func dInt(v int64) []byte     { return c13must(asn1.Marshal(v)) }
func dBig(v *big.Int) []byte  { return c13must(asn1.Marshal(v)) }
func dOct(b []byte) []byte    { return c13must(asn1.Marshal(append([]byte{}, b...))) }
func dOID(a []int) []byte     { return c13must(asn1.Marshal(asn1.ObjectIdentifier(a))) }
func dEnum(v int) []byte      { return c13must(asn1.Marshal(asn1.Enumerated(v))) }
func dBool(v bool) []byte     { return c13must(asn1.Marshal(v)) }
func dNull() []byte           { return c13must(asn1.Marshal(asn1.NullRawValue)) }
func dUTF8(s string) []byte   { return c13must(asn1.MarshalWithParams(s, "utf8")) }
func dTLV(class, tag int, compound bool, content []byte) []byte {
	return c13must(asn1.Marshal(asn1.RawValue{Class: class, Tag: tag, IsCompound: compound, Bytes: content}))
}
func dSeq(children ...[]byte) []byte { return dTLV(0, 16, true, bytes.Join(children, nil)) }
func dSet(children ...[]byte) []byte { return dTLV(0, 17, true, bytes.Join(children, nil)) }

var (
	c13Base    = []int{1, 2, 840, 113741, 1, 13, 1}
	c13OidPPID = c13sub(1)
	c13OidTCB  = c13sub(2)
	c13OidPCE  = c13sub(3)
	c13OidFMS  = c13sub(4)
)

func c13sub(s ...int) []int { return append(append([]int{}, c13Base...), s...) }

// ---------------------------------------------------------------- tree decoding (the model's input)

// c13tree renders one framed TLV in the bracket syntax.
func c13tree(raw asn1.RawValue) string {
	if raw.Class == asn1.ClassUniversal && raw.IsCompound && raw.Tag == asn1.TagSequence {
		var sb strings.Builder
		rest := raw.Bytes
		n := 0
		junk := false
		for len(rest) > 0 {
			var ch asn1.RawValue
			r2, err := asn1.Unmarshal(rest, &ch)
			if err != nil {
				junk = true
				break
			}
			if n > 0 {
				sb.WriteByte(',')
			}
			sb.WriteString(c13tree(ch))
			n++
			rest = r2
		}
		if junk {
			return "{" + sb.String() + "}"
		}
		return "[" + sb.String() + "]"
	}
	if raw.Class == asn1.ClassUniversal && !raw.IsCompound {
		switch raw.Tag {
		case asn1.TagInteger:
			var n *big.Int
			if _, err := asn1.Unmarshal(raw.FullBytes, &n); err != nil {
				return "!"
			}
			return "i" + n.String()
		case asn1.TagOctetString:
			return "o" + hex.EncodeToString(raw.Bytes)
		case asn1.TagOID:
			var o asn1.ObjectIdentifier
			if _, err := asn1.Unmarshal(raw.FullBytes, &o); err != nil {
				return "!"
			}
			return "d" + o.String()
		case asn1.TagEnum:
			var e asn1.Enumerated
			if _, err := asn1.Unmarshal(raw.FullBytes, &e); err != nil {
				return "x"
			}
			return "e" + strconv.Itoa(int(e))
		case asn1.TagBoolean:
			var b bool
			if _, err := asn1.Unmarshal(raw.FullBytes, &b); err != nil {
				return "b0"
			}
			return "b1"
		default:
			var a any
			if _, err := asn1.Unmarshal(raw.FullBytes, &a); err != nil {
				return "!"
			}
			return "x"
		}
	}
	return "x"
}

// c13fact: what encoding/asn1 makes of the extension value.
func c13fact(val []byte) string {
	var raw asn1.RawValue
	rest, err := asn1.Unmarshal(val, &raw)
	if err != nil {
		return "derr"
	}
	if len(rest) != 0 {
		return "R:" + c13tree(raw)
	}
	return "T:" + c13tree(raw)
}

// ---------------------------------------------------------------- PKI

type c13pki struct {
	caKey, leafKey *ecdsa.PrivateKey
	caCert         *x509.Certificate
	serial         int64
}

func c13key(rng *rand.Rand) *ecdsa.PrivateKey {
	c := elliptic.P256()
	d := new(big.Int).SetBytes(hx.RandBytes(rng, 40))
	d.Mod(d, new(big.Int).Sub(c.Params().N, big.NewInt(1)))
	d.Add(d, big.NewInt(1))
	k := &ecdsa.PrivateKey{D: d}
	k.Curve = c
	k.X, k.Y = c.ScalarBaseMult(d.Bytes())
	return k
}

func c13ski(k *ecdsa.PrivateKey) []byte {
	h := sha256.Sum256(elliptic.Marshal(elliptic.P256(), k.X, k.Y))
	return h[:20]
}

var c13nb = time.Date(2024, 1, 1, 0, 0, 0, 0, time.UTC)

func newC13pki(rng *rand.Rand) *c13pki {
	p := &c13pki{caKey: c13key(rng), leafKey: c13key(rng), serial: 100}
	tmpl := &x509.Certificate{
		SerialNumber: big.NewInt(2), Subject: pkix.Name{CommonName: "Intel SGX PCK Platform CA", Organization: []string{"Intel Corporation"}, Country: []string{"US"}},
		NotBefore: c13nb, NotAfter: c13nb.AddDate(30, 0, 0), KeyUsage: x509.KeyUsageDigitalSignature | x509.KeyUsageCertSign | x509.KeyUsageCRLSign,
		BasicConstraintsValid: true, IsCA: true, SignatureAlgorithm: x509.ECDSAWithSHA256, SubjectKeyId: c13ski(p.caKey),
	}
	der, err := x509.CreateCertificate(crand.Reader, tmpl, tmpl, &p.caKey.PublicKey, p.caKey)
	if err != nil {
		panic(err)
	}
	p.caCert, err = x509.ParseCertificate(der)
	if err != nil {
		panic(err)
	}
	return p
}

// leaf: KeyUsage, BasicConstraints, SKI, AKI (automatic), optionally CRLDistributionPoints, then `extra`.
func (p *c13pki) leaf(extra []pkix.Extension, crldp bool) (*x509.Certificate, error) {
	p.serial++
	tmpl := &x509.Certificate{
		// serial numbers are per issuer and re-issues happen: different certificates share the few serials used here — what is
		// extracted is what THIS certificate encodes, whatever was extracted before from another one with the same serial
		SerialNumber: big.NewInt(1 + p.serial%5), Subject: pkix.Name{CommonName: "Intel SGX PCK Certificate", Organization: []string{"Intel Corporation"}, Country: []string{"US"}},
		NotBefore: c13nb, NotAfter: c13nb.AddDate(7, 0, 0), KeyUsage: x509.KeyUsageDigitalSignature, BasicConstraintsValid: true, IsCA: false,
		SignatureAlgorithm: x509.ECDSAWithSHA256, SubjectKeyId: c13ski(p.leafKey), ExtraExtensions: extra,
	}
	if crldp {
		tmpl.CRLDistributionPoints = []string{"https://api.trustedservices.intel.com/sgx/certification/v4/pckcrl?ca=platform&encoding=der"}
	}
	der, err := x509.CreateCertificate(crand.Reader, tmpl, p.caCert, &p.leafKey.PublicKey, p.caKey)
	if err != nil {
		return nil, err
	}
	return x509.ParseCertificate(der)
}

// ---------------------------------------------------------------- values and their encoding

type c13vals struct {
	ppid   []byte
	comps  [16]int64
	pcesvn int64
	cpusvn []byte
	pceid  []byte
	fmspc  []byte
}

func c13rand(rng *rand.Rand) c13vals {
	v := c13vals{ppid: hx.RandBytes(rng, 16), cpusvn: hx.RandBytes(rng, 16), pceid: hx.RandBytes(rng, 2), fmspc: hx.RandBytes(rng, 6)}
	for i := range v.comps {
		switch rng.UintN(4) {
		case 0:
			v.comps[i] = []int64{0, 1, 127, 128, 200, 254, 255}[rng.UintN(7)]
		default:
			v.comps[i] = int64(rng.UintN(256))
		}
	}
	switch rng.UintN(4) {
	case 0:
		v.pcesvn = []int64{0, 1, 127, 128, 255, 256, 32767, 32768, 65534, 65535}[rng.UintN(10)]
	default:
		v.pcesvn = int64(rng.UintN(65536))
	}
	return v
}

// what the statement says the result is for a well-formed encoding of v
func (v c13vals) want() string {
	comps := make([]byte, 16)
	for i, c := range v.comps {
		comps[i] = byte(c)
	}
	return fmt.Sprintf("ok ppid=%s comps=%s pcesvn=%d cpusvn=%s pceid=%s fmspc=%s", hx.Hex(v.ppid), hx.Hex(comps), v.pcesvn, hx.Hex(v.cpusvn), hx.Hex(v.pceid), hx.Hex(v.fmspc))
}

func c13atv(oid []int, val []byte) []byte { return dSeq(dOID(oid), val) }

// the SGX extension under construction: DER of each element, still separately editable
type c13ext struct {
	tcb    [][]byte          // elements of the TCB sequence (canonically 18)
	tcbEl  func(tcb [][]byte) []byte // the TCB item from its elements
	items  map[string][]byte // "ppid", "pceid", "fmspc" (and "tcb" once frozen)
	order  []string          // top-level order, names of items/extras
	extras map[string][]byte
}

func c13encode(v c13vals) *c13ext {
	e := &c13ext{items: map[string][]byte{}, extras: map[string][]byte{}}
	for i := 0; i < 16; i++ {
		e.tcb = append(e.tcb, c13atv(c13sub(2, i+1), dInt(v.comps[i])))
	}
	e.tcb = append(e.tcb, c13atv(c13sub(2, 17), dInt(v.pcesvn)), c13atv(c13sub(2, 18), dOct(v.cpusvn)))
	e.tcbEl = func(tcb [][]byte) []byte { return c13atv(c13OidTCB, dSeq(tcb...)) }
	e.items["ppid"] = c13atv(c13OidPPID, dOct(v.ppid))
	e.items["pceid"] = c13atv(c13OidPCE, dOct(v.pceid))
	e.items["fmspc"] = c13atv(c13OidFMS, dOct(v.fmspc))
	e.order = []string{"ppid", "tcb", "pceid", "fmspc"}
	return e
}

// unknown top-level elements as Intel's certificates carry them (SGX type, platform instance id, configuration …)
func (e *c13ext) addExtras(rng *rand.Rand, n int) {
	for k := 0; k < n; k++ {
		name := fmt.Sprintf("x%d", len(e.extras))
		var val []byte
		switch rng.UintN(6) {
		case 0:
			val = dEnum(int(rng.UintN(3)))
		case 1:
			val = dOct(hx.RandBytes(rng, 16))
		case 2:
			val = dSeq(c13atv(c13sub(7, 1), dBool(true)), c13atv(c13sub(7, 2), dBool(false)))
		case 3:
			val = dInt(int64(rng.Uint32()))
		case 4:
			val = dBool(rng.UintN(2) == 0)
		default:
			val = dUTF8("cfg")
		}
		e.extras[name] = c13atv(c13sub(5+len(e.extras)), val)
		e.order = append(e.order, name)
	}
}

func (e *c13ext) top() [][]byte {
	var out [][]byte
	for _, n := range e.order {
		switch {
		case n == "tcb":
			if b, ok := e.items["tcb"]; ok {
				out = append(out, b)
			} else {
				out = append(out, e.tcbEl(e.tcb))
			}
		case e.items[n] != nil:
			out = append(out, e.items[n])
		default:
			out = append(out, e.extras[n])
		}
	}
	return out
}

func (e *c13ext) value() []byte { return dSeq(e.top()...) }

func (e *c13ext) shuffle(rng *rand.Rand) {
	rng.Shuffle(len(e.tcb), func(i, j int) { e.tcb[i], e.tcb[j] = e.tcb[j], e.tcb[i] })
	rng.Shuffle(len(e.order), func(i, j int) { e.order[i], e.order[j] = e.order[j], e.order[i] })
}

func (e *c13ext) drop(name string) {
	var o []string
	for _, n := range e.order {
		if n != name {
			o = append(o, n)
		}
	}
	e.order = o
}

// ---------------------------------------------------------------- expectations (oracle)

const (
	expExact      = iota // well-formed encoding of v: the result must be exactly v
	expErr               // a malformed variant of the property's list: the result must be an error
	expErrOrExact        // tolerated/unspecified form: an error or exactly v, never another value
	expFree              // outside the statement (O-4, element counts …): only "no panic"; the model pins the behaviour
)

const (
	certSix     = iota // the six extensions of a PCK leaf
	certFive           // CRL distribution points left out
	certSeven          // one more unknown extension
	certNoSgx6         // six extensions, none with the SGX id
	certNoSgx5         // the SGX extension simply left out
	certDecoy          // six extensions; one whose id is the PPID OID (SGX id + .1) precedes the SGX extension
	certSgxNotLast     // six extensions; the SGX extension is the fifth, an unrelated one follows it
	certSgxThenDecoy   // six extensions; the SGX extension is the fifth, an SGX-shaped value under another id follows it
)

type c13gen struct {
	r    *hx.Run
	rng  *rand.Rand
	pki  *c13pki
	seen map[string]int
}

func (g *c13gen) run(kind string, expect int, v c13vals, value []byte, mode int) {
	sgx := pkix.Extension{Id: asn1.ObjectIdentifier(c13Base), Value: value}
	other := pkix.Extension{Id: asn1.ObjectIdentifier([]int{1, 2, 840, 113741, 1, 13, 2}), Value: dOct([]byte{1, 2, 3})}
	var extra []pkix.Extension
	crldp := true
	switch mode {
	case certSix:
		extra = []pkix.Extension{sgx}
	case certFive:
		extra, crldp = []pkix.Extension{sgx}, false
	case certSeven:
		extra = []pkix.Extension{other, sgx}
	case certNoSgx6:
		other.Value = value
		extra = []pkix.Extension{other}
	case certNoSgx5:
		extra = nil
	case certSgxNotLast:
		extra, crldp = []pkix.Extension{sgx, other}, false
	case certSgxThenDecoy:
		// the follower carries a well-formed SGX extension VALUE of another platform under an unrelated id
		dv := c13encode(c13rand(g.rng))
		other.Value = dv.value()
		extra, crldp = []pkix.Extension{sgx, other}, false
	case certDecoy:
		extra, crldp = []pkix.Extension{{Id: asn1.ObjectIdentifier(c13OidPPID), Value: dOct(hx.RandBytes(g.rng, 16))}, sgx}, false
	}
	cert, err := g.pki.leaf(extra, crldp)
	if err != nil {
		panic(fmt.Sprintf("c13 generator: cannot build the certificate for %s: %v", kind, err))
	}
	// ---- the real code ----
	obs, stack := hx.Guard(func() string {
		p, err := pcs.PckCertificateExtensions(cert)
		if err != nil {
			return "err"
		}
		if p == nil {
			return "ok nil"
		}
		dash := func(s string) string {
			if s == "" {
				return "-"
			}
			return s
		}
		return fmt.Sprintf("ok ppid=%s comps=%s pcesvn=%d cpusvn=%s pceid=%s fmspc=%s", dash(p.PPID), hx.Hex(p.TCB.CPUSvnComponents), p.TCB.PCESvn, hx.Hex(p.TCB.CPUSvn), dash(p.PCEID), dash(p.FMSPC))
	})
	// ---- the model's input: extension ids and the decoded SGX value of the parsed certificate ----
	ids := make([]string, len(cert.Extensions))
	fact := "none"
	for i, x := range cert.Extensions {
		ids[i] = x.Id.String()
		if fact == "none" && x.Id.Equal(asn1.ObjectIdentifier(c13Base)) {
			fact = c13fact(x.Value)
		}
	}
	exts := strings.Join(ids, ",")
	if len(ids) == 0 {
		exts = "-"
	}
	line := fmt.Sprintf("C13 n=%d exts=%s sgx=%s", len(ids), exts, fact)
	// ---- oracle: the statement of C13 on what the generator encoded ----
	fail := ""
	switch {
	case obs == "panic":
		fail = "crash: " + strings.SplitN(stack, "\n", 2)[0]
	case expect == expExact && obs != v.want():
		fail = fmt.Sprintf("[%s] well-formed encoding of %s but extraction returned %s", kind, v.want(), obs)
	case expect == expErr && obs != "err":
		fail = fmt.Sprintf("[%s] malformed variant must be an error but extraction returned %s", kind, obs)
	case expect == expErrOrExact && obs != "err" && obs != v.want():
		fail = fmt.Sprintf("[%s] result is neither an error nor the encoded values %s: %s", kind, v.want(), obs)
	}
	res := "res:err"
	if strings.HasPrefix(obs, "ok") {
		res = "res:ok"
	} else if obs == "panic" {
		res = "res:panic"
	}
	fam := kind
	if i := strings.IndexByte(kind, ':'); i >= 0 {
		fam = kind[:i]
	}
	g.seen[kind]++
	nontrivial := len(ids) == 6 && strings.HasPrefix(fact, "T:[")
	g.r.Emit(line, obs, fail, line, nontrivial, "kind:"+fam, res, []string{"expect:exact", "expect:err", "expect:err-or-exact", "expect:free"}[expect])
}

// one value-level helper: build, optionally edit, optionally shuffle, run
func (g *c13gen) with(kind string, expect int, shuffle bool, extras int, edit func(v *c13vals, e *c13ext)) {
	v := c13rand(g.rng)
	e := c13encode(v)
	e.addExtras(g.rng, extras)
	// edits that change v must re-encode themselves; edits on e work on the encoded elements
	if edit != nil {
		edit(&v, e)
	}
	if shuffle {
		e.shuffle(g.rng)
	}
	g.run(kind, expect, v, e.value(), certSix)
}

func c13(r *hx.Run) {
	rng := r.Rng(13)
	g := &c13gen{r: r, rng: rng, pki: newC13pki(rng), seen: map[string]int{}}
	thorough := r.Tier == "thorough"
	pick := func(q, t int) int {
		if thorough {
			return t
		}
		return q
	}
	both := []bool{false, true}

	// ---- 1. canonical order, Intel-like (one ENUMERATED extra), and the decoy id ----
	for i := 0; i < pick(20, 200); i++ {
		g.with("canon", expExact, false, i%3, nil)
	}
	for i := 0; i < pick(5, 50); i++ {
		v := c13rand(rng)
		e := c13encode(v)
		e.shuffle(rng)
		g.run("decoy-id", expExact, v, e.value(), certDecoy)
	}

	// ---- 2. random permutations of both sequences with random values ----
	for i := 0; i < pick(200, 5000); i++ {
		g.with("perm", expExact, true, int(rng.UintN(4)), nil)
	}
	// all components at one boundary value
	for _, b := range []int64{0, 127, 128, 255} {
		for _, sh := range both {
			v := c13rand(rng)
			for i := range v.comps {
				v.comps[i] = b
			}
			e := c13encode(v)
			if sh {
				e.shuffle(rng)
			}
			g.run("all-comps", expExact, v, e.value(), certSix)
		}
	}

	// ---- 3. boundary values per component ----
	setComp := func(i int, der []byte) func(*c13vals, *c13ext) {
		return func(v *c13vals, e *c13ext) { e.tcb[i] = c13atv(c13sub(2, i+1), der) }
	}
	for i := 0; i < 16; i++ {
		for _, b := range []int64{0, 127, 128, 255} {
			for _, sh := range both {
				i, b := i, b
				g.with("comp-in-range", expExact, sh, 1, func(v *c13vals, e *c13ext) {
					v.comps[i] = b
					e.tcb[i] = c13atv(c13sub(2, i+1), dInt(b))
				})
			}
		}
		for _, b := range []int64{256, -1, 257, 511, 65535, 65536, -128, -129, -256, 1 << 31, 1<<63 - 1, -1 << 63} {
			for _, sh := range both {
				g.with("comp-out-of-range", expErr, sh, 1, setComp(i, dInt(b)))
			}
		}
		for _, s := range []string{"9223372036854775808", "18446744073709551616", "-9223372036854775809", "340282366920938463463374607431768211456"} {
			n, _ := new(big.Int).SetString(s, 10)
			g.with("comp-out-of-range:big", expErr, i%2 == 0, 1, setComp(i, dBig(n)))
		}
	}
	// ---- 4. boundary values for PCESVN ----
	setPce := func(der []byte) func(*c13vals, *c13ext) {
		return func(v *c13vals, e *c13ext) { e.tcb[16] = c13atv(c13sub(2, 17), der) }
	}
	for rep := 0; rep < pick(2, 10); rep++ {
		for _, b := range []int64{0, 1, 127, 128, 255, 256, 32767, 32768, 65534, 65535} {
			for _, sh := range both {
				b := b
				g.with("pcesvn-in-range", expExact, sh, 1, func(v *c13vals, e *c13ext) {
					v.pcesvn = b
					e.tcb[16] = c13atv(c13sub(2, 17), dInt(b))
				})
			}
		}
		for _, b := range []int64{65536, 65537, -1, -32768, -65536, 131071, 1 << 31, 1 << 32, 1<<63 - 1, -1 << 63} {
			for _, sh := range both {
				g.with("pcesvn-out-of-range", expErr, sh, 1, setPce(dInt(b)))
			}
		}
		for _, s := range []string{"9223372036854775808", "18446744073709551616", "-9223372036854775809"} {
			n, _ := new(big.Int).SetString(s, 10)
			g.with("pcesvn-out-of-range:big", expErr, rep%2 == 0, 1, setPce(dBig(n)))
		}
	}

	// ---- 5. octet-string sizes ----
	type item struct {
		name string
		oid  []int
		size int
	}
	items := []item{{"ppid", c13OidPPID, 16}, {"pceid", c13OidPCE, 2}, {"fmspc", c13OidFMS, 6}}
	setItem := func(it item, val []byte) func(*c13vals, *c13ext) {
		return func(v *c13vals, e *c13ext) { e.items[it.name] = c13atv(it.oid, val) }
	}
	notWrapped := func(n int) []byte { // n random bytes that do not start like an OCTET STRING
		b := hx.RandBytes(rng, n)
		if n > 0 && b[0] == 4 {
			b[0] = 5
		}
		return b
	}
	for rep := 0; rep < pick(2, 12); rep++ {
		for _, it := range items {
			for _, n := range []int{it.size - 1, it.size + 1, 0, it.size + 2, 2 * it.size, 3, 130} {
				if n == it.size {
					continue
				}
				for _, sh := range both {
					g.with("size:"+it.name, expErr, sh, 1, setItem(it, dOct(notWrapped(n))))
				}
			}
			for _, sh := range both {
				it := it
				// O-4b: the value is itself a DER OCTET STRING of the wanted size
				g.with("wrapped:"+it.name, expErrOrExact, sh, 1, func(v *c13vals, e *c13ext) {
					inner := map[string][]byte{"ppid": v.ppid, "pceid": v.pceid, "fmspc": v.fmspc}[it.name]
					e.items[it.name] = c13atv(it.oid, dOct(dOct(inner)))
				})
				// a wrapped value whose inner size is wrong (and whose outer size is not accidentally right)
				for _, n := range []int{it.size - 1, it.size + 1, 0, it.size + 3} {
					if n+2 == it.size {
						continue
					}
					g.with("wrapped-wrong-size:"+it.name, expErr, sh, 1, setItem(it, dOct(dOct(hx.RandBytes(rng, n)))))
				}
				// a value that *looks* wrapped but has exactly the wanted size is the value itself
				g.with("plain-looking-wrapped:"+it.name, expExact, sh, 1, func(v *c13vals, e *c13ext) {
					val := dOct(hx.RandBytes(rng, it.size-2))
					switch it.name {
					case "ppid":
						v.ppid = val
					case "pceid":
						v.pceid = val
					default:
						v.fmspc = val
					}
					e.items[it.name] = c13atv(it.oid, dOct(val))
				})
				// wrapped value of the right size followed by one more byte; triple wrapping; non-minimal inner length
				g.with("wrapped-trailing:"+it.name, expErr, sh, 1, setItem(it, dOct(append(dOct(hx.RandBytes(rng, it.size)), byte(rng.UintN(256))))))
				g.with("wrapped-twice:"+it.name, expErr, sh, 1, setItem(it, dOct(dOct(dOct(hx.RandBytes(rng, it.size))))))
				g.with("wrapped-long-form-length:"+it.name, expErr, sh, 1, setItem(it, dOct(append([]byte{4, 0x81, byte(it.size)}, hx.RandBytes(rng, it.size)...))))
				g.with("wrapped-other-tag:"+it.name, expErr, sh, 1, setItem(it, dOct(append([]byte{byte([]int{2, 3, 5, 12, 0x24, 0x30, 0x84}[rng.UintN(7)]), byte(it.size)}, hx.RandBytes(rng, it.size)...))))
			}
		}
		// CPUSVN has no wrapping tolerance in the code; the statement leaves the wrapped form open
		for _, n := range []int{15, 17, 0, 1, 32} {
			for _, sh := range both {
				n := n
				g.with("size:cpusvn", expErr, sh, 1, func(v *c13vals, e *c13ext) { e.tcb[17] = c13atv(c13sub(2, 18), dOct(notWrapped(n))) })
			}
		}
		g.with("wrapped:cpusvn", expErrOrExact, rep%2 == 0, 1, func(v *c13vals, e *c13ext) { e.tcb[17] = c13atv(c13sub(2, 18), dOct(dOct(v.cpusvn))) })
	}

	// ---- 6. wrong ASN.1 types ----
	notInt := func() [][]byte {
		return [][]byte{dOct([]byte{byte(rng.UintN(256))}), dOct(nil), dEnum(int(rng.UintN(200))), dBool(true), dNull(), dUTF8("7"), dSeq(dInt(3)), dSeq(),
			dTLV(2, 2, false, []byte{5}), dTLV(0, 2, true, dInt(5)), dOID([]int{1, 2, 3})}
	}
	notOctets := func(n int) [][]byte {
		return [][]byte{dInt(int64(rng.UintN(256))), dEnum(1), dNull(), dSeq(dOct(hx.RandBytes(rng, n))), dTLV(0, 4, true, dOct(hx.RandBytes(rng, n))),
			dTLV(2, 4, false, hx.RandBytes(rng, n)), dUTF8(string(bytes.Repeat([]byte{'a'}, n))), dTLV(0, 3, false, append([]byte{0}, hx.RandBytes(rng, n)...))}
	}
	for rep := 0; rep < pick(1, 6); rep++ {
		for _, sh := range both {
			i := int(rng.UintN(16))
			for _, w := range notInt() {
				g.with("type:comp", expErr, sh, 1, setComp(i, w))
				g.with("type:pcesvn", expErr, sh, 1, setPce(w))
			}
			for _, w := range notOctets(16) {
				w := w
				g.with("type:cpusvn", expErr, sh, 1, func(v *c13vals, e *c13ext) { e.tcb[17] = c13atv(c13sub(2, 18), w) })
			}
			for _, it := range items {
				for _, w := range notOctets(it.size) {
					g.with("type:"+it.name, expErr, sh, 1, setItem(it, w))
				}
			}
			// the TCB value is not a SEQUENCE
			for _, w := range [][]byte{dOct(hx.RandBytes(rng, 16)), dInt(7), dNull(), dSet(c13atv(c13sub(2, 1), dInt(1)))} {
				w := w
				g.with("type:tcb", expErr, sh, 1, func(v *c13vals, e *c13ext) { e.items["tcb"] = c13atv(c13OidTCB, w) })
			}
		}
	}

	// ---- 7. malformed structure: elements that are no AttributeTypeAndValue, trailing bytes, truncation, bad framing ----
	badElems := func() [][]byte {
		return [][]byte{dOct(hx.RandBytes(rng, 4)), dInt(5), dSeq(), dSeq(dOID(c13sub(9))), dSeq(dInt(1), dInt(2)), dSet(dOID(c13sub(9)), dInt(1)),
			dSeq(dOID(c13sub(9)), []byte{2, 2, 0, 5}),            // second field: non-minimal INTEGER
			dSeq(dOID(c13sub(9)), dBig(new(big.Int).Lsh(big.NewInt(1), 64))), // second field: INTEGER beyond int64
			dSeq([]byte{6, 3, 0x2a, 0x80, 0x01}, dInt(1)),        // OID with a non-minimal arc
			dSeq([]byte{6, 0}, dInt(1)),                          // empty OID
			dSeq(dOID(c13sub(9)), []byte{12, 2, 0xff, 0xfe}),     // invalid UTF8String
		}
	}
	for rep := 0; rep < pick(1, 6); rep++ {
		for _, sh := range both {
			for _, w := range badElems() {
				w := w
				g.with("malformed:top-element", expErr, sh, 0, func(v *c13vals, e *c13ext) {
					e.extras["bad"] = w
					e.order = append(e.order, "bad")
				})
				g.with("malformed:tcb-element", expErr, sh, 1, func(v *c13vals, e *c13ext) { e.tcb[rng.UintN(18)] = w })
			}
			// non-minimal INTEGER / length encodings in a known element
			i := int(rng.UintN(16))
			g.with("malformed:comp-nonminimal-int", expErr, sh, 1, setComp(i, []byte{2, 2, 0, byte(rng.UintN(128))}))
			g.with("malformed:comp-empty-int", expErr, sh, 1, setComp(i, []byte{2, 0}))
			g.with("malformed:comp-long-form-length", expErr, sh, 1, setComp(i, []byte{2, 0x81, 1, 5}))
			g.with("malformed:pcesvn-nonminimal-int", expErr, sh, 1, setPce([]byte{2, 3, 0, 0, 7}))
			g.with("malformed:pcesvn-ff-padding", expErr, sh, 1, setPce([]byte{2, 2, 0xff, 0x85}))
		}
		for _, sh := range both {
			for _, tail := range [][]byte{{0}, {5, 0}, hx.RandBytes(rng, 3), dSeq(), dOct(hx.RandBytes(rng, 6))} {
				v := c13rand(rng)
				e := c13encode(v)
				e.addExtras(rng, 1)
				if sh {
					e.shuffle(rng)
				}
				g.run("malformed:trailing-bytes", expErr, v, append(e.value(), tail...), certSix)
			}
			for _, cut := range []int{1, 2, 7, 40} {
				v := c13rand(rng)
				e := c13encode(v)
				if sh {
					e.shuffle(rng)
				}
				val := e.value()
				g.run("malformed:truncated", expErr, v, val[:len(val)-cut], certSix)
			}
			v := c13rand(rng)
			e := c13encode(v)
			if sh {
				e.shuffle(rng)
			}
			body := bytes.Join(e.top(), nil)
			g.run("malformed:empty-value", expErr, v, nil, certSix)
			g.run("malformed:top-is-set", expErr, v, dSet(e.top()...), certSix)
			g.run("malformed:top-is-octets", expErr, v, dOct(body), certSix)
			g.run("malformed:top-context-tag", expErr, v, dTLV(2, 16, true, body), certSix)
			g.run("malformed:top-indefinite-length", expErr, v, append(append([]byte{0x30, 0x80}, body...), 0, 0), certSix)
			g.run("malformed:top-length-too-long", expErr, v, append([]byte{0x30, 0x82, byte((len(body) + 1) >> 8), byte(len(body) + 1)}, body...), certSix)
			g.run("malformed:top-length-leading-zero", expErr, v, append([]byte{0x30, 0x83, 0, byte(len(body) >> 8), byte(len(body))}, body...), certSix)
			g.run("malformed:junk-in-top-sequence", expErr, v, dTLV(0, 16, true, append(append([]byte{}, body...), 0x05)), certSix)
			tcb := bytes.Join(e.tcb, nil)
			e.items["tcb"] = c13atv(c13OidTCB, dTLV(0, 16, true, append(tcb, 0x1f)))
			g.run("malformed:junk-in-tcb-sequence", expErr, v, e.value(), certSix)
		}
	}

	// ---- 8. the SGX extension is missing; the certificate has not six extensions ----
	for rep := 0; rep < pick(3, 20); rep++ {
		v := c13rand(rng)
		e := c13encode(v)
		e.addExtras(rng, 1)
		e.shuffle(rng)
		g.run("no-sgx-extension:six", expErr, v, e.value(), certNoSgx6)
		g.run("no-sgx-extension:five", expErr, v, e.value(), certNoSgx5)
		g.run("extension-count:five", expFree, v, e.value(), certFive)
		g.run("extension-count:seven", expFree, v, e.value(), certSeven)
		g.run("extension-order:sgx-not-last", expExact, v, e.value(), certSgxNotLast)
		g.run("extension-order:sgx-then-sgx-shaped-value-under-another-id", expExact, v, e.value(), certSgxThenDecoy)
	}

	// ---- 9. outside the statement's premise and error list (O-4 …): the model pins what the code does ----
	for rep := 0; rep < pick(3, 20); rep++ {
		for _, sh := range both {
			for _, name := range []string{"ppid", "tcb", "pceid", "fmspc"} {
				name := name
				g.with("missing-item:"+name, expFree, sh, 1+int(rng.UintN(2)), func(v *c13vals, e *c13ext) { e.drop(name) })
				g.with("sgx-three-elements:"+name, expFree, sh, 0, func(v *c13vals, e *c13ext) { e.drop(name) })
				g.with("duplicate-item:"+name, expFree, sh, 1, func(v *c13vals, e *c13ext) {
					w := c13encode(c13rand(rng))
					if name == "tcb" {
						e.extras["dup"] = w.tcbEl(w.tcb)
					} else {
						e.extras["dup"] = w.items[name]
					}
					e.order = append(e.order, "dup")
				})
			}
			g.with("tcb-17", expFree, sh, 1, func(v *c13vals, e *c13ext) {
				i := int(rng.UintN(18))
				e.tcb = append(e.tcb[:i:i], e.tcb[i+1:]...)
			})
			g.with("tcb-19", expFree, sh, 1, func(v *c13vals, e *c13ext) { e.tcb = append(e.tcb, c13atv(c13sub(2, 19), dInt(1))) })
			// one or more elements with ids the schema does not define, in FRONT of / between the eighteen defined ones: whatever the
			// library makes of a TCB sequence that is too long, it does not hand out values other than the encoded ones
			for _, n := range []int{1, 2, 5} {
				n := n
				g.with("tcb-unknown-elements-in-front", expErrOrExact, false, 1, func(v *c13vals, e *c13ext) {
					var front [][]byte
					for k := 0; k < n; k++ {
						front = append(front, c13atv(c13sub(2, 30+k), dInt(int64(rng.UintN(200)))))
					}
					e.tcb = append(front, e.tcb...)
				})
				g.with("tcb-unknown-elements-in-between", expErrOrExact, false, 1, func(v *c13vals, e *c13ext) {
					at := 1 + int(rng.UintN(uint(len(e.tcb)-1)))
					var mid [][]byte
					for k := 0; k < n; k++ {
						mid = append(mid, c13atv(c13sub(2, 40+k), dInt(int64(rng.UintN(200)))))
					}
					e.tcb = append(append(append([][]byte{}, e.tcb[:at]...), mid...), e.tcb[at:]...)
				})
			}
			g.with("tcb-19-duplicate", expFree, sh, 1, func(v *c13vals, e *c13ext) { e.tcb = append(e.tcb, c13atv(c13sub(2, 1+int(rng.UintN(18))), dInt(int64(rng.UintN(256))))) })
			g.with("tcb-unknown-oid", expFree, sh, 1, func(v *c13vals, e *c13ext) {
				oids := [][]int{c13sub(2, 19), c13sub(2, 0), c13sub(2), c13sub(2, 1, 1), c13sub(3, 1), {1, 2, 840, 113741, 1, 13, 2, 2, 1}}
				e.tcb[rng.UintN(18)] = c13atv(oids[rng.UintN(uint(len(oids)))], dInt(int64(rng.UintN(256))))
			})
			g.with("tcb-duplicate-component", expFree, sh, 1, func(v *c13vals, e *c13ext) {
				i, j := int(rng.UintN(16)), int(rng.UintN(18))
				e.tcb[j] = c13atv(c13sub(2, i+1), dInt(int64(rng.UintN(256))))
			})
			g.with("tcb-wrapper-three-elements", expFree, sh, 1, func(v *c13vals, e *c13ext) {
				e.items["tcb"] = dSeq(dOID(c13OidTCB), dSeq(e.tcb...), dInt(1))
			})
			// extra fields after the ones a struct target consumes; BOOLEAN `critical` before the octets
			g.with("extra-field:comp", expFree, sh, 1, func(v *c13vals, e *c13ext) {
				i := int(rng.UintN(16))
				e.tcb[i] = dSeq(dOID(c13sub(2, i+1)), dInt(v.comps[i]), dInt(999))
			})
			g.with("extra-field:fmspc", expFree, sh, 1, func(v *c13vals, e *c13ext) {
				e.items["fmspc"] = dSeq(dOID(c13OidFMS), dOct(v.fmspc), dOct(hx.RandBytes(rng, 6)))
			})
			g.with("critical-flag:ppid", expFree, sh, 1, func(v *c13vals, e *c13ext) {
				e.items["ppid"] = dSeq(dOID(c13OidPPID), dBool(rng.UintN(2) == 0), dOct(v.ppid))
			})
			g.with("critical-flag-malformed:pceid", expFree, sh, 1, func(v *c13vals, e *c13ext) {
				e.items["pceid"] = dSeq(dOID(c13OidPCE), []byte{1, 1, 0x01}, dOct(v.pceid))
			})
			g.with("junk-after-fields:unknown", expFree, sh, 0, func(v *c13vals, e *c13ext) {
				e.extras["j"] = dTLV(0, 16, true, append(append(dOID(c13sub(9)), dInt(1)...), 0x05))
				e.order = append(e.order, "j")
			})
			g.with("junk-after-fields:fmspc", expFree, sh, 1, func(v *c13vals, e *c13ext) {
				e.items["fmspc"] = dTLV(0, 16, true, append(append(dOID(c13OidFMS), dOct(v.fmspc)...), 0x1f))
			})
			g.with("junk-after-fields:comp", expFree, sh, 1, func(v *c13vals, e *c13ext) {
				i := int(rng.UintN(16))
				e.tcb[i] = dTLV(0, 16, true, append(append(dOID(c13sub(2, i+1)), dInt(v.comps[i])...), 0x05))
			})
			g.with("junk-before-value:comp", expFree, sh, 1, func(v *c13vals, e *c13ext) {
				i := int(rng.UintN(16))
				e.tcb[i] = dTLV(0, 16, true, append(dOID(c13sub(2, i+1)), 0x02))
			})
		}
	}

	// ---- 10. random byte mutations of a valid value: the tree is whatever encoding/asn1 decodes ----
	for i := 0; i < pick(400, 6000); i++ {
		v := c13rand(rng)
		e := c13encode(v)
		e.addExtras(rng, int(rng.UintN(3)))
		if rng.UintN(2) == 0 {
			e.shuffle(rng)
		}
		val := e.value()
		kind := "mutate:byte"
		switch rng.UintN(8) {
		case 0: // insert
			p := rng.IntN(len(val) + 1)
			val = append(val[:p:p], append([]byte{byte(rng.UintN(256))}, val[p:]...)...)
			kind = "mutate:insert"
		case 1: // delete
			p := rng.IntN(len(val))
			val = append(val[:p:p], val[p+1:]...)
			kind = "mutate:delete"
		case 2: // bit flip
			p := rng.IntN(len(val))
			val[p] ^= 1 << rng.UintN(8)
			kind = "mutate:bit"
		case 3: // small +-1 change (lengths, tags, values)
			p := rng.IntN(len(val))
			val[p] += byte(1 + 254*rng.UintN(2))
			kind = "mutate:plusminus"
		default:
			for k := 0; k <= int(rng.UintN(3)); k++ {
				val[rng.IntN(len(val))] = byte(rng.UintN(256))
			}
		}
		g.run(kind, expFree, v, val, certSix)
	}
	// extraction is exact whoever else extracts at the same time: 16 goroutines over 48 well-formed certificates with distinct
	// values and shuffled element order, every result compared with the encoded values (harness-only)
	{
		type job struct {
			cert *x509.Certificate
			want string
		}
		var jobs []job
		for i := 0; i < 48; i++ {
			v := c13rand(rng)
			e := c13encode(v)
			e.shuffle(rng)
			cert, err := g.pki.leaf([]pkix.Extension{{Id: asn1.ObjectIdentifier(c13Base), Value: e.value()}}, true)
			if err != nil {
				panic(err)
			}
			jobs = append(jobs, job{cert, v.want()})
		}
		show := func(c *x509.Certificate) string {
			s, _ := hx.Guard(func() string {
				p, err := pcs.PckCertificateExtensions(c)
				if err != nil || p == nil {
					return "err"
				}
				dash := func(s string) string {
					if s == "" {
						return "-"
					}
					return s
				}
				return fmt.Sprintf("ok ppid=%s comps=%s pcesvn=%d cpusvn=%s pceid=%s fmspc=%s", dash(p.PPID), hx.Hex(p.TCB.CPUSvnComponents), p.TCB.PCESvn, hx.Hex(p.TCB.CPUSvn), dash(p.PCEID), dash(p.FMSPC))
			})
			return s
		}
		iters := 300
		if r.Tier == "thorough" {
			iters = 4000
		}
		var wrong atomic.Int64
		var first atomic.Value
		var wg sync.WaitGroup
		for gi := 0; gi < 16; gi++ {
			wg.Add(1)
			go func(gi int) {
				defer wg.Done()
				for it := 0; it < iters; it++ {
					j := jobs[(gi*7+it)%len(jobs)]
					if got := show(j.cert); got != j.want {
						if wrong.Add(1) == 1 {
							first.Store(fmt.Sprintf("encoded %s, extracted %s", j.want, got))
						}
					}
				}
			}(gi)
		}
		wg.Wait()
		obs, fail := "exact", ""
		if n := wrong.Load(); n > 0 {
			obs = "wrong"
			fail = fmt.Sprintf("%d of %d extractions running concurrently returned other values than the certificate encodes (first: %v); each is exact when run alone", n, 16*iters, first.Load())
		}
		r.Emit("# C13.concurrent goroutines=16", obs, fail, "concurrent", true, "kind:concurrent")
	}
	r.Note("kinds", g.seen)
	r.Note("oracle", "exact: result must equal the encoded values; err: result must be an error; err-or-exact: tolerated forms (O-4b wrapping) may be refused or decoded to the encoded value, nothing else; free: outside the statement (O-4, element counts, fields/junk a struct target ignores, random mutations) — no panic, behaviour pinned by the model")
}
