package main

// C19 — the check tool's exit code is truthful, flags override the config, it never crashes.
//
// The driver builds the REAL tools/check binary from the tree under check, runs it as a subprocess
// over a structured grid of (config file, flags, quote, root bundles, getter) and records the exit
// status (and whether the Go runtime reported a panic).  For every run the model gets the abstract
// command line (flag tokens, config message with its absent sub-messages) plus the library's verdicts
// for every candidate effective setting (tables `vt`, `pm.*`), taken from in-process calls of
// verify.RootOfTrustToOptions / verify.TdxQuote / validate.PolicyToOptions / validate.TdxQuote.
// The model does the merge and selects the code; the oracle does its own merge from the property
// statement and asks the library about the *effective* protos.

import (
	"io"
	"bytes"
	"crypto/ecdsa"
	"crypto/elliptic"
	"crypto/rand"
	"crypto/sha256"
	"crypto/x509"
	"crypto/x509/pkix"
	"encoding/asn1"
	"encoding/base64"
	"encoding/binary"
	"encoding/hex"
	"encoding/pem"
	"errors"
	"fmt"
	"math/big"
	mrand "math/rand/v2"
	"os"
	"os/exec"
	"path/filepath"
	"sort"
	"strings"
	"sync"
	"time"

	"github.com/google/go-tdx-guest/abi"
	ccpb "github.com/google/go-tdx-guest/proto/checkconfig"
	pb "github.com/google/go-tdx-guest/proto/tdx"
	testcases "github.com/google/go-tdx-guest/testing"
	"github.com/google/go-tdx-guest/validate"
	"github.com/google/go-tdx-guest/verify"
	"github.com/google/go-tdx-guest/verify/trust"
	"google.golang.org/protobuf/encoding/prototext"
	"google.golang.org/protobuf/proto"

	"tdxharness/hx"
)

func init() { drivers["C19"] = c19 }

// ---------------------------------------------------------------------------------------------
// fields

type c19Field struct {
	flag string // command-line flag name = proto field name
	key  string // key in the model's line protocol
	kind string // "bytes" | "num" | "rtmrs" | "any"
	size int
	sub  string // "hdr" | "body"
}

var c19Fields = []c19Field{
	{"minimum_qe_svn", "qe", "num", 0, "hdr"},
	{"minimum_pce_svn", "pce", "num", 0, "hdr"},
	{"qe_vendor_id", "qvid", "bytes", abi.QeVendorIDSize, "hdr"},
	{"minimum_tee_tcb_svn", "mintee", "bytes", abi.TeeTcbSvnSize, "body"},
	{"mr_seam", "mrseam", "bytes", abi.MrSeamSize, "body"},
	{"td_attributes", "tdattr", "bytes", abi.TdAttributesSize, "body"},
	{"xfam", "xfam", "bytes", abi.XfamSize, "body"},
	{"mr_td", "mrtd", "bytes", abi.MrTdSize, "body"},
	{"mr_config_id", "mrconfigid", "bytes", abi.MrConfigIDSize, "body"},
	{"mr_owner", "mrowner", "bytes", abi.MrOwnerSize, "body"},
	{"mr_owner_config", "mrownerconfig", "bytes", abi.MrOwnerConfigSize, "body"},
	{"report_data", "reportdata", "bytes", abi.ReportDataSize, "body"},
	{"rtmrs", "rtmrs", "rtmrs", abi.RtmrSize, "body"},
	{"any_mr_td", "any", "any", abi.MrTdSize, "body"}, // config only
}

// value of one policy field: exactly one of the three is meaningful, by kind
type fval struct {
	b    []byte
	n    uint64
	list [][]byte
}

func (f c19Field) modelKey(v fval) string {
	switch f.kind {
	case "num":
		return fmt.Sprint(v.n)
	case "bytes":
		return hx.Hex(v.b)
	default:
		return hx.HexList(v.list)
	}
}

func (f c19Field) isZero(v fval) bool {
	switch f.kind {
	case "num":
		return v.n == 0
	case "bytes":
		return len(v.b) == 0
	default:
		return len(v.list) == 0
	}
}

// set the field in a policy (sub-messages must exist)
func (f c19Field) set(p *ccpb.Policy, v fval) {
	switch f.key {
	case "qe":
		p.HeaderPolicy.MinimumQeSvn = uint32(v.n)
	case "pce":
		p.HeaderPolicy.MinimumPceSvn = uint32(v.n)
	case "qvid":
		p.HeaderPolicy.QeVendorId = v.b
	case "mintee":
		p.TdQuoteBodyPolicy.MinimumTeeTcbSvn = v.b
	case "mrseam":
		p.TdQuoteBodyPolicy.MrSeam = v.b
	case "tdattr":
		p.TdQuoteBodyPolicy.TdAttributes = v.b
	case "xfam":
		p.TdQuoteBodyPolicy.Xfam = v.b
	case "mrtd":
		p.TdQuoteBodyPolicy.MrTd = v.b
	case "mrconfigid":
		p.TdQuoteBodyPolicy.MrConfigId = v.b
	case "mrowner":
		p.TdQuoteBodyPolicy.MrOwner = v.b
	case "mrownerconfig":
		p.TdQuoteBodyPolicy.MrOwnerConfig = v.b
	case "reportdata":
		p.TdQuoteBodyPolicy.ReportData = v.b
	case "rtmrs":
		p.TdQuoteBodyPolicy.Rtmrs = v.list
	case "any":
		p.TdQuoteBodyPolicy.AnyMrTd = v.list
	}
}

// the quote's own value of the field (what a matching option must say)
func (f c19Field) ofQuote(q *pb.QuoteV4) fval {
	h, b := q.GetHeader(), q.GetTdQuoteBody()
	le := func(x []byte) uint64 {
		if len(x) < 2 {
			return 0
		}
		return uint64(binary.LittleEndian.Uint16(x))
	}
	switch f.key {
	case "qe":
		return fval{n: le(h.GetQeSvn())}
	case "pce":
		return fval{n: le(h.GetPceSvn())}
	case "qvid":
		return fval{b: h.GetQeVendorId()}
	case "mintee":
		return fval{b: b.GetTeeTcbSvn()}
	case "mrseam":
		return fval{b: b.GetMrSeam()}
	case "tdattr":
		return fval{b: b.GetTdAttributes()}
	case "xfam":
		return fval{b: b.GetXfam()}
	case "mrtd":
		return fval{b: b.GetMrTd()}
	case "mrconfigid":
		return fval{b: b.GetMrConfigId()}
	case "mrowner":
		return fval{b: b.GetMrOwner()}
	case "mrownerconfig":
		return fval{b: b.GetMrOwnerConfig()}
	case "reportdata":
		return fval{b: b.GetReportData()}
	case "rtmrs":
		return fval{list: b.GetRtmrs()}
	case "any":
		return fval{list: [][]byte{b.GetMrTd()}}
	}
	panic("field")
}

// does the value violate the size/range checkconfig.proto documents for the field?
func (f c19Field) malformed(v fval) bool {
	switch f.kind {
	case "num":
		return v.n > 65535
	case "bytes":
		return len(v.b) != 0 && len(v.b) != f.size
	case "rtmrs":
		if len(v.list) != 0 && len(v.list) != 4 {
			return true
		}
	}
	for _, e := range v.list {
		if len(e) != 0 && len(e) != f.size {
			return true
		}
	}
	return false
}

func emptyPolicy() *ccpb.Policy {
	return &ccpb.Policy{HeaderPolicy: &ccpb.HeaderPolicy{}, TdQuoteBodyPolicy: &ccpb.TDQuoteBodyPolicy{}}
}

// ---------------------------------------------------------------------------------------------
// the world: tool binary, root bundles, quotes

type c19World struct {
	dir    string
	bin    string
	roots  map[string]string // token -> path ("missing" -> a path that does not exist)
	pems   map[string]string // token -> inline PEM text for `cabundles`
	quotes map[string]*c19Quote
	ref    map[string]*pb.QuoteV4 // "s" / "g": the message M/X values are taken from
	good   map[string]string      // quote variant -> root token under which it verifies

	vmemo map[string]string
	bmemo map[string]bool
	inproc int
}

type c19Quote struct {
	files  map[string]string      // format -> path
	msg    map[string]*pb.QuoteV4 // format -> parsed message (nil if unparsable)
	values string                 // "s" or "g": whose field values M/X refer to
}

var c19Formats = []string{"bin", "proto", "textproto"}

func c19BuildTool(dir string) string {
	bin := filepath.Join(dir, "check")
	cmd := exec.Command("go", "build", "-o", bin, "./tools/check")
	cmd.Dir = repoRoot
	cmd.Env = append(os.Environ(), "GOFLAGS=-mod=mod", "GOPROXY=off", "GOSUMDB=off", "GOTOOLCHAIN=local")
	if out, err := cmd.CombinedOutput(); err != nil {
		panic(fmt.Sprintf("cannot build tools/check from %s: %v\n%s", repoRoot, err, out))
	}
	return bin
}

type c19CA struct {
	key  *ecdsa.PrivateKey
	cert *x509.Certificate
	der  []byte
}

func c19MkCert(cn string, serial int64, parent *c19CA, isCA bool, extra []pkix.Extension, crldp []string) *c19CA {
	key, _ := ecdsa.GenerateKey(elliptic.P256(), rand.Reader)
	now := time.Now()
	tmpl := &x509.Certificate{
		SerialNumber: big.NewInt(serial), Subject: pkix.Name{CommonName: cn, Organization: []string{"Intel Corporation"}, Country: []string{"US"}},
		NotBefore: now.Add(-time.Hour), NotAfter: now.Add(48 * time.Hour), KeyUsage: x509.KeyUsageDigitalSignature, BasicConstraintsValid: true, IsCA: isCA,
		SignatureAlgorithm: x509.ECDSAWithSHA256, ExtraExtensions: extra, CRLDistributionPoints: crldp,
	}
	ski := sha256.Sum256(elliptic.Marshal(elliptic.P256(), key.X, key.Y))
	tmpl.SubjectKeyId = ski[:20]
	if isCA {
		tmpl.KeyUsage |= x509.KeyUsageCertSign | x509.KeyUsageCRLSign
	}
	pc, pk := tmpl, key
	if parent != nil {
		pc, pk = parent.cert, parent.key
	}
	der, err := x509.CreateCertificate(rand.Reader, tmpl, pc, &key.PublicKey, pk)
	if err != nil {
		panic(err)
	}
	c, err := x509.ParseCertificate(der)
	if err != nil {
		panic(err)
	}
	return &c19CA{key, c, der}
}

func c19Pem(c *c19CA) []byte { return pem.EncodeToMemory(&pem.Block{Type: "CERTIFICATE", Bytes: c.der}) }

func c19SgxExt(comps [16]byte, pcesvn int, fmspc []byte) pkix.Extension {
	type tv struct {
		T asn1.ObjectIdentifier
		V any
	}
	base := []int{1, 2, 840, 113741, 1, 13, 1}
	oid := func(s ...int) asn1.ObjectIdentifier { return asn1.ObjectIdentifier(append(append([]int{}, base...), s...)) }
	var tcb []tv
	for i := 0; i < 16; i++ {
		tcb = append(tcb, tv{oid(2, i+1), int(comps[i])})
	}
	tcb = append(tcb, tv{oid(2, 17), pcesvn}, tv{oid(2, 18), comps[:]})
	top := []tv{{oid(1), make([]byte, 16)}, {oid(2), tcb}, {oid(3), []byte{0, 0}}, {oid(4), fmspc}, {oid(5), asn1.Enumerated(0)}}
	der, err := asn1.Marshal(top)
	if err != nil {
		panic(err)
	}
	return pkix.Extension{Id: asn1.ObjectIdentifier(base), Value: der}
}

func c19RawSig(k *ecdsa.PrivateKey, msg []byte) []byte {
	h := sha256.Sum256(msg)
	r, s, err := ecdsa.Sign(rand.Reader, k, h[:])
	if err != nil {
		panic(err)
	}
	out := make([]byte, 64)
	r.FillBytes(out[:32])
	s.FillBytes(out[32:])
	return out
}

// a synthetic PKI (root / platform CA / PCK leaf with the SGX extension) and a quote it certifies;
// returns the raw quote and the root's PEM
func c19Synthetic(rng *mrand.Rand) ([]byte, []byte) {
	root := c19MkCert("Intel SGX Root CA", 1, nil, true, nil, []string{"https://crl.example/root.der"})
	inter := c19MkCert("Intel SGX PCK Platform CA", 2, root, true, nil, nil)
	comps := [16]byte{5, 5, 2, 2, 3, 1, 0, 3}
	fmspc := []byte{0x50, 0x80, 0x6f, 0, 0, 0}
	leaf := c19MkCert("Intel SGX PCK Certificate", 3, inter, false, []pkix.Extension{c19SgxExt(comps, 11, fmspc)}, []string{"https://crl.example/pck"})
	attKey, _ := ecdsa.GenerateKey(elliptic.P256(), rand.Reader)
	att := make([]byte, 64)
	attKey.X.FillBytes(att[:32])
	attKey.Y.FillBytes(att[32:])
	auth := []byte("auth-data-c19")
	hh := sha256.Sum256(append(append([]byte{}, att...), auth...))
	qe := &pb.EnclaveReport{CpuSvn: make([]byte, 16), Reserved1: make([]byte, 28), Attributes: append([]byte{0x11}, make([]byte, 15)...), MrEnclave: make([]byte, 32),
		Reserved2: make([]byte, 32), MrSigner: make([]byte, 32), Reserved3: make([]byte, 96), IsvProdId: 2, IsvSvn: 4, Reserved4: make([]byte, 60), ReportData: append(hh[:], make([]byte, 32)...)}
	qeRaw, err := abi.EnclaveReportToAbiBytes(qe)
	if err != nil {
		panic(err)
	}
	chain := append(append(c19Pem(leaf), c19Pem(inter)...), c19Pem(root)...)
	nz := func(n, zeros int) []byte { // n bytes, the last `zeros` of them zero, the others non-zero
		b := make([]byte, n)
		for i := 0; i < n-zeros; i++ {
			b[i] = byte(1 + rng.UintN(255))
		}
		return b
	}
	hdr := &pb.Header{Version: 4, AttestationKeyType: 2, TeeType: 0x81, PceSvn: []byte{11, 0}, QeSvn: []byte{4, 0}, QeVendorId: nz(16, 3), UserData: make([]byte, 20)}
	body := &pb.TDQuoteBody{TeeTcbSvn: []byte{3, 1, 5, 0, 0, 0, 0, 0, 0, 0, 0, 0, 0, 0, 0, 0}, MrSeam: nz(48, 0), MrSignerSeam: make([]byte, 48), SeamAttributes: make([]byte, 8),
		TdAttributes: []byte{0, 0, 0, 0x10, 0, 0, 0, 0}, Xfam: []byte{0xe7, 0, 0x06, 0, 0, 0, 0, 0}, MrTd: nz(48, 8), MrConfigId: make([]byte, 48), MrOwner: nz(48, 1), MrOwnerConfig: nz(48, 20),
		Rtmrs: [][]byte{nz(48, 0), nz(48, 4), make([]byte, 48), nz(48, 0)}, ReportData: nz(64, 16)}
	hb, err := abi.HeaderToAbiBytes(hdr)
	if err != nil {
		panic(err)
	}
	bb, err := abi.TdQuoteBodyToAbiBytes(body)
	if err != nil {
		panic(err)
	}
	q := &pb.QuoteV4{Header: hdr, TdQuoteBody: body, SignedData: &pb.Ecdsa256BitQuoteV4AuthData{
		Signature: c19RawSig(attKey, append(hb, bb...)), EcdsaAttestationKey: att,
		CertificationData: &pb.CertificationData{CertificateDataType: 6, QeReportCertificationData: &pb.QEReportCertificationData{
			QeReport: qe, QeReportSignature: c19RawSig(leaf.key, qeRaw), QeAuthData: &pb.QeAuthData{ParsedDataSize: uint32(len(auth)), Data: auth},
			PckCertificateChainData: &pb.PCKCertificateChainData{CertificateDataType: 5, Size: uint32(len(chain)), PckCertChain: chain}}}}}
	q.SignedData.CertificationData.Size = uint32(384 + 64 + 2 + len(auth) + 6 + len(chain))
	q.SignedDataSize = 64 + 64 + 6 + q.SignedData.CertificationData.Size
	raw, err := abi.QuoteToAbiBytes(q)
	if err != nil {
		panic(err)
	}
	return raw, c19Pem(root)
}

func c19MustWrite(path string, b []byte) string {
	if err := os.WriteFile(path, b, 0o644); err != nil {
		panic(err)
	}
	return path
}

func c19NewWorld(r *hx.Run) *c19World {
	dir, err := filepath.Abs(filepath.Join(r.Dir, "c19"))
	if err != nil {
		panic(err)
	}
	if err := os.MkdirAll(filepath.Join(dir, "cfg"), 0o755); err != nil {
		panic(err)
	}
	w := &c19World{dir: dir, roots: map[string]string{}, pems: map[string]string{}, quotes: map[string]*c19Quote{}, ref: map[string]*pb.QuoteV4{},
		good: map[string]string{}, vmemo: map[string]string{}, bmemo: map[string]bool{}}
	w.bin = c19BuildTool(dir)
	rng := r.Rng(1900)
	intel := mustRead("verify/trusted_root.pem")
	synthRaw, genPem := c19Synthetic(rng)
	other := c19Pem(c19MkCert("Some Other Root CA", 7, nil, true, nil, nil))
	w.roots["intel"] = c19MustWrite(filepath.Join(dir, "intel.pem"), intel)
	w.roots["gen"] = c19MustWrite(filepath.Join(dir, "gen.pem"), genPem)
	w.roots["other"] = c19MustWrite(filepath.Join(dir, "other.pem"), other)
	// bundles holding TWO certificates: the unrelated root first, the one a quote needs second (and the other order)
	for _, need := range []struct {
		name string
		pem  []byte
	}{{"intel", intel}, {"gen", genPem}} {
		nl := func(b []byte) []byte { return append(bytes.TrimRight(append([]byte{}, b...), "\n"), '\n') } // every block ends its line
		w.roots["other+"+need.name] = c19MustWrite(filepath.Join(dir, "other+"+need.name+".pem"), append(nl(other), nl(need.pem)...))
		w.roots[need.name+"+other"] = c19MustWrite(filepath.Join(dir, need.name+"+other.pem"), append(nl(need.pem), nl(other)...))
		w.pems["other+"+need.name] = string(nl(other)) + string(nl(need.pem))
		w.pems[need.name+"+other"] = string(nl(need.pem)) + string(nl(other))
	}
	w.roots["garbage"] = c19MustWrite(filepath.Join(dir, "garbage.pem"), []byte("-----BEGIN NOTHING-----\nnot a certificate\n"))
	w.roots["missing"] = filepath.Join(dir, "does-not-exist.pem")
	w.pems["intel"], w.pems["gen"], w.pems["other"], w.pems["garbage"] = string(intel), string(genPem), string(other), "no certificate here"

	addQuote := func(name, values string, raw []byte, override map[string][]byte) {
		q := &c19Quote{files: map[string]string{}, msg: map[string]*pb.QuoteV4{}, values: values}
		var m *pb.QuoteV4
		if raw != nil {
			if a, err := abi.QuoteToProto(raw); err == nil {
				m = a.(*pb.QuoteV4)
			}
		}
		for _, f := range c19Formats {
			var b []byte
			switch {
			case override != nil:
				b = override[f]
			case f == "bin":
				b = raw
			case f == "proto":
				b, _ = proto.Marshal(m)
			default:
				b, _ = prototext.Marshal(m)
			}
			q.files[f] = c19MustWrite(filepath.Join(dir, "quote-"+name+"."+f), b)
			// what the tool's own parser will make of the file (parsers of the library / protobuf)
			switch f {
			case "bin":
				if a, err := abi.QuoteToProto(b); err == nil {
					q.msg[f] = a.(*pb.QuoteV4)
				}
			case "proto":
				x := &pb.QuoteV4{}
				if proto.Unmarshal(b, x) == nil {
					q.msg[f] = x
				}
			default:
				x := &pb.QuoteV4{}
				if prototext.Unmarshal(b, x) == nil {
					q.msg[f] = x
				}
			}
		}
		w.quotes[name] = q
	}
	sample := sampleQuote()
	addQuote("s", "s", sample, nil)
	addQuote("g", "g", synthRaw, nil)
	corrupt := append([]byte{}, sample...)
	corrupt[abi.QuoteMinSize-400] ^= 0x40 // inside the signed-data area: the quote signature no longer checks
	if sm := w.quotes["s"].msg["bin"]; sm != nil {
		// flip a byte of the quote signature itself, located through the parsed message
		if i := bytes.Index(sample, sm.GetSignedData().GetSignature()); i >= 0 {
			corrupt = append([]byte{}, sample...)
			corrupt[i+5] ^= 0x40
		}
	}
	addQuote("corrupt", "s", corrupt, nil)
	addQuote("unparsable", "s", nil, map[string][]byte{"bin": sample[:100], "proto": {0xff, 0xff, 0xff, 0x07}, "textproto": []byte("this is { not a quote")})
	addQuote("emptymsg", "s", nil, map[string][]byte{"bin": {}, "proto": {}, "textproto": {}})
	w.ref["s"], w.ref["g"] = w.quotes["s"].msg["bin"], w.quotes["g"].msg["bin"]
	if w.ref["s"] == nil || w.ref["g"] == nil {
		panic("sample or synthetic quote does not parse")
	}
	for name, q := range w.quotes {
		w.good[name] = "intel"
		if q.values == "g" {
			w.good[name] = "gen"
		}
	}
	return w
}

// ---------------------------------------------------------------------------------------------
// in-process library verdicts

type c19Getter struct {
	local  bool
	failed string // first URL whose fetch failed
}

func (g *c19Getter) Get(url string) (map[string][]string, []byte, error) {
	if g.local {
		h, b, err := testcases.TestGetter.Get(url)
		if err != nil && g.failed == "" {
			g.failed = url
		}
		return h, b, err
	}
	if g.failed == "" {
		g.failed = url
	}
	return nil, nil, errors.New("network unreachable (scripted)")
}

func c19FetchKind(url string) string {
	switch {
	case strings.Contains(url, "/tcb?"):
		return "tcb"
	case strings.Contains(url, "/qe/identity"):
		return "qe"
	case strings.Contains(url, "pckcrl"):
		return "pckcrl"
	default:
		return "rootcrl"
	}
}

func (w *c19World) realPaths(toks []string) []string {
	out := make([]string, len(toks))
	for i, t := range toks {
		out[i] = w.roots[t]
	}
	return out
}

func (w *c19World) realPems(toks []string) []string {
	out := make([]string, len(toks))
	for i, t := range toks {
		out[i] = w.pems[t]
	}
	return out
}

// verdict of the library for one candidate root of trust: rotbad | ok | fail | tcb | qe | pckcrl | rootcrl
func (w *c19World) verdict(q *pb.QuoteV4, qkey string, paths, bundles []string, gc, crl, local bool) string {
	key := fmt.Sprintf("%s|%s|%s|%v%v%v", qkey, strings.Join(paths, "+"), strings.Join(bundles, "+"), gc, crl, local)
	if v, ok := w.vmemo[key]; ok {
		return v
	}
	w.inproc++
	res, _ := hx.Guard(func() string {
		// the effective root of trust, built here from the statement (exactly the certificates the bundles list; the embedded
		// root when nothing is listed; an unreadable or certificate-free bundle is a usage error), not by the library's own
		// root-of-trust conversion — that function is part of what the tool's exit code depends on
		var pool *x509.CertPool
		rp, rb := w.realPaths(paths), w.realPems(bundles)
		if len(rp)+len(rb) > 0 {
			pool = x509.NewCertPool()
			for _, p := range rp {
				b, err := os.ReadFile(p)
				if err != nil || !pool.AppendCertsFromPEM(b) {
					return "rotbad"
				}
			}
			for _, t := range rb {
				if !pool.AppendCertsFromPEM([]byte(t)) {
					return "rotbad"
				}
			}
		}
		g := &c19Getter{local: local}
		opts := &verify.Options{TrustedRoots: pool, CheckRevocations: crl, GetCollateral: gc, Getter: g}
		err := verify.TdxQuote(proto.Clone(q), opts)
		if err == nil {
			return "ok"
		}
		if g.failed != "" {
			return c19FetchKind(g.failed)
		}
		return "fail"
	})
	if res == "panic" {
		res = "fail" // the library crashed on this quote in-process: it did not verify
	}
	w.vmemo[key] = res
	return res
}

// does a policy holding only this value of this field accept the quote?  (library call)
func (w *c19World) fieldAccepts(q *pb.QuoteV4, qkey string, f c19Field, v fval) bool {
	key := qkey + "|" + f.key + "|" + f.modelKey(v)
	if b, ok := w.bmemo[key]; ok {
		return b
	}
	w.inproc++
	res, _ := hx.Guard(func() string {
		p := emptyPolicy()
		f.set(p, v)
		opts, err := validate.PolicyToOptions(p)
		if err != nil {
			return "0"
		}
		if validate.TdxQuote(proto.Clone(q), opts) != nil {
			return "0"
		}
		return "1"
	})
	w.bmemo[key] = res == "1"
	return res == "1"
}

// ---------------------------------------------------------------------------------------------
// one planned invocation

type c19Choice struct {
	class     string
	given     bool   // flag present on the command line with a non-empty value
	arg       string // the flag's text
	malformed bool
	v         fval
	tok       string // model token for the flag
}

type c19Plan struct {
	fam      string
	cfgKind  string // none | bin | text | badbin | badtext | missing
	cfgUnknown string // text configs only: "" | "top" (an unknown top-level field appended) | "misspelt" (a field name of the config misspelt): not a Config
	shape    string // full | nopolicy | noheader | nobody | norot | empty
	quote    string
	format   string
	in       string // file | stdin | missing | badinform
	local    bool
	quiet    bool
	verbose  int
	slow     bool     // -timeout 1s -max_retry_delay 1s (as in the finding's reproduction) instead of the short ones
	delayTok string   // if set: -timeout=250ms -max_retry_delay=<delayTok> (the boundary values of the retry delay: 0, 1ns, negative)
	extra    []string // arguments for Go's flag package (F14 family)
	fpkBad   bool
	cfgClass map[string]string // field key -> class
	flgClass map[string]string
	cPaths   []string
	cBundles []string
	fRoots   string // "-" | tokens joined by "," | "E"
	cCrl     bool
	cGc      bool
	fCrl     string // "-" | true | false | bad | E
	fGc      string

	// derived
	cfg     *ccpb.Config
	cfgPath string
	args    []string
	stdin   []byte
	line    string
	accept  []int
	why     string
	key     string
	deep    bool
	tags    []string

	// result
	exit   int
	crash  string
	stderr string
}

func c19FlipLast(b []byte) []byte {
	x := append([]byte{}, b...)
	x[len(x)-1] ^= 0x01
	return x
}

// the config-side value of a field for a class
func (w *c19World) cfgValue(f c19Field, class string, ref *pb.QuoteV4) fval {
	m := f.ofQuote(ref)
	switch f.kind {
	case "num":
		switch class {
		case "M":
			return m
		case "X":
			return fval{n: m.n + 1}
		case "big":
			return fval{n: 70000}
		}
	case "bytes":
		switch class {
		case "M":
			return m
		case "X":
			if f.key == "mintee" {
				x := append([]byte{}, m.b...)
				x[0]++
				return fval{b: x}
			}
			return fval{b: c19FlipLast(m.b)}
		case "short":
			return fval{b: append([]byte{}, m.b[:f.size-3]...)}
		case "long":
			return fval{b: append(append([]byte{}, m.b...), 0)}
		case "one":
			return fval{b: []byte{0}}
		}
	case "rtmrs":
		switch class {
		case "M":
			return m
		case "X":
			l := [][]byte{m.list[0], m.list[1], c19FlipLast(m.list[2]), m.list[3]}
			return fval{list: l}
		case "two":
			return fval{list: [][]byte{m.list[0], m.list[1]}}
		case "badlen":
			return fval{list: [][]byte{m.list[0], m.list[1][:40], m.list[2], m.list[3]}}
		case "holes":
			return fval{list: [][]byte{m.list[0], {}, {}, m.list[3]}}
		}
	case "any":
		switch class {
		case "M":
			return m
		case "X":
			return fval{list: [][]byte{c19FlipLast(m.list[0])}}
		case "XM":
			return fval{list: [][]byte{c19FlipLast(m.list[0]), m.list[0]}}
		case "short":
			return fval{list: [][]byte{m.list[0][:20]}}
		}
	}
	return fval{}
}

func c19Pad(b []byte, n int) []byte {
	out := make([]byte, n)
	copy(out, b)
	return out
}

// the flag for a class
func (w *c19World) flagChoice(f c19Field, class string, ref *pb.QuoteV4) c19Choice {
	m := f.ofQuote(ref)
	c := c19Choice{class: class, tok: "unset"}
	dec := func(arg string, decoded []byte) {
		c.given, c.arg = true, arg
		if len(decoded) > f.size {
			c.malformed = true
		} else {
			c.v = fval{b: c19Pad(decoded, f.size)}
		}
		c.tok = "e"
		if len(decoded) > 0 {
			c.tok = hex.EncodeToString(decoded)
		}
	}
	switch class {
	case "-":
		return c
	case "E":
		c.arg = "" // `-flag=`: present but empty = unset
		c.class = "E"
		return c
	case "Z":
		c.given, c.arg, c.malformed, c.tok = true, "zz", true, "bad"
		return c
	}
	switch f.kind {
	case "num":
		switch class {
		case "M":
			c.given, c.arg, c.v, c.tok = true, fmt.Sprint(m.n), m, fmt.Sprint(m.n)
		case "Mhex":
			c.given, c.arg, c.v, c.tok = true, fmt.Sprintf("0x%x", m.n), m, fmt.Sprint(m.n)
		case "Mbin":
			c.given, c.arg, c.v, c.tok = true, fmt.Sprintf("0b%b", m.n), m, fmt.Sprint(m.n)
		case "Mlead0": // decimal digits with a leading zero are still decimal (README: 0x / 0o / 0b prefixes select the other bases)
			c.given, c.arg, c.v, c.tok = true, "0"+fmt.Sprint(m.n), m, fmt.Sprint(m.n)
		case "Xlead0":
			c.given, c.arg, c.v, c.tok = true, "00"+fmt.Sprint(m.n+1), fval{n: m.n + 1}, fmt.Sprint(m.n+1)
		case "under": // digit separators are not numbers here
			c.given, c.arg, c.malformed, c.tok = true, "1_0", true, "bad"
		case "X":
			c.given, c.arg, c.v, c.tok = true, fmt.Sprint(m.n+1), fval{n: m.n + 1}, fmt.Sprint(m.n+1)
		case "zero":
			c.given, c.arg, c.v, c.tok = true, "0", fval{n: 0}, "0"
		case "big":
			c.given, c.arg, c.v, c.tok = true, "70000", fval{n: 70000}, "70000"
		case "huge":
			c.given, c.arg, c.malformed, c.tok = true, "4294967296", true, "4294967296"
		case "neg":
			c.given, c.arg, c.malformed, c.tok = true, "-1", true, "bad"
		}
	case "bytes":
		x := c19FlipLast(m.b)
		if f.key == "mintee" {
			x = append([]byte{}, m.b...)
			x[0]++
		}
		switch class {
		case "M":
			dec(hex.EncodeToString(m.b), m.b)
		case "Mup":
			dec(strings.ToUpper(hex.EncodeToString(m.b)), m.b)
		case "B64":
			s := base64.StdEncoding.EncodeToString(m.b)
			if _, err := hex.DecodeString(s); err == nil {
				dec(hex.EncodeToString(m.b), m.b) // would be read as hex: fall back to plain hex
			} else {
				dec(s, m.b)
			}
		case "P": // trailing zero bytes left out: padding restores the value
			t := bytes.TrimRight(m.b, "\x00")
			if len(t) == 0 {
				t = m.b[:1]
			}
			dec(hex.EncodeToString(t), t)
		case "X":
			dec(hex.EncodeToString(x), x)
		case "S": // short and, once padded, different
			t := append([]byte{}, m.b[:f.size-3]...)
			t[0] ^= 0x80
			dec(hex.EncodeToString(t), t)
		case "SP": // a blank: decodes to nothing, padded to all zeros
			dec(" ", nil)
		case "L":
			l := append(append([]byte{}, m.b...), 0)
			dec(hex.EncodeToString(l), l)
		}
	case "rtmrs":
		join := func(l [][]byte) string {
			s := make([]string, len(l))
			for i := range l {
				s[i] = hex.EncodeToString(l[i])
			}
			return strings.Join(s, ",")
		}
		set := func(l [][]byte, arg string) {
			c.given, c.arg, c.v, c.tok = true, arg, fval{list: l}, hx.HexList(l)
		}
		switch class {
		case "M":
			set(m.list, join(m.list))
		case "Msp":
			set(m.list, strings.ReplaceAll(join(m.list), ",", " , "))
		case "X":
			l := [][]byte{m.list[0], m.list[1], c19FlipLast(m.list[2]), m.list[3]}
			set(l, join(l))
		case "two":
			l := [][]byte{m.list[0], m.list[1]}
			set(l, join(l))
		case "holes":
			l := [][]byte{{}, {}, {}, {}}
			set(l, ",,,")
		}
	}
	return c
}

var c19BoolTok = map[string]string{"-": "unset", "E": "unset", "true": "true", "false": "false", "bad": "bad"}

func (w *c19World) build(p *c19Plan, idx int) {
	q := w.quotes[p.quote]
	ref := w.ref[q.values]
	good := w.good[p.quote]
	resolve := func(toks []string) []string {
		out := make([]string, len(toks))
		for i, t := range toks {
			out[i] = t
			switch t {
			case "good":
				out[i] = good
			case "other+good":
				out[i] = "other+" + good
			case "good+other":
				out[i] = good + "+other"
			}
		}
		return out
	}
	p.cPaths, p.cBundles = resolve(p.cPaths), resolve(p.cBundles)
	cfgPresent := p.cfgKind == "bin" || p.cfgKind == "text"
	hasPol := cfgPresent && (p.shape == "full" || p.shape == "noheader" || p.shape == "nobody" || p.shape == "norot")
	hasHdr := hasPol && p.shape != "noheader"
	hasBody := hasPol && p.shape != "nobody"
	hasRot := cfgPresent && p.shape != "norot" && p.shape != "empty"

	// ---- the config message and file
	cfgVals := map[string]fval{}
	if cfgPresent {
		p.cfg = &ccpb.Config{}
		if hasPol {
			p.cfg.Policy = &ccpb.Policy{}
			if hasHdr {
				p.cfg.Policy.HeaderPolicy = &ccpb.HeaderPolicy{}
			}
			if hasBody {
				p.cfg.Policy.TdQuoteBodyPolicy = &ccpb.TDQuoteBodyPolicy{}
			}
			for _, f := range c19Fields {
				if (f.sub == "hdr" && !hasHdr) || (f.sub == "body" && !hasBody) {
					continue
				}
				v := w.cfgValue(f, p.cfgClass[f.key], ref)
				cfgVals[f.key] = v
				f.set(p.cfg.Policy, v)
			}
		}
		if hasRot {
			p.cfg.RootOfTrust = &ccpb.RootOfTrust{CabundlePaths: w.realPaths(p.cPaths), Cabundles: w.realPems(p.cBundles), CheckCrl: p.cCrl, GetCollateral: p.cGc}
		} else {
			p.cPaths, p.cBundles, p.cCrl, p.cGc = nil, nil, false, false
		}
	} else {
		p.cPaths, p.cBundles, p.cCrl, p.cGc = nil, nil, false, false
	}
	switch p.cfgKind {
	case "bin":
		b, err := proto.Marshal(p.cfg)
		if err != nil {
			panic(err)
		}
		p.cfgPath = c19MustWrite(filepath.Join(w.dir, "cfg", fmt.Sprintf("%d.pb", idx)), b)
	case "text":
		b, err := prototext.Marshal(p.cfg)
		if err != nil {
			panic(err)
		}
		if p.cfgUnknown != "" {
			// a text config that names a field the Config message does not have (a typo, a field of a newer schema): it is not a
			// Config — whatever constraint the author meant by it cannot be enforced
			txt := string(b)
			done := false
			if p.cfgUnknown == "misspelt" {
				for _, pair := range [][2]string{{"minimum_qe_svn", "minimum_qe_svm"}, {"check_crl", "check_clr"}, {"mr_td", "mrtd"}, {"td_quote_body_policy", "td_quote_body_polcy"}, {"root_of_trust", "root_of_trvst"}, {"policy", "polcy"}} {
					if strings.Contains(txt, pair[0]+":") || strings.Contains(txt, pair[0]+" {") || strings.Contains(txt, pair[0]+"{") {
						txt = strings.Replace(txt, pair[0], pair[1], 1)
						done = true
						break
					}
				}
			}
			if !done {
				txt += "\nno_such_field: 1\n"
			}
			b = []byte(txt)
			// for the model this is a config that cannot be read: nothing of its content counts
			cfgPresent, cfgVals = false, map[string]fval{}
			p.cPaths, p.cBundles, p.cCrl, p.cGc = nil, nil, false, false
		}
		p.cfgPath = c19MustWrite(filepath.Join(w.dir, "cfg", fmt.Sprintf("%d.textproto", idx)), b)
	case "badbin":
		p.cfgPath = c19MustWrite(filepath.Join(w.dir, "cfg", fmt.Sprintf("%d.pb", idx)), []byte{0x0a, 0xff, 0xff, 0xff, 0xff, 0x0f, 0x01})
	case "badtext":
		p.cfgPath = c19MustWrite(filepath.Join(w.dir, "cfg", fmt.Sprintf("%d.textproto", idx)), []byte("policy { header_policy { minimum_qe_svn: \"many\" } "))
	case "missing":
		p.cfgPath = filepath.Join(w.dir, "cfg", "no-such-config.pb")
	}

	// ---- the command line
	var args []string
	if p.cfgPath != "" {
		args = append(args, "-config="+p.cfgPath)
	}
	switch p.in {
	case "file":
		args = append(args, "-in="+q.files[p.format])
	case "stdin":
		p.stdin, _ = os.ReadFile(q.files[p.format])
		if p.stdin == nil {
			p.stdin = []byte{}
		}
	case "missing":
		args = append(args, "-in="+filepath.Join(w.dir, "no-such-quote.dat"))
	case "badinform":
		args = append(args, "-in="+q.files[p.format])
	}
	if p.in == "badinform" {
		args = append(args, "-inform=der")
	} else if p.format != "bin" || idx%2 == 0 {
		args = append(args, "-inform="+p.format)
	}
	flags := map[string]c19Choice{}
	for _, f := range c19Fields {
		if f.kind == "any" {
			continue
		}
		cl := p.flgClass[f.key]
		if cl == "" {
			cl = "-"
		}
		c := w.flagChoice(f, cl, ref)
		flags[f.key] = c
		if c.given || c.class == "E" {
			args = append(args, "-"+f.flag+"="+c.arg)
		}
	}
	for _, bf := range []struct{ name, v string }{{"check_crl", p.fCrl}, {"get_collateral", p.fGc}} {
		switch bf.v {
		case "true", "false":
			args = append(args, "-"+bf.name+"="+bf.v)
		case "bad":
			args = append(args, "-"+bf.name+"=maybe")
		case "E":
			args = append(args, "-"+bf.name+"=")
		}
	}
	var fRoots []string
	rootsTok, rootsBad := "unset", false
	switch p.fRoots {
	case "-", "":
	case "E":
		args = append(args, "-trusted_roots=")
	case "comma", "blank", "blanks-and-comma":
		// a list made of separators and white space only names no readable bundle: a usage error, not "flag not given"
		args = append(args, "-trusted_roots="+map[string]string{"comma": ",", "blank": " ", "blanks-and-comma": " , "}[p.fRoots])
		rootsBad, rootsTok = true, "bad"
	default:
		fRoots = resolve(strings.Split(p.fRoots, ","))
		args = append(args, "-trusted_roots="+strings.Join(w.realPaths(fRoots), ","))
		rootsTok = strings.Join(fRoots, ",")
		for _, t := range fRoots {
			if t == "missing" {
				rootsBad, rootsTok = true, "bad"
			}
		}
	}
	if p.local {
		args = append(args, "-test_local_getter")
	}
	if p.delayTok != "" {
		args = append(args, "-timeout=250ms", "-max_retry_delay="+p.delayTok)
	} else if p.slow {
		args = append(args, "-timeout=1s", "-max_retry_delay=1s")
	} else {
		args = append(args, "-timeout=250ms", "-max_retry_delay=100ms")
	}
	if p.quiet {
		args = append(args, "-quiet")
	}
	if p.verbose > 0 {
		args = append(args, fmt.Sprintf("-verbosity=%d", p.verbose))
	}
	args = append(args, p.extra...)
	p.args = args

	// ---- facts for the model
	quoteFact := "parsed"
	msg := q.msg[p.format]
	switch {
	case p.in == "missing":
		quoteFact, msg = "unreadable", nil
	case p.in == "badinform":
		quoteFact, msg = "badinform", nil
	case msg == nil:
		quoteFact = "unparsable"
	}
	qkey := p.quote + "/" + p.format
	tableMsg := msg
	if tableMsg == nil {
		tableMsg, qkey = ref, q.values+"/ref" // never consulted by the tool; the tables still have to be total for the model
	}
	var sb strings.Builder
	fmt.Fprintf(&sb, "C19.run fpk=%d quote=%s", hx.B(!p.fpkBad), quoteFact)
	switch p.cfgKind {
	case "none":
		sb.WriteString(" cfg=none")
	case "bin", "text":
		if p.cfgUnknown != "" {
			sb.WriteString(" cfg=bad")
		} else {
			sb.WriteString(" cfg=file")
		}
	default:
		sb.WriteString(" cfg=bad")
	}
	if cfgPresent {
		fmt.Fprintf(&sb, " c.pol=%d c.hdr=%d c.body=%d c.rot=%d", hx.B(hasPol), hx.B(hasHdr), hx.B(hasBody), hx.B(hasRot))
		for _, f := range c19Fields {
			fmt.Fprintf(&sb, " c.%s=%s", f.key, f.modelKey(cfgVals[f.key]))
		}
		tl := func(l []string) string {
			if len(l) == 0 {
				return "-"
			}
			return strings.Join(l, ",")
		}
		fmt.Fprintf(&sb, " c.paths=%s c.bundles=%s c.crl=%d c.gc=%d", tl(p.cPaths), tl(p.cBundles), hx.B(p.cCrl), hx.B(p.cGc))
	}
	for _, f := range c19Fields {
		if f.kind != "any" {
			fmt.Fprintf(&sb, " f.%s=%s", f.key, flags[f.key].tok)
		}
	}
	fmt.Fprintf(&sb, " f.crl=%s f.gc=%s f.roots=%s", c19BoolTok[p.fCrl], c19BoolTok[p.fGc], rootsTok)
	// verdict table: every root of trust the merge could produce
	pathCands := [][]string{p.cPaths}
	if len(fRoots) > 0 && !rootsBad {
		pathCands = append(pathCands, fRoots)
	}
	var vt []string
	seen := map[string]bool{}
	for _, pc := range pathCands {
		for _, gc := range []bool{false, true} {
			for _, crl := range []bool{false, true} {
				k := fmt.Sprintf("%s/%s/%d%d", c19Join(pc), c19Join(p.cBundles), hx.B(gc), hx.B(crl))
				if seen[k] {
					continue
				}
				seen[k] = true
				vt = append(vt, k+":"+w.verdict(tableMsg, qkey, pc, p.cBundles, gc, crl, p.local))
			}
		}
	}
	fmt.Fprintf(&sb, " vt=%s", strings.Join(vt, ";"))
	// per-field acceptance tables: default, config value, flag value
	for _, f := range c19Fields {
		cands := []fval{{}}
		if f.kind == "num" {
			cands = []fval{{n: 0}}
		}
		if v, ok := cfgVals[f.key]; ok {
			cands = append(cands, v)
		}
		if c, ok := flags[f.key]; ok && c.given && !c.malformed {
			cands = append(cands, c.v)
		}
		var ent []string
		seenV := map[string]bool{}
		for _, v := range cands {
			k := f.modelKey(v)
			if seenV[k] {
				continue
			}
			seenV[k] = true
			ent = append(ent, fmt.Sprintf("%s:%d", k, hx.B(w.fieldAccepts(tableMsg, qkey, f, v))))
		}
		fmt.Fprintf(&sb, " pm.%s=%s", f.key, strings.Join(ent, ";"))
	}
	// the concrete command line, for the replay file only (the model ignores the key); $D = <out>/c19
	av := make([]string, len(p.args))
	for i, a := range p.args {
		av[i] = strings.ReplaceAll(strings.ReplaceAll(a, w.dir, "$D"), " ", "%20")
	}
	if p.stdin != nil {
		av = append(av, "<"+strings.ReplaceAll(q.files[p.format], w.dir, "$D"))
	}
	fmt.Fprintf(&sb, " argv=%s", strings.Join(av, "|"))
	p.line = sb.String()

	// ---- the oracle's expectation, from the property statement
	p.oracle(w, msg, quoteFact, cfgPresent, cfgVals, flags, fRoots, rootsBad)
	p.key = fmt.Sprintf("%s|%s|%s|%s|%s|%s|%v|%v|%v|%s|%s|%s|%v|%v|%s", p.cfgKind+p.cfgUnknown, p.shape, p.quote, p.format, p.in, c19Classes(p), p.cPaths, p.cBundles, p.fRoots, p.fCrl, p.fGc, p.extra, p.cCrl, p.cGc, fmt.Sprint(p.local)+p.delayTok)
}

func c19Join(l []string) string {
	if len(l) == 0 {
		return "-"
	}
	return strings.Join(l, "+")
}

func c19Classes(p *c19Plan) string {
	var s []string
	for _, f := range c19Fields {
		a, b := p.cfgClass[f.key], p.flgClass[f.key]
		if a != "" && a != "-" || b != "" && b != "-" {
			s = append(s, f.key+":"+a+"/"+b)
		}
	}
	return strings.Join(s, ",")
}

// The property, directly: effective value = flag if given, else the config's, else the default; the
// acceptable exit codes follow from what the library says about the effective settings.
func (p *c19Plan) oracle(w *c19World, msg *pb.QuoteV4, quoteFact string, cfgPresent bool, cfgVals map[string]fval, flags map[string]c19Choice, fRoots []string, rootsBad bool) {
	usage := ""
	note := func(s string) {
		if usage == "" {
			usage = s
		}
	}
	if p.fpkBad {
		note("usage-flagpkg: command line rejected by the flag package")
	}
	if p.cfgKind == "badbin" || p.cfgKind == "badtext" || p.cfgKind == "missing" || p.cfgUnknown != "" {
		note("unreadable config")
	}
	pol := emptyPolicy()
	malformedField := ""
	for _, f := range c19Fields {
		v := cfgVals[f.key] // zero when the config (or its sub-message) is absent = the default
		if c, ok := flags[f.key]; ok && c.given {
			if c.malformed {
				note("malformed flag -" + f.flag)
				continue
			}
			v = c.v
		}
		if malformedField == "" && f.malformed(v) {
			malformedField = f.flag
		}
		f.set(pol, v)
	}
	eb := func(flag string, cfg bool) bool {
		switch flag {
		case "true":
			return true
		case "false":
			return false
		case "bad":
			note("malformed bool flag")
		}
		return cfg // unset: the config's value (false when there is none = the default)
	}
	crl, gc := eb(p.fCrl, p.cCrl), eb(p.fGc, p.cGc)
	paths := p.cPaths
	if rootsBad {
		note("-trusted_roots names a path that is not a file")
	} else if len(fRoots) > 0 {
		paths = fRoots
	}
	deep := usage == ""
	if usage == "" && crl && !gc {
		note("check_crl without get_collateral")
	}
	switch quoteFact {
	case "unreadable", "badinform":
		note("quote argument unusable")
	}
	set := map[int]bool{}
	finish := func(why string) {
		for c := range set {
			p.accept = append(p.accept, c)
		}
		sort.Ints(p.accept)
		p.why, p.deep = why, deep
	}
	if usage != "" {
		set[1] = true
		finish(usage)
		return
	}
	if quoteFact == "unparsable" {
		set[1], set[2] = true, true // O-5
		finish("unparsable quote")
		return
	}
	v := w.verdict(msg, p.quote+"/"+p.format, paths, p.cBundles, gc, crl, p.local)
	p.tags = append(p.tags, "verify:"+v)
	// well-formedness of the effective policy is read off checkconfig.proto ("should be N bytes",
	// "should not exceed uint16 max"), not asked of the code
	convOK, valid := malformedField == "", false
	hx.Guard(func() string {
		opts, err := validate.PolicyToOptions(pol)
		if err != nil {
			return ""
		}
		valid = validate.TdxQuote(proto.Clone(msg), opts) == nil
		return ""
	})
	switch v {
	case "rotbad":
		set[1] = true
		finish("root bundle cannot be loaded")
		return
	case "ok":
	case "fail":
		set[2] = true
		if !convOK {
			set[1] = true
		}
		finish("the library rejects the quote under the effective root of trust")
		return
	default:
		set[3] = true
		if !convOK {
			set[1] = true
		}
		finish("download failure (" + v + ")")
		return
	}
	if !convOK {
		set[1] = true
		finish("malformed-field: the effective " + malformedField + " has a size/range checkconfig.proto forbids")
		return
	}
	if !valid {
		set[4] = true
		finish("the quote does not satisfy the effective policy")
		return
	}
	set[0] = true
	finish("verifies and satisfies the effective policy")
}

// ---------------------------------------------------------------------------------------------
// running the binary

var c19DeadProxy = "http://127.0.0.1:9" // nothing listens there: every fetch of the real getter fails at once

func (w *c19World) run(p *c19Plan) {
	cmd := exec.Command(w.bin, p.args...)
	cmd.Dir = w.dir
	cmd.Env = []string{"HTTPS_PROXY=" + c19DeadProxy, "HTTP_PROXY=" + c19DeadProxy, "https_proxy=" + c19DeadProxy, "http_proxy=" + c19DeadProxy, "NO_PROXY=", "no_proxy=", "HOME=" + w.dir, "PATH=/usr/bin:/bin"}
	if p.stdin != nil {
		cmd.Stdin = bytes.NewReader(p.stdin)
		if len(p.stdin) > 64 && len(p.args)%3 == 0 {
			// a producer that delivers the quote in two writes with a pause in between (a pipe from a slow tool): the quote is what
			// arrives until end of input
			pr, pw := io.Pipe()
			data := p.stdin
			go func() {
				pw.Write(data[:len(data)/2])
				time.Sleep(150 * time.Millisecond)
				pw.Write(data[len(data)/2:])
				pw.Close()
			}()
			cmd.Stdin = pr
		}
	}
	var stderr bytes.Buffer
	cmd.Stderr = &stderr
	done := make(chan error, 1)
	if err := cmd.Start(); err != nil {
		p.exit, p.crash = -1, "cannot start: "+err.Error()
		return
	}
	go func() { done <- cmd.Wait() }()
	select {
	case err := <-done:
		p.exit = 0
		if err != nil {
			var ee *exec.ExitError
			if errors.As(err, &ee) {
				p.exit = ee.ExitCode()
			} else {
				p.exit = -1
			}
		}
	case <-time.After(60 * time.Second):
		cmd.Process.Kill()
		<-done
		p.exit, p.crash = -2, "timeout after 60 s"
	}
	se := stderr.String()
	if strings.Contains(se, "panic:") || strings.Contains(se, "goroutine ") || strings.Contains(se, "fatal error:") {
		where := "?"
		lines := strings.Split(se, "\n")
		for i, l := range lines {
			if strings.HasPrefix(l, "goroutine ") && i+1 < len(lines) {
				where = strings.TrimSpace(lines[i+1])
				// skip runtime frames
				for j := i + 1; j < len(lines); j++ {
					t := strings.TrimSpace(lines[j])
					if t != "" && !strings.HasPrefix(t, "panic(") && !strings.HasPrefix(t, "runtime.") && !strings.HasPrefix(t, "/") && !strings.HasPrefix(t, "goroutine") {
						where = t
						break
					}
				}
				break
			}
		}
		if k := strings.Index(where, "("); k > 0 {
			where = where[:k]
		}
		p.crash = "panic in " + where
	}
	if len(se) > 400 {
		se = se[:400]
	}
	p.stderr = se
}

func (p *c19Plan) observed() string {
	if p.crash != "" {
		return "crash"
	}
	return fmt.Sprintf("exit=%d", p.exit)
}

func (p *c19Plan) verdict() string {
	if p.crash != "" {
		return fmt.Sprintf("crash: %s (exit status %d); input class: %s", p.crash, p.exit, p.why)
	}
	for _, c := range p.accept {
		if c == p.exit {
			return ""
		}
	}
	pre := ""
	switch {
	case strings.HasPrefix(p.why, "usage-flagpkg"):
		pre = "usage-flagpkg: "
	case p.exit == 0:
		pre = "false-success: "
	case strings.HasPrefix(p.why, "download failure"):
		pre = "download-failure: "
	}
	return fmt.Sprintf("%sexit status %d, the property allows %v: %s", pre, p.exit, p.accept, p.why)
}

// ---------------------------------------------------------------------------------------------
// the grid

type c19Dim struct {
	name   string
	vals   []string
	benign int // the first `benign` values lead to success in a healthy setting
}

func c19Dims() []c19Dim {
	d := []c19Dim{
		{"cfgKind", []string{"none", "bin", "text", "badbin", "badtext", "missing"}, 3},
		{"shape", []string{"full", "full", "norot", "nopolicy", "empty", "noheader", "nobody"}, 7},
		{"quote", []string{"s", "g", "corrupt", "unparsable", "emptymsg"}, 2},
		{"format", []string{"bin", "proto", "textproto"}, 3},
		{"in", []string{"file", "stdin", "missing", "badinform"}, 2},
		{"quiet", []string{"0", "1"}, 2},
		{"verbose", []string{"0", "2"}, 2},
		{"c.paths", []string{"-", "good", "good,other", "other", "garbage", "missing", "other+good", "good+other"}, 3},
		{"c.bundles", []string{"-", "good", "garbage", "other+good"}, 2},
		{"f.roots", []string{"-", "good", "E", "other,good", "other", "garbage", "missing", "other+good", "good+other", "comma", "blank", "blanks-and-comma"}, 4},
		{"c.crl", []string{"0", "1"}, 1},
		{"c.gc", []string{"0", "1"}, 1},
		{"f.crl", []string{"-", "false", "E", "true", "bad"}, 3},
		{"f.gc", []string{"-", "false", "E", "true", "bad"}, 3},
	}
	for _, f := range c19Fields {
		switch f.kind {
		case "num":
			d = append(d, c19Dim{"c." + f.key, []string{"-", "M", "X", "big"}, 2})
			d = append(d, c19Dim{"f." + f.key, []string{"-", "M", "Mhex", "E", "Mbin", "zero", "X", "big", "huge", "neg", "Z", "Mlead0", "Xlead0", "under"}, 6})
		case "bytes":
			cv := []string{"-", "M", "X", "short", "long"}
			if f.key == "mintee" {
				cv = append(cv, "one")
			}
			d = append(d, c19Dim{"c." + f.key, cv, 2})
			d = append(d, c19Dim{"f." + f.key, []string{"-", "M", "P", "E", "Mup", "B64", "X", "S", "SP", "L", "Z"}, 6})
		case "rtmrs":
			d = append(d, c19Dim{"c." + f.key, []string{"-", "M", "holes", "X", "two", "badlen"}, 3})
			d = append(d, c19Dim{"f." + f.key, []string{"-", "M", "E", "Msp", "holes", "X", "two", "Z"}, 5})
		case "any":
			d = append(d, c19Dim{"c." + f.key, []string{"-", "M", "XM", "X", "short"}, 3})
		}
	}
	return d
}

type c19Grid struct {
	dims []c19Dim
	idx  map[string]int
	rng  *mrand.Rand
}

func (g *c19Grid) val(row []int, name string) string { return g.dims[g.idx[name]].vals[row[g.idx[name]]] }

// is (dim d = value v) possible together with (dim e = value u)?
func (g *c19Grid) compatible(d, v, e, u int) bool {
	if d == e {
		return v == u
	}
	return g.oneWay(d, v, e, u) && g.oneWay(e, u, d, v)
}

// the constraint (a = av) puts on (b = bv): config-side choices need a config file and the sub-message
func (g *c19Grid) oneWay(a, av, b, bv int) bool {
	an, x := g.dims[a].name, g.dims[a].vals[av]
	bn, y := g.dims[b].name, g.dims[b].vals[bv]
	cfgSide := strings.HasPrefix(bn, "c.") && y != "-" && y != "0"
	switch an {
	case "cfgKind":
		if x != "bin" && x != "text" && (cfgSide || (bn == "shape" && y != "full")) {
			return false
		}
	case "shape":
		if !cfgSide {
			return true
		}
		rot := bn == "c.paths" || bn == "c.bundles" || bn == "c.crl" || bn == "c.gc"
		hdr := bn == "c.qe" || bn == "c.pce" || bn == "c.qvid"
		switch x {
		case "norot":
			return !rot
		case "empty":
			return false
		case "nopolicy":
			return rot
		case "noheader":
			return !hdr
		case "nobody":
			return rot || hdr
		}
	}
	return true
}

// a row in which everything not locked is benign (absent or matching) and consistent with the locked choices
func (g *c19Grid) base(locked map[int]int) []int {
	row := make([]int, len(g.dims))
	decided := make([]bool, len(g.dims))
	for i, v := range locked {
		row[i], decided[i] = v, true
	}
	fits := func(i, v int) bool {
		for j := range row {
			if decided[j] && j != i && !g.compatible(i, v, j, row[j]) {
				return false
			}
		}
		return true
	}
	for i, d := range g.dims {
		if decided[i] {
			continue
		}
		want := int(g.rng.UintN(uint(d.benign)))
		if (strings.HasPrefix(d.name, "c.") || strings.HasPrefix(d.name, "f.")) && g.rng.UintN(100) < 72 {
			want = 0 // mostly absent
		}
		if !fits(i, want) {
			want = -1
			for v := range d.vals {
				if fits(i, v) {
					want = v
					break
				}
			}
			if want < 0 {
				panic("grid: no value of " + d.name + " fits the locked choices")
			}
		}
		row[i], decided[i] = want, true
	}
	// the synthetic quote verifies only under its own root: give it one unless the roots are what is being varied
	qi, fr := g.idx["quote"], g.idx["f.roots"]
	_, l1 := locked[fr]
	_, l2 := locked[g.idx["c.paths"]]
	_, l3 := locked[g.idx["c.bundles"]]
	if g.dims[qi].vals[row[qi]] == "g" && !l1 && !l2 && !l3 {
		row[fr] = 1
	}
	return row
}

func (g *c19Grid) consistent(row []int) bool {
	for i := range row {
		for j := i + 1; j < len(row); j++ {
			if !g.compatible(i, row[i], j, row[j]) {
				return false
			}
		}
	}
	return true
}

func (g *c19Grid) plan(row []int, fam string) *c19Plan {
	p := &c19Plan{fam: fam, cfgClass: map[string]string{}, flgClass: map[string]string{}}
	split := func(s string) []string {
		if s == "-" {
			return nil
		}
		return strings.Split(s, ",")
	}
	p.cfgKind, p.shape, p.quote, p.format, p.in = g.val(row, "cfgKind"), g.val(row, "shape"), g.val(row, "quote"), g.val(row, "format"), g.val(row, "in")
	p.quiet, p.local = g.val(row, "quiet") == "1", true
	if g.val(row, "verbose") == "2" {
		p.verbose = 2
	}
	p.cPaths, p.cBundles, p.fRoots = split(g.val(row, "c.paths")), split(g.val(row, "c.bundles")), g.val(row, "f.roots")
	p.cCrl, p.cGc, p.fCrl, p.fGc = g.val(row, "c.crl") == "1", g.val(row, "c.gc") == "1", g.val(row, "f.crl"), g.val(row, "f.gc")
	for _, f := range c19Fields {
		p.cfgClass[f.key] = g.val(row, "c."+f.key)
		if f.kind != "any" {
			p.flgClass[f.key] = g.val(row, "f."+f.key)
		}
	}
	return p
}

type c19Elem struct{ d, v int }

type c19Cover struct {
	g     *c19Grid
	elems []c19Elem
	id    map[c19Elem]int
	bits  []uint64
	t     int
}

func (g *c19Grid) newCover(t int) *c19Cover {
	c := &c19Cover{g: g, id: map[c19Elem]int{}, t: t}
	for d := range g.dims {
		for v := range g.dims[d].vals {
			c.id[c19Elem{d, v}] = len(c.elems)
			c.elems = append(c.elems, c19Elem{d, v})
		}
	}
	if len(c.elems) > 512 {
		panic("grid: too many (dimension,value) elements")
	}
	n := 512 * 512
	if t == 3 {
		n *= 512
	}
	c.bits = make([]uint64, n/64)
	return c
}

func (c *c19Cover) key(es []c19Elem) int {
	k := 0
	for _, e := range es {
		k = k*512 + c.id[e]
	}
	return k
}
func (c *c19Cover) has(es []c19Elem) bool { k := c.key(es); return c.bits[k/64]&(1<<(k%64)) != 0 }
func (c *c19Cover) mark(row []int) {
	n := len(row)
	ids := make([]int, n)
	for i := range row {
		ids[i] = c.id[c19Elem{i, row[i]}]
	}
	set := func(k int) { c.bits[k/64] |= 1 << (k % 64) }
	for i := 0; i < n; i++ {
		for j := i + 1; j < n; j++ {
			if c.t == 2 {
				set(ids[i]*512 + ids[j])
				continue
			}
			for k := j + 1; k < n; k++ {
				set((ids[i]*512+ids[j])*512 + ids[k])
			}
		}
	}
}

// elements sorted by dimension, pairwise different dimensions, pairwise compatible
func (c *c19Cover) feasible(es []c19Elem) bool {
	for i := range es {
		for j := i + 1; j < len(es); j++ {
			if es[i].d >= es[j].d || !c.g.compatible(es[i].d, es[i].v, es[j].d, es[j].v) {
				return false
			}
		}
	}
	return true
}

// can tuple es be added to the locked choices?
func (c *c19Cover) fits(locked map[int]int, es []c19Elem) bool {
	for _, e := range es {
		if v, ok := locked[e.d]; ok && v != e.v {
			return false
		}
		for d, v := range locked {
			if d != e.d && !c.g.compatible(d, v, e.d, e.v) {
				return false
			}
		}
	}
	return true
}

// pairwise covering rows: every feasible pair of (dimension, value) choices occurs in a row whose
// remaining choices are benign; up to perRow uncovered pairs are packed into one row
func (g *c19Grid) pairwise(perRow int, emit func(row []int)) (tuples, rows int) {
	c := g.newCover(2)
	var pending [][]c19Elem
	for i := range c.elems {
		for j := i + 1; j < len(c.elems); j++ {
			es := []c19Elem{c.elems[i], c.elems[j]}
			if c.feasible(es) {
				pending = append(pending, es)
			}
		}
	}
	tuples = len(pending)
	g.rng.Shuffle(len(pending), func(i, j int) { pending[i], pending[j] = pending[j], pending[i] })
	for pi := range pending {
		if c.has(pending[pi]) {
			continue
		}
		locked := map[int]int{}
		for _, e := range pending[pi] {
			locked[e.d] = e.v
		}
		for probe, packed := pi+1, 1; probe < len(pending) && probe < pi+600 && packed < perRow; probe++ {
			if !c.has(pending[probe]) && c.fits(locked, pending[probe]) {
				for _, e := range pending[probe] {
					locked[e.d] = e.v
				}
				packed++
			}
		}
		row := g.base(locked)
		if !g.consistent(row) {
			panic(fmt.Sprintf("grid: inconsistent row for %v", locked))
		}
		c.mark(row)
		emit(row)
		rows++
	}
	return
}

// n rows built around random not yet covered feasible triples; returns the 3-wise coverage reached
func (g *c19Grid) triples(n, perRow int, seedRows [][]int, emit func(row []int)) (covered, feasible int) {
	c := g.newCover(3)
	for _, r := range seedRows {
		c.mark(r)
	}
	pick := func() []c19Elem {
		for tries := 0; tries < 1000; tries++ {
			es := []c19Elem{c.elems[g.rng.IntN(len(c.elems))], c.elems[g.rng.IntN(len(c.elems))], c.elems[g.rng.IntN(len(c.elems))]}
			sort.Slice(es, func(i, j int) bool { return es[i].d < es[j].d })
			if c.feasible(es) && !c.has(es) {
				return es
			}
		}
		return nil
	}
	for i := 0; i < n; i++ {
		first := pick()
		if first == nil {
			break
		}
		locked := map[int]int{}
		for _, e := range first {
			locked[e.d] = e.v
		}
		for packed, tries := 1, 0; packed < perRow && tries < 50; tries++ {
			if es := pick(); es != nil && c.fits(locked, es) {
				for _, e := range es {
					locked[e.d] = e.v
				}
				packed++
			}
		}
		row := g.base(locked)
		if !g.consistent(row) {
			panic(fmt.Sprintf("grid: inconsistent row for %v", locked))
		}
		c.mark(row)
		emit(row)
	}
	// the rest by enumeration: every feasible triple not yet covered gets a row
	var left [][]c19Elem
	for i := range c.elems {
		for j := i + 1; j < len(c.elems); j++ {
			if !c.feasible([]c19Elem{c.elems[i], c.elems[j]}) {
				continue
			}
			for k := j + 1; k < len(c.elems); k++ {
				es := []c19Elem{c.elems[i], c.elems[j], c.elems[k]}
				if c.feasible(es) {
					feasible++
					if !c.has(es) {
						left = append(left, es)
					}
				}
			}
		}
	}
	g.rng.Shuffle(len(left), func(i, j int) { left[i], left[j] = left[j], left[i] })
	for li := range left {
		if c.has(left[li]) {
			continue
		}
		locked := map[int]int{}
		for _, e := range left[li] {
			locked[e.d] = e.v
		}
		for probe, packed := li+1, 1; probe < len(left) && probe < li+300 && packed < perRow; probe++ {
			if !c.has(left[probe]) && c.fits(locked, left[probe]) {
				for _, e := range left[probe] {
					locked[e.d] = e.v
				}
				packed++
			}
		}
		row := g.base(locked)
		if !g.consistent(row) {
			panic(fmt.Sprintf("grid: inconsistent row for %v", locked))
		}
		c.mark(row)
		emit(row)
	}
	covered = feasible
	for _, es := range left {
		if !c.has(es) {
			covered--
		}
	}
	return
}

// ---------------------------------------------------------------------------------------------

func c19(r *hx.Run) {
	w := c19NewWorld(r)
	dims := c19Dims()
	g := &c19Grid{dims: dims, idx: map[string]int{}, rng: r.Rng(1901)}
	for i, d := range dims {
		g.idx[d.name] = i
	}
	var plans []*c19Plan
	add := func(p *c19Plan) { plans = append(plans, p) }
	lock := func(kv ...string) map[int]int {
		m := map[int]int{}
		for i := 0; i+1 < len(kv); i += 2 {
			d := g.idx[kv[i]]
			found := false
			for vi, v := range dims[d].vals {
				if v == kv[i+1] {
					m[d], found = vi, true
					break
				}
			}
			if !found {
				panic("grid: no value " + kv[i+1] + " in " + kv[i])
			}
		}
		return m
	}
	thorough := r.Tier == "thorough"

	// -- A: per field, the complete override matrix (config class x flag class) in a benign setting
	reps := 1
	if thorough {
		reps = 4
	}
	for _, f := range c19Fields {
		cd := dims[g.idx["c."+f.key]]
		fvals := []string{"-"}
		if f.kind != "any" {
			fvals = dims[g.idx["f."+f.key]].vals
		}
		for _, cv := range cd.vals {
			for _, fv := range fvals {
				for _, kind := range []string{"none", "bin", "text"} {
					if kind == "none" && cv != "-" {
						continue
					}
					for _, quote := range []string{"s", "g"} {
						for rep := 0; rep < reps; rep++ {
							kv := []string{"cfgKind", kind, "quote", quote, "c." + f.key, cv, "in", "file"}
							if f.kind != "any" {
								kv = append(kv, "f."+f.key, fv)
							}
							if kind != "none" {
								kv = append(kv, "shape", "full")
							}
							row := g.base(lock(kv...))
							if g.consistent(row) {
								add(g.plan(row, "A:"+f.key))
							}
						}
					}
				}
			}
		}
	}
	// -- C: root of trust, exhaustive over (config crl, config gc, flag crl, flag gc) and over the root bundles
	for _, kind := range []string{"none", "bin", "text"} {
		for _, ccrl := range []string{"0", "1"} {
			for _, cgc := range []string{"0", "1"} {
				if kind == "none" && (ccrl != "0" || cgc != "0") {
					continue
				}
				for _, fcrl := range dims[g.idx["f.crl"]].vals {
					for _, fgc := range dims[g.idx["f.gc"]].vals {
						kv := []string{"cfgKind", kind, "c.crl", ccrl, "c.gc", cgc, "f.crl", fcrl, "f.gc", fgc, "quote", "s", "in", "file"}
						if kind != "none" {
							kv = append(kv, "shape", "full")
						}
						add(g.plan(g.base(lock(kv...)), "C:bools"))
					}
				}
			}
		}
		for _, cp := range dims[g.idx["c.paths"]].vals {
			for _, cb := range dims[g.idx["c.bundles"]].vals {
				if kind == "none" && (cp != "-" || cb != "-") {
					continue
				}
				for _, fr := range dims[g.idx["f.roots"]].vals {
					for _, quote := range []string{"s", "g"} {
						kv := []string{"cfgKind", kind, "c.paths", cp, "c.bundles", cb, "f.roots", fr, "quote", quote, "in", "file"}
						if kind != "none" {
							kv = append(kv, "shape", "full")
						}
						add(g.plan(g.base(lock(kv...)), "C:roots"))
					}
				}
			}
		}
	}
	// -- F: config shapes (absent sub-messages) x a flag of each kind x config kinds
	for _, kind := range []string{"bin", "text"} {
		for _, shape := range []string{"full", "norot", "nopolicy", "empty", "noheader", "nobody"} {
			for _, fl := range [][]string{{}, {"f.qe", "M"}, {"f.qvid", "M"}, {"f.mrtd", "M"}, {"f.mrtd", "X"}, {"f.rtmrs", "M"}, {"f.crl", "bad"}, {"f.mrseam", "Z"}, {"f.gc", "false"}} {
				for _, quote := range []string{"s", "g"} {
					kv := append([]string{"cfgKind", kind, "shape", shape, "quote", quote, "in", "file"}, fl...)
					row := g.base(lock(kv...))
					if g.consistent(row) {
						add(g.plan(row, "F:shapes"))
					}
				}
			}
		}
	}
	// -- Q: quotes x formats x input channel
	for _, quote := range dims[g.idx["quote"]].vals {
		for _, format := range c19Formats {
			for _, in := range dims[g.idx["in"]].vals {
				for _, verbose := range []string{"0", "2"} {
					add(g.plan(g.base(lock("quote", quote, "format", format, "in", in, "verbose", verbose)), "Q:quotes"))
				}
			}
		}
	}
	// -- B: pairwise over all dimensions, other choices benign; thorough adds rows around uncovered triples
	per := 3
	if thorough {
		per = 1
	}
	var brows [][]int
	tuples, rows := g.pairwise(per, func(row []int) { brows = append(brows, row); add(g.plan(row, "B:pairwise")) })
	cov3, feas3 := 0, 0
	if thorough {
		cov3, feas3 = g.triples(24000, 4, brows, func(row []int) { add(g.plan(row, "B:3-wise")) })
	}
	// -- N: the real getter, network unreachable
	nrep := 1
	if thorough {
		nrep = 3
	}
	for rep := 0; rep < nrep; rep++ {
		for _, src := range [][]string{{"cfgKind", "none", "f.gc", "true"}, {"cfgKind", "bin", "shape", "full", "c.gc", "1"}, {"cfgKind", "text", "shape", "full", "c.gc", "1"},
			{"cfgKind", "bin", "shape", "full", "c.gc", "1", "f.gc", "false"}, {"cfgKind", "text", "shape", "full", "c.gc", "0", "f.gc", "true"}} {
			for _, crl := range []string{"-", "true"} {
				for _, quote := range []string{"s", "g", "corrupt"} {
					kv := append([]string{"quote", quote, "f.crl", crl, "in", "file"}, src...)
					p := g.plan(g.base(lock(kv...)), "N:network")
					p.local = false
					p.slow = rep == 0 && quote == "s" && crl == "-"
					add(p)
				}
			}
		}
	}
	// the same with the retry delay at its boundary values: an unreachable service is a download failure whatever the delay
	for _, tok := range []string{"0", "1ns", "-1s", "0s"} {
		for _, crl := range []string{"-", "true"} {
			for _, quote := range []string{"s", "g"} {
				p := g.plan(g.base(lock("quote", quote, "f.crl", crl, "in", "file", "cfgKind", "none", "f.gc", "true")), "N:network")
				p.local = false
				p.delayTok = tok
				p.tags = append(p.tags, "retry-delay:"+tok)
				add(p)
			}
		}
	}
	// -- U: text configs that name a field the Config message does not have
	for _, unk := range []string{"top", "misspelt"} {
		for _, shape := range []string{"full", "nopolicy", "norot", "empty"} {
			for _, quote := range []string{"s", "g", "corrupt"} {
				p := g.plan(g.base(lock("cfgKind", "text", "shape", shape, "quote", quote, "in", "file")), "U:unknown-field")
				p.cfgUnknown = unk
				p.tags = append(p.tags, "unknown-field:"+unk)
				add(p)
			}
		}
	}
	// -- P: what Go's flag package rejects (or accepts silently)
	for _, ex := range [][]string{{"-timeout=abc"}, {"-no_such_flag"}, {"-verbosity=x"}, {"-quiet=maybe"}, {"-test_local_getter=2"}, {"-max_retry_delay=fast"}, {"-h"}, {"-help"}, {"-in"}} {
		for _, quote := range []string{"s", "corrupt"} {
			for _, kind := range []string{"none", "text"} {
				kv := []string{"quote", quote, "cfgKind", kind, "in", "file"}
				if kind != "none" {
					kv = append(kv, "shape", "full")
				}
				p := g.plan(g.base(lock(kv...)), "P:flagpkg")
				p.extra, p.fpkBad = ex, true
				add(p)
			}
		}
	}

	// the small families first: the first recorded failures then show one input of every kind
	prio := map[byte]int{'N': 0, 'P': 1, 'Q': 2, 'F': 3, 'C': 4, 'A': 5, 'B': 6, 'U': 2}
	sort.SliceStable(plans, func(i, j int) bool { return prio[plans[i].fam[0]] < prio[plans[j].fam[0]] })
	for i, p := range plans {
		w.build(p, i)
	}
	// run the binary, 16 at a time
	var wg sync.WaitGroup
	ch := make(chan *c19Plan)
	t0 := time.Now()
	for k := 0; k < 16; k++ {
		wg.Add(1)
		go func() {
			defer wg.Done()
			for p := range ch {
				w.run(p)
			}
		}()
	}
	for _, p := range plans {
		ch <- p
	}
	close(ch)
	wg.Wait()
	subproc := time.Since(t0)
	c19ErrorsAs(r, w)
	for _, p := range plans {
		tags := append([]string{"fam:" + strings.SplitN(p.fam, ":", 2)[0], "obs:" + p.observed(), "cfg:" + p.cfgKind, "quote:" + p.quote + "/" + p.format, "allowed:" + fmt.Sprint(p.accept)}, p.tags...)
		if p.cfgKind == "bin" || p.cfgKind == "text" {
			tags = append(tags, "shape:"+p.shape)
		}
		fail := p.verdict()
		if fail != "" {
			tags = append(tags, "violation:"+c19Kind(fail))
		}
		r.Emit(p.line, p.observed(), fail, p.key, p.deep, tags...)
	}
	r.Note("tool", "built from "+repoRoot+"/tools/check for this run")
	r.Note("grid", fmt.Sprintf("%d dimensions; family B covers all %d feasible pairs of (dimension,value) in %d rows; 3-wise coverage of family B %d/%d; in-process library calls %d; subprocess phase %.1fs for %d runs", len(dims), tuples, rows, cov3, feas3, w.inproc, subproc.Seconds(), len(plans)))
	r.Note("replay-args", "the command line of case i is `check` + args; config files are under <out>/c19/cfg/<i>.{pb,textproto}")
	if fails := c19FirstFailures(plans, 12); len(fails) > 0 {
		r.Note("failing-command-lines", fails)
	}
}

// short name of a failure for the histogram
func c19Kind(reason string) string {
	if i := strings.Index(reason, " (exit status"); i > 0 && strings.HasPrefix(reason, "crash") {
		return reason[:i]
	}
	if i := strings.Index(reason, ":"); i > 0 {
		return reason[:i]
	}
	return trunc(reason, 30)
}

func c19FirstFailures(plans []*c19Plan, n int) []string {
	var out []string
	seen := map[string]bool{}
	for _, p := range plans {
		v := p.verdict()
		if v == "" {
			continue
		}
		k := v
		if i := strings.Index(k, "; input class"); i > 0 {
			k = k[:i]
		} else if len(k) > 40 {
			k = k[:40]
		}
		if seen[k] {
			continue
		}
		seen[k] = true
		cfg := ""
		if p.cfg != nil {
			b, _ := prototext.MarshalOptions{Multiline: false}.Marshal(p.cfg)
			cfg = " config{" + string(b) + "}"
			if len(cfg) > 300 {
				cfg = cfg[:300] + "…"
			}
		}
		out = append(out, fmt.Sprintf("check %s%s  => %s", strings.Join(p.args, " "), cfg, v))
		if len(out) >= n {
			break
		}
	}
	return out
}

// In-process: each of the four fetches fails in turn; the error verify.TdxQuote returns must let a
// caller recognise the download failure through errors.As with the type the library documents.
func c19ErrorsAs(r *hx.Run, w *c19World) {
	urls := map[string]string{}
	rec := &c19FailOne{}
	opts := &verify.Options{GetCollateral: true, CheckRevocations: true, Getter: rec}
	hx.Guard(func() string { verify.TdxQuote(proto.Clone(w.ref["s"]), opts); return "" })
	for _, u := range rec.asked {
		urls[c19FetchKind(u)] = u
	}
	for _, kind := range []string{"tcb", "qe", "pckcrl", "rootcrl", "none"} {
		for _, crl := range []bool{true, false} {
			if !crl && (kind == "pckcrl" || kind == "rootcrl") {
				continue
			}
			g := &c19FailOne{fail: urls[kind]}
			if kind != "none" && g.fail == "" {
				r.Emit("# C19.as fetch="+kind, "not-reached", "the "+kind+" fetch was never attempted with recorded collateral", "as|"+kind, true, "errors.As")
				continue
			}
			var err error
			res, stack := hx.Guard(func() string {
				err = verify.TdxQuote(proto.Clone(w.ref["s"]), &verify.Options{GetCollateral: true, CheckRevocations: crl, Getter: g})
				return ""
			})
			var att *trust.AttestationRecreationErr
			var crlErr verify.CRLUnavailableErr
			asAtt, asCrl := errors.As(err, &att), errors.As(err, &crlErr)
			obs := fmt.Sprintf("err=%d as-attestation-recreation=%d as-crl-unavailable=%d", hx.B(err != nil), hx.B(asAtt), hx.B(asCrl))
			fail := ""
			switch {
			case res == "panic":
				fail = "crash: " + strings.SplitN(stack, "\n", 2)[0]
			case kind == "none":
				if asAtt || asCrl {
					fail = "no fetch failed, yet the error is typed as a download failure"
				}
			case !g.hit:
				fail = "scripted failure not reached"
			case err == nil:
				fail = "a failed download did not fail verification"
			case (kind == "tcb" || kind == "qe") && !asAtt:
				fail = "download-failure: errors.As with a *trust.AttestationRecreationErr target is false for a failed " + kind + " fetch: " + trunc(err.Error(), 120)
			case (kind == "pckcrl" || kind == "rootcrl") && !asCrl:
				fail = "download-failure: errors.As with a verify.CRLUnavailableErr target is false for a failed " + kind + " fetch: " + trunc(err.Error(), 120)
			}
			tags := []string{"errors.As"}
			if fail != "" {
				tags = append(tags, "violation:"+c19Kind(fail)+" (errors.As)")
			}
			r.Emit(fmt.Sprintf("# C19.as fetch=%s crl=%d", kind, hx.B(crl)), obs, fail, fmt.Sprintf("as|%s|%v", kind, crl), true, tags...)
		}
	}
}

func trunc(s string, n int) string {
	if len(s) > n {
		return s[:n] + "…"
	}
	return s
}

// recorded collateral of the sample quote, except one URL whose fetch fails
type c19FailOne struct {
	fail  string
	hit   bool
	asked []string
}

func (g *c19FailOne) Get(url string) (map[string][]string, []byte, error) {
	g.asked = append(g.asked, url)
	if url == g.fail {
		g.hit = true
		return nil, nil, errors.New("scripted: connection refused")
	}
	return testcases.TestGetter.Get(url)
}
