package main

// C02 — trust is anchored only in the configured roots and in PCK-role certificates.
//
// Worlds: a genuine PKI A and a look-alike PKI B (identical subject names, other keys) with complete, self-consistent
// collateral each; quote chains composed of A/B elements × pools (A, B, A∪B, empty, nil = embedded root, …); role
// confusion; chain shapes; pools listing the intermediate / the leaf.  Plus harness-only `#` lines for
// verify.RootOfTrustToOptions.
// Oracle (crypto/x509 in the harness, independent of model and code): accepted ∧ ¬anchored.

import (
	"bytes"
	"crypto/x509"
	"encoding/asn1"
	"crypto/ecdsa"
	"crypto/elliptic"
	crand "crypto/rand"
	"encoding/pem"
	"fmt"
	"math/big"
	"math/rand/v2"
	"os"
	"path/filepath"
	"strings"
	"time"

	ccpb "github.com/google/go-tdx-guest/proto/checkconfig"
	pb "github.com/google/go-tdx-guest/proto/tdx"
	"github.com/google/go-tdx-guest/verify"
	"google.golang.org/protobuf/proto"

	"tdxharness/hx"
	"tdxharness/world"
)

func init() { drivers["C02"] = c02 }

const (
	cnPck   = "Intel SGX PCK Certificate"
	cnInter = "Intel SGX PCK Platform CA"
	cnRoot  = "Intel SGX Root CA"
)

var oidSgxExt = asn1.ObjectIdentifier{1, 2, 840, 113741, 1, 13, 1}

// addLookalike appends PKI B: rootB / interB / leafB / signerB with the subject names (and, every other time, the serial
// numbers) of PKI A but keys 6–9.
func addLookalike(rng *rand.Rand, s *world.Spec) {
	sameSerial := rng.IntN(2) == 0
	for i, role := range []string{"root", "inter", "leaf", "signer"} {
		c := *s.Cert(role)
		c.Role = role + "B"
		c.Key = 6 + i
		switch role {
		case "root":
			c.SignKey = 6
			c.CRLDPs = []string{"https://certificates.example/IntelSGXRootCA-b.der"}
		case "inter":
			c.SignKey, c.IssuerOf = 6, "rootB"
		case "leaf":
			c.SignKey, c.IssuerOf = 7, "interB"
		case "signer":
			c.SignKey, c.IssuerOf = 6, "rootB"
		}
		if !sameSerial {
			c.Serial = big.NewInt(2001 + int64(i))
		}
		s.Certs = append(s.Certs, &c)
	}
}

// collateralOf switches the whole collateral (both documents' signer and issuer chain, both CRLs) to PKI B.
func collateralB(s *world.Spec) {
	s.TcbResp.SignKey, s.TcbResp.HdrRoles = 9, []string{"signerB", "rootB"}
	s.QeResp.SignKey, s.QeResp.HdrRoles = 9, []string{"signerB", "rootB"}
	s.PckCrl.IssuerOf, s.PckCrl.SignKey = "interB", 7
	s.PckCrlHdrRoles = []string{"interB", "rootB"}
	for i := range s.RootCrls {
		s.RootCrls[i].IssuerOf, s.RootCrls[i].SignKey = "rootB", 6
	}
}

// ---------------------------------------------------------------------------- the independent oracle

type anchoring struct {
	ok  bool
	why string
}

// anchoredIn decides, with the harness's own crypto/x509 calls, whether the quote's chain is what the statement demands:
// three CERTIFICATE blocks; the first an Intel SGX PCK certificate (name and SGX extension) that chains at time `at`
// through the carried second block (CN Platform CA) to a LISTED certificate; the third named Intel SGX Root CA.
func anchoredIn(q *pb.QuoteV4, listed []*x509.Certificate, at time.Time) anchoring {
	rest := q.GetSignedData().GetCertificationData().GetQeReportCertificationData().GetPckCertificateChainData().GetPckCertChain()
	var certs []*x509.Certificate
	for i := 0; i < 3; i++ {
		var blk *pem.Block
		blk, rest = pem.Decode(rest)
		if blk == nil {
			return anchoring{false, fmt.Sprintf("the chain carries %d PEM block(s), not three", i)}
		}
		if blk.Type != "CERTIFICATE" {
			return anchoring{false, fmt.Sprintf("block %d is of PEM type %q", i, blk.Type)}
		}
		c, err := x509.ParseCertificate(blk.Bytes)
		if err != nil {
			return anchoring{false, fmt.Sprintf("block %d is not an X.509 certificate", i)}
		}
		certs = append(certs, c)
	}
	leaf, inter, root := certs[0], certs[1], certs[2]
	for i, c := range certs {
		pk, isEC := c.PublicKey.(*ecdsa.PublicKey)
		if c.Version != 3 || c.SignatureAlgorithm != x509.ECDSAWithSHA256 || !isEC || pk.Curve != elliptic.P256() {
			return anchoring{false, fmt.Sprintf("certificate %d of the chain is not of the PCK hierarchy's profile (X.509 v3, ecdsa-with-SHA256, P-256 key): version %d, %v", i, c.Version, c.SignatureAlgorithm)}
		}
	}
	if leaf.Subject.CommonName != cnPck {
		return anchoring{false, fmt.Sprintf("leaf CN is %q", leaf.Subject.CommonName)}
	}
	hasSgx := false
	for _, e := range leaf.Extensions {
		hasSgx = hasSgx || e.Id.Equal(oidSgxExt)
	}
	if !hasSgx {
		return anchoring{false, "leaf carries no SGX extension"}
	}
	if inter.Subject.CommonName != cnInter {
		return anchoring{false, fmt.Sprintf("intermediate CN is %q", inter.Subject.CommonName)}
	}
	if root.Subject.CommonName != cnRoot {
		return anchoring{false, fmt.Sprintf("root CN is %q", root.Subject.CommonName)}
	}
	roots, inters := x509.NewCertPool(), x509.NewCertPool()
	for _, c := range listed {
		roots.AddCert(c)
	}
	inters.AddCert(inter)
	chains, err := leaf.Verify(x509.VerifyOptions{Roots: roots, Intermediates: inters, CurrentTime: at, KeyUsages: []x509.ExtKeyUsage{x509.ExtKeyUsageAny}})
	if err != nil {
		return anchoring{false, "leaf does not chain to a listed certificate: " + err.Error()}
	}
	for _, ch := range chains {
		// [leaf] (the caller listed the leaf itself), [leaf, carried intermediate] (… listed the intermediate) or
		// [leaf, carried intermediate, listed root]
		if len(ch) == 1 || (len(ch) <= 3 && bytes.Equal(ch[1].Raw, inter.Raw)) {
			return anchoring{true, ""}
		}
	}
	return anchoring{false, "the leaf reaches a listed certificate only around the carried intermediate"}
}

func listedRoots(w *world.World) []*x509.Certificate {
	if w.Spec.PoolNil {
		return []*x509.Certificate{world.EmbeddedRoot}
	}
	return w.PoolCerts
}

func c02Oracle(w *world.World, notes *vNotes) func(vResult) string {
	at := time.Now()
	if w.Spec.Now != nil {
		at = w.Spec.Now[0]
	}
	return func(vr vResult) string {
		a := anchoredIn(w.Quote, listedRoots(w), at)
		if w.Spec.Honest && !a.ok {
			notes.add("generator_claims_honest_but_oracle_says_unanchored", w.Spec.Fault+": "+a.why)
		}
		if w.Spec.Honest && !vr.accepted {
			notes.add("expected_accept_but_rejected", w.Spec.Fault+": "+vr.err.Error())
		}
		if a.ok {
			notes.add("anchored", "")
			if vr.accepted {
				notes.add("anchored_accepted", "")
			}
		}
		if vr.accepted && !a.ok {
			return fmt.Sprintf("accepted although the chain is not anchored as the statement demands: %s [%s]", a.why, w.Spec.Fault)
		}
		return ""
	}
}

// ---------------------------------------------------------------------------- generators

type c02Kind struct {
	name   string
	honest bool // accepted at the three valid option levels unless `baseOnly`
	base   bool // honest only without collateral (the collateral's own trust path is not in the pool)
	nocr   bool // honest only without revocation checking (the root CRL is not by the chain's root)
	apply  func(rng *rand.Rand, s *world.Spec)
}

func chainOf(roles ...string) []world.BlockSpec {
	var out []world.BlockSpec
	for _, r := range roles {
		out = append(out, world.BlockSpec{Role: r})
	}
	return out
}

func cloneCert(s *world.Spec, from, role string, f func(c *world.CertSpec)) {
	c := *s.Cert(from)
	c.Role = role
	if c.Sgx != nil {
		sg := *c.Sgx
		c.Sgx = &sg
	}
	f(&c)
	s.Certs = append(s.Certs, &c)
}

func c02Kinds() []c02Kind {
	var ks []c02Kind
	add := func(name string, honest, base bool, f func(rng *rand.Rand, s *world.Spec)) {
		ks = append(ks, c02Kind{name: name, honest: honest, base: base, apply: f})
	}
	// ---- chain composition × pool
	pools := []struct {
		name  string
		roles []string
		nilp  bool
	}{{"A", []string{"root"}, false}, {"B", []string{"rootB"}, false}, {"AB", []string{"root", "rootB"}, false}, {"BA", []string{"rootB", "root"}, false},
		{"empty", []string{}, false}, {"nil", nil, true}, {"A+tcbsigner", []string{"signer", "root"}, false}}
	for m := 0; m < 8; m++ {
		for _, p := range pools {
			m, p := m, p
			pick := func(bit int, role string) string {
				if m>>bit&1 == 1 {
					return role + "B"
				}
				return role
			}
			comp := fmt.Sprintf("%c%c%c", "AB"[m&1], "AB"[m>>1&1], "AB"[m>>2&1]) // leaf, intermediate, root
			in := func(role string) bool {
				for _, r := range p.roles {
					if r == role {
						return true
					}
				}
				return false
			}
			honest := !p.nilp && ((m == 0 && in("root")) || (m == 7 && in("rootB")))
			add("chain:"+comp+"/pool:"+p.name, honest, false, func(rng *rand.Rand, s *world.Spec) {
				s.Chain = chainOf(pick(0, "leaf"), pick(1, "inter"), pick(2, "root"))
				s.Pool, s.PoolNil = p.roles, p.nilp
				// the collateral comes from the PKI of the chain (a mixed chain: from either)
				if m == 7 || (m != 0 && rng.IntN(2) == 0) {
					collateralB(s)
				}
			})
		}
	}
	// a B world with A's collateral and both roots listed: every trust path is rooted in a listed certificate
	add("chain:BBB/pool:AB/collateral:A", true, false, func(rng *rand.Rand, s *world.Spec) {
		s.Chain = chainOf("leafB", "interB", "rootB")
		s.Pool = []string{"root", "rootB"}
	})
	ks[len(ks)-1].nocr = true
	// ---- pools that list something else than a root
	for _, p := range [][]string{{"inter"}, {"leaf"}, {"leaf", "rootB"}, {"inter", "rootB"}, {"interB"}, {"leafB"}, {"signer"}, {"signerB", "interB", "leafB"}} {
		p := p
		honest := p[0] == "inter" || p[0] == "leaf"
		add("pool-lists:"+strings.Join(p, "+"), honest, true, func(rng *rand.Rand, s *world.Spec) { s.Pool = p })
	}
	// ---- a self-consistent chain under the look-alike PKI whose leaf carries the SGX extension marked CRITICAL: path validation
	// refuses such a leaf before it looks at any root — an error that must not be mistaken for "chain is fine" under a pool
	// that does not hold the chain's root
	for _, pool := range []struct {
		name  string
		roles []string
		isNil bool
	}{{"A", []string{"root"}, false}, {"nil", nil, true}, {"empty", []string{}, false}} {
		pool := pool
		add("chain:BBB(leaf-sgx-extension-critical)/pool:"+pool.name, false, false, func(rng *rand.Rand, s *world.Spec) {
			sgx := *s.Cert("leafB").Sgx
			sgx.Critical = true
			s.Cert("leafB").Sgx = &sgx
			s.Chain = chainOf("leafB", "interB", "rootB")
			s.Quote.QeSignKey = s.Cert("leafB").Key
			s.Pool, s.PoolNil = pool.roles, pool.isNil
		})
	}
	// ---- role confusion
	add("role:tcb-signer-as-leaf", false, false, func(rng *rand.Rand, s *world.Spec) { s.Chain = chainOf("signer", "inter", "root") })
	add("role:tcb-signer-named-cert-with-sgx-ext-as-leaf", false, false, func(rng *rand.Rand, s *world.Spec) {
		cloneCert(s, "leaf", "leafS", func(c *world.CertSpec) { c.CN = "Intel SGX TCB Signing" })
		s.Chain = chainOf("leafS", "inter", "root")
	})
	add("role:tcb-signer-by-root-with-sgx-ext-as-leaf", false, false, func(rng *rand.Rand, s *world.Spec) {
		cloneCert(s, "leaf", "leafS", func(c *world.CertSpec) { c.CN, c.SignKey, c.IssuerOf = "Intel SGX TCB Signing", 1, "root" })
		s.Chain = chainOf("leafS", "inter", "root")
	})
	add("role:intermediate-as-leaf", false, false, func(rng *rand.Rand, s *world.Spec) { s.Chain = chainOf("inter", "inter", "root") })
	add("role:root-as-leaf", false, false, func(rng *rand.Rand, s *world.Spec) { s.Chain = chainOf("root", "inter", "root") })
	add("role:ca-with-sgx-ext-as-leaf", false, false, func(rng *rand.Rand, s *world.Spec) {
		cloneCert(s, "leaf", "leafC", func(c *world.CertSpec) { c.CN, c.IsCA, c.SignKey, c.IssuerOf = cnInter, true, 1, "root" })
		s.Chain = chainOf("leafC", "inter", "root")
	})
	add("role:leaf-issued-by-root", false, false, func(rng *rand.Rand, s *world.Spec) {
		cloneCert(s, "leaf", "leafR", func(c *world.CertSpec) { c.SignKey, c.IssuerOf = 1, "root" })
		s.Chain = chainOf("leafR", "inter", "root")
	})
	add("role:leaf-issued-by-root-root-as-intermediate", false, false, func(rng *rand.Rand, s *world.Spec) {
		cloneCert(s, "leaf", "leafR", func(c *world.CertSpec) { c.SignKey, c.IssuerOf = 1, "root" })
		s.Chain = chainOf("leafR", "root", "root")
	})
	add("role:intermediate-not-a-ca", false, false, func(rng *rand.Rand, s *world.Spec) { s.Cert("inter").IsCA = false })
	add("role:intermediate-without-certsign", false, false, func(rng *rand.Rand, s *world.Spec) { s.Cert("inter").NoKeyUsageCertSign = true })
	add("role:root-not-a-ca", false, false, func(rng *rand.Rand, s *world.Spec) { s.Cert("root").IsCA = false })
	for _, cn := range []string{"Intel SGX PCK Certificate ", "intel sgx pck certificate", "Intel SGX PCK Platform CA", "Intel SGX TCB Signing", "", "Intel SGX PCK Certificate\x00", "Intel SGX PCK Certificates"} {
		cn := cn
		add(fmt.Sprintf("role:leaf-cn=%q", cn), false, false, func(rng *rand.Rand, s *world.Spec) { s.Cert("leaf").CN = cn })
	}
	add("role:leaf-without-sgx-ext(5-exts)", false, false, func(rng *rand.Rand, s *world.Spec) { s.Cert("leaf").Sgx.Absent = true })
	add("role:leaf-without-sgx-ext(6-exts)", false, false, func(rng *rand.Rand, s *world.Spec) {
		s.Cert("leaf").Sgx.Absent = true
		s.Cert("leaf").ExtraExts = 1
	})
	add("role:intermediate-cn=processor-ca", false, false, func(rng *rand.Rand, s *world.Spec) { s.Cert("inter").CN = "Intel SGX PCK Processor CA" })
	add("role:intermediate-cn-other", false, false, func(rng *rand.Rand, s *world.Spec) { s.Cert("inter").CN = "Intel SGX PCK Platform CA 2" })
	add("role:root-cn-other", false, false, func(rng *rand.Rand, s *world.Spec) { s.Cert("root").CN = "Intel SGX Root CA 2" })
	add("role:chain-root-cross-signed", false, false, func(rng *rand.Rand, s *world.Spec) {
		// same name and key as the listed root, but signed by another key: the leaf IS anchored, the code demands a self-signed third block
		cloneCert(s, "root", "rootX", func(c *world.CertSpec) { c.SignKey = 6 })
		s.Chain = chainOf("leaf", "inter", "rootX")
	})
	// ---- certificate profile: Intel's PCK hierarchy is X.509 v3, ecdsa-with-SHA256 over P-256 keys, at every level — a chain
	// that is otherwise perfectly anchored but deviates in ONE certificate (the leaf included) is not such a chain
	for _, role := range []string{"leaf", "inter", "root"} {
		for _, alg := range []struct {
			name string
			a    x509.SignatureAlgorithm
		}{{"ecdsa-sha384", x509.ECDSAWithSHA384}, {"ecdsa-sha512", x509.ECDSAWithSHA512}, {"ecdsa-sha1", x509.ECDSAWithSHA1}} {
			role, alg := role, alg
			add("profile:"+role+"-signed-with-"+alg.name, false, false, func(rng *rand.Rand, s *world.Spec) { s.Cert(role).SigAlg = alg.a })
		}
	}
	add("role:ca-flag-on-pck-leaf", true, false, func(rng *rand.Rand, s *world.Spec) { s.Cert("leaf").IsCA = true })
	// ---- chain shapes
	add("shape:chain-nil", false, false, func(rng *rand.Rand, s *world.Spec) { s.ChainNil = true })
	add("shape:chain-empty", false, false, func(rng *rand.Rand, s *world.Spec) {
		s.MsgMut = append(s.MsgMut, func(q *pb.QuoteV4) {
			p := qqc(q).PckCertificateChainData
			p.PckCertChain, p.Size = []byte{}, 0
		})
	})
	add("shape:1-block", false, false, func(rng *rand.Rand, s *world.Spec) { s.Chain = chainOf("leaf") })
	add("shape:2-blocks", false, false, func(rng *rand.Rand, s *world.Spec) { s.Chain = chainOf("leaf", "inter") })
	add("shape:2-blocks+nul", false, false, func(rng *rand.Rand, s *world.Spec) { s.Chain, s.ChainTrailer = chainOf("leaf", "inter"), []byte{0} })
	add("shape:2-blocks-leaf+root", false, false, func(rng *rand.Rand, s *world.Spec) { s.Chain = chainOf("leaf", "root") })
	add("shape:2-blocks-intermediate-listed", false, false, func(rng *rand.Rand, s *world.Spec) {
		s.Chain, s.Pool = chainOf("leaf", "inter"), []string{"inter", "root"}
	})
	add("shape:4-blocks-root-twice", false, false, func(rng *rand.Rand, s *world.Spec) { s.Chain = chainOf("leaf", "inter", "root", "root") })
	add("shape:4-blocks-signer-last", false, false, func(rng *rand.Rand, s *world.Spec) { s.Chain = chainOf("leaf", "inter", "root", "signer") })
	add("shape:4-blocks-extra-first", false, false, func(rng *rand.Rand, s *world.Spec) { s.Chain = chainOf("signer", "leaf", "inter", "root") })
	for pos := 0; pos < 3; pos++ {
		for _, typ := range []string{"X509 CERTIFICATE", "TRUSTED CERTIFICATE", "certificate", "PUBLIC KEY"} {
			pos, typ := pos, typ
			add(fmt.Sprintf("shape:pemtype[%d]=%s", pos, typ), false, false, func(rng *rand.Rand, s *world.Spec) { s.Chain[pos].Type = typ })
		}
		pos := pos
		add(fmt.Sprintf("shape:garbage-der[%d]", pos), false, false, func(rng *rand.Rand, s *world.Spec) { s.Chain[pos].Garbage = true })
	}
	add("shape:trailer-nul", true, false, func(rng *rand.Rand, s *world.Spec) { s.ChainTrailer = []byte{0} })
	for _, tr := range []string{"\x00\x00", "A", "\n", "\x00\n", " ", "\x01", "\xff", "-----END CERTIFICATE-----\n"} {
		tr := tr
		add(fmt.Sprintf("shape:trailer=%q", tr), false, false, func(rng *rand.Rand, s *world.Spec) { s.ChainTrailer = []byte(tr) })
	}
	for _, o := range [][]string{{"inter", "leaf", "root"}, {"root", "inter", "leaf"}, {"leaf", "root", "inter"}, {"leaf", "leaf", "root"}, {"leaf", "inter", "inter"}, {"leaf", "inter", "leaf"}} {
		o := o
		add("shape:order="+strings.Join(o, ","), false, false, func(rng *rand.Rand, s *world.Spec) { s.Chain = chainOf(o...) })
	}
	add("shape:leading-text-before-first-block", true, false, func(rng *rand.Rand, s *world.Spec) {
		// pem.Decode skips text in front of a block: the three certificates are still exactly the carried ones
		s.MsgMut = append(s.MsgMut, func(q *pb.QuoteV4) {
			p := qqc(q).PckCertificateChainData
			p.PckCertChain = append([]byte("PCK chain\n"), p.PckCertChain...)
			p.Size = uint32(len(p.PckCertChain))
			d := uint32(len("PCK chain\n"))
			qcd(q).Size += d
			q.SignedDataSize += d
		})
	})
	return ks
}

func c02(r *hx.Run) {
	thorough := r.Tier == "thorough"
	notes := newNotes()
	kinds := c02Kinds()
	reps := 1
	if thorough {
		reps = 14
	}
	n := len(kinds) * 3 * reps
	r.Note("fault_kinds", len(kinds))
	runOrdered(r, n, func(i int) vCase {
		k := kinds[i%len(kinds)]
		o := optLevels[(i/len(kinds))%3]
		rng := caseRng(r, 1, i)
		if rng.IntN(12) == 0 {
			o = optLevels[3]
		}
		s := honestSpec(rng)
		addLookalike(rng, s)
		k.apply(rng, s)
		s.Fault = k.name
		s.GC, s.CR = o[0], o[1]
		s.Honest = k.honest && !(o[1] && !o[0]) && !(k.base && o[0]) && !(k.nocr && o[1])
		w := world.Build(s)
		grp := k.name[:strings.Index(k.name, ":")]
		tags := []string{"group:" + grp, "kind:" + k.name}
		if grp == "chain" {
			tags = []string{"group:chain-x-pool", "chainmix:" + k.name[6:9], "pool:" + strings.SplitN(k.name, "/pool:", 2)[1]}
		}
		if s.Honest {
			tags = append(tags, "claimed-honest")
		}
		return vCase{w, c02Oracle(w, notes), tags}
	})
	samples := c02SampleCases(r, notes)
	runOrdered(r, len(samples), func(i int) vCase { return samples[i] })
	c02RootOfTrust(r, notes)
	// the pool that counts is the one the options carry NOW: trusted-roots transitions through one shared options value
	cvPairHistories(r, 0x2202, "C02", map[bool]int{true: 1, false: 1}[thorough])
	notes.flush(r, "c02_")
}

// setChain replaces the chain bytes of a message and keeps the three size fields consistent.
func setChain(q *pb.QuoteV4, chain []byte) {
	pc := qqc(q).PckCertificateChainData
	delta := uint32(len(chain)) - pc.Size
	pc.PckCertChain, pc.Size = chain, uint32(len(chain))
	qcd(q).Size += delta
	q.SignedDataSize += delta
}

// c02SampleCases: the genuine Intel sample quotes (whose chain really is rooted in the embedded Intel root) with the pool
// and the carried chain varied — the only worlds in which "falls back to the embedded root" can be told from "trusts the
// caller's pool / the carried blocks".
func c02SampleCases(r *hx.Run, notes *vNotes) []vCase {
	var out []vCase
	rng := caseRng(r, 3, 0)
	synth := world.Build(honestSpec(rng)) // donor of a same-named synthetic root and of a foreign chain
	pemOf := func(typ string, der []byte) []byte { return pem.EncodeToMemory(&pem.Block{Type: typ, Bytes: der}) }
	for _, rel := range []string{sampleSPR, sampleCOS} {
		name := rel[strings.LastIndex(rel, "/")+1:]
		at := fiveTimes(sampleTime(rel))
		orig, _ := indepParse(mustRead(rel))
		var blocks [][]byte // DER of the three carried certificates
		rest := qqc(orig).PckCertificateChainData.PckCertChain
		for {
			var blk *pem.Block
			blk, rest = pem.Decode(rest)
			if blk == nil {
				break
			}
			blocks = append(blocks, blk.Bytes)
		}
		if len(blocks) != 3 {
			panic("sample chain does not carry three blocks")
		}
		join := func(parts ...[]byte) []byte { return bytes.Join(parts, nil) }
		l, i, ro := pemOf("CERTIFICATE", blocks[0]), pemOf("CERTIFICATE", blocks[1]), pemOf("CERTIFICATE", blocks[2])
		type variant struct {
			name   string
			chain  []byte // nil: as carried
			pool   []*x509.Certificate
			nilp   bool
			honest bool
		}
		synthRoot := synth.Certs["root"].Cert
		carriedRoot, err := x509.ParseCertificate(blocks[2])
		if err != nil {
			panic(err)
		}
		lookRoot := c02Lookalike(rng, carriedRoot)
		vs := []variant{
			{"as-carried/pool:nil", nil, nil, true, true},
			{"as-carried/pool:embedded-root-listed", nil, []*x509.Certificate{world.EmbeddedRoot}, false, true},
			{"as-carried/pool:empty", nil, nil, false, false},
			{"as-carried/pool:same-named-synthetic-root", nil, []*x509.Certificate{synthRoot}, false, false},
			{"as-carried/pool:synthetic+embedded", nil, []*x509.Certificate{synthRoot, world.EmbeddedRoot}, false, true},
			{"re-encoded/pool:nil", join(l, i, ro), nil, true, true},
			{"re-encoded+nul/pool:nil", join(l, i, ro, []byte{0}), nil, true, true},
			{"2-blocks(root dropped)/pool:nil", join(l, i), nil, true, false},
			{"2-blocks(root dropped)+nul/pool:nil", join(l, i, []byte{0}), nil, true, false},
			{"2-blocks(root dropped)/pool:embedded-root-listed", join(l, i), []*x509.Certificate{world.EmbeddedRoot}, false, false},
			{"1-block/pool:nil", l, nil, true, false},
			{"root-replaced-by-same-named-synthetic/pool:nil", join(l, i, pemOf("CERTIFICATE", synthRoot.Raw)), nil, true, false},
			{"root-replaced-by-same-named-synthetic/pool:that-root", join(l, i, pemOf("CERTIFICATE", synthRoot.Raw)), []*x509.Certificate{synthRoot}, false, false},
			// a look-alike of the carried root valid at the same instants (same DN bytes, serial, validity, extensions; other key):
			// everything about it passes except that nothing genuine is signed by it and no trusted pool lists it
			{"root-replaced-by-in-date-lookalike/pool:nil", join(l, i, pemOf("CERTIFICATE", lookRoot.Raw)), nil, true, false},
			{"root-replaced-by-in-date-lookalike/pool:embedded-root-listed", join(l, i, pemOf("CERTIFICATE", lookRoot.Raw)), []*x509.Certificate{world.EmbeddedRoot}, false, false},
			{"root-replaced-by-in-date-lookalike/pool:that-lookalike", join(l, i, pemOf("CERTIFICATE", lookRoot.Raw)), []*x509.Certificate{lookRoot}, false, false},
			{"root-replaced-by-in-date-lookalike/pool:lookalike+embedded", join(l, i, pemOf("CERTIFICATE", lookRoot.Raw)), []*x509.Certificate{lookRoot, world.EmbeddedRoot}, false, false},
			{"as-carried/pool:in-date-lookalike-root", nil, []*x509.Certificate{lookRoot}, false, false},
			{"intermediate-replaced-by-synthetic/pool:nil", join(l, pemOf("CERTIFICATE", synth.Certs["inter"].DER), ro), nil, true, false},
			{"leaf-replaced-by-synthetic/pool:nil", join(pemOf("CERTIFICATE", synth.Certs["leaf"].DER), i, ro), nil, true, false},
			{"pemtype[0]/pool:nil", join(pemOf("X509 CERTIFICATE", blocks[0]), i, ro), nil, true, false},
			{"pemtype[1]/pool:nil", join(l, pemOf("TRUSTED CERTIFICATE", blocks[1]), ro), nil, true, false},
			{"pemtype[2]/pool:nil", join(l, i, pemOf("X509 CERTIFICATE", blocks[2])), nil, true, false},
			{"root-first/pool:nil", join(ro, i, l), nil, true, false},
			{"4-blocks/pool:nil", join(l, i, ro, ro), nil, true, false},
			{"two-nuls/pool:nil", join(l, i, ro, []byte{0, 0}), nil, true, false},
		}
		for _, v := range vs {
			for _, o := range optLevels[:2] {
				q, _ := indepParse(mustRead(rel))
				if v.chain != nil {
					setChain(q, v.chain)
				}
				sp := &world.Spec{GC: o[0], CR: o[1], PoolNil: v.nilp, Now: at, Honest: v.honest && !o[0], Fault: "sample:" + v.name}
				w := world.FromQuote(q, sp, v.pool...)
				tags := []string{"group:intel-sample", "sample:" + name, "kind:sample:" + v.name}
				if sp.Honest {
					tags = append(tags, "claimed-honest")
				}
				out = append(out, vCase{w, c02Oracle(w, notes), tags})
			}
		}
	}
	return out
}

// ---------------------------------------------------------------------------- verify.RootOfTrustToOptions (harness-only lines)

type rotCase struct {
	name    string
	nilCfg  bool
	files   [][]string // per file: roles of the certificates written to it (see rotFileContent for the special names)
	inline  [][]string
	missing []int // indices (into files) of paths that are not created
}

func rotBlob(w *world.World, items []string) []byte {
	var b []byte
	for _, it := range items {
		switch it {
		case "@empty":
		case "@text":
			b = append(b, "this is not PEM\n"...)
		case "@binary":
			b = append(b, 0x30, 0x82, 0x01, 0x00, 0xde, 0xad)
		case "@key-block":
			b = append(b, pem.EncodeToMemory(&pem.Block{Type: "PUBLIC KEY", Bytes: []byte{1, 2, 3}})...)
		case "@bad-cert-block":
			b = append(b, pem.EncodeToMemory(&pem.Block{Type: "CERTIFICATE", Bytes: []byte{0x30, 0x03, 0x02, 0x01, 0x01}})...)
		case "@no-final-newline":
			b = bytes.TrimRight(b, "\n")
		default:
			b = append(b, pem.EncodeToMemory(&pem.Block{Type: "CERTIFICATE", Bytes: w.Certs[it].DER})...)
		}
	}
	return b
}

func isCertItem(it string) bool { return !strings.HasPrefix(it, "@") }

func c02RootOfTrust(r *hx.Run, notes *vNotes) {
	cases := []rotCase{
		{name: "nil-config", nilCfg: true},
		{name: "empty-config"},
		{name: "file-A", files: [][]string{{"root"}}},
		{name: "file-B", files: [][]string{{"rootB"}}},
		{name: "files-A-B", files: [][]string{{"root"}, {"rootB"}}},
		{name: "file-with-two-certs", files: [][]string{{"root", "rootB"}}},
		{name: "file-with-cert-and-text", files: [][]string{{"@text", "root", "@text"}}},
		{name: "file-with-cert-and-key-block", files: [][]string{{"@key-block", "rootC"}}},
		{name: "file-with-cert-and-unparsable-cert-block", files: [][]string{{"@bad-cert-block", "root"}}},
		{name: "inline-A", inline: [][]string{{"root"}}},
		{name: "inline-A-B", inline: [][]string{{"root"}, {"rootB"}}},
		{name: "inline-two-certs-in-one", inline: [][]string{{"rootB", "rootC"}}},
		{name: "mixed-file-A-inline-B", files: [][]string{{"root"}}, inline: [][]string{{"rootB"}}},
		{name: "mixed-file-C-inline-A", files: [][]string{{"rootC"}}, inline: [][]string{{"root"}}},
		{name: "file-listing-intermediate", files: [][]string{{"inter"}}},
		{name: "file-listing-leaf", files: [][]string{{"leafB"}}},
		{name: "empty-file", files: [][]string{{"@empty"}}},
		{name: "non-pem-text-file", files: [][]string{{"@text"}}},
		{name: "non-pem-binary-file", files: [][]string{{"@binary"}}},
		{name: "file-with-only-a-key-block", files: [][]string{{"@key-block"}}},
		{name: "file-with-only-an-unparsable-cert-block", files: [][]string{{"@bad-cert-block"}}},
		{name: "missing-file", files: [][]string{{"root"}}, missing: []int{0}},
		{name: "good-file-then-missing-file", files: [][]string{{"root"}, {"rootB"}}, missing: []int{1}},
		{name: "good-file-then-empty-file", files: [][]string{{"root"}, {"@empty"}}},
		{name: "empty-file-then-good-file", files: [][]string{{"@empty"}, {"root"}}},
		{name: "good-file-and-empty-inline", files: [][]string{{"root"}}, inline: [][]string{{"@empty"}}},
		{name: "good-file-and-text-inline", files: [][]string{{"root"}}, inline: [][]string{{"@text"}}},
		{name: "inline-empty-string", inline: [][]string{{"@empty"}}},
		{name: "inline-text", inline: [][]string{{"@text"}}},
		{name: "directory-as-path", files: [][]string{{"@dir"}}},
		// every bundle is parsed on its own: what one bundle ends with is no business of the next
		{name: "inline-A-without-final-newline-then-B", inline: [][]string{{"root", "@no-final-newline"}, {"rootB"}}},
		{name: "inline-A-B-C-first-two-without-final-newline", inline: [][]string{{"root", "@no-final-newline"}, {"rootB", "@no-final-newline"}, {"rootC"}}},
		{name: "file-A-inline-B-without-final-newline-then-C", files: [][]string{{"root"}}, inline: [][]string{{"rootB", "@no-final-newline"}, {"rootC"}}},
		{name: "files-A-without-final-newline-then-B", files: [][]string{{"root", "@no-final-newline"}, {"rootB"}}},
		{name: "inline-A-then-text", inline: [][]string{{"root", "@no-final-newline"}, {"@text"}}},
	}
	reps := 1
	if r.Tier == "thorough" {
		reps = 6
	}
	dir := filepath.Join(r.Dir, "rot")
	if err := os.MkdirAll(dir, 0o755); err != nil {
		panic(err)
	}
	for rep := 0; rep < reps; rep++ {
		for ci, c := range cases {
			rng := caseRng(r, 2, rep*len(cases)+ci)
			// validity windows around the wall clock: the produced options carry no time and are used as they come
			s := c12Wall(rng, time.Now())
			addLookalike(rng, s)
			// PKI C: an unrelated root with its own names
			s.Certs = append(s.Certs, &world.CertSpec{Role: "rootC", CN: "Example Root", Org: "Example Org", Serial: big.NewInt(3001), NotBefore: s.Cert("root").NotBefore, NotAfter: s.Cert("root").NotAfter, IsCA: true, Key: 9, SignKey: 9})
			w := world.Build(s)
			var rot *ccpb.RootOfTrust
			var listed []string
			isFileListed := map[string]bool{}
			wantErr := false
			if !c.nilCfg {
				rot = &ccpb.RootOfTrust{CheckCrl: rng.IntN(2) == 0, GetCollateral: rng.IntN(2) == 0}
				for fi, items := range c.files {
					p := filepath.Join(dir, fmt.Sprintf("r%d-c%d-f%d.pem", rep, ci, fi))
					skip := false
					for _, m := range c.missing {
						skip = skip || m == fi
					}
					n := 0
					if len(items) == 1 && items[0] == "@dir" {
						if err := os.MkdirAll(p, 0o755); err != nil {
							panic(err)
						}
					} else if !skip {
						if err := os.WriteFile(p, rotBlob(w, items), 0o644); err != nil {
							panic(err)
						}
						for _, it := range items {
							if isCertItem(it) {
								listed = append(listed, it)
								isFileListed[it] = true
								n++
							}
						}
					}
					if n == 0 {
						wantErr = true // unreadable, or a bundle that lists no certificate
					}
					rot.CabundlePaths = append(rot.CabundlePaths, p)
				}
				for _, items := range c.inline {
					n := 0
					for _, it := range items {
						if isCertItem(it) {
							listed = append(listed, it)
							n++
						}
					}
					if n == 0 {
						wantErr = true
					}
					rot.Cabundles = append(rot.Cabundles, string(rotBlob(w, items)))
				}
			}
			var opts *verify.Options
			var err error
			var sharedIn *ccpb.RootOfTrust
			res, _ := hx.Guard(func() string {
				var in *ccpb.RootOfTrust
				if rot != nil {
					in = proto.Clone(rot).(*ccpb.RootOfTrust)
					// the configuration message is the caller's, spare capacity of its lists included: the slots behind the
					// listed bundles hold the bundle of ANOTHER configuration (root C) that shares the backing array
					spare := string(rotBlob(w, []string{"rootC"}))
					in.Cabundles = append(make([]string, 0, len(in.Cabundles)+3), in.Cabundles...)
					in.CabundlePaths = append(make([]string, 0, len(in.CabundlePaths)+3), in.CabundlePaths...)
					for k := len(in.Cabundles); k < cap(in.Cabundles); k++ {
						in.Cabundles[:cap(in.Cabundles)][k] = spare
					}
					for k := len(in.CabundlePaths); k < cap(in.CabundlePaths); k++ {
						in.CabundlePaths[:cap(in.CabundlePaths)][k] = "/nonexistent/spare"
					}
					sharedIn = in
				}
				opts, err = verify.RootOfTrustToOptions(in)
				if err != nil {
					return "err"
				}
				return "ok"
			})
			obs, fail := res, ""
			if in := sharedIn; in != nil && res != "panic" {
				spare := string(rotBlob(w, []string{"rootC"}))
				for k := len(in.Cabundles); k < cap(in.Cabundles) && fail == ""; k++ {
					if in.Cabundles[:cap(in.Cabundles)][k] != spare {
						fail = fmt.Sprintf("verify.RootOfTrustToOptions wrote into the caller's configuration: slot %d behind its %d inline bundle(s) (spare capacity, shared with another configuration that lists root C there) now holds other content", k, len(in.Cabundles))
						// what the other configuration now trusts
						o2, err2 := verify.RootOfTrustToOptions(&ccpb.RootOfTrust{Cabundles: in.Cabundles[:k+1]})
						if err2 == nil && o2 != nil && o2.TrustedRoots != nil {
							exp := x509.NewCertPool()
							for _, role := range listed {
								if !isFileListed[role] {
									exp.AddCert(w.Certs[role].Cert)
								}
							}
							exp.AddCert(w.Certs["rootC"].Cert)
							if !o2.TrustedRoots.Equal(exp) {
								fail += "; the configuration sharing that array (the same inline bundles + root C) no longer trusts exactly what it lists"
							}
						}
					}
				}
				for k := len(in.CabundlePaths); k < cap(in.CabundlePaths) && fail == ""; k++ {
					if in.CabundlePaths[:cap(in.CabundlePaths)][k] != "/nonexistent/spare" {
						fail = "verify.RootOfTrustToOptions wrote into the spare capacity of the caller's cabundle_paths"
					}
				}
				if fail == "" && rot != nil && !proto.Equal(in, rot) {
					fail = "verify.RootOfTrustToOptions changed the configuration message it was given"
				}
			}
			tags := []string{"rot", "rot:" + c.name, "rot-verdict:" + res}
			switch {
			case res == "panic":
				if c.nilCfg {
					// a nil message lists nothing and no pool comes out of it; that the call crashes is C10's subject
					tags = append(tags, "rot:nil-config-panics")
				} else {
					fail = "verify.RootOfTrustToOptions crashed"
				}
			case wantErr && res != "err":
				fail = "a bundle that is unreadable or lists no certificate did not make the configuration an error"
			case !wantErr && res == "err":
				fail = "a configuration whose bundles all list certificates was refused: " + err.Error()
			case res == "ok":
				nothing := rot == nil || len(rot.CabundlePaths)+len(rot.Cabundles) == 0
				exp := x509.NewCertPool()
				for _, role := range listed {
					exp.AddCert(w.Certs[role].Cert)
				}
				switch {
				case opts == nil:
					fail = "nil options without an error"
				case nothing && opts.TrustedRoots != nil:
					fail = "a configuration that lists nothing produced a pool"
				case !nothing && opts.TrustedRoots == nil:
					fail = "a configuration that lists certificates produced no pool (the embedded root would be trusted instead)"
				case rot != nil && (opts.CheckRevocations != rot.CheckCrl || opts.GetCollateral != rot.GetCollateral):
					fail = "check_crl / get_collateral not carried over"
				case !nothing && !opts.TrustedRoots.Equal(exp):
					fail = "the pool is not exactly the set of listed certificates"
				}
				if fail == "" && !nothing {
					obs = fmt.Sprintf("ok pool=%d", len(listed))
					fail = rotTrustsExactly(w, opts, listed)
				} else if fail == "" {
					obs = "ok pool=nil"
				}
			}
			line := fmt.Sprintf("# rot case=%s files=%d inline=%d listed=%s expect=%s", c.name, len(c.files), len(c.inline), strings.Join(listed, "+"), map[bool]string{true: "err", false: "ok"}[wantErr])
			r.Emit(line, obs, fail, fmt.Sprintf("rot|%s", c.name), true, tags...)
		}
	}
	c02DefaultPool(r)
}

// c02DefaultPool: "the embedded Intel root when no pool is given" holds whatever other option values exist or existed: whatever a
// caller does to the pool of ITS options value (verify.DefaultOptions(), RootOfTrustToOptions of an empty configuration) must not
// change what a nil pool means for anybody else (harness-only).
func c02DefaultPool(r *hx.Run) {
	rng := caseRng(r, 7, 0)
	s := c12Wall(rng, time.Now())
	addLookalike(rng, s)
	w := world.Build(s)
	foreign := w.Certs["root"].Cert // the synthetic PKI's root: foreign to the embedded Intel root
	nilPoolAccepts := func() string {
		o := &verify.Options{}
		var err error
		res, _ := hx.Guard(func() string { err = verify.TdxQuote(proto.Clone(w.Quote).(*pb.QuoteV4), o); return "" })
		if res == "panic" {
			return "panic"
		}
		if err == nil {
			return "ok"
		}
		return "err"
	}
	obs, fail := "independent", ""
	if v := nilPoolAccepts(); v != "err" {
		obs, fail = "generator", "a chain under a synthetic root verifies under the embedded root before anything was touched: "+v
	}
	touched := 0
	for _, mk := range []func() *verify.Options{
		verify.DefaultOptions,
		func() *verify.Options { o, _ := verify.RootOfTrustToOptions(&ccpb.RootOfTrust{}); return o },
	} {
		if o := mk(); o != nil && o.TrustedRoots != nil {
			o.TrustedRoots.AddCert(foreign) // a caller extends the pool of ITS options
			touched++
		}
	}
	if fail == "" {
		if v := nilPoolAccepts(); v != "err" {
			obs, fail = "leaked", fmt.Sprintf("after a caller added a root to the pool of its own default options value, a verification with NO pool (embedded Intel root) accepts a chain under that root (%s): the default pool is shared", v)
		} else if o := verify.DefaultOptions(); o.TrustedRoots != nil {
			var err error
			hx.Guard(func() string { o.GetCollateral, o.CheckRevocations = false, false; err = verify.TdxQuote(proto.Clone(w.Quote).(*pb.QuoteV4), o); return "" })
			if err == nil {
				obs, fail = "leaked", "a later verify.DefaultOptions() trusts a root another caller added to its own default options"
			}
		}
	}
	r.Emit(fmt.Sprintf("# C02.default-pool touched=%d", touched), obs, fail, "default-pool", true, "rot", "default-pool")
}

// rotTrustsExactly: a chain of each PKI verifies against the produced pool iff that PKI's root (or the chain's
// intermediate / leaf) is listed — at the X.509 level and through verify.TdxQuote with the produced options.
func rotTrustsExactly(w *world.World, opts *verify.Options, listed []string) string {
	has := func(role string) bool {
		for _, l := range listed {
			if l == role {
				return true
			}
		}
		return false
	}
	at := w.Spec.Now[0]
	for _, p := range []string{"", "B"} {
		want := has("root"+p) || has("inter"+p) || has("leaf"+p)
		in := x509.NewCertPool()
		in.AddCert(w.Certs["inter"+p].Cert)
		_, err := w.Certs["leaf"+p].Cert.Verify(x509.VerifyOptions{Roots: opts.TrustedRoots, Intermediates: in, CurrentTime: at, KeyUsages: []x509.ExtKeyUsage{x509.ExtKeyUsageAny}})
		if (err == nil) != want {
			return fmt.Sprintf("X.509: chain of PKI %q verifies against the produced pool = %v, its certificates are listed = %v", "A"+p, err == nil, want)
		}
		// the same through the library: a quote carrying exactly these certificates (QE report re-signed by that leaf's
		// key), base level, the produced pool
		q2 := proto.Clone(w.Quote).(*pb.QuoteV4)
		var chain []byte
		for _, role := range []string{"leaf" + p, "inter" + p, "root" + p} {
			chain = append(chain, pem.EncodeToMemory(&pem.Block{Type: "CERTIFICATE", Bytes: w.Certs[role].DER})...)
		}
		pc := qqc(q2).PckCertificateChainData
		delta := uint32(len(chain)) - pc.Size
		pc.PckCertChain, pc.Size = chain, uint32(len(chain))
		qcd(q2).Size += delta
		q2.SignedDataSize += delta
		qqc(q2).QeReportSignature = world.RawSig(w.Spec.Keys[w.Spec.Cert("leaf"+p).Key], world.QeReportBytes(qrep(q2)))
		o := &verify.Options{TrustedRoots: opts.TrustedRoots, Now: &verify.TimeSet{PckCertChain: at, TcbInfo: at, QeIdentity: at, PckCrl: at, RootCaCrl: at}}
		var verr error
		res, _ := hx.Guard(func() string {
			verr = verify.TdxQuote(q2, o)
			if verr != nil {
				return "err"
			}
			return "ok"
		})
		if res == "panic" || (res == "ok") != want {
			return fmt.Sprintf("verify.TdxQuote with the produced options on a quote of PKI %q: %s (%v), its certificates are listed = %v", "A"+p, res, verr, want)
		}
		// … and with the produced options value itself, exactly as RootOfTrustToOptions returned it (no time set; collateral
		// and revocation switched off so that nothing has to be fetched)
		asIs := *opts
		asIs.GetCollateral, asIs.CheckRevocations = false, false
		res2, _ := hx.Guard(func() string {
			verr = verify.TdxQuote(proto.Clone(q2).(*pb.QuoteV4), &asIs)
			if verr != nil {
				return "err"
			}
			return "ok"
		})
		if res2 == "panic" || (res2 == "ok") != want {
			return fmt.Sprintf("verify.TdxQuote with the options value RootOfTrustToOptions produced (used as is) on a quote of PKI %q: %s (%v), its certificates are listed = %v", "A"+p, res2, verr, want)
		}
	}
	return ""
}


// c02Lookalike: a self-signed certificate with the DN bytes, serial number, validity window, CA flags, key usage and CRL
// distribution points of c, but a fresh key.
func c02Lookalike(rng *rand.Rand, c *x509.Certificate) *x509.Certificate {
	k := world.NewKey(rng, 0, elliptic.P256())
	t := &x509.Certificate{SerialNumber: c.SerialNumber, RawSubject: c.RawSubject, NotBefore: c.NotBefore, NotAfter: c.NotAfter, IsCA: true,
		BasicConstraintsValid: true, MaxPathLen: c.MaxPathLen, MaxPathLenZero: c.MaxPathLenZero, KeyUsage: c.KeyUsage, CRLDistributionPoints: c.CRLDistributionPoints}
	der, err := x509.CreateCertificate(crand.Reader, t, t, &k.Priv.PublicKey, k.Priv)
	if err != nil {
		panic(err)
	}
	out, err := x509.ParseCertificate(der)
	if err != nil {
		panic(err)
	}
	return out
}
