package main

// C07 — QE identity: the QE report of an accepted quote matches the (signed) QE Identity.
//
// Generator: honestSpec + ONE fault on the QE side (report fields are set before world.Build, which re-signs the
// report with the PCK leaf key, so only the identity comparison can reject).  Oracle: intelQe, an independent
// reading of the statement on the generator's own data (also used by C03 on the document decoded from the signed
// member and by C04 for the levels API).

import (
	pb "github.com/google/go-tdx-guest/proto/tdx"
	"encoding/binary"
	"encoding/hex"
	"fmt"
	"math/rand/v2"
	"strings"
	"time"

	"tdxharness/hx"
	"tdxharness/world"
)

func init() { drivers["C07"] = c07 }

// ------------------------------------------------------------------------------------------ oracle side

type oQeDoc struct {
	bad                            string
	id                             string
	version                        int
	next                           time.Time
	misc, miscMask, attr, attrMask []byte
	mrs                            []byte
	hexBad                         string // name of a field that is not a hex string
	prod                           int
	levels                         []oLv
}

type oQeRep struct {
	misc         uint32
	attr, mrs    []byte
	prod, isvsvn int
}

func qeRepOf(s *world.Spec) *oQeRep {
	r := s.Quote.QeReport
	// the SIGNED report carries ISVPRODID and ISVSVN in 16 bits each; whatever else the 32-bit message fields hold is not part
	// of the QE report (and the message shares this struct with the spec: a mutation after signing shows up here)
	return &oQeRep{misc: r.MiscSelect, attr: r.Attributes, mrs: r.MrSigner, prod: int(r.IsvProdId & 0xffff), isvsvn: int(r.IsvSvn & 0xffff)}
}

func qeDocOfSpec(d *world.QeDoc) *oQeDoc {
	o := &oQeDoc{id: d.ID, version: d.Version, next: d.NextUpdate, prod: d.IsvProdID}
	get := func(name, s string) []byte {
		b, ok := unhexOK(s)
		if !ok && o.hexBad == "" {
			o.hexBad = name
		}
		return b
	}
	o.misc, o.miscMask = get("miscselect", d.Miscselect), get("miscselectMask", d.MiscselectMask)
	o.attr, o.attrMask = get("attributes", d.Attributes), get("attributesMask", d.AttributesMask)
	o.mrs = get("mrsigner", d.Mrsigner)
	for _, l := range d.Levels {
		o.levels = append(o.levels, oLv{isvsvn: l.Isvsvn, status: l.Status})
	}
	return o
}

type qeVerdict struct {
	ok       bool
	kind     string
	why      string
	lvIdx    int
	lvStatus string
}

// intelQe is the statement of C07, read literally: MRSIGNER and ISVPRODID equal; MISCSELECT and ATTRIBUTES of the report
// equal the identity's values once the identity's masks are applied (to the report); the first level in listed order whose
// isvsvn is not above the report's ISVSVN is UpToDate.
func intelQe(d *oQeDoc, r *oQeRep) qeVerdict {
	v := qeVerdict{lvIdx: -1}
	fail := func(kind, why string) qeVerdict { v.ok, v.kind, v.why = false, kind, why; return v }
	if d.bad != "" {
		return fail("doc", "the QE Identity document is unreadable: "+d.bad)
	}
	for i, l := range d.levels {
		if l.isvsvn <= r.isvsvn {
			v.lvIdx, v.lvStatus = i, l.status
			break
		}
	}
	if d.hexBad != "" {
		return fail("hex", "QE Identity field "+d.hexBad+" is not a hex string")
	}
	if hex.EncodeToString(d.mrs) != hex.EncodeToString(r.mrs) {
		return fail("mrsigner", "MRSIGNER of the QE report is not the QE Identity's")
	}
	if d.prod != r.prod {
		return fail("isvprodid", fmt.Sprintf("ISVPRODID of the QE report %d is not the QE Identity's %d", r.prod, d.prod))
	}
	var rm [4]byte
	binary.LittleEndian.PutUint32(rm[:], r.misc)
	if len(d.miscMask) != 4 || len(d.misc) != 4 {
		return fail("miscselect", fmt.Sprintf("MISCSELECT mask/value of %d/%d bytes cannot be compared with the report's 4-byte MISCSELECT", len(d.miscMask), len(d.misc)))
	}
	for i := 0; i < 4; i++ {
		if rm[i]&d.miscMask[i] != d.misc[i] {
			return fail("miscselect", fmt.Sprintf("MISCSELECT %x under mask %x is not the identity's %x", rm, d.miscMask, d.misc))
		}
	}
	if len(d.attrMask) != len(r.attr) || len(d.attr) != len(r.attr) {
		return fail("attributes", fmt.Sprintf("ATTRIBUTES mask/value of %d/%d bytes cannot be compared with the report's %d attribute bytes", len(d.attrMask), len(d.attr), len(r.attr)))
	}
	for i := range r.attr {
		if r.attr[i]&d.attrMask[i] != d.attr[i] {
			return fail("attributes", fmt.Sprintf("ATTRIBUTES %x under mask %x is not the identity's %x", r.attr, d.attrMask, d.attr))
		}
	}
	if v.lvIdx < 0 {
		return fail("nomatch", fmt.Sprintf("no QE TCB level has isvsvn <= %d", r.isvsvn))
	}
	if v.lvStatus != "UpToDate" {
		return fail("status", fmt.Sprintf("first QE TCB level with isvsvn <= %d is #%d with status %q", r.isvsvn, v.lvIdx, v.lvStatus))
	}
	v.ok = true
	return v
}

func c7Oracle(w *world.World, vr vResult) string {
	if !vr.accepted || !w.Spec.GC {
		return ""
	}
	if v := intelQe(qeDocOfSpec(&w.Spec.Qe), qeRepOf(w.Spec)); !v.ok {
		return "accepted although " + v.why
	}
	return ""
}

func c7AccOK(w *world.World) bool {
	s := w.Spec
	return intelQe(qeDocOfSpec(&s.Qe), qeRepOf(s)).ok && intelTcb(tcbDocOfSpec(&s.Tcb), platOf(s)).ok && len(s.Qe.Levels) > 0
}

// ------------------------------------------------------------------------------------------ generator

type c7Fault struct {
	name  string
	apply func(rng *rand.Rand, s *world.Spec)
}

func le32(v uint32) []byte { return []byte{byte(v), byte(v >> 8), byte(v >> 16), byte(v >> 24)} }

func maskOfKind(rng *rand.Rand, kind string, n int) []byte {
	m := make([]byte, n)
	switch kind {
	case "ones":
		for i := range m {
			m[i] = 0xff
		}
	case "zero":
	case "bit":
		m[rng.IntN(n)] = 1 << rng.IntN(8)
	default:
		m = hx.RandBytes(rng, n)
	}
	return m
}

func and(a, b []byte) []byte {
	out := make([]byte, len(a))
	for i := range a {
		out[i] = a[i] & b[i]
	}
	return out
}

// pickBit returns (byte, bit) of a position where mask has the wanted value; ok=false if there is none.
func pickBit(rng *rand.Rand, mask []byte, set bool) (int, byte, bool) {
	var cand [][2]int
	for i, b := range mask {
		for k := 0; k < 8; k++ {
			if (b>>k&1 == 1) == set {
				cand = append(cand, [2]int{i, k})
			}
		}
	}
	if len(cand) == 0 {
		return 0, 0, false
	}
	c := cand[rng.IntN(len(cand))]
	return c[0], 1 << c[1], true
}

// setMasks installs masks of the given kinds with identity values = mask & report (an accepting identity).
func setMasks(rng *rand.Rand, s *world.Spec, miscKind, attrKind string) (mm, am []byte) {
	rep := s.Quote.QeReport
	mm = maskOfKind(rng, miscKind, 4)
	am = maskOfKind(rng, attrKind, 16)
	s.Qe.MiscselectMask = hex.EncodeToString(mm)
	s.Qe.Miscselect = hex.EncodeToString(and(mm, le32(rep.MiscSelect)))
	s.Qe.AttributesMask = hex.EncodeToString(am)
	s.Qe.Attributes = hex.EncodeToString(and(am, rep.Attributes))
	return
}

func hexResize(h string, n int) string {
	b, _ := hex.DecodeString(h)
	for len(b) < n {
		b = append(b, 0)
	}
	return hex.EncodeToString(b[:n])
}

var maskKinds = []string{"ones", "zero", "bit", "random"}

func c7Faults(thorough bool) []c7Fault {
	var fs []c7Fault
	add := func(name string, f func(rng *rand.Rand, s *world.Spec)) { fs = append(fs, c7Fault{name, f}) }
	add("honest-control", func(rng *rand.Rand, s *world.Spec) {})
	// --- masks
	for _, mk := range maskKinds {
		for _, ak := range maskKinds {
			mk, ak := mk, ak
			add("mask:"+mk+"/"+ak+":match", func(rng *rand.Rand, s *world.Spec) { setMasks(rng, s, mk, ak) })
		}
	}
	for _, k := range maskKinds {
		k := k
		// report bits set outside the mask: must not matter
		add("mask:"+k+":misc-report-bit-outside", func(rng *rand.Rand, s *world.Spec) {
			mm, _ := setMasks(rng, s, k, "random")
			if i, b, ok := pickBit(rng, mm, false); ok {
				s.Quote.QeReport.MiscSelect ^= uint32(b) << (8 * i)
			}
		})
		add("mask:"+k+":attr-report-bit-outside", func(rng *rand.Rand, s *world.Spec) {
			_, am := setMasks(rng, s, "random", k)
			if i, b, ok := pickBit(rng, am, false); ok {
				s.Quote.QeReport.Attributes[i] ^= b
			}
		})
		// report bit inside the mask differs
		add("mask:"+k+":misc-report-bit-inside", func(rng *rand.Rand, s *world.Spec) {
			mm, _ := setMasks(rng, s, k, "random")
			if i, b, ok := pickBit(rng, mm, true); ok {
				s.Quote.QeReport.MiscSelect ^= uint32(b) << (8 * i)
			}
		})
		add("mask:"+k+":attr-report-bit-inside", func(rng *rand.Rand, s *world.Spec) {
			_, am := setMasks(rng, s, "random", k)
			if i, b, ok := pickBit(rng, am, true); ok {
				s.Quote.QeReport.Attributes[i] ^= b
			}
		})
		// identity value bit set outside the mask: can never match
		add("mask:"+k+":misc-identity-bit-outside", func(rng *rand.Rand, s *world.Spec) {
			mm, _ := setMasks(rng, s, k, "random")
			if i, b, ok := pickBit(rng, mm, false); ok {
				v, _ := hex.DecodeString(s.Qe.Miscselect)
				v[i] |= b
				s.Qe.Miscselect = hex.EncodeToString(v)
				// make the report agree on that bit, so that only "outside the mask" separates them
				s.Quote.QeReport.MiscSelect |= uint32(b) << (8 * i)
			}
		})
		add("mask:"+k+":attr-identity-bit-outside", func(rng *rand.Rand, s *world.Spec) {
			_, am := setMasks(rng, s, "random", k)
			if i, b, ok := pickBit(rng, am, false); ok {
				v, _ := hex.DecodeString(s.Qe.Attributes)
				v[i] |= b
				s.Qe.Attributes = hex.EncodeToString(v)
				s.Quote.QeReport.Attributes[i] |= b
			}
		})
	}
	// --- lengths
	for _, vl := range []int{0, 3, 4, 5} {
		for _, ml := range []int{0, 3, 4, 5} {
			vl, ml := vl, ml
			add(fmt.Sprintf("len:misc-value%d-mask%d", vl, ml), func(rng *rand.Rand, s *world.Spec) {
				s.Qe.Miscselect, s.Qe.MiscselectMask = hexResize(s.Qe.Miscselect, vl), hexResize(s.Qe.MiscselectMask, ml)
			})
		}
	}
	for _, vl := range []int{15, 16, 17} {
		for _, ml := range []int{15, 16, 17} {
			vl, ml := vl, ml
			add(fmt.Sprintf("len:attr-value%d-mask%d", vl, ml), func(rng *rand.Rand, s *world.Spec) {
				s.Qe.Attributes, s.Qe.AttributesMask = hexResize(s.Qe.Attributes, vl), hexResize(s.Qe.AttributesMask, ml)
			})
		}
	}
	for _, n := range []int{0, 31, 33, 48} {
		n := n
		add(fmt.Sprintf("len:mrsigner%d", n), func(rng *rand.Rand, s *world.Spec) { s.Qe.Mrsigner = hexResize(s.Qe.Mrsigner, n) })
	}
	// --- MRSIGNER one bit off
	step := 8
	if thorough {
		step = 1
	}
	for bit := 0; bit < 256; bit += step {
		bit := bit
		add("mrsigner:bit", func(rng *rand.Rand, s *world.Spec) {
			b, _ := hex.DecodeString(s.Qe.Mrsigner)
			k := (bit + rng.IntN(step)) % 256
			b[k/8] ^= 1 << (k % 8)
			s.Qe.Mrsigner = hex.EncodeToString(b)
		})
	}
	add("mrsigner:report-bit", func(rng *rand.Rand, s *world.Spec) { s.Quote.QeReport.MrSigner[rng.IntN(32)] ^= 1 << rng.IntN(8) })
	// --- ISVPRODID
	add("isvprodid:identity+1", func(rng *rand.Rand, s *world.Spec) { s.Qe.IsvProdID = (s.Qe.IsvProdID + 1) % 65536 })
	add("isvprodid:identity-1", func(rng *rand.Rand, s *world.Spec) { s.Qe.IsvProdID = (s.Qe.IsvProdID + 65535) % 65536 })
	add("isvprodid:report+1", func(rng *rand.Rand, s *world.Spec) {
		s.Qe.IsvProdID = 1 + rng.IntN(60000)
		s.Quote.QeReport.IsvProdId = uint32(s.Qe.IsvProdID + 1)
	})
	add("isvprodid:report-1", func(rng *rand.Rand, s *world.Spec) {
		s.Qe.IsvProdID = 1 + rng.IntN(60000)
		s.Quote.QeReport.IsvProdId = uint32(s.Qe.IsvProdID - 1)
	})
	add("isvprodid:report-far-above", func(rng *rand.Rand, s *world.Spec) {
		s.Qe.IsvProdID = rng.IntN(100)
		s.Quote.QeReport.IsvProdId = uint32(s.Qe.IsvProdID + 1000 + rng.IntN(60000))
	})
	add("isvprodid:swapped-with-isvsvn", func(rng *rand.Rand, s *world.Spec) {
		// the identity's ISVPRODID is the report's ISVSVN and the level threshold follows the report's ISVPRODID:
		// an implementation that crossed the two fields would accept
		rep := s.Quote.QeReport
		p, v := int(rep.IsvProdId), int(rep.IsvSvn)
		if p == v {
			rep.IsvProdId++
			p++
		}
		s.Qe.IsvProdID = v
		lo := p
		if v < lo {
			lo = v
		}
		s.Qe.Levels = []world.QeLevel{{Isvsvn: lo, Status: "UpToDate"}}
	})
	add("isvprodid:65536-in-document", func(rng *rand.Rand, s *world.Spec) { s.Qe.IsvProdID = 65536 })
	// 0 is a product id like any other, not "unset"
	add("isvprodid:identity-0-report-nonzero", func(rng *rand.Rand, s *world.Spec) {
		s.Qe.IsvProdID = 0
		s.Quote.QeReport.IsvProdId = uint32([]int{1, 2, 255, 65535}[rng.IntN(4)])
	})
	add("isvprodid:identity-nonzero-report-0", func(rng *rand.Rand, s *world.Spec) {
		s.Qe.IsvProdID = 1 + rng.IntN(60000)
		s.Quote.QeReport.IsvProdId = 0
	})
	add("isvprodid:both-0", func(rng *rand.Rand, s *world.Spec) { s.Qe.IsvProdID, s.Quote.QeReport.IsvProdId = 0, 0 })
	// the message carries ISVSVN / ISVPRODID in 32 bits, the signed report in 16: high bits added after signing leave the QE
	// report signature valid for a truncating serialiser; the level lookup must still see the SIGNED value (here: OutOfDate)
	add("isvsvn:high-bits-after-signing", func(rng *rand.Rand, s *world.Spec) {
		s0 := 5 + rng.IntN(1000)
		s.Quote.QeReport.IsvSvn = uint32(s0)
		s.Qe.Levels = []world.QeLevel{{Isvsvn: s0 + 1 + rng.IntN(60000), Status: "UpToDate"}, {Isvsvn: s0, Status: "OutOfDate"}, {Isvsvn: 0, Status: "UpToDate"}}
		k := uint32(1 + rng.IntN(3))
		s.MsgMut = append(s.MsgMut, func(q *pb.QuoteV4) { qrep(q).IsvSvn += k << 16 })
	})
	add("isvprodid:high-bits-after-signing", func(rng *rand.Rand, s *world.Spec) {
		k := 1 + rng.IntN(3)
		p0 := int(s.Quote.QeReport.IsvProdId)
		s.Qe.IsvProdID = p0 + k<<16
		s.MsgMut = append(s.MsgMut, func(q *pb.QuoteV4) { qrep(q).IsvProdId += uint32(k) << 16 })
	})
	// --- level lists of length 0..5, ISVSVN below / at / above each level, every status, listed in descending and in ascending order
	for n := 0; n <= 5; n++ {
		for pos := 0; pos <= 2*n; pos++ { // pos 2k: strictly above threshold k (below k-1); 2k+1: at threshold k; 2n: below all
			for _, st := range tcbStatuses {
				for _, order := range []string{"desc", "asc"} {
					if order == "asc" && n < 2 {
						continue
					}
					n, pos, st, order := n, pos, st, order
					add(fmt.Sprintf("levels:n%d/%s", n, order), func(rng *rand.Rand, s *world.Spec) {
						// thresholds t_0 > t_1 > … with gaps >= 3
						base := 50 + rng.IntN(1000)
						th := make([]int, n)
						for k := range th {
							th[k] = base + 10*(n-k)
						}
						var isv int
						switch {
						case pos == 2*n && n > 0:
							isv = th[n-1] - 1 - rng.IntN(3)
						case n == 0:
							isv = base
						case pos%2 == 1:
							isv = th[pos/2]
						default:
							isv = th[pos/2] + 1 + rng.IntN(3)
						}
						s.Quote.QeReport.IsvSvn = uint32(isv)
						other := "UpToDate"
						if st == "UpToDate" {
							other = []string{"OutOfDate", "Revoked", "SWHardeningNeeded"}[rng.IntN(3)]
						}
						lv := make([]world.QeLevel, n)
						for k := range lv {
							lv[k] = world.QeLevel{Isvsvn: th[k], Status: other}
						}
						// the level Intel's rule selects gets the status under test, all others the opposite
						if order == "asc" {
							for a, b := 0, n-1; a < b; a, b = a+1, b-1 {
								lv[a], lv[b] = lv[b], lv[a]
							}
						}
						for k := range lv {
							if lv[k].Isvsvn <= isv {
								lv[k].Status = st
								break
							}
						}
						s.Qe.Levels = lv
					})
				}
			}
		}
	}
	// --- status strings and hex strings the document decoder must refuse
	for _, bad := range []string{"uptodate", "UpToDate ", "", "Unknown", "UPTODATE"} {
		bad := bad
		add("status:unknown-selected", func(rng *rand.Rand, s *world.Spec) { s.Qe.Levels[1].Status = bad })
		add("status:unknown-elsewhere", func(rng *rand.Rand, s *world.Spec) { s.Qe.Levels[2].Status = bad })
	}
	hexFields := []struct {
		name string
		get  func(d *world.QeDoc) *string
	}{{"miscselect", func(d *world.QeDoc) *string { return &d.Miscselect }}, {"miscselectMask", func(d *world.QeDoc) *string { return &d.MiscselectMask }},
		{"attributes", func(d *world.QeDoc) *string { return &d.Attributes }}, {"attributesMask", func(d *world.QeDoc) *string { return &d.AttributesMask }},
		{"mrsigner", func(d *world.QeDoc) *string { return &d.Mrsigner }}}
	for _, f := range hexFields {
		f := f
		add("hex:odd-length:"+f.name, func(rng *rand.Rand, s *world.Spec) { p := f.get(&s.Qe); *p = (*p)[:len(*p)-1] })
		add("hex:not-hex:"+f.name, func(rng *rand.Rand, s *world.Spec) { p := f.get(&s.Qe); *p = "g" + (*p)[1:] })
		add("hex:upper-case:"+f.name, func(rng *rand.Rand, s *world.Spec) { p := f.get(&s.Qe); *p = strings.ToUpper(*p) }) // same bytes: must not matter
		add("hex:0x-prefix:"+f.name, func(rng *rand.Rand, s *world.Spec) { p := f.get(&s.Qe); *p = "0x" + *p })
	}
	// --- numbers and byte strings just outside their width: a level isvsvn of 2^16 + k (k at or below the report's ISVSVN) listed
	// first and UpToDate, in front of the level that really applies (not UpToDate) or of nothing; an identity MRSIGNER that is the
	// report's 32 bytes plus more, or only a prefix of it where the report's tail is zero; a MISCSELECT value of 4 + n bytes
	for _, rest := range []string{"then-the-real-level-OutOfDate", "alone"} {
		rest := rest
		add("width:level-isvsvn-above-16-bits-listed-first/"+rest, func(rng *rand.Rand, s *world.Spec) {
			isv := int(s.Quote.QeReport.IsvSvn & 0xffff)
			wrapped := world.QeLevel{Isvsvn: 65536*(1+rng.IntN(3)) + rng.IntN(isv+1), Status: "UpToDate"}
			if rest == "alone" {
				s.Qe.Levels = []world.QeLevel{wrapped}
			} else {
				s.Qe.Levels = []world.QeLevel{wrapped, {Isvsvn: isv, Status: []string{"OutOfDate", "Revoked"}[rng.IntN(2)]}}
			}
		})
	}
	add("width:mrsigner-is-the-reports-plus-extra-bytes", func(rng *rand.Rand, s *world.Spec) {
		s.Qe.Mrsigner = hex.EncodeToString(append(append([]byte{}, s.Quote.QeReport.MrSigner...), hx.RandBytes(rng, 1+rng.IntN(16))...))
	})
	add("width:mrsigner-is-a-prefix(report-tail-zero)", func(rng *rand.Rand, s *world.Spec) {
		n := 8 + rng.IntN(20)
		for i := n; i < 32; i++ {
			s.Quote.QeReport.MrSigner[i] = 0
		}
		s.Qe.Mrsigner = hex.EncodeToString(s.Quote.QeReport.MrSigner[:n])
	})
	add("width:mrsigner-empty(report-all-zero)", func(rng *rand.Rand, s *world.Spec) {
		for i := range s.Quote.QeReport.MrSigner {
			s.Quote.QeReport.MrSigner[i] = 0
		}
		s.Qe.Mrsigner = ""
	})
	add("width:miscselect-of-more-than-4-bytes", func(rng *rand.Rand, s *world.Spec) {
		s.Qe.Miscselect += hex.EncodeToString(hx.RandBytes(rng, 1+rng.IntN(4)))
	})
	add("width:miscselect-mask-of-more-than-4-bytes", func(rng *rand.Rand, s *world.Spec) {
		s.Qe.MiscselectMask += hex.EncodeToString(hx.RandBytes(rng, 1+rng.IntN(4)))
	})
	// --- one half of ATTRIBUTES at a time: the identity's value is zero there, the mask selects every bit of it, the report has ONE
	// bit set there (the other half agrees) — and the mirror image (identity has the bit, the report does not)
	for _, half := range []string{"low", "high"} {
		for _, dir := range []string{"report-has-bit", "identity-has-bit"} {
			half, dir := half, dir
			add("mask:all-ones:attr-"+half+"-half-zero/"+dir, func(rng *rand.Rand, s *world.Spec) {
				s.Qe.AttributesMask = strings.Repeat("ff", 16)
				a := s.Quote.QeReport.Attributes
				lo := 0
				if half == "high" {
					lo = 8
				}
				for i := lo; i < lo+8; i++ {
					a[i] = 0
				}
				id := append([]byte{}, a...)
				bit, pos := byte(1)<<rng.IntN(8), lo+rng.IntN(8)
				if dir == "report-has-bit" {
					a[pos] = bit
				} else {
					id[pos] = bit
				}
				s.Qe.Attributes = hex.EncodeToString(id)
				// a TCB Info that selects no SEAM attribute bit (mask and value zero): whatever the SEAM attributes are, they match
				s.Tcb.Mask, s.Tcb.Attributes = strings.Repeat("00", 8), strings.Repeat("00", 8)
			})
		}
	}
	// --- unsigned content next to the signed identity: a look-alike member (the key in another spelling, or the very same key)
	// before / after / between the signed member and the signature describes exactly this QE, while the SIGNED identity does
	// not (another signer, another product, the selected level not UpToDate, every level above the report).  Only what Intel
	// signed is the QE Identity.
	for _, what := range []string{"mrsigner", "isvprodid", "level-status", "all-levels-above"} {
		for _, pos := range []string{"after", "between", "before"} {
			for _, sp := range []string{"UPPER", "MiXed", "exact", "lower"} {
				what, pos, sp := what, pos, sp
				add("unsigned-member:"+what+"/"+sp+"/"+pos, func(rng *rand.Rand, s *world.Spec) {
					good := s.Qe
					good.Levels = append([]world.QeLevel{}, s.Qe.Levels...)
					s.Qe.Levels = append([]world.QeLevel{}, s.Qe.Levels...)
					switch what {
					case "mrsigner":
						b, _ := hex.DecodeString(s.Qe.Mrsigner)
						b[rng.IntN(len(b))] ^= 1 << rng.IntN(8)
						s.Qe.Mrsigner = hex.EncodeToString(b)
					case "isvprodid":
						s.Qe.IsvProdID ^= 1 << rng.IntN(16)
					case "level-status":
						for k := range s.Qe.Levels {
							if s.Qe.Levels[k].Status == "UpToDate" {
								s.Qe.Levels[k].Status = []string{"OutOfDate", "Revoked"}[rng.IntN(2)]
							}
						}
					default:
						for k := range s.Qe.Levels {
							s.Qe.Levels[k].Isvsvn = 65535
						}
					}
					s.QeResp.AltJSON = good.JSON()
					alt := world.Member{Key: spell("enclaveIdentity", sp), Kind: "alt"}
					signed, sig := world.Member{Key: "enclaveIdentity", Kind: "signed"}, world.Member{Key: "signature", Kind: "sig"}
					switch pos {
					case "after":
						s.QeResp.Members = []world.Member{signed, sig, alt}
					case "before":
						s.QeResp.Members = []world.Member{alt, signed, sig}
					default:
						s.QeResp.Members = []world.Member{signed, alt, sig}
					}
				})
			}
		}
	}
	return fs
}

// c7Random: several QE dimensions at once.
func c7Random(rng *rand.Rand, s *world.Spec) string {
	rep := s.Quote.QeReport
	setMasks(rng, s, maskKinds[rng.IntN(4)], maskKinds[rng.IntN(4)])
	var what []string
	if rng.IntN(4) == 0 {
		mm, _ := hex.DecodeString(s.Qe.MiscselectMask)
		if i, b, ok := pickBit(rng, mm, rng.IntN(2) == 0); ok {
			rep.MiscSelect ^= uint32(b) << (8 * i)
			what = append(what, "misc-report-bit")
		}
	}
	if rng.IntN(4) == 0 {
		am, _ := hex.DecodeString(s.Qe.AttributesMask)
		if i, b, ok := pickBit(rng, am, rng.IntN(2) == 0); ok {
			rep.Attributes[i] ^= b
			what = append(what, "attr-report-bit")
		}
	}
	if rng.IntN(8) == 0 {
		v, _ := hex.DecodeString(s.Qe.Attributes)
		v[rng.IntN(16)] ^= 1 << rng.IntN(8)
		s.Qe.Attributes = hex.EncodeToString(v)
		what = append(what, "attr-identity-bit")
	}
	if rng.IntN(8) == 0 {
		v, _ := hex.DecodeString(s.Qe.Miscselect)
		v[rng.IntN(4)] ^= 1 << rng.IntN(8)
		s.Qe.Miscselect = hex.EncodeToString(v)
		what = append(what, "misc-identity-bit")
	}
	if rng.IntN(10) == 0 {
		s.Qe.IsvProdID = (s.Qe.IsvProdID + []int{1, 65535, 256}[rng.IntN(3)]) % 65536
		what = append(what, "prodid")
	}
	if rng.IntN(10) == 0 {
		rep.MrSigner[rng.IntN(32)] ^= 1 << rng.IntN(8)
		what = append(what, "mrsigner")
	}
	// random level list
	n := 1 + rng.IntN(5)
	isv := 5 + rng.IntN(60000)
	rep.IsvSvn = uint32(isv)
	lv := make([]world.QeLevel, n)
	for k := range lv {
		st := "UpToDate"
		if rng.IntN(2) == 0 {
			st = tcbStatuses[rng.IntN(7)]
		}
		lv[k] = world.QeLevel{Isvsvn: isv - 4 + rng.IntN(9), Status: st}
		if lv[k].Isvsvn < 0 {
			lv[k].Isvsvn = 0
		}
	}
	s.Qe.Levels = lv
	if len(what) == 0 {
		return "levels-only"
	}
	return strings.Join(what, "+")
}

func c07Concurrent(r *hx.Run) {
	var ws []*world.World
	for i := 0; i < 6; i++ {
		rng := rand.New(rand.NewPCG(r.Seed, 0x0707<<16|uint64(i)))
		s := honestSpec(rng)
		s.GC = true
		s.Fault = fmt.Sprintf("matching-qe-%d", i)
		if i%2 == 1 {
			// a QE report with an attribute bit the identity's mask covers and its value forbids (e.g. DEBUG)
			b, _ := hex.DecodeString(s.Qe.AttributesMask)
			v, _ := hex.DecodeString(s.Qe.Attributes)
			b[0] |= 0x02
			v[0] &^= 0x02
			s.Qe.AttributesMask, s.Qe.Attributes = hex.EncodeToString(b), hex.EncodeToString(v)
			s.Quote.QeReport.Attributes[0] |= 0x02
			s.Honest = false
			s.Fault = fmt.Sprintf("qe-attribute-bit-forbidden-by-the-identity-%d", i)
		}
		ws = append(ws, world.Build(s))
	}
	cvConcurrent(r, "C07", ws, map[bool]time.Duration{true: 8 * time.Second, false: 2 * time.Second}[r.Tier == "thorough"])
}

func c07(r *hx.Run) {
	defer c07Concurrent(r)
	thorough := r.Tier == "thorough"
	faults := c7Faults(thorough)
	reps, nRandom := 1, 900
	if thorough {
		reps, nRandom = 12, 16000
	}
	nStruct := len(faults) * reps
	r.Note("structured_faults", len(faults))
	r.Note("random_worlds", nRandom)
	runJobs(r, nStruct+nRandom, func(i int, rng *rand.Rand) *vJob {
		s := honestSpec(rng)
		s.GC = true
		s.CR = rng.IntN(8) == 0
		j := &vJob{oracle: c7Oracle, accOK: c7AccOK}
		if i < nStruct {
			f := faults[i%len(faults)]
			f.apply(rng, s)
			s.Fault = f.name
			j.tags = []string{"fault:" + f.name, "family:" + strings.SplitN(f.name, ":", 2)[0]}
		} else {
			what := c7Random(rng, s)
			s.Fault = "random"
			j.tags = []string{"fault:random", "family:random", "random:" + what}
		}
		s.Honest = false
		j.tags = append(j.tags, fmt.Sprintf("qe-levels:%d", len(s.Qe.Levels)))
		j.spec = s
		return j
	})
}
