package main

import (
	"os"
	"path/filepath"
)

// repoRoot is where the code under check lives (the harness module `replace`s to it as well).
var repoRoot = func() string {
	if v := os.Getenv("VERIF_REPO"); v != "" {
		return v
	}
	return "/repo"
}()

func mustRead(rel string) []byte {
	b, err := os.ReadFile(filepath.Join(repoRoot, rel))
	if err != nil {
		panic(err)
	}
	return b
}

func sampleQuote() []byte { return mustRead("testing/testdata/tdx_prod_quote_SPR_E4.dat") }
