package main

// C05 — revocation.  "With revocation checking enabled a quote is accepted only if a Root CA CRL signed by
// the chain's root and a PCK CRL signed by the chain's intermediate CA were both obtained, the leaf's serial is
// absent from the PCK CRL, and the serials of the intermediate CA and of the TCB-Info and QE-Identity signing
// certificates are absent from the Root CA CRL.  If a CRL cannot be fetched, parsed or authenticated the quote
// is rejected, and asking for revocation checks without collateral fetching always fails."
//
// Every case is honestSpec + a separate QE-Identity signing certificate (own key and serial, so that each of
// the four serial scans is exercised on its own) + ONE fault of one dimension (serial set × target, CRL signer,
// endpoint outcome, PCK-CRL issuer-chain header), run under all four option combinations; the thorough tier and
// a part of the quick tier add random combinations of several dimensions.  The oracle (c05Oracle) reads the
// bytes the scripted getter served and the URLs the verifier requested, parses and authenticates the CRLs with
// crypto/x509 itself, and never looks at the model or at the spec's fault name.
//
// This file also holds the three helpers shared by the C05 / C06 / C12 drivers (c05CaseRng, c05RunWith, c05Emit).

import (
	ccpb "github.com/google/go-tdx-guest/proto/checkconfig"
	"os"
	"crypto/x509"
	"fmt"
	"math/big"
	"math/rand/v2"
	"strings"
	"time"

	"github.com/google/go-tdx-guest/verify"
	"google.golang.org/protobuf/proto"

	"tdxharness/hx"
	"tdxharness/world"
)

func init() { drivers["C05"] = c05 }

// ------------------------------------------------------------------ shared by C05 / C06 / C12

// c05CaseRng: the deterministic per-case sub-PRNG rand.New(rand.NewPCG(seed, caseIndex)); `family` keeps the
// index spaces of the generator families (and of the three properties) apart.
func c05CaseRng(r *hx.Run, family uint64, idx int) *rand.Rand {
	return rand.New(rand.NewPCG(r.Seed, family<<32|uint64(uint32(idx))))
}

// c05RunWith calls the real verify.TdxQuote on the world's message (cloned) through the GIVEN options value.
func c05RunWith(w *world.World, o *verify.Options) vResult { return verifyCall(w, o) }

// c05Emit records a result that was obtained with the world's CURRENT Spec.GC / CR / Now / PoolNil and PoolCerts
// (the V.verify line is rendered from them); `clock` is the wall clock read just before the call.
func c05Emit(r *hx.Run, w *world.World, vr vResult, clock time.Time, fail string, tags ...string) {
	line := w.Facts(verifyFx, msgTokens(w.Quote), clock)
	if vr.panicked {
		fail = "crash in verify.TdxQuote"
	} else if fail == "" {
		fail = vr.side
	}
	cls := "-"
	if vr.err != nil {
		cls = strings.ReplaceAll(hx.Trunc(vr.err.Error(), 40), " ", "_")
	}
	key := fmt.Sprintf("%s|%v|%v|%s|%d", w.Spec.Fault, w.Spec.GC, w.Spec.CR, cls, hx.Fnv1a([]byte(line))%64)
	r.Emit(line, vr.obs, fail, key, true, append(tags, "verdict:"+strings.SplitN(vr.obs, " ", 2)[0], fmt.Sprintf("opts:gc%dcr%d", hx.B(w.Spec.GC), hx.B(w.Spec.CR)))...)
}

var c05Levels = [][2]bool{{true, true}, {true, false}, {false, false}, {false, true}}

// ------------------------------------------------------------------ generator

// c05Serial: a certificate serial of one of three magnitudes (int-sized, around 2^64, up to 2^158).
func c05Serial(rng *rand.Rand) *big.Int {
	switch rng.IntN(3) {
	case 0:
		return big.NewInt(int64(1000 + rng.IntN(1<<30)))
	case 1:
		v := new(big.Int).Lsh(big.NewInt(1), 64)
		return v.Add(v, big.NewInt(int64(rng.IntN(1<<30))-(1<<29)))
	}
	v := new(big.Int).SetBytes(hx.RandBytes(rng, 9+rng.IntN(11)))
	v.SetBit(v, 70, 1)
	v.SetBit(v, 159, 0)
	v.SetBit(v, 158, 0)
	return v
}

func c05Near(a, b *big.Int) bool {
	d := new(big.Int).Sub(a, b)
	return d.CmpAbs(big.NewInt(3)) <= 0
}

// c05Fresh draws a serial that is not within ±3 of any serial in `avoid` (nor of 2^64 / 2^159).
func c05Fresh(rng *rand.Rand, avoid []*big.Int) *big.Int {
	for {
		v := c05Serial(rng)
		ok := true
		for _, a := range avoid {
			if c05Near(v, a) {
				ok = false
			}
		}
		if ok {
			return v
		}
	}
}

var c05Pow64 = new(big.Int).Lsh(big.NewInt(1), 64)
var c05Pow159 = new(big.Int).Lsh(big.NewInt(1), 159)

var c05SetKinds = []string{"empty", "exact", "plus1", "minus1", "pow64", "pow159", "low64", "k-first", "k-last", "k-absent"}

// c05Set: a revoked-serial list of the given kind for target serial t; listed = t is a member.
func c05Set(rng *rand.Rand, kind string, t *big.Int, avoid []*big.Int) (set []*big.Int, listed bool) {
	noise := func(n int) []*big.Int {
		out := make([]*big.Int, n)
		for i := range out {
			out[i] = c05Fresh(rng, avoid)
		}
		return out
	}
	one := big.NewInt(1)
	switch kind {
	case "empty":
		return nil, false
	case "exact":
		return []*big.Int{new(big.Int).Set(t)}, true
	case "plus1":
		return []*big.Int{new(big.Int).Add(t, one)}, false
	case "minus1":
		return []*big.Int{new(big.Int).Sub(t, one)}, false
	case "pow64":
		return []*big.Int{c05Pow64}, false
	case "pow159":
		return []*big.Int{c05Pow159}, false
	case "low64": // a comparison truncated to 64 bits (or the sign-flipped value) would see the target
		low := new(big.Int).Mod(t, c05Pow64)
		if low.Sign() == 0 || low.Cmp(t) == 0 {
			low = new(big.Int).Add(t, c05Pow64)
		}
		return []*big.Int{low}, false
	case "k-first":
		return append([]*big.Int{new(big.Int).Set(t)}, noise(999)...), true
	case "k-last":
		return append(noise(999), new(big.Int).Set(t)), true
	case "k-absent":
		n := noise(998)
		return append(n, new(big.Int).Add(t, one), new(big.Int).Sub(t, one)), false
	}
	panic("c05Set " + kind)
}

// c05Base: honestSpec + own QE-Identity signing certificate + random distinct serials; GC=CR=true.
func c05Base(rng *rand.Rand) *world.Spec {
	s := honestSpec(rng)
	root := s.Cert("root")
	avoid := []*big.Int{root.Serial, c05Pow64, c05Pow159}
	for _, role := range []string{"inter", "leaf", "signer"} {
		v := c05Fresh(rng, avoid)
		s.Cert(role).Serial = v
		avoid = append(avoid, v)
	}
	qs := c05Fresh(rng, avoid)
	avoid = append(avoid, qs)
	s.Certs = append(s.Certs, &world.CertSpec{Role: "qesigner", CN: "Intel SGX TCB Signing", Serial: qs, NotBefore: root.NotBefore, NotAfter: root.NotAfter, Key: 6, SignKey: 1, IssuerOf: "root"})
	s.QeResp.SignKey = 6
	s.QeResp.HdrRoles = []string{"qesigner", "root"}
	s.PckCrl.Revoked = []*big.Int{c05Fresh(rng, avoid), c05Fresh(rng, avoid)}
	s.RootCrls[0].Revoked = []*big.Int{c05Fresh(rng, avoid)}
	s.GC, s.CR = true, true
	return s
}

func c05Avoid(s *world.Spec) []*big.Int {
	out := []*big.Int{c05Pow64, c05Pow159}
	for _, c := range s.Certs {
		out = append(out, c.Serial)
	}
	return out
}

// a fault: a modification of the spec; harmless = the world must still be accepted at every sane option level
type c05Mod struct {
	dim, name string
	harmless  bool
	apply     func(s *world.Spec, rng *rand.Rand)
}

// tags under which a fault is counted in the evidence histogram (serial sets: kind and target separately)
func (m c05Mod) tags() []string {
	if m.dim == "serial" {
		kt := strings.SplitN(strings.TrimPrefix(m.name, "set:"), "/", 2)
		return []string{"dim:serial", "set:" + kt[0], "target:" + kt[1]}
	}
	return []string{"dim:" + m.dim, "fault:" + m.name}
}

// serial-set faults: target role, the CRL it is put on ("pck" / "root"), whether that CRL is the one that counts
var c05Targets = []struct {
	name, role, crl string
	right           bool
}{
	{"leaf@pck", "leaf", "pck", true}, {"inter@root", "inter", "root", true}, {"tcbsigner@root", "signer", "root", true}, {"qesigner@root", "qesigner", "root", true},
	{"leaf@root(wrong-list)", "leaf", "root", false}, {"inter@pck(wrong-list)", "inter", "pck", false},
}

func c05SerialMods() []c05Mod {
	var out []c05Mod
	for _, tg := range c05Targets {
		for _, kind := range c05SetKinds {
			tg, kind := tg, kind
			listed := kind == "exact" || kind == "k-first" || kind == "k-last"
			out = append(out, c05Mod{"serial", "set:" + kind + "/" + tg.name, !(listed && tg.right), func(s *world.Spec, rng *rand.Rand) {
				set, _ := c05Set(rng, kind, s.Cert(tg.role).Serial, c05Avoid(s))
				if tg.crl == "pck" {
					s.PckCrl.Revoked = set
				} else {
					for i := range s.RootCrls {
						s.RootCrls[i].Revoked = set
					}
				}
			}})
		}
	}
	// the caller trusts more than the root: the pool holds the whole hierarchy (root, intermediate, both collateral signers,
	// or everything including the leaf).  A certificate that is itself in the pool is still looked up in the list of its issuer.
	for _, tg := range c05Targets {
		for _, pool := range [][]string{{"root", "inter", "signer", "qesigner"}, {"root", "inter", "leaf", "signer", "qesigner"}, {"signer", "qesigner", "root"}} {
			for _, kind := range []string{"exact", "k-last", "k-absent"} {
				tg, kind, pool := tg, kind, pool
				listed := kind != "k-absent"
				out = append(out, c05Mod{"serial", "pool-holds(" + strings.Join(pool, "+") + ")+set:" + kind + "/" + tg.name, !(listed && tg.right), func(s *world.Spec, rng *rand.Rand) {
					s.Pool = pool
					set, _ := c05Set(rng, kind, s.Cert(tg.role).Serial, c05Avoid(s))
					if tg.crl == "pck" {
						s.PckCrl.Revoked = set
					} else {
						for i := range s.RootCrls {
							s.RootCrls[i].Revoked = set
						}
					}
				}})
			}
		}
	}
	return out
}

func c05LookAlike(s *world.Spec, role, like, org string) {
	if s.Cert(role) != nil {
		return
	}
	l := s.Cert(like)
	s.Certs = append(s.Certs, &world.CertSpec{Role: role, CN: l.CN, Org: org, Serial: big.NewInt(4242), NotBefore: l.NotBefore, NotAfter: l.NotAfter, IsCA: true, Key: 8, SignKey: 8})
}

func c05SignerMods() []c05Mod {
	pck := func(name string, key int, issuer string) c05Mod {
		return c05Mod{"signer", "pckcrl-signer:" + name, false, func(s *world.Spec, _ *rand.Rand) {
			if issuer == "interOrg" {
				c05LookAlike(s, "interOrg", "inter", "Intel Corporation Ltd")
			}
			s.PckCrl.SignKey, s.PckCrl.IssuerOf = key, issuer
		}}
	}
	root := func(name string, key int, issuer string) c05Mod {
		return c05Mod{"signer", "rootcrl-signer:" + name, false, func(s *world.Spec, _ *rand.Rand) {
			if issuer == "rootOrg" {
				c05LookAlike(s, "rootOrg", "root", "Intel Corporation Ltd")
			}
			for i := range s.RootCrls {
				s.RootCrls[i].SignKey, s.RootCrls[i].IssuerOf = key, issuer
			}
		}}
	}
	// a CA that may not sign CRLs (key usage without cRLSign): whatever carries its name — the CRL it really signed, or one a
	// foreign key signed — is not an authenticated CRL
	noCrlSign := func(name, role string, foreign bool) c05Mod {
		return c05Mod{"signer", "crl-issuer-without-crlsign:" + name, false, func(s *world.Spec, _ *rand.Rand) {
			s.Cert(role).NoKeyUsageCrlSign = true
			if foreign {
				if role == "inter" {
					s.PckCrl.SignKey = 7
				} else {
					for i := range s.RootCrls {
						s.RootCrls[i].SignKey = 7
					}
				}
			}
		}}
	}
	extra := []c05Mod{noCrlSign("intermediate/pck-crl-genuinely-signed", "inter", false), noCrlSign("intermediate/pck-crl-signed-by-foreign-key", "inter", true),
		noCrlSign("root/root-crl-genuinely-signed", "root", false), noCrlSign("root/root-crl-signed-by-foreign-key", "root", true)}
	// the CRL response's own issuer-chain header vouches for nothing: a CRL signed by a foreign CA with the intermediate's
	// exact DN, served with that foreign CA's certificate in the header (self-signed, or issued by the genuine root's name)
	hdrFake := func(name string, selfSigned bool) c05Mod {
		return c05Mod{"signer", "pckcrl-signer:foreign-ca-same-dn+header-carries-it(" + name + ")", false, func(s *world.Spec, _ *rand.Rand) {
			l := s.Cert("inter")
			sk := 8
			if !selfSigned {
				sk = 7
			}
			s.Certs = append(s.Certs, &world.CertSpec{Role: "interFake", CN: l.CN, Org: l.Org, Serial: l.Serial, NotBefore: l.NotBefore, NotAfter: l.NotAfter, IsCA: true, Key: 8, SignKey: sk, IssuerOf: map[bool]string{true: "", false: "root"}[selfSigned]})
			s.PckCrl.SignKey, s.PckCrl.IssuerOf = 8, "interFake"
			s.PckCrlHdrRoles = []string{"interFake", "root"}
		}}
	}
	// two trusted roots with the same name (roll-over, production + pre-production): the chain is under root A, the collateral
	// and the Root CA CRL are authentic under root B — which says nothing about what root A revoked
	twoRoots := c05Mod{"signer", "rootcrl-signer:other-trusted-root-with-the-same-name(collateral-under-it)", false, func(s *world.Spec, rng *rand.Rand) {
		addLookalike(rng, s)
		s.Pool = []string{"root", "rootB"}
		s.TcbResp.SignKey, s.TcbResp.HdrRoles = 9, []string{"signerB", "rootB"}
		s.QeResp.SignKey, s.QeResp.HdrRoles = 9, []string{"signerB", "rootB"}
		for i := range s.RootCrls {
			s.RootCrls[i].IssuerOf, s.RootCrls[i].SignKey = "rootB", 6
		}
	}}
	// the QE-Identity response is signed by a RE-ISSUED certificate of the TCB signer (same key, same names, other serial) that the
	// Root CA CRL lists; the TCB-Info response carries the good one
	reissued := c05Mod{"serials", "rootcrl-lists:reissued-qe-identity-signer(same-key-and-names-as-the-tcb-info-signer)", false, func(s *world.Spec, rng *rand.Rand) {
		c := *s.Cert("signer")
		c.Role, c.Serial = "signerReissued", new(big.Int).Add(s.Cert("signer").Serial, big.NewInt(int64(1+rng.IntN(1000))))
		s.Certs = append(s.Certs, &c)
		s.QeResp.HdrRoles, s.QeResp.SignKey = []string{"signerReissued", "root"}, s.Cert("signer").Key
		for i := range s.RootCrls {
			s.RootCrls[i].Revoked = append(s.RootCrls[i].Revoked, c.Serial)
		}
	}}
	// a listed certificate is revoked, whatever the entry's date says relative to the verifier's clock and however the CRL's
	// issuer name is encoded
	dated := func(name string, which string, d time.Duration, utf8 bool) c05Mod {
		return c05Mod{"serials", "listed:" + which + "(" + name + ")", false, func(s *world.Spec, rng *rand.Rand) {
			if which == "leaf@pck" {
				s.PckCrl.Revoked = append(s.PckCrl.Revoked, s.Cert("leaf").Serial)
				s.PckCrl.RevokedAt, s.PckCrl.IssuerUTF8 = s.Now[3].Add(d), utf8
			} else {
				role := map[string]string{"inter@root": "inter", "tcbsigner@root": "signer"}[which]
				for i := range s.RootCrls {
					s.RootCrls[i].Revoked = append(s.RootCrls[i].Revoked, s.Cert(role).Serial)
					s.RootCrls[i].RevokedAt, s.RootCrls[i].IssuerUTF8 = s.Now[4].Add(d), utf8
				}
			}
		}}
	}
	var datedMods []c05Mod
	for _, which := range []string{"leaf@pck", "inter@root", "tcbsigner@root"} {
		datedMods = append(datedMods, dated("entry-dated-5min-after-the-verification-time", which, 5*time.Minute, false),
			dated("entry-dated-a-year-after-the-verification-time", which, 365*24*time.Hour, false),
			dated("crl-issuer-name-utf8-encoded", which, -time.Hour, true))
	}
	return append(append(datedMods, extra...), []c05Mod{
		twoRoots, reissued,
		hdrFake("self-signed", true), hdrFake("signed-by-a-foreign-key", false),
		pck("other-ca-key(root-signs)", 1, "inter"), pck("foreign-key-same-name", 7, "inter"), pck("right-key-name-of-root", 2, "root"),
		pck("right-key-name-of-tcb-signer", 2, "signer"), pck("right-key-same-cn-other-org", 2, "interOrg"),
		root("other-ca-key(inter-signs)", 2, "root"), root("foreign-key-same-name", 7, "root"), root("right-key-name-of-inter", 1, "inter"),
		root("right-key-name-of-tcb-signer", 1, "signer"), root("right-key-same-cn-other-org", 1, "rootOrg"),
	}...)
}

func c05EndpointMods() []c05Mod {
	dp := func(n int) []string {
		out := make([]string, n)
		for i := range out {
			out[i] = fmt.Sprintf("https://certificates.example/dp%d/IntelSGXRootCA.der", i+1)
		}
		return out
	}
	// three distribution points: outcome per point; "rev" lists the intermediate, "forged" is signed by a foreign key
	dp3 := func(name string, harmless bool, kinds ...string) c05Mod {
		return c05Mod{"endpoint", "rootcrl-3dp:" + name, harmless, func(s *world.Spec, rng *rand.Rand) {
			base := s.RootCrls[0]
			s.Cert("root").CRLDPs = dp(len(kinds))
			s.RootCrls = nil
			for _, k := range kinds {
				c := base
				c.Revoked = append([]*big.Int{}, base.Revoked...)
				switch k {
				case "fail", "garbage":
					c.Fetch = k
				case "rev":
					c.Revoked = append(c.Revoked, s.Cert([]string{"inter", "signer", "qesigner"}[rng.IntN(3)]).Serial)
				case "forged":
					c.SignKey = 7
				}
				s.RootCrls = append(s.RootCrls, c)
			}
		}}
	}
	return []c05Mod{
		{"endpoint", "pckcrl:fetch-error", false, func(s *world.Spec, _ *rand.Rand) { s.PckCrl.Fetch = "fail" }},
		{"endpoint", "pckcrl:garbage", false, func(s *world.Spec, _ *rand.Rand) { s.PckCrl.Fetch = "garbage" }},
		{"endpoint", "pckcrl:crl-of-root-ca", false, func(s *world.Spec, _ *rand.Rand) { s.PckCrl.IssuerOf, s.PckCrl.SignKey = "root", 1 }},
		{"endpoint", "rootcrl:fetch-error", false, func(s *world.Spec, _ *rand.Rand) { s.RootCrls[0].Fetch = "fail" }},
		{"endpoint", "rootcrl:garbage", false, func(s *world.Spec, _ *rand.Rand) { s.RootCrls[0].Fetch = "garbage" }},
		{"endpoint", "rootcrl:crl-of-platform-ca", false, func(s *world.Spec, _ *rand.Rand) { s.RootCrls[0].IssuerOf, s.RootCrls[0].SignKey = "inter", 2 }},
		dp3("fail,garbage,ok", true, "fail", "garbage", "ok"),
		dp3("garbage,fail,ok", true, "garbage", "fail", "ok"),
		dp3("garbage,fail,rev", false, "garbage", "fail", "rev"),
		dp3("fail,fail,fail", false, "fail", "fail", "fail"),
		dp3("fail,garbage,garbage", false, "fail", "garbage", "garbage"),
		dp3("ok,rev,fail(first-wins)", true, "ok", "rev", "fail"),
		dp3("rev,ok,ok", false, "rev", "ok", "ok"),
		dp3("forged,ok,ok", false, "forged", "ok", "ok"),
		dp3("fail,forged,ok", false, "fail", "forged", "ok"),
		{"endpoint", "rootcrl:no-distribution-point-on-qe-issuer-root", false, func(s *world.Spec, _ *rand.Rand) {
			r := *s.Cert("root")
			r.Role, r.CRLDPs, r.Serial = "rootNoDP", nil, big.NewInt(1999)
			s.Certs = append(s.Certs, &r)
			s.QeResp.HdrRoles = []string{s.QeResp.HdrRoles[0], "rootNoDP"}
		}},
	}
}

func c05HeaderMods() []c05Mod {
	mode := func(m string) c05Mod {
		return c05Mod{"header", "pckcrl-issuer-chain:" + m, false, func(s *world.Spec, _ *rand.Rand) { s.PckCrlHdrMode = m }}
	}
	return []c05Mod{mode("absent"), mode("two"), mode("novalues"), mode("nilvalues"), mode("wrongtype"), mode("empty"), mode("badescape"), mode("garbageder"),
		{"header", "pckcrl-issuer-chain:one-block", false, func(s *world.Spec, _ *rand.Rand) { s.PckCrlHdrRoles = []string{"inter"} }},
		{"header", "pckcrl-issuer-chain:swapped(root,inter)", false, func(s *world.Spec, _ *rand.Rand) { s.PckCrlHdrRoles = []string{"root", "inter"} }},
	}
}

// ------------------------------------------------------------------ oracle

func c05Listed(crl *x509.RevocationList, serial *big.Int) bool {
	for _, e := range crl.RevokedCertificateEntries {
		if e.SerialNumber.Cmp(serial) == 0 {
			return true
		}
	}
	return false
}

// c05Authentic: issued (by name) and signed by the CA certificate.
func c05Authentic(crl *x509.RevocationList, ca *x509.Certificate) bool {
	return crl.Issuer.String() == ca.Subject.String() && crl.CheckSignatureFrom(ca) == nil
}

// c05Served: what the scripted getter answers at u, parsed as a CRL ("" = obtained and parsed).
func c05Served(w *world.World, u string) (*x509.RevocationList, string) {
	resp, ok := w.Getter.M[u]
	if !ok || resp.Err {
		return nil, "could not be fetched"
	}
	crl, err := x509.ParseRevocationList(resp.Body)
	if err != nil {
		return nil, "could not be parsed"
	}
	return crl, ""
}

func c05SignerRole(r *world.RespSpec) string {
	if len(r.HdrRoles) > 0 {
		return r.HdrRoles[0]
	}
	return "signer"
}

// c05Oracle: the property statement over the served bytes and the recorded requests.
func c05Oracle(w *world.World, vr vResult) string {
	s := w.Spec
	if !vr.accepted || !s.CR {
		return ""
	}
	if !s.GC {
		return "accepted with CheckRevocations although GetCollateral is off"
	}
	leaf, inter, root := w.Certs[s.Chain[0].Role].Cert, w.Certs[s.Chain[1].Role].Cert, w.Certs[s.Chain[2].Role].Cert
	// PCK CRL
	asked := false
	var rootURLs []string
	for _, u := range vr.urls {
		switch u {
		case w.PckCrlURL:
			asked = true
		case w.TcbURL, w.QeURL:
		default:
			rootURLs = append(rootURLs, u)
		}
	}
	if !asked {
		return "accepted with CheckRevocations although the PCK CRL was never requested"
	}
	pck, why := c05Served(w, w.PckCrlURL)
	if why != "" {
		return "accepted with CheckRevocations although the PCK CRL " + why
	}
	if !c05Authentic(pck, inter) {
		return "accepted with CheckRevocations although the PCK CRL is not issued and signed by the chain's intermediate CA"
	}
	if c05Listed(pck, leaf.SerialNumber) {
		return "accepted although the PCK CRL lists the leaf's serial"
	}
	// Root CA CRL: the last endpoint asked is the one that was obtained; a revocation seen on the way must not be ignored either
	if len(rootURLs) == 0 {
		return "accepted with CheckRevocations although no Root CA CRL was requested"
	}
	targets := []struct {
		what string
		c    *x509.Certificate
	}{{"the intermediate CA", inter}, {"the TCB-Info signing certificate", w.Certs[c05SignerRole(&s.TcbResp)].Cert}, {"the QE-Identity signing certificate", w.Certs[c05SignerRole(&s.QeResp)].Cert}}
	for i, u := range rootURLs {
		crl, why := c05Served(w, u)
		last := i == len(rootURLs)-1
		if why != "" {
			if last {
				return "accepted with CheckRevocations although the Root CA CRL " + why
			}
			continue
		}
		if !c05Authentic(crl, root) {
			if last {
				return "accepted with CheckRevocations although the Root CA CRL is not issued and signed by the chain's root"
			}
			continue
		}
		for _, t := range targets {
			if c05Listed(crl, t.c.SerialNumber) {
				return "accepted although the Root CA CRL lists the serial of " + t.what
			}
		}
	}
	return ""
}

// c05Run: one built world under one option combination.
func c05Run(r *hx.Run, w *world.World, gc, cr, harmless bool, tags ...string) vResult {
	s := w.Spec
	s.GC, s.CR = gc, cr
	s.Honest = harmless && !(cr && !gc)
	clock := time.Now()
	vr := runVerify(w)
	fail := c05Oracle(w, vr)
	if d := os.Getenv("TDX_DEBUG_FAULT"); d != "" && strings.Contains(s.Fault, d) {
		fmt.Fprintf(os.Stderr, "DEBUG %s gc=%v cr=%v -> %s err=%v oracle=%q\n", s.Fault, gc, cr, vr.obs, vr.err, fail)
	}
	if fail == "" && s.Honest && !vr.accepted {
		// non-vacuity: the premise of the property (authentic, clean CRLs obtained) must lead to acceptance
		fail = "non-vacuity: world with authentic CRLs that list none of the four serials rejected: " + hx.Trunc(fmt.Sprint(vr.err), 160)
	}
	c05Emit(r, w, vr, clock, fail, append(tags, fmt.Sprintf("gc%dcr%d:%s", hx.B(gc), hx.B(cr), map[bool]string{true: "accepted", false: "rejected"}[vr.accepted]))...)
	return vr
}

func c05(r *hx.Run) {
	var grid []c05Mod
	grid = append(grid, c05Mod{"honest", "none", true, func(*world.Spec, *rand.Rand) {}})
	grid = append(grid, c05SerialMods()...)
	grid = append(grid, c05SignerMods()...)
	grid = append(grid, c05EndpointMods()...)
	grid = append(grid, c05HeaderMods()...)
	reps, combos := 6, 600
	if r.Tier == "thorough" {
		reps, combos = 40, 8000
	}
	idx := 0
	// (1) the single-fault grid, every world under all four option combinations
	for rep := 0; rep < reps; rep++ {
		for _, m := range grid {
			rng := c05CaseRng(r, 0x05, idx)
			idx++
			s := c05Base(rng)
			m.apply(s, rng)
			s.Fault = m.name
			w := world.Build(s)
			for _, o := range c05Levels {
				c05Run(r, w, o[0], o[1], m.harmless, m.tags()...)
			}
		}
	}
	// (2) random combinations over the dimensions (serial set on a random target, signer, endpoint, header), random option level
	byDim := map[string][]c05Mod{}
	for _, m := range grid[1:] {
		byDim[m.dim] = append(byDim[m.dim], m)
	}
	for i := 0; i < combos; i++ {
		rng := c05CaseRng(r, 0x15, i)
		s := c05Base(rng)
		harmless := true
		var names []string
		n := 0
		for _, d := range []string{"serial", "serial", "signer", "endpoint", "header"} {
			if rng.IntN(5) >= 2 {
				continue
			}
			m := byDim[d][rng.IntN(len(byDim[d]))]
			m.apply(s, rng)
			harmless = harmless && m.harmless
			names = append(names, m.name)
			n++
		}
		// two serial mods on the same list overwrite each other: harmlessness is then not known statically
		s.Fault = "combo:" + strings.Join(names, "+")
		w := world.Build(s)
		o := c05Levels[[]int{0, 0, 0, 0, 0, 1, 2, 3}[rng.IntN(8)]]
		c05Run(r, w, o[0], o[1], harmless && n <= 1, "dim:combo", fmt.Sprintf("combo-size:%d", n))
	}
	// what an earlier call fetched must not stand in for this call's CRLs (or for the missing collateral of a cr-only call)
	cvPairHistories(r, 0x2205, "C05", 1)
	// … nor what an earlier call AUTHENTICATED: the same world verified again after an endpoint started serving a CRL with the
	// same issuer name and CRL number, signed by a foreign key and no longer listing anything (fresh options each time)
	for i := 0; i < 8*reps; i++ {
		rng := c05CaseRng(r, 0x55, i)
		s := honestSpec(rng)
		revokedNow := i%2 == 1
		w := world.Build(s)
		c05Run(r, w, true, true, true, "dim:reissue", "reissue:first-call(authentic)")
		which := []string{"pck", "root"}[(i/2)%2]
		if which == "pck" {
			c := w.Spec.PckCrl
			c.SignKey = 7
			if revokedNow {
				c.Revoked = nil // the forgery hides what the authentic list would say by now
			}
			w.ReplacePckCrl(c)
		} else {
			c := w.Spec.RootCrls[0]
			c.SignKey = 7
			if revokedNow {
				c.Revoked = nil
			}
			w.ReplaceRootCrl(0, c)
		}
		w.Spec.Fault = "reissue:" + which + "-crl-forged-with-the-same-number"
		c05Run(r, w, true, true, false, "dim:reissue", "reissue:second-call("+which+"-crl-forged-same-number)")
	}
	// revocation checking asked for without collateral fetching always fails — also when the options come out of a root-of-trust
	// configuration (harness-only; the repository's genuine sample quote under the embedded root, which verifies at the base level)
	for _, rot := range []*ccpb.RootOfTrust{{CheckCrl: true}, {CheckCrl: true, GetCollateral: true}, {}} {
		var o *verify.Options
		var err, verr error
		res, _ := hx.Guard(func() string {
			o, err = verify.RootOfTrustToOptions(proto.Clone(rot).(*ccpb.RootOfTrust))
			if err != nil || o == nil {
				return "rot-err"
			}
			at := sampleTime(sampleSPR)
			o.Now = &verify.TimeSet{PckCertChain: at, TcbInfo: at, QeIdentity: at, PckCrl: at, RootCaCrl: at}
			o.Getter = &world.Getter{M: map[string]*world.Response{}}
			q, _ := indepParse(mustRead(sampleSPR))
			verr = verify.TdxQuote(q, o)
			if verr != nil {
				return "err"
			}
			return "ok"
		})
		want := "err"
		if !rot.CheckCrl && !rot.GetCollateral {
			want = "ok"
		}
		fail := ""
		switch {
		case res == "panic" || res == "rot-err":
			fail = fmt.Sprintf("RootOfTrustToOptions / TdxQuote: %s %v", res, err)
		case o.CheckRevocations != rot.CheckCrl || o.GetCollateral != rot.GetCollateral:
			fail = fmt.Sprintf("the options converted from check_crl=%v get_collateral=%v carry CheckRevocations=%v GetCollateral=%v", rot.CheckCrl, rot.GetCollateral, o.CheckRevocations, o.GetCollateral)
		case res != want:
			fail = fmt.Sprintf("check_crl=%v get_collateral=%v through RootOfTrustToOptions: the genuine sample quote (nothing can be fetched) gives %s, the statement says %s", rot.CheckCrl, rot.GetCollateral, res, want)
		}
		r.Emit(fmt.Sprintf("# C05.rot check_crl=%d get_collateral=%d", hx.B(rot.CheckCrl), hx.B(rot.GetCollateral)), res, fail, fmt.Sprintf("rot|%v|%v", rot.CheckCrl, rot.GetCollateral), true, "dim:rot")
	}
	r.Note("grid", fmt.Sprintf("%d single faults x %d repetitions x 4 option combinations + %d random combinations", len(grid), reps, combos))
}
