package main

import (
	"crypto/elliptic"
	"crypto/x509"
	"encoding/asn1"
	"encoding/hex"
	"encoding/pem"
	"fmt"
	"math/big"
	"math/rand/v2"
	"os"
	"strings"
	"time"

	pb "github.com/google/go-tdx-guest/proto/tdx"
	"github.com/google/go-tdx-guest/verify"
	"google.golang.org/protobuf/proto"

	"tdxharness/hx"
	"tdxharness/world"
)

// fixes repaired in /repo so far (f2 f4 f6 f9): the model is asked for the same behaviour as the tree has.
// After every fix: commit has landed the string is "1111" and the property theorems (about Fixes.all) apply.
var verifyFx = "1000"

func init() {
	if v := os.Getenv("VERIF_FX"); len(v) == 4 {
		verifyFx = v
	}
	world.StructOK = structOK
	world.PckFacts = func(cert *x509.Certificate) string {
		ids := make([]string, len(cert.Extensions))
		fact := "none"
		for i, x := range cert.Extensions {
			ids[i] = x.Id.String()
			if fact == "none" && x.Id.Equal(asn1.ObjectIdentifier(c13Base)) {
				fact = c13fact(x.Value)
			}
		}
		exts := strings.Join(ids, ",")
		if len(ids) == 0 {
			exts = "-"
		}
		return fmt.Sprintf("%d:%s:%s", len(ids), exts, fact)
	}
	blk, _ := pem.Decode(mustRead("verify/trusted_root.pem"))
	c, err := x509.ParseCertificate(blk.Bytes)
	if err != nil {
		panic(err)
	}
	world.EmbeddedRoot = c
	drivers["V"] = func(r *hx.Run) { vBase(r) }
}

var t0 = time.Date(2025, 6, 1, 12, 0, 0, 0, time.UTC)

func hexN(rng *rand.Rand, n int) string { return hex.EncodeToString(hx.RandBytes(rng, n)) }

// HonestSpec: a world in which nothing should make verification fail, with random field contents.
func honestSpec(rng *rand.Rand) *world.Spec {
	s := &world.Spec{Honest: true}
	s.Keys = []*world.Key{nil}
	for i := 1; i <= 9; i++ {
		s.Keys = append(s.Keys, world.NewKey(rng, i, elliptic.P256()))
	}
	// keys: 1 root, 2 inter, 3 leaf, 4 tcb signer, 5 attestation key, 6.. foreign / look-alike PKI
	nb, na := t0.Add(-240*time.Hour), t0.Add(2400*time.Hour)
	fmspc := hx.RandBytes(rng, 6)
	sgx := &world.SgxSpec{PPID: hx.RandBytes(rng, 16), PceSvn: 5 + rng.IntN(20), CpuSvn: hx.RandBytes(rng, 16), PceID: hx.RandBytes(rng, 2), Fmspc: fmspc}
	for i := range sgx.Comps {
		sgx.Comps[i] = 2 + rng.IntN(200)
	}
	s.Certs = []*world.CertSpec{
		{Role: "root", CN: "Intel SGX Root CA", Serial: big.NewInt(1001), NotBefore: nb, NotAfter: na, IsCA: true, Key: 1, SignKey: 1, CRLDPs: []string{"https://certificates.example/IntelSGXRootCA.der"}},
		{Role: "inter", CN: "Intel SGX PCK Platform CA", Serial: big.NewInt(1002), NotBefore: nb, NotAfter: na, IsCA: true, Key: 2, SignKey: 1, IssuerOf: "root"},
		{Role: "leaf", CN: "Intel SGX PCK Certificate", Serial: big.NewInt(1003), NotBefore: nb, NotAfter: na, Key: 3, SignKey: 2, IssuerOf: "inter", Sgx: sgx, CRLDPs: []string{"https://api.example/pckcrl"}},
		{Role: "signer", CN: "Intel SGX TCB Signing", Serial: big.NewInt(1004), NotBefore: nb, NotAfter: na, Key: 4, SignKey: 1, IssuerOf: "root"},
	}
	s.Chain = []world.BlockSpec{{Role: "leaf"}, {Role: "inter"}, {Role: "root"}}
	s.Pool = []string{"root"}
	tee := hx.RandBytes(rng, 16)
	tee[1] = 0
	if rng.IntN(2) == 0 {
		tee[1] = byte(1 + rng.IntN(3))
	}
	mrSignerSeam := hx.RandBytes(rng, 48)
	seamAttr := hx.RandBytes(rng, 8)
	qeAttr := hx.RandBytes(rng, 16)
	qeMrsigner := hx.RandBytes(rng, 32)
	isvProd, isvSvn := rng.IntN(65536), 2+rng.IntN(60000)
	misc := rng.Uint32()
	s.Quote = world.QuoteSpec{
		Header: &pb.Header{Version: 4, AttestationKeyType: 2, TeeType: 0x81, PceSvn: hx.RandBytes(rng, 2), QeSvn: hx.RandBytes(rng, 2), QeVendorId: hx.RandBytes(rng, 16), UserData: hx.RandBytes(rng, 20)},
		Body: &pb.TDQuoteBody{TeeTcbSvn: tee, MrSeam: hx.RandBytes(rng, 48), MrSignerSeam: mrSignerSeam, SeamAttributes: seamAttr, TdAttributes: hx.RandBytes(rng, 8), Xfam: hx.RandBytes(rng, 8),
			MrTd: hx.RandBytes(rng, 48), MrConfigId: hx.RandBytes(rng, 48), MrOwner: hx.RandBytes(rng, 48), MrOwnerConfig: hx.RandBytes(rng, 48),
			Rtmrs: [][]byte{hx.RandBytes(rng, 48), hx.RandBytes(rng, 48), hx.RandBytes(rng, 48), hx.RandBytes(rng, 48)}, ReportData: hx.RandBytes(rng, 64)},
		QeReport: &pb.EnclaveReport{CpuSvn: hx.RandBytes(rng, 16), MiscSelect: misc, Reserved1: hx.RandBytes(rng, 28), Attributes: qeAttr, MrEnclave: hx.RandBytes(rng, 32), Reserved2: hx.RandBytes(rng, 32),
			MrSigner: qeMrsigner, Reserved3: hx.RandBytes(rng, 96), IsvProdId: uint32(isvProd), IsvSvn: uint32(isvSvn), Reserved4: hx.RandBytes(rng, 60)},
		AttKey: 5, Auth: hx.RandBytes(rng, rng.IntN(64)),
	}
	// TCB Info: the matching UpToDate level somewhere in a list of 1..4 levels (earlier levels demand more than the platform has)
	var sgxLv, tdxLv [16]int
	for i := 0; i < 16; i++ {
		sgxLv[i] = sgx.Comps[i] - rng.IntN(2)
		tdxLv[i] = int(tee[i])
		if tdxLv[i] > 0 {
			tdxLv[i] -= rng.IntN(2)
		}
	}
	match := world.Level{Sgx: sgxLv, PceSvn: sgx.PceSvn - rng.IntN(2), Tdx: tdxLv, Status: "UpToDate"}
	var levels []world.Level
	for n := rng.IntN(3); n > 0; n-- {
		hi := match
		hi.Sgx[rng.IntN(16)] = 255
		if sgx.Comps[0] == 255 {
			hi.PceSvn = 65535
		}
		hi.Sgx[0] = sgx.Comps[0] + 1
		hi.Status = []string{"UpToDate", "OutOfDate", "Revoked"}[rng.IntN(3)]
		levels = append(levels, hi)
	}
	levels = append(levels, match, world.Level{Status: "OutOfDate"})
	modID := fmt.Sprintf("TDX_%02x", tee[1])
	ids := []world.ModIdentity{{ID: "TDX_7f", Levels: []world.ModLevel{{Isvsvn: 0, Status: "Revoked"}}},
		{ID: modID, Levels: []world.ModLevel{{Isvsvn: int(tee[0]) + 1, Status: "OutOfDate"}, {Isvsvn: int(tee[0]), Status: "UpToDate"}, {Isvsvn: 0, Status: "OutOfDate"}}}}
	mask := hx.RandBytes(rng, 8)
	attrs := make([]byte, 8)
	for i := range attrs {
		attrs[i] = mask[i] & seamAttr[i]
	}
	fmStr := hex.EncodeToString(fmspc)
	if rng.IntN(2) == 0 {
		fmStr = strings.ToUpper(fmStr)
	}
	s.Tcb = world.TcbDoc{ID: "TDX", Version: 3, IssueDate: nb, NextUpdate: na, Fmspc: fmStr, PceID: hex.EncodeToString(sgx.PceID), Mrsigner: hex.EncodeToString(mrSignerSeam),
		Attributes: hex.EncodeToString(attrs), Mask: hex.EncodeToString(mask), Identities: ids, Levels: levels}
	s.TcbResp = world.RespSpec{Fetch: "ok", SignKey: 4}
	mm := rng.Uint32()
	qmask := hx.RandBytes(rng, 16)
	qattrs := make([]byte, 16)
	for i := range qattrs {
		qattrs[i] = qmask[i] & qeAttr[i]
	}
	le := func(v uint32) string { return hex.EncodeToString([]byte{byte(v), byte(v >> 8), byte(v >> 16), byte(v >> 24)}) }
	s.Qe = world.QeDoc{ID: "TD_QE", Version: 2, IssueDate: nb, NextUpdate: na, Miscselect: le(misc & mm), MiscselectMask: le(mm), Attributes: hex.EncodeToString(qattrs),
		AttributesMask: hex.EncodeToString(qmask), Mrsigner: hex.EncodeToString(qeMrsigner), IsvProdID: isvProd,
		Levels: []world.QeLevel{{Isvsvn: isvSvn + 1, Status: "OutOfDate"}, {Isvsvn: isvSvn - rng.IntN(2), Status: "UpToDate"}, {Isvsvn: 1, Status: "OutOfDate"}}}
	s.QeResp = world.RespSpec{Fetch: "ok", SignKey: 4}
	s.PckCrl = world.CrlSpec{Fetch: "ok", IssuerOf: "inter", SignKey: 2, Revoked: []*big.Int{big.NewInt(555), big.NewInt(1<<62 + 7)}, ThisUpdate: nb, NextUpdate: na}
	s.RootCrls = []world.CrlSpec{{Fetch: "ok", IssuerOf: "root", SignKey: 1, Revoked: []*big.Int{big.NewInt(777)}, ThisUpdate: nb, NextUpdate: na}}
	now := [5]time.Time{t0, t0.Add(time.Hour), t0.Add(2 * time.Hour), t0.Add(3 * time.Hour), t0.Add(4 * time.Hour)}
	s.Now = &now
	return s
}

type vResult struct {
	obs      string
	accepted bool
	panicked bool
	urls     []string
	err      error
}

// runVerify calls the real verify.TdxQuote on the world's message (cloned) with fresh options.
func runVerify(w *world.World) vResult {
	w.Getter.URLs = nil
	o := &verify.Options{GetCollateral: w.Spec.GC, CheckRevocations: w.Spec.CR, Getter: w.Getter, TrustedRoots: w.Pool()}
	if w.Spec.Now != nil {
		n := w.Spec.Now
		o.Now = &verify.TimeSet{PckCertChain: n[0], TcbInfo: n[1], QeIdentity: n[2], PckCrl: n[3], RootCaCrl: n[4]}
	}
	nowBefore := o.Now
	var err error
	res, _ := hx.Guard(func() string {
		var q any = w.Quote
		if w.Quote != nil {
			q = proto.Clone(w.Quote).(*pb.QuoteV4)
		}
		err = verify.TdxQuote(q, o)
		if err != nil {
			return "err"
		}
		return "ok"
	})
	nowS := "kept"
	if o.Now != nowBefore {
		nowS = "set"
	}
	joined := strings.Join(w.Getter.URLs, "\n")
	obs := fmt.Sprintf("%s urls=%d:%d now=%s", res, len(w.Getter.URLs), hx.Fnv1a([]byte(joined)), nowS)
	return vResult{obs, res == "ok", res == "panic", append([]string{}, w.Getter.URLs...), err}
}

// emitWorld runs one world at the spec's option setting and records it.
func emitWorld(r *hx.Run, w *world.World, oracle func(vr vResult) string, tags ...string) vResult {
	clock := time.Now()
	vr := runVerify(w)
	line := w.Facts(verifyFx, msgTokens(w.Quote), clock)
	fail := ""
	if vr.panicked {
		fail = "crash in verify.TdxQuote"
	} else if oracle != nil {
		fail = oracle(vr)
	}
	cls := "-"
	if vr.err != nil {
		cls = strings.ReplaceAll(hx.Trunc(vr.err.Error(), 40), " ", "_")
	}
	key := fmt.Sprintf("%s|%v|%v|%s|%d", w.Spec.Fault, w.Spec.GC, w.Spec.CR, cls, hx.Fnv1a([]byte(line))%64)
	r.Emit(line, vr.obs, fail, key, true, append(tags, "verdict:"+strings.SplitN(vr.obs, " ", 2)[0], fmt.Sprintf("opts:gc%dcr%d", hx.B(w.Spec.GC), hx.B(w.Spec.CR)))...)
	return vr
}

func honestOracle(w *world.World) func(vResult) string {
	return func(vr vResult) string {
		if w.Spec.Honest && !vr.accepted {
			return "honest in-date world rejected: " + vr.err.Error()
		}
		return ""
	}
}

// vBase: honest worlds at the three option levels + a first set of faults (model validation).
func vBase(r *hx.Run) {
	rng := r.Rng(100)
	n := 60
	if r.Tier == "thorough" {
		n = 1500
	}
	for i := 0; i < n; i++ {
		for _, o := range [][2]bool{{false, false}, {true, false}, {true, true}, {false, true}} {
			s := honestSpec(rng)
			s.GC, s.CR = o[0], o[1]
			if o[1] && !o[0] {
				s.Honest = false
			}
			w := world.Build(s)
			emitWorld(r, w, honestOracle(w), "honest")
		}
	}
}
