package main

import (
	"sync/atomic"
	"sync"
	"crypto/x509"
	"encoding/asn1"
	"encoding/pem"
	"fmt"
	"math/rand/v2"
	"os"
	"strings"
	"time"

	pb "github.com/google/go-tdx-guest/proto/tdx"
	"github.com/google/go-tdx-guest/verify"
	"google.golang.org/protobuf/proto"

	"tdxharness/hx"
	"tdxharness/world"
)

// fixes repaired in /repo so far (f2 f4 f6 f9): the model is asked for the same behaviour as the tree has.
// After every fix: commit has landed the string is "1111" and the property theorems (about Fixes.all) apply.
var verifyFx = "1111"

func init() {
	if v := os.Getenv("VERIF_FX"); len(v) == 4 {
		verifyFx = v
	}
	world.StructOK = structOK
	world.PckFacts = func(cert *x509.Certificate) string {
		ids := make([]string, len(cert.Extensions))
		fact := "none"
		for i, x := range cert.Extensions {
			ids[i] = x.Id.String()
			if fact == "none" && x.Id.Equal(asn1.ObjectIdentifier(c13Base)) {
				fact = c13fact(x.Value)
			}
		}
		exts := strings.Join(ids, ",")
		if len(ids) == 0 {
			exts = "-"
		}
		return fmt.Sprintf("%d:%s:%s", len(ids), exts, fact)
	}
	blk, _ := pem.Decode(mustRead("verify/trusted_root.pem"))
	c, err := x509.ParseCertificate(blk.Bytes)
	if err != nil {
		panic(err)
	}
	world.EmbeddedRoot = c
	drivers["V"] = func(r *hx.Run) { vBase(r) }
}

var t0 = world.T0

// honestSpec: see world.HonestSpec
func honestSpec(rng *rand.Rand) *world.Spec { return world.HonestSpec(rng) }

type vResult struct {
	obs      string
	accepted bool
	panicked bool
	urls     []string
	err      error
	side     string // a side effect on what the caller handed in (trusted pool modified …): a failure whatever the verdict
	again    *vResult // the identical call made once more, when the first one modified the message or the caller's time set
	againWhy string
}

// runVerify calls the real verify.TdxQuote on the world's message (cloned) with fresh options.
func runVerify(w *world.World) vResult {
	o := &verify.Options{GetCollateral: w.Spec.GC, CheckRevocations: w.Spec.CR, Getter: w.Getter, TrustedRoots: w.Pool()}
	if w.Spec.Now != nil {
		n := w.Spec.Now
		o.Now = vTimeSet(n)
	}
	return verifyCall(w, o)
}

// verifyCall: one call of verify.TdxQuote on a clone of the world's message through the options value `o`, observed.
// Besides the verdict and the request log it watches what the caller handed in: the message, the time set (pointer and
// contents) and the trusted pool must come back as they went in.  When the message or a caller-supplied time set does not,
// the IDENTICAL call is made once more (same message object, same options value): a verdict that differs from the first
// one is reported as a failing two-call history (`side`), and the second result is kept in `again` for the property oracles.
func verifyCall(w *world.World, o *verify.Options) vResult {
	w.Getter.URLs = nil
	nowBefore := o.Now
	var nowVal verify.TimeSet
	if nowBefore != nil {
		nowVal = *nowBefore
	}
	var q *pb.QuoteV4
	if w.Quote != nil {
		q = proto.Clone(w.Quote).(*pb.QuoteV4)
	}
	call := func() (string, error) {
		var err error
		res, _ := hx.Guard(func() string {
			var a any = w.Quote
			if q != nil {
				a = q
			}
			err = verify.TdxQuote(a, o)
			if err != nil {
				return "err"
			}
			return "ok"
		})
		return res, err
	}
	res, err := call()
	nowS := "kept"
	if o.Now != nowBefore {
		nowS = "set"
	}
	urls := append([]string{}, w.Getter.URLs...)
	joined := world.JoinURLs(urls)
	obs := fmt.Sprintf("%s urls=%d:%d now=%s", res, len(urls), hx.Fnv1a([]byte(joined)), nowS)
	vr := vResult{obs: obs, accepted: res == "ok", panicked: res == "panic", urls: urls, err: err, side: vSide(w, o)}
	if vr.panicked {
		return vr
	}
	changed := ""
	switch {
	case q != nil && !proto.Equal(q, w.Quote):
		changed = "the quote message it was given (" + firstDiff(q, w.Quote) + ")"
	case nowBefore != nil && o.Now == nil:
		changed = "the caller's options: Options.Now, which the caller had set, is nil afterwards"
	case nowBefore != nil && o.Now != nowBefore:
		changed = "the caller's options: Options.Now points to another time set afterwards"
	case nowBefore != nil && *nowBefore != nowVal:
		changed = fmt.Sprintf("the caller's time set (before %v, after %v)", c12ArrS(&nowVal), c12ArrS(nowBefore))
	}
	if changed != "" {
		res2, err2 := call()
		w.Getter.URLs = urls
		vr.again = &vResult{obs: res2, accepted: res2 == "ok", panicked: res2 == "panic", err: err2}
		vr.againWhy = "the first call modified " + changed
		if res2 != res && vr.side == "" {
			vr.side = fmt.Sprintf("history of two identical calls (same message object, same options value): the first gives %s, the second %s [%v] — %s", res, res2, err2, vr.againWhy)
		}
	}
	return vr
}

func c12ArrS(t *verify.TimeSet) string {
	f := func(x time.Time) string {
		if x.IsZero() {
			return "unset"
		}
		return x.UTC().Format(time.RFC3339)
	}
	return "[" + f(t.PckCertChain) + " " + f(t.TcbInfo) + " " + f(t.QeIdentity) + " " + f(t.PckCrl) + " " + f(t.RootCaCrl) + "]"
}

// firstDiff names the first field in which two messages differ (wire-level comparison of the top-level parts).
func firstDiff(a, b *pb.QuoteV4) string {
	switch {
	case !proto.Equal(a.GetHeader(), b.GetHeader()):
		return "header"
	case !proto.Equal(a.GetTdQuoteBody(), b.GetTdQuoteBody()):
		return "TD quote body"
	case !proto.Equal(a.GetSignedData(), b.GetSignedData()):
		return "signed data"
	}
	return "size / extra bytes"
}

// vTimeSet: the verification times as time.Time values.  The instants are what counts, not how they are written: a third of
// the time sets are expressed in a zone west of UTC, a third east of it.
func vTimeSet(n *[5]time.Time) *verify.TimeSet {
	loc := []*time.Location{time.UTC, time.FixedZone("UTC-8", -8*3600), time.FixedZone("UTC+5:30", 5*3600+1800)}[(n[0].Unix()/7+int64(n[0].Nanosecond()))%3]
	return &verify.TimeSet{PckCertChain: n[0].In(loc), TcbInfo: n[1].In(loc), QeIdentity: n[2].In(loc), PckCrl: n[3].In(loc), RootCaCrl: n[4].In(loc)}
}

// vSide: what a call must leave alone.  The trusted-root pool is the caller's: after the call it holds exactly what it held.
func vSide(w *world.World, o *verify.Options) string {
	if o.TrustedRoots != nil && !o.TrustedRoots.Equal(w.Pool()) {
		return "the caller's TrustedRoots pool was modified by the call (it no longer holds exactly the certificates the caller listed)"
	}
	return ""
}

// emitWorld runs one world at the spec's option setting and records it.
func emitWorld(r *hx.Run, w *world.World, oracle func(vr vResult) string, tags ...string) vResult {
	clock := time.Now()
	vr := runVerify(w)
	line := w.Facts(verifyFx, msgTokens(w.Quote), clock)
	fail := ""
	if vr.panicked {
		fail = "crash in verify.TdxQuote"
	} else if oracle != nil {
		fail = oracle(vr)
	}
	if fail == "" {
		fail = vr.side
	}
	cls := "-"
	if vr.err != nil {
		cls = strings.ReplaceAll(hx.Trunc(vr.err.Error(), 40), " ", "_")
	}
	key := fmt.Sprintf("%s|%v|%v|%s|%d", w.Spec.Fault, w.Spec.GC, w.Spec.CR, cls, hx.Fnv1a([]byte(line))%64)
	r.Emit(line, vr.obs, fail, key, true, append(tags, "verdict:"+strings.SplitN(vr.obs, " ", 2)[0], fmt.Sprintf("opts:gc%dcr%d", hx.B(w.Spec.GC), hx.B(w.Spec.CR)))...)
	return vr
}

func honestOracle(w *world.World) func(vResult) string {
	return func(vr vResult) string {
		if w.Spec.Honest && !vr.accepted {
			return "honest in-date world rejected: " + vr.err.Error()
		}
		return ""
	}
}

// vBase: honest worlds at the three option levels + a first set of faults (model validation).
func vBase(r *hx.Run) {
	rng := r.Rng(100)
	n := 60
	if r.Tier == "thorough" {
		n = 1500
	}
	for i := 0; i < n; i++ {
		for _, o := range [][2]bool{{false, false}, {true, false}, {true, true}, {false, true}} {
			s := honestSpec(rng)
			s.GC, s.CR = o[0], o[1]
			if o[1] && !o[0] {
				s.Honest = false
			}
			w := world.Build(s)
			emitWorld(r, w, honestOracle(w), "honest")
		}
	}
}

// cvConcurrent: verifications of DIFFERENT quotes running at the same time, each with its own options, getter and message,
// must each give the verdict they give alone (harness-only lines, one per world).  The worlds are verified alone first; then
// 16 goroutines cycle through them for `dur`; every deviation is counted against the world it happened to.
func cvConcurrent(r *hx.Run, prop string, worlds []*world.World, dur time.Duration) {
	once := func(w *world.World) string {
		o := &verify.Options{GetCollateral: w.Spec.GC, CheckRevocations: w.Spec.CR, Getter: &world.Getter{M: w.Getter.M}, TrustedRoots: w.Pool()}
		if n := w.Spec.Now; n != nil {
			o.Now = vTimeSet(n)
		}
		var err error
		res, _ := hx.Guard(func() string { err = verify.TdxQuote(proto.Clone(w.Quote).(*pb.QuoteV4), o); return "" })
		if res == "panic" {
			return "panic"
		}
		if err != nil {
			return "err"
		}
		return "ok"
	}
	solo := make([]string, len(worlds))
	for i, w := range worlds {
		solo[i] = once(w)
	}
	dev := make([]atomic.Int64, len(worlds))
	runs := make([]atomic.Int64, len(worlds))
	first := make([]atomic.Value, len(worlds))
	deadline := time.Now().Add(dur)
	var wg sync.WaitGroup
	for g := 0; g < 16; g++ {
		wg.Add(1)
		go func(g int) {
			defer wg.Done()
			for k := g; time.Now().Before(deadline); k++ {
				i := k % len(worlds)
				v := once(worlds[i])
				runs[i].Add(1)
				if v != solo[i] {
					if dev[i].Add(1) == 1 {
						first[i].Store(v)
					}
				}
			}
		}(g)
	}
	wg.Wait()
	for i, w := range worlds {
		obs, fail := "stable "+solo[i], ""
		if n := dev[i].Load(); n > 0 {
			obs = "deviates"
			fail = fmt.Sprintf("%d of %d verifications of this quote that ran concurrently with verifications of OTHER quotes (own options each) gave %v; alone it gives %s [world: %s]", n, runs[i].Load(), first[i].Load(), solo[i], w.Spec.Fault)
		}
		r.Emit(fmt.Sprintf("# %s.concurrent world=%d fault=%s", prop, i, w.Spec.Fault), obs, fail, fmt.Sprintf("concurrent|%d", i), true, "concurrent", "solo:"+solo[i])
	}
}
