package main

import (
	"os"
	"flag"
	"bytes"
	"errors"
	"fmt"
	"strings"

	"github.com/google/go-tdx-guest/client"
	labi "github.com/google/go-tdx-guest/client/linuxabi"
	pb "github.com/google/go-tdx-guest/proto/tdx"
	"github.com/google/go-tdx-guest/abi"
	"google.golang.org/protobuf/proto"

	"tdxharness/hx"
)

func init() { drivers["C15"] = c15 }

type devScript struct {
	repErr bool
	repRes uint64
	report []byte
	qErr   bool
	qRes   uint64
	status uint64
	outLen uint32
	buf    []byte // nil: leave Data as sent
}

type qSeen struct {
	version, status uint64
	inLen, outLen   uint32
	length          uint64
	data            []byte
}

type scriptedDev struct {
	s      devScript
	seenRD []byte
	seenQ  *qSeen
	calls  int
}

func (d *scriptedDev) Open(string) error { return nil }
func (d *scriptedDev) Close() error      { return nil }
func (d *scriptedDev) Ioctl(cmd uintptr, arg any) (uintptr, error) {
	d.calls++
	switch r := arg.(type) {
	case *labi.TdxReportReq:
		d.seenRD = append([]byte{}, r.ReportData[:]...)
		if d.s.repErr {
			return 0, errors.New("scripted report ioctl error")
		}
		copy(r.TdReport[:], d.s.report)
		return uintptr(d.s.repRes), nil
	case *labi.TdxQuoteReq:
		hdr, ok := r.Buffer.(*labi.TdxQuoteHdr)
		if !ok {
			return 0, errors.New("unexpected buffer type")
		}
		d.seenQ = &qSeen{hdr.Version, hdr.Status, hdr.InLen, hdr.OutLen, r.Length, append([]byte{}, hdr.Data[:]...)}
		if d.s.qErr {
			return 0, errors.New("scripted quote ioctl error")
		}
		hdr.Status = d.s.status
		hdr.OutLen = d.s.outLen
		if d.s.buf != nil {
			copy(hdr.Data[:], d.s.buf)
		}
		return uintptr(d.s.qRes), nil
	}
	return 0, fmt.Errorf("unexpected request %T", arg)
}

type scriptedProv struct {
	supported bool
	bytes     []byte
	err       bool
	called    int
}

func (p *scriptedProv) IsSupported() error {
	if p.supported {
		return nil
	}
	return errors.New("scripted: unsupported")
}
func (p *scriptedProv) GetRawQuote([64]byte) ([]uint8, error) {
	p.called++
	if p.err {
		return p.bytes, errScripted
	}
	return p.bytes, nil
}

var errScripted = errors.New("scripted provider error")

func c15(r *hx.Run) {
	rng := r.Rng(15)
	inflight := uint64(labi.GetQuoteInFlight)
	unavail := uint64(labi.GetQuoteServiceUnavailable)
	qerr := uint64(labi.GetQuoteError)
	type rep struct {
		err bool
		res uint64
	}
	// result codes incl. ones whose low 32 / low 8 bits are zero (a narrowing conversion must not turn them into "success")
	reps := []rep{{true, 0}, {false, 0}, {false, 1}, {false, 7}, {false, 8}, {false, 9}, {false, 1 << 32}, {false, 1 << 63}, {false, 256}}
	qs := []rep{{true, 0}, {false, 0}, {false, 1}, {false, 9}, {false, 3 << 32}, {false, 1<<63 + 1<<32}, {false, 65536}}
	statuses := []uint64{0, inflight, qerr, unavail, 5, 1<<63 + 5}
	outs := []uint32{0, 1, 5006, labi.ReqBufSize - 1, labi.ReqBufSize, labi.ReqBufSize + 1, 1<<32 - 1}
	bufKinds := []string{"pat", "left", "rand"}
	// results handed to earlier callers: the slice as returned and a private copy taken at return time
	type keptRes struct{ got, copyAtReturn []byte }
	var kept []keptRes
	runDev := func(s devScript, bufSpec string, rd [64]byte, repSpec string) {
		d := &scriptedDev{s: s}
		var got []byte
		var gerr error
		res, stack := hx.Guard(func() string {
			got, gerr = client.GetRawQuote(d, rd)
			if gerr != nil {
				return "err"
			}
			return "ok " + hx.Fp(got)
		})
		tr := "rrd=none"
		if d.seenRD != nil {
			tr = "rrd=" + hx.Fp(d.seenRD)
		}
		if d.seenQ != nil {
			q := d.seenQ
			tr += fmt.Sprintf(" q=v%d,s%d,i%d,o%d,l%d,d%s", q.version, q.status, q.inLen, q.outLen, q.length, hx.Fp(q.data))
		} else {
			tr += " q=none"
		}
		obs := res + " " + tr
		line := fmt.Sprintf("C15.dev rd=%s reperr=%d repres=%d rep=%s qerr=%d qres=%d st=%d out=%d buf=%s",
			hx.Hex(rd[:]), hx.B(s.repErr), s.repRes, repSpec, hx.B(s.qErr), s.qRes, s.status, s.outLen, bufSpec)
		// ---- oracle: the statement of C15, directly ----
		fail := ""
		add := func(f string) {
			if fail == "" {
				fail = f
			}
		}
		if res == "panic" {
			add("crash: " + strings.SplitN(stack, "\n", 2)[0])
		}
		if d.seenRD == nil || !bytes.Equal(d.seenRD, rd[:]) {
			add("report request does not carry the caller's 64 bytes")
		}
		repOK := !s.repErr && s.repRes == 0
		if repOK {
			if d.seenQ == nil {
				add("quote request not issued after successful report")
			} else {
				if !bytes.Equal(d.seenQ.data[:labi.TdReportSize], s.report[:labi.TdReportSize]) {
					add("quote request does not carry the TD report")
				}
				if d.seenQ.inLen != labi.TdReportSize || d.seenQ.length != labi.ReqBufSize {
					add("quote request lengths wrong")
				}
			}
		} else if d.seenQ != nil {
			add("quote request issued although the report request failed")
		}
		after := s.buf
		if after == nil && d.seenQ != nil {
			after = d.seenQ.data
		}
		shouldOK := repOK && !s.qErr && s.qRes == 0 && s.status == 0 && s.outLen > 0 && s.outLen <= labi.ReqBufSize
		if shouldOK {
			if gerr != nil || res == "panic" {
				add("device succeeded but client returned an error")
			} else if !bytes.Equal(got, after[:s.outLen]) {
				add("returned bytes are not the first OutLen bytes the device wrote")
			}
		} else if res != "panic" && gerr == nil {
			add(fmt.Sprintf("device outcome is a failure (status=%d outlen=%d) but client returned %d bytes and no error", s.status, s.outLen, len(got)))
		}
		// "exactly the bytes the device wrote" must stay true of a result after later fetches (no shared request buffer)
		for _, k := range kept {
			if !bytes.Equal(k.got, k.copyAtReturn) {
				add("a quote returned by an earlier call changed when this call ran: results share memory with a later request")
				copy(k.copyAtReturn, k.got)
			}
		}
		if gerr == nil && res != "panic" && len(got) > 0 {
			kept = append(kept, keptRes{got, append([]byte{}, got...)})
			if len(kept) > 6 {
				kept = kept[1:]
			}
		}
		key := fmt.Sprintf("%v|%d|%v|%d|%d|%d|%s", s.repErr, s.repRes, s.qErr, s.qRes, s.status, s.outLen, bufSpec[:3])
		r.Emit(line, obs, fail, key, repOK, "dev", "res:"+strings.SplitN(res, " ", 2)[0])
	}
	mkBuf := func(kind string) ([]byte, string) {
		switch kind {
		case "pat":
			a, c := 1+int(rng.UintN(250)), int(rng.UintN(256))
			return hx.Pat(labi.ReqBufSize, a, c), fmt.Sprintf("@pat:%d:%d:%d", labi.ReqBufSize, a, c)
		case "left":
			return nil, "left"
		default:
			b := hx.RandBytes(rng, labi.ReqBufSize)
			return b, hx.Hex(b)
		}
	}
	n := 0
	for _, rp := range reps {
		for _, q := range qs {
			for _, st := range statuses {
				for _, ol := range outs {
					for _, bk := range bufKinds {
						if bk == "rand" && n%7 != 0 && r.Tier == "quick" {
							n++
							continue // random 16 KiB buffers: a seventh of the grid in quick (line size)
						}
						n++
						var rd [64]byte
						copy(rd[:], hx.RandBytes(rng, 64))
						a, c := 1+int(rng.UintN(250)), int(rng.UintN(256))
						report := hx.Pat(labi.TdReportSize, a, c)
						buf, spec := mkBuf(bk)
						runDev(devScript{rp.err, rp.res, report, q.err, q.res, st, ol, buf}, spec, rd, fmt.Sprintf("@pat:%d:%d:%d", labi.TdReportSize, a, c))
					}
				}
			}
		}
	}
	// random scripts
	extra := 300
	if r.Tier == "thorough" {
		extra = 6000
	}
	for i := 0; i < extra; i++ {
		var rd [64]byte
		copy(rd[:], hx.RandBytes(rng, 64))
		a, c := 1+int(rng.UintN(250)), int(rng.UintN(256))
		report := hx.Pat(labi.TdReportSize, a, c)
		buf, spec := mkBuf(bufKinds[rng.UintN(2)])
		st := statuses[rng.IntN(len(statuses))]
		if rng.UintN(3) == 0 {
			st = rng.Uint64()
		}
		ol := outs[rng.IntN(len(outs))]
		if rng.UintN(2) == 0 {
			ol = uint32(rng.UintN(20000))
		}
		rp := reps[rng.IntN(len(reps))]
		if rng.UintN(2) == 0 {
			rp = rep{false, 0}
		}
		q := qs[rng.IntN(len(qs))]
		if rng.UintN(2) == 0 {
			q = rep{false, 0}
		}
		if i%2 == 0 { // half of the random scripts are fully successful devices with a random quote size
			rp, q, st = rep{false, 0}, rep{false, 0}, 0
			ol = 1 + uint32(rng.UintN(labi.ReqBufSize))
		}
		runDev(devScript{rp.err, rp.res, report, q.err, q.res, st, ol, buf}, spec, rd, fmt.Sprintf("@pat:%d:%d:%d", labi.TdReportSize, a, c))
	}
	// quote provider
	for _, sup := range []bool{true, false} {
		for _, kind := range []string{"bytes", "nil", "empty"} {
			for _, e := range []bool{false, true} {
				var b []byte
				spec := "nil"
				switch kind {
				case "bytes":
					b = hx.RandBytes(rng, 40+int(rng.UintN(100)))
					spec = hx.Hex(b)
				case "empty":
					b = []byte{}
					spec = "-"
				}
				p := &scriptedProv{supported: sup, bytes: b, err: e}
				var rd [64]byte
				var got []byte
				var gerr error
				res, stack := hx.Guard(func() string {
					got, gerr = client.GetRawQuote(p, rd)
					return ""
				})
				obs := ""
				fail := ""
				if res == "panic" {
					obs = "panic"
					fail = "crash: " + strings.SplitN(stack, "\n", 2)[0]
				} else if p.called == 1 {
					bs := "nil"
					if got != nil {
						bs = hx.Fp(got)
					}
					obs = fmt.Sprintf("verbatim bytes=%s err=%d", bs, hx.B(gerr != nil))
					if !sup {
						fail = "provider used although it reports no support"
					} else if !bytes.Equal(got, b) || (got == nil) != (b == nil) || (gerr != nil) != e || (e && gerr != errScripted) {
						fail = "provider's bytes/error not returned verbatim"
					}
				} else {
					// provider not asked: the device path was taken (no TDX device in the sandbox ⇒ error)
					obs = "device-path"
					if sup {
						fail = "supported provider not used"
					} else if gerr == nil {
						fail = "fallback returned success without a device"
					}
				}
				r.Emit(fmt.Sprintf("C15.prov sup=%d bytes=%s err=%d", hx.B(sup), spec, hx.B(e)), obs, fail, fmt.Sprintf("prov|%v|%s|%v", sup, kind, e), true, "prov")
			}
		}
	}
	// provider without support, device path openable but not a TDX device (a regular file): the device's failure is the result
	if f, err := os.CreateTemp("", "not-a-tdx-device"); err == nil {
		f.Close()
		defer os.Remove(f.Name())
		if flag.Set("tdx_guest_device_path", f.Name()) == nil {
			for _, e := range []bool{false, true} {
				p := &scriptedProv{supported: false, bytes: []byte{1, 2, 3}, err: e}
				var got []byte
				var gerr error
				res, stack := hx.Guard(func() string { got, gerr = client.GetRawQuote(p, [64]byte{7}); return "" })
				obs, fail := "device-path err", ""
				if res == "panic" {
					obs, fail = "panic", "crash: "+strings.SplitN(stack, "\n", 2)[0]
				} else if p.called != 0 {
					obs, fail = "provider-used", "provider used although it reports no support"
				} else if gerr == nil {
					obs, fail = fmt.Sprintf("ok bytes=%d", len(got)), "unsupported provider, the device path opens but every request on it fails: the failure was lost (no error returned)"
				}
				r.Emit(fmt.Sprintf("# C15.fallback openable-non-device err=%d", hx.B(e)), obs, fail, fmt.Sprintf("fallback|%v", e), true, "prov", "fallback")
			}
			flag.Set("tdx_guest_device_path", "default")
		}
	}
	// GetQuote = parse ∘ GetRawQuote: on the repository's sample quote served by the scripted device
	c15GetQuote(r)
	r.Exhaust = true
	r.Note("grid", "report{err,0,1,7,8,9} x quote{err,0,1,9} x status{0,inflight,error,unavailable,5,2^63+5} x outlen{0,1,5006,16383,16384,16385,2^32-1} x buffer{pattern,left,random}")
}

func c15GetQuote(r *hx.Run) {
	sample := sampleQuote()
	type gq struct {
		raw   []byte
		trunc int
		name  string
	}
	var cases []gq
	for _, trunc := range []int{len(sample), len(sample) - 1, 1019, 100} {
		cases = append(cases, gq{sample, trunc, "sample"})
	}
	// raw quotes that END in zero bytes: zero fill after the quote (extra bytes) and a quote whose last signed byte is 0
	for _, k := range []int{1, 2, 64} {
		padded := append(append([]byte{}, sample...), make([]byte, k)...)
		cases = append(cases, gq{padded, len(padded), fmt.Sprintf("sample+%dzeros", k)})
	}
	lastZero := append([]byte{}, sample...)
	lastZero[len(lastZero)-1] = 0
	cases = append(cases, gq{lastZero, len(lastZero), "last-byte-zero"})
	for _, c := range cases {
		raw, trunc := c.raw, c.trunc
		if trunc > len(raw) || trunc <= 0 {
			continue
		}
		buf := make([]byte, labi.ReqBufSize)
		copy(buf, raw)
		d := &scriptedDev{s: devScript{report: make([]byte, labi.TdReportSize), outLen: uint32(trunc), buf: buf}}
		var rd [64]byte
		var q any
		var err error
		res, _ := hx.Guard(func() string { q, err = client.GetQuote(d, rd); return "" })
		want, werr := abi.QuoteToProto(buf[:trunc])
		fail := ""
		if res == "panic" {
			fail = "crash in GetQuote"
		} else if (err == nil) != (werr == nil) {
			fail = "GetQuote and parse(GetRawQuote) disagree on success"
		} else if err == nil && !proto.Equal(q.(*pb.QuoteV4), want.(*pb.QuoteV4)) {
			fail = "GetQuote result differs from parsing the raw quote"
		}
		obs := "getquote ok=" + fmt.Sprint(hx.B(err == nil))
		r.Emit(fmt.Sprintf("# C15.getquote %s trunc=%d", c.name, trunc), obs, fail, fmt.Sprintf("gq|%s|%d", c.name, trunc), true, "getquote")
	}
	// the parsed form through a quote PROVIDER (configfs path): supported / unsupported × what it returns — GetQuote is
	// parse(GetRawQuote) here too: an unsupported provider is not consulted, an error stays an error, bytes are parsed as they are
	for _, sup := range []bool{true, false} {
		for _, kind := range []string{"sample", "sample-cut", "garbage", "nil"} {
			for _, perr := range []bool{false, true} {
				var b []byte
				switch kind {
				case "sample":
					b = append([]byte{}, sample...)
				case "sample-cut":
					b = append([]byte{}, sample[:1000]...)
				case "garbage":
					b = []byte("not a quote")
				}
				p1, p2 := &scriptedProv{supported: sup, bytes: b, err: perr}, &scriptedProv{supported: sup, bytes: b, err: perr}
				var rd [64]byte
				var q any
				var qerr, rerr error
				var rawGot []byte
				res, _ := hx.Guard(func() string { q, qerr = client.GetQuote(p1, rd); return "" })
				res2, _ := hx.Guard(func() string { rawGot, rerr = client.GetRawQuote(p2, rd); return "" })
				fail := ""
				switch {
				case res == "panic" || res2 == "panic":
					fail = "crash in GetQuote / GetRawQuote with a quote provider"
				case p1.called != p2.called:
					fail = fmt.Sprintf("GetQuote consulted the provider %d time(s), GetRawQuote %d time(s) (supported=%v)", p1.called, p2.called, sup)
				case rerr != nil && qerr == nil:
					fail = fmt.Sprintf("GetRawQuote fails (%v) but GetQuote returns a quote (supported=%v)", rerr, sup)
				case rerr == nil:
					want, werr := abi.QuoteToProto(rawGot)
					if (qerr == nil) != (werr == nil) {
						fail = "GetQuote and parse(GetRawQuote) disagree on success"
					} else if qerr == nil && !proto.Equal(q.(*pb.QuoteV4), want.(*pb.QuoteV4)) {
						fail = "GetQuote result differs from parsing the raw quote"
					}
				}
				obs := fmt.Sprintf("getquote ok=%d raw-ok=%d consulted=%d", hx.B(qerr == nil), hx.B(rerr == nil), p1.called)
				r.Emit(fmt.Sprintf("# C15.getquote-provider supported=%v bytes=%s provider-error=%v", sup, kind, perr), obs, fail, fmt.Sprintf("gqp|%v|%s|%v", sup, kind, perr), true, "getquote-provider")
			}
		}
	}
}
