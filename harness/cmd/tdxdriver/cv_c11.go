package main

// C11 — every honest in-date quote is accepted.
//
// Honest worlds only, with the variety of the statement: any field contents, QE authentication data of length
// 0–4096, 0–64 bytes after the signed data, optional NUL after the chain, SVN vectors with components ≥ 128,
// TEE_TCB_SVN[1] zero / non-zero, level lists of length 1–8 with the matching UpToDate level at every position
// (earlier levels genuinely do not match), the module identity at any position among several, QE level lists
// likewise, FMSPC in any case, CRLs listing only other serials (also ≥ 2^64 and near misses), several root-CRL
// distribution points of which the first fail, every artifact with its own validity window and every verification
// time anywhere inside its window including the boundary instants, Now = nil with wide windows, pools with further
// roots; under the three valid option levels.  Plus the two genuine Intel sample quotes under the embedded root.
// Oracle: rejected ∧ the generator built the world honest.

import (
	"github.com/google/go-tdx-guest/verify"
	"crypto/x509"
	"encoding/hex"
	"encoding/pem"
	"fmt"
	"math/big"
	"math/rand/v2"
	"strings"
	"time"

	"tdxharness/hx"
	"tdxharness/world"
)

func init() { drivers["C11"] = c11 }

var allStatuses = []string{"UpToDate", "SWHardeningNeeded", "ConfigurationNeeded", "ConfigurationAndSWHardeningNeeded", "OutOfDate", "OutOfDateConfigurationNeeded", "Revoked"}

func pickInt(rng *rand.Rand, max int, special ...int) int {
	if rng.IntN(3) == 0 {
		return special[rng.IntN(len(special))]
	}
	return rng.IntN(max + 1)
}

// contents: field contents of one of three kinds — random, all zero, all ones
func contents(rng *rand.Rand, n int) []byte {
	switch rng.IntN(8) {
	case 0:
		return make([]byte, n)
	case 1:
		b := make([]byte, n)
		for i := range b {
			b[i] = 0xff
		}
		return b
	}
	return hx.RandBytes(rng, n)
}

func andBytes(a, b []byte) []byte {
	out := make([]byte, len(a))
	for i := range a {
		out[i] = a[i] & b[i]
	}
	return out
}

func bucket(n int, edges ...int) string {
	lo := 0
	for _, e := range edges {
		if n < e {
			if e-1 == lo {
				return fmt.Sprint(lo)
			}
			return fmt.Sprintf("%d-%d", lo, e-1)
		}
		lo = e
	}
	return fmt.Sprintf("%d+", lo)
}

type window struct{ lo, hi time.Time }

func (w *window) clip(lo, hi time.Time) {
	if lo.After(w.lo) {
		w.lo = lo
	}
	if hi.Before(w.hi) {
		w.hi = hi
	}
}

// instant: a time inside the window — a boundary instant, one nanosecond inside it, or anywhere
func (w window) instant(rng *rand.Rand) (time.Time, string) {
	span := w.hi.Sub(w.lo)
	switch rng.IntN(6) {
	case 0:
		return w.lo, "at-lower-bound"
	case 1:
		return w.hi, "at-upper-bound"
	case 2:
		if span > 0 {
			return w.hi.Add(-time.Nanosecond), "1ns-before-upper-bound"
		}
		return w.hi, "at-upper-bound"
	}
	if span <= 0 {
		return w.lo, "at-lower-bound"
	}
	return w.lo.Add(time.Duration(rng.Int64N(int64(span) + 1))), "inside"
}

// c11Spec builds one honest world; the tags describe which variety it has.
func c11Spec(rng *rand.Rand, gc, cr bool) (*world.Spec, []string) {
	var tags []string
	tag := func(f string, a ...any) { tags = append(tags, fmt.Sprintf(f, a...)) }
	s := honestSpec(rng)
	s.GC, s.CR = gc, cr
	q := &s.Quote
	leaf := s.Cert("leaf")
	sgx := leaf.Sgx

	// ---- platform values: SVN components (also ≥ 128), PCE SVN, TEE_TCB_SVN
	svnVals := []int{0, 1, 127, 128, 129, 200, 254, 255}
	high := 0
	for i := range sgx.Comps {
		sgx.Comps[i] = pickInt(rng, 255, svnVals...)
		high += hx.B(sgx.Comps[i] >= 128)
	}
	sgx.PceSvn = pickInt(rng, 65535, 0, 1, 255, 256, 32767, 32768, 65534, 65535)
	tee := make([]byte, 16)
	for i := range tee {
		tee[i] = byte(pickInt(rng, 255, svnVals...))
		high += hx.B(tee[i] >= 128)
	}
	tee[1] = 0
	if rng.IntN(2) == 0 {
		tee[1] = byte(1 + rng.IntN(255))
	}
	tag("svn-components>=128(of 32):%s", bucket(high, 1, 8, 16, 24))
	tag("tee1:%s", map[bool]string{true: "zero", false: "non-zero"}[tee[1] == 0])
	start := 0
	if tee[1] > 0 {
		start = 2
	}

	// ---- quote contents and shape
	q.Header.PceSvn, q.Header.QeSvn, q.Header.QeVendorId, q.Header.UserData = contents(rng, 2), contents(rng, 2), contents(rng, 16), contents(rng, 20)
	b := q.Body
	b.TeeTcbSvn = tee
	b.MrSeam, b.MrSignerSeam, b.SeamAttributes, b.TdAttributes, b.Xfam = contents(rng, 48), contents(rng, 48), contents(rng, 8), contents(rng, 8), contents(rng, 8)
	b.MrTd, b.MrConfigId, b.MrOwner, b.MrOwnerConfig, b.ReportData = contents(rng, 48), contents(rng, 48), contents(rng, 48), contents(rng, 48), contents(rng, 64)
	for i := range b.Rtmrs {
		b.Rtmrs[i] = contents(rng, 48)
	}
	rep := q.QeReport
	rep.CpuSvn, rep.Reserved1, rep.Attributes, rep.MrEnclave, rep.Reserved2 = contents(rng, 16), contents(rng, 28), contents(rng, 16), contents(rng, 32), contents(rng, 32)
	rep.MrSigner, rep.Reserved3, rep.Reserved4 = contents(rng, 32), contents(rng, 96), contents(rng, 60)
	rep.MiscSelect = []uint32{0, 0xffffffff, rng.Uint32(), rng.Uint32()}[rng.IntN(4)]
	rep.IsvProdId = uint32(pickInt(rng, 65535, 0, 1, 255, 256, 65535))
	rep.IsvSvn = uint32(pickInt(rng, 65535, 0, 1, 255, 256, 65534, 65535))
	authLen := pickInt(rng, 4096, 0, 1, 31, 32, 33, 63, 64, 65, 255, 256, 1023, 4095, 4096)
	q.Auth = hx.RandBytes(rng, authLen)
	tag("auth-len:%s", bucket(authLen, 1, 32, 33, 65, 257, 4096))
	extraLen := pickInt(rng, 64, 0, 0, 1, 64)
	q.Extra = hx.RandBytes(rng, extraLen)
	tag("extra-bytes:%s", bucket(extraLen, 1, 64))
	if rng.IntN(2) == 0 {
		s.ChainTrailer = []byte{0}
	}
	tag("chain-nul:%v", s.ChainTrailer != nil)

	// ---- TCB Info: identity fields and the level list
	t := &s.Tcb
	t.Mrsigner = hex.EncodeToString(b.MrSignerSeam)
	mask := contents(rng, 8)
	t.Mask, t.Attributes = hex.EncodeToString(mask), hex.EncodeToString(andBytes(mask, b.SeamAttributes))
	fm := hex.EncodeToString(sgx.Fmspc)
	switch rng.IntN(3) {
	case 0:
		tag("fmspc:lower")
	case 1:
		fm = strings.ToUpper(fm)
		tag("fmspc:upper")
	default:
		rs := []rune(fm)
		for i := range rs {
			if rng.IntN(2) == 0 {
				rs[i] = []rune(strings.ToUpper(string(rs[i])))[0]
			}
		}
		fm = string(rs)
		tag("fmspc:mixed")
	}
	t.Fmspc = fm
	anyLevel := func() world.Level {
		var l world.Level
		for i := 0; i < 16; i++ {
			l.Sgx[i], l.Tdx[i] = pickInt(rng, 255, svnVals...), pickInt(rng, 255, svnVals...)
		}
		l.PceSvn = pickInt(rng, 65535, 0, 65535)
		l.Status = allStatuses[rng.IntN(len(allStatuses))]
		return l
	}
	// ways in which a level can demand more than the platform has
	type miss struct{ kind, idx int }
	var misses []miss
	for i := 0; i < 16; i++ {
		if sgx.Comps[i] < 255 {
			misses = append(misses, miss{0, i})
		}
		if i >= start && tee[i] < 255 {
			misses = append(misses, miss{2, i})
		}
	}
	if sgx.PceSvn < 65535 {
		misses = append(misses, miss{1, 0})
	}
	nLv := 1 + rng.IntN(8)
	pos := rng.IntN(nLv)
	if len(misses) == 0 {
		pos = 0
	}
	atMost := func(v int) int { return []int{v, v, 0, rng.IntN(v + 1)}[rng.IntN(4)] }
	var levels []world.Level
	for i := 0; i < nLv; i++ {
		switch {
		case i < pos: // does not match: exactly one or several requirements exceed the platform
			var l world.Level
			if rng.IntN(2) == 0 {
				l = anyLevel()
			} else { // otherwise equal to the platform: a single component decides
				for k := 0; k < 16; k++ {
					l.Sgx[k], l.Tdx[k] = sgx.Comps[k], int(tee[k])
				}
				l.PceSvn = sgx.PceSvn
				l.Status = allStatuses[rng.IntN(len(allStatuses))]
				// … or below it in other places: the comparison is per component, not of the vector as one number, so a lower
				// earlier component does not make up for the one that exceeds
				if rng.IntN(2) == 0 {
					for k := 0; k < 16; k++ {
						if rng.IntN(3) == 0 && sgx.Comps[k] > 0 {
							l.Sgx[k] = rng.IntN(sgx.Comps[k])
						}
						if rng.IntN(3) == 0 && k >= start && tee[k] > 0 {
							l.Tdx[k] = rng.IntN(int(tee[k]))
						}
					}
					if sgx.PceSvn > 0 && rng.IntN(3) == 0 {
						l.PceSvn = rng.IntN(sgx.PceSvn)
					}
				}
			}
			m := misses[rng.IntN(len(misses))]
			switch m.kind {
			case 0:
				l.Sgx[m.idx] = sgx.Comps[m.idx] + 1 + rng.IntN(255-sgx.Comps[m.idx])
			case 1:
				l.PceSvn = sgx.PceSvn + 1 + rng.IntN(65535-sgx.PceSvn)
			default:
				l.Tdx[m.idx] = int(tee[m.idx]) + 1 + rng.IntN(255-int(tee[m.idx]))
			}
			levels = append(levels, l)
		case i == pos: // the first matching level: UpToDate
			var l world.Level
			for k := 0; k < 16; k++ {
				l.Sgx[k] = atMost(sgx.Comps[k])
				l.Tdx[k] = atMost(int(tee[k]))
				if k < start {
					l.Tdx[k] = pickInt(rng, 255, 255, 0) // not compared when TEE_TCB_SVN[1] > 0
				}
			}
			l.PceSvn = atMost(sgx.PceSvn)
			l.Status = "UpToDate"
			levels = append(levels, l)
		default: // never consulted
			levels = append(levels, anyLevel())
		}
	}
	t.Levels = levels
	tag("tcb-levels:%d", nLv)
	tag("tcb-match-at:%d", pos)

	// ---- TDX module identities
	modID := fmt.Sprintf("TDX_%02x", tee[1])
	modLevels := func(good bool) []world.ModLevel {
		n := 1 + rng.IntN(6)
		p := rng.IntN(n)
		var out []world.ModLevel
		for i := 0; i < n; i++ {
			st := allStatuses[rng.IntN(len(allStatuses))]
			switch {
			case !good:
				out = append(out, world.ModLevel{Isvsvn: rng.IntN(300), Status: st})
			case i < p:
				out = append(out, world.ModLevel{Isvsvn: int(tee[0]) + 1 + rng.IntN(1000), Status: st})
			case i == p:
				out = append(out, world.ModLevel{Isvsvn: atMost(int(tee[0])), Status: "UpToDate"})
			default:
				out = append(out, world.ModLevel{Isvsvn: rng.IntN(300), Status: st})
			}
		}
		if good {
			tag("module-levels:%d", n)
			tag("module-match-at:%d", p)
		}
		return out
	}
	decoy := func() string {
		for {
			v := rng.IntN(256)
			d := []string{fmt.Sprintf("TDX_%02x", v), fmt.Sprintf("TDX_%02X", v), fmt.Sprintf("tdx_%02x", tee[1]), "TDX_", fmt.Sprintf("TDX_%x", v), fmt.Sprintf("TDX_%02x ", tee[1]), fmt.Sprintf("TDX_0%02x", tee[1])}[rng.IntN(7)]
			if d != modID {
				return d
			}
		}
	}
	var ids []world.ModIdentity
	if tee[1] > 0 {
		n := 1 + rng.IntN(5)
		p := rng.IntN(n)
		for i := 0; i < n; i++ {
			if i == p {
				ids = append(ids, world.ModIdentity{ID: modID, Levels: modLevels(true)})
			} else {
				ids = append(ids, world.ModIdentity{ID: decoy(), Levels: modLevels(false)})
			}
		}
		if rng.IntN(4) == 0 { // the same id once more, further down: the first one counts
			ids = append(ids, world.ModIdentity{ID: modID, Levels: []world.ModLevel{{Isvsvn: 0, Status: "Revoked"}}})
		}
		tag("module-identities:%d", len(ids))
		tag("module-identity-at:%d", p)
	} else {
		// not consulted: anything, also an identity "TDX_00" with a bad status, also none at all
		for n := rng.IntN(4); n > 0; n-- {
			ids = append(ids, world.ModIdentity{ID: []string{"TDX_00", "TDX_01", "TDX_03"}[rng.IntN(3)], Levels: modLevels(false)})
		}
		tag("module-identities(unused):%d", len(ids))
	}
	t.Identities = ids

	// ---- QE identity
	e := &s.Qe
	mm := []uint32{0, 0xffffffff, rng.Uint32()}[rng.IntN(3)]
	le := func(v uint32) string {
		return hex.EncodeToString([]byte{byte(v), byte(v >> 8), byte(v >> 16), byte(v >> 24)})
	}
	e.Miscselect, e.MiscselectMask = le(rep.MiscSelect&mm), le(mm)
	qmask := contents(rng, 16)
	e.AttributesMask, e.Attributes = hex.EncodeToString(qmask), hex.EncodeToString(andBytes(qmask, rep.Attributes))
	e.Mrsigner, e.IsvProdID = hex.EncodeToString(rep.MrSigner), int(rep.IsvProdId)
	nQ := 1 + rng.IntN(8)
	pQ := rng.IntN(nQ)
	e.Levels = nil
	for i := 0; i < nQ; i++ {
		st := allStatuses[rng.IntN(len(allStatuses))]
		switch {
		case i < pQ:
			e.Levels = append(e.Levels, world.QeLevel{Isvsvn: int(rep.IsvSvn) + 1 + []int{0, rng.IntN(100), rng.IntN(1 << 31)}[rng.IntN(3)], Status: st})
		case i == pQ:
			e.Levels = append(e.Levels, world.QeLevel{Isvsvn: atMost(int(rep.IsvSvn)), Status: "UpToDate"})
		default:
			e.Levels = append(e.Levels, world.QeLevel{Isvsvn: rng.IntN(70000), Status: st})
		}
	}
	tag("qe-levels:%d", nQ)
	tag("qe-match-at:%d", pQ)

	// ---- serial numbers (up to 158 bits) and CRLs that list other serials only
	used := map[string]bool{}
	serial := func() *big.Int {
		for {
			bits := []int{8, 32, 63, 64, 65, 100, 158}[rng.IntN(7)]
			v := new(big.Int).SetBytes(hx.RandBytes(rng, (bits+7)/8))
			v.Mod(v, new(big.Int).Lsh(big.NewInt(1), uint(bits)))
			v.SetBit(v, bits-1, 1) // exactly `bits` bits long
			if v.Sign() > 0 && !used[v.String()] {
				used[v.String()] = true
				return v
			}
		}
	}
	big64 := false
	for _, c := range s.Certs {
		c.Serial = serial()
		big64 = big64 || c.Serial.BitLen() > 64
	}
	tag("cert-serial>=2^64:%v", big64)
	two64 := new(big.Int).Lsh(big.NewInt(1), 64)
	others := func(avoid ...*big.Int) []*big.Int {
		var out []*big.Int
		ok := func(v *big.Int) bool {
			if v.Sign() <= 0 || v.BitLen() > 159 {
				return false
			}
			for _, a := range avoid {
				if a.Cmp(v) == 0 {
					return false
				}
			}
			return true
		}
		for n := rng.IntN(10); n > 0; n-- {
			out = append(out, serial())
		}
		for _, a := range avoid { // near misses of the serials that ARE checked against this list
			for _, v := range []*big.Int{new(big.Int).Add(a, big.NewInt(1)), new(big.Int).Sub(a, big.NewInt(1)), new(big.Int).Add(a, two64), new(big.Int).Mod(a, two64), new(big.Int).Lsh(a, 8)} {
				if rng.IntN(3) == 0 && ok(v) {
					out = append(out, v)
				}
			}
		}
		rng.Shuffle(len(out), func(i, j int) { out[i], out[j] = out[j], out[i] })
		return out
	}
	inter, root, signer := s.Cert("inter"), s.Cert("root"), s.Cert("signer")
	s.PckCrl.Revoked = others(leaf.Serial)
	rootRevoked := others(inter.Serial, signer.Serial)
	if rng.IntN(6) == 0 {
		// serial numbers are per issuer: the number of a certificate of the OTHER issuer names another certificate
		s.PckCrl.Revoked = append(s.PckCrl.Revoked, inter.Serial, signer.Serial, root.Serial)
		rootRevoked = append(rootRevoked, leaf.Serial)
		tag("crl:lists-serial-of-other-issuers-certificate")
	}
	tag("pck-crl-entries:%s", bucket(len(s.PckCrl.Revoked), 1, 5))
	tag("root-crl-entries:%s", bucket(len(rootRevoked), 1, 5))

	// ---- validity windows: every artifact its own, all containing one core instant; every time anywhere inside
	core := t0.Add(time.Duration(rng.Int64N(int64(10*365*24*time.Hour))) - 5*365*24*time.Hour).Truncate(time.Second)
	nowNil := rng.IntN(8) == 0
	if nowNil {
		core = time.Now().Truncate(time.Second)
	}
	before := func() time.Time {
		if nowNil { // wide: the wall clock moves while the case runs
			return core.Add(-time.Duration(1+rng.IntN(3000)) * 24 * time.Hour)
		}
		return core.Add(-[]time.Duration{0, time.Second, time.Duration(rng.Int64N(int64(1000 * 24 * time.Hour))).Truncate(time.Second)}[rng.IntN(3)])
	}
	after := func() time.Time {
		if nowNil {
			return core.Add(time.Duration(1+rng.IntN(3000)) * 24 * time.Hour)
		}
		return core.Add([]time.Duration{0, time.Second, time.Duration(rng.Int64N(int64(1000 * 24 * time.Hour))).Truncate(time.Second)}[rng.IntN(3)])
	}
	for _, c := range s.Certs {
		c.NotBefore, c.NotAfter = before(), after()
	}
	t.IssueDate, t.NextUpdate = before(), after()
	e.IssueDate, e.NextUpdate = before(), after()
	s.PckCrl.ThisUpdate, s.PckCrl.NextUpdate = before(), after()
	if !s.PckCrl.NextUpdate.After(s.PckCrl.ThisUpdate) {
		s.PckCrl.ThisUpdate = s.PckCrl.ThisUpdate.Add(-time.Second) // a CRL cannot be issued with nextUpdate = thisUpdate
	}
	rootCrl := world.CrlSpec{Fetch: "ok", IssuerOf: "root", SignKey: 1, Revoked: rootRevoked, ThisUpdate: before(), NextUpdate: after()}
	if !rootCrl.NextUpdate.After(rootCrl.ThisUpdate) {
		rootCrl.ThisUpdate = rootCrl.ThisUpdate.Add(-time.Second)
	}
	// ---- root CRL distribution points: the first ones fail (no answer / no CRL), then the good one, possibly more
	nFail := []int{0, 0, 1, 2, 3}[rng.IntN(5)]
	root.CRLDPs, s.RootCrls = nil, nil
	for i := 0; i < nFail; i++ {
		root.CRLDPs = append(root.CRLDPs, fmt.Sprintf("https://certificates.example/mirror%d/IntelSGXRootCA.der", i))
		s.RootCrls = append(s.RootCrls, world.CrlSpec{Fetch: []string{"fail", "garbage"}[rng.IntN(2)]})
	}
	root.CRLDPs = append(root.CRLDPs, "https://certificates.example/IntelSGXRootCA.der")
	s.RootCrls = append(s.RootCrls, rootCrl)
	for n := rng.IntN(3); n > 0; n-- { // never asked
		root.CRLDPs = append(root.CRLDPs, fmt.Sprintf("https://certificates.example/later%d/IntelSGXRootCA.der", n))
		s.RootCrls = append(s.RootCrls, world.CrlSpec{Fetch: "fail"})
	}
	tag("root-crl-dps:%d-failing-first-of-%d", nFail, len(root.CRLDPs))

	// ---- pool: the root, possibly among further roots (unrelated, look-alike, expired)
	s.Pool = []string{"root"}
	nExtra := []int{0, 0, 1, 2, 3}[rng.IntN(5)]
	for i := 0; i < nExtra; i++ {
		role := fmt.Sprintf("xroot%d", i)
		c := &world.CertSpec{Role: role, CN: fmt.Sprintf("Example Root CA %d", i), Org: "Example Org", Serial: serial(), NotBefore: before(), NotAfter: after(), IsCA: true, Key: 6 + i, SignKey: 6 + i}
		switch rng.IntN(3) {
		case 0: // same subject name as the genuine root, other key
			c.CN, c.Org = root.CN, root.Org
		case 1: // long expired
			c.NotBefore, c.NotAfter = core.Add(-3000*24*time.Hour), core.Add(-2000*24*time.Hour)
		}
		s.Certs = append(s.Certs, c)
		s.Pool = append(s.Pool, role)
	}
	rng.Shuffle(len(s.Pool), func(i, j int) { s.Pool[i], s.Pool[j] = s.Pool[j], s.Pool[i] })
	tag("pool-extra-roots:%d", nExtra)

	// ---- the five verification times
	if nowNil {
		s.Now = nil
		tag("now:nil(clock)")
		return s, tags
	}
	span := func(cs ...*world.CertSpec) window {
		w := window{cs[0].NotBefore, cs[0].NotAfter}
		for _, c := range cs[1:] {
			w.clip(c.NotBefore, c.NotAfter)
		}
		return w
	}
	ws := [5]window{span(leaf, inter, root), span(signer, root), span(signer, root), span(inter, root), span(root)}
	ws[1].clip(t.IssueDate, t.NextUpdate)
	ws[2].clip(e.IssueDate, e.NextUpdate)
	ws[3].clip(s.PckCrl.ThisUpdate, s.PckCrl.NextUpdate)
	ws[4].clip(rootCrl.ThisUpdate, rootCrl.NextUpdate)
	var now [5]time.Time
	names := []string{"chain", "tcbinfo", "qeidentity", "pckcrl", "rootcrl"}
	for i := range now {
		var how string
		now[i], how = ws[i].instant(rng)
		if i == 0 || (gc && i < 3) || cr {
			tag("time-%s:%s", names[i], how)
		}
	}
	s.Now = &now
	tag("now:set")
	return s, tags
}

func c11(r *hx.Run) {
	n := 1000
	if r.Tier == "thorough" {
		n = 20000
	}
	notes := newNotes()
	runOrdered(r, n, func(i int) vCase {
		rng := caseRng(r, 1, i)
		o := optLevels[i%3]
		s, tags := c11Spec(rng, o[0], o[1])
		// the extremes of the 16-bit length field (thorough: more of them)
		if i%97 == 5 || (r.Tier == "thorough" && i%23 == 5) {
			s.Quote.Auth = hx.RandBytes(rng, []int{65535, 65534, 65533, 32768, 32767, 65280}[(i/23)%6])
			tags = append(tags, "auth-len:16-bit-extreme")
		}
		w := world.Build(s)
		inner := honestOracle(w)
		// every honest quote also as the byte string the platform hands out, through verify.RawTdxQuote
		return vCase{w, func(vr vResult) string {
			if f := inner(vr); f != "" {
				return f
			}
			if !w.Spec.Honest {
				return ""
			}
			ro := &verify.Options{GetCollateral: w.Spec.GC, CheckRevocations: w.Spec.CR, Getter: &world.Getter{M: w.Getter.M}, TrustedRoots: w.Pool()}
			if n := w.Spec.Now; n != nil {
				ro.Now = vTimeSet(n)
			}
			var rerr error
			res, _ := hx.Guard(func() string { rerr = verify.RawTdxQuote(quoteRaw(w.Quote), ro); return "" })
			if res == "panic" {
				return fmt.Sprintf("verify.RawTdxQuote crashed on an honest quote (QE auth data %d bytes)", len(qqc(w.Quote).QeAuthData.Data))
			}
			if rerr != nil {
				return fmt.Sprintf("honest in-date quote rejected by verify.RawTdxQuote (QE auth data %d bytes): %v", len(qqc(w.Quote).QeAuthData.Data), rerr)
			}
			return ""
		}, append(tags, "honest-synthetic")}
	})

	// ---- the genuine Intel sample quotes under the embedded root
	var samples []vCase
	for _, rel := range []string{sampleSPR, sampleCOS} {
		name := rel[strings.LastIndex(rel, "/")+1:]
		q, ok := indepParse(mustRead(rel))
		if !ok {
			panic("sample quote does not follow the v4 layout: " + rel)
		}
		win := window{world.EmbeddedRoot.NotBefore, world.EmbeddedRoot.NotAfter}
		rest := qqc(q).PckCertificateChainData.PckCertChain
		for {
			var blk *pem.Block
			blk, rest = pem.Decode(rest)
			if blk == nil {
				break
			}
			c, err := x509.ParseCertificate(blk.Bytes)
			if err != nil {
				panic(err)
			}
			win.clip(c.NotBefore, c.NotAfter)
		}
		r.Note("sample_window_"+name, win.lo.Format(time.RFC3339)+" … "+win.hi.Format(time.RFC3339))
		mid := win.lo.Add(win.hi.Sub(win.lo) / 2)
		for _, at := range []struct {
			name string
			t    time.Time
		}{{"mid-window", mid}, {"at-lower-bound", win.lo}, {"at-upper-bound", win.hi}, {"sample-reference-2023", time.Date(2023, 12, 1, 0, 0, 0, 0, time.UTC)}} {
			if at.t.Before(win.lo) || at.t.After(win.hi) {
				continue
			}
			w := sampleWorld(rel, false, false, fiveTimes(at.t))
			samples = append(samples, vCase{w, honestOracle(w), []string{"intel-sample", "sample:" + name, "sample-time:" + at.name}})
		}
		// wall clock (honest iff it lies inside the window)
		wn := sampleWorld(rel, false, false, nil)
		wn.Spec.Honest = !time.Now().Before(win.lo) && time.Now().Add(time.Minute).Before(win.hi)
		samples = append(samples, vCase{wn, honestOracle(wn), []string{"intel-sample", "sample:" + name, "sample-time:wall-clock", fmt.Sprintf("sample-wall-clock-in-window:%v", wn.Spec.Honest)}})
		// with collateral nothing can be fetched in this world: not an honest case, only compared with the model
		for _, o := range optLevels[1:3] {
			wc := sampleWorld(rel, o[0], o[1], fiveTimes(mid))
			wc.Spec.Fault = "sample-without-reachable-collateral"
			samples = append(samples, vCase{wc, honestOracle(wc), []string{"intel-sample", "sample:" + name, "sample-collateral-unreachable"}})
		}
	}
	runOrdered(r, len(samples), func(i int) vCase { return samples[i] })
	// honest worlds stay accepted whatever was verified through the same options value before, at whatever level
	cvPairHistories(r, 0x2211, "C11", 1)
	// … and whatever else is being verified at the same time
	{
		var ws []*world.World
		for i := 0; i < 6; i++ {
			rng := caseRng(r, 9, i)
			s, _ := c11Spec(rng, i%3 >= 1, i%3 == 2)
			s.Fault = fmt.Sprintf("honest-%d", i)
			ws = append(ws, world.Build(s))
		}
		cvConcurrent(r, "C11", ws, map[bool]time.Duration{true: 8 * time.Second, false: 2 * time.Second}[r.Tier == "thorough"])
	}
	notes.flush(r, "c11_")
}
