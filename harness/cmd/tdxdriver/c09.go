package main

import (
	"bytes"
	"encoding/binary"
	"fmt"
	"math/rand/v2"
	"strings"

	"github.com/google/go-tdx-guest/abi"
	pb "github.com/google/go-tdx-guest/proto/tdx"
	"google.golang.org/protobuf/proto"

	"tdxharness/hx"
)

func init() { drivers["C09"] = func(r *hx.Run) { c09(r, false) } }

// parseCase runs abi.QuoteToProto on raw and emits the case with the C09 oracle
// (or, with onlyCrash, the C10 oracle: any panic).
func parseCase(r *hx.Run, spec string, raw []byte, onlyCrash bool, tags ...string) {
	var q any
	var err error
	res, stack := hx.Guard(func() string {
		q, err = abi.QuoteToProto(raw)
		if err != nil {
			return "err"
		}
		return "ok " + dumpQuote(q.(*pb.QuoteV4))
	})
	fail := ""
	want, layoutOK := indepParse(raw)
	switch {
	case res == "panic":
		fail = "crash: " + strings.SplitN(stack, "\n", 2)[0]
	case onlyCrash:
	case err == nil && !layoutOK:
		fail = "parser accepted bytes that do not follow the v4 layout"
	case err != nil && layoutOK:
		fail = "parser rejected bytes that follow the v4 layout: " + err.Error()
	case err == nil:
		got := q.(*pb.QuoteV4)
		if !proto.Equal(got, want) {
			fail = "a parsed field is not the corresponding little-endian slice of the input: got " + dumpQuote(got) + " want " + dumpQuote(want)
		} else if back, e2 := safeSerialise(got); e2 != nil && strings.HasPrefix(e2.Error(), "panic") {
			fail = "crash in abi.QuoteToAbiBytes on the quote the parser just returned: " + e2.Error()
		} else if e2 != nil || !bytes.Equal(back, raw) {
			fail = "serialising the parsed quote does not reproduce the input"
		} else if stale := c09Kept.checkAndKeep(back); stale != "" {
			fail = stale
		} else {
			var h, t []byte
			hx.Guard(func() string {
				h, _ = abi.HeaderToAbiBytes(got.Header)
				t, _ = abi.TdQuoteBodyToAbiBytes(got.TdQuoteBody)
				return ""
			})
			if !bytes.Equal(append(h, t...), raw[:632]) {
				fail = "re-serialised header||body is not bytes 0-631 of the input"
			}
		}
		// the parsed quote stands on its own: what the caller does with its buffer afterwards must not reach it
		// (parse, reuse the buffer, serialise — must still give the parsed bytes)
		if fail == "" {
			scratch := append([]byte{}, raw...)
			if q2, e2 := abi.QuoteToProto(scratch); e2 == nil {
				for i := range scratch {
					scratch[i] ^= 0xa5
				}
				if back, e3 := safeSerialise(q2.(*pb.QuoteV4)); e3 != nil || !bytes.Equal(back, raw) {
					fail = "after the caller reused its input buffer the parsed quote no longer serialises to the bytes it was parsed from (a field shares memory with the input)"
				}
			}
		}
	}
	key := spec
	if len(key) > 80 {
		key = fmt.Sprintf("%s#%d", key[:60], hx.Fnv1a(raw))
	}
	r.Emit("C09.parse b="+spec, res, fail, key, len(raw) >= 636, append(tags, "parse:"+strings.SplitN(res, " ", 2)[0])...)
}

type blobTable struct {
	r    *hx.Run
	next int
}

func (t *blobTable) def(b []byte) int {
	id := t.next
	t.next++
	t.r.Emit(fmt.Sprintf("DEF id=%d b=%s", id, hx.Hex(b)), "def", "", "", false, "def")
	return id
}

func patchBytes(b []byte, off int, p []byte) []byte {
	out := append([]byte{}, b...)
	if off < len(out) {
		copy(out[off:], p)
	}
	return out
}

// size/type fields of the v4 layout: absolute offsets for a quote with auth length a
type sizeField struct {
	name       string
	off, width int
}

func sizeFields(authLen int) []sizeField {
	sd := 636
	qc := sd + 134
	return []sizeField{{"version", 0, 2}, {"akt", 2, 2}, {"tee", 4, 4}, {"sdsize", 632, 4}, {"cdtype", sd + 128, 2}, {"cdsize", sd + 130, 4},
		{"authsize", qc + 448, 2}, {"pcktype", qc + 450 + authLen, 2}, {"pcksize", qc + 452 + authLen, 4}}
}

func boundaryVals(width int, exact uint64) []uint64 {
	max := uint64(1)<<(8*width) - 1
	vals := []uint64{0, 1, exact - 1, exact, exact + 1, max >> 1, max}
	return vals
}

func leBytes(v uint64, width int) []byte {
	b := make([]byte, 8)
	binary.LittleEndian.PutUint64(b, v)
	return b[:width]
}

func c09(r *hx.Run, onlyCrash bool) {
	rng := r.Rng(9)
	tab := &blobTable{r: r}
	thorough := r.Tier == "thorough"
	type base struct {
		name    string
		raw     []byte
		authLen int
		id      int
	}
	var bases []base
	intel := sampleQuote()
	bases = append(bases, base{"intel", intel, int(binary.LittleEndian.Uint16(intel[636+134+448:])), 0})
	for i, o := range []synthOpts{{32, 700, 0}, {0, 0, 0}, {1, 5, 3}, {255, 300, 1}, {256, 64, 2}} {
		bases = append(bases, base{fmt.Sprintf("synth%d", i), synthQuote(rng, o), o.authLen, 0})
	}
	if thorough {
		bases = append(bases, base{"synthbig", synthQuote(rng, synthOpts{65535, 3000, 64}), 65535, 0})
	}
	for i := range bases {
		bases[i].id = tab.def(bases[i].raw)
		parseCase(r, fmt.Sprintf("@r:%d", bases[i].id), bases[i].raw, onlyCrash, "base")
	}
	// every truncation length (Intel sample + two synthetic quotes; all bases in thorough)
	for i, b := range bases {
		if !thorough && i > 2 {
			break
		}
		if b.name == "synthbig" {
			continue
		}
		for n := 0; n < len(b.raw); n++ {
			parseCase(r, fmt.Sprintf("@r:%d:t%d", b.id, n), b.raw[:n], onlyCrash, "truncation")
		}
	}
	// boundary values of each size/type field, singly and in pairs; trailing bytes
	for i, b := range bases {
		if b.name == "synthbig" || (!thorough && i > 3) {
			continue
		}
		sf := sizeFields(b.authLen)
		for fi, f := range sf {
			exact := uint64(0)
			for k := f.width - 1; k >= 0; k-- {
				exact = exact<<8 | uint64(b.raw[f.off+k])
			}
			vals := boundaryVals(f.width, exact)
			// the length of what follows the field inside each enclosing container (whole input, signed data), +-: where a
			// length check that forgets a prefix (the field's own width, a 2- or 6-byte header) stops covering the slice
			sdEnd := 636 + int(binary.LittleEndian.Uint32(b.raw[632:]))
			for _, end := range []int{len(b.raw), sdEnd} {
				for d := -8; d <= 2; d++ {
					if v := end - f.off + d; v >= 0 && uint64(v) < uint64(1)<<(8*f.width) {
						vals = append(vals, uint64(v))
					}
				}
			}
			for vi, v := range vals {
				p := leBytes(v, f.width)
				parseCase(r, fmt.Sprintf("@r:%d:p%d.%x", b.id, f.off, p), patchBytes(b.raw, f.off, p), onlyCrash, "size-field")
				if vi >= 7 {
					continue
				}
				if i > 1 && !thorough {
					continue
				}
				for fj := fi + 1; fj < len(sf); fj++ {
					g := sf[fj]
					exact2 := uint64(0)
					for k := g.width - 1; k >= 0; k-- {
						exact2 = exact2<<8 | uint64(b.raw[g.off+k])
					}
					for _, w := range []uint64{0, exact2 - 1, exact2 + 1, uint64(1)<<(8*g.width) - 1} {
						p2 := leBytes(w, g.width)
						parseCase(r, fmt.Sprintf("@r:%d:p%d.%x:p%d.%x", b.id, f.off, p, g.off, p2), patchBytes(patchBytes(b.raw, f.off, p), g.off, p2), onlyCrash, "size-field-pair")
					}
				}
			}
		}
		for extra := 1; extra <= 3; extra++ {
			x := hx.RandBytes(rng, extra)
			parseCase(r, fmt.Sprintf("@r:%d:a%x", b.id, x), append(append([]byte{}, b.raw...), x...), onlyCrash, "trailing")
		}
		// trailing bytes that are or end in zero bytes (zero fill of an oversized buffer, a C string terminator, a trailer
		// ending in a zero word) are bytes like any other
		for _, x := range [][]byte{{0}, {0, 0}, make([]byte, 64), append(hx.RandBytes(rng, 5), 0), append([]byte{0}, hx.RandBytes(rng, 4)...), append(hx.RandBytes(rng, 3), 0, 0, 0, 0)} {
			parseCase(r, fmt.Sprintf("@r:%d:a%x", b.id, x), append(append([]byte{}, b.raw...), x...), onlyCrash, "trailing-zeros")
		}
		// consistent growth of signedDataSize into the extra bytes (must be rejected by the nested sizes)
		if len(b.raw) > 636 {
			n := binary.LittleEndian.Uint32(b.raw[632:])
			x := hx.RandBytes(rng, 4)
			p := leBytes(uint64(n)+4, 4)
			parseCase(r, fmt.Sprintf("@r:%d:a%x:p632.%x", b.id, x, p), patchBytes(append(append([]byte{}, b.raw...), x...), 632, p), onlyCrash, "size-into-extra")
		}
	}
	// size-consistent truncations: the input ends n bytes into the signed data and EVERY enclosing size field says so (signed
	// data size, certification data size, PCK chain size): the outer length checks pass, each nested parser meets an input
	// that ends exactly where (or just after) one of its own fields begins
	for i, b := range bases {
		if b.name == "synthbig" || (!thorough && i > 2) {
			continue
		}
		sd, qc := 636, 636+134
		chain := qc + 456 + b.authLen
		for n := sd; n <= len(b.raw); n++ {
			if n > chain+24 && n < len(b.raw)-2 && !thorough && n%64 != 0 {
				continue
			}
			raw := append([]byte{}, b.raw[:n]...)
			spec := fmt.Sprintf("@r:%d:t%d", b.id, n)
			patch := func(off int, v uint64, width int) {
				if off+width <= len(raw) {
					p := leBytes(v, width)
					raw = patchBytes(raw, off, p)
					spec += fmt.Sprintf(":p%d.%x", off, p)
				}
			}
			patch(632, uint64(n-sd), 4)
			if n >= qc {
				patch(sd+130, uint64(n-qc), 4)
			}
			if n >= chain {
				patch(chain-4, uint64(n-chain), 4)
			}
			parseCase(r, spec, raw, onlyCrash, "size-consistent-truncation")
			// the same with the authentication-data size reduced to what is left (the chain header then sits in the auth data's place)
			if n >= qc+450 && n < chain {
				raw2 := patchBytes(raw, qc+448, leBytes(uint64(n-(qc+450)), 2))
				parseCase(r, spec+fmt.Sprintf(":p%d.%x", qc+448, leBytes(uint64(n-(qc+450)), 2)), raw2, onlyCrash, "size-consistent-truncation")
			}
		}
	}
	// random and structure-aware mutants
	nmut := 1500
	if thorough {
		nmut = 60000
	}
	for i := 0; i < nmut; i++ {
		b := bases[rng.IntN(len(bases))]
		if b.name == "synthbig" {
			continue
		}
		raw := append([]byte{}, b.raw...)
		spec := fmt.Sprintf("@r:%d", b.id)
		k := 1 + rng.IntN(3)
		for j := 0; j < k; j++ {
			off := rng.IntN(len(raw))
			if rng.IntN(2) == 0 { // aim at the structural region
				sf := sizeFields(b.authLen)
				f := sf[rng.IntN(len(sf))]
				off = f.off + rng.IntN(f.width)
			}
			v := []byte{byte(rng.UintN(256))}
			raw = patchBytes(raw, off, v)
			spec += fmt.Sprintf(":p%d.%x", off, v)
		}
		if rng.IntN(4) == 0 {
			n := rng.IntN(len(raw) + 1)
			raw = raw[:n]
			spec += fmt.Sprintf(":t%d", n)
		}
		parseCase(r, spec, raw, onlyCrash, "mutant")
	}
	// fresh synthetic quotes of random shape
	nsyn := 150
	if thorough {
		nsyn = 3000
	}
	for i := 0; i < nsyn; i++ {
		o := synthOpts{rng.IntN(300), rng.IntN(1200), rng.IntN(5)}
		if rng.IntN(5) == 0 {
			o.authLen = []int{0, 1, 2, 255, 256, 4096}[rng.IntN(6)]
		}
		raw := synthQuote(rng, o)
		parseCase(r, hx.Hex(raw), raw, onlyCrash, "synthetic")
	}
	// the three largest authentication-data lengths the 16-bit size field can express, parsed and serialised again
	for _, n := range []int{65533, 65534, 65535} {
		raw := synthQuote(rng, synthOpts{n, 40, 2})
		parseCase(r, fmt.Sprintf("@r:%d", tab.def(raw)), raw, onlyCrash, "auth-extreme")
		if q, ok := indepParse(raw); ok {
			serCase(r, q, onlyCrash, "msg:auth-extreme")
		}
	}
	c09messages(r, rng, bases[0].raw, bases[1].raw, onlyCrash)
	c09Shared(r, [][]byte{bases[0].raw, bases[1].raw, bases[2].raw, bases[3].raw})
	r.Note("bases", len(bases))
}

// safeParse is abi.QuoteToProto under recover (a crash is reported as an error here; the direct
// parse cases are where crashes are attributed).
func safeParse(b []byte) (q *pb.QuoteV4, err error) {
	defer func() {
		if e := recover(); e != nil {
			q, err = nil, fmt.Errorf("panic: %v", e)
		}
	}()
	v, err := abi.QuoteToProto(b)
	if err != nil {
		return nil, err
	}
	return v.(*pb.QuoteV4), nil
}

// ---- message side: QuoteToAbiBytes / CheckQuoteV4 / exported sub-serialisers ----

func serCase(r *hx.Run, q *pb.QuoteV4, onlyCrash bool, tags ...string) {
	var out []byte
	var serErr, chkErr error
	sub := func(f func() ([]byte, error)) string {
		s, _ := hx.Guard(func() string {
			b, e := f()
			if e != nil {
				return "err"
			}
			return "ok " + hx.Fp(b)
		})
		return s
	}
	crash := ""
	chk, st := hx.Guard(func() string {
		chkErr = abi.CheckQuoteV4(q)
		if chkErr != nil {
			return "err"
		}
		return "ok"
	})
	if chk == "panic" {
		crash = st
	}
	ser, st2 := hx.Guard(func() string {
		out, serErr = abi.QuoteToAbiBytes(q)
		if serErr != nil {
			return "err"
		}
		return "ok " + hx.Fp(out)
	})
	if ser == "panic" {
		crash = st2
	}
	h, t, qer := "-", "-", "-"
	if q != nil {
		h = sub(func() ([]byte, error) { return abi.HeaderToAbiBytes(q.Header) })
		t = sub(func() ([]byte, error) { return abi.TdQuoteBodyToAbiBytes(q.TdQuoteBody) })
		qer = sub(func() ([]byte, error) {
			return abi.EnclaveReportToAbiBytes(q.GetSignedData().GetCertificationData().GetQeReportCertificationData().GetQeReport())
		})
		for _, s := range []string{h, t, qer} {
			if s == "panic" {
				crash = "sub-serialiser panicked"
			}
		}
	}
	obs := fmt.Sprintf("check=%s ser=%s hdr=%s body=%s qer=%s", chk, ser, h, t, qer)
	fail := ""
	if crash != "" {
		fail = "crash: " + strings.SplitN(crash, "\n", 2)[0]
	} else if !onlyCrash {
		// the statement: a well-formed message survives serialise-then-parse unchanged, where the structural part of
		// "well-formed" is the library's own predicate shared by both directions (CheckQuoteV4) and the size fields
		// it does not look at are consistent with the actual lengths (observation O-1)
		if chkErr == nil && sizesConsistent(q) {
			if serErr != nil {
				fail = "well-formed message not serialised: " + serErr.Error()
			} else if back, e := safeParse(out); e != nil {
				fail = "serialised well-formed message rejected by the parser: " + e.Error()
			} else if !proto.Equal(back, q) {
				fail = "serialise-then-parse changed a well-formed message"
			}
		} else if serErr == nil {
			// whatever was serialised must never parse into a *different* quote
			if back, e := safeParse(out); e == nil && !proto.Equal(back, q) {
				if bb, e2 := safeSerialise(back); e2 != nil || !bytes.Equal(bb, out) {
					fail = "serialised bytes parse into a quote that does not serialise back to them"
				}
			}
		}
	}
	line := "C09.ser " + msgTokens(q)
	r.Emit(line, obs, fail, fmt.Sprint(hx.Fnv1a([]byte(line))), chkErr == nil, append(tags, "ser:"+strings.SplitN(ser, " ", 2)[0])...)
}

// sizesConsistent: the two size fields CheckQuoteV4 does not relate to the actual lengths
func sizesConsistent(q *pb.QuoteV4) bool {
	qc := q.GetSignedData().GetCertificationData().GetQeReportCertificationData()
	if qc == nil || qc.QeAuthData == nil || qc.PckCertificateChainData == nil {
		return false
	}
	n := 384 + 64 + 2 + len(qc.QeAuthData.Data) + 6 + len(qc.PckCertificateChainData.PckCertChain)
	return int(q.SignedData.CertificationData.Size) == n && int(q.SignedDataSize) == 134+n
}

// wellFormed: the independent reading of "well-formed quote message": every field has its layout
// size, the constants are right, and every size field equals the actual length.
func wellFormed(q *pb.QuoteV4) bool {
	if q == nil || q.Header == nil || q.TdQuoteBody == nil || q.SignedData == nil {
		return false
	}
	h, t, s := q.Header, q.TdQuoteBody, q.SignedData
	c := s.CertificationData
	if c == nil || c.QeReportCertificationData == nil {
		return false
	}
	qc := c.QeReportCertificationData
	if qc.QeReport == nil || qc.QeAuthData == nil || qc.PckCertificateChainData == nil {
		return false
	}
	rep, a, p := qc.QeReport, qc.QeAuthData, qc.PckCertificateChainData
	lens := func(pairs ...int) bool {
		for i := 0; i < len(pairs); i += 2 {
			if pairs[i] != pairs[i+1] {
				return false
			}
		}
		return true
	}
	if h.Version != 4 || h.AttestationKeyType != 2 || h.TeeType != 0x81 || c.CertificateDataType != 6 || p.CertificateDataType != 5 {
		return false
	}
	if !lens(len(h.PceSvn), 2, len(h.QeSvn), 2, len(h.QeVendorId), 16, len(h.UserData), 20,
		len(t.TeeTcbSvn), 16, len(t.MrSeam), 48, len(t.MrSignerSeam), 48, len(t.SeamAttributes), 8, len(t.TdAttributes), 8, len(t.Xfam), 8,
		len(t.MrTd), 48, len(t.MrConfigId), 48, len(t.MrOwner), 48, len(t.MrOwnerConfig), 48, len(t.Rtmrs), 4, len(t.ReportData), 64,
		len(s.Signature), 64, len(s.EcdsaAttestationKey), 64, len(qc.QeReportSignature), 64,
		len(rep.CpuSvn), 16, len(rep.Reserved1), 28, len(rep.Attributes), 16, len(rep.MrEnclave), 32, len(rep.Reserved2), 32, len(rep.MrSigner), 32,
		len(rep.Reserved3), 96, len(rep.Reserved4), 60, len(rep.ReportData), 64) {
		return false
	}
	for _, x := range t.Rtmrs {
		if len(x) != 48 {
			return false
		}
	}
	if rep.IsvProdId > 65535 || rep.IsvSvn > 65535 || a.ParsedDataSize > 65535 {
		return false
	}
	qcLen := 384 + 64 + 2 + len(a.Data) + 6 + len(p.PckCertChain)
	return int(a.ParsedDataSize) == len(a.Data) && int(p.Size) == len(p.PckCertChain) && int(c.Size) == qcLen && int(q.SignedDataSize) == 134+qcLen
}

type mutator struct {
	name string
	f    func(q *pb.QuoteV4, rng *rand.Rand)
}

func resize(b []byte, n int) []byte {
	if n <= len(b) {
		return append([]byte{}, b[:n]...)
	}
	return append(append([]byte{}, b...), make([]byte, n-len(b))...)
}

func bytesFields(q *pb.QuoteV4) []*[]byte {
	var fs []*[]byte
	if h := q.Header; h != nil {
		fs = append(fs, &h.PceSvn, &h.QeSvn, &h.QeVendorId, &h.UserData)
	}
	if t := q.TdQuoteBody; t != nil {
		fs = append(fs, &t.TeeTcbSvn, &t.MrSeam, &t.MrSignerSeam, &t.SeamAttributes, &t.TdAttributes, &t.Xfam, &t.MrTd, &t.MrConfigId, &t.MrOwner, &t.MrOwnerConfig, &t.ReportData)
		for i := range t.Rtmrs {
			fs = append(fs, &t.Rtmrs[i])
		}
	}
	if s := q.SignedData; s != nil {
		fs = append(fs, &s.Signature, &s.EcdsaAttestationKey)
		if qc := s.GetCertificationData().GetQeReportCertificationData(); qc != nil {
			fs = append(fs, &qc.QeReportSignature)
			if r := qc.QeReport; r != nil {
				fs = append(fs, &r.CpuSvn, &r.Reserved1, &r.Attributes, &r.MrEnclave, &r.Reserved2, &r.MrSigner, &r.Reserved3, &r.Reserved4, &r.ReportData)
			}
			if a := qc.QeAuthData; a != nil {
				fs = append(fs, &a.Data)
			}
			if p := qc.PckCertificateChainData; p != nil {
				fs = append(fs, &p.PckCertChain)
			}
		}
	}
	return fs
}

// structural mutations of a valid message (shared with C08 / C10 / C14 generators)
func structuralMutants(base *pb.QuoteV4, rng *rand.Rand, visit func(name string, q *pb.QuoteV4)) {
	cl := func() *pb.QuoteV4 { return proto.Clone(base).(*pb.QuoteV4) }
	visit("valid", cl())
	visit("nil", nil)
	visit("empty", &pb.QuoteV4{})
	// each sub-message absent
	subs := []func(q *pb.QuoteV4){
		func(q *pb.QuoteV4) { q.Header = nil }, func(q *pb.QuoteV4) { q.TdQuoteBody = nil }, func(q *pb.QuoteV4) { q.SignedData = nil },
		func(q *pb.QuoteV4) { q.SignedData.CertificationData = nil },
		func(q *pb.QuoteV4) { q.SignedData.CertificationData.QeReportCertificationData = nil },
		func(q *pb.QuoteV4) { q.SignedData.CertificationData.QeReportCertificationData.QeReport = nil },
		func(q *pb.QuoteV4) { q.SignedData.CertificationData.QeReportCertificationData.QeAuthData = nil },
		func(q *pb.QuoteV4) { q.SignedData.CertificationData.QeReportCertificationData.PckCertificateChainData = nil },
		func(q *pb.QuoteV4) { q.Header = &pb.Header{} }, func(q *pb.QuoteV4) { q.TdQuoteBody = &pb.TDQuoteBody{} },
		func(q *pb.QuoteV4) { q.SignedData = &pb.Ecdsa256BitQuoteV4AuthData{} },
	}
	for i, f := range subs {
		q := cl()
		f(q)
		visit(fmt.Sprintf("absent%d", i), q)
	}
	// each bytes field at length 0 / n-1 / n+1
	nf := len(bytesFields(cl()))
	for i := 0; i < nf; i++ {
		for _, d := range []int{-1000000, -1, 1} {
			q := cl()
			f := bytesFields(q)[i]
			n := len(*f) + d
			if n < 0 {
				n = 0
			}
			*f = resize(*f, n)
			visit(fmt.Sprintf("len%d:%d", i, d), q)
		}
	}
	// RTMR count 0..5
	for n := 0; n <= 5; n++ {
		q := cl()
		var rt [][]byte
		for i := 0; i < n; i++ {
			rt = append(rt, hx.RandBytes(rng, 48))
		}
		q.TdQuoteBody.Rtmrs = rt
		visit(fmt.Sprintf("rtmrs%d", n), q)
	}
	// numeric fields
	nums := []func(q *pb.QuoteV4, v uint32){
		func(q *pb.QuoteV4, v uint32) { q.Header.Version = v }, func(q *pb.QuoteV4, v uint32) { q.Header.AttestationKeyType = v },
		func(q *pb.QuoteV4, v uint32) { q.Header.TeeType = v }, func(q *pb.QuoteV4, v uint32) { q.SignedDataSize = v },
		func(q *pb.QuoteV4, v uint32) { q.SignedData.CertificationData.CertificateDataType = v },
		func(q *pb.QuoteV4, v uint32) { q.SignedData.CertificationData.Size = v },
		func(q *pb.QuoteV4, v uint32) { q.SignedData.CertificationData.QeReportCertificationData.QeReport.MiscSelect = v },
		func(q *pb.QuoteV4, v uint32) { q.SignedData.CertificationData.QeReportCertificationData.QeReport.IsvProdId = v },
		func(q *pb.QuoteV4, v uint32) { q.SignedData.CertificationData.QeReportCertificationData.QeReport.IsvSvn = v },
		func(q *pb.QuoteV4, v uint32) { q.SignedData.CertificationData.QeReportCertificationData.QeAuthData.ParsedDataSize = v },
		func(q *pb.QuoteV4, v uint32) {
			q.SignedData.CertificationData.QeReportCertificationData.PckCertificateChainData.CertificateDataType = v
		},
		func(q *pb.QuoteV4, v uint32) { q.SignedData.CertificationData.QeReportCertificationData.PckCertificateChainData.Size = v },
	}
	for i, f := range nums {
		for _, v := range []uint32{0, 1, 4, 5, 6, 0x81, 65535, 65536, 65536 + 4, 1<<32 - 1} {
			q := cl()
			f(q, v)
			visit(fmt.Sprintf("num%d:%d", i, v), q)
		}
	}
	// extra bytes
	for _, n := range []int{0, 1, 7} {
		q := cl()
		q.ExtraBytes = hx.RandBytes(rng, n)
		if n == 0 {
			q.ExtraBytes = []byte{}
		}
		visit(fmt.Sprintf("extra%d", n), q)
	}
}

func c09messages(r *hx.Run, rng *rand.Rand, rawA, rawB []byte, onlyCrash bool) {
	for _, raw := range [][]byte{rawA, rawB} {
		q0, err := safeParse(raw)
		if err != nil {
			panic("base quote does not parse: " + err.Error())
		}
		structuralMutants(q0, rng, func(name string, q *pb.QuoteV4) {
			serCase(r, q, onlyCrash, "msg:"+strings.SplitN(name, ":", 2)[0])
		})
	}
	// random field contents with the right shape (all well-formed)
	n := 40
	if r.Tier == "thorough" {
		n = 800
	}
	for i := 0; i < n; i++ {
		raw := synthQuote(rng, synthOpts{rng.IntN(100), rng.IntN(400), rng.IntN(3)})
		q, ok := indepParse(raw)
		if !ok {
			panic("synthetic quote not layout-valid")
		}
		serCase(r, q, onlyCrash, "msg:random-wellformed")
	}
}

// c09Shared: the message the library's own parser returns, edited the way applications edit messages — one field is given a
// new slice (same length, other content), the edited message is serialised, the old slice is put back.  Serialising must
// not have touched the slice that was taken out (the caller still holds it), and the restored message must still serialise
// to the bytes it was parsed from: whatever the fields share underneath, a serialisation only reads.
func c09Shared(r *hx.Run, raws [][]byte) {
	for qi, raw := range raws {
		m, err := abi.QuoteToProto(append([]byte{}, raw...))
		q, ok := m.(*pb.QuoteV4)
		if err != nil || !ok {
			continue // a parser that refuses this well-formed quote is reported by the parse case of the same bytes
		}
		for fi, f := range bytesFields(q) {
			if len(*f) == 0 {
				continue
			}
			old := *f
			snap := append([]byte{}, old...)
			nw := make([]byte, len(old))
			for i := range nw {
				nw[i] = old[i] ^ 0x5a
			}
			*f = nw
			out1, err1 := safeSerialise(q)
			*f = old
			fail := ""
			switch {
			case err1 != nil && strings.HasPrefix(err1.Error(), "panic"):
				fail = "crash in abi.QuoteToAbiBytes on a parsed message with one field replaced"
			case !bytes.Equal(old, snap):
				fail = fmt.Sprintf("serialising a parsed message in which byte field #%d had been replaced overwrote the slice the field held before (the caller still holds it)", fi)
			default:
				if out2, err2 := safeSerialise(q); err2 != nil || !bytes.Equal(out2, raw) {
					fail = fmt.Sprintf("after an edited copy (byte field #%d replaced) was serialised, the parsed message no longer serialises to the bytes it was parsed from", fi)
				} else if err1 == nil && bytes.Equal(out1, raw) {
					fail = fmt.Sprintf("the serialisation of the message with byte field #%d replaced equals the original bytes (the field's new content was not used)", fi)
				}
			}
			obs := "intact"
			if fail != "" {
				obs = "disturbed"
			}
			r.Emit(fmt.Sprintf("# C09.shared quote=%d field=%d len=%d", qi, fi, len(old)), obs, fail, fmt.Sprintf("shared|%d|%d", qi, fi), true, "shared-slices", "obs:"+obs)
		}
	}
}

// c09Kept: serialised quotes handed to earlier callers stay what they were when later quotes are serialised (the result of a
// serialisation is the caller's: no scratch buffer shared between calls).
type c09Retained struct{ out, copyAtReturn [][]byte }

var c09Kept c09Retained

func (k *c09Retained) checkAndKeep(out []byte) string {
	msg := ""
	for i := range k.out {
		if !bytes.Equal(k.out[i], k.copyAtReturn[i]) {
			msg = "the bytes an earlier QuoteToAbiBytes call returned changed when a later quote was serialised (results share a buffer)"
			copy(k.copyAtReturn[i], k.out[i])
		}
	}
	k.out, k.copyAtReturn = append(k.out, out), append(k.copyAtReturn, append([]byte{}, out...))
	if len(k.out) > 4 {
		k.out, k.copyAtReturn = k.out[1:], k.copyAtReturn[1:]
	}
	return msg
}
