package main

import (
	"fmt"
	"strings"

	pb "github.com/google/go-tdx-guest/proto/tdx"

	"tdxharness/hx"
)

// hb: bytes as a protocol field ("-" for empty)
func hb(b []byte) string { return hx.Hex(b) }

// msgTokens encodes a *pb.QuoteV4 (with optional sub-messages) for the model (Drive/Msg.lean parseQuote).
func msgTokens(q *pb.QuoteV4) string {
	if q == nil {
		return "q=nil"
	}
	var sb strings.Builder
	sb.WriteString("q=v4")
	if h := q.Header; h == nil {
		sb.WriteString(" hdr=nil")
	} else {
		fmt.Fprintf(&sb, " hdr=%d,%d,%d,%s,%s,%s,%s", h.Version, h.AttestationKeyType, h.TeeType, hb(h.PceSvn), hb(h.QeSvn), hb(h.QeVendorId), hb(h.UserData))
	}
	if t := q.TdQuoteBody; t == nil {
		sb.WriteString(" td=nil")
	} else {
		fmt.Fprintf(&sb, " td=%s,%s,%s,%s,%s,%s,%s,%s,%s,%s,%s rt=%s", hb(t.TeeTcbSvn), hb(t.MrSeam), hb(t.MrSignerSeam), hb(t.SeamAttributes), hb(t.TdAttributes),
			hb(t.Xfam), hb(t.MrTd), hb(t.MrConfigId), hb(t.MrOwner), hb(t.MrOwnerConfig), hb(t.ReportData), hx.HexList(t.Rtmrs))
	}
	fmt.Fprintf(&sb, " sds=%d", q.SignedDataSize)
	if s := q.SignedData; s == nil {
		sb.WriteString(" sd=nil")
	} else {
		fmt.Fprintf(&sb, " sd=%s,%s", hb(s.Signature), hb(s.EcdsaAttestationKey))
		if c := s.CertificationData; c == nil {
			sb.WriteString(" cd=nil")
		} else {
			fmt.Fprintf(&sb, " cd=%d,%d", c.CertificateDataType, c.Size)
			if qc := c.QeReportCertificationData; qc == nil {
				sb.WriteString(" qc=nil")
			} else {
				fmt.Fprintf(&sb, " qc=%s", hb(qc.QeReportSignature))
				if r := qc.QeReport; r == nil {
					sb.WriteString(" qr=nil")
				} else {
					fmt.Fprintf(&sb, " qr=%s,%d,%s,%s,%s,%s,%s,%s,%d,%d,%s,%s", hb(r.CpuSvn), r.MiscSelect, hb(r.Reserved1), hb(r.Attributes), hb(r.MrEnclave), hb(r.Reserved2),
						hb(r.MrSigner), hb(r.Reserved3), r.IsvProdId, r.IsvSvn, hb(r.Reserved4), hb(r.ReportData))
				}
				if a := qc.QeAuthData; a == nil {
					sb.WriteString(" au=nil")
				} else {
					fmt.Fprintf(&sb, " au=%d,%s", a.ParsedDataSize, hb(a.Data))
				}
				if p := qc.PckCertificateChainData; p == nil {
					sb.WriteString(" pk=nil")
				} else {
					fmt.Fprintf(&sb, " pk=%d,%d,%s", p.CertificateDataType, p.Size, hb(p.PckCertChain))
				}
			}
		}
	}
	fmt.Fprintf(&sb, " x=%s", hb(q.ExtraBytes))
	return sb.String()
}

func fx(b []byte) string {
	if len(b) <= 16 {
		return hx.Hex(b)
	}
	return hx.Fp(b)
}

// dumpQuote is the canonical dump, identical to Drive/Msg.lean dumpQuote.
func dumpQuote(q *pb.QuoteV4) string {
	var parts []string
	if h := q.Header; h == nil {
		parts = append(parts, "h=nil")
	} else {
		parts = append(parts, fmt.Sprintf("h=%d,%d,%d,%s,%s,%s,%s", h.Version, h.AttestationKeyType, h.TeeType, fx(h.PceSvn), fx(h.QeSvn), fx(h.QeVendorId), fx(h.UserData)))
	}
	if t := q.TdQuoteBody; t == nil {
		parts = append(parts, "t=nil")
	} else {
		rt := make([]string, len(t.Rtmrs))
		for i, r := range t.Rtmrs {
			rt[i] = fx(r)
		}
		parts = append(parts, fmt.Sprintf("t=%s,%s,%s,%s,%s,%s,%s,%s,%s,%s,%s rt=%s", fx(t.TeeTcbSvn), fx(t.MrSeam), fx(t.MrSignerSeam), fx(t.SeamAttributes), fx(t.TdAttributes),
			fx(t.Xfam), fx(t.MrTd), fx(t.MrConfigId), fx(t.MrOwner), fx(t.MrOwnerConfig), fx(t.ReportData), strings.Join(rt, ";")))
	}
	parts = append(parts, fmt.Sprintf("sds=%d", q.SignedDataSize))
	if s := q.SignedData; s == nil {
		parts = append(parts, "sd=nil")
	} else {
		parts = append(parts, fmt.Sprintf("sd=%s,%s", fx(s.Signature), fx(s.EcdsaAttestationKey)))
		if c := s.CertificationData; c == nil {
			parts = append(parts, "cd=nil")
		} else {
			parts = append(parts, fmt.Sprintf("cd=%d,%d", c.CertificateDataType, c.Size))
			if qc := c.QeReportCertificationData; qc == nil {
				parts = append(parts, "qc=nil")
			} else {
				parts = append(parts, "qc="+fx(qc.QeReportSignature))
				if r := qc.QeReport; r == nil {
					parts = append(parts, "qr=nil")
				} else {
					parts = append(parts, fmt.Sprintf("qr=%s,%d,%s,%s,%s,%s,%s,%s,%d,%d,%s,%s", fx(r.CpuSvn), r.MiscSelect, fx(r.Reserved1), fx(r.Attributes), fx(r.MrEnclave), fx(r.Reserved2),
						fx(r.MrSigner), fx(r.Reserved3), r.IsvProdId, r.IsvSvn, fx(r.Reserved4), fx(r.ReportData)))
				}
				if a := qc.QeAuthData; a == nil {
					parts = append(parts, "au=nil")
				} else {
					parts = append(parts, fmt.Sprintf("au=%d,%s", a.ParsedDataSize, fx(a.Data)))
				}
				if p := qc.PckCertificateChainData; p == nil {
					parts = append(parts, "pk=nil")
				} else {
					parts = append(parts, fmt.Sprintf("pk=%d,%d,%s", p.CertificateDataType, p.Size, fx(p.PckCertChain)))
				}
			}
		}
	}
	parts = append(parts, "x="+fx(q.ExtraBytes))
	return strings.Join(parts, " ")
}
