package main

// C04 — TCB status follows Intel's algorithm.
//
// This file also holds what the three collateral drivers (C03, C04, C07) share:
//   * the parallel, order-preserving job runner (every case has its own PRNG rand.NewPCG(seed, caseIndex)),
//   * the variant of runVerify that keeps the *verify.Options value so that
//     verify.SupportedTcbLevelsFromCollateral can be called on the state verify.TdxQuote left behind,
//   * the *independent* reading of Intel's TCB algorithm (intelTcb), written from the property text on the
//     harness's own document type — never on pcs types, the world's mirror structs or the model.

import (
	"bytes"
	"encoding/hex"
	"fmt"
	"math/rand/v2"
	"os"
	"regexp"
	"runtime"
	"strings"
	"sync"
	"sync/atomic"
	"time"
	"unicode/utf8"

	"github.com/google/go-tdx-guest/pcs"
	pb "github.com/google/go-tdx-guest/proto/tdx"
	"github.com/google/go-tdx-guest/verify"
	"google.golang.org/protobuf/proto"

	"tdxharness/hx"
	"tdxharness/world"
)

func init() { drivers["C04"] = c04 }

// ------------------------------------------------------------------------------------------ shared: runner

// verifyF5: what the model is told about finding F5 (levels API swallows errors) in the tree under check.
var verifyF5 = func() string {
	if os.Getenv("VERIF_F5") == "0" {
		return "0"
	}
	return "1" // repaired in /repo (fix: commit recorded in known_findings.json)
}()

type lvResult struct {
	obs     string
	err     error
	tcb, qe pcs.TcbLevel
}

// vJob is one case: a world spec (honest + one fault), the property oracles, tags.
type vJob struct {
	spec     *world.Spec
	key      string // distinctness key ("" = fault|options|error class|line hash)
	tags     []string
	levels   bool                                                 // also exercise SupportedTcbLevelsFromCollateral and emit a V.levels line
	oracle   func(w *world.World, vr vResult) string              // property oracle for the verify call
	lvOracle func(w *world.World, vr vResult, lv lvResult) string // property oracle for the levels call
	accOK    func(w *world.World) bool                            // generator self-check: would the statement allow acceptance? (nil = unknown)
}

// runVerifyKeep is runVerify returning the options value (with the hidden state TdxQuote stored in it).
func runVerifyKeep(w *world.World) (vResult, *verify.Options) {
	w.Getter.URLs = nil
	o := &verify.Options{GetCollateral: w.Spec.GC, CheckRevocations: w.Spec.CR, Getter: w.Getter, TrustedRoots: w.Pool()}
	if w.Spec.Now != nil {
		n := w.Spec.Now
		o.Now = vTimeSet(n)
	}
	nowBefore := o.Now
	var err error
	res, _ := hx.Guard(func() string {
		var q any = w.Quote
		if w.Quote != nil {
			q = proto.Clone(w.Quote).(*pb.QuoteV4)
		}
		err = verify.TdxQuote(q, o)
		if err != nil {
			return "err"
		}
		return "ok"
	})
	nowS := "kept"
	if o.Now != nowBefore {
		nowS = "set"
	}
	joined := world.JoinURLs(w.Getter.URLs)
	obs := fmt.Sprintf("%s urls=%d:%d now=%s", res, len(w.Getter.URLs), hx.Fnv1a([]byte(joined)), nowS)
	return vResult{obs: obs, accepted: res == "ok", panicked: res == "panic", urls: append([]string{}, w.Getter.URLs...), err: err, side: vSide(w, o)}, o
}

// showLevelGo prints a level exactly as the model's showLevel does.
func showLevelGo(l pcs.TcbLevel) string {
	st := string(l.TcbStatus)
	if st == "" {
		st = "_"
	}
	comps := make([]byte, len(l.Tcb.SgxTcbcomponents))
	for i, c := range l.Tcb.SgxTcbcomponents {
		comps[i] = c.Svn
	}
	return fmt.Sprintf("%s:%d:%d:%s", st, l.Tcb.Isvsvn, l.Tcb.Pcesvn, hex.EncodeToString(comps))
}

func runLevels(w *world.World, o *verify.Options) lvResult {
	var lv lvResult
	res, _ := hx.Guard(func() string {
		var q any = w.Quote
		if w.Quote != nil {
			q = proto.Clone(w.Quote).(*pb.QuoteV4)
		}
		lv.tcb, lv.qe, lv.err = verify.SupportedTcbLevelsFromCollateral(q, o)
		if lv.err != nil {
			return "err"
		}
		return fmt.Sprintf("ok tcb=%s qe=%s", showLevelGo(lv.tcb), showLevelGo(lv.qe))
	})
	lv.obs = res
	return lv
}

var reStrKey = regexp.MustCompile(`^(turl|qurl|purl|r\d+url|[tq]sig|[tq][sr]\.(id|fmspc|pceid|id\d+))$`)
var reCertKey = regexp.MustCompile(`^c\d+$`)

func hexUTF8(h string) bool {
	if h == "-" {
		return true
	}
	b, err := hex.DecodeString(h)
	return err != nil || utf8.Valid(b)
}

// lineStringsUTF8: are all values the model reads as strings valid UTF-8?
func lineStringsUTF8(line string) bool {
	for _, tok := range strings.Split(line, " ") {
		k, v, ok := strings.Cut(tok, "=")
		if !ok {
			continue
		}
		if reStrKey.MatchString(k) {
			if !hexUTF8(v) {
				return false
			}
		} else if reCertKey.MatchString(k) {
			f := strings.Split(v, ",")
			if len(f) == 16 {
				if !hexUTF8(f[4]) || !hexUTF8(f[5]) {
					return false
				}
				if f[15] != "-" {
					for _, u := range strings.Split(f[15], "+") {
						if !hexUTF8(u) {
							return false
						}
					}
				}
			}
		}
	}
	return true
}

// failShape: the shape prefix of an oracle reason ("F4-shape", …) or "other".
func failShape(reason string) string {
	if p, _, ok := strings.Cut(reason, ":"); ok && strings.HasSuffix(p, "-shape") {
		return p
	}
	return "other"
}

type vOut struct {
	line, obs, fail, key  string
	tags                  []string
	lvLine, lvObs, lvFail string
	lvTags                []string
	accButRejected        string
}

func runJob(j *vJob) vOut {
	w := world.Build(j.spec)
	clock := time.Now()
	vr, o := runVerifyKeep(w)
	var out vOut
	out.line = w.Facts(verifyFx, msgTokens(w.Quote), clock)
	out.obs = vr.obs
	if vr.panicked {
		out.fail = "crash in verify.TdxQuote"
	} else if j.oracle != nil {
		out.fail = j.oracle(w, vr)
	}
	if out.fail == "" {
		out.fail = vr.side
	}
	if d := os.Getenv("TDX_DEBUG_FAULT"); d != "" && strings.Contains(j.spec.Fault, d) {
		fmt.Fprintf(os.Stderr, "DEBUG %s gc=%v cr=%v -> %s err=%v oracle=%q\n", j.spec.Fault, j.spec.GC, j.spec.CR, vr.obs, vr.err, out.fail)
	}
	shape := ""
	if out.fail != "" {
		shape = failShape(out.fail)
		out.fail += " [world: " + j.spec.Fault + "]"
	}
	cls := "-"
	if vr.err != nil {
		cls = strings.ReplaceAll(hx.Trunc(vr.err.Error(), 40), " ", "_")
	}
	harnessOnly := !lineStringsUTF8(out.line)
	if harnessOnly {
		// the line protocol carries names / URLs as UTF-8 strings; a certificate whose (IA5 / T61) string was hit by a bit
		// flip cannot be put to the model: the case is decided by the oracle alone (AGENTS-GUIDE: '#' lines)
		out.line = "# non-utf8-string " + out.line
	}
	out.key = j.key
	if out.key == "" {
		out.key = fmt.Sprintf("%s|%v|%v|%s|%d", j.spec.Fault, j.spec.GC, j.spec.CR, cls, hx.Fnv1a([]byte(out.line))%64)
	}
	verdict := strings.SplitN(vr.obs, " ", 2)[0]
	out.tags = append(append([]string{}, j.tags...), "verdict:"+verdict, fmt.Sprintf("opts:gc%dcr%d", hx.B(j.spec.GC), hx.B(j.spec.CR)))
	if shape != "" {
		out.tags = append(out.tags, "oracle:"+shape)
	}
	if j.accOK != nil {
		if j.accOK(w) {
			out.tags = append(out.tags, "statement-allows:accept")
			if !vr.accepted {
				out.accButRejected = j.spec.Fault + ": " + hx.Trunc(fmt.Sprint(vr.err), 160)
				out.tags = append(out.tags, "statement-allows-accept-but:rejected")
			}
		} else {
			out.tags = append(out.tags, "statement-allows:reject-only")
		}
	}
	if harnessOnly {
		out.tags = append(out.tags, "harness-only:non-utf8-string")
	}
	if j.levels {
		lv := runLevels(w, o)
		out.lvLine = strings.Replace(out.line, "V.verify", "V.levels", 1) + " f5=" + verifyF5
		out.lvObs = lv.obs
		if lv.obs == "panic" {
			out.lvFail = "crash in verify.SupportedTcbLevelsFromCollateral"
		} else if j.lvOracle != nil {
			out.lvFail = j.lvOracle(w, vr, lv)
		}
		out.lvTags = []string{"op:levels", "levels:" + strings.SplitN(lv.obs, " ", 2)[0]}
		if out.lvFail != "" {
			out.lvTags = append(out.lvTags, "oracle:"+failShape(out.lvFail))
			out.lvFail += " [world: " + j.spec.Fault + "]"
		}
	}
	return out
}

// runJobs runs n cases on all cores and emits them in case order; case i is built from its own PRNG.
func runJobs(r *hx.Run, n int, mk func(i int, rng *rand.Rand) *vJob) {
	workers := runtime.NumCPU()
	if workers > 16 {
		workers = 16
	}
	const chunk = 384
	var rejected []string
	byWorld := map[string]int{}
	nRej := 0
	for base := 0; base < n; base += chunk {
		m := n - base
		if m > chunk {
			m = chunk
		}
		outs := make([]vOut, m)
		var next atomic.Int64
		var wg sync.WaitGroup
		for k := 0; k < workers; k++ {
			wg.Add(1)
			go func() {
				defer wg.Done()
				for {
					t := int(next.Add(1)) - 1
					if t >= m {
						return
					}
					i := base + t
					outs[t] = runJob(mk(i, rand.New(rand.NewPCG(r.Seed, uint64(i)))))
				}
			}()
		}
		wg.Wait()
		for t := range outs {
			o := &outs[t]
			r.Emit(o.line, o.obs, o.fail, o.key, true, o.tags...)
			if o.lvLine != "" {
				r.Emit(o.lvLine, o.lvObs, o.lvFail, o.key+"|levels", true, o.lvTags...)
			}
			if o.accButRejected != "" {
				nRej++
				byWorld[strings.SplitN(o.accButRejected, ": ", 2)[0]]++
				if len(rejected) < 12 {
					rejected = append(rejected, fmt.Sprintf("#%d %s", base+t, o.accButRejected))
				}
			}
		}
	}
	// not a property violation (the properties are "accepted only if"), but it shows generator drift / over-strict code
	r.Note("statement_allows_accept_but_rejected", nRej)
	if len(rejected) > 0 {
		r.Note("statement_allows_accept_but_rejected_samples", rejected)
		r.Note("statement_allows_accept_but_rejected_by_world", byWorld)
	}
}

// ------------------------------------------------------------------------------------------ shared: Intel's TCB algorithm (oracle side)

var tcbStatuses = []string{"UpToDate", "SWHardeningNeeded", "ConfigurationNeeded", "ConfigurationAndSWHardeningNeeded", "OutOfDate", "OutOfDateConfigurationNeeded", "Revoked"}

type oLv struct {
	sgx, tdx []int
	pce      int
	isvsvn   int
	status   string
}

type oMod struct {
	id     string
	levels []oLv
}

// oTcbDoc: a TCB Info document as the oracle sees it (from the generator's data, or from the signed member's JSON).
type oTcbDoc struct {
	bad             string // non-empty: the document cannot be read at all
	id              string
	version         int
	next            time.Time
	fmspc, pceid    string
	mrs, attr, mask []byte
	hexBad          bool // one of the three module strings is not hex
	mods            []oMod
	levels          []oLv
}

// oPlat: what the platform presents (PCK certificate extension values + TD quote body fields), from the generator's spec.
type oPlat struct {
	fmspc, pceid          []byte
	comps                 []int
	pce                   int
	tee                   []byte
	mrSignerSeam, seamAtt []byte
}

func platOf(s *world.Spec) *oPlat {
	sgx := s.Cert(s.Chain[0].Role).Sgx
	p := &oPlat{fmspc: sgx.Fmspc, pceid: sgx.PceID, pce: sgx.PceSvn, tee: s.Quote.Body.TeeTcbSvn, mrSignerSeam: s.Quote.Body.MrSignerSeam, seamAtt: s.Quote.Body.SeamAttributes}
	for _, c := range sgx.Comps {
		p.comps = append(p.comps, c)
	}
	return p
}

func unhexOK(s string) ([]byte, bool) {
	b, err := hex.DecodeString(s)
	return b, err == nil
}

// tcbDocOfSpec reads the generator's own description of the TCB Info document.
func tcbDocOfSpec(d *world.TcbDoc) *oTcbDoc {
	o := &oTcbDoc{id: d.ID, version: d.Version, next: d.NextUpdate, fmspc: d.Fmspc, pceid: d.PceID}
	var ok1, ok2, ok3 bool
	o.mrs, ok1 = unhexOK(d.Mrsigner)
	o.attr, ok2 = unhexOK(d.Attributes)
	o.mask, ok3 = unhexOK(d.Mask)
	o.hexBad = !(ok1 && ok2 && ok3)
	for _, m := range d.Identities {
		om := oMod{id: m.ID}
		for _, l := range m.Levels {
			om.levels = append(om.levels, oLv{isvsvn: l.Isvsvn, status: l.Status})
		}
		o.mods = append(o.mods, om)
	}
	for _, l := range d.Levels {
		ol := oLv{pce: l.PceSvn, status: l.Status}
		if l.SgxRaw != nil {
			ol.sgx = append([]int{}, l.SgxRaw...)
		} else {
			ol.sgx = append([]int{}, l.Sgx[:]...)
		}
		if l.TdxRaw != nil {
			ol.tdx = append([]int{}, l.TdxRaw...)
		} else {
			ol.tdx = append([]int{}, l.Tdx[:]...)
		}
		o.levels = append(o.levels, ol)
	}
	return o
}

// tcbVerdict: outcome of the property's TCB clause on (document, platform).
type tcbVerdict struct {
	ok         bool
	kind       string // which conjunct fails first in the order of the statement
	why        string
	platIdx    int  // index of the first matching platform level (-1: none)
	needMod    bool // TEE_TCB_SVN[1] != 0
	modFound   bool // the TDX_<version> identity exists and one of its levels matches
	modOK      bool // … and that level is UpToDate
	platStatus string
	modStatus  string
}

// platformLevelMatches: "SGX component SVNs, PCE SVN and TDX component SVNs (from index 2 when TEE_TCB_SVN[1] is
// non-zero) are all not above the platform's".
func platformLevelMatches(l *oLv, p *oPlat) bool {
	if len(l.sgx) != len(p.comps) || len(l.tdx) != len(p.tee) {
		return false // a vector of another length has no component-wise comparison with the platform's
	}
	for i, v := range l.sgx {
		if v > p.comps[i] {
			return false
		}
	}
	if l.pce > p.pce {
		return false
	}
	from := 0
	if p.tee[1] != 0 {
		from = 2
	}
	for i := from; i < len(l.tdx); i++ {
		if l.tdx[i] > int(p.tee[i]) {
			return false
		}
	}
	return true
}

// intelTcb is the statement of C04, read literally.
func intelTcb(d *oTcbDoc, p *oPlat) tcbVerdict {
	v := tcbVerdict{platIdx: -1, needMod: len(p.tee) > 1 && p.tee[1] != 0}
	fail := func(kind, why string) tcbVerdict { v.ok, v.kind, v.why = false, kind, why; return v }
	if d.bad != "" {
		return fail("doc", "the TCB Info document is unreadable: "+d.bad)
	}
	// the first matching level and the module level are computed up front (the levels API needs them whatever the identity fields say)
	for i := range d.levels {
		if platformLevelMatches(&d.levels[i], p) {
			v.platIdx = i
			v.platStatus = d.levels[i].status
			break
		}
	}
	if v.needMod {
		want := fmt.Sprintf("TDX_%02x", p.tee[1])
		for _, m := range d.mods {
			if m.id == want {
				for _, l := range m.levels {
					if l.isvsvn <= int(p.tee[0]) {
						v.modFound, v.modStatus, v.modOK = true, l.status, l.status == "UpToDate"
						break
					}
				}
				break // the identity named TDX_<version>: the first one of that name
			}
		}
	}
	if fm, ok := unhexOK(d.fmspc); !ok || !bytes.Equal(fm, p.fmspc) {
		return fail("fmspc", fmt.Sprintf("FMSPC of the PCK certificate %x is not the TCB Info's %q", p.fmspc, d.fmspc))
	}
	if pi, ok := unhexOK(d.pceid); !ok || !bytes.Equal(pi, p.pceid) {
		return fail("pceid", fmt.Sprintf("PCE-ID of the PCK certificate %x is not the TCB Info's %q", p.pceid, d.pceid))
	}
	if d.hexBad || !bytes.Equal(d.mrs, p.mrSignerSeam) {
		return fail("mrsignerseam", "MRSIGNERSEAM of the quote is not the TCB Info's TDX module signer")
	}
	if len(d.mask) != len(p.seamAtt) || len(d.attr) != len(p.seamAtt) {
		return fail("seamattributes", fmt.Sprintf("SEAM attributes mask/value of length %d/%d cannot be applied to the quote's %d attribute bytes", len(d.mask), len(d.attr), len(p.seamAtt)))
	}
	for i := range d.mask {
		if d.mask[i]&p.seamAtt[i] != d.attr[i] {
			return fail("seamattributes", "masked SEAMATTRIBUTES of the quote differ from the TCB Info's")
		}
	}
	if v.platIdx < 0 {
		return fail("nomatch", "no TCB level is at or below the platform's SVNs")
	}
	if v.needMod && !v.modFound {
		return fail("nomodule", fmt.Sprintf("TEE_TCB_SVN[1]=%d but TDX module identity TDX_%02x has no level with isvsvn <= %d", p.tee[1], p.tee[1], p.tee[0]))
	}
	if v.platStatus != "UpToDate" {
		return fail("platform-status", fmt.Sprintf("first matching TCB level #%d has status %q", v.platIdx, v.platStatus))
	}
	if v.needMod && !v.modOK {
		return fail("module-status", fmt.Sprintf("matching TDX module level has status %q", v.modStatus))
	}
	v.ok = true
	return v
}

// tcbAcceptReason: non-empty iff an ACCEPTED verdict contradicts the TCB clause; the prefix names the shape of the
// contradiction (computed from the verdict's facts, not from the generator's intent).
func tcbAcceptReason(v tcbVerdict) string {
	if v.ok {
		return ""
	}
	if v.kind == "platform-status" && v.needMod && v.modOK {
		return fmt.Sprintf("F4-shape: accepted although %s (TEE_TCB_SVN[1]!=0 and the TDX module level is UpToDate: the module level replaced the platform level instead of both being required)", v.why)
	}
	return "accepted although " + v.why
}

// ------------------------------------------------------------------------------------------ C04 generator

type c4Cmp int

const (
	cPassEq  c4Cmp = iota // every component equal to the platform's
	cPassLow              // every component strictly below (where the platform's is > 0)
	cPassMix              // equal or one below, per component
	cFail0
	cFail1
	cFail2
	cFailLast
	cFailRnd // one random index in 2..15 above
)

var c4CmpNames = []string{"passEq", "passLow", "passMix", "fail@0", "fail@1", "fail@2", "fail@15", "fail@rnd"}

type c4LevelAbs struct {
	sgx, pce, tdx c4Cmp // pce uses cPassEq / cPassLow / cFail0 only
	status        string
}

type c4ModLevelAbs struct {
	rel    int // isvsvn relative to TEE_TCB_SVN[0]: -1 below, 0 at, +1 above
	status string
}

type c4Abs struct {
	fam      string
	levels   []c4LevelAbs
	tee1     int
	modKind  string // "absent" | "present" | "dup" (a second identity of the same name with the opposite statuses follows)
	mod      []c4ModLevelAbs
	mismatch string // "" | fmspc | fmspc-case | pceid | mrsignerseam | seamattr | seamattr-unmasked | masklen7 | masklen9 | masklen0 | attrlen7 | attr-nothex
}

func vecFor(rng *rand.Rand, plat []int, c c4Cmp, ignoreBelow int) [16]int {
	var v [16]int
	for i := 0; i < 16; i++ {
		switch c {
		case cPassEq:
			v[i] = plat[i]
		case cPassLow:
			v[i] = plat[i]
			if plat[i] > 0 {
				v[i] = plat[i] - 1 - rng.IntN(2)
				if v[i] < 0 {
					v[i] = 0
				}
			}
		default:
			v[i] = plat[i]
			if plat[i] > 0 {
				v[i] -= rng.IntN(2)
			}
		}
	}
	idx := -1
	switch c {
	case cFail0:
		idx = 0
	case cFail1:
		idx = 1
	case cFail2:
		idx = 2
	case cFailLast:
		idx = 15
	case cFailRnd:
		idx = 2 + rng.IntN(14)
	}
	if idx >= 0 {
		v[idx] = plat[idx] + 1
		if rng.IntN(3) == 0 && v[idx] < 250 {
			v[idx] += rng.IntN(5)
		}
	}
	_ = ignoreBelow
	return v
}

func intsOf(b []byte) []int {
	out := make([]int, len(b))
	for i, x := range b {
		out[i] = int(x)
	}
	return out
}

// c4Base: an honest world whose platform values leave room above and below every compared number.
func c4Base(rng *rand.Rand, tee1 int) *world.Spec {
	s := honestSpec(rng)
	s.GC = true
	s.CR = rng.IntN(8) == 0
	tee := s.Quote.Body.TeeTcbSvn
	tee[0] = byte(1 + rng.IntN(250))
	tee[1] = byte(tee1)
	if tee1 != 0 {
		// the module version is spelled as two lower-case hex digits in the identity id: versions whose hex, decimal and
		// upper-case spellings differ, and the extremes
		vs := []byte{1, 2, 9, 0x0a, 0x0f, 0x10, 0x1f, 0x63, 0x64, 0x7e, 0xa0, 0xab, 0xfe, 0xff}
		tee[1] = vs[rng.IntN(len(vs))]
	}
	for i := 2; i < 16; i++ {
		tee[i] = byte(1 + rng.IntN(253))
	}
	return s
}

func c4Concretise(rng *rand.Rand, a *c4Abs) *world.Spec {
	s := c4Base(rng, a.tee1)
	sgx := s.Cert("leaf").Sgx
	tee := s.Quote.Body.TeeTcbSvn
	var levels []world.Level
	for _, la := range a.levels {
		l := world.Level{Status: la.status}
		l.Sgx = vecFor(rng, sgx.Comps[:], la.sgx, 0)
		l.Tdx = vecFor(rng, intsOf(tee), la.tdx, 0)
		switch la.pce {
		case cPassEq:
			l.PceSvn = sgx.PceSvn
		case cPassLow:
			l.PceSvn = sgx.PceSvn - 1 - rng.IntN(3)
		case cPassMix:
			l.PceSvn = sgx.PceSvn - rng.IntN(2)
		default:
			l.PceSvn = sgx.PceSvn + 1 + rng.IntN(3)
		}
		levels = append(levels, l)
	}
	s.Tcb.Levels = levels
	// module identities: decoys around the one that counts
	modID := fmt.Sprintf("TDX_%02x", tee[1])
	mk := func(ls []c4ModLevelAbs, flip bool) []world.ModLevel {
		var out []world.ModLevel
		for _, m := range ls {
			st := m.status
			if flip {
				if st == "UpToDate" {
					st = "OutOfDate"
				} else {
					st = "UpToDate"
				}
			}
			out = append(out, world.ModLevel{Isvsvn: int(tee[0]) + m.rel, Status: st})
		}
		return out
	}
	decoy := world.ModIdentity{ID: fmt.Sprintf("TDX_%02x", int(tee[1])+0x40), Levels: []world.ModLevel{{Isvsvn: 0, Status: "UpToDate"}}}
	decoy2 := world.ModIdentity{ID: "TDX_7f", Levels: []world.ModLevel{{Isvsvn: 0, Status: "Revoked"}}}
	ids := []world.ModIdentity{decoy2}
	// other spellings of the same version number name other identities (decimal, upper-case hex, unpadded); they carry the
	// opposite of what the right identity says
	flipAll := mk(a.mod, true)
	if len(flipAll) == 0 {
		flipAll = []world.ModLevel{{Isvsvn: 0, Status: "UpToDate"}}
	}
	for _, alt := range []string{fmt.Sprintf("TDX_%02d", tee[1]), fmt.Sprintf("TDX_%02X", tee[1]), fmt.Sprintf("TDX_%x", tee[1]), fmt.Sprintf("tdx_%02x", tee[1])} {
		if alt != modID && rng.IntN(2) == 0 {
			ids = append(ids, world.ModIdentity{ID: alt, Levels: flipAll})
		}
	}
	switch a.modKind {
	case "present":
		ids = append(ids, world.ModIdentity{ID: modID, Levels: mk(a.mod, false)}, decoy)
	case "dup":
		ids = append(ids, world.ModIdentity{ID: modID, Levels: mk(a.mod, false)}, world.ModIdentity{ID: modID, Levels: mk(a.mod, true)}, decoy)
	default:
		ids = append(ids, decoy)
	}
	s.Tcb.Identities = ids
	c4Mismatch(rng, s, a.mismatch)
	s.Honest = false
	s.Fault = a.fam
	return s
}

func flipHexBit(rng *rand.Rand, h string) string {
	b, _ := hex.DecodeString(h)
	if len(b) == 0 {
		return h
	}
	b[rng.IntN(len(b))] ^= 1 << rng.IntN(8)
	out := hex.EncodeToString(b)
	if h == strings.ToUpper(h) && h != strings.ToLower(h) {
		out = strings.ToUpper(out)
	}
	return out
}

func c4Mismatch(rng *rand.Rand, s *world.Spec, kind string) {
	d := &s.Tcb
	seam := s.Quote.Body.SeamAttributes
	switch kind {
	case "":
	case "fmspc":
		d.Fmspc = flipHexBit(rng, d.Fmspc)
	case "fmspc-case": // must NOT matter: same bytes, other letter case
		if d.Fmspc == strings.ToUpper(d.Fmspc) {
			d.Fmspc = strings.ToLower(d.Fmspc)
		} else {
			d.Fmspc = strings.ToUpper(d.Fmspc)
		}
	case "pceid":
		d.PceID = flipHexBit(rng, d.PceID)
	case "pceid-malformed-vs-0000": // the certificate carries PCE-ID 0000 (as every production platform does); the document's is not a PCE-ID at all
		sgx := *s.Cert("leaf").Sgx
		sgx.PceID = []byte{0, 0}
		s.Cert("leaf").Sgx = &sgx
		d.PceID = []string{"", "000", "00", "000001", "zzzz", "0x01", "0", "00000"}[rng.IntN(8)]
	case "pceid-case": // PCE-ID is compared as spelled (the certificate side is lower-case hex): other letter case is another string
		sgx := *s.Cert("leaf").Sgx
		sgx.PceID = []byte{0xab, 0xcd}
		s.Cert("leaf").Sgx = &sgx
		d.PceID = "ABCD"
	case "seamattr-high": // a masked bit in the upper half of the 8 bytes differs
		mask := hx.RandBytes(rng, 8)
		k := 4 + rng.IntN(4)
		mask[k] |= 0x80
		attr := make([]byte, 8)
		for i := range attr {
			attr[i] = mask[i] & seam[i]
		}
		attr[k] ^= 0x80
		d.Mask, d.Attributes = hex.EncodeToString(mask), hex.EncodeToString(attr)
	case "mrsignerseam":
		d.Mrsigner = flipHexBit(rng, d.Mrsigner)
	case "seamattr", "seamattr-unmasked":
		// mask with at least one set and one clear bit; value = mask & quote, then flip a value bit inside / a QUOTE-side difference outside the mask
		mask := hx.RandBytes(rng, 8)
		mask[0] |= 0x10
		mask[0] &^= 0x01
		attr := make([]byte, 8)
		for i := range attr {
			attr[i] = mask[i] & seam[i]
		}
		if kind == "seamattr" {
			attr[0] ^= 0x10 // masked bit differs: can never match
		} else {
			// the document's value is exactly mask&quote; the quote carries arbitrary bits outside the mask (must not matter)
		}
		d.Mask, d.Attributes = hex.EncodeToString(mask), hex.EncodeToString(attr)
	case "seamattr-valuebit-outside": // identity value has a bit set where the mask is clear: can never match
		mask := hx.RandBytes(rng, 8)
		mask[0] &^= 0x01
		attr := make([]byte, 8)
		for i := range attr {
			attr[i] = mask[i] & seam[i]
		}
		attr[0] |= 0x01
		d.Mask, d.Attributes = hex.EncodeToString(mask), hex.EncodeToString(attr)
	case "masklen7":
		d.Mask = d.Mask[:14]
		d.Attributes = d.Attributes[:14]
	case "masklen9":
		d.Mask += "00"
		d.Attributes += "00"
	case "masklen0":
		d.Mask, d.Attributes = "", ""
	case "attrlen7":
		d.Attributes = d.Attributes[:14]
	case "attr-nothex":
		d.Attributes = "zz" + d.Attributes[2:]
	default:
		panic("unknown mismatch " + kind)
	}
}

var c4Mismatches = []string{"fmspc", "fmspc-case", "pceid", "pceid-malformed-vs-0000", "pceid-case", "seamattr-high", "mrsignerseam", "seamattr", "seamattr-unmasked", "seamattr-valuebit-outside", "masklen7", "masklen9", "masklen0", "attrlen7", "attr-nothex"}

func c4Tags(a *c4Abs) []string {
	t := []string{"fam:" + a.fam, fmt.Sprintf("tee1:%d", a.tee1), fmt.Sprintf("nlevels:%d", len(a.levels)), "module:" + a.modKind + fmt.Sprint(len(a.mod))}
	for i, l := range a.levels {
		if i < 2 {
			t = append(t, fmt.Sprintf("L%d.sgx:%s", i, c4CmpNames[l.sgx]), fmt.Sprintf("L%d.pce:%s", i, c4CmpNames[l.pce]), fmt.Sprintf("L%d.tdx:%s", i, c4CmpNames[l.tdx]), fmt.Sprintf("L%d.status:%s", i, l.status))
		}
	}
	for i, m := range a.mod {
		if i < 2 {
			t = append(t, fmt.Sprintf("M%d:rel%+d/%s", i, m.rel, m.status))
		}
	}
	if a.mismatch != "" {
		t = append(t, "mismatch:"+a.mismatch)
	}
	return t
}

func goodMod() []c4ModLevelAbs {
	return []c4ModLevelAbs{{+1, "OutOfDate"}, {0, "UpToDate"}, {-1, "OutOfDate"}}
}

// the exhaustive small-scope grids (each entry is one abstract world)
func c4Grid(thorough bool) []*c4Abs {
	var out []*c4Abs
	sgxCmps := []c4Cmp{cPassEq, cPassLow, cPassMix, cFail0, cFail1, cFail2, cFailLast}
	pceCmps := []c4Cmp{cPassEq, cPassLow, cFail0}
	stQuick := []string{"UpToDate"}
	if thorough {
		stQuick = tcbStatuses
	}
	// G1: one level, every combination of the three comparisons, TEE_TCB_SVN[1] in {0,1}
	for _, a := range sgxCmps {
		for _, b := range pceCmps {
			for _, c := range sgxCmps {
				for tee1 := 0; tee1 <= 1; tee1++ {
					for _, st := range stQuick {
						out = append(out, &c4Abs{fam: "G1-one-level", levels: []c4LevelAbs{{a, b, c, st}}, tee1: tee1, modKind: "present", mod: goodMod()})
					}
				}
			}
		}
	}
	// G2: two levels: what the first is (match / which comparison fails) x its status x whether the second matches x its status
	type l0 struct {
		sgx, pce, tdx c4Cmp
	}
	l0s := []l0{{cPassEq, cPassEq, cPassEq}, {cPassMix, cPassMix, cPassMix}, {cFailRnd, cPassMix, cPassMix}, {cFail0, cPassMix, cPassMix}, {cPassMix, cFail0, cPassMix}, {cPassMix, cPassMix, cFailRnd},
		{cPassMix, cPassMix, cFail0}, {cPassMix, cPassMix, cFail1}, {cPassMix, cPassMix, cFail2}}
	l1s := []l0{{cPassLow, cPassLow, cPassLow}, {cPassMix, cPassMix, cPassMix}, {cFailRnd, cPassMix, cPassMix}}
	n := 0
	for _, a := range l0s {
		for _, sa := range tcbStatuses {
			for _, b := range l1s {
				for _, sb := range tcbStatuses {
					for tee1 := 0; tee1 <= 1; tee1++ {
						mods := [][]c4ModLevelAbs{goodMod()}
						if thorough {
							mods = append(mods, []c4ModLevelAbs{{0, "OutOfDate"}})
						}
						for _, m := range mods {
							n++
							if !thorough && (uint32(n)*2654435761>>9)%3 != 0 { // a pseudo-random third (a plain stride aliases with the loop structure)
								continue
							}
							out = append(out, &c4Abs{fam: "G2-two-levels", levels: []c4LevelAbs{{a.sgx, a.pce, a.tdx, sa}, {b.sgx, b.pce, b.tdx, sb}}, tee1: tee1, modKind: "present", mod: m})
						}
					}
				}
			}
		}
	}
	// G2b (both tiers, complete): the first level matches with equality in some component and is not UpToDate, the second is strictly
	// below everywhere and UpToDate — the world that separates "not above" from "below", and first match from best match
	for _, a := range []c4Cmp{cPassEq, cPassMix} {
		for _, sa := range tcbStatuses[1:] {
			for tee1 := 0; tee1 <= 1; tee1++ {
				out = append(out, &c4Abs{fam: "G2b-equality-first", levels: []c4LevelAbs{{a, cPassEq, cPassEq, sa}, {cPassLow, cPassLow, cPassLow, "UpToDate"}}, tee1: tee1, modKind: "present", mod: goodMod()})
				out = append(out, &c4Abs{fam: "G2b-equality-first", levels: []c4LevelAbs{{cPassLow, a, cPassLow, sa}, {cPassLow, cPassLow, cPassLow, "UpToDate"}}, tee1: tee1, modKind: "present", mod: goodMod()})
				out = append(out, &c4Abs{fam: "G2b-equality-first", levels: []c4LevelAbs{{cPassLow, cPassLow, a, sa}, {cPassLow, cPassLow, cPassLow, "UpToDate"}}, tee1: tee1, modKind: "present", mod: goodMod()})
			}
		}
	}
	// G3: the module identity: absent / 0 / 1 / 2 levels, isvsvn below / at / above TEE_TCB_SVN[0], all statuses; platform level UpToDate or not
	var mods [][]c4ModLevelAbs
	mods = append(mods, nil)
	for _, rel := range []int{-1, 0, 1} {
		for _, st := range tcbStatuses {
			mods = append(mods, []c4ModLevelAbs{{rel, st}})
		}
	}
	pairs := [][2]string{{"UpToDate", "OutOfDate"}, {"OutOfDate", "UpToDate"}, {"UpToDate", "UpToDate"}, {"Revoked", "SWHardeningNeeded"}}
	if thorough {
		pairs = nil
		for _, x := range tcbStatuses {
			for _, y := range tcbStatuses {
				pairs = append(pairs, [2]string{x, y})
			}
		}
	}
	for _, r0 := range []int{-1, 0, 1} {
		for _, r1 := range []int{-1, 0, 1} {
			for _, p := range pairs {
				mods = append(mods, []c4ModLevelAbs{{r0, p[0]}, {r1, p[1]}})
			}
		}
	}
	platSts := []string{"UpToDate", "OutOfDate"}
	if thorough {
		platSts = tcbStatuses
	}
	for tee1 := 0; tee1 <= 1; tee1++ {
		for _, ps := range platSts {
			lv := []c4LevelAbs{{cPassMix, cPassMix, cPassMix, ps}}
			out = append(out, &c4Abs{fam: "G3-module", levels: lv, tee1: tee1, modKind: "absent"})
			for _, m := range mods {
				out = append(out, &c4Abs{fam: "G3-module", levels: lv, tee1: tee1, modKind: "present", mod: m})
			}
			for _, m := range mods[1:8] {
				out = append(out, &c4Abs{fam: "G3-module", levels: lv, tee1: tee1, modKind: "dup", mod: m})
			}
		}
	}
	// G4: identity-field mismatches on an otherwise accepting world
	rep := 3
	if thorough {
		rep = 30
	}
	for k := 0; k < rep; k++ {
		for _, mm := range c4Mismatches {
			for tee1 := 0; tee1 <= 1; tee1++ {
				out = append(out, &c4Abs{fam: "G4-identity-fields", levels: []c4LevelAbs{{cPassMix, cPassMix, cPassMix, "UpToDate"}}, tee1: tee1, modKind: "present", mod: goodMod(), mismatch: mm})
			}
		}
	}
	return out
}

// c4Special: worlds the abstract grid cannot express (document vectors of other lengths, values outside the Go field types,
// the QE list without a match, honest controls); returns spec + tags.
func c4Special(rng *rand.Rand, k int) (*world.Spec, []string) {
	tee1 := k % 2
	kind := (k / 2) % 17
	s := c4Base(rng, tee1)
	sgx := s.Cert("leaf").Sgx
	tee := s.Quote.Body.TeeTcbSvn
	good := world.Level{Status: "UpToDate", PceSvn: sgx.PceSvn}
	good.Sgx = vecFor(rng, sgx.Comps[:], cPassMix, 0)
	good.Tdx = vecFor(rng, intsOf(tee), cPassMix, 0)
	second := good
	second.Status = []string{"UpToDate", "OutOfDate"}[rng.IntN(2)]
	s.Tcb.Identities = []world.ModIdentity{{ID: fmt.Sprintf("TDX_%02x", tee[1]), Levels: []world.ModLevel{{Isvsvn: int(tee[0]), Status: "UpToDate"}}}}
	name := ""
	odd := good
	odd.Status = "UpToDate"
	cut := func(v [16]int, n int) []int {
		out := make([]int, n)
		for i := range out {
			if i < 16 {
				out[i] = v[i]
			}
		}
		return out
	}
	switch kind {
	case 0:
		name, odd.SgxRaw = "sgx-len0", []int{}
	case 1:
		name, odd.SgxRaw = "sgx-len15", cut(good.Sgx, 15)
	case 2:
		name, odd.SgxRaw = "sgx-len17", cut(good.Sgx, 17)
	case 3:
		name, odd.SgxRaw = "sgx-len32", cut(good.Sgx, 32)
	case 4:
		name, odd.TdxRaw = "tdx-len0", []int{}
	case 5:
		name, odd.TdxRaw = "tdx-len15", cut(good.Tdx, 15)
	case 6:
		name, odd.TdxRaw = "tdx-len17", cut(good.Tdx, 17)
	case 7:
		name = "svn-256-in-document" // not a byte: the document cannot be decoded
		odd.SgxRaw = cut(good.Sgx, 16)
		odd.SgxRaw[rng.IntN(16)] = 256
	case 8:
		name = "pcesvn-65536-in-document"
		odd.PceSvn = 65536
	case 9:
		name = "svn-negative-in-document"
		odd.TdxRaw = cut(good.Tdx, 16)
		odd.TdxRaw[2+rng.IntN(14)] = -1
	case 10:
		name = "qe-no-level-matches" // the levels API must report an error for the QE side as well
		s.Tcb.Levels = []world.Level{good}
		for i := range s.Qe.Levels {
			s.Qe.Levels[i].Isvsvn = int(s.Quote.QeReport.IsvSvn) + 1 + i
		}
	case 11:
		name = "both-no-level-matches"
		hi := good
		hi.PceSvn = sgx.PceSvn + 1
		s.Tcb.Levels = []world.Level{hi}
		s.Qe.Levels = []world.QeLevel{{Isvsvn: int(s.Quote.QeReport.IsvSvn) + 1, Status: "UpToDate"}}
	case 12:
		name = "tdx-comps-0-1-above" // components 0 and 1 above the platform's: matter iff TEE_TCB_SVN[1] == 0
		l := good
		l.Tdx[0], l.Tdx[1] = int(tee[0])+1+rng.IntN(3), int(tee[1])+1+rng.IntN(3)
		s.Tcb.Levels = []world.Level{l, {Status: "OutOfDate"}}
	case 13:
		// the certificate's raw CPUSVN value (OID …1.2.18) is not what the levels are compared with: the 16 component SVNs are.
		// Here the raw value is all ff; the first listed level is above the platform in one component (UpToDate), the level
		// Intel's algorithm selects comes second and is OutOfDate
		name = "raw-cpusvn-all-ff/level-above-components-first"
		sgx.CpuSvn = bytes.Repeat([]byte{0xff}, 16)
		above := good
		above.Sgx[rng.IntN(16)] = 255
		sel := good
		sel.Status = []string{"OutOfDate", "Revoked", "OutOfDateConfigurationNeeded"}[rng.IntN(3)]
		s.Tcb.Levels = []world.Level{above, sel}
	case 14:
		// PCE SVN is a 16-bit number: a level asking for 256·k + j (j at or below the platform's low byte) is ABOVE a platform
		// whose PCE SVN is below 256 — it is listed first and UpToDate, the level Intel's algorithm selects comes second
		name = "pcesvn-level-above-8-bits-listed-first"
		above := good
		above.PceSvn = 256*(1+rng.IntN(200)) + rng.IntN(sgx.PceSvn+1)
		sel := good
		sel.Status = []string{"OutOfDate", "Revoked"}[rng.IntN(2)]
		s.Tcb.Levels = []world.Level{above, sel}
		if rng.IntN(3) == 0 {
			s.Tcb.Levels = []world.Level{above}
			name += "/alone"
		}
	case 15:
		// … and a platform PCE SVN above 255 whose low byte is small: levels between the low byte and the real value match
		name = "pcesvn-platform-above-8-bits"
		sgx.PceSvn = 256*(1+rng.IntN(200)) + rng.IntN(4)
		mid := good
		mid.PceSvn = 200 + rng.IntN(50) // below the platform, above its low byte
		mid.Status = "UpToDate"
		s.Tcb.Levels = []world.Level{mid, {Status: "OutOfDate"}}
	default:
		name = "honest-control"
		s.Tcb.Levels = []world.Level{good}
	}
	if kind < 10 {
		if rng.IntN(2) == 0 {
			s.Tcb.Levels = []world.Level{odd}
			name += "/only"
		} else {
			s.Tcb.Levels = []world.Level{odd, second}
			name += "/then-" + second.Status
		}
	}
	s.Honest = false
	s.Fault = "S-" + name
	return s, []string{"fam:S-special", "special:" + name, fmt.Sprintf("tee1:%d", tee1)}
}

// c4Random: up to 6 levels, random SVN vectors, random module identities, occasional identity-field mismatch.
func c4Random(rng *rand.Rand) (*world.Spec, []string) {
	tee1 := 0
	if rng.IntN(5) >= 2 {
		tee1 = 1 + rng.IntN(3)
	}
	s := c4Base(rng, tee1)
	sgx := s.Cert("leaf").Sgx
	tee := s.Quote.Body.TeeTcbSvn
	if rng.IntN(4) == 0 { // platform values at the extremes
		sgx.Comps[rng.IntN(16)] = []int{0, 255}[rng.IntN(2)]
		tee[2+rng.IntN(14)] = []byte{0, 255}[rng.IntN(2)]
	}
	rndStatus := func() string {
		if rng.IntN(2) == 0 {
			return "UpToDate"
		}
		return tcbStatuses[rng.IntN(7)]
	}
	clamp := func(v int) int {
		if v < 0 {
			return 0
		}
		if v > 255 {
			return 255
		}
		return v
	}
	nl := 1 + rng.IntN(6)
	var levels []world.Level
	for i := 0; i < nl; i++ {
		l := world.Level{Status: rndStatus(), PceSvn: sgx.PceSvn - rng.IntN(3)}
		for j := 0; j < 16; j++ {
			l.Sgx[j] = clamp(sgx.Comps[j] - rng.IntN(3))
			l.Tdx[j] = clamp(int(tee[j]) - rng.IntN(3))
		}
		if rng.IntN(2) == 0 { // some comparison fails somewhere
			for n := 1 + rng.IntN(3); n > 0; n-- {
				switch rng.IntN(3) {
				case 0:
					j := rng.IntN(16)
					l.Sgx[j] = clamp(sgx.Comps[j] + 1 + rng.IntN(3))
				case 1:
					l.PceSvn = sgx.PceSvn + 1 + rng.IntN(3)
				default:
					j := rng.IntN(16)
					l.Tdx[j] = clamp(int(tee[j]) + 1 + rng.IntN(3))
				}
			}
		}
		if rng.IntN(4) == 0 { // components 0 and 1 of the TDX vector above the platform's
			l.Tdx[0], l.Tdx[1] = clamp(int(tee[0])+1+rng.IntN(4)), clamp(int(tee[1])+1+rng.IntN(4))
		}
		levels = append(levels, l)
	}
	s.Tcb.Levels = levels
	var ids []world.ModIdentity
	for n := rng.IntN(4); n > 0; n-- {
		id := world.ModIdentity{ID: fmt.Sprintf("TDX_%02x", rng.IntN(5))}
		if rng.IntN(3) == 0 {
			id.ID = fmt.Sprintf("TDX_%02x", tee[1])
		}
		for m := rng.IntN(4); m > 0; m-- {
			id.Levels = append(id.Levels, world.ModLevel{Isvsvn: clamp(int(tee[0]) - 2 + rng.IntN(5)), Status: rndStatus()})
		}
		ids = append(ids, id)
	}
	s.Tcb.Identities = ids
	mm := ""
	if rng.IntN(10) == 0 {
		mm = c4Mismatches[rng.IntN(len(c4Mismatches))]
		c4Mismatch(rng, s, mm)
	}
	s.Honest = false
	s.Fault = "R-random"
	tags := []string{"fam:R-random", fmt.Sprintf("tee1:%d", b2i(tee1 != 0)), fmt.Sprintf("nlevels:%d", nl), fmt.Sprintf("nidentities:%d", len(ids))}
	if mm != "" {
		tags = append(tags, "mismatch:"+mm)
	}
	return s, tags
}

func b2i(b bool) int {
	if b {
		return 1
	}
	return 0
}

// ------------------------------------------------------------------------------------------ C04 oracles

// c4Oracle: accepted ∧ ¬(statement of C04 on the generator's data).
func c4Oracle(w *world.World, vr vResult) string {
	if !vr.accepted || !w.Spec.GC {
		return ""
	}
	v := intelTcb(tcbDocOfSpec(&w.Spec.Tcb), platOf(w.Spec))
	if r := tcbAcceptReason(v); r != "" {
		return r
	}
	return ""
}

// c4LevelsOracle: "if no level matches … the API that reports the supported TCB levels returns an error rather than an
// empty level".
func c4LevelsOracle(w *world.World, vr vResult, lv lvResult) string {
	if lv.err != nil || lv.obs == "panic" {
		return ""
	}
	s := w.Spec
	v := intelTcb(tcbDocOfSpec(&s.Tcb), platOf(s))
	var why []string
	if v.kind != "doc" {
		if v.platIdx < 0 {
			why = append(why, "no TCB Info level is at or below the platform's SVNs")
		} else if v.needMod && !v.modFound {
			why = append(why, fmt.Sprintf("no level of TDX module identity TDX_%02x matches", s.Quote.Body.TeeTcbSvn[1]))
		}
	}
	q := intelQe(qeDocOfSpec(&s.Qe), qeRepOf(s))
	if q.kind != "doc" && q.lvIdx < 0 {
		why = append(why, "no QE Identity level has isvsvn at or below the report's")
	}
	if len(why) == 0 {
		return ""
	}
	return fmt.Sprintf("F5-shape: SupportedTcbLevelsFromCollateral returned a nil error with levels tcb=%s qe=%s although %s", showLevelGo(lv.tcb), showLevelGo(lv.qe), strings.Join(why, " and "))
}

func c4AccOK(w *world.World) bool {
	s := w.Spec
	return intelTcb(tcbDocOfSpec(&s.Tcb), platOf(s)).ok && intelQe(qeDocOfSpec(&s.Qe), qeRepOf(s)).ok
}

func c04(r *hx.Run) {
	thorough := r.Tier == "thorough"
	grid := c4Grid(thorough)
	nSpecial, nRandom := 34*3, 1900
	if thorough {
		nSpecial, nRandom = 34*40, 22000
	}
	// the plainest instance of the two shapes the statement singles out first (platform level not UpToDate while the TDX module
	// level is; no level matches at all), so that the first recorded cases of a defect are its plainest form
	canon := []*c4Abs{
		{fam: "G0-canonical", levels: []c4LevelAbs{{cPassEq, cPassEq, cPassEq, "OutOfDate"}}, tee1: 1, modKind: "present", mod: []c4ModLevelAbs{{0, "UpToDate"}}},
		{fam: "G0-canonical", levels: []c4LevelAbs{{cPassEq, cFail0, cPassEq, "UpToDate"}}, tee1: 0, modKind: "absent"},
	}
	grid = append(canon, grid...)
	n := len(grid) + nSpecial + nRandom
	r.Note("grid_worlds", len(grid))
	r.Note("special_worlds", nSpecial)
	r.Note("random_worlds", nRandom)
	runJobs(r, n, func(i int, rng *rand.Rand) *vJob {
		j := &vJob{levels: true, oracle: c4Oracle, lvOracle: c4LevelsOracle, accOK: c4AccOK}
		switch {
		case i < len(grid):
			a := grid[i]
			j.spec = c4Concretise(rng, a)
			j.tags = c4Tags(a)
			j.key = fmt.Sprintf("%s|%v|%d|%s|%v|%s|%d", a.fam, a.levels, a.tee1, a.modKind, a.mod, a.mismatch, rng.IntN(4))
		case i < len(grid)+nSpecial:
			j.spec, j.tags = c4Special(rng, i-len(grid))
		default:
			j.spec, j.tags = c4Random(rng)
		}
		return j
	})
}
