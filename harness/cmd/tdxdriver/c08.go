package main

import (
	"github.com/google/go-tdx-guest/abi"
	"bytes"
	"encoding/binary"
	"fmt"
	"math/rand/v2"
	"strings"

	ccpb "github.com/google/go-tdx-guest/proto/checkconfig"
	pb "github.com/google/go-tdx-guest/proto/tdx"
	"github.com/google/go-tdx-guest/validate"
	"google.golang.org/protobuf/proto"

	"tdxharness/hx"
)

func init() {
	drivers["C08"] = func(r *hx.Run) { c08(r, false) }
	drivers["C14"] = func(r *hx.Run) { c14(r) }
}

func optTokens(o *validate.Options) string {
	if o == nil {
		return "o=nil"
	}
	h, t := o.HeaderOptions, o.TdQuoteBodyOptions
	return fmt.Sprintf("o=set minqe=%d minpce=%d oven=%s omintee=%s oseam=%s otdattr=%s oxfam=%s omrtd=%s ocfg=%s oown=%s oownc=%s ortmrs=%s ord=%s oany=%s",
		h.MinimumQeSvn, h.MinimumPceSvn, hx.OptHex(h.QeVendorID), hx.OptHex(t.MinimumTeeTcbSvn), hx.OptHex(t.MrSeam), hx.OptHex(t.TdAttributes), hx.OptHex(t.Xfam),
		hx.OptHex(t.MrTd), hx.OptHex(t.MrConfigID), hx.OptHex(t.MrOwner), hx.OptHex(t.MrOwnerConfig), hx.HexList(t.Rtmrs), hx.OptHex(t.ReportData), hx.HexList(t.AnyMrTd))
}

func dumpOptions(o *validate.Options) string {
	h, t := o.HeaderOptions, o.TdQuoteBodyOptions
	return fmt.Sprintf("minqe=%d minpce=%d ven=%s mintee=%s seam=%s tdattr=%s xfam=%s mrtd=%s cfg=%s own=%s ownc=%s rtmrs=%s rd=%s any=%s",
		h.MinimumQeSvn, h.MinimumPceSvn, hx.OptHex(h.QeVendorID), hx.OptHex(t.MinimumTeeTcbSvn), hx.OptHex(t.MrSeam), hx.OptHex(t.TdAttributes), hx.OptHex(t.Xfam),
		hx.OptHex(t.MrTd), hx.OptHex(t.MrConfigID), hx.OptHex(t.MrOwner), hx.OptHex(t.MrOwnerConfig), hx.HexList(t.Rtmrs), hx.OptHex(t.ReportData), hx.HexList(t.AnyMrTd))
}

// structOK: the independent reading of "structurally valid quote message" (what CheckQuoteV4 promises)
func structOK(q *pb.QuoteV4) bool {
	if q == nil || q.Header == nil || q.TdQuoteBody == nil || q.SignedData == nil {
		return false
	}
	cp := proto.Clone(q).(*pb.QuoteV4)
	// structural validity does not involve the two size fields that are not related to the actual lengths (O-1)
	c := cp.SignedData.GetCertificationData()
	if c == nil || c.QeReportCertificationData == nil || c.QeReportCertificationData.QeAuthData == nil || c.QeReportCertificationData.PckCertificateChainData == nil {
		return false
	}
	qc := c.QeReportCertificationData
	n := 384 + 64 + 2 + len(qc.QeAuthData.Data) + 6 + len(qc.PckCertificateChainData.PckCertChain)
	c.Size = uint32(n)
	cp.SignedDataSize = uint32(134 + n)
	return wellFormed(cp)
}

const (
	xfamF1  = uint64(0x3)
	xfamF0  = uint64(0x0006DBE7)
	tdF1    = uint64(0)
	tdF0    = uint64(1) | 1<<28 | 1<<30 | 1<<63
)

// meets: the statement of C08 over a structurally valid quote. judged=false when the options contain a
// wrongly sized entry for which the statement allows either an error or (if nothing is missed) success.
func meets(q *pb.QuoteV4, o *validate.Options) (ok bool, mustReject bool) {
	t, h := q.TdQuoteBody, q.Header
	ok = true
	exact := func(opt, field []byte, size int) {
		if len(opt) == 0 {
			return
		}
		if len(opt) != size || !bytes.Equal(opt, field) {
			ok, mustReject = false, true
		}
	}
	to := o.TdQuoteBodyOptions
	exact(o.HeaderOptions.QeVendorID, h.QeVendorId, 16)
	exact(to.MrSeam, t.MrSeam, 48)
	exact(to.TdAttributes, t.TdAttributes, 8)
	exact(to.Xfam, t.Xfam, 8)
	exact(to.MrTd, t.MrTd, 48)
	exact(to.MrConfigID, t.MrConfigId, 48)
	exact(to.MrOwner, t.MrOwner, 48)
	exact(to.MrOwnerConfig, t.MrOwnerConfig, 48)
	exact(to.ReportData, t.ReportData, 64)
	if len(to.Rtmrs) != 0 {
		if len(to.Rtmrs) != 4 {
			ok, mustReject = false, true
		} else {
			for i := range to.Rtmrs {
				exact(to.Rtmrs[i], t.Rtmrs[i], 48)
			}
		}
	}
	if len(to.AnyMrTd) != 0 {
		found := false
		for _, e := range to.AnyMrTd {
			if len(e) == 0 || (len(e) == 48 && bytes.Equal(e, t.MrTd)) { // an empty entry matches everything (O-2)
				found = true
			}
		}
		if !found {
			ok, mustReject = false, true
		}
	}
	if n := len(to.MinimumTeeTcbSvn); n != 0 {
		if n < 16 {
			ok, mustReject = false, true // a minimum that does not cover every component cannot be met
		} else {
			for i := 0; i < 16; i++ {
				if t.TeeTcbSvn[i] < to.MinimumTeeTcbSvn[i] {
					ok, mustReject = false, true
				}
			}
			if n > 16 && ok {
				ok = false // oversized: an error is expected, success is tolerated (mustReject stays false)
			}
		}
	}
	if binary.LittleEndian.Uint16(h.QeSvn) < o.HeaderOptions.MinimumQeSvn || binary.LittleEndian.Uint16(h.PceSvn) < o.HeaderOptions.MinimumPceSvn {
		ok, mustReject = false, true
	}
	x := binary.LittleEndian.Uint64(t.Xfam)
	a := binary.LittleEndian.Uint64(t.TdAttributes)
	if x&xfamF1 != xfamF1 || x&^xfamF0 != 0 || a&tdF1 != tdF1 || a&^tdF0 != 0 {
		ok, mustReject = false, true
	}
	return
}

func valCase(r *hx.Run, q *pb.QuoteV4, o *validate.Options, onlyCrash bool, tags ...string) {
	var err error
	res, stack := hx.Guard(func() string {
		err = validate.TdxQuote(q, o)
		if err != nil {
			return "err"
		}
		return "ok"
	})
	fail := ""
	if res == "panic" {
		fail = "crash: " + strings.SplitN(stack, "\n", 2)[0]
	} else if !onlyCrash {
		switch {
		case o == nil || !structOK(q):
			if err == nil {
				fail = "validation succeeded on a structurally invalid quote / nil options"
			}
		default:
			ok, mustReject := meets(q, o)
			if err == nil && mustReject {
				fail = "accepted a quote that misses a configured expectation"
			} else if err != nil && ok {
				fail = "rejected a quote that meets every configured expectation: " + err.Error()
			}
		}
	}
	// the same quote as the guest produces it, a byte string, through validate.RawTdxQuote: same verdict
	if fail == "" && !onlyCrash && res != "panic" && o != nil && structOK(q) {
		if raw, e := safeSerialise(q); e == nil {
			if back, e2 := safeParse(raw); e2 == nil && proto.Equal(back, q) {
				var rerr error
				rres, _ := hx.Guard(func() string { rerr = validate.RawTdxQuote(raw, o); return "" })
				if rres == "panic" {
					fail = "crash in validate.RawTdxQuote on the serialised form of a quote validate.TdxQuote handles"
				} else if (rerr == nil) != (err == nil) {
					fail = fmt.Sprintf("validate.RawTdxQuote (%v) and validate.TdxQuote (%v) decide differently on the same quote", rerr, err)
				}
			}
		}
	}
	line := "C08.val " + msgTokens(q) + " " + optTokens(o)
	r.Emit(line, res, fail, fmt.Sprint(hx.Fnv1a([]byte(line))), o != nil && structOK(q), append(tags, "val:"+res)...)
}

func safeSerialise(q *pb.QuoteV4) (raw []byte, err error) {
	defer func() {
		if p := recover(); p != nil {
			err = fmt.Errorf("panic: %v", p)
		}
	}()
	return abi.QuoteToAbiBytes(q)
}

type byteOpt struct {
	name string
	size int
	get  func(q *pb.QuoteV4) []byte
	set  func(o *validate.Options, v []byte)
}

var byteOpts = []byteOpt{
	{"qe_vendor_id", 16, func(q *pb.QuoteV4) []byte { return q.Header.QeVendorId }, func(o *validate.Options, v []byte) { o.HeaderOptions.QeVendorID = v }},
	{"mr_seam", 48, func(q *pb.QuoteV4) []byte { return q.TdQuoteBody.MrSeam }, func(o *validate.Options, v []byte) { o.TdQuoteBodyOptions.MrSeam = v }},
	{"td_attributes", 8, func(q *pb.QuoteV4) []byte { return q.TdQuoteBody.TdAttributes }, func(o *validate.Options, v []byte) { o.TdQuoteBodyOptions.TdAttributes = v }},
	{"xfam", 8, func(q *pb.QuoteV4) []byte { return q.TdQuoteBody.Xfam }, func(o *validate.Options, v []byte) { o.TdQuoteBodyOptions.Xfam = v }},
	{"mr_td", 48, func(q *pb.QuoteV4) []byte { return q.TdQuoteBody.MrTd }, func(o *validate.Options, v []byte) { o.TdQuoteBodyOptions.MrTd = v }},
	{"mr_config_id", 48, func(q *pb.QuoteV4) []byte { return q.TdQuoteBody.MrConfigId }, func(o *validate.Options, v []byte) { o.TdQuoteBodyOptions.MrConfigID = v }},
	{"mr_owner", 48, func(q *pb.QuoteV4) []byte { return q.TdQuoteBody.MrOwner }, func(o *validate.Options, v []byte) { o.TdQuoteBodyOptions.MrOwner = v }},
	{"mr_owner_config", 48, func(q *pb.QuoteV4) []byte { return q.TdQuoteBody.MrOwnerConfig }, func(o *validate.Options, v []byte) { o.TdQuoteBodyOptions.MrOwnerConfig = v }},
	{"report_data", 64, func(q *pb.QuoteV4) []byte { return q.TdQuoteBody.ReportData }, func(o *validate.Options, v []byte) { o.TdQuoteBodyOptions.ReportData = v }},
	{"minimum_tee_tcb_svn", 16, func(q *pb.QuoteV4) []byte { return q.TdQuoteBody.TeeTcbSvn }, func(o *validate.Options, v []byte) { o.TdQuoteBodyOptions.MinimumTeeTcbSvn = v }},
}

// variants of one byte-string expectation relative to the quote's value
func variants(rng *rand.Rand, field []byte) [][]byte {
	n := len(field)
	cp := func() []byte { return append([]byte{}, field...) }
	first, last, rnd := cp(), cp(), cp()
	first[0] ^= 0x01
	last[n-1] ^= 0x80
	rnd[rng.IntN(n)] ^= byte(1 + rng.IntN(255))
	return [][]byte{nil, {}, cp(), first, last, rnd, cp()[:n-1], append(cp(), 0)}
}

var variantNames = []string{"nil", "empty", "equal", "first", "last", "random", "short", "long"}

// a validation-friendly base message: valid XFAM / TD_ATTRIBUTES, mid-range SVNs, short chain
func valBase(rng *rand.Rand) *pb.QuoteV4 {
	raw := synthQuote(rng, synthOpts{8, 40, 0})
	q, ok := indepParse(raw)
	if !ok {
		panic("synthetic base invalid")
	}
	q = proto.Clone(q).(*pb.QuoteV4)
	binary.LittleEndian.PutUint64(q.TdQuoteBody.Xfam, 0x3|0x4|0x200)
	binary.LittleEndian.PutUint64(q.TdQuoteBody.TdAttributes, 1<<28)
	q.Header.QeSvn = []byte{0x05, 0x01} // 261
	q.Header.PceSvn = []byte{0xff, 0x00} // 255
	for i := range q.TdQuoteBody.TeeTcbSvn {
		q.TdQuoteBody.TeeTcbSvn[i] = byte(3 + i*7)
	}
	return q
}

func c08(r *hx.Run, onlyCrash bool) {
	rng := r.Rng(8)
	thorough := r.Tier == "thorough"
	base := valBase(rng)
	cl := func() *pb.QuoteV4 { return proto.Clone(base).(*pb.QuoteV4) }
	valCase(r, base, &validate.Options{}, onlyCrash, "base")
	valCase(r, base, nil, onlyCrash, "nil-options")
	// every single XFAM / TD_ATTRIBUTES bit set and cleared
	for _, fld := range []string{"xfam", "tdattr"} {
		for bit := 0; bit < 64; bit++ {
			for _, set := range []bool{true, false} {
				q := cl()
				var b []byte
				var baseVal uint64
				if fld == "xfam" {
					b, baseVal = q.TdQuoteBody.Xfam, 0x3
					if !set {
						baseVal = xfamF0
					}
				} else {
					b, baseVal = q.TdQuoteBody.TdAttributes, 0
					if !set {
						baseVal = tdF0
					}
				}
				v := baseVal | 1<<bit
				if !set {
					v = baseVal &^ (1 << bit)
				}
				binary.LittleEndian.PutUint64(b, v)
				valCase(r, q, &validate.Options{}, onlyCrash, "mask:"+fld)
				// the same quote under a policy that pins exactly these bytes (and under one that pins the OTHER field to the quote's
				// value): an expectation the quote meets does not make a reserved bit legal
				if bit%4 == 0 || thorough {
					pin := &validate.Options{}
					other := &validate.Options{}
					if fld == "xfam" {
						pin.TdQuoteBodyOptions.Xfam = append([]byte{}, b...)
						other.TdQuoteBodyOptions.TdAttributes = append([]byte{}, q.TdQuoteBody.TdAttributes...)
					} else {
						pin.TdQuoteBodyOptions.TdAttributes = append([]byte{}, b...)
						other.TdQuoteBodyOptions.Xfam = append([]byte{}, q.TdQuoteBody.Xfam...)
					}
					both := &validate.Options{TdQuoteBodyOptions: validate.TdQuoteBodyOptions{Xfam: append([]byte{}, q.TdQuoteBody.Xfam...), TdAttributes: append([]byte{}, q.TdQuoteBody.TdAttributes...)}}
					valCase(r, q, pin, onlyCrash, "mask+pinned:"+fld)
					valCase(r, q, other, onlyCrash, "mask+other-pinned:"+fld)
					valCase(r, q, both, onlyCrash, "mask+both-pinned:"+fld)
				}
			}
		}
	}
	// SVN minimums
	for _, d := range []int{-1, 0, 1} {
		for _, which := range []string{"qe", "pce"} {
			o := &validate.Options{}
			if which == "qe" {
				o.HeaderOptions.MinimumQeSvn = uint16(261 + d)
			} else {
				o.HeaderOptions.MinimumPceSvn = uint16(255 + d)
			}
			valCase(r, base, o, onlyCrash, "svn:"+which)
		}
		for i := 0; i < 16; i++ {
			m := append([]byte{}, base.TdQuoteBody.TeeTcbSvn...)
			m[i] = byte(int(m[i]) + d)
			valCase(r, base, &validate.Options{TdQuoteBodyOptions: validate.TdQuoteBodyOptions{MinimumTeeTcbSvn: m}}, onlyCrash, "svn:tee")
		}
	}
	// component-wise, not lexicographic / not "any": two components moved in opposite or equal directions
	for i := 0; i < 16; i++ {
		for j := 0; j < 16; j++ {
			if i == j || (!thorough && (i*16+j)%5 != 0 && !(i < 3 && j < 3)) {
				continue
			}
			for _, dd := range [][2]int{{-1, 1}, {-1, -1}, {1, 1}} {
				m := append([]byte{}, base.TdQuoteBody.TeeTcbSvn...)
				m[i] = byte(int(m[i]) + dd[0])
				m[j] = byte(int(m[j]) + dd[1])
				valCase(r, base, &validate.Options{TdQuoteBodyOptions: validate.TdQuoteBodyOptions{MinimumTeeTcbSvn: m}}, onlyCrash, "svn:tee2")
			}
		}
	}
	// every component independently below / equal / above / arbitrary
	nvec := 200
	if thorough {
		nvec = 5000
	}
	for k := 0; k < nvec; k++ {
		m := append([]byte{}, base.TdQuoteBody.TeeTcbSvn...)
		pAbove := rng.IntN(4) // 0: never above (accepting vectors), else sparse
		for i := range m {
			switch c := rng.IntN(8); {
			case c < 3:
				m[i]--
			case c == 3 && pAbove != 0 && rng.IntN(4) == 0:
				m[i]++
			case c == 4:
				m[i] = byte(rng.IntN(int(m[i]) + 1))
			case c == 5 && pAbove == 3 && rng.IntN(6) == 0:
				m[i] = byte(rng.IntN(256))
			}
		}
		valCase(r, base, &validate.Options{TdQuoteBodyOptions: validate.TdQuoteBodyOptions{MinimumTeeTcbSvn: m}}, onlyCrash, "svn:teevec")
	}
	for _, v := range []uint16{0, 1, 260, 262, 65535} {
		valCase(r, base, &validate.Options{HeaderOptions: validate.HeaderOptions{MinimumQeSvn: v}}, onlyCrash, "svn:qe")
		valCase(r, base, &validate.Options{HeaderOptions: validate.HeaderOptions{MinimumPceSvn: v}}, onlyCrash, "svn:pce")
	}
	// big-endian confusion: qeSvn bytes 05 01 = 261 LE, 1281 BE
	valCase(r, base, &validate.Options{HeaderOptions: validate.HeaderOptions{MinimumQeSvn: 1000}}, onlyCrash, "svn:endianness")
	for _, n := range []int{0, 1, 3, 15, 16, 17, 32} {
		valCase(r, base, &validate.Options{TdQuoteBodyOptions: validate.TdQuoteBodyOptions{MinimumTeeTcbSvn: make([]byte, n)}}, onlyCrash, "mintee-len")
		m := bytes.Repeat([]byte{0xff}, n)
		valCase(r, base, &validate.Options{TdQuoteBodyOptions: validate.TdQuoteBodyOptions{MinimumTeeTcbSvn: m}}, onlyCrash, "mintee-len")
	}
	// exact MR_TD and the allowed-MR_TD set are two expectations: both count when both are given
	for _, exact := range []string{"equal", "differs", "unset"} {
		for _, set := range []string{"contains", "lacks", "lacks-but-has-the-exact-value-of-the-option", "unset"} {
			o := &validate.Options{}
			mrtd := base.TdQuoteBody.MrTd
			other := append([]byte{}, mrtd...)
			other[11] ^= 0x04
			switch exact {
			case "equal":
				o.TdQuoteBodyOptions.MrTd = append([]byte{}, mrtd...)
			case "differs":
				o.TdQuoteBodyOptions.MrTd = other
			}
			switch set {
			case "contains":
				o.TdQuoteBodyOptions.AnyMrTd = [][]byte{hx.RandBytes(rng, 48), append([]byte{}, mrtd...)}
			case "lacks":
				o.TdQuoteBodyOptions.AnyMrTd = [][]byte{hx.RandBytes(rng, 48), hx.RandBytes(rng, 48)}
			case "lacks-but-has-the-exact-value-of-the-option":
				o.TdQuoteBodyOptions.AnyMrTd = [][]byte{hx.RandBytes(rng, 48), other}
			}
			valCase(r, base, o, onlyCrash, "mrtd-and-anymrtd")
		}
	}
	// each byte option singly, then pairwise (3-wise sample in thorough)
	type choice struct{ f, v int }
	apply := func(cs []choice) {
		o := &validate.Options{}
		tag := ""
		for _, c := range cs {
			bo := byteOpts[c.f]
			byteOpts[c.f].set(o, variants(rng, bo.get(base))[c.v])
			tag += variantNames[c.v][:2]
		}
		valCase(r, base, o, onlyCrash, fmt.Sprintf("opts%d", len(cs)))
	}
	for f := range byteOpts {
		for v := 0; v < 8; v++ {
			apply([]choice{{f, v}})
		}
	}
	for f := range byteOpts {
		for g := f + 1; g < len(byteOpts); g++ {
			for v := 0; v < 8; v++ {
				for w := 0; w < 8; w++ {
					if !thorough && (v*8+w+f+g)%3 != 0 {
						continue
					}
					apply([]choice{{f, v}, {g, w}})
				}
			}
		}
	}
	if thorough {
		for i := 0; i < 40000; i++ {
			f, g, h := rng.IntN(10), rng.IntN(10), rng.IntN(10)
			if f == g || g == h || f == h {
				continue
			}
			apply([]choice{{f, rng.IntN(8)}, {g, rng.IntN(8)}, {h, rng.IntN(8)}})
		}
	}
	// RTMR expectation lists
	entry := func(kind int, i int) []byte {
		field := base.TdQuoteBody.Rtmrs[i%4]
		switch kind {
		case 0:
			return nil
		case 1:
			return append([]byte{}, field...)
		case 2:
			b := append([]byte{}, field...)
			b[47] ^= 1
			return b
		default:
			return append([]byte{}, field[:47]...)
		}
	}
	for n := 0; n <= 5; n++ {
		total := 1
		for i := 0; i < n; i++ {
			total *= 4
		}
		for code := 0; code < total; code++ {
			if n == 5 && code%16 != 0 {
				continue
			}
			var l [][]byte
			c := code
			for i := 0; i < n; i++ {
				l = append(l, entry(c%4, i))
				c /= 4
			}
			valCase(r, base, &validate.Options{TdQuoteBodyOptions: validate.TdQuoteBodyOptions{Rtmrs: l}}, onlyCrash, fmt.Sprintf("rtmrs%d", n))
		}
	}
	// allowed MR_TD lists: the match at each position, empty entries, wrongly sized entries
	for n := 0; n <= 4; n++ {
		for pos := -1; pos < n; pos++ {
			for _, special := range []string{"", "empty", "short", "long"} {
				var l [][]byte
				for i := 0; i < n; i++ {
					e := hx.RandBytes(rng, 48)
					if i == pos {
						e = append([]byte{}, base.TdQuoteBody.MrTd...)
					}
					l = append(l, e)
				}
				if special != "" && n > 0 {
					k := rng.IntN(n)
					if k == pos {
						k = (k + 1) % n
					}
					switch special {
					case "empty":
						l[k] = []byte{}
					case "short":
						l[k] = append([]byte{}, base.TdQuoteBody.MrTd[:47]...)
					case "long":
						l[k] = append(append([]byte{}, base.TdQuoteBody.MrTd...), 0)
					}
				}
				valCase(r, base, &validate.Options{TdQuoteBodyOptions: validate.TdQuoteBodyOptions{AnyMrTd: l}}, onlyCrash, "anymrtd")
			}
		}
	}
	// structurally arbitrary messages under a few option values
	opts := []*validate.Options{{}, nil, {TdQuoteBodyOptions: validate.TdQuoteBodyOptions{MinimumTeeTcbSvn: make([]byte, 16), Rtmrs: [][]byte{nil, nil, nil, base.TdQuoteBody.Rtmrs[3]}, ReportData: base.TdQuoteBody.ReportData}}}
	structuralMutants(base, rng, func(name string, q *pb.QuoteV4) {
		for i, o := range opts {
			if i > 0 && !strings.HasPrefix(name, "absent") && !strings.HasPrefix(name, "rtmrs") && !strings.HasPrefix(name, "len1") && name != "nil" && name != "empty" {
				continue
			}
			valCase(r, q, o, onlyCrash, "struct:"+strings.SplitN(name, ":", 2)[0])
		}
	})
	// the Intel sample
	if q, err := safeParse(sampleQuote()); err == nil {
		valCase(r, q, &validate.Options{}, onlyCrash, "intel")
		valCase(r, q, &validate.Options{TdQuoteBodyOptions: validate.TdQuoteBodyOptions{MrTd: q.TdQuoteBody.MrTd, ReportData: q.TdQuoteBody.ReportData}}, onlyCrash, "intel")
	}
	// random option values
	n := 400
	if thorough {
		n = 20000
	}
	for i := 0; i < n; i++ {
		o := &validate.Options{}
		for f := range byteOpts {
			if rng.IntN(3) == 0 {
				byteOpts[f].set(o, variants(rng, byteOpts[f].get(base))[rng.IntN(8)])
			}
		}
		if rng.IntN(4) == 0 {
			o.HeaderOptions.MinimumQeSvn = uint16(rng.IntN(520))
		}
		if rng.IntN(4) == 0 {
			o.HeaderOptions.MinimumPceSvn = uint16(rng.IntN(510))
		}
		if rng.IntN(4) == 0 {
			var l [][]byte
			for j := 0; j < 4; j++ {
				l = append(l, entry(rng.IntN(3), j))
			}
			o.TdQuoteBodyOptions.Rtmrs = l
		}
		q := cl()
		if rng.IntN(3) == 0 {
			binary.LittleEndian.PutUint64(q.TdQuoteBody.Xfam, 0x3|uint64(1)<<rng.IntN(64))
		}
		valCase(r, q, o, onlyCrash, "random")
	}
}

// ---------------------------------------------------------------- C14

func polTokens(p *ccpb.Policy) string {
	if p == nil {
		return "p=nil"
	}
	s := "p=set"
	if h := p.HeaderPolicy; h == nil {
		s += " hp=nil"
	} else {
		s += fmt.Sprintf(" hp=set pminqe=%d pminpce=%d pven=%s", h.MinimumQeSvn, h.MinimumPceSvn, hx.OptHex(h.QeVendorId))
	}
	if t := p.TdQuoteBodyPolicy; t == nil {
		s += " tp=nil"
	} else {
		s += fmt.Sprintf(" tp=set pmintee=%s pseam=%s ptdattr=%s pxfam=%s pmrtd=%s pcfg=%s pown=%s pownc=%s prtmrs=%s prd=%s pany=%s",
			hx.OptHex(t.MinimumTeeTcbSvn), hx.OptHex(t.MrSeam), hx.OptHex(t.TdAttributes), hx.OptHex(t.Xfam), hx.OptHex(t.MrTd), hx.OptHex(t.MrConfigId),
			hx.OptHex(t.MrOwner), hx.OptHex(t.MrOwnerConfig), hx.HexList(t.Rtmrs), hx.OptHex(t.ReportData), hx.HexList(t.AnyMrTd))
	}
	return s
}

// literal reading of a policy as options (harness-owned, field by field)
func literalOptions(p *ccpb.Policy) *validate.Options {
	o := &validate.Options{}
	if p == nil {
		return o
	}
	if h := p.HeaderPolicy; h != nil {
		o.HeaderOptions = validate.HeaderOptions{MinimumQeSvn: uint16(h.MinimumQeSvn), MinimumPceSvn: uint16(h.MinimumPceSvn), QeVendorID: h.QeVendorId}
	}
	if t := p.TdQuoteBodyPolicy; t != nil {
		o.TdQuoteBodyOptions = validate.TdQuoteBodyOptions{MinimumTeeTcbSvn: t.MinimumTeeTcbSvn, MrSeam: t.MrSeam, TdAttributes: t.TdAttributes, Xfam: t.Xfam, MrTd: t.MrTd,
			MrConfigID: t.MrConfigId, MrOwner: t.MrOwner, MrOwnerConfig: t.MrOwnerConfig, Rtmrs: t.Rtmrs, ReportData: t.ReportData, AnyMrTd: t.AnyMrTd}
	}
	return o
}

// malformed: what the statement of C14 says must make conversion fail
func policyMalformed(p *ccpb.Policy) bool {
	if p == nil {
		return false
	}
	if p.GetHeaderPolicy().GetMinimumQeSvn() > 65535 || p.GetHeaderPolicy().GetMinimumPceSvn() > 65535 {
		return true
	}
	bad := func(b []byte, n int) bool { return len(b) != 0 && len(b) != n }
	t := p.GetTdQuoteBodyPolicy()
	if bad(p.GetHeaderPolicy().GetQeVendorId(), 16) || bad(t.GetMinimumTeeTcbSvn(), 16) || bad(t.GetMrSeam(), 48) || bad(t.GetTdAttributes(), 8) || bad(t.GetXfam(), 8) ||
		bad(t.GetMrTd(), 48) || bad(t.GetMrConfigId(), 48) || bad(t.GetMrOwner(), 48) || bad(t.GetMrOwnerConfig(), 48) || bad(t.GetReportData(), 64) {
		return true
	}
	if n := len(t.GetRtmrs()); n != 0 && n != 4 {
		return true
	}
	for _, e := range t.GetRtmrs() {
		if bad(e, 48) {
			return true
		}
	}
	for _, e := range t.GetAnyMrTd() {
		if bad(e, 48) {
			return true
		}
	}
	return false
}

func convCase(r *hx.Run, p *ccpb.Policy, quotes []*pb.QuoteV4, tags ...string) {
	var o *validate.Options
	var err error
	// the policy message is the caller's: its list fields get spare capacity holding sentinel entries (as a slice of a longer
	// shared list has), and the whole message is compared, to capacity, after the conversion
	var before *ccpb.Policy
	var spareR, spareA [][]byte
	if p != nil {
		if t := p.TdQuoteBodyPolicy; t != nil {
			mk := func(l [][]byte) ([][]byte, [][]byte) {
				if l == nil {
					return nil, nil
				}
				full := make([][]byte, len(l), len(l)+2)
				copy(full, l)
				spare := full[len(l) : len(l)+2]
				spare[0], spare[1] = []byte("sentinel-0"), []byte("sentinel-1")
				return full, spare
			}
			t.Rtmrs, spareR = mk(t.Rtmrs)
			t.AnyMrTd, spareA = mk(t.AnyMrTd)
		}
		before = proto.Clone(p).(*ccpb.Policy)
	}
	res, stack := hx.Guard(func() string {
		o, err = validate.PolicyToOptions(p)
		if err != nil {
			return "err"
		}
		return "ok " + dumpOptions(o)
	})
	fail := ""
	if res != "panic" && p != nil {
		if !proto.Equal(p, before) {
			fail = "PolicyToOptions changed the policy message it was given"
		} else if (spareR != nil && (string(spareR[0]) != "sentinel-0" || string(spareR[1]) != "sentinel-1")) || (spareA != nil && (string(spareA[0]) != "sentinel-0" || string(spareA[1]) != "sentinel-1")) {
			fail = "PolicyToOptions wrote behind a list field of the policy message (into the spare capacity of the caller's slice: the next entries of a longer shared list)"
		}
	}
	if fail != "" {
	} else if res == "panic" {
		fail = "crash in PolicyToOptions: " + strings.SplitN(stack, "\n", 2)[0]
	} else if err == nil && policyMalformed(p) {
		fail = "malformed policy converted successfully"
	} else if err == nil && dumpOptions(o) != dumpOptions(literalOptions(p)) {
		fail = "converted options are not the policy's fields: " + dumpOptions(o)
	}
	line := "C14.conv " + polTokens(p)
	r.Emit(line, res, fail, fmt.Sprint(hx.Fnv1a([]byte(line))), err == nil, append(tags, "conv:"+strings.SplitN(res, " ", 2)[0])...)
	if err != nil || res == "panic" {
		return
	}
	for _, q := range quotes {
		var verr error
		vres, vstack := hx.Guard(func() string {
			verr = validate.TdxQuote(q, o)
			if verr != nil {
				return "err"
			}
			return "ok"
		})
		vfail := ""
		if vres == "panic" {
			vfail = "a policy that converted successfully crashed validation: " + strings.SplitN(vstack, "\n", 2)[0]
		} else if structOK(q) {
			ok, mustReject := meets(q, literalOptions(p))
			if verr == nil && mustReject {
				vfail = "verdict under converted options accepts a quote the policy literally rejects (field ignored or crossed)"
			} else if verr != nil && ok {
				vfail = "verdict under converted options rejects a quote the policy literally accepts: " + verr.Error()
			}
		} else if verr == nil {
			vfail = "structurally invalid quote accepted"
		}
		vline := "C14.val " + polTokens(p) + " " + msgTokens(q)
		r.Emit(vline, "conv=ok val="+vres, vfail, fmt.Sprint(hx.Fnv1a([]byte(vline))), true, append(tags, "c14val:"+vres)...)
	}
}

func c14(r *hx.Run) {
	rng := r.Rng(14)
	thorough := r.Tier == "thorough"
	base := valBase(rng)
	t0 := base.TdQuoteBody
	// probe quotes: the base and one mismatching quote per field
	quotes := []*pb.QuoteV4{base}
	for i := 0; i < 7; i++ {
		q := proto.Clone(base).(*pb.QuoteV4)
		switch i {
		case 0:
			q.TdQuoteBody.MrOwner[5] ^= 1
		case 1:
			q.TdQuoteBody.MrOwnerConfig[5] ^= 1
		case 2:
			q.TdQuoteBody.ReportData[63] ^= 1
		case 3:
			q.TdQuoteBody.Rtmrs[3][0] ^= 1
		case 4:
			q.TdQuoteBody.MrTd[0] ^= 1
		case 5:
			q.Header.QeVendorId[0] ^= 1
			q.TdQuoteBody.MrSeam[1] ^= 1
			q.TdQuoteBody.MrConfigId[2] ^= 1
		case 6:
			q.TdQuoteBody.TeeTcbSvn[7]--
			q.Header.PceSvn = []byte{0xfe, 0x00}
		}
		quotes = append(quotes, q)
	}
	full := func() *ccpb.Policy {
		return &ccpb.Policy{
			HeaderPolicy: &ccpb.HeaderPolicy{MinimumQeSvn: 261, MinimumPceSvn: 255, QeVendorId: append([]byte{}, base.Header.QeVendorId...)},
			TdQuoteBodyPolicy: &ccpb.TDQuoteBodyPolicy{MinimumTeeTcbSvn: append([]byte{}, t0.TeeTcbSvn...), MrSeam: append([]byte{}, t0.MrSeam...), TdAttributes: append([]byte{}, t0.TdAttributes...),
				Xfam: append([]byte{}, t0.Xfam...), MrTd: append([]byte{}, t0.MrTd...), MrConfigId: append([]byte{}, t0.MrConfigId...), MrOwner: append([]byte{}, t0.MrOwner...),
				MrOwnerConfig: append([]byte{}, t0.MrOwnerConfig...), Rtmrs: [][]byte{t0.Rtmrs[0], t0.Rtmrs[1], t0.Rtmrs[2], t0.Rtmrs[3]}, ReportData: append([]byte{}, t0.ReportData...),
				AnyMrTd: [][]byte{hx.RandBytes(rng, 48), append([]byte{}, t0.MrTd...)}},
		}
	}
	// the options a conversion returns are the caller's to change: what one caller does to its options (a per-request nonce,
	// a stricter floor) must not show up in what a later conversion returns (harness-only)
	fullOnce := full()
	for i, mk := range []func() *ccpb.Policy{
		func() *ccpb.Policy { return nil },
		func() *ccpb.Policy { return &ccpb.Policy{} },
		func() *ccpb.Policy { return &ccpb.Policy{HeaderPolicy: &ccpb.HeaderPolicy{}, TdQuoteBodyPolicy: &ccpb.TDQuoteBodyPolicy{}} },
		func() *ccpb.Policy { return proto.Clone(fullOnce).(*ccpb.Policy) },
	} {
		obs, fail := "independent", ""
		hx.Guard(func() string {
			o1, err1 := validate.PolicyToOptions(mk())
			if err1 != nil || o1 == nil {
				obs, fail = "err", fmt.Sprintf("conversion failed: %v", err1)
				return ""
			}
			want := dumpOptions(o1)
			o1.TdQuoteBodyOptions.ReportData = bytes.Repeat([]byte{0x5a}, 64)
			o1.HeaderOptions.MinimumQeSvn = 65535
			o1.TdQuoteBodyOptions.MrTd = bytes.Repeat([]byte{0x11}, 48)
			o2, err2 := validate.PolicyToOptions(mk())
			if err2 != nil || o2 == nil {
				obs, fail = "err", fmt.Sprintf("second conversion failed: %v", err2)
			} else if o2 == o1 {
				obs, fail = "shared", "two conversions returned the same *Options"
			} else if got := dumpOptions(o2); got != want {
				obs, fail = "leaked", "a later conversion of the same policy returns options another caller had changed on ITS result: "+got
			}
			return ""
		})
		r.Emit(fmt.Sprintf("# C14.independent policy=%d", i), obs, fail, fmt.Sprintf("independent|%d", i), true, "independent")
	}
	convCase(r, nil, quotes, "nil-policy")
	convCase(r, &ccpb.Policy{}, quotes, "empty-policy")
	convCase(r, &ccpb.Policy{HeaderPolicy: &ccpb.HeaderPolicy{}}, quotes, "absent-sub")
	convCase(r, &ccpb.Policy{TdQuoteBodyPolicy: &ccpb.TDQuoteBodyPolicy{}}, quotes, "absent-sub")
	convCase(r, full(), quotes, "full")
	type pf struct {
		name string
		size int
		ptr  func(p *ccpb.Policy) *[]byte
	}
	fields := []pf{
		{"qe_vendor_id", 16, func(p *ccpb.Policy) *[]byte { return &p.HeaderPolicy.QeVendorId }},
		{"minimum_tee_tcb_svn", 16, func(p *ccpb.Policy) *[]byte { return &p.TdQuoteBodyPolicy.MinimumTeeTcbSvn }},
		{"mr_seam", 48, func(p *ccpb.Policy) *[]byte { return &p.TdQuoteBodyPolicy.MrSeam }},
		{"td_attributes", 8, func(p *ccpb.Policy) *[]byte { return &p.TdQuoteBodyPolicy.TdAttributes }},
		{"xfam", 8, func(p *ccpb.Policy) *[]byte { return &p.TdQuoteBodyPolicy.Xfam }},
		{"mr_td", 48, func(p *ccpb.Policy) *[]byte { return &p.TdQuoteBodyPolicy.MrTd }},
		{"mr_config_id", 48, func(p *ccpb.Policy) *[]byte { return &p.TdQuoteBodyPolicy.MrConfigId }},
		{"mr_owner", 48, func(p *ccpb.Policy) *[]byte { return &p.TdQuoteBodyPolicy.MrOwner }},
		{"mr_owner_config", 48, func(p *ccpb.Policy) *[]byte { return &p.TdQuoteBodyPolicy.MrOwnerConfig }},
		{"report_data", 64, func(p *ccpb.Policy) *[]byte { return &p.TdQuoteBodyPolicy.ReportData }},
	}
	// each field independently {absent, empty, right size (equal / different), one short, one long, 1 byte}, alone and inside the full policy
	for _, f := range fields {
		for _, inFull := range []bool{false, true} {
			for v := 0; v < 7; v++ {
				p := &ccpb.Policy{HeaderPolicy: &ccpb.HeaderPolicy{}, TdQuoteBodyPolicy: &ccpb.TDQuoteBodyPolicy{}}
				if inFull {
					p = full()
				}
				cur := *f.ptr(full())
				var val []byte
				switch v {
				case 0:
					val = nil
				case 1:
					val = []byte{}
				case 2:
					val = cur
				case 3:
					val = append([]byte{}, cur...)
					val[len(val)-1] ^= 0x40
				case 4:
					val = cur[:f.size-1]
				case 5:
					val = append(append([]byte{}, cur...), 7)
				case 6:
					val = []byte{0}
				}
				*f.ptr(p) = val
				convCase(r, p, quotes, "field:"+f.name)
			}
		}
	}
	for _, v := range []uint32{0, 261, 262, 65535, 65536, 1<<32 - 1} {
		p := full()
		p.HeaderPolicy.MinimumQeSvn = v
		convCase(r, p, quotes[:2], "svn-range")
		p = full()
		p.HeaderPolicy.MinimumPceSvn = v
		convCase(r, p, quotes[:2], "svn-range")
	}
	for n := 0; n <= 5; n++ {
		for _, kind := range []string{"equal", "empty-entries", "short-entry", "wrong"} {
			var l [][]byte
			for i := 0; i < n; i++ {
				e := append([]byte{}, t0.Rtmrs[i%4]...)
				switch kind {
				case "empty-entries":
					if i%2 == 0 {
						e = nil
					}
				case "short-entry":
					if i == n-1 {
						e = e[:47]
					}
				case "wrong":
					if i == n-1 {
						e[0] ^= 1
					}
				}
				l = append(l, e)
			}
			p := &ccpb.Policy{TdQuoteBodyPolicy: &ccpb.TDQuoteBodyPolicy{Rtmrs: l}}
			convCase(r, p, quotes[:5], "rtmrs")
		}
	}
	for n := 0; n <= 4; n++ {
		for pos := -1; pos < n; pos++ {
			for _, special := range []string{"", "short", "empty"} {
				var l [][]byte
				for i := 0; i < n; i++ {
					e := hx.RandBytes(rng, 48)
					if i == pos {
						e = append([]byte{}, t0.MrTd...)
					}
					l = append(l, e)
				}
				if special != "" && n > 0 {
					k := (pos + 1 + n) % n
					if special == "short" {
						l[k] = l[k][:20]
					} else {
						l[k] = nil
					}
				}
				convCase(r, &ccpb.Policy{TdQuoteBodyPolicy: &ccpb.TDQuoteBodyPolicy{AnyMrTd: l}}, quotes[:6], "anymrtd")
			}
		}
	}
	// every composition of a 4-entry rtmrs list and of any_mr_td lists up to length 3 out of {empty, right, other content, short, long}:
	// a wrong-sized entry must fail the conversion wherever it stands relative to empty entries
	entry := func(kind int, right []byte) []byte {
		switch kind {
		case 0:
			return nil
		case 1:
			return append([]byte{}, right...)
		case 2:
			e := append([]byte{}, right...)
			e[7] ^= 0x10
			return e
		case 3:
			return append([]byte{}, right[:47]...)
		case 5: // twice the size: two values glued together
			return append(append([]byte{}, right...), right...)
		case 6: // three times the size
			return append(append(append([]byte{}, right...), right...), right...)
		case 7: // half the size
			return append([]byte{}, right[:24]...)
		}
		return append(append([]byte{}, right...), 9)
	}
	// entries whose wrong length is a multiple or a divisor of the right one, at each position of lists of length 1..4
	for n := 1; n <= 4; n++ {
		for pos := 0; pos < n; pos++ {
			for kind := 5; kind <= 7; kind++ {
				for _, others := range []int{0, 1, 2} {
					var lr, la [][]byte
					for i := 0; i < n; i++ {
						k := others
						if i == pos {
							k = kind
						}
						lr = append(lr, entry(k, t0.Rtmrs[i%4]))
						la = append(la, entry(k, t0.MrTd))
					}
					convCase(r, &ccpb.Policy{TdQuoteBodyPolicy: &ccpb.TDQuoteBodyPolicy{Rtmrs: lr}}, quotes[:2], "rtmrs-multiple-length")
					convCase(r, &ccpb.Policy{TdQuoteBodyPolicy: &ccpb.TDQuoteBodyPolicy{AnyMrTd: la}}, quotes[:2], "anymrtd-multiple-length")
				}
			}
		}
	}
	// single byte-string fields of twice / three times / half the size
	for _, f := range fields {
		cur := *f.ptr(full())
		for _, val := range [][]byte{append(append([]byte{}, cur...), cur...), append(append(append([]byte{}, cur...), cur...), cur...), cur[:f.size/2], make([]byte, 4*f.size)} {
			p := &ccpb.Policy{HeaderPolicy: &ccpb.HeaderPolicy{}, TdQuoteBodyPolicy: &ccpb.TDQuoteBodyPolicy{}}
			*f.ptr(p) = val
			convCase(r, p, quotes[:2], "field-multiple-length:"+f.name)
		}
	}
	// minimum TEE TCB SVN against the quote's, component by component: one component above the quote's and another below it,
	// in both orders (a minimum is met only if EVERY component is), plus single components moved
	for i := 0; i < 16; i++ {
		for j := 0; j < 16; j++ {
			min := append([]byte{}, t0.TeeTcbSvn...)
			if i == j {
				for _, d := range []int{-1, 1} {
					m := append([]byte{}, min...)
					if v := int(m[i]) + d; v >= 0 && v <= 255 {
						m[i] = byte(v)
						convCase(r, &ccpb.Policy{TdQuoteBodyPolicy: &ccpb.TDQuoteBodyPolicy{MinimumTeeTcbSvn: m}}, quotes[:1], "min-tee-tcb-svn:one-component")
					}
				}
				continue
			}
			if min[i] == 255 || min[j] == 0 || (!thorough && (i+3*j)%5 != 0) {
				continue
			}
			min[i]++
			min[j]--
			convCase(r, &ccpb.Policy{TdQuoteBodyPolicy: &ccpb.TDQuoteBodyPolicy{MinimumTeeTcbSvn: min}}, quotes[:1], "min-tee-tcb-svn:mixed-directions")
		}
	}
	for c := 0; c < 625; c++ {
		var l [][]byte
		for i, k := 0, c; i < 4; i, k = i+1, k/5 {
			l = append(l, entry(k%5, t0.Rtmrs[i]))
		}
		convCase(r, &ccpb.Policy{TdQuoteBodyPolicy: &ccpb.TDQuoteBodyPolicy{Rtmrs: l}}, quotes[:1], "rtmrs-grid")
	}
	for n := 1; n <= 3; n++ {
		tot := 1
		for i := 0; i < n; i++ {
			tot *= 5
		}
		for c := 0; c < tot; c++ {
			var l [][]byte
			for i, k := 0, c; i < n; i, k = i+1, k/5 {
				l = append(l, entry(k%5, t0.MrTd))
			}
			convCase(r, &ccpb.Policy{TdQuoteBodyPolicy: &ccpb.TDQuoteBodyPolicy{AnyMrTd: l}}, quotes[:1], "anymrtd-grid")
		}
	}
	// one sub-policy absent (nil message), the other carrying one field in each of its variants
	for _, f := range fields {
		for v := 2; v < 7; v++ {
			p := &ccpb.Policy{HeaderPolicy: &ccpb.HeaderPolicy{}, TdQuoteBodyPolicy: &ccpb.TDQuoteBodyPolicy{}}
			cur := *f.ptr(full())
			val := cur
			switch v {
			case 3:
				val = append([]byte{}, cur...)
				val[len(val)-1] ^= 0x40
			case 4:
				val = cur[:f.size-1]
			case 5:
				val = append(append([]byte{}, cur...), 7)
			case 6:
				val = []byte{0}
			}
			*f.ptr(p) = val
			if f.name == "qe_vendor_id" {
				p.TdQuoteBodyPolicy = nil
			} else {
				p.HeaderPolicy = nil
			}
			convCase(r, p, quotes[:2], "other-sub-nil:"+f.name)
		}
	}
	for _, v := range []uint32{261, 65535, 65536, 70000} {
		convCase(r, &ccpb.Policy{HeaderPolicy: &ccpb.HeaderPolicy{MinimumQeSvn: v}}, quotes[:2], "other-sub-nil:qesvn")
		convCase(r, &ccpb.Policy{HeaderPolicy: &ccpb.HeaderPolicy{MinimumPceSvn: v}}, quotes[:2], "other-sub-nil:pcesvn")
	}
	// random policies
	n := 150
	if thorough {
		n = 5000
	}
	for i := 0; i < n; i++ {
		p := full()
		for _, f := range fields {
			switch rng.IntN(6) {
			case 0:
				*f.ptr(p) = nil
			case 1:
				b := append([]byte{}, (*f.ptr(p))...)
				b[rng.IntN(len(b))] ^= byte(1 + rng.IntN(255))
				*f.ptr(p) = b
			case 2:
				if rng.IntN(4) == 0 {
					*f.ptr(p) = hx.RandBytes(rng, rng.IntN(70))
				}
			}
		}
		if rng.IntN(3) == 0 {
			p.TdQuoteBodyPolicy.Rtmrs = nil
		}
		if rng.IntN(3) == 0 {
			p.TdQuoteBodyPolicy.AnyMrTd = nil
		}
		if rng.IntN(5) == 0 {
			p.HeaderPolicy = nil
		}
		if rng.IntN(4) == 0 {
			p.HeaderPolicy.GetMinimumQeSvn()
			if p.HeaderPolicy != nil {
				p.HeaderPolicy.MinimumQeSvn = uint32(rng.IntN(70000))
			}
		}
		convCase(r, p, quotes, "random")
	}
}
