package main

// C03 — collateral counts only if authentically signed.
//
// Every case is honestSpec(rng) + ONE fault on the TCB Info or on the QE Identity response (member bytes, signature,
// issuer-chain header, signer / root certificates, member list of the body, document id / version / levels).
//
// The oracle works on what is ON THE WIRE (the scripted getter's headers and body) with the Go standard library only:
//   (1) the response must carry exactly one issuer-chain header value holding signer ‖ root; crypto/x509 says: signer CN
//       "Intel SGX TCB Signing", root CN "Intel SGX Root CA", root self-signed, signer issued by it, signer chains to the
//       LISTED roots; some member's exact raw bytes verify (crypto/ecdsa) under the signer's key with a signature string
//       of the same body;
//   (2) the values that may drive the verdict are those of such a member ALONE: the oracle decodes that member with its own
//       decoder, demands id / version / non-empty levels / nextUpdate, and re-decides C04 (intelTcb) and C07 (intelQe).
// accepted ∧ ¬(1) or accepted ∧ ¬(2) is a violation.  Unsigned members never enter (2), under any spelling.

import (
	pb "github.com/google/go-tdx-guest/proto/tdx"
	"github.com/google/go-tdx-guest/verify"
	"google.golang.org/protobuf/proto"
	"github.com/google/go-tdx-guest/pcs"
	"bytes"
	"crypto/ecdsa"
	"crypto/sha256"
	"crypto/x509"
	"encoding/hex"
	"encoding/json"
	"encoding/pem"
	"fmt"
	"io"
	"math/big"
	"math/rand/v2"
	"net/url"
	"strings"
	"time"

	"tdxharness/hx"
	"tdxharness/world"
)

func init() { drivers["C03"] = func(r *hx.Run) { c03(r); c03SampleForged(r) } }

// ------------------------------------------------------------------------------------------ oracle: own JSON reading

type oMember struct {
	key string
	raw []byte
}

// oMembers: the top-level members of a JSON object body, in order, duplicates included, with their exact raw bytes.
func oMembers(body []byte) ([]oMember, bool) {
	dec := json.NewDecoder(bytes.NewReader(body))
	t, err := dec.Token()
	if d, ok := t.(json.Delim); err != nil || !ok || d != '{' {
		return nil, false
	}
	var out []oMember
	for dec.More() {
		kt, err := dec.Token()
		if err != nil {
			return nil, false
		}
		k, ok := kt.(string)
		if !ok {
			return nil, false
		}
		var raw json.RawMessage
		if err := dec.Decode(&raw); err != nil {
			return nil, false
		}
		out = append(out, oMember{k, append([]byte{}, raw...)})
	}
	if t, err := dec.Token(); err != nil || t != json.Delim('}') {
		return nil, false
	}
	if _, err := dec.Token(); err != io.EOF {
		return nil, false
	}
	return out, true
}

func jObj(raw []byte) (map[string]any, bool) {
	dec := json.NewDecoder(bytes.NewReader(raw))
	dec.UseNumber()
	var v any
	if err := dec.Decode(&v); err != nil {
		return nil, false
	}
	m, ok := v.(map[string]any)
	return m, ok
}

type jr struct{ bad string } // reader with sticky error

func (r *jr) fail(f string, a ...any) {
	if r.bad == "" {
		r.bad = fmt.Sprintf(f, a...)
	}
}

func (r *jr) str(m map[string]any, k string) string {
	v, ok := m[k]
	if !ok {
		return ""
	}
	s, ok := v.(string)
	if !ok {
		r.fail("member %q is not a string", k)
	}
	return s
}

func (r *jr) num(m map[string]any, k string) int {
	v, ok := m[k]
	if !ok {
		return 0
	}
	n, ok := v.(json.Number)
	if !ok {
		r.fail("member %q is not a number", k)
		return 0
	}
	i, err := n.Int64()
	if err != nil {
		r.fail("member %q is not an integer", k)
	}
	return int(i)
}

func (r *jr) obj(m map[string]any, k string) map[string]any {
	v, ok := m[k]
	if !ok {
		return map[string]any{}
	}
	o, ok := v.(map[string]any)
	if !ok {
		r.fail("member %q is not an object", k)
		return map[string]any{}
	}
	return o
}

func (r *jr) arr(m map[string]any, k string) []any {
	v, ok := m[k]
	if !ok || v == nil {
		return nil
	}
	a, ok := v.([]any)
	if !ok {
		r.fail("member %q is not an array", k)
	}
	return a
}

func (r *jr) hexs(m map[string]any, k string) []byte {
	s := r.str(m, k)
	b, err := hex.DecodeString(s)
	if err != nil {
		r.fail("member %q is not a hex string", k)
	}
	return b
}

func (r *jr) tm(m map[string]any, k string) time.Time {
	s := r.str(m, k)
	t, err := time.Parse(time.RFC3339, s)
	if err != nil {
		r.fail("member %q is not a time", k)
	}
	return t
}

func (r *jr) svns(m map[string]any, k string) []int {
	var out []int
	for _, e := range r.arr(m, k) {
		o, ok := e.(map[string]any)
		if !ok {
			r.fail("component in %q is not an object", k)
			return out
		}
		out = append(out, r.num(o, "svn"))
	}
	return out
}

func (r *jr) levels(m map[string]any, k string) []oLv {
	var out []oLv
	for _, e := range r.arr(m, k) {
		o, ok := e.(map[string]any)
		if !ok {
			r.fail("level in %q is not an object", k)
			return out
		}
		tcb := r.obj(o, "tcb")
		out = append(out, oLv{sgx: r.svns(tcb, "sgxtcbcomponents"), tdx: r.svns(tcb, "tdxtcbcomponents"), pce: r.num(tcb, "pcesvn"), isvsvn: r.num(tcb, "isvsvn"), status: r.str(o, "tcbStatus")})
	}
	return out
}

// oDecodeTcb reads a TCB Info document from the bytes of ONE member, exact key spellings only.
func oDecodeTcb(raw []byte) *oTcbDoc {
	m, ok := jObj(raw)
	if !ok {
		return &oTcbDoc{bad: "not a JSON object"}
	}
	r := &jr{}
	d := &oTcbDoc{id: r.str(m, "id"), version: r.num(m, "version"), next: r.tm(m, "nextUpdate"), fmspc: r.str(m, "fmspc"), pceid: r.str(m, "pceId")}
	mod := r.obj(m, "tdxModule")
	d.mrs, d.attr, d.mask = r.hexs(mod, "mrsigner"), r.hexs(mod, "attributes"), r.hexs(mod, "attributesMask")
	for _, e := range r.arr(m, "tdxModuleIdentities") {
		o, ok := e.(map[string]any)
		if !ok {
			r.fail("module identity is not an object")
			break
		}
		d.mods = append(d.mods, oMod{id: r.str(o, "id"), levels: r.levels(o, "tcbLevels")})
	}
	d.levels = r.levels(m, "tcbLevels")
	d.bad = r.bad
	return d
}

func oDecodeQe(raw []byte) *oQeDoc {
	m, ok := jObj(raw)
	if !ok {
		return &oQeDoc{bad: "not a JSON object"}
	}
	r := &jr{}
	d := &oQeDoc{id: r.str(m, "id"), version: r.num(m, "version"), next: r.tm(m, "nextUpdate"), prod: r.num(m, "isvprodid")}
	d.misc, d.miscMask = r.hexs(m, "miscselect"), r.hexs(m, "miscselectMask")
	d.attr, d.attrMask = r.hexs(m, "attributes"), r.hexs(m, "attributesMask")
	d.mrs = r.hexs(m, "mrsigner")
	d.levels = r.levels(m, "tcbLevels")
	d.bad = r.bad
	return d
}

// ------------------------------------------------------------------------------------------ oracle: authenticity

// oIssuerChain: the signer and root certificate a response names (exactly one header value: signer first, root second).
func oIssuerChain(h map[string][]string, key string) (signer, root *x509.Certificate, why string) {
	vals, ok := h[key]
	if !ok {
		return nil, nil, "the response has no issuer-chain header"
	}
	if len(vals) != 1 {
		return nil, nil, fmt.Sprintf("the issuer-chain header has %d values (the issuer chain of the response is not unique)", len(vals))
	}
	un, err := url.QueryUnescape(vals[0])
	if err != nil {
		return nil, nil, "the issuer-chain header is not URL-decodable"
	}
	var certs []*x509.Certificate
	rest := []byte(un)
	for len(certs) < 2 {
		blk, r := pem.Decode(rest)
		if blk == nil {
			break
		}
		if blk.Type != "CERTIFICATE" {
			return nil, nil, fmt.Sprintf("issuer-chain block %d has PEM type %q", len(certs), blk.Type)
		}
		c, err := x509.ParseCertificate(blk.Bytes)
		if err != nil {
			return nil, nil, fmt.Sprintf("issuer-chain block %d is not a certificate", len(certs))
		}
		certs = append(certs, c)
		rest = r
	}
	if len(certs) < 2 {
		return nil, nil, fmt.Sprintf("the issuer-chain header carries %d certificate(s), not signer and root", len(certs))
	}
	return certs[0], certs[1], ""
}

// oSignerFacts: the certificate facts of the statement, with crypto/x509 directly.
func oSignerFacts(signer, root *x509.Certificate, roots *x509.CertPool, now time.Time) string {
	if signer.Subject.CommonName != "Intel SGX TCB Signing" {
		return fmt.Sprintf("the signing certificate is named %q, not 'Intel SGX TCB Signing'", signer.Subject.CommonName)
	}
	if root.Subject.CommonName != "Intel SGX Root CA" {
		return fmt.Sprintf("the issuer-chain root is named %q, not 'Intel SGX Root CA'", root.Subject.CommonName)
	}
	if !bytes.Equal(root.RawIssuer, root.RawSubject) || root.CheckSignatureFrom(root) != nil {
		return "the issuer-chain root is not self-signed"
	}
	if !bytes.Equal(signer.RawIssuer, root.RawSubject) || signer.CheckSignatureFrom(root) != nil {
		return "the signing certificate is not issued by the issuer-chain root"
	}
	if _, err := signer.Verify(x509.VerifyOptions{Roots: roots, CurrentTime: now, KeyUsages: []x509.ExtKeyUsage{x509.ExtKeyUsageAny}}); err != nil {
		return "the signing certificate does not chain to the trusted roots"
	}
	return ""
}

func oSigOK(cert *x509.Certificate, msg []byte, sigHex string) bool {
	sb, err := hex.DecodeString(sigHex)
	if err != nil || len(sb) != 64 {
		return false
	}
	pub, ok := cert.PublicKey.(*ecdsa.PublicKey)
	if !ok {
		return false
	}
	h := sha256.Sum256(msg)
	return ecdsa.Verify(pub, h[:], new(big.Int).SetBytes(sb[:32]), new(big.Int).SetBytes(sb[32:]))
}

func c03ListedRoots(w *world.World) *x509.CertPool {
	p := x509.NewCertPool()
	if w.Spec.PoolNil {
		p.AddCert(world.EmbeddedRoot)
		return p
	}
	for _, c := range w.PoolCerts {
		p.AddCert(c)
	}
	return p
}

// c3Resp judges one response.  signedDocs: the raw members the response authenticates.  unsignedAlike: keys of members that are
// NOT authenticated but spell (under Unicode simple folding) like the member name.
func c3Resp(w *world.World, u, hdrKey, name string, now time.Time) (signedDocs [][]byte, unsignedAlike []string, why string) {
	resp := w.Getter.M[u]
	if resp == nil || resp.Err {
		return nil, nil, "the " + name + " response could not be fetched"
	}
	signer, root, why := oIssuerChain(resp.Headers, hdrKey)
	if why != "" {
		return nil, nil, why
	}
	if f := oSignerFacts(signer, root, c03ListedRoots(w), now); f != "" {
		return nil, nil, f
	}
	members, ok := oMembers(resp.Body)
	if !ok {
		return nil, nil, "the " + name + " response body is not a JSON object"
	}
	var sigs []string
	for _, m := range members {
		var s string
		if len(m.raw) > 0 && m.raw[0] == '"' && json.Unmarshal(m.raw, &s) == nil {
			sigs = append(sigs, s)
		}
	}
	authentic := make([]bool, len(members))
	for i, m := range members {
		for _, s := range sigs {
			if oSigOK(signer, m.raw, s) {
				authentic[i] = true
				signedDocs = append(signedDocs, m.raw)
				break
			}
		}
	}
	for i, m := range members {
		if !authentic[i] && strings.EqualFold(m.key, name) {
			unsignedAlike = append(unsignedAlike, m.key)
		}
	}
	if len(signedDocs) == 0 {
		return nil, unsignedAlike, "no member of the " + name + " response verifies under the response's signature with the key of the header's signing certificate"
	}
	return signedDocs, unsignedAlike, ""
}

// c3Judge: may this world be accepted according to the statement?  (why: first reason it may not; f6: the values of the
// signed member demand rejection while an unsigned look-alike member is present.)
func c3Judge(w *world.World) (ok bool, why string, f6 bool) {
	s := w.Spec
	var now [5]time.Time
	if s.Now != nil {
		now = *s.Now
	} else {
		t := time.Now()
		now = [5]time.Time{t, t, t, t, t}
	}
	// TCB Info
	docs, alike, y := c3Resp(w, w.TcbURL, world.HdrTcb, "tcbInfo", now[1])
	if y != "" {
		return false, "TCB Info: " + y, false
	}
	best := ""
	for _, raw := range docs {
		d := oDecodeTcb(raw)
		r := ""
		switch {
		case d.bad != "":
			r = "the signed tcbInfo member is unreadable: " + d.bad
		case d.id != "TDX" || d.version != 3:
			r = fmt.Sprintf("the signed tcbInfo member has id %q version %d, not TDX/3", d.id, d.version)
		case len(d.levels) == 0:
			r = "the signed tcbInfo member has an empty level list"
		case now[1].After(d.next):
			r = "the signed tcbInfo member's nextUpdate has passed"
		default:
			if v := intelTcb(d, platOf(s)); !v.ok {
				r = "by the signed tcbInfo member, " + v.why
			}
		}
		if r == "" {
			best = ""
			break
		}
		best = r
	}
	if best != "" {
		if len(alike) > 0 {
			return false, fmt.Sprintf("%s; the response also carries the unsigned member(s) %q, whose values must not count", best, alike), true
		}
		return false, best, false
	}
	// QE Identity
	docs, alike, y = c3Resp(w, w.QeURL, world.HdrQe, "enclaveIdentity", now[2])
	if y != "" {
		return false, "QE Identity: " + y, false
	}
	for _, raw := range docs {
		d := oDecodeQe(raw)
		r := ""
		switch {
		case d.bad != "":
			r = "the signed enclaveIdentity member is unreadable: " + d.bad
		case d.id != "TD_QE" || d.version != 2:
			r = fmt.Sprintf("the signed enclaveIdentity member has id %q version %d, not TD_QE/2", d.id, d.version)
		case len(d.levels) == 0:
			r = "the signed enclaveIdentity member has an empty level list"
		case now[2].After(d.next):
			r = "the signed enclaveIdentity member's nextUpdate has passed"
		default:
			if v := intelQe(d, qeRepOf(s)); !v.ok {
				r = "by the signed enclaveIdentity member, " + v.why
			}
		}
		if r == "" {
			best = ""
			break
		}
		best = r
	}
	if best != "" {
		if len(alike) > 0 {
			return false, fmt.Sprintf("%s; the response also carries the unsigned member(s) %q, whose values must not count", best, alike), true
		}
		return false, best, false
	}
	return true, "", false
}

func c3Oracle(w *world.World, vr vResult) string {
	if !vr.accepted || !w.Spec.GC {
		return ""
	}
	ok, why, f6 := c3Judge(w)
	if ok {
		return ""
	}
	if f6 {
		return "F6-shape: accepted on values that are not those of the signed member: " + why
	}
	return "accepted although " + why
}

func c3AccOK(w *world.World) bool { ok, _, _ := c3Judge(w); return ok }

// ------------------------------------------------------------------------------------------ generator

type c3Fault struct {
	name  string
	need  int // -1: any; 0: TEE_TCB_SVN[1] must be 0; 1: must be non-zero
	apply func(rng *rand.Rand, s *world.Spec, q bool)
}

func respOf(s *world.Spec, q bool) (*world.RespSpec, string) {
	if q {
		return &s.QeResp, "enclaveIdentity"
	}
	return &s.TcbResp, "tcbInfo"
}

func addCert(s *world.Spec, c *world.CertSpec) {
	root := s.Cert("root")
	if c.Serial == nil {
		c.Serial = big.NewInt(int64(2000 + len(s.Certs)))
	}
	c.NotBefore, c.NotAfter = root.NotBefore, root.NotAfter
	s.Certs = append(s.Certs, c)
}

// the index of the platform level / QE level the honest document selects
func honestTcbIdx(s *world.Spec) int { return len(s.Tcb.Levels) - 2 }

func badTcb(d world.TcbDoc) world.TcbDoc { // the selected platform level AND the selected module level are OutOfDate
	d.Levels = append([]world.Level{}, d.Levels...)
	d.Levels[len(d.Levels)-2].Status = "OutOfDate"
	ids := append([]world.ModIdentity{}, d.Identities...)
	last := ids[len(ids)-1]
	last.Levels = append([]world.ModLevel{}, last.Levels...)
	last.Levels[1].Status = "OutOfDate"
	ids[len(ids)-1] = last
	d.Identities = ids
	return d
}

func badQe(d world.QeDoc) world.QeDoc {
	d.Levels = append([]world.QeLevel{}, d.Levels...)
	d.Levels[1].Status = "OutOfDate"
	return d
}

func onlyKey(doc []byte, key string) []byte {
	var m map[string]json.RawMessage
	if err := json.Unmarshal(doc, &m); err != nil {
		panic(err)
	}
	b, _ := json.Marshal(map[string]json.RawMessage{key: m[key]})
	return b
}

var foldPairs = [][2]string{{`"tcbLevels"`, `"tcbLevelſ"`}, {`"tcbStatus"`, `"tcbſtatus"`}, {`"attributesMask"`, `"attributeſMaſK"`}, {`"miscselectMask"`, `"miſcſelectMaſK"`},
	{`"miscselect"`, `"miſcſelect"`}, {`"attributes"`, `"attributeſ"`}, {`"isvsvn"`, `"iſvſvn"`}, {`"mrsigner"`, `"mrſigner"`}, {`"pcesvn"`, `"pceſvn"`},
	{`"sgxtcbcomponents"`, `"ſgxtcbcomponentſ"`}, {`"tdxtcbcomponents"`, `"tdxtcbcomponentſ"`}, {`"svn"`, `"ſvn"`}, {`"version"`, `"verſion"`}, {`"tdxModuleIdentities"`, `"tdxModuleIdentitieſ"`},
	{`"isvprodid"`, `"iſvprodid"`}, {`"tcb"`, `"TCB"`}, {`"id"`, `"ID"`}, {`"nextUpdate"`, `"NEXTUPDATE"`}, {`"tdxModule"`, `"TDXMODULE"`}}

func foldNested(doc []byte) []byte {
	for _, p := range foldPairs {
		doc = bytes.ReplaceAll(doc, []byte(p[0]+":"), []byte(p[1]+":"))
	}
	return doc
}

func spell(name, how string) string {
	switch how {
	case "exact":
		return name
	case "UPPER", "UPPER+nested-fold":
		return strings.ToUpper(name)
	case "lower":
		return strings.ToLower(name)
	case "MiXed":
		b := []byte(name)
		for i := range b {
			if i%2 == 0 {
				b[i] = strings.ToUpper(string(b[i]))[0]
			} else {
				b[i] = strings.ToLower(string(b[i]))[0]
			}
		}
		return string(b)
	case "long-s": // U+017F for s
		return strings.Replace(name, "s", "ſ", 1)
	case "long-s-UPPER":
		return strings.Replace(strings.ToUpper(name), "S", "ſ", 1)
	case "kelvin": // U+212A for k (only nested keys have a k)
		return strings.Replace(name, "k", "K", 1)
	}
	panic("spelling " + how)
}

// altKinds for the document member: what the signed and the unsigned document are
var c3AltKinds = []string{"complete-better", "complete-worse", "partial-levels", "partial-second", "partial-nextUpdate", "signed-has-other-id", "signed-has-other-version"}

// setAlt installs the signed document and the alternative for one alt kind; returns the TEE_TCB_SVN[1] need.
func altNeed(kind string, q bool) int {
	if q {
		return -1
	}
	switch kind {
	case "partial-levels":
		return 0 // with TEE_TCB_SVN[1] != 0 the pinned tree ignores the platform status anyway (F4): keep the two findings apart
	case "partial-second":
		return 1
	}
	return -1
}

func setAlt(s *world.Spec, q bool, kind string) []byte {
	if q {
		good := s.Qe
		switch kind {
		case "complete-better":
			s.Qe = badQe(good)
			return good.JSON()
		case "complete-worse":
			bad := badQe(good)
			return bad.JSON()
		case "signed-has-other-id": // a genuinely signed document of another kind (the SGX QE's identity); the look-alike claims the TD QE
			s.Qe.ID = "QE"
			return good.JSON()
		case "signed-has-other-version":
			s.Qe.Version = good.Version - 1
			return good.JSON()
		case "partial-levels":
			s.Qe = badQe(good)
			return onlyKey(good.JSON(), "tcbLevels")
		case "partial-second": // only mrsigner
			b, _ := hex.DecodeString(good.Mrsigner)
			b[5] ^= 0x20
			s.Qe.Mrsigner = hex.EncodeToString(b)
			return onlyKey(good.JSON(), "mrsigner")
		default:
			s.Qe.NextUpdate = s.Now[2].Add(-2 * time.Hour)
			return onlyKey(good.JSON(), "nextUpdate")
		}
	}
	good := s.Tcb
	switch kind {
	case "complete-better":
		s.Tcb = badTcb(good)
		return good.JSON()
	case "complete-worse":
		bad := badTcb(good)
		return bad.JSON()
	case "signed-has-other-id": // a genuinely signed TCB Info of another kind (SGX); the look-alike claims TDX
		s.Tcb.ID = "SGX"
		return good.JSON()
	case "signed-has-other-version":
		s.Tcb.Version = good.Version - 1
		return good.JSON()
	case "partial-levels":
		s.Tcb.Levels = append([]world.Level{}, good.Levels...)
		s.Tcb.Levels[honestTcbIdx(s)].Status = "OutOfDate"
		return onlyKey(good.JSON(), "tcbLevels")
	case "partial-second": // only tdxModuleIdentities: the signed document's module level is OutOfDate, its platform level fine
		bad := badTcb(good)
		s.Tcb.Identities = bad.Identities
		return onlyKey(good.JSON(), "tdxModuleIdentities")
	default:
		s.Tcb.NextUpdate = s.Now[1].Add(-2 * time.Hour)
		return onlyKey(good.JSON(), "nextUpdate")
	}
}

func flipBitAt(b []byte, bit int) []byte {
	if len(b) == 0 {
		return b
	}
	bit %= len(b) * 8
	b[bit/8] ^= 1 << (bit % 8)
	return b
}

func c3Structured() []c3Fault {
	var fs []c3Fault
	add := func(name string, need int, f func(rng *rand.Rand, s *world.Spec, q bool)) {
		fs = append(fs, c3Fault{name, need, f})
	}

	// ---- unsigned extra / duplicate members (the F6 family first: its plainest form is the first recorded failure)
	for _, kind := range c3AltKinds {
		for _, pos := range []string{"after", "before", "between"} {
			for _, sp := range []string{"UPPER", "exact", "MiXed", "lower", "UPPER+nested-fold"} {
				kind, pos, sp := kind, pos, sp
				add("alt-doc:"+kind+"/"+sp+"/"+pos, -2, func(rng *rand.Rand, s *world.Spec, q bool) {
					r, name := respOf(s, q)
					r.AltJSON = setAlt(s, q, kind)
					if sp == "UPPER+nested-fold" {
						r.AltJSON = foldNested(r.AltJSON)
					}
					alt := world.Member{Key: spell(name, sp), Kind: "alt"}
					signed, sig := world.Member{Key: name, Kind: "signed"}, world.Member{Key: "signature", Kind: "sig"}
					switch pos {
					case "after":
						r.Members = []world.Member{signed, sig, alt}
					case "before":
						r.Members = []world.Member{alt, signed, sig}
					default:
						r.Members = []world.Member{signed, alt, sig}
					}
				})
			}
		}
	}
	// the signed document omits a member (older schema); an unsigned look-alike BEFORE it supplies one: Go's struct decoding merges
	add("alt-doc:signed-omits-identities/exact/before", 1, func(rng *rand.Rand, s *world.Spec, q bool) {
		r, name := respOf(s, q)
		var full map[string]json.RawMessage
		if q {
			good := s.Qe
			json.Unmarshal(good.JSON(), &full)
			r.AltJSON = onlyKey(good.JSON(), "tcbLevels")
			delete(full, "tcbLevels")
		} else {
			good := s.Tcb
			json.Unmarshal(good.JSON(), &full)
			r.AltJSON = onlyKey(good.JSON(), "tdxModuleIdentities")
			delete(full, "tdxModuleIdentities")
		}
		doc, _ := json.Marshal(full)
		sig := hex.EncodeToString(world.RawSig(s.Keys[r.SignKey], doc))
		r.Members = []world.Member{{Key: name, Kind: "alt"}, {Key: name, Kind: "raw", Raw: string(doc)}, {Key: "signature", Kind: "raw", Raw: `"` + sig + `"`}}
	})
	for _, pos := range []string{"after", "before"} {
		for _, sp := range []string{"exact", "UPPER", "MiXed", "long-s", "long-s-UPPER"} {
			for _, val := range []string{"zeros", "random", "number", "null", "empty"} {
				pos, sp, val := pos, sp, val
				add("alt-signature:"+val+"/"+sp+"/"+pos, -1, func(rng *rand.Rand, s *world.Spec, q bool) {
					r, name := respOf(s, q)
					raw := ""
					switch val {
					case "zeros":
						raw = `"` + strings.Repeat("00", 64) + `"`
					case "random":
						raw = `"` + hexN(rng, 64) + `"`
					case "number":
						raw = "12345"
					case "null":
						raw = "null"
					default:
						raw = `""`
					}
					alt := world.Member{Key: spell("signature", sp), Kind: "raw", Raw: raw}
					signed, sig := world.Member{Key: name, Kind: "signed"}, world.Member{Key: "signature", Kind: "sig"}
					if pos == "after" {
						r.Members = []world.Member{signed, sig, alt}
					} else {
						r.Members = []world.Member{alt, signed, sig}
					}
				})
			}
		}
	}
	add("members:genuine-signature-under-long-s-key", -1, func(rng *rand.Rand, s *world.Spec, q bool) { // no alteration of signed bytes or signature: acceptance is allowed
		r, name := respOf(s, q)
		r.Members = []world.Member{{Key: name, Kind: "signed"}, {Key: "ſignature", Kind: "sig"}}
	})
	add("members:genuine-document-under-UPPER-key-only", -1, func(rng *rand.Rand, s *world.Spec, q bool) {
		r, name := respOf(s, q)
		r.Members = []world.Member{{Key: strings.ToUpper(name), Kind: "signed"}, {Key: "signature", Kind: "sig"}}
	})
	add("members:extra-unrelated", -1, func(rng *rand.Rand, s *world.Spec, q bool) {
		r, name := respOf(s, q)
		r.Members = []world.Member{{Key: "comment", Kind: "raw", Raw: `{"tcbLevels":[]}`}, {Key: name, Kind: "signed"}, {Key: "signature", Kind: "sig"}, {Key: "x", Kind: "raw", Raw: "[1,2]"}}
	})
	add("members:document-missing", -1, func(rng *rand.Rand, s *world.Spec, q bool) {
		r, _ := respOf(s, q)
		r.Members = []world.Member{{Key: "signature", Kind: "sig"}}
	})
	add("members:signature-missing", -1, func(rng *rand.Rand, s *world.Spec, q bool) {
		r, name := respOf(s, q)
		r.Members = []world.Member{{Key: name, Kind: "signed"}}
	})
	add("members:order-signature-first", -1, func(rng *rand.Rand, s *world.Spec, q bool) {
		r, name := respOf(s, q)
		r.Members = []world.Member{{Key: "signature", Kind: "sig"}, {Key: name, Kind: "signed"}}
	})
	add("members:document-is-a-string", -1, func(rng *rand.Rand, s *world.Spec, q bool) {
		r, name := respOf(s, q)
		r.Members = []world.Member{{Key: name, Kind: "raw", Raw: `"x"`}, {Key: "signature", Kind: "sig"}}
	})
	// ---- bodies
	for _, b := range [][2]string{{"not-json", "certainly not json"}, {"array", `[{"tcbInfo":{},"signature":""}]`}, {"null", "null"}, {"empty-object", "{}"}, {"empty", ""}, {"number", "7"},
		{"trailing-garbage", `{"tcbInfo":{},"signature":""} x`}} {
		b := b
		add("body:"+b[0], -1, func(rng *rand.Rand, s *world.Spec, q bool) { r, _ := respOf(s, q); r.BodyRaw = []byte(b[1]) })
	}
	add("body:fetch-garbage", -1, func(rng *rand.Rand, s *world.Spec, q bool) { r, _ := respOf(s, q); r.Fetch = "garbage" })
	add("body:fetch-fail", -1, func(rng *rand.Rand, s *world.Spec, q bool) { r, _ := respOf(s, q); r.Fetch = "fail" })
	// ---- who signs
	add("sign:foreign-key", -1, func(rng *rand.Rand, s *world.Spec, q bool) { r, _ := respOf(s, q); r.SignKey = 6 })
	add("sign:leaf-key", -1, func(rng *rand.Rand, s *world.Spec, q bool) { r, _ := respOf(s, q); r.SignKey = 3 })
	add("sign:intermediate-key", -1, func(rng *rand.Rand, s *world.Spec, q bool) { r, _ := respOf(s, q); r.SignKey = 2 })
	add("sign:root-key", -1, func(rng *rand.Rand, s *world.Spec, q bool) { r, _ := respOf(s, q); r.SignKey = 1 })
	add("sign:attestation-key", -1, func(rng *rand.Rand, s *world.Spec, q bool) { r, _ := respOf(s, q); r.SignKey = 5 })
	add("role:intermediate-CA-as-signer", -1, func(rng *rand.Rand, s *world.Spec, q bool) { // certified by the trusted root — for another role
		r, _ := respOf(s, q)
		r.SignKey, r.HdrRoles = 2, []string{"inter", "root"}
	})
	add("role:root-as-signer", -1, func(rng *rand.Rand, s *world.Spec, q bool) {
		r, _ := respOf(s, q)
		r.SignKey, r.HdrRoles = 1, []string{"root", "root"}
	})
	add("role:pck-leaf-as-signer/inter-as-root", -1, func(rng *rand.Rand, s *world.Spec, q bool) {
		r, _ := respOf(s, q)
		r.SignKey, r.HdrRoles = 3, []string{"leaf", "inter"}
	})
	add("role:pck-leaf-as-signer/root", -1, func(rng *rand.Rand, s *world.Spec, q bool) {
		r, _ := respOf(s, q)
		r.SignKey, r.HdrRoles = 3, []string{"leaf", "root"}
	})
	add("pki:look-alike-signer-and-root", -1, func(rng *rand.Rand, s *world.Spec, q bool) {
		r, _ := respOf(s, q)
		addCert(s, &world.CertSpec{Role: "root2", CN: "Intel SGX Root CA", IsCA: true, Key: 6, SignKey: 6, CRLDPs: s.Cert("root").CRLDPs})
		addCert(s, &world.CertSpec{Role: "signer2", CN: "Intel SGX TCB Signing", Key: 7, SignKey: 6, IssuerOf: "root2"})
		r.SignKey, r.HdrRoles = 7, []string{"signer2", "root2"}
	})
	// the same foreign hierarchy, its certificates not yet valid at the verification instants (far from expired): a path that
	// cannot be validated for ANY reason is a path that was not validated
	for _, which := range []string{"signer", "root", "both"} {
		which := which
		add("pki:look-alike-signer-and-root/not-yet-valid:"+which, -1, func(rng *rand.Rand, s *world.Spec, q bool) {
			r, _ := respOf(s, q)
			addCert(s, &world.CertSpec{Role: "root2", CN: "Intel SGX Root CA", IsCA: true, Key: 6, SignKey: 6, CRLDPs: s.Cert("root").CRLDPs})
			addCert(s, &world.CertSpec{Role: "signer2", CN: "Intel SGX TCB Signing", Key: 7, SignKey: 6, IssuerOf: "root2"})
			later := s.Now[0]
			for _, t := range s.Now {
				if t.After(later) {
					later = t
				}
			}
			later = later.Add(time.Duration(1+rng.IntN(500)) * time.Hour).Truncate(time.Second)
			if which != "root" {
				s.Cert("signer2").NotBefore = later
			}
			if which != "signer" {
				s.Cert("root2").NotBefore = later
			}
			r.SignKey, r.HdrRoles = 7, []string{"signer2", "root2"}
		})
	}
	// a genuine signer that is not yet valid (its window starts after the verification instant): not accepted either
	add("signer:genuine-not-yet-valid", -1, func(rng *rand.Rand, s *world.Spec, q bool) {
		r, _ := respOf(s, q)
		c := *s.Cert("signer")
		c.Role, c.Serial, c.NotBefore = "signerLate", big.NewInt(2900), s.Now[1].Add(200*time.Hour).Truncate(time.Second)
		if q {
			c.NotBefore = s.Now[2].Add(200 * time.Hour).Truncate(time.Second)
		}
		s.Certs = append(s.Certs, &c)
		r.HdrRoles = []string{"signerLate", "root"}
	})
	add("pki:look-alike-signer-under-genuine-root", -1, func(rng *rand.Rand, s *world.Spec, q bool) {
		r, _ := respOf(s, q)
		addCert(s, &world.CertSpec{Role: "root2", CN: "Intel SGX Root CA", IsCA: true, Key: 6, SignKey: 6})
		addCert(s, &world.CertSpec{Role: "signer2", CN: "Intel SGX TCB Signing", Key: 7, SignKey: 6, IssuerOf: "root2"})
		r.SignKey, r.HdrRoles = 7, []string{"signer2", "root"}
	})
	add("pki:genuine-signer-under-look-alike-root", -1, func(rng *rand.Rand, s *world.Spec, q bool) {
		r, _ := respOf(s, q)
		addCert(s, &world.CertSpec{Role: "root2", CN: "Intel SGX Root CA", IsCA: true, Key: 6, SignKey: 6, CRLDPs: s.Cert("root").CRLDPs})
		r.HdrRoles = []string{"signer", "root2"}
	})
	add("pki:self-issued-signer-named-like-root-child", -1, func(rng *rand.Rand, s *world.Spec, q bool) { // issuer NAME is the root's, signature is a foreign key's
		r, _ := respOf(s, q)
		addCert(s, &world.CertSpec{Role: "signerF", CN: "Intel SGX TCB Signing", Key: 7, SignKey: 6, IssuerOf: "root"})
		r.SignKey, r.HdrRoles = 7, []string{"signerF", "root"}
	})
	for _, cn := range []string{"Intel SGX TCB Signing CA", "intel sgx tcb signing", "Intel SGX TCB Signing ", "Intel SGX PCK Certificate", "Intel SGX Root CA", "Intel SGX TCB Signin"} {
		cn := cn
		add("signer:wrong-CN", -1, func(rng *rand.Rand, s *world.Spec, q bool) { // certified by the genuine root, other name
			r, _ := respOf(s, q)
			addCert(s, &world.CertSpec{Role: "signerX", CN: cn, Key: 8, SignKey: 1, IssuerOf: "root"})
			r.SignKey, r.HdrRoles = 8, []string{"signerX", "root"}
		})
	}
	add("signer:other-organisation-same-CN", -1, func(rng *rand.Rand, s *world.Spec, q bool) { // control: CN right, subject differs elsewhere; certified by the root
		r, _ := respOf(s, q)
		addCert(s, &world.CertSpec{Role: "signerO", CN: "Intel SGX TCB Signing", Org: "Another Corporation", Key: 8, SignKey: 1, IssuerOf: "root"})
		r.SignKey, r.HdrRoles = 8, []string{"signerO", "root"}
	})
	add("signer:issued-by-intermediate/root-in-header", -1, func(rng *rand.Rand, s *world.Spec, q bool) {
		r, _ := respOf(s, q)
		addCert(s, &world.CertSpec{Role: "signerI", CN: "Intel SGX TCB Signing", Key: 8, SignKey: 2, IssuerOf: "inter"})
		r.SignKey, r.HdrRoles = 8, []string{"signerI", "root"}
	})
	add("signer:issued-by-intermediate/intermediate-in-header", -1, func(rng *rand.Rand, s *world.Spec, q bool) {
		r, _ := respOf(s, q)
		addCert(s, &world.CertSpec{Role: "signerI", CN: "Intel SGX TCB Signing", Key: 8, SignKey: 2, IssuerOf: "inter"})
		r.SignKey, r.HdrRoles = 8, []string{"signerI", "inter"}
	})
	add("signer:issued-by-intermediate/three-blocks", -1, func(rng *rand.Rand, s *world.Spec, q bool) {
		r, _ := respOf(s, q)
		addCert(s, &world.CertSpec{Role: "signerI", CN: "Intel SGX TCB Signing", Key: 8, SignKey: 2, IssuerOf: "inter"})
		r.SignKey, r.HdrRoles = 8, []string{"signerI", "inter", "root"}
	})
	add("root:not-self-signed", -1, func(rng *rand.Rand, s *world.Spec, q bool) { // root's name and key, certificate signed by somebody else
		r, _ := respOf(s, q)
		addCert(s, &world.CertSpec{Role: "rootNS", CN: "Intel SGX Root CA", IsCA: true, Key: 1, SignKey: 6, CRLDPs: s.Cert("root").CRLDPs})
		r.HdrRoles = []string{"signer", "rootNS"}
	})
	add("root:wrong-CN-but-listed", -1, func(rng *rand.Rand, s *world.Spec, q bool) { // a LISTED root with another name: only the name check can refuse
		r, _ := respOf(s, q)
		addCert(s, &world.CertSpec{Role: "rootY", CN: "Intel SGX Root CA 2", IsCA: true, Key: 6, SignKey: 6, CRLDPs: s.Cert("root").CRLDPs})
		addCert(s, &world.CertSpec{Role: "signerY", CN: "Intel SGX TCB Signing", Key: 7, SignKey: 6, IssuerOf: "rootY"})
		r.SignKey, r.HdrRoles = 7, []string{"signerY", "rootY"}
		s.Pool = []string{"root", "rootY"}
		s.CR = false
	})
	add("root:second-listed-root-right-CN", -1, func(rng *rand.Rand, s *world.Spec, q bool) { // control: a second listed root with the right name signs
		r, _ := respOf(s, q)
		addCert(s, &world.CertSpec{Role: "rootZ", CN: "Intel SGX Root CA", Org: "Intel Corporation 2", IsCA: true, Key: 6, SignKey: 6, CRLDPs: s.Cert("root").CRLDPs})
		addCert(s, &world.CertSpec{Role: "signerZ", CN: "Intel SGX TCB Signing", Key: 7, SignKey: 6, IssuerOf: "rootZ"})
		r.SignKey, r.HdrRoles = 7, []string{"signerZ", "rootZ"}
		s.Pool = []string{"root", "rootZ"}
		s.CR = false
	})
	add("root:genuine-root-not-listed", -1, func(rng *rand.Rand, s *world.Spec, q bool) { // collateral PKI is not under the listed roots (PCK chain is: second root for it)
		r, _ := respOf(s, q)
		addCert(s, &world.CertSpec{Role: "rootZ", CN: "Intel SGX Root CA", Org: "Intel Corporation 2", IsCA: true, Key: 6, SignKey: 6, CRLDPs: s.Cert("root").CRLDPs})
		addCert(s, &world.CertSpec{Role: "signerZ", CN: "Intel SGX TCB Signing", Key: 7, SignKey: 6, IssuerOf: "rootZ"})
		r.SignKey, r.HdrRoles = 7, []string{"signerZ", "rootZ"}
		s.CR = false
	})
	// ---- what is signed
	add("signed-bytes:re-encoded-whitespace", -1, func(rng *rand.Rand, s *world.Spec, q bool) {
		r, _ := respOf(s, q)
		r.MemberMut = func(b []byte) []byte { return bytes.Replace(b, []byte(`,"`), []byte(`, "`), 1+rng.IntN(3)) }
	})
	add("signed-bytes:re-encoded-trailing-space", -1, func(rng *rand.Rand, s *world.Spec, q bool) {
		r, _ := respOf(s, q)
		r.MemberMut = func(b []byte) []byte { return append(b[:len(b)-1:len(b)-1], ' ', '}') }
	})
	add("signed-bytes:re-encoded-key-order", -1, func(rng *rand.Rand, s *world.Spec, q bool) {
		r, _ := respOf(s, q)
		r.MemberMut = func(b []byte) []byte {
			ms, ok := oMembers(b)
			if !ok || len(ms) < 2 {
				panic("member is not an object")
			}
			ms = append(ms[1:], ms[0])
			var sb bytes.Buffer
			sb.WriteByte('{')
			for i, m := range ms {
				if i > 0 {
					sb.WriteByte(',')
				}
				k, _ := json.Marshal(m.key)
				sb.Write(k)
				sb.WriteByte(':')
				sb.Write(m.raw)
			}
			sb.WriteByte('}')
			return sb.Bytes()
		}
	})
	add("signed-bytes:escaped-letter", -1, func(rng *rand.Rand, s *world.Spec, q bool) { // the key "id" spelled with a \u escape: same JSON value, other bytes
		r, _ := respOf(s, q)
		r.MemberMut = func(b []byte) []byte { return bytes.Replace(b, []byte(`"id":`), []byte("\"\\u0069d\":"), 1) }
	})
	add("signature-over:whole-body", -1, func(rng *rand.Rand, s *world.Spec, q bool) { r, _ := respOf(s, q); r.SignOver = "body" })
	add("signature-over:other-bytes", -1, func(rng *rand.Rand, s *world.Spec, q bool) { r, _ := respOf(s, q); r.SignOver = "other" })
	// the genuine signature's hex spelling followed / preceded / interrupted by what is not a whole hex byte (or is one): the
	// "signature" member is the 128 hex digits of r||s and nothing else
	for _, mut := range []struct {
		name string
		f    func(string) string
	}{
		{"genuine+half-byte", func(h string) string { return h + "0" }}, {"genuine+non-hex", func(h string) string { return h + "zz" }},
		{"genuine+space", func(h string) string { return h + " " }}, {"genuine+newline", func(h string) string { return h + "\n" }},
		{"space+genuine", func(h string) string { return " " + h }}, {"genuine+whole-byte", func(h string) string { return h + "00" }},
		{"0x+genuine", func(h string) string { return "0x" + h }}, {"genuine-upper-case", strings.ToUpper},
		{"genuine-with-a-non-hex-digit-inside", func(h string) string { return h[:64] + "g" + h[65:] }},
		{"genuine-first-half+non-hex", func(h string) string { return h[:64] + "zz" }},
	} {
		mut := mut
		add("signature-string:"+mut.name, -1, func(rng *rand.Rand, s *world.Spec, q bool) { r, _ := respOf(s, q); r.SigStrMut = mut.f })
	}
	for _, v := range []string{"", "0", "zz", strings.Repeat("00", 63), strings.Repeat("00", 65), strings.Repeat("00", 64), strings.Repeat("ff", 64), strings.Repeat("00", 32)} {
		v := v
		add("signature-string:malformed", -1, func(rng *rand.Rand, s *world.Spec, q bool) { r, _ := respOf(s, q); r.SigString = &v })
	}
	add("signature:swapped-halves", -1, func(rng *rand.Rand, s *world.Spec, q bool) {
		r, _ := respOf(s, q)
		r.SigMut = func(b []byte) []byte { return append(append([]byte{}, b[32:]...), b[:32]...) }
	})
	add("signature:of-the-other-response", -1, func(rng *rand.Rand, s *world.Spec, q bool) { // a genuine signature by the right key over the OTHER document
		r, _ := respOf(s, q)
		other := s.Qe.JSON()
		if q {
			other = s.Tcb.JSON()
		}
		v := hex.EncodeToString(world.RawSig(s.Keys[4], other))
		r.SigString = &v
	})
	// a genuine signature with bytes appended (1 … 64 more, zero or random): not the signature of the response
	for _, extra := range []int{1, 2, 32, 64} {
		extra := extra
		add("signature:genuine-with-bytes-appended", -1, func(rng *rand.Rand, s *world.Spec, q bool) {
			r, _ := respOf(s, q)
			tail := hx.RandBytes(rng, extra)
			if rng.IntN(2) == 0 {
				tail = make([]byte, extra)
			}
			r.SigMut = func(b []byte) []byte { return append(append([]byte{}, b...), tail...) }
		})
	}
	add("signature:genuine-with-a-byte-prepended", -1, func(rng *rand.Rand, s *world.Spec, q bool) {
		r, _ := respOf(s, q)
		r.SigMut = func(b []byte) []byte { return append([]byte{0}, b...) }
	})
	// ---- document identity
	add("doc:id-and-version-of-the-other-document", -1, func(rng *rand.Rand, s *world.Spec, q bool) { // a correctly signed document of the other kind's id/version
		if q {
			s.Qe.ID, s.Qe.Version = "TDX", 3
		} else {
			s.Tcb.ID, s.Tcb.Version = "TD_QE", 2
		}
	})
	add("doc:id-of-the-other-document", -1, func(rng *rand.Rand, s *world.Spec, q bool) {
		if q {
			s.Qe.ID = "TDX"
		} else {
			s.Tcb.ID = "TD_QE"
		}
	})
	add("doc:wrong-id", -1, func(rng *rand.Rand, s *world.Spec, q bool) {
		if q {
			s.Qe.ID = []string{"QE", "TD_QE2", "td_qe", "TDX", ""}[rng.IntN(5)]
		} else {
			s.Tcb.ID = []string{"SGX", "TDX ", "tdx", "TD_QE", ""}[rng.IntN(5)]
		}
	})
	add("doc:wrong-version", -1, func(rng *rand.Rand, s *world.Spec, q bool) {
		if q {
			s.Qe.Version = []int{1, 3, 0, 255}[rng.IntN(4)]
		} else {
			s.Tcb.Version = []int{2, 4, 0, 255}[rng.IntN(4)]
		}
	})
	add("doc:version-256", -1, func(rng *rand.Rand, s *world.Spec, q bool) { // 256+v: not a byte
		if q {
			s.Qe.Version = 258
		} else {
			s.Tcb.Version = 259
		}
	})
	add("doc:empty-levels", -1, func(rng *rand.Rand, s *world.Spec, q bool) {
		if q {
			s.Qe.Levels = nil
		} else {
			s.Tcb.Levels = nil
		}
	})
	add("doc:documents-swapped", -1, func(rng *rand.Rand, s *world.Spec, q bool) { // the (genuinely signed) other document under this member name
		r, name := respOf(s, q)
		doc := s.Qe.JSON()
		if q {
			doc = s.Tcb.JSON()
		}
		sig := hex.EncodeToString(world.RawSig(s.Keys[4], doc))
		r.Members = []world.Member{{Key: name, Kind: "raw", Raw: string(doc)}, {Key: "signature", Kind: "raw", Raw: `"` + sig + `"`}}
	})
	// ---- issuer-chain header
	for _, m := range []string{"absent", "two", "three", "empty", "novalues", "nilvalues", "badescape", "wrongtype", "garbageder"} {
		m := m
		add("header:"+m, -1, func(rng *rand.Rand, s *world.Spec, q bool) { r, _ := respOf(s, q); r.HdrMode = m })
	}
	add("header:one-block", -1, func(rng *rand.Rand, s *world.Spec, q bool) { r, _ := respOf(s, q); r.HdrRoles = []string{"signer"} })
	add("header:one-block-root", -1, func(rng *rand.Rand, s *world.Spec, q bool) { r, _ := respOf(s, q); r.HdrRoles = []string{"root"} })
	add("header:three-blocks", -1, func(rng *rand.Rand, s *world.Spec, q bool) {
		r, _ := respOf(s, q)
		r.HdrRoles = []string{"signer", "root", "root"}
	})
	add("header:three-blocks-inter", -1, func(rng *rand.Rand, s *world.Spec, q bool) {
		r, _ := respOf(s, q)
		r.HdrRoles = []string{"signer", "inter", "root"}
	})
	add("header:swapped-order", -1, func(rng *rand.Rand, s *world.Spec, q bool) {
		r, _ := respOf(s, q)
		r.HdrRoles = []string{"root", "signer"}
	})
	add("header:trailing-garbage", -1, func(rng *rand.Rand, s *world.Spec, q bool) { r, _ := respOf(s, q); r.HdrTrailer = "garbage" })
	add("header:trailing-newline", -1, func(rng *rand.Rand, s *world.Spec, q bool) { r, _ := respOf(s, q); r.HdrTrailer = "\n" })
	add("header:not-escaped", -1, func(rng *rand.Rand, s *world.Spec, q bool) { // raw PEM: '+' of the base64 text turns into ' '
		r, _ := respOf(s, q)
		r.HdrMut = func(v []byte) []byte { u, _ := url.QueryUnescape(string(v)); return []byte(u) }
	})
	add("header:double-escaped", -1, func(rng *rand.Rand, s *world.Spec, q bool) {
		r, _ := respOf(s, q)
		r.HdrMut = func(v []byte) []byte { return []byte(url.QueryEscape(string(v))) }
	})
	add("header:leading-garbage", -1, func(rng *rand.Rand, s *world.Spec, q bool) { // pem.Decode skips text before the first block
		r, _ := respOf(s, q)
		r.HdrMut = func(v []byte) []byte { return append([]byte("preamble%0A"), v...) }
	})
	add("honest-control", -1, func(rng *rand.Rand, s *world.Spec, q bool) {})
	return fs
}

type c3Case struct {
	f    *c3Fault
	q    bool
	bit  int // for the bit-mutant families
	kind string
}

func c03(r *hx.Run) {
	thorough := r.Tier == "thorough"
	structured := c3Structured()
	var cases []c3Case
	reps := 2
	if thorough {
		reps = 20
	}
	for k := 0; k < reps; k++ {
		for i := range structured {
			for _, q := range []bool{false, true} {
				cases = append(cases, c3Case{f: &structured[i], q: q})
			}
		}
	}
	nStruct := len(cases)
	// single-bit mutants of the member bytes (prefix of 600 bytes), of the signature, of the header value
	memberStep, sigStep, hdrN, tailN := 8, 8, 300, 0
	if thorough {
		memberStep, sigStep, hdrN, tailN = 1, 1, 8000, 800
	}
	for _, q := range []bool{false, true} {
		for b := 0; b < 4800; b += memberStep {
			cases = append(cases, c3Case{q: q, bit: b, kind: "member-bit"})
		}
		for k := 0; k < tailN; k++ {
			cases = append(cases, c3Case{q: q, bit: k, kind: "member-tail-bit"})
		}
		for b := 0; b < 512; b += sigStep {
			cases = append(cases, c3Case{q: q, bit: b, kind: "signature-bit"})
		}
		for k := 0; k < hdrN; k++ {
			cases = append(cases, c3Case{q: q, bit: k, kind: "header-bit"})
		}
	}
	r.Note("structured_faults", len(structured))
	r.Note("structured_cases", nStruct)
	r.Note("bit_mutant_cases", len(cases)-nStruct)
	runJobs(r, len(cases), func(i int, rng *rand.Rand) *vJob {
		c := cases[i]
		need := -1
		if c.f != nil {
			need = c.f.need
			if need == -2 { // alt-doc family: depends on the alt kind (parsed from the name)
				need = altNeed(strings.SplitN(strings.TrimPrefix(c.f.name, "alt-doc:"), "/", 2)[0], c.q)
			}
		}
		var s *world.Spec
		for {
			s = honestSpec(rng)
			t1 := s.Quote.Body.TeeTcbSvn[1] != 0
			if need == -1 || (need == 1) == t1 {
				break
			}
		}
		s.GC = true
		s.CR = rng.IntN(6) == 0
		resp, _ := respOf(s, c.q)
		which := "tcbInfo"
		if c.q {
			which = "enclaveIdentity"
		}
		j := &vJob{oracle: c3Oracle, accOK: c3AccOK}
		if c.f != nil {
			c.f.apply(rng, s, c.q)
			s.Fault = c.f.name
			fam := strings.SplitN(c.f.name, ":", 2)[0]
			j.tags = []string{"fault:" + c.f.name, "family:" + fam, "resp:" + which}
			if fam == "alt-doc" {
				p := strings.Split(strings.TrimPrefix(c.f.name, "alt-doc:"), "/")
				j.tags = append(j.tags, "alt-kind:"+p[0], "alt-spelling:"+p[1], "alt-position:"+p[2])
			}
		} else {
			bit := c.bit
			switch c.kind {
			case "member-bit":
				bit += rng.IntN(memberStep)
				resp.MemberMut = func(b []byte) []byte { return flipBitAt(b, bit) }
			case "member-tail-bit":
				resp.MemberMut = func(b []byte) []byte {
					if len(b) <= 600 {
						return flipBitAt(b, bit)
					}
					return append(b[:600:600], flipBitAt(append([]byte{}, b[600:]...), rng.IntN((len(b)-600)*8))...)
				}
			case "signature-bit":
				bit += rng.IntN(sigStep)
				resp.SigMut = func(b []byte) []byte { return flipBitAt(b, bit) }
			default:
				frac := (float64(bit) + rng.Float64()) / float64(hdrN)
				resp.HdrMut = func(v []byte) []byte { return flipBitAt(v, int(frac*float64(len(v)*8))) }
			}
			s.Fault = c.kind
			j.tags = []string{"fault:" + c.kind, "family:bit-mutant", "resp:" + which}
		}
		s.Honest = false
		j.spec = s
		return j
	})
}

func hexN(rng *rand.Rand, n int) string { return hex.EncodeToString(hx.RandBytes(rng, n)) }


// c03SampleForged: the repository's genuine Intel sample quote (its PCK chain is Intel's, the trusted root is the embedded one:
// TrustedRoots nil) verified with collateral checking against endpoints that serve TCB Info and QE Identity tailored to that
// very quote — every SVN requirement zero, every mask empty, the right FMSPC / PCE-ID / signers' names — but signed under a
// self-made "Intel SGX Root CA" / "Intel SGX TCB Signing" pair.  Nothing of it chains to the embedded root: not accepted
// (harness-only lines; the synthetic worlds cannot show this, their PCK chains are not under the embedded root either).
func c03SampleForged(r *hx.Run) {
	rng := caseRng(r, 9, 0)
	t := sampleTime(sampleSPR)
	base := sampleWorld(sampleSPR, true, false, fiveTimes(t))
	q := base.Quote
	blk, _ := pem.Decode(q.SignedData.CertificationData.QeReportCertificationData.PckCertificateChainData.PckCertChain)
	if blk == nil {
		panic("sample chain has no PEM block")
	}
	leaf, err := x509.ParseCertificate(blk.Bytes)
	if err != nil {
		panic(err)
	}
	ext, err := pcs.PckCertificateExtensions(leaf)
	if err != nil {
		panic(err)
	}
	for variant := 0; variant < 3; variant++ {
		s2 := honestSpec(rng)
		for _, c := range s2.Certs {
			c.NotBefore, c.NotAfter = t.AddDate(-1, 0, 0), t.AddDate(5, 0, 0)
		}
		fm, _ := hex.DecodeString(ext.FMSPC)
		s2.Cert("leaf").Sgx.Fmspc = fm
		s2.Tcb.IssueDate, s2.Tcb.NextUpdate = t.AddDate(0, -1, 0), t.AddDate(0, 1, 0)
		s2.Qe.IssueDate, s2.Qe.NextUpdate = t.AddDate(0, -1, 0), t.AddDate(0, 1, 0)
		s2.Tcb.Fmspc, s2.Tcb.PceID = ext.FMSPC, ext.PCEID
		s2.Tcb.Mrsigner = hex.EncodeToString(q.TdQuoteBody.MrSignerSeam)
		s2.Tcb.Mask, s2.Tcb.Attributes = strings.Repeat("00", 8), strings.Repeat("00", 8)
		s2.Tcb.Levels = []world.Level{{Status: "UpToDate"}}
		s2.Tcb.Identities = []world.ModIdentity{{ID: fmt.Sprintf("TDX_%02x", q.TdQuoteBody.TeeTcbSvn[1]), Levels: []world.ModLevel{{Isvsvn: 0, Status: "UpToDate"}}}}
		qr := q.SignedData.CertificationData.QeReportCertificationData.QeReport
		s2.Qe.Mrsigner, s2.Qe.IsvProdID = hex.EncodeToString(qr.MrSigner), int(qr.IsvProdId)
		s2.Qe.Miscselect, s2.Qe.MiscselectMask = "00000000", "00000000"
		s2.Qe.Attributes, s2.Qe.AttributesMask = strings.Repeat("00", 16), strings.Repeat("00", 16)
		s2.Qe.Levels = []world.QeLevel{{Isvsvn: 0, Status: "UpToDate"}}
		name := "tcb-info-and-qe-identity-forged"
		w2 := world.Build(s2)
		o := &verify.Options{GetCollateral: true, Getter: &world.Getter{M: w2.Getter.M}, Now: vTimeSet(fiveTimes(t))}
		if variant == 1 { // the caller lists ANOTHER root explicitly: still not the forger's
			o.TrustedRoots = x509.NewCertPool()
			o.TrustedRoots.AddCert(world.EmbeddedRoot)
			name += "/embedded-root-listed-explicitly"
		}
		if variant == 2 {
			o.CheckRevocations = true
			name += "/with-revocation"
		}
		var verr error
		res, _ := hx.Guard(func() string { verr = verify.TdxQuote(proto.Clone(q).(*pb.QuoteV4), o); return "" })
		obs, fail := "rejected", ""
		switch {
		case res == "panic":
			obs, fail = "panic", "crash in verify.TdxQuote"
		case verr == nil:
			obs, fail = "accepted", "the Intel sample quote was accepted with collateral checking on the strength of TCB Info / QE Identity signed under a self-made hierarchy with Intel's names; nothing of that collateral chains to the trusted root (the embedded Intel root)"
		}
		r.Emit("# C03.sample "+name, obs, fail, "sample-forged|"+name, true, "sample-forged-collateral")
	}
}
