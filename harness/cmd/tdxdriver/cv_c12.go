package main

// C12 — options gate the checks; more checks never accept more; no fetch without GetCollateral, CRL endpoints only with
// CheckRevocations, the TCB Info request names the leaf's FMSPC and the PCK CRL request the issuing CA; the verdict does
// not depend on what an options value verified before.
//
// (a) real time: the history form of finding F9 (options value shared between two worlds, Options.Now nil);
// (b) a mixed population (honest + one fault each) under ALL FOUR option combinations with the recording getter:
//     verdict lattice and URL rules;
// (c) histories of length 2–4 through ONE shared *verify.Options over different worlds / option flips / trusted-root
//     flips / Now left alone, set or reset: before each call the shared value's current Now is read and rendered into
//     the V.verify line; the shared verdict is compared with the model AND with a fresh-options run of the same world.
// The oracle never consults the model: lattice, URL rules (from the leaf certificate's FMSPC / issuer CN as the generator
// chose them), shared-vs-fresh difference, caller's Options.Now modified by the call.

import (
	"crypto/x509"
	"encoding/hex"
	"fmt"
	"math/big"
	"math/rand/v2"
	"strings"
	"time"

	pb "github.com/google/go-tdx-guest/proto/tdx"
	"github.com/google/go-tdx-guest/verify"

	"tdxharness/hx"
	"tdxharness/world"
)

func init() { drivers["C12"] = c12 }

// ------------------------------------------------------------------ population

type c12Fault struct {
	name  string
	apply func(s *world.Spec, rng *rand.Rand)
}

// c12Shift moves every time of the spec by d (worlds around the wall clock for the Options.Now = nil cases).
func c12Shift(s *world.Spec, d time.Duration) {
	for _, c := range s.Certs {
		c.NotBefore, c.NotAfter = c.NotBefore.Add(d), c.NotAfter.Add(d)
	}
	s.Tcb.IssueDate, s.Tcb.NextUpdate = s.Tcb.IssueDate.Add(d), s.Tcb.NextUpdate.Add(d)
	s.Qe.IssueDate, s.Qe.NextUpdate = s.Qe.IssueDate.Add(d), s.Qe.NextUpdate.Add(d)
	s.PckCrl.ThisUpdate, s.PckCrl.NextUpdate = s.PckCrl.ThisUpdate.Add(d), s.PckCrl.NextUpdate.Add(d)
	for i := range s.RootCrls {
		s.RootCrls[i].ThisUpdate, s.RootCrls[i].NextUpdate = s.RootCrls[i].ThisUpdate.Add(d), s.RootCrls[i].NextUpdate.Add(d)
	}
	if s.Now != nil {
		for i := range s.Now {
			s.Now[i] = s.Now[i].Add(d)
		}
	}
}

func c12Faults() []c12Fault {
	f := func(name string, apply func(s *world.Spec, rng *rand.Rand)) c12Fault { return c12Fault{name, apply} }
	otherHex := func(rng *rand.Rand, like string) string {
		for {
			v := hex.EncodeToString(hx.RandBytes(rng, len(like)/2))
			if !strings.EqualFold(v, like) {
				return v
			}
		}
	}
	return []c12Fault{
		f("honest", func(*world.Spec, *rand.Rand) {}),
		f("honest-chain-with-trailing-nul", func(s *world.Spec, _ *rand.Rand) { s.ChainTrailer = []byte{0} }),
		f("quote-signature-by-foreign-key", func(s *world.Spec, _ *rand.Rand) { s.Quote.SignKey = 7 }),
		f("qe-report-signature-by-foreign-key", func(s *world.Spec, _ *rand.Rand) { s.Quote.QeSignKey = 7 }),
		f("report-data-hash-wrong", func(s *world.Spec, _ *rand.Rand) { s.Quote.ReportDataMode = "wronghash" }),
		f("tee-type-not-tdx", func(s *world.Spec, _ *rand.Rand) {
			s.MsgMut = append(s.MsgMut, func(q *pb.QuoteV4) { q.Header.TeeType = 0 })
		}),
		f("foreign-root-in-pool", func(s *world.Spec, _ *rand.Rand) {
			r := *s.Cert("root")
			r.Role, r.Key, r.SignKey, r.Serial = "root2", 8, 8, big.NewInt(3001)
			s.Certs = append(s.Certs, &r)
			s.Pool = []string{"root2"}
		}),
		f("pool-nil(embedded-root)", func(s *world.Spec, _ *rand.Rand) { s.Pool, s.PoolNil = nil, true }),
		f("leaf-expired", func(s *world.Spec, _ *rand.Rand) {
			s.Cert("leaf").NotAfter = s.Now[0].Add(-time.Hour).Truncate(time.Second)
		}),
		f("leaf-not-yet-valid", func(s *world.Spec, _ *rand.Rand) {
			s.Cert("leaf").NotBefore = s.Now[0].Add(time.Hour).Truncate(time.Second)
		}),
		f("intermediate-expired", func(s *world.Spec, _ *rand.Rand) {
			s.Cert("inter").NotAfter = s.Now[0].Add(-time.Hour).Truncate(time.Second)
		}),
		// the root CARRIED in the quote is an expired issuance; the pool lists a longer-lived certificate of the same key and
		// name (path validation only looks at the pool's): the carried root's expiry has to be judged at every level
		f("carried-root-expired(reissued-root-in-pool)", func(s *world.Spec, _ *rand.Rand) {
			r := *s.Cert("root")
			r.Role, r.Serial = "poolroot", big.NewInt(3002)
			s.Certs = append(s.Certs, &r)
			s.Pool = []string{"poolroot"}
			s.TcbResp.HdrRoles, s.QeResp.HdrRoles, s.PckCrlHdrRoles = []string{"signer", "poolroot"}, []string{"signer", "poolroot"}, []string{"inter", "poolroot"}
			s.Cert("root").NotAfter = s.Now[0].Add(-time.Hour).Truncate(time.Second)
		}),
		f("carried-root-in-date(reissued-root-in-pool)", func(s *world.Spec, _ *rand.Rand) {
			r := *s.Cert("root")
			r.Role, r.Serial = "poolroot", big.NewInt(3002)
			s.Certs = append(s.Certs, &r)
			s.Pool = []string{"poolroot"}
			s.TcbResp.HdrRoles, s.QeResp.HdrRoles, s.PckCrlHdrRoles = []string{"signer", "poolroot"}, []string{"signer", "poolroot"}, []string{"inter", "poolroot"}
		}),
		// the carried intermediate is a re-issued certificate that is not yet valid; the PCK CRL response's issuer-chain header
		// carries a valid certificate of the same CA — material that only exists when revocation checking is on
		f("carried-intermediate-not-yet-valid(valid-certificate-of-that-ca-in-the-crl-header)", func(s *world.Spec, _ *rand.Rand) {
			ok := *s.Cert("inter")
			ok.Role, ok.Serial = "interOK", big.NewInt(3003)
			s.Certs = append(s.Certs, &ok)
			s.PckCrlHdrRoles = []string{"interOK", "root"}
			s.Cert("inter").NotBefore = s.Now[0].Add(time.Hour).Truncate(time.Second)
		}),
		f("leaf-revoked", func(s *world.Spec, _ *rand.Rand) { s.PckCrl.Revoked = append(s.PckCrl.Revoked, s.Cert("leaf").Serial) }),
		f("intermediate-revoked", func(s *world.Spec, _ *rand.Rand) {
			s.RootCrls[0].Revoked = append(s.RootCrls[0].Revoked, s.Cert("inter").Serial)
		}),
		f("collateral-signer-revoked", func(s *world.Spec, _ *rand.Rand) {
			s.RootCrls[0].Revoked = append(s.RootCrls[0].Revoked, s.Cert("signer").Serial)
		}),
		f("tcb-level-OutOfDate", func(s *world.Spec, _ *rand.Rand) {
			for i := range s.Tcb.Levels {
				s.Tcb.Levels[i].Status = "OutOfDate"
			}
		}),
		f("qe-level-OutOfDate", func(s *world.Spec, _ *rand.Rand) {
			for i := range s.Qe.Levels {
				s.Qe.Levels[i].Status = "OutOfDate"
			}
		}),
		f("tcbinfo-signature-by-foreign-key", func(s *world.Spec, _ *rand.Rand) { s.TcbResp.SignKey = 7 }),
		f("qeidentity-signature-by-foreign-key", func(s *world.Spec, _ *rand.Rand) { s.QeResp.SignKey = 7 }),
		f("tcbinfo-tampered-after-signing", func(s *world.Spec, _ *rand.Rand) {
			s.TcbResp.MemberMut = func(b []byte) []byte {
				return []byte(strings.Replace(string(b), `"tcbEvaluationDataNumber":17`, `"tcbEvaluationDataNumber":18`, 1))
			}
		}),
		f("tcbinfo-fetch-fails", func(s *world.Spec, _ *rand.Rand) { s.TcbResp.Fetch = "fail" }),
		f("tcbinfo-garbage", func(s *world.Spec, _ *rand.Rand) { s.TcbResp.Fetch = "garbage" }),
		f("tcbinfo-issuer-chain-absent", func(s *world.Spec, _ *rand.Rand) { s.TcbResp.HdrMode = "absent" }),
		f("qeidentity-fetch-fails", func(s *world.Spec, _ *rand.Rand) { s.QeResp.Fetch = "fail" }),
		f("pckcrl-fetch-fails", func(s *world.Spec, _ *rand.Rand) { s.PckCrl.Fetch = "fail" }),
		f("pckcrl-garbage", func(s *world.Spec, _ *rand.Rand) { s.PckCrl.Fetch = "garbage" }),
		f("pckcrl-signed-by-foreign-key", func(s *world.Spec, _ *rand.Rand) { s.PckCrl.SignKey = 7 }),
		f("rootcrl-fetch-fails", func(s *world.Spec, _ *rand.Rand) { s.RootCrls[0].Fetch = "fail" }),
		f("rootcrl-three-distribution-points", func(s *world.Spec, _ *rand.Rand) {
			s.Cert("root").CRLDPs = []string{"https://certificates.example/a.der", "https://certificates.example/b.der", "https://certificates.example/c.der"}
			a, b, c := s.RootCrls[0], s.RootCrls[0], s.RootCrls[0]
			a.Fetch, b.Fetch = "fail", "garbage"
			s.RootCrls = []world.CrlSpec{a, b, c}
		}),
		f("qe-identity-wrong-mrsigner", func(s *world.Spec, rng *rand.Rand) { s.Qe.Mrsigner = otherHex(rng, s.Qe.Mrsigner) }),
		f("qe-identity-wrong-isvprodid", func(s *world.Spec, _ *rand.Rand) { s.Qe.IsvProdID ^= 1 }),
		f("tcbinfo-names-another-fmspc", func(s *world.Spec, rng *rand.Rand) { s.Tcb.Fmspc = otherHex(rng, s.Tcb.Fmspc) }),
		f("tcbinfo-wrong-mrsignerseam", func(s *world.Spec, rng *rand.Rand) { s.Tcb.Mrsigner = otherHex(rng, s.Tcb.Mrsigner) }),
		f("tcbinfo-expired", func(s *world.Spec, _ *rand.Rand) { s.Tcb.NextUpdate = s.Now[1].Add(-time.Hour).Truncate(time.Second) }),
		f("pckcrl-expired", func(s *world.Spec, _ *rand.Rand) {
			s.PckCrl.NextUpdate = s.Now[3].Add(-time.Hour).Truncate(time.Second)
		}),
		f("rootcrl-expired", func(s *world.Spec, _ *rand.Rand) {
			s.RootCrls[0].NextUpdate = s.Now[4].Add(-time.Hour).Truncate(time.Second)
		}),
		f("leaf-issued-by-processor-ca(O-3)", func(s *world.Spec, _ *rand.Rand) { s.Cert("inter").CN = "Intel SGX PCK Processor CA" }),
		f("leaf-issued-by-unknown-ca", func(s *world.Spec, _ *rand.Rand) { s.Cert("inter").CN = "Intel SGX PCK Other CA" }),
		f("leaf-without-sgx-extension", func(s *world.Spec, _ *rand.Rand) { s.Cert("leaf").Sgx.Absent = true }),
		// the collateral signer becomes valid between the TCB Info / QE Identity instants and the CRL instants of the time set: it is
		// judged at the instant of the document it signs, whatever else is switched on
		f("collateral-signer-not-yet-valid-at-the-document-instants(valid-at-the-crl-instants)", func(s *world.Spec, _ *rand.Rand) {
			s.Cert("signer").NotBefore = s.Now[2].Add(30 * time.Minute).Truncate(time.Second)
		}),
		f("collateral-signer-expires-between-the-document-instants-and-the-crl-instants", func(s *world.Spec, _ *rand.Rand) {
			s.Cert("signer").NotAfter = s.Now[2].Add(30 * time.Minute).Truncate(time.Second)
		}),
		// what the PCK certificate SAYS about where its CRL lives is not what decides which CA's CRL is requested: the issuer is
		f("leaf-crl-distribution-point-names-the-processor-ca", func(s *world.Spec, _ *rand.Rand) {
			s.Cert("leaf").CRLDPs = []string{"https://api.trustedservices.intel.com/sgx/certification/v4/pckcrl?ca=processor&encoding=der"}
		}),
		f("leaf-crl-distribution-point-names-an-unknown-ca", func(s *world.Spec, _ *rand.Rand) {
			s.Cert("leaf").CRLDPs = []string{"https://api.trustedservices.intel.com/sgx/certification/v4/pckcrl?ca=other"}
		}),
		f("leaf-without-crl-distribution-point", func(s *world.Spec, _ *rand.Rand) { s.Cert("leaf").CRLDPs = nil }),
		// header maps that carry the issuer-chain name twice, in two spellings: only the exact name is the header
		f("tcbinfo-header-also-in-lower-case(unverifiable-chain)", func(s *world.Spec, _ *rand.Rand) { s.TcbResp.HdrDecoy = "lower" }),
		f("tcbinfo-header-also-in-upper-case(unverifiable-chain)", func(s *world.Spec, _ *rand.Rand) { s.TcbResp.HdrDecoy = "upper" }),
		f("qeidentity-header-also-in-lower-case(unverifiable-chain)", func(s *world.Spec, _ *rand.Rand) { s.QeResp.HdrDecoy = "lower" }),
		f("qeidentity-header-also-in-upper-case(unverifiable-chain)", func(s *world.Spec, _ *rand.Rand) { s.QeResp.HdrDecoy = "upper" }),
		f("pckcrl-header-also-in-lower-case(unverifiable-chain)", func(s *world.Spec, _ *rand.Rand) { s.PckCrlHdrDecoy = "lower" }),
		f("pckcrl-header-also-in-upper-case(unverifiable-chain)", func(s *world.Spec, _ *rand.Rand) { s.PckCrlHdrDecoy = "upper" }),
		f("tcbinfo-header-only-in-lower-case", func(s *world.Spec, _ *rand.Rand) { s.TcbResp.HdrDecoy = "only-lower" }),
		f("qeidentity-header-only-in-upper-case", func(s *world.Spec, _ *rand.Rand) { s.QeResp.HdrDecoy = "only-upper" }),
		f("pckcrl-header-only-in-lower-case", func(s *world.Spec, _ *rand.Rand) { s.PckCrlHdrDecoy = "only-lower" }),
	}
}

// c12UnsetCrlInstants: a caller who keeps ONE time set, leaves its two CRL instants unset (zero time.Time: year 1, at which
// no CRL has expired) and moves the instants it did set, in place, between two calls.  The CRLs are short-lived: at the later
// chain instant they are past their next update — which does not matter, because the CRL instants are still unset.  The
// shared options value must give what fresh options with the same visible settings give.
func c12UnsetCrlInstants(r *hx.Run) {
	n := map[bool]int{true: 160, false: 16}[r.Tier == "thorough"]
	for i := 0; i < n; i++ {
		rng := c05CaseRng(r, 0x52, i)
		now := time.Now()
		base := now.Truncate(time.Hour)
		s := c12Wall(rng, now)
		s.PckCrl.NextUpdate = base.Add(10 * time.Hour)
		for k := range s.RootCrls {
			s.RootCrls[k].NextUpdate = base.Add(10 * time.Hour)
		}
		s.Fault = "crls-short-lived(10h)+crl-instants-unset"
		w := world.Build(s)
		var own []*x509.Certificate
		for _, role := range w.Spec.Pool {
			own = append(own, w.Certs[role].Cert)
		}
		T := [5]time.Time{base.Add(time.Hour + time.Duration(rng.IntN(3600))*time.Second), base.Add(2 * time.Hour), base.Add(3 * time.Hour)}
		if i%4 == 3 { // only one of the two left unset
			T[3+rng.IntN(2)] = base.Add(4 * time.Hour)
		}
		ts := c12Set(&T)
		sh := &c12Shared{o: &verify.Options{Now: ts}, intended: &T}
		first := c05Levels[i%len(c05Levels)]
		tags := []string{"history:unset-crl-instants", "family:unset-crl-instants", fmt.Sprintf("first:gc%dcr%d", hx.B(first[0]), hx.B(first[1]))}
		c12Step(r, sh, w, first[0], first[1], own, w.Spec.Pool == nil, append(tags, "step:1")...)
		d := 20*time.Hour + time.Duration(i%3)*24*time.Hour
		T2 := T
		for k := 0; k < 5; k++ {
			if !T[k].IsZero() {
				T2[k] = T[k].Add(d)
			}
		}
		// in place: the fields the caller set are moved, the others are not touched
		ts.PckCertChain, ts.TcbInfo, ts.QeIdentity = T2[0], T2[1], T2[2]
		if !T[3].IsZero() {
			ts.PckCrl = T2[3]
		}
		if !T[4].IsZero() {
			ts.RootCaCrl = T2[4]
		}
		sh.intended = &T2
		c12Step(r, sh, w, true, true, own, w.Spec.Pool == nil, append(tags, "step:2", "moved-in-place:"+d.String())...)
	}
}

// c12Repeat: the verdict depends only on the quote, the option settings and the fetched data — the same world verified again
// and again through fresh options gives one verdict and one request sequence (harness-only line per world).
func c12Repeat(r *hx.Run, w *world.World, times int, tags ...string) {
	first, fail := "", ""
	for k := 0; k < times; k++ {
		vr := runVerify(w)
		if vr.panicked {
			fail = "crash in verify.TdxQuote"
			break
		}
		if k == 0 {
			first = vr.obs
		} else if vr.obs != first && fail == "" {
			fail = fmt.Sprintf("call %d of %d identical verifications (fresh options each, same quote, same settings, same responses) gives %q, the first gave %q [world: %s, gc=%v cr=%v]", k+1, times, vr.obs, first, w.Spec.Fault, w.Spec.GC, w.Spec.CR)
		}
	}
	obs := "stable"
	if fail != "" {
		obs = "unstable"
	}
	r.Emit(fmt.Sprintf("# C12.repeat fault=%s gc=%v cr=%v", w.Spec.Fault, w.Spec.GC, w.Spec.CR), obs, fail, "repeat|"+w.Spec.Fault+fmt.Sprint(w.Spec.GC, w.Spec.CR), true, append(tags, "family:repeat", "repeat:"+strings.SplitN(first, " ", 2)[0])...)
}

// ------------------------------------------------------------------ oracle parts

// c12URLRules: the requests the option setting forbids, and what the TCB Info / PCK CRL requests must name.
func c12URLRules(w *world.World, gc, cr bool, urls []string) string {
	if !gc && len(urls) > 0 {
		return fmt.Sprintf("GetCollateral is off but the verifier fetched %q", urls[0])
	}
	leafSpec := w.Spec.Cert(w.Spec.Chain[0].Role)
	leaf := w.Certs[w.Spec.Chain[0].Role].Cert
	for _, u := range urls {
		isTcb, isQe, isPck := strings.Contains(u, "/tcb?"), strings.Contains(u, "/qe/identity"), strings.Contains(u, "/pckcrl")
		if !cr && (isPck || !(isTcb || isQe)) {
			return fmt.Sprintf("CheckRevocations is off but a CRL endpoint was contacted: %q", u)
		}
		if isTcb && leafSpec.Sgx != nil && !leafSpec.Sgx.Absent && leafSpec.Sgx.RawDER == nil {
			want := "fmspc=" + hex.EncodeToString(leafSpec.Sgx.Fmspc)
			if !strings.Contains(u, want) {
				return fmt.Sprintf("the TCB Info request %q does not name the FMSPC of the quote's PCK certificate (%s)", u, want)
			}
		}
		if isPck {
			want := map[string]string{"Intel SGX PCK Platform CA": "ca=platform", "Intel SGX PCK Processor CA": "ca=processor"}[leaf.Issuer.CommonName]
			if want != "" && !strings.Contains(u, want) {
				return fmt.Sprintf("the PCK CRL request %q does not name the CA that issued the PCK certificate (%s)", u, want)
			}
			if want == "" {
				return fmt.Sprintf("the PCK CRL request %q names a CA, but the PCK certificate was issued by %q — neither the platform nor the processor CA", u, leaf.Issuer.CommonName)
			}
		}
	}
	return ""
}

func c12Set(t *[5]time.Time) *verify.TimeSet {
	if t == nil {
		return nil
	}
	return &verify.TimeSet{PckCertChain: t[0], TcbInfo: t[1], QeIdentity: t[2], PckCrl: t[3], RootCaCrl: t[4]}
}

func c12Arr(t *verify.TimeSet) *[5]time.Time {
	if t == nil {
		return nil
	}
	return &[5]time.Time{t.PckCertChain, t.TcbInfo, t.QeIdentity, t.PckCrl, t.RootCaCrl}
}

// c12F9Shape: the single-call form of finding F9.  Every call with Options.Now = nil shows it on an unrepaired tree; it is
// REPORTED for the first 25 calls of a run only (hx keeps 200 failures; other failures must stay visible), the rest are counted
// under the tag "F9-shape(seen-again,not-reported)".
var c12F9Reported int

func c12F9Shape() string {
	c12F9Reported++
	if c12F9Reported > 25 {
		return ""
	}
	return "F9-shape: caller's options modified: Options.Now was nil before the call and is set afterwards"
}

// c12All4: one world under all four option combinations (fresh options each): lattice + URL rules.
func c12All4(r *hx.Run, w *world.World, tags ...string) {
	acc := map[[2]bool]bool{}
	var vrs [4]vResult
	var clocks [4]time.Time
	var fails [4]string
	lat := ""
	for i, o := range c05Levels { // (gc,cr) (gc) () (cr)
		w.Spec.GC, w.Spec.CR = o[0], o[1]
		clocks[i] = time.Now()
		vr := runVerify(w)
		vrs[i] = vr
		acc[o] = vr.accepted
		lat += map[bool]string{true: "A", false: "r"}[vr.accepted]
		fail := c12URLRules(w, o[0], o[1], vr.urls)
		if fail == "" && w.Spec.Now == nil && strings.HasSuffix(vr.obs, "now=set") {
			fail = c12F9Shape()
			r.Note("F9-shape", "Options.Now nil before a call and set afterwards was seen; reported for the first 25 calls only")
		}
		if fail == "" {
			switch {
			case o == [2]bool{true, false} && acc[[2]bool{true, true}] && !vr.accepted:
				fail = "lattice: accepted with collateral and revocation checking, rejected with collateral checking alone"
			case o == [2]bool{false, false} && acc[[2]bool{true, false}] && !vr.accepted:
				fail = "lattice: accepted with collateral checking, rejected with signature and chain checking alone"
			case o == [2]bool{false, true} && vr.accepted && !acc[[2]bool{false, false}]:
				fail = "lattice: accepted with revocation checking requested, rejected with no additional check"
			}
		}
		fails[i] = fail
	}
	for i, o := range c05Levels {
		w.Spec.GC, w.Spec.CR = o[0], o[1]
		t := tags
		if i == 3 {
			t = append(append([]string{}, tags...), "lattice(gc+cr,gc,base,cr-only):"+lat)
		}
		c05Emit(r, w, vrs[i], clocks[i], fails[i], t...)
	}
}

// ------------------------------------------------------------------ histories through one shared options value

type c12Shared struct {
	o        *verify.Options
	intended *[5]time.Time // what the caller put into Now (nil: never set / reset) — what a fresh options value would carry
	set      bool          // the caller has written its two option flags at least once …
	gc, cr   bool          // … and these are the values it last wrote
}

// c12Step: one call through the shared options + the fresh-options run of the same world at the same settings.
func c12Step(r *hx.Run, sh *c12Shared, w *world.World, gc, cr bool, pool []*x509.Certificate, poolNil bool, tags ...string) {
	s := w.Spec
	s.GC, s.CR, s.PoolNil = gc, cr, poolNil
	w.PoolCerts = pool
	// the caller writes a setting into its options value when it wants to CHANGE it — not before every call
	if !sh.set || sh.gc != gc {
		sh.o.GetCollateral = gc
	}
	if !sh.set || sh.cr != cr {
		sh.o.CheckRevocations = cr
	}
	sh.set, sh.gc, sh.cr = true, gc, cr
	sh.o.Getter, sh.o.TrustedRoots = w.Getter, w.Pool()
	cur := sh.o.Now
	s.Now = c12Arr(cur) // the line carries exactly what the shared value holds now
	clock := time.Now()
	vr := c05RunWith(w, sh.o)
	fail := c12URLRules(w, gc, cr, vr.urls)
	if cur == nil && sh.o.Now != nil {
		tags = append(tags, "F9-shape:seen(Now-nil-before,set-after)")
		if fail == "" {
			fail = c12F9Shape()
		}
	}
	// fresh options, Now as the caller set it
	line := w.Facts(verifyFx, msgTokens(w.Quote), clock)
	s.Now = sh.intended
	clock2 := time.Now()
	fr := runVerify(w)
	if fr.accepted != vr.accepted && !vr.panicked && !fr.panicked {
		why := fmt.Sprintf("verdict depends on history: through the shared options value %s, through fresh options %s", strings.SplitN(vr.obs, " ", 2)[0], strings.SplitN(fr.obs, " ", 2)[0])
		if cur != nil && sh.intended == nil {
			why += fmt.Sprintf(" (the shared value carries Now=%s left behind by an earlier call; the caller never set it)", cur.PckCertChain.UTC().Format(time.RFC3339Nano))
		}
		if fail != "" {
			why += "; " + fail
		}
		fail = why
	}
	// emit the shared call (line rendered before the fresh run touched Spec.Now)
	s.Now = c12Arr(cur)
	if vr.panicked {
		fail = "crash in verify.TdxQuote"
	} else if fail == "" {
		fail = vr.side
	}
	cls := "-"
	if vr.err != nil {
		cls = strings.ReplaceAll(hx.Trunc(vr.err.Error(), 40), " ", "_")
	}
	key := fmt.Sprintf("shared|%s|%v|%v|%s|%d", s.Fault, gc, cr, cls, hx.Fnv1a([]byte(line))%64)
	nowTag := "shared-now:nil"
	if cur != nil {
		nowTag = "shared-now:set-by-caller"
		if sh.intended == nil {
			nowTag = "shared-now:left-behind-by-earlier-call"
		}
	}
	r.Emit(line, vr.obs, fail, key, true, append(tags, "call:shared", nowTag, "verdict:"+strings.SplitN(vr.obs, " ", 2)[0], fmt.Sprintf("opts:gc%dcr%d", hx.B(gc), hx.B(cr)))...)
	s.Now = sh.intended
	c05Emit(r, w, fr, clock2, "", append(tags, "call:fresh")...)
}

// c12Wall: honest spec with all windows moved to the wall clock (needed wherever Options.Now is nil).
func c12Wall(rng *rand.Rand, now time.Time) *world.Spec {
	s := honestSpec(rng)
	c12Shift(s, now.Truncate(time.Hour).Sub(t0))
	return s
}

// c12RealTime: finding F9 in its history form with real time.
func c12RealTime(r *hx.Run, idx int) {
	rng := c05CaseRng(r, 0x32, idx)
	s1 := c12Wall(rng, time.Now())
	s1.Fault = "realtime-world-1"
	w1 := world.Build(s1)
	sh := &c12Shared{o: &verify.Options{}}
	c12Step(r, sh, w1, true, true, w1.PoolCerts, false, "history:real-time", "step:1")
	// world 2: every certificate becomes valid 1–2 s from now
	s2 := c12Wall(rng, time.Now())
	s2.Fault = "realtime-world-2(certificates-valid-from-now+1.5s)"
	nbf := time.Now().Add(2 * time.Second).Truncate(time.Second)
	for _, c := range s2.Certs {
		c.NotBefore = nbf
	}
	w2 := world.Build(s2)
	time.Sleep(time.Until(nbf.Add(200 * time.Millisecond)))
	c12Step(r, sh, w2, true, true, w2.PoolCerts, false, "history:real-time", "step:2")
}

func c12(r *hx.Run) {
	faults := c12Faults()
	worlds, histories, realtime := 520, 200, 1
	if r.Tier == "thorough" {
		worlds, histories, realtime = 5000, 2000, 2
	}
	c12F9Reported = 0
	// (a) real time first (so that the replay of the first failure is the F9 history)
	for i := 0; i < realtime; i++ {
		c12RealTime(r, i)
	}
	// (b) population × four option combinations
	for i := 0; i < worlds; i++ {
		rng := c05CaseRng(r, 0x12, i)
		f := faults[(i-i/4)%len(faults)] // every fault in turn (the honest slots i%4 == 3 do not consume a turn)
		if i%4 == 3 {
			f = faults[0]
		}
		var s *world.Spec
		wall := i%29 == 28 // a few worlds around the wall clock with Options.Now = nil
		if wall {
			s = c12Wall(rng, time.Now())
		} else {
			s = honestSpec(rng)
		}
		f.apply(s, rng)
		s.Fault = f.name
		tags := []string{"fault:" + f.name, "family:population"}
		if wall {
			s.Now = nil
			tags = append(tags, "now:nil(wall-clock)")
		}
		c12All4(r, world.Build(s), tags...)
	}
	// (c) histories
	for i := 0; i < histories; i++ {
		rng := c05CaseRng(r, 0x22, i)
		now := time.Now()
		n := 2 + rng.IntN(3)
		sh := &c12Shared{o: &verify.Options{}}
		var ws []*world.World
		ownPool := func(w *world.World) []*x509.Certificate {
			var out []*x509.Certificate
			for _, role := range w.Spec.Pool {
				out = append(out, w.Certs[role].Cert)
			}
			return out
		}
		hist := fmt.Sprintf("history:len%d", n)
		for k := 0; k < n; k++ {
			// the world: a new one (honest or faulty) or one seen before
			var w *world.World
			if len(ws) > 0 && rng.IntN(4) == 0 {
				w = ws[rng.IntN(len(ws))]
			} else {
				f := faults[0]
				if rng.IntN(2) == 0 {
					f = faults[rng.IntN(len(faults))]
				}
				s := c12Wall(rng, now)
				f.apply(s, rng)
				s.Fault = f.name
				w = world.Build(s)
				ws = append(ws, w)
			}
			// Now: leave alone (most), set, reset to nil
			nowTag := "now:left-alone"
			switch x := rng.IntN(10); {
			case x < 3:
				T := [5]time.Time{}
				for j := range T {
					T[j] = now.Truncate(time.Hour).Add(time.Duration(j+1)*time.Hour + time.Duration(rng.IntN(3600))*time.Second)
				}
				if rng.IntN(6) == 0 { // a time set at which the world is out of date
					T[rng.IntN(5)] = now.Add(time.Duration(3000+rng.IntN(1000)) * time.Hour)
				}
				sh.o.Now, sh.intended = c12Set(&T), &T
				nowTag = "now:set"
			case x < 5:
				sh.o.Now, sh.intended = nil, nil
				nowTag = "now:reset-to-nil"
			}
			o := c05Levels[[]int{0, 0, 0, 1, 1, 2, 2, 3}[rng.IntN(8)]]
			// trusted roots: the world's own pool, a foreign root, nil (embedded)
			pool, poolNil, poolTag := ownPool(w), w.Spec.Pool == nil, "roots:own"
			switch x := rng.IntN(10); {
			case x == 0 && len(ws) > 1 && ws[0] != w && len(ownPool(ws[0])) > 0:
				pool, poolNil, poolTag = ownPool(ws[0]), false, "roots:of-another-world"
			case x == 1:
				pool, poolNil, poolTag = nil, true, "roots:nil(embedded)"
			}
			c12Step(r, sh, w, o[0], o[1], pool, poolNil, hist, fmt.Sprintf("step:%d", k+1), nowTag, poolTag, "fault:"+w.Spec.Fault, "family:history")
		}
	}
	// (d) every fault, verified repeatedly at the two collateral levels
	for i, f := range faults {
		rng := c05CaseRng(r, 0x42, i)
		s := c12Wall(rng, time.Now())
		f.apply(s, rng)
		s.Fault = f.name
		w := world.Build(s)
		for _, o := range [][2]bool{{true, true}, {true, false}} {
			w.Spec.GC, w.Spec.CR = o[0], o[1]
			c12Repeat(r, w, map[bool]int{true: 40, false: 8}[r.Tier == "thorough"], "fault:"+f.name)
		}
	}
	// (e) systematic two-call histories over FAULTY worlds through one options value with both options on: a quote that an
	// early check refuses, then a quote that only a later check (collateral, revocation) refuses — whatever the refused call
	// left in the options, the next call performs every check its settings ask for
	{
		byName := map[string]c12Fault{}
		for _, f := range faults {
			byName[f.name] = f
		}
		firsts := []string{"leaf-expired", "leaf-not-yet-valid", "foreign-root-in-pool", "quote-signature-by-foreign-key", "report-data-hash-wrong", "tee-type-not-tdx", "tcbinfo-fetch-fails", "tcb-level-OutOfDate", "honest"}
		seconds := []string{"leaf-revoked", "intermediate-revoked", "collateral-signer-revoked", "pckcrl-fetch-fails", "pckcrl-signed-by-foreign-key", "rootcrl-expired", "tcb-level-OutOfDate", "qe-level-OutOfDate", "tcbinfo-signature-by-foreign-key", "honest"}
		idx := 0
		for _, a := range firsts {
			for _, b := range seconds {
				idx++
				if r.Tier != "thorough" && idx%2 == 0 && a != "leaf-expired" {
					continue
				}
				rng := c05CaseRng(r, 0x62, idx)
				now := time.Now()
				mk := func(name string) *world.World {
					s := c12Wall(rng, now)
					byName[name].apply(s, rng)
					s.Fault = name
					return world.Build(s)
				}
				w1, w2 := mk(a), mk(b)
				own := func(w *world.World) []*x509.Certificate {
					var out []*x509.Certificate
					for _, role := range w.Spec.Pool {
						out = append(out, w.Certs[role].Cert)
					}
					return out
				}
				sh := &c12Shared{o: &verify.Options{}}
				tags := []string{"history:fault-pair", "family:fault-pair", "first:" + a, "second:" + b}
				c12Step(r, sh, w1, true, true, own(w1), w1.Spec.Pool == nil, append(tags, "step:1")...)
				c12Step(r, sh, w2, true, true, own(w2), w2.Spec.Pool == nil, append(tags, "step:2")...)
			}
		}
	}
	c12UnsetCrlInstants(r)
	c06Reissue(r)
	// through one shared options value: a world is accepted, then its endpoints start serving CRLs that list one of its
	// certificates — nothing the earlier call established (authenticated chains, scanned lists) may stand in for this call's checks
	for i := 0; i < map[bool]int{true: 120, false: 12}[r.Tier == "thorough"]; i++ {
		rng := c05CaseRng(r, 0x32, i)
		w := world.Build(c12Wall(rng, time.Now()))
		var own []*x509.Certificate
		for _, role := range w.Spec.Pool {
			own = append(own, w.Certs[role].Cert)
		}
		sh := &c12Shared{o: &verify.Options{}}
		first := c05Levels[[]int{0, 1, 1}[i%3]]
		c12Step(r, sh, w, first[0], first[1], own, w.Spec.Pool == nil, "history:crl-reissue", "step:1")
		what := []string{"signer", "inter", "leaf"}[(i/3)%3]
		if what == "leaf" {
			c := w.Spec.PckCrl
			c.Revoked = append(append([]*big.Int{}, c.Revoked...), w.Spec.Cert("leaf").Serial)
			w.ReplacePckCrl(c)
		} else {
			c := w.Spec.RootCrls[0]
			c.Revoked = append(append([]*big.Int{}, c.Revoked...), w.Spec.Cert(what).Serial)
			w.ReplaceRootCrl(0, c)
		}
		w.Spec.Fault, w.Spec.Honest = "crl-now-lists-the-"+what, false
		c12Step(r, sh, w, true, true, own, w.Spec.Pool == nil, "history:crl-reissue", "step:2", "now-listed:"+what)
	}
	cvPairHistories(r, 0x2212, "C12", map[bool]int{true: 1, false: 2}[r.Tier == "thorough"])
	r.Note("population", fmt.Sprintf("%d faults; %d worlds x 4 option combinations; %d histories of length 2-4; %d real-time histories + systematic pair histories", len(faults), worlds, histories, realtime))
}

// cvPairHistories: systematic two- and three-call histories over HONEST worlds through one shared *verify.Options: every
// ordered pair of option levels × {same world, another world with the same names and other keys} × trusted-roots transition
// {own→own, own→nil(embedded), own→the other world's, the other world's→own}; a third call repeats the first call's settings.
// Used by C02 (pool transitions), C05 (levels involving revocation), C11 (honest worlds, every level order) and C12 (all):
// whatever an earlier call left in the options (collateral, CRLs, chain, extensions, pools, times) must not count.
func cvPairHistories(r *hx.Run, family uint64, which string, stride int) {
	now := time.Now()
	idx := 0
	for a := 0; a < 4; a++ {
		for b := 0; b < 4; b++ {
			for other := 0; other < 2; other++ {
				for tr := 0; tr < 4; tr++ {
					switch which {
					case "C02":
						if !(a == b && (a == 1 || a == 2)) && !(a == 2 && b == 1) {
							continue
						}
					case "C05":
						if tr != 0 || (a != 0 && a != 3 && b != 0 && b != 3) {
							continue
						}
					case "C11":
						if tr != 0 {
							continue
						}
					}
					idx++
					if stride > 1 && idx%stride != 0 {
						continue
					}
					rng := c05CaseRng(r, family, idx)
					w1, w2 := world.Build(c12Wall(rng, now)), world.Build(c12Wall(rng, now))
					own := func(w *world.World) []*x509.Certificate {
						var out []*x509.Certificate
						for _, role := range w.Spec.Pool {
							out = append(out, w.Certs[role].Cert)
						}
						return out
					}
					second := w1
					if other == 1 {
						second = w2
					}
					type poolSel struct {
						certs []*x509.Certificate
						isNil bool
						name  string
					}
					p1, p2 := poolSel{own(w1), false, "own"}, poolSel{own(second), false, "own"}
					switch tr {
					case 1:
						p2 = poolSel{nil, true, "nil(embedded)"}
					case 2:
						p2 = poolSel{own(map[bool]*world.World{true: w1, false: w2}[other == 1]), false, "of-the-other-world"}
					case 3:
						p1 = poolSel{own(w2), false, "of-the-other-world"}
					}
					sh := &c12Shared{o: &verify.Options{}}
					hist := fmt.Sprintf("history:pair:%s", which)
					lv := func(i int) string { return fmt.Sprintf("gc%dcr%d", hx.B(c05Levels[i][0]), hx.B(c05Levels[i][1])) }
					tags := []string{hist, "family:pair-history", "levels:" + lv(a) + ">" + lv(b), fmt.Sprintf("second-world:%s", map[int]string{0: "same", 1: "other"}[other]), "roots:" + p1.name + ">" + p2.name}
					c12Step(r, sh, w1, c05Levels[a][0], c05Levels[a][1], p1.certs, p1.isNil, append(tags, "step:1")...)
					c12Step(r, sh, second, c05Levels[b][0], c05Levels[b][1], p2.certs, p2.isNil, append(tags, "step:2")...)
					c12Step(r, sh, w1, c05Levels[a][0], c05Levels[a][1], p1.certs, p1.isNil, append(tags, "step:3")...)
				}
			}
		}
	}
}
