package main

import (
	"strconv"
	"net/http/httptest"
	"net/http"
	"compress/gzip"
	"github.com/google/go-tdx-guest/verify/trust"
	"bytes"
	"sort"
	"encoding/json"
	"encoding/hex"
	"fmt"
	"math/big"
	"strings"
	"time"

	"github.com/google/go-tdx-guest/abi"
	pb "github.com/google/go-tdx-guest/proto/tdx"
	"github.com/google/go-tdx-guest/validate"
	"github.com/google/go-tdx-guest/verify"
	"google.golang.org/protobuf/proto"

	"tdxharness/hx"
	"tdxharness/world"
)

func init() { drivers["C10"] = c10 }

// C10: every generator that feeds untrusted bytes / messages / collateral to a public entry point is re-run under the
// crash-only oracle (any panic, any call that does not return within 30 s), and the entry points no other driver reaches
// with adversarial input are exercised here.
func c10(r *hx.Run) {
	r.CrashOnly = true
	c09(r, true) // abi.QuoteToProto on truncations / size-field boundaries / mutants; QuoteToAbiBytes etc. on structural mutants
	c08(r, true) // validate.TdxQuote on option variants and structural mutants
	c13(r)       // pcs.PckCertificateExtensions on malformed / mutated DER
	c18(r)       // rtmr.GetRtmrsFromTdQuote and ParseCcelWithTdQuote on structural mutants
	rng := r.Rng(10)
	thorough := r.Tier == "thorough"

	crashCase := func(name string, key string, f func() string) {
		obs, stack := hx.GuardTimeout(30*time.Second, f)
		fail := ""
		if obs == "panic" {
			fail = "crash: " + strings.SplitN(stack, "\n", 2)[0]
		} else if obs == "hang" {
			fail = "hang: no result after 30 s"
		}
		r.Emit("# C10."+name+" "+key, obs, fail, name+"|"+key, true, "c10:"+name, "obs:"+obs)
	}
	errStr := func(err error) string {
		if err != nil {
			return "err"
		}
		return "ok"
	}

	// an endpoint that never answers behind the library's own retrying getter: the verification gives up, it does not hang
	// (every setting of the retry delay, also unset; the 30 s watchdog is 100 times the configured timeout)
	for _, maxDelay := range []time.Duration{0, -time.Second, time.Millisecond, 50 * time.Millisecond, 10 * time.Second} {
		for _, cr := range []bool{false, true} {
			maxDelay, cr := maxDelay, cr
			crashCase("verify.RawTdxQuote", fmt.Sprintf("retry-getter-endpoint-down max=%v cr=%v", maxDelay, cr), func() string {
				g := &trust.RetryHTTPSGetter{Timeout: 300 * time.Millisecond, MaxRetryDelay: maxDelay, Getter: &world.Getter{M: map[string]*world.Response{}}}
				return errStr(verify.RawTdxQuote(sampleQuote(), &verify.Options{GetCollateral: true, CheckRevocations: cr, Getter: g}))
			})
		}
	}
	// the library's own plain getter against a loopback server: responses framed every way HTTP allows (with and without a
	// Content-Length, chunked, compressed, empty, cut short), error statuses, and requests that fail before any response exists
	// (refused connection, unsupported scheme, unparsable URL) — a result or an error, and a successful result is what was served
	{
		payload := bytes.Repeat([]byte("collateral "), 300)
		mux := http.NewServeMux()
		mux.HandleFunc("/length", func(w http.ResponseWriter, _ *http.Request) {
			w.Header().Set("Content-Length", strconv.Itoa(len(payload)))
			w.Write(payload)
		})
		mux.HandleFunc("/chunked", func(w http.ResponseWriter, _ *http.Request) {
			for i := 0; i < len(payload); i += 500 {
				w.Write(payload[i:min(i+500, len(payload))])
				w.(http.Flusher).Flush()
			}
		})
		mux.HandleFunc("/gzip", func(w http.ResponseWriter, _ *http.Request) {
			w.Header().Set("Content-Encoding", "gzip")
			zw := gzip.NewWriter(w)
			zw.Write(payload)
			zw.Close()
		})
		mux.HandleFunc("/empty", func(w http.ResponseWriter, _ *http.Request) { w.WriteHeader(200) })
		mux.HandleFunc("/nocontent", func(w http.ResponseWriter, _ *http.Request) { w.WriteHeader(204) })
		mux.HandleFunc("/short", func(w http.ResponseWriter, _ *http.Request) { // announces more than it sends, then hangs up
			w.Header().Set("Content-Length", strconv.Itoa(len(payload)+100))
			w.Write(payload)
			if hj, ok := w.(http.Hijacker); ok {
				if c, _, err := hj.Hijack(); err == nil {
					c.Close()
				}
			}
		})
		for _, code := range []int{301, 404, 500} {
			code := code
			mux.HandleFunc(fmt.Sprintf("/status%d", code), func(w http.ResponseWriter, _ *http.Request) { w.WriteHeader(code); w.Write([]byte("no")) })
		}
		srv := httptest.NewServer(mux)
		dead := httptest.NewServer(mux)
		deadURL := dead.URL
		dead.Close()
		type gcase struct {
			name, url string
			wantBody  []byte
			wantErr   bool
		}
		cases := []gcase{{"content-length", srv.URL + "/length", payload, false}, {"chunked", srv.URL + "/chunked", payload, false}, {"gzip", srv.URL + "/gzip", payload, false},
			{"empty-200", srv.URL + "/empty", []byte{}, false}, {"204", srv.URL + "/nocontent", []byte{}, false}, {"short-body", srv.URL + "/short", nil, true},
			{"status-301-no-location", srv.URL + "/status301", nil, true}, {"status-404", srv.URL + "/status404", nil, true}, {"status-500", srv.URL + "/status500", nil, true},
			{"connection-refused", deadURL + "/length", nil, true}, {"unsupported-scheme", "gopher://127.0.0.1/x", nil, true}, {"unparsable-url", "http://[::1", nil, true},
			{"empty-url", "", nil, true}}
		for _, c := range cases {
			c := c
			for _, wrap := range []string{"simple", "retrying"} {
				var g trust.HTTPSGetter = &trust.SimpleHTTPSGetter{}
				if wrap == "retrying" {
					g = &trust.RetryHTTPSGetter{Timeout: 300 * time.Millisecond, MaxRetryDelay: 50 * time.Millisecond, Getter: &trust.SimpleHTTPSGetter{}}
				}
				var body []byte
				var err error
				obs, stack := hx.GuardTimeout(30*time.Second, func() string { _, body, err = g.Get(c.url); return errStr(err) })
				fail := ""
				switch {
				case obs == "panic":
					fail = "crash: " + strings.SplitN(stack, "\n", 2)[0]
				case obs == "hang":
					fail = "hang: no result after 30 s"
				case c.wantErr && err == nil:
					fail = fmt.Sprintf("a request that cannot have delivered the document returned %d bytes and no error", len(body))
				case !c.wantErr && err != nil:
					fail = "a served response was not delivered: " + err.Error()
				case !c.wantErr && !bytes.Equal(body, c.wantBody):
					fail = fmt.Sprintf("the body returned (%d bytes) is not the body served (%d bytes)", len(body), len(c.wantBody))
				}
				r.Emit("# C10.getter "+wrap+" "+c.name, obs, fail, "getter|"+wrap+"|"+c.name, true, "c10:plain-getter", "obs:"+obs)
			}
		}
		srv.Close()
	}
	// RawTdxQuote (verify and validate) on raw bytes
	intel := sampleQuote()
	step := 16
	if thorough {
		step = 1
	}
	for n := 0; n <= len(intel); n += step {
		b := intel[:n]
		crashCase("verify.RawTdxQuote", fmt.Sprintf("trunc=%d", n), func() string { return errStr(verify.RawTdxQuote(b, &verify.Options{})) })
		crashCase("validate.RawTdxQuote", fmt.Sprintf("trunc=%d", n), func() string { return errStr(validate.RawTdxQuote(b, &validate.Options{})) })
	}
	nm := 400
	if thorough {
		nm = 8000
	}
	for i := 0; i < nm; i++ {
		b := append([]byte{}, intel...)
		for k := 0; k < 1+rng.IntN(4); k++ {
			b[rng.IntN(len(b))] = byte(rng.UintN(256))
		}
		if rng.IntN(3) == 0 {
			b = b[:rng.IntN(len(b)+1)]
		}
		key := fmt.Sprintf("mut=%d", hx.Fnv1a(b))
		crashCase("verify.RawTdxQuote", key, func() string { return errStr(verify.RawTdxQuote(b, &verify.Options{})) })
		crashCase("validate.RawTdxQuote", key, func() string { return errStr(validate.RawTdxQuote(b, nil)) })
	}
	// nil / typed-nil / wrong-type arguments
	for _, a := range []any{nil, (*pb.QuoteV4)(nil), &pb.QuoteV4{}, "x", 7, []byte{1, 2}, &pb.Header{}} {
		a := a
		key := fmt.Sprintf("arg=%T", a)
		crashCase("verify.TdxQuote", key, func() string { return errStr(verify.TdxQuote(a, &verify.Options{})) })
		crashCase("verify.TdxQuote-nil-options", key, func() string { return errStr(verify.TdxQuote(a, nil)) })
		crashCase("validate.TdxQuote", key, func() string { return errStr(validate.TdxQuote(a, &validate.Options{})) })
		crashCase("validate.TdxQuote-nil-options", key, func() string { return errStr(validate.TdxQuote(a, nil)) })
		crashCase("abi.QuoteToAbiBytes", key, func() string { _, err := abi.QuoteToAbiBytes(a); return errStr(err) })
		crashCase("verify.ExtractChainFromQuote", key, func() string { _, err := verify.ExtractChainFromQuote(a); return errStr(err) })
		crashCase("verify.SupportedTcbLevelsFromCollateral", key, func() string {
			_, _, err := verify.SupportedTcbLevelsFromCollateral(a, &verify.Options{})
			return errStr(err)
		})
	}
	// structurally arbitrary messages through verify.TdxQuote with honest collateral (model compared as well)
	base := world.Build(func() *world.Spec { s := honestSpec(rng); s.GC, s.CR = true, true; return s }())
	structuralMutants(base.Quote, rng, func(name string, q *pb.QuoteV4) {
		if strings.HasPrefix(name, "num") && !thorough && !strings.HasSuffix(name, ":65536") {
			return
		}
		w := *base
		w.Quote = q
		emitWorld(r, &w, nil, "struct:"+strings.SplitN(name, ":", 2)[0])
		crashCase("verify.ExtractChainFromQuote", "struct="+name, func() string { _, err := verify.ExtractChainFromQuote(q); return errStr(err) })
	})
	// verify.SupportedTcbLevelsFromCollateral on the state an earlier verification left in the options: the message it is
	// given is as untrusted as any other (absent sub-messages, byte fields of every length, typed nil, other types)
	// … also when the (genuinely signed) TCB Info lists levels with fewer TDX / SGX components than a platform has, or none
	lvBases := []*world.World{base}
	for _, raw := range [][]int{{}, {3}, {3, 0}, {1, 2, 3, 4, 5, 6, 7, 8, 9, 10, 11, 12, 13, 14, 15}} {
		for _, which := range []string{"tdx", "sgx"} {
			s := honestSpec(rng)
			s.GC, s.CR = true, true
			for i := range s.Tcb.Levels {
				if which == "tdx" {
					s.Tcb.Levels[i].TdxRaw = raw
				} else {
					s.Tcb.Levels[i].SgxRaw = raw
				}
			}
			s.Fault = fmt.Sprintf("levels-with-%d-%s-components", len(raw), which)
			lvBases = append(lvBases, world.Build(s))
		}
	}
	for bi, base := range lvBases {
	for _, gcFirst := range []bool{true, false} {
		if bi > 0 && !gcFirst {
			continue
		}
		filled := func() *verify.Options {
			o := &verify.Options{GetCollateral: gcFirst, CheckRevocations: gcFirst, Getter: &world.Getter{M: base.Getter.M}, TrustedRoots: base.Pool()}
			if n := base.Spec.Now; n != nil {
				o.Now = vTimeSet(n)
			}
			hx.Guard(func() string { verify.TdxQuote(proto.Clone(base.Quote).(*pb.QuoteV4), o); return "" })
			return o
		}
		structuralMutants(base.Quote, rng, func(name string, q *pb.QuoteV4) {
			if strings.HasPrefix(name, "num") && !thorough && !strings.HasSuffix(name, ":65536") {
				return
			}
			o := filled()
			crashCase("verify.SupportedTcbLevelsFromCollateral-after-verify", fmt.Sprintf("base=%d collateral=%v struct=%s", bi, gcFirst, name), func() string {
				_, _, err := verify.SupportedTcbLevelsFromCollateral(q, o)
				return errStr(err)
			})
		})
		for _, a := range []any{nil, (*pb.QuoteV4)(nil), &pb.QuoteV4{}, "x", &pb.Header{}} {
			a, o := a, filled()
			crashCase("verify.SupportedTcbLevelsFromCollateral-after-verify", fmt.Sprintf("base=%d collateral=%v arg=%T", bi, gcFirst, a), func() string {
				_, _, err := verify.SupportedTcbLevelsFromCollateral(a, o)
				return errStr(err)
			})
		}
	}
	}
	// arbitrary chain bytes
	chainOf := func(q *pb.QuoteV4, chain []byte) *pb.QuoteV4 {
		c := proto.Clone(q).(*pb.QuoteV4)
		c.SignedData.CertificationData.QeReportCertificationData.PckCertificateChainData.PckCertChain = chain
		c.SignedData.CertificationData.QeReportCertificationData.PckCertificateChainData.Size = uint32(len(chain))
		return c
	}
	good := base.Quote.SignedData.CertificationData.QeReportCertificationData.PckCertificateChainData.PckCertChain
	chains := [][]byte{nil, {}, {0}, []byte("-----BEGIN CERTIFICATE-----\n"), []byte("-----BEGIN CERTIFICATE-----\nAAAA\n-----END CERTIFICATE-----\n"), good[:len(good)/2], good[:len(good)-1],
		append(append([]byte{}, good...), 0, 0), append(append([]byte{}, good...), good...), []byte(strings.Repeat("-----BEGIN CERTIFICATE-----\n-----END CERTIFICATE-----\n", 3))}
	nc := 60
	if thorough {
		nc = 2000
	}
	for i := 0; i < nc; i++ {
		c := append([]byte{}, good...)
		for k := 0; k < 1+rng.IntN(6); k++ {
			c[rng.IntN(len(c))] = byte(rng.UintN(256))
		}
		chains = append(chains, c)
	}
	for i, c := range chains {
		w := *base
		w.Quote = chainOf(base.Quote, c)
		emitWorld(r, &w, nil, "chain-bytes")
		_ = i
	}
	// arbitrary collateral, CRL and issuer-chain responses
	bodies := [][]byte{{}, []byte("null"), []byte("[]"), []byte("{}"), []byte("{"), []byte(`{"tcbInfo":null,"signature":null}`), []byte(`{"tcbInfo":{},"signature":""}`),
		[]byte(`{"tcbInfo":{"version":300},"signature":"00"}`), []byte(`{"tcbInfo":{"tcbLevels":[{"tcb":{"sgxtcbcomponents":[{"svn":256}]}}]},"signature":"zz"}`),
		[]byte(`{"tcbInfo":{"tdxModule":{"mrsigner":"0g"}},"signature":"00"}`), []byte(`{"tcbInfo":{"tcbLevels":[{"tcbStatus":"Fine"}]},"signature":"00"}`),
		[]byte(`{"tcbInfo":{"nextUpdate":"yesterday"},"signature":"00"}`), []byte(`{"tcbInfo":{"tcbLevels":[{"tcb":{"pcesvn":99999999999999999999}}]}}`),
		[]byte(`{"enclaveIdentity":{"miscselect":"00","miscselectMask":"","attributes":"0011","attributesMask":"00"},"signature":"00"}`),
		[]byte(`{"tcbInfo":{"tdxModuleIdentities":[null,{"id":"TDX_01","tcbLevels":null}],"tcbLevels":[null]},"signature":"00"}`),
		[]byte(strings.Repeat("[", 10000)), []byte(`{"tcbInfo":` + strings.Repeat(`{"a":`, 2000) + `1` + strings.Repeat(`}`, 2000) + `}`)}
	nb := 40
	if thorough {
		nb = 1500
	}
	honest := world.Build(func() *world.Spec { s := honestSpec(rng); s.GC, s.CR = true, true; return s }())
	hb := honest.Getter.M[honest.TcbURL].Body
	for i := 0; i < nb; i++ {
		b := append([]byte{}, hb...)
		for k := 0; k < 1+rng.IntN(5); k++ {
			b[rng.IntN(len(b))] = byte(rng.UintN(256))
		}
		bodies = append(bodies, b)
	}
	// every member of a genuine TCB Info / QE Identity body (once per member name; thorough: every occurrence) replaced by every
	// other kind of JSON value — the custom decoders (hex strings, status strings, dates) see numbers, booleans, nulls,
	// one-character scalars, objects and arrays where they expect strings, and vice versa
	kinds := []string{`7`, `0`, `-1`, `1e3`, `true`, `null`, `""`, `"7"`, `"zz"`, `"0"`, `{}`, `[]`, `[1]`, `"\u0041"`}
	tcbBodies := c10MemberSwaps(hb, kinds, !thorough)
	qeBodies := c10MemberSwaps(honest.Getter.M[honest.QeURL].Body, kinds, !thorough)
	for _, which := range []string{"tcb", "qe"} {
		bs := bodies
		if which == "tcb" {
			bs = append(append([][]byte{}, bodies...), tcbBodies...)
		} else {
			bs = append(append([][]byte{}, bodies...), qeBodies...)
		}
		for _, b := range bs {
			s := honestSpec(rng)
			s.GC, s.CR, s.Honest, s.Fault = true, rng.IntN(2) == 0, false, "arbitrary-"+which+"-body"
			if which == "tcb" {
				s.TcbResp.BodyOverride = b
			} else {
				s.QeResp.BodyOverride = b
			}
			if len(b) == 0 {
				if which == "tcb" {
					s.TcbResp.BodyOverride = []byte{}
				} else {
					s.QeResp.BodyOverride = []byte{}
				}
			}
			emitWorld(r, world.Build(s), nil, "collateral-body:"+which)
		}
	}
	// the "signature" member of an otherwise genuine response (issuer chain, id, version, levels, dates all fine, so that the
	// signature really is decoded and converted): every length from nothing to far more than the 64 bytes of r||s
	for _, n := range []int{0, 1, 31, 32, 33, 63, 65, 66, 72, 96, 127, 128, 129, 200, 1024, 70000} {
		for _, which := range []string{"tcb", "qe"} {
			for _, how := range []string{"grown", "zeros", "ff"} {
				n, how := n, how
				s := honestSpec(rng)
				s.GC, s.CR, s.Honest, s.Fault = true, rng.IntN(2) == 0, false, fmt.Sprintf("signature-of-%d-bytes(%s)", n, how)
				mut := func(b []byte) []byte {
					out := make([]byte, n)
					switch how {
					case "grown": // the genuine signature, cut or followed by more bytes
						copy(out, b)
						for i := len(b); i < n; i++ {
							out[i] = byte(i)
						}
					case "ff":
						for i := range out {
							out[i] = 0xff
						}
					}
					return out
				}
				if which == "tcb" {
					s.TcbResp.SigMut = mut
				} else {
					s.QeResp.SigMut = mut
				}
				emitWorld(r, world.Build(s), nil, "collateral-signature-length:"+which)
			}
		}
	}
	// a genuinely signed QE Identity / TCB Info whose hex-string members have every length but the right one — ONE member at a
	// time (the other members keep their size): the fixed-width reads behind them must be guarded one by one
	for _, n := range []int{0, 1, 2, 3, 5, 8, 15, 17, 31, 33, 47, 49} {
		for fi, name := range []string{"miscselect", "miscselectMask", "attributes", "attributesMask", "mrsigner", "tdx-mrsigner", "tdx-attributes", "tdx-attributesMask"} {
			s := honestSpec(rng)
			s.GC, s.CR, s.Honest, s.Fault = true, rng.IntN(4) == 0, false, fmt.Sprintf("identity-member-%s-of-%d-bytes", name, n)
			v := hex.EncodeToString(hx.RandBytes(rng, n))
			switch fi {
			case 0:
				s.Qe.Miscselect = v
			case 1:
				s.Qe.MiscselectMask = v
			case 2:
				s.Qe.Attributes = v
			case 3:
				s.Qe.AttributesMask = v
			case 4:
				s.Qe.Mrsigner = v
			case 5:
				s.Tcb.Mrsigner = v
			case 6:
				s.Tcb.Attributes = v
			default:
				s.Tcb.Mask = v
			}
			emitWorld(r, world.Build(s), nil, "collateral-member-length:"+name)
		}
	}
	// TDX module identities with ids of every shape in front of (or instead of) the one the quote's module version selects
	for _, id := range []string{"", "TDX_", "TDX", "T", "TDX_0", "TDX_1", "TDX_001", "TDX_zz", "tdx_01", "TDX_01 ", "TDX__01", "_", "TDX_\u0000"} {
		for _, keepHonest := range []bool{true, false} {
			s := honestSpec(rng)
			s.Quote.Body.TeeTcbSvn[1] = byte(1 + rng.IntN(3))
			s.GC, s.CR, s.Honest, s.Fault = true, rng.IntN(4) == 0, false, fmt.Sprintf("module-identity-id-%q", id)
			odd := world.ModIdentity{ID: id, Levels: []world.ModLevel{{Isvsvn: 0, Status: "UpToDate"}}}
			hon := world.ModIdentity{ID: fmt.Sprintf("TDX_%02x", s.Quote.Body.TeeTcbSvn[1]), Levels: []world.ModLevel{{Isvsvn: 0, Status: "UpToDate"}}}
			if keepHonest {
				s.Tcb.Identities = []world.ModIdentity{odd, hon}
			} else {
				s.Tcb.Identities = []world.ModIdentity{odd}
			}
			w := world.Build(s)
			emitWorld(r, w, nil, "module-identity-id")
			// … and the level-reporting API on the options this verification filled
			o := &verify.Options{GetCollateral: true, Getter: &world.Getter{M: w.Getter.M}, TrustedRoots: w.Pool(), Now: vTimeSet(w.Spec.Now)}
			hx.Guard(func() string { verify.TdxQuote(proto.Clone(w.Quote).(*pb.QuoteV4), o); return "" })
			crashCase("verify.SupportedTcbLevelsFromCollateral-after-verify", fmt.Sprintf("module-identity-id=%q alone=%v", id, !keepHonest), func() string {
				_, _, err := verify.SupportedTcbLevelsFromCollateral(proto.Clone(w.Quote).(*pb.QuoteV4), o)
				return errStr(err)
			})
		}
	}
	for _, mode := range []string{"absent", "two", "three", "empty", "novalues", "nilvalues", "badescape", "wrongtype", "garbageder"} {
		for _, which := range []string{"tcb", "qe", "pckcrl"} {
			s := honestSpec(rng)
			s.GC, s.CR, s.Honest, s.Fault = true, true, false, "header-"+mode
			switch which {
			case "tcb":
				s.TcbResp.HdrMode = mode
			case "qe":
				s.QeResp.HdrMode = mode
			default:
				s.PckCrlHdrMode = mode
			}
			emitWorld(r, world.Build(s), nil, "issuer-chain-header:"+mode)
		}
	}
	for _, f := range []string{"garbage", "fail"} {
		s := honestSpec(rng)
		s.GC, s.CR, s.Honest, s.Fault = true, true, false, "crl-"+f
		s.PckCrl.Fetch = f
		emitWorld(r, world.Build(s), nil, "crl:"+f)
		s = honestSpec(rng)
		s.GC, s.CR, s.Honest, s.Fault = true, true, false, "rootcrl-"+f
		s.RootCrls[0].Fetch = f
		emitWorld(r, world.Build(s), nil, "crl:"+f)
	}
	// a CRL with very many entries
	s := honestSpec(rng)
	s.GC, s.CR = true, true
	for i := 0; i < 2000; i++ {
		s.PckCrl.Revoked = append(s.PckCrl.Revoked, big.NewInt(int64(900000+i)))
	}
	emitWorld(r, world.Build(s), nil, "crl:large")
}


// c10MemberSwaps: copies of a JSON body in which one member value (object member or array element, at any depth) is replaced by
// each of the given JSON texts.  oncePerName: only the first occurrence of every member name is replaced.
func c10MemberSwaps(body []byte, kinds []string, oncePerName bool) [][]byte {
	var out [][]byte
	var root any
	dec := json.NewDecoder(bytes.NewReader(body))
	dec.UseNumber()
	if err := dec.Decode(&root); err != nil {
		return nil
	}
	type marker struct{}
	seen := map[string]bool{}
	var walk func(v any, name string, set func(any))
	walk = func(v any, name string, set func(any)) {
		if !oncePerName || !seen[name] {
			seen[name] = true
			for _, k := range kinds {
				set(json.RawMessage(k))
				if b, err := json.Marshal(root); err == nil {
					out = append(out, b)
				}
			}
			set(v)
		}
		switch x := v.(type) {
		case map[string]any:
			keys := make([]string, 0, len(x))
			for k := range x {
				keys = append(keys, k)
			}
			sort.Strings(keys)
			for _, k := range keys {
				k := k
				walk(x[k], k, func(n any) { x[k] = n })
			}
		case []any:
			for i := range x {
				i := i
				walk(x[i], name+"[]", func(n any) { x[i] = n })
			}
		}
	}
	walk(root, "$", func(n any) { root = n })
	_ = marker{}
	return out
}
