package main

// C17 — RTMR extension.  The real rtmr.ExtendDigestClient / rtmr.ExtendEventLogClient of go-tdx-guest
// (and, underneath, the pinned go-configfs-tsm rtmr.ExtendDigest) run against a recording in-memory
// configfsi.Client written here: entries with an `index` attribute, hardware registers with real
// SHA-384 extension, kernel-like refusals (EBUSY on a second binding, EINVAL on a non-48-byte digest).

import (
	"bytes"
	"sync"
	"crypto"
	"crypto/sha512"
	"errors"
	"fmt"
	"io/fs"
	"os"
	"sort"
	"strconv"
	"strings"
	"time"

	"github.com/google/go-configfs-tsm/configfs/configfsi"
	"github.com/google/go-tdx-guest/rtmr"
	_ "golang.org/x/crypto/sha3" // registers SHA3-384: another available hash with a 48-byte output

	"tdxharness/hx"
)

func init() { drivers["C17"] = c17 }

const c17Root = "/sys/kernel/config/tsm/rtmrs"

type c17Entry struct {
	name     string
	isDir    bool
	index    []byte
	readable bool
}

type c17Op struct {
	kind  string // rd rf mk wf rm
	entry string
	attr  string
	data  []byte
	text  string // canonical rendering
}

type c17Tsm struct {
	entries map[string]*c17Entry
	regs    map[uint64][]byte
	serial  int
	ops     []c17Op
	// fault injection (harness-only cases): the next digest write reports an error, after or without extending the register
	faultDigest string // "" | "after" | "before"
}

var _ configfsi.Client = (*c17Tsm)(nil)

func newC17Tsm() *c17Tsm {
	return &c17Tsm{entries: map[string]*c17Entry{}, regs: map[uint64][]byte{}}
}

func (t *c17Tsm) reg(j uint64) []byte {
	if r, ok := t.regs[j]; ok {
		return r
	}
	return make([]byte, 48)
}

// what the TSM itself takes an entry to be bound to
func c17Bound(e *c17Entry) (uint64, bool) {
	if !e.isDir || !e.readable {
		return 0, false
	}
	v, err := strconv.ParseUint(strings.TrimRight(string(e.index), "\n"), 10, 64)
	if err != nil {
		return 0, false
	}
	return v, true
}

type c17DirEntry struct {
	name  string
	isDir bool
}

func (d c17DirEntry) Name() string { return d.name }
func (d c17DirEntry) IsDir() bool  { return d.isDir }
func (d c17DirEntry) Type() fs.FileMode {
	if d.isDir {
		return fs.ModeDir
	}
	return 0
}
func (d c17DirEntry) Info() (fs.FileInfo, error) { return c17FileInfo{d}, nil }

type c17FileInfo struct{ d c17DirEntry }

func (i c17FileInfo) Name() string       { return i.d.name }
func (i c17FileInfo) Size() int64        { return 0 }
func (i c17FileInfo) Mode() fs.FileMode  { return i.d.Type() | 0o755 }
func (i c17FileInfo) ModTime() time.Time { return time.Time{} }
func (i c17FileInfo) IsDir() bool        { return i.d.isDir }
func (i c17FileInfo) Sys() any           { return nil }

func (t *c17Tsm) sortedNames() []string {
	names := make([]string, 0, len(t.entries))
	for n := range t.entries {
		names = append(names, n)
	}
	sort.Strings(names)
	return names
}

func (t *c17Tsm) ReadDir(dirname string) ([]os.DirEntry, error) {
	if dirname != c17Root {
		t.ops = append(t.ops, c17Op{kind: "rd", text: "rd?" + dirname})
		return nil, errors.New("c17: no such directory")
	}
	t.ops = append(t.ops, c17Op{kind: "rd", text: "rd"})
	var out []os.DirEntry
	for _, n := range t.sortedNames() {
		out = append(out, c17DirEntry{n, t.entries[n].isDir})
	}
	return out, nil
}

// splitPath: ".../rtmrs/<entry>/<attr>" → entry, attr
func c17Split(name string) (string, string, bool) {
	rest, ok := strings.CutPrefix(name, c17Root+"/")
	if !ok {
		return "", "", false
	}
	parts := strings.Split(rest, "/")
	if len(parts) != 2 || parts[0] == "" || parts[1] == "" {
		return "", "", false
	}
	return parts[0], parts[1], true
}

func (t *c17Tsm) ReadFile(name string) ([]byte, error) {
	en, attr, ok := c17Split(name)
	if !ok {
		t.ops = append(t.ops, c17Op{kind: "rf", text: "rf?" + name})
		return nil, errors.New("c17: bad path")
	}
	t.ops = append(t.ops, c17Op{kind: "rf", entry: en, attr: attr, text: "rf:" + en + "/" + attr})
	e := t.entries[en]
	if e == nil || !e.isDir {
		return nil, os.ErrNotExist
	}
	switch attr {
	case "index":
		if !e.readable {
			return nil, errors.New("c17: EIO")
		}
		return append([]byte{}, e.index...), nil
	case "digest":
		if j, ok := c17Bound(e); ok {
			return append([]byte{}, t.reg(j)...), nil
		}
		return nil, errors.New("c17: ENXIO")
	}
	return nil, os.ErrNotExist
}

func (t *c17Tsm) MkdirTemp(dir, pattern string) (string, error) {
	if dir != c17Root {
		t.ops = append(t.ops, c17Op{kind: "mk", text: "mk?" + dir + ":" + pattern})
		return "", errors.New("c17: no such directory")
	}
	t.ops = append(t.ops, c17Op{kind: "mk", text: "mk:" + pattern})
	serial := fmt.Sprintf("%010d", t.serial)
	t.serial++
	name := pattern + serial
	if i := strings.LastIndex(pattern, "*"); i >= 0 {
		name = pattern[:i] + serial + pattern[i+1:]
	}
	if _, dup := t.entries[name]; dup {
		return "", os.ErrExist
	}
	t.entries[name] = &c17Entry{name: name, isDir: true, index: []byte{}, readable: true}
	t.ops[len(t.ops)-1].entry = name
	return dir + "/" + name, nil
}

func (t *c17Tsm) WriteFile(name string, contents []byte) error {
	data := append([]byte{}, contents...)
	en, attr, ok := c17Split(name)
	if !ok {
		t.ops = append(t.ops, c17Op{kind: "wf", data: data, text: "wf?" + name + "=" + hx.Hex(data)})
		return errors.New("c17: bad path")
	}
	txt := "wf:" + en + "/" + attr + "="
	if attr == "digest" {
		txt += hx.Fp(data)
	} else {
		txt += hx.Hex(data)
	}
	t.ops = append(t.ops, c17Op{kind: "wf", entry: en, attr: attr, data: data, text: txt})
	e := t.entries[en]
	if e == nil || !e.isDir {
		return os.ErrNotExist
	}
	switch attr {
	case "index":
		j, err := strconv.ParseUint(strings.TrimRight(string(data), "\n"), 10, 64)
		if err != nil {
			return errors.New("c17: EINVAL")
		}
		for _, x := range t.entries {
			if b, ok := c17Bound(x); ok && b == j {
				return errors.New("c17: EBUSY")
			}
		}
		e.index = data
		e.readable = true
		return nil
	case "digest":
		j, ok := c17Bound(e)
		if !ok {
			return errors.New("c17: ENXIO (entry not bound)")
		}
		if len(data) != 48 {
			return errors.New("c17: EINVAL")
		}
		if t.faultDigest == "before" {
			t.faultDigest = ""
			return errors.New("c17: EIO (nothing extended)")
		}
		n := sha512.Sum384(append(append([]byte{}, t.reg(j)...), data...))
		t.regs[j] = n[:]
		if t.faultDigest == "after" {
			t.faultDigest = ""
			return errors.New("c17: EIO (reported after the register was extended)")
		}
		return nil
	}
	return os.ErrPermission
}

func (t *c17Tsm) RemoveAll(path string) error {
	t.ops = append(t.ops, c17Op{kind: "rm", text: "rm:" + path})
	return errors.New("c17: RemoveAll not supported")
}

// ---------------------------------------------------------------------------------------------

type c17Req struct {
	kind   byte // 'd' or 'l'
	idx    int
	digest []byte
	alg    crypto.Hash
	log    []byte
	spec   string
}

type c17Pre struct {
	name  string
	isDir bool
	index []byte // nil + !readable: unreadable
	unrd  bool
}

func (p c17Pre) spec() string {
	k := "d"
	if !p.isDir {
		k = "f"
	}
	ix := "e"
	if p.unrd {
		ix = "x"
	} else if len(p.index) > 0 {
		ix = hx.Hex(p.index)
	}
	return p.name + "/" + k + "/" + ix
}

func c17Digest(n, a, c int) ([]byte, string) {
	if n == 0 {
		return []byte{}, "-"
	}
	return hx.Pat(n, a, c), fmt.Sprintf("@pat:%d:%d:%d", n, a, c)
}

func c17DigestReq(idx int, d []byte, spec string) c17Req {
	return c17Req{kind: 'd', idx: idx, digest: d, spec: fmt.Sprintf("d/%d/%s", idx, spec)}
}

func c17LogReq(idx int, alg crypto.Hash, l []byte, spec string) c17Req {
	return c17Req{kind: 'l', idx: idx, alg: alg, log: l, spec: fmt.Sprintf("l/%d/%d/%s", idx, uint(alg), spec)}
}

// the statement's notion of validity and of "the digest to extend"
func (q c17Req) valid() bool {
	if q.idx < 0 || q.idx > 3 {
		return false
	}
	if q.kind == 'd' {
		return len(q.digest) == 48
	}
	return q.alg == crypto.SHA384 && len(q.log) > 0
}

func (q c17Req) want() []byte {
	if q.kind == 'd' {
		return q.digest
	}
	h := sha512.Sum384(q.log)
	return h[:]
}

// oracle's own reading of an index file
func c17IndexHolds(e *c17Entry, idx int) bool {
	if e == nil || !e.isDir || !e.readable {
		return false
	}
	v, err := strconv.Atoi(strings.TrimSpace(string(e.index)))
	return err == nil && v == idx && !strings.ContainsAny(string(e.index), "+-")
}

// c17Hung: a request did not return; whatever it holds (a lock …) is package state of the library, so every later case
// of this process would hang as well — the first one is reported and the run stops generating cases
var c17Hung bool

func c17RunCase(r *hx.Run, pre []c17Pre, init [][]byte, reqs []c17Req, tags ...string) {
	if c17Hung {
		return
	}
	t := newC17Tsm()
	preSpecs := make([]string, 0, len(pre))
	for _, p := range pre {
		t.entries[p.name] = &c17Entry{name: p.name, isDir: p.isDir, index: append([]byte{}, p.index...), readable: !p.unrd}
		preSpecs = append(preSpecs, p.spec())
	}
	preS, initS := "-", "-"
	if len(preSpecs) > 0 {
		preS = strings.Join(preSpecs, ",")
	}
	if init != nil {
		initS = hx.HexList(init)
		for i, v := range init {
			t.regs[uint64(i)] = append([]byte{}, v...)
		}
	}
	// expected registers, from the statement: chain of the accepted digests from the initial value
	expect := make([][]byte, 4)
	for i := range expect {
		expect[i] = append([]byte{}, t.reg(uint64(i))...)
	}
	fail := ""
	add := func(f string) {
		if fail == "" {
			fail = f
		}
	}
	var results, traces, specs []string
	nvalid := 0
	for k, q := range reqs {
		specs = append(specs, q.spec)
		// snapshot: which entries held this index before the call
		var existed []string
		for _, n := range t.sortedNames() {
			if c17IndexHolds(t.entries[n], q.idx) {
				existed = append(existed, n)
			}
		}
		regsBefore := map[uint64]string{}
		for j, v := range t.regs {
			regsBefore[j] = string(v)
		}
		t.ops = nil
		var gerr error
		// a request that does not return (a lock left held by an earlier request …) is a failure, not a hung check
		res, stack := hx.GuardTimeout(20*time.Second, func() string {
			if q.kind == 'd' {
				gerr = rtmr.ExtendDigestClient(t, q.idx, q.digest)
			} else {
				gerr = rtmr.ExtendEventLogClient(t, q.idx, q.alg, q.log)
			}
			if gerr != nil {
				return "err"
			}
			return "ok"
		})
		if res == "hang" {
			fail = fmt.Sprintf("request %d (%s) did not return within 20 s (after %d earlier requests of this history): neither a result nor an error", k, hx.Trunc(q.spec, 60), k)
			results = append(results, "hang")
			traces = append(traces, "-")
			c17Hung = true
			break
		}
		ops := t.ops
		results = append(results, res)
		txt := make([]string, len(ops))
		for i, o := range ops {
			txt[i] = o.text
		}
		if len(ops) == 0 {
			traces = append(traces, "-")
		} else {
			traces = append(traces, strings.Join(txt, ","))
		}
		// ---- oracle for this request: the statement of C17, directly ----
		where := fmt.Sprintf("request %d (%s): ", k, q.spec)
		if len(where) > 120 {
			where = where[:120] + "…: "
		}
		if res == "panic" {
			add(where + "crash: " + strings.SplitN(stack, "\n", 2)[0])
		}
		if !q.valid() {
			if res == "ok" {
				add(where + "invalid request did not fail")
			}
			if len(ops) != 0 {
				add(where + fmt.Sprintf("invalid request touched the TSM interface (%d operations, first %s)", len(ops), ops[0].text))
			}
			for j, v := range t.regs {
				if regsBefore[j] != string(v) {
					add(where + fmt.Sprintf("invalid request changed register %d", j))
				}
			}
			continue
		}
		nvalid++
		want := q.want()
		if res != "ok" {
			add(where + "valid request failed")
		}
		var dw, iw, mk, other []c17Op
		for _, o := range ops {
			switch {
			case o.kind == "wf" && o.attr == "digest":
				dw = append(dw, o)
			case o.kind == "wf" && o.attr == "index":
				iw = append(iw, o)
			case o.kind == "wf" || o.kind == "rm":
				other = append(other, o)
			case o.kind == "mk":
				mk = append(mk, o)
			}
		}
		if len(other) != 0 {
			add(where + "unexpected modification " + other[0].text)
		}
		if len(dw) != 1 {
			add(where + fmt.Sprintf("%d digest writes instead of exactly one", len(dw)))
		} else {
			if !bytes.Equal(dw[0].data, want) {
				add(where + "the digest written is not the requested digest / the SHA-384 of the event log")
			}
			if !c17IndexHolds(t.entries[dw[0].entry], q.idx) {
				add(where + "digest written to entry " + dw[0].entry + " whose index file does not hold the requested index")
			}
			if len(existed) > 0 && dw[0].entry != existed[0] {
				add(where + "an entry for the index existed (" + existed[0] + ") but the digest went to " + dw[0].entry)
			}
		}
		if len(existed) > 0 {
			if len(mk) != 0 || len(iw) != 0 {
				add(where + "an entry for the index existed but another was created / bound")
			}
		} else {
			if len(mk) != 1 || len(iw) != 1 {
				add(where + fmt.Sprintf("no entry for the index existed: expected one MkdirTemp and one index write, saw %d and %d", len(mk), len(iw)))
			} else if iw[0].entry != mk[0].entry || (len(dw) == 1 && dw[0].entry != mk[0].entry) {
				add(where + "index / digest not written to the entry that was created")
			}
		}
		n := sha512.Sum384(append(append([]byte{}, expect[q.idx]...), want...))
		expect[q.idx] = n[:]
	}
	// ---- oracle for the history: every register is the extend chain of its accepted digests ----
	var fps []string
	for i := 0; i < 4; i++ {
		got := t.reg(uint64(i))
		fps = append(fps, hx.Fp(got))
		if !bytes.Equal(got, expect[i]) {
			add(fmt.Sprintf("register %d is not the SHA-384 extend chain of the accepted digests for index %d", i, i))
		}
	}
	var extra []uint64
	for j := range t.regs {
		if j > 3 {
			extra = append(extra, j)
		}
	}
	sort.Slice(extra, func(a, b int) bool { return extra[a] < extra[b] })
	for _, j := range extra {
		fps = append(fps, fmt.Sprintf("+%d=%s", j, hx.Fp(t.regs[j])))
		add(fmt.Sprintf("a register outside 0-3 (%d) was extended", j))
	}
	seen := map[uint64]string{}
	for _, n := range t.sortedNames() {
		if j, ok := c17Bound(t.entries[n]); ok {
			if o, dup := seen[j]; dup {
				add(fmt.Sprintf("two entries (%s, %s) are bound to index %d", o, n, j))
			}
			seen[j] = n
		}
	}
	line := fmt.Sprintf("C17 pre=%s init=%s reqs=%s", preS, initS, strings.Join(specs, ";"))
	obs := fmt.Sprintf("r=%s t=%s regs=%s", strings.Join(results, ","), strings.Join(traces, "|"), strings.Join(fps, ","))
	tags = append(tags, fmt.Sprintf("len:%d", len(reqs)), fmt.Sprintf("valid:%d", nvalid))
	for _, x := range results {
		tags = append(tags, "res:"+x)
	}
	r.Emit(line, obs, fail, line, nvalid > 0, tags...)
}

func c17Scenario(kind string, idx int) []c17Pre {
	nn := func(i int) int { // a bindable stand-in for indexes no entry can hold
		if i < 0 {
			return 0
		}
		return i
	}
	switch kind {
	case "bound":
		return []c17Pre{{name: "rtmr-pre", isDir: true, index: []byte(strconv.Itoa(nn(idx)) + "\n")}}
	case "junk":
		return []c17Pre{
			{name: "aa-file", isDir: false, index: []byte(strconv.Itoa(nn(idx)))},
			{name: "bb-empty", isDir: true},
			{name: "cc-text", isDir: true, index: []byte("abc\n")},
			{name: "dd-unreadable", isDir: true, unrd: true},
			{name: "ee-wrap", isDir: true, index: []byte("18446744073709551615")},
			{name: "rtmr9-big", isDir: true, index: []byte("99999999999999999999\n")},
			{name: "zz-plus", isDir: true, index: []byte("+" + strconv.Itoa(nn(idx)))},
			{name: "zz-minus", isDir: true, index: []byte("-1")},
		}
	case "other":
		o := (nn(idx) + 1) % 4
		return []c17Pre{{name: "rtmr" + strconv.Itoa(o) + "-pre", isDir: true, index: []byte(strconv.Itoa(o) + "\n")}}
	}
	return nil
}

var c17Scenarios = []string{"none", "bound", "junk", "other"}

func c17(r *hx.Run) {
	rng := r.Rng(17)
	// incl. indexes whose low 32 / low 8 bits are a valid index (a narrowing conversion must not let them through)
	idxs := []int{-1 << 63, -1<<32 + 1, -1 << 31, -256, -1, 0, 1, 2, 3, 4, 5, 255, 256, 258, 65536, 1<<31 - 1, 1 << 32, 1<<32 + 3, 1<<63 - 1}
	dlens := []int{0, 1, 47, 48, 49, 64}
	// the four algorithms of the design + SHA3-384 (available, 48-byte output: only the algorithm check rejects it)
	algs := []crypto.Hash{crypto.SHA384, crypto.SHA256, crypto.SHA512, 0, crypto.SHA3_384}
	log1k, log1kS := c17Digest(1024, 7, 1)
	type lg struct {
		b []byte
		s string
	}
	// incl. logs that begin / end in whitespace or consist of it: the log is hashed as given, byte for byte
	logs := []lg{{[]byte{}, "-"}, {[]byte{0x5a}, "5a"}, {log1k, log1kS}, {[]byte("\n"), "0a"}, {[]byte(" event\r\n"), hx.Hex([]byte(" event\r\n"))}, {[]byte{0x09, 0x00, 0x20}, "090020"}}

	// (a) every single request of the alphabet under every pre-existing state
	var alphabet []c17Req
	for _, ix := range idxs {
		for _, n := range dlens {
			d, s := c17Digest(n, 3, 11)
			alphabet = append(alphabet, c17DigestReq(ix, d, s))
		}
		for _, a := range algs {
			for _, l := range logs {
				alphabet = append(alphabet, c17LogReq(ix, a, l.b, l.s))
			}
		}
	}
	for _, q := range alphabet {
		for _, sc := range c17Scenarios {
			c17RunCase(r, c17Scenario(sc, q.idx), nil, []c17Req{q}, "single", "pre:"+sc)
		}
	}

	// (b) all sequences over a 12-letter sub-alphabet
	dA, sA := c17Digest(48, 1, 2)
	dB, sB := c17Digest(48, 5, 9)
	d47, s47 := c17Digest(47, 1, 2)
	letters := []c17Req{
		c17DigestReq(0, dA, sA), c17DigestReq(1, dA, sA), c17DigestReq(2, dA, sA), c17DigestReq(2, dB, sB),
		c17DigestReq(3, dB, sB), c17LogReq(2, crypto.SHA384, logs[1].b, logs[1].s), c17LogReq(3, crypto.SHA384, log1k, log1kS),
		c17DigestReq(4, dA, sA), c17DigestReq(-1, dA, sA), c17DigestReq(2, d47, s47),
		c17LogReq(2, crypto.SHA256, logs[1].b, logs[1].s), c17LogReq(1, crypto.SHA384, logs[0].b, logs[0].s),
	}
	maxLen := 3
	if r.Tier == "thorough" {
		maxLen = 5
	}
	nseq := 0
	var rec func(prefix []c17Req)
	rec = func(prefix []c17Req) {
		if len(prefix) > 0 {
			if len(prefix) <= 3 {
				for _, sc := range c17Scenarios {
					c17RunCase(r, c17Scenario(sc, 2), nil, prefix, "seq", "pre:"+sc)
				}
			} else {
				sc := c17Scenarios[nseq%4]
				c17RunCase(r, c17Scenario(sc, 2), nil, prefix, "seq", "pre:"+sc)
			}
			nseq++
		}
		if len(prefix) == maxLen {
			return
		}
		for _, l := range letters {
			rec(append(append([]c17Req{}, prefix...), l))
		}
	}
	rec(nil)
	r.Note("sequences_enumerated", nseq)

	// (c) random histories of 20 requests over the whole alphabet with random digests, random
	// pre-existing entries (at most one per index, several spellings) and random initial registers
	nrand := 300
	if r.Tier == "thorough" {
		nrand = 6000
	}
	spell := func(i int) []byte {
		switch rng.UintN(4) {
		case 0:
			return []byte(strconv.Itoa(i))
		case 1:
			return []byte(strconv.Itoa(i) + "\n")
		case 2:
			return []byte("0" + strconv.Itoa(i) + "\n\n")
		}
		return []byte("000" + strconv.Itoa(i))
	}
	names := []string{"a0", "m-entry", "rtmr0-0000000000x", "rtmr1-", "rtmr2-9999999999", "rtmr3", "s", "zz"}
	for c := 0; c < nrand; c++ {
		var pre []c17Pre
		perm := rng.Perm(len(names))
		used := 0
		for i := 0; i < 6; i++ { // indexes 0..5, each bound with probability 1/3
			if rng.UintN(3) == 0 {
				pre = append(pre, c17Pre{name: names[perm[used]], isDir: true, index: spell(i)})
				used++
			}
		}
		if rng.UintN(2) == 0 {
			j := c17Scenario("junk", int(rng.UintN(4)))
			pre = append(pre, j[rng.UintN(uint(len(j)))])
		}
		var init [][]byte
		if rng.UintN(2) == 0 {
			for i := 0; i < 4; i++ {
				init = append(init, hx.RandBytes(rng, 48))
			}
		}
		var reqs []c17Req
		for k := 0; k < 20; k++ {
			switch rng.UintN(4) {
			case 0: // anything from the alphabet
				reqs = append(reqs, alphabet[rng.UintN(uint(len(alphabet)))])
			case 1: // valid event log
				l := hx.RandBytes(rng, 1+int(rng.UintN(200)))
				reqs = append(reqs, c17LogReq(int(rng.UintN(4)), crypto.SHA384, l, hx.Hex(l)))
			default: // valid digest
				d := hx.RandBytes(rng, 48)
				reqs = append(reqs, c17DigestReq(int(rng.UintN(4)), d, hx.Hex(d)))
			}
		}
		c17RunCase(r, pre, init, reqs, "random", "pre:random")
	}
	// (d) a TSM that reports an error on the digest write of a VALID request (after or without extending the register): still
	// exactly one digest write of exactly the requested digest, and the error is returned — no silent repetition (harness-only)
	for _, mode := range []string{"after", "before"} {
		for idx := 0; idx < 4; idx++ {
			for _, viaLog := range []bool{false, true} {
				for _, bound := range []bool{false, true} {
					t := newC17Tsm()
					if bound {
						t.entries[fmt.Sprintf("rtmr%d-pre", idx)] = &c17Entry{name: fmt.Sprintf("rtmr%d-pre", idx), isDir: true, index: []byte(fmt.Sprintf("%d\n", idx)), readable: true}
					}
					t.faultDigest = mode
					d := hx.RandBytes(rng, 48)
					l := hx.RandBytes(rng, 33)
					want := d
					var err error
					if c17Hung {
						continue
					}
					res, stack := hx.GuardTimeout(20*time.Second, func() string {
						if viaLog {
							h := sha512.Sum384(l)
							want = h[:]
							err = rtmr.ExtendEventLogClient(t, idx, crypto.SHA384, l)
						} else {
							err = rtmr.ExtendDigestClient(t, idx, d)
						}
						return ""
					})
					nd, wrong := 0, false
					for _, op := range t.ops {
						if op.kind == "wf" && op.attr == "digest" {
							nd++
							wrong = wrong || !bytes.Equal(op.data, want)
						}
					}
					obs := fmt.Sprintf("digest-writes=%d err=%d", nd, hx.B(err != nil))
					fail := ""
					switch {
					case res == "panic":
						fail = "crash: " + strings.SplitN(stack, "\n", 2)[0]
					case res == "hang":
						fail = "the request did not return within 20 s"
						c17Hung = true
					case nd != 1:
						fail = fmt.Sprintf("a valid request whose digest write the TSM answered with an error performed %d digest writes, not exactly one", nd)
					case wrong:
						fail = "the digest written is not the requested digest"
					case err == nil:
						fail = "the TSM reported an error on the digest write but the request returned success"
					}
					r.Emit(fmt.Sprintf("# C17.fault mode=%s idx=%d log=%d bound=%d", mode, idx, hx.B(viaLog), hx.B(bound)), obs, fail, fmt.Sprintf("fault|%s|%d|%v|%v", mode, idx, viaLog, bound), true, "fault:"+mode)
				}
			}
		}
	}
	// (d') event logs of sizes around powers of two up to 16 MiB (harness-only: too large for the line protocol): the digest that
	// reaches the TSM is the SHA-384 of the WHOLE log — two logs that differ in their last byte only extend different values
	if !c17Hung {
		for _, n := range []int{1 << 16, 1<<20 - 1, 1 << 20, 1<<20 + 1, 1<<21 + 17, 1<<24 + 5} {
			if n > 1<<22 && r.Tier != "thorough" && n != 1<<24+5 {
				continue
			}
			log := hx.RandBytes(rng, n)
			for _, lastByte := range []byte{log[n-1], log[n-1] ^ 0x01} {
				l := append([]byte{}, log...)
				l[n-1] = lastByte
				h := sha512.Sum384(l)
				t := newC17Tsm()
				idx := int(rng.UintN(4))
				var err error
				res, stack := hx.GuardTimeout(60*time.Second, func() string { err = rtmr.ExtendEventLogClient(t, idx, crypto.SHA384, l); return "" })
				var written [][]byte
				for _, op := range t.ops {
					if op.kind == "wf" && op.attr == "digest" {
						written = append(written, op.data)
					}
				}
				obs, fail := fmt.Sprintf("digest-writes=%d err=%d", len(written), hx.B(err != nil)), ""
				switch {
				case res == "panic":
					fail = "crash: " + strings.SplitN(stack, "\n", 2)[0]
				case res == "hang":
					fail = "the request did not return within 60 s"
					c17Hung = true
				case err != nil:
					fail = fmt.Sprintf("a valid request (index %d, SHA-384, event log of %d bytes) failed: %v", idx, n, err)
				case len(written) != 1:
					fail = fmt.Sprintf("a valid request performed %d digest writes", len(written))
				case !bytes.Equal(written[0], h[:]):
					fail = fmt.Sprintf("the digest extended for an event log of %d bytes is not the SHA-384 of the log", n)
				}
				r.Emit(fmt.Sprintf("# C17.biglog n=%d last=%02x idx=%d", n, lastByte, idx), obs, fail, fmt.Sprintf("biglog|%d|%02x", n, lastByte), true, "biglog")
			}
		}
	}
	// (e) a TSM whose digest write stalls for 2.5 s and then completes (the attribute write ends in a TDCALL): the caller
	// carries on with the same register afterwards.  Once everything is quiet, the digest writes the TSM saw are exactly the
	// digests of the requests that returned success, in call order — a request that returned an error is not extended later,
	// behind the back of the requests that followed it (harness-only; the cases run side by side)
	if !c17Hung {
		type stallOut struct {
			line, obs, fail string
		}
		idxs := []int{0, 2}
		if r.Tier == "thorough" {
			idxs = []int{0, 1, 2, 3}
		}
		outs := make([]stallOut, len(idxs))
		var wg sync.WaitGroup
		for k, idx := range idxs {
			dA, dB := hx.RandBytes(rng, 48), hx.RandBytes(rng, 48)
			wg.Add(1)
			go func(k, idx int) {
				defer wg.Done()
				st := &c17Stall{c17Tsm: newC17Tsm(), stall: 2500 * time.Millisecond}
				var accepted [][]byte
				var errs []bool
				res, stack := hx.GuardTimeout(20*time.Second, func() string {
					for _, d := range [][]byte{dA, dB} {
						err := rtmr.ExtendDigestClient(st, idx, d)
						errs = append(errs, err != nil)
						if err == nil {
							accepted = append(accepted, d)
						}
					}
					return ""
				})
				time.Sleep(3200 * time.Millisecond) // anything still in flight has landed by now
				st.mu.Lock()
				var written [][]byte
				for _, op := range st.ops {
					if op.kind == "wf" && op.attr == "digest" {
						written = append(written, op.data)
					}
				}
				st.mu.Unlock()
				same := len(written) == len(accepted)
				for i := 0; same && i < len(written); i++ {
					same = bytes.Equal(written[i], accepted[i])
				}
				o := stallOut{line: fmt.Sprintf("# C17.stall idx=%d", idx), obs: fmt.Sprintf("accepted=%d written=%d in-order=%v", len(accepted), len(written), same)}
				switch {
				case res == "panic":
					o.fail = "crash: " + strings.SplitN(stack, "\n", 2)[0]
				case res == "hang":
					o.fail = "the requests did not return within 20 s"
				case !same:
					o.fail = fmt.Sprintf("a digest write that stalled for 2.5 s and then completed: the requests returned errors=%v, %d succeeded, but the TSM saw %d digest writes (not the digests of the successful requests in call order): a request that reported failure was extended afterwards", errs, len(accepted), len(written))
				}
				outs[k] = o
			}(k, idx)
		}
		wg.Wait()
		for k, o := range outs {
			r.Emit(o.line, o.obs, o.fail, fmt.Sprintf("stall|%d", idxs[k]), true, "fault:stall")
		}
	}
	r.Exhaust = true
}

// c17Stall: the model TSM behind a lock (a library that hands the write to another goroutine must not corrupt the recorder),
// whose FIRST digest write sleeps before it is carried out.
type c17Stall struct {
	*c17Tsm
	mu      sync.Mutex
	stall   time.Duration
	stalled bool
}

func (s *c17Stall) ReadFile(name string) ([]byte, error) {
	s.mu.Lock()
	defer s.mu.Unlock()
	return s.c17Tsm.ReadFile(name)
}
func (s *c17Stall) ReadDir(dirname string) ([]os.DirEntry, error) {
	s.mu.Lock()
	defer s.mu.Unlock()
	return s.c17Tsm.ReadDir(dirname)
}
func (s *c17Stall) MkdirTemp(dir, pattern string) (string, error) {
	s.mu.Lock()
	defer s.mu.Unlock()
	return s.c17Tsm.MkdirTemp(dir, pattern)
}
func (s *c17Stall) RemoveAll(path string) error {
	s.mu.Lock()
	defer s.mu.Unlock()
	return s.c17Tsm.RemoveAll(path)
}
func (s *c17Stall) WriteFile(name string, contents []byte) error {
	if _, attr, ok := c17Split(name); ok && attr == "digest" {
		s.mu.Lock()
		first := !s.stalled
		s.stalled = true
		s.mu.Unlock()
		if first {
			time.Sleep(s.stall)
		}
	}
	s.mu.Lock()
	defer s.mu.Unlock()
	return s.c17Tsm.WriteFile(name, contents)
}
