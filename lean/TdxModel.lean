import TdxModel.Basic
import TdxModel.Generated.Consts
import TdxModel.Generated.Sites
import TdxModel.Proto
import TdxModel.Client
import TdxModel.Main
