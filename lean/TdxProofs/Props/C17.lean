/-
  C17 — RTMR extension writes exactly the requested digest to the requested register.
  Property theorems only; helper lemmas are in TdxProofs/Lemmas/Rtmr.lean.

  Every theorem holds for EVERY hash function `H` (only `H.len : |sha384 b| = 48` is known), every
  TSM state, every request and every request history.
-/
import TdxModel.Rtmr
import TdxModel.Generated.Consts
import TdxProofs.Lemmas.Rtmr

namespace Tdx.Props.C17
open Tdx Tdx.Rtmr

/-! ### ties of the inline literals of extend.go to regenerated constants -/

/-- the digest length demanded by extend.go is the RTMR size of the quote layout -/
theorem digestLen_is_rtmr_size : digestLen = Gen.abi_RtmrSize := rfl

/-- the accepted index range 0–3 is exactly the number of RTMRs of the quote layout -/
theorem index_range_is_rtmr_count : maxIndex + 1 = (Gen.abi_rtmrsCount : Int) := by decide

/-! ### invalid requests -/

/-- An extend request with an index outside 0–3, a digest that is not 48 bytes, a hash algorithm other
    than SHA-384 or an empty event log fails, performs no operation on the client, and leaves the TSM
    as it was. -/
theorem invalid_request_touches_nothing (H : Hash) (t : Tsm) (r : Req) (h : ¬ Valid r) :
    (step H t r).trace = [] ∧ (∃ e, (step H t r).out = .err e) ∧ (step H t r).tsm = t := by
  cases r with
  | digest i d =>
    simp only [Valid] at h
    simp only [step, extendDigestClient, maxIndex, digestLen]
    by_cases hi : i < 0 ∨ i > 3
    · simp [hi]
    · by_cases hd : d.length ≠ 48
      · simp [hi, hd]
      · exact absurd ⟨by omega, by omega, by omega⟩ h
  | eventLog i alg log =>
    simp only [Valid] at h
    simp only [step, extendEventLogClient]
    by_cases ha : alg ≠ sha384Code
    · simp [ha]
    · by_cases hl : log.length = 0
      · simp [ha, hl]
      · simp only [ha, hl, if_false, extendDigestClient, maxIndex]
        by_cases hi : i < 0 ∨ i > 3
        · simp [hi]
        · have hne : log ≠ [] := fun hh => hl (by simp [hh])
          exact absurd ⟨by omega, by omega, by simpa using ha, hne⟩ h

/-! ### valid requests -/

/-- A valid request succeeds and results in exactly one digest write, of exactly the given digest (or
    the SHA-384 of the given event log), to an entry that is bound to the requested index; register
    `index` is extended by it and no other register changes; the entry is the existing one when one was
    bound (nothing created, nothing bound), and otherwise one new entry is created with one `MkdirTemp`
    and bound with one index write, all existing entries being kept (`ExtendEffect`, TdxModel/Rtmr.lean).
    The TSM stays well formed. -/
theorem valid_request_one_extend (H : Hash) (t : Tsm) (r : Req) (hv : Valid r) (wf : WellFormed t) :
    ExtendEffect H t r.index.toNat (r.digestOf H) (step H t r) := by
  cases r with
  | digest i d =>
    obtain ⟨h0, h3, hd⟩ := hv
    obtain ⟨n, rfl⟩ := Int.eq_ofNat_of_zero_le h0
    have hn : n ≤ 3 := by omega
    have hi : ¬ ((n : Int) < 0 ∨ (n : Int) > 3) := by omega
    have hd' : d.length = digestLen := hd
    simp only [step, extendDigestClient, maxIndex, hi, if_false, hd', ne_eq, not_true_eq_false, Req.index,
      Req.digestOf, Int.toNat_natCast]
    exact lib_spec H t wf n hn d hd'
  | eventLog i alg log =>
    obtain ⟨h0, h3, ha, hl⟩ := hv
    obtain ⟨n, rfl⟩ := Int.eq_ofNat_of_zero_le h0
    have hn : n ≤ 3 := by omega
    have hi : ¬ ((n : Int) < 0 ∨ (n : Int) > 3) := by omega
    have hl' : ¬ log.length = 0 := by
      intro hh; exact hl (List.eq_nil_of_length_eq_zero hh)
    have hd' : (H.sha384 log).length = digestLen := H.len log
    simp only [step, extendEventLogClient, ha, ne_eq, not_true_eq_false, if_false, hl', extendDigestClient, maxIndex,
      hi, hd', Req.index, Req.digestOf, Int.toNat_natCast]
    exact lib_spec H t wf n hn _ hd'

/-- … in particular: exactly one digest write, of the requested digest. -/
theorem valid_request_writes_requested_digest (H : Hash) (t : Tsm) (r : Req) (hv : Valid r) (wf : WellFormed t) :
    ∃ nm, digestWrites (step H t r).trace = [(nm, r.digestOf H)] := by
  obtain ⟨nm, _, _, _, h, _⟩ := (valid_request_one_extend H t r hv wf).target
  exact ⟨nm, h⟩

/-- … and an entry is created if and only if none was bound to the index. -/
theorem entry_created_iff_none_bound (H : Hash) (t : Tsm) (r : Req) (hv : Valid r) (wf : WellFormed t) :
    mkdirs (step H t r).trace ≠ [] ↔ ¬ t.hasBound r.index.toNat := by
  obtain ⟨nm, e', _, _, _, hre, hcr⟩ := (valid_request_one_extend H t r hv wf).target
  constructor
  · intro hm hb
    exact hm (hre hb).2.2.1
  · intro hb hm
    rw [(hcr hb).2.1] at hm
    cases hm

/-- … and afterwards an entry is bound to the requested index. -/
theorem valid_request_binds (H : Hash) (t : Tsm) (r : Req) (hv : Valid r) (wf : WellFormed t) :
    (step H t r).tsm.hasBound r.index.toNat := by
  obtain ⟨nm, e', hl, hb, _⟩ := (valid_request_one_extend H t r hv wf).target
  exact ⟨e', List.mem_of_find?_eq_some hl, hb⟩

/-- No request removes or unbinds an entry: an index that has an entry keeps it (so later requests
    re-use it). -/
theorem bound_entries_persist (H : Hash) (t : Tsm) (r : Req) (wf : WellFormed t) (j : Nat)
    (h : t.hasBound j) : (step H t r).tsm.hasBound j := by
  by_cases hv : Valid r
  · obtain ⟨nm, e', _, _, _, hre, hcr⟩ := (valid_request_one_extend H t r hv wf).target
    by_cases hb : t.hasBound r.index.toNat
    · unfold Tsm.hasBound
      rw [(hre hb).2.1]
      exact h
    · obtain ⟨e, he, hbe⟩ := h
      exact ⟨e, (hcr hb).2.2.2.2 e he, hbe⟩
  · rw [(invalid_request_touches_nothing H t r hv).2.2]; exact h

/-! ### the invariant -/

theorem wellFormed_init : WellFormed init :=
  ⟨List.Pairwise.nil, (fun _ h => by cases h), List.Pairwise.nil⟩

/-- every request, valid or not, preserves well-formedness -/
theorem wellFormed_step (H : Hash) (t : Tsm) (r : Req) (wf : WellFormed t) : WellFormed (step H t r).tsm := by
  by_cases hv : Valid r
  · exact (valid_request_one_extend H t r hv wf).wf
  · rw [(invalid_request_touches_nothing H t r hv).2.2]; exact wf

theorem wellFormed_run (H : Hash) (t : Tsm) (rs : List Req) (wf : WellFormed t) : WellFormed (run H t rs) := by
  induction rs generalizing t with
  | nil => exact wf
  | cons r rs ih => exact ih _ (wellFormed_step H t r wf)

/-- a well-formed TSM has at most one entry bound to any index -/
theorem wellFormed_at_most_one (t : Tsm) (wf : WellFormed t) (j : Nat) :
    (t.entries.filter fun e => e.bound == some j).length ≤ 1 := by
  have h := wf.onePerIndex
  generalize t.entries = es at h
  induction es with
  | nil => simp
  | cons e es ih =>
    rw [List.pairwise_cons] at h
    rw [List.filter_cons]
    split
    · rename_i hb
      have hb' : e.bound = some j := by simpa using hb
      have : es.filter (fun e => e.bound == some j) = [] := by
        rw [List.filter_eq_nil_iff]
        intro x hx
        simpa using h.1 x hx j hb'
      simp [this]
    · exact ih h.2

/-- Invariant: after any history of requests (valid or not) from any well-formed TSM — in particular
    from the initial one — at most one entry is bound to each index. -/
theorem at_most_one_entry_per_index (H : Hash) (t : Tsm) (wf : WellFormed t) (rs : List Req) (j : Nat) :
    ((run H t rs).entries.filter fun e => e.bound == some j).length ≤ 1 :=
  wellFormed_at_most_one _ (wellFormed_run H t rs wf) j

/-! ### registers are extend chains -/

/-- one request changes register `k` exactly when it is valid and addressed to `k` -/
theorem step_register (H : Hash) (t : Tsm) (r : Req) (wf : WellFormed t) (k : Nat) :
    (step H t r).tsm.regs k =
      if Valid r ∧ r.index = (k : Int) then extend H (t.regs k) (r.digestOf H) else t.regs k := by
  by_cases hv : Valid r
  · have h0 : 0 ≤ r.index := by cases r <;> exact hv.1
    rw [(valid_request_one_extend H t r hv wf).regs k]
    by_cases hk : r.index = (k : Int)
    · have : k = r.index.toNat := by omega
      rw [if_pos this, if_pos ⟨hv, hk⟩, ← this]
    · have : ¬ k = r.index.toNat := by omega
      rw [if_neg this, if_neg (fun h => hk h.2)]
  · rw [(invalid_request_touches_nothing H t r hv).2.2, if_neg (fun h => hv h.1)]

/-- Over ANY history `rs` from any well-formed TSM, register `i` equals the extend chain, from its
    initial value, of the digests of the valid requests for index `i`, in call order. -/
theorem registers_are_extend_chains_from (H : Hash) (t : Tsm) (wf : WellFormed t) (rs : List Req) (i : Nat) :
    (run H t rs).regs i = (acceptedDigests H i rs).foldl (extend H) (t.regs i) := by
  induction rs generalizing t with
  | nil => rfl
  | cons r rs ih =>
    show (run H (step H t r).tsm rs).regs i = _
    rw [ih _ (wellFormed_step H t r wf), step_register H t r wf i]
    unfold acceptedDigests
    rw [List.filter_cons]
    by_cases hc : Valid r ∧ r.index = (i : Int)
    · simp [hc]
    · have : (decide (Valid r) && decide (r.index = (i : Int))) = false := by
        simpa using fun hv => (fun hi => hc ⟨hv, hi⟩)
      simp [hc, this]

/-- From a freshly booted TSM: register `i` = SHA-384 extend chain from 48 zero bytes of the accepted
    digests for index `i`, in call order. -/
theorem registers_are_extend_chains (H : Hash) (rs : List Req) (i : Nat) :
    (run H init rs).regs i = (acceptedDigests H i rs).foldl (extend H) zero48 :=
  registers_are_extend_chains_from H init wellFormed_init rs i

/-- every register always holds 48 bytes -/
theorem register_length (H : Hash) (rs : List Req) (i : Nat) : ((run H init rs).regs i).length = 48 := by
  rw [registers_are_extend_chains]
  have : ∀ (l : List Bytes) (z : Bytes), z.length = 48 → (l.foldl (extend H) z).length = 48 := by
    intro l
    induction l with
    | nil => intro z hz; exact hz
    | cons d l ih => intro z _; exact ih _ (H.len _)
  exact this _ _ (by simp [zero48, zeros, digestLen])

/-! ### non-vacuity: a concrete three-request history (for every hash function) -/

/-- extend register 2 by 48 zero bytes; extend register 2 by the hash of a one-byte log; a request for
    index 4 (invalid) -/
def hist : List Req := [.digest 2 (zeros 48), .eventLog 2 sha384Code [1], .digest 4 (zeros 48)]

example : Valid (.digest 2 (zeros 48)) := by decide
example : Valid (.eventLog 2 sha384Code [1]) := by decide
example : ¬ Valid (.digest 4 (zeros 48)) := by decide
example : ¬ Valid (.digest 2 (zeros 47)) := by decide
example : ¬ Valid (.eventLog 2 5 [1]) := by decide
example : ¬ Valid (.eventLog 2 sha384Code []) := by decide
example : WellFormed init := wellFormed_init

/-- the first request creates and binds an entry, then writes the digest once -/
example (H : Hash) : (step H init (.digest 2 (zeros 48))).trace =
    [.readDir, .mkdirTemp 2, .writeFile (.temp 2 0) .index [50], .writeFile (.temp 2 0) .digest (zeros 48)] := rfl

/-- the TSM after it: one entry, bound to 2 (`index` holds "2"), register 2 extended once -/
def afterFirst (H : Hash) : Tsm :=
  { entries := [{ name := .temp 2 0, isDir := true, index := some [50] }],
    regs := fun k => if k = 2 then extend H (init.regs 2) (zeros 48) else init.regs k,
    next := 1 }

example (H : Hash) : (step H init (.digest 2 (zeros 48))).tsm = afterFirst H := rfl

/-- the second request finds and re-uses that entry -/
example (H : Hash) : (step H (afterFirst H) (.eventLog 2 sha384Code [1])).trace =
    [.readDir, .readFile (.temp 2 0) .index, .writeFile (.temp 2 0) .digest (H.sha384 [1])] := by
  have hl : (H.sha384 [1]).length = digestLen := H.len _
  have hs : search 2 (afterFirst H).entries =
      ([Op.readFile (.temp 2 0) .index], some { name := .temp 2 0, isDir := true, index := some [50] }) := rfl
  have hk : (afterFirst H).lookup (.temp 2 0) = some { name := .temp 2 0, isDir := true, index := some [50] } := rfl
  have hb : Entry.bound { name := .temp 2 0, isDir := true, index := some [50] } = some 2 := by decide
  simp [step, extendEventLogClient, extendDigestClient, libExtendDigest, hl, maxIndex, hs, Tsm.writeDigest, hk, hb]

/-- the third touches nothing -/
example (H : Hash) (t : Tsm) : (step H t (.digest 4 (zeros 48))).trace = [] :=
  (invalid_request_touches_nothing H t _ (by decide)).1

/-- after the history register 2 is the two-step chain, register 3 is untouched, one entry exists -/
example (H : Hash) : (run H init hist).regs 2 = H.sha384 (H.sha384 (zero48 ++ zeros 48) ++ H.sha384 [1]) := by
  rw [registers_are_extend_chains]; rfl
example (H : Hash) : (run H init hist).regs 3 = zero48 := by
  rw [registers_are_extend_chains]; rfl
example (H : Hash) : (run H init hist).hasBound 2 ∧ ¬ init.hasBound 2 := by
  refine ⟨?_, fun ⟨e, h, _⟩ => by cases h⟩
  have w1 := wellFormed_step H init (.digest 2 (zeros 48)) wellFormed_init
  have w2 := wellFormed_step H _ (.eventLog 2 sha384Code [1]) w1
  exact bound_entries_persist H _ _ w2 2
    (bound_entries_persist H _ _ w1 2 (valid_request_binds H init (.digest 2 (zeros 48)) (by decide) wellFormed_init))

end Tdx.Props.C17
