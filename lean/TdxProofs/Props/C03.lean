/-
  C03 — collateral counts only if authentically signed by Intel's TCB signer.
-/
import TdxModel.Verify
import TdxProofs.Lemmas.Verify

namespace Tdx.Props.C03
open Tdx Tdx.Gen Tdx.Abi Tdx.Verify

/-- one response was used authentically: the values are the decode of exactly the raw member whose bytes verify, under
    the signature field of the same response, with the certificate of the response's issuer chain that is named as the
    TCB signer, issued by the self-signed root named as the Intel root, and chains to the trusted roots -/
structure Authentic {Doc : Type} (C : Crypto) (w : World) (f : FetchF (BodyF Doc)) (signer root : Nat) (doc : Doc) (t : Int) : Prop where
  witness : ∃ h b raw sig,
    f = .resp h b ∧ headerToIssuerChain h = .ok (signer, root) ∧
    b.raw = some raw ∧ b.rawDoc = some doc ∧                                   -- values = decode of the raw member
    isHex128 b.signature = some sig ∧ C.verifyCert signer raw sig = true ∧       -- raw member verifies under the response's signature
    (cert w signer).subjectCN = "Intel SGX TCB Signing" ∧ Certifies (cert w root) (cert w signer) ∧
    (cert w root).subjectCN = "Intel SGX Root CA" ∧ Certifies (cert w root) (cert w root) ∧
    PathOk w (effectiveRoots w) none signer t

/-- **C03, main statement.** Acceptance with collateral checking implies both responses were used authentically and the
    documents carry the expected id, version and a non-empty level list. -/
theorem values_are_signed_values (C : Crypto) (w : World) (q : Option QuoteV4) (o : Opts)
    (hg : o.getCollateral = true) (h : (tdxQuote Fixes.all C w q o).verdict = .ok ()) :
    ∃ (ext : PckExt.PckExtensions) (c : Collateral),
      Authentic C w (w.fetchTcb (tcbInfoURL ext.fmspc)) c.tcbSigner c.tcbRoot c.tcb ((o.now.getD (defaultTimeSet w.clock)).tcbInfo) ∧
      Authentic C w (w.fetchQe qeIdentityURL) c.qeSigner c.qeRoot c.qe ((o.now.getD (defaultTimeSet w.clock)).qeIdentity) ∧
      c.tcb.id = "TDX" ∧ c.tcb.version = 3 ∧ c.tcb.levels ≠ [] ∧
      c.qe.id = "TD_QE" ∧ c.qe.version = 2 ∧ c.qe.levels ≠ [] := by
  obtain ⟨q', ch, ext, col, rfl, _, hch, hext, hf, hev⟩ := ((tdxQuote_ok_iff C w q o).mp h).witness
  obtain ⟨c, hcol, _, ht, hq⟩ := hev.collateral hg
  subst hcol
  rcases hf with ⟨hg', _⟩ | ⟨_, ca, c', hca, hob, hc'⟩
  · rw [hg] at hg'; cases hg'
  · cases hc'
    have ob := obtainCollateral_ok w ext.fmspc ca o.checkRevocations c hob
    have t := tcbInfoChecks_all C w o _ c ht
    have qq := qeIdentityChecks_all C w o _ c hq
    obtain ⟨h1, b1, f1, g1, _, r1, d1, s1, _⟩ := ob.tcb
    obtain ⟨h2, b2, f2, g2, _, r2, d2, s2, _⟩ := ob.qe
    obtain ⟨sig1, e1, v1⟩ := t.response.signature
    obtain ⟨sig2, e2, v2⟩ := qq.response.signature
    refine ⟨ext, c, ⟨h1, b1, c.tcbRaw, sig1, f1, g1, r1, d1, by rw [s1]; exact e1, v1, t.response.signer.name,
        ⟨t.response.signer.issuer, t.response.signer.signed⟩, t.response.root.name,
        ⟨t.response.root.issuer, t.response.root.signed⟩, ((pathValid_iff ..).mp t.response.anchored).2⟩,
      ⟨h2, b2, c.qeRaw, sig2, f2, g2, r2, d2, by rw [s2]; exact e2, v2, qq.response.signer.name,
        ⟨qq.response.signer.issuer, qq.response.signer.signed⟩, qq.response.root.name,
        ⟨qq.response.root.issuer, qq.response.root.signed⟩, ((pathValid_iff ..).mp qq.response.anchored).2⟩,
      t.id, t.version, t.levels, qq.id, qq.version, qq.levels⟩

/-- Unsigned content elsewhere in the response never replaces the signed values: what the struct-decode of the whole
    body produces (where extra or duplicate members under any spelling land) is not consulted at all. -/
theorem unsigned_members_cannot_replace {Doc : Type} (b : BodyF Doc) (other : Doc) :
    bodyValues Fixes.all { b with structDoc := other } = bodyValues Fixes.all b := by
  unfold bodyValues
  rfl

theorem getRootCrl_congr (w w' : World) (h : w'.fetchRootCrl = w.fetchRootCrl) (dps : List String) :
    getRootCrl w' dps = getRootCrl w dps := by
  induction dps with
  | nil => rfl
  | cons u rest ih => unfold getRootCrl; rw [h, ih]

theorem obtainCollateral_congr (w w' : World) (tamperTcb : TcbInfoDoc → TcbInfoDoc) (tamperQe : QeIdDoc → QeIdDoc)
    (hc : w'.certs = w.certs) (hp : w'.fetchPckCrl = w.fetchPckCrl) (hr : w'.fetchRootCrl = w.fetchRootCrl)
    (ht : ∀ u, w'.fetchTcb u = match w.fetchTcb u with
      | .fail => .fail
      | .resp h b => .resp h { b with structDoc := tamperTcb b.structDoc })
    (hq : ∀ u, w'.fetchQe u = match w.fetchQe u with
      | .fail => .fail
      | .resp h b => .resp h { b with structDoc := tamperQe b.structDoc })
    (f ca : String) (cr : Bool) :
    obtainCollateral Fixes.all w' f ca cr = obtainCollateral Fixes.all w f ca cr := by
  have hcert : ∀ i, cert w' i = cert w i := fun i => by unfold cert; rw [hc]
  have hgr : ∀ dps, getRootCrl w' dps = getRootCrl w dps := getRootCrl_congr w w' hr
  have hbase : obtainBase Fixes.all w' f = obtainBase Fixes.all w f := by
    unfold obtainBase
    simp only [ht, hq]
    cases w.fetchTcb (tcbInfoURL f) with
    | fail => rfl
    | resp h1 b1 =>
      simp only [unsigned_members_cannot_replace]
      cases w.fetchQe qeIdentityURL with
      | fail => rfl
      | resp h2 b2 =>
        simp only [unsigned_members_cannot_replace]
  have hcrls : ∀ base, obtainCrls w' ca base = obtainCrls w ca base := by
    intro base
    unfold obtainCrls
    simp only [hp, hcert, hgr]
  unfold obtainCollateral
  simp only [hbase, hcrls]

/-- … lifted to whole calls: two worlds that differ only in that struct-decode give the same verdict. -/
theorem verdict_ignores_unsigned_content (C : Crypto) (w w' : World) (q : Option QuoteV4) (o : Opts)
    (tamperTcb : TcbInfoDoc → TcbInfoDoc) (tamperQe : QeIdDoc → QeIdDoc)
    (hc : w'.certs = w.certs) (hchain : w'.chainPem = w.chainPem) (hpool : w'.pool = w.pool) (hemb : w'.embeddedRoot = w.embeddedRoot)
    (hclock : w'.clock = w.clock) (hp : w'.fetchPckCrl = w.fetchPckCrl) (hr : w'.fetchRootCrl = w.fetchRootCrl)
    (ht : ∀ u, w'.fetchTcb u = match w.fetchTcb u with
      | .fail => .fail
      | .resp h b => .resp h { b with structDoc := tamperTcb b.structDoc })
    (hq : ∀ u, w'.fetchQe u = match w.fetchQe u with
      | .fail => .fail
      | .resp h b => .resp h { b with structDoc := tamperQe b.structDoc }) :
    (tdxQuote Fixes.all C w' q o).verdict = (tdxQuote Fixes.all C w q o).verdict := by
  have hob := obtainCollateral_congr w w' tamperTcb tamperQe hc hp hr ht hq
  have hcert : ∀ i, cert w' i = cert w i := fun i => by unfold cert; rw [hc]
  have hfetch : ∀ ch ext, fetchStage Fixes.all w' o ch ext = fetchStage Fixes.all w o ch ext := by
    intro ch ext
    unfold fetchStage
    simp only [hob, hcert]
  have hpv : ∀ roots inter c t, pathValid w' roots inter c t = pathValid w roots inter c t := by
    intro roots inter c t
    unfold pathValid
    simp only [hcert]
  have heff : effectiveRoots w' = effectiveRoots w := by unfold effectiveRoots; rw [hpool, hemb]
  have hev : ∀ q' T ch ext col, verifyEvidence Fixes.all C w' q' o T ch ext col = verifyEvidence Fixes.all C w q' o T ch ext col := by
    intro q' T ch ext col
    unfold verifyEvidence collateralStage chainChecks collateralChecks tcbInfoChecks qeIdentityChecks responseChecks
    simp only [hcert, hpv, heff]
  unfold tdxQuote
  simp only [hfetch, hchain, hcert, hev, hclock]

/-- Any response signed by a key the trusted root did not certify for that role is rejected: if the signature over the raw
    member does not verify under the header's signer certificate, the verdict is not acceptance. -/
theorem bad_signature_rejected (C : Crypto) (w : World) (q : Option QuoteV4) (o : Opts) (hg : o.getCollateral = true)
    (hbad : ∀ u h b signer root raw sig, w.fetchTcb u = .resp h b → headerToIssuerChain h = .ok (signer, root) →
      b.raw = some raw → isHex128 b.signature = some sig → C.verifyCert signer raw sig = false) :
    (tdxQuote Fixes.all C w q o).verdict ≠ .ok () := by
  intro h
  obtain ⟨ext, c, ⟨h1, b1, raw, sig, f1, g1, r1, _, e1, v1, _⟩, _⟩ := values_are_signed_values C w q o hg h
  rw [hbad _ h1 b1 _ _ raw sig f1 g1 r1 e1] at v1
  cases v1

/-! ### the pinned tree (finding F6): values taken from the struct-decode of the whole body -/

theorem unfixed_witness_values_from_struct_decode {Doc : Type} (b : BodyF Doc) (raw : Bytes)
    (hs : b.structOk = true) (hr : b.raw = some raw) :
    bodyValues { Fixes.all with f6 := false } b = .ok (b.structDoc, b.signature, raw, b.zero) := by
  unfold bodyValues
  simp [hs, hr]

/-- so with f6 unrepaired an unsigned duplicate member (which lands in `structDoc`) changes the values used -/
theorem unfixed_witness_unsigned_replaces (b : BodyF Nat) (raw : Bytes) (hs : b.structOk = true) (hr : b.raw = some raw)
    (other : Nat) (hne : other ≠ b.structDoc) :
    bodyValues { Fixes.all with f6 := false } { b with structDoc := other } ≠ bodyValues { Fixes.all with f6 := false } b := by
  rw [unfixed_witness_values_from_struct_decode b raw hs hr,
      unfixed_witness_values_from_struct_decode { b with structDoc := other } raw hs hr]
  intro h
  simp only [Outcome.ok.injEq, Prod.mk.injEq] at h
  exact hne h.1

end Tdx.Props.C03
