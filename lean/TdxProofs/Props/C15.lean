/-
  C15 — the guest client relays device data exactly; every device failure is an error.
  Property theorems only.
-/
import TdxModel.Client

namespace Tdx.Props.C15
open Tdx Tdx.Client

/-- a device script is well formed when it leaves arrays of the ABI's sizes behind -/
structure WF (s : DevScript) : Prop where
  report_len : s.report.length = repSize
  buf_len : ∀ b, s.buf = some b → b.length = reqBuf

theorem attestSuccess_eq : attestSuccess = 0 := rfl

theorem dataWithReport_len (r : Bytes) : (dataWithReport r).length = reqBuf := by
  unfold dataWithReport zeros
  simp only [List.length_append, List.length_replicate, List.length_take]
  have : repSize ≤ reqBuf := by decide
  omega

theorem dataAfter_len {s : DevScript} (h : WF s) (r : Bytes) : (dataAfter s r).length = reqBuf := by
  unfold dataAfter
  cases hb : s.buf with
  | none => simpa using dataWithReport_len r
  | some b => simpa using h.buf_len b hb

theorem getReport_ok_iff (s : DevScript) (r : Bytes) :
    getReport s = .ok r ↔ s.repErr = false ∧ s.repRes = 0 ∧ r = s.report := by
  unfold getReport
  rw [attestSuccess_eq]
  by_cases h1 : s.repErr <;> by_cases h2 : s.repRes = 0 <;> simp [h1, h2, eq_comm]

theorem getReport_ne_panic (s : DevScript) : getReport s ≠ .panic := by
  unfold getReport; split; · simp
  split <;> simp

/-- The report request always carries exactly the caller's report data. -/
theorem report_request_carries_data (s : DevScript) (rd : Bytes) :
    (getRawQuoteViaDevice s rd).2.reportReq = some rd := rfl

/-- The quote request is issued exactly when the report request succeeded (no error, result 0), and
    it is then the request built from the TD report the device returned. -/
theorem quote_request_spec (s : DevScript) (rd : Bytes) :
    (getRawQuoteViaDevice s rd).2.quoteReq =
      if s.repErr = false ∧ s.repRes = 0 then some (quoteReqOf s.report) else none := by
  show (trace s rd).quoteReq = _
  unfold trace
  cases hg : getReport s with
  | ok r =>
    obtain ⟨a, b, rfl⟩ := (getReport_ok_iff s r).mp hg
    simp [a, b]
  | err e =>
    have : ¬ (s.repErr = false ∧ s.repRes = 0) := fun ⟨a, b⟩ => by
      have := (getReport_ok_iff s s.report).mpr ⟨a, b, rfl⟩
      rw [hg] at this; cases this
    simp only [this, if_false]
  | panic => exact absurd hg (getReport_ne_panic s)

/-- …and that request carries the TD report in its first `TdReportSize` bytes, `InLen = TdReportSize`,
    `Length = ReqBufSize`, in a `ReqBufSize`-byte buffer. -/
theorem quote_request_carries_report (r : Bytes) (h : r.length = repSize) :
    (quoteReqOf r).data.take repSize = r ∧ (quoteReqOf r).inLen = repSize ∧
    (quoteReqOf r).length = reqBuf ∧ (quoteReqOf r).data.length = reqBuf ∧
    (quoteReqOf r).version = 1 ∧ (quoteReqOf r).status = 0 ∧ (quoteReqOf r).outLen = 0 := by
  refine ⟨?_, rfl, rfl, dataWithReport_len _, rfl, rfl, rfl⟩
  unfold quoteReqOf dataWithReport
  simp [← h]

/-- Main statement: the result is `ok bytes` exactly when both requests succeed with result 0,
    status is 0, `0 < OutLen ≤ ReqBufSize`, and `bytes` are the first `OutLen` bytes of what the
    device left in the buffer. -/
theorem device_relay_spec (s : DevScript) (rd bytes : Bytes) (h : WF s) :
    (getRawQuoteViaDevice s rd).1 = .ok bytes ↔
      (s.repErr = false ∧ s.repRes = 0 ∧ s.qErr = false ∧ s.qRes = 0 ∧ s.status = 0 ∧
       0 < s.outLen ∧ s.outLen ≤ reqBuf ∧ bytes = (dataAfter s s.report).take s.outLen) := by
  show result s = .ok bytes ↔ _
  unfold result
  cases hg : getReport s with
  | ok r =>
    obtain ⟨a, b, rfl⟩ := (getReport_ok_iff s r).mp hg
    have hl := dataAfter_len h s.report
    rw [attestSuccess_eq]
    by_cases h3 : s.qErr <;> simp [a, b, h3]
    by_cases h4 : s.qRes = 0 <;> simp [h4]
    by_cases h5 : s.status = 0
    · simp [h5]
      by_cases h6 : s.outLen = 0 ∨ reqBuf < s.outLen
      · simp [h6]; intro x y; omega
      · simp [h6]
        have h6' : 0 < s.outLen ∧ s.outLen ≤ reqBuf := by omega
        unfold slice
        simp [hl, h6', eq_comm]
    · simp [h5]
      split; · simp
      split <;> simp
  | err e =>
    have : ¬ (s.repErr = false ∧ s.repRes = 0) := fun ⟨a, b⟩ => by
      have := (getReport_ok_iff s s.report).mpr ⟨a, b, rfl⟩
      rw [hg] at this; cases this
    constructor
    · intro x; cases x
    · intro ⟨a, b, _⟩; exact absurd ⟨a, b⟩ this
  | panic => exact absurd hg (getReport_ne_panic s)

/-- No device outcome makes the client crash. -/
theorem never_panics (s : DevScript) (rd : Bytes) (h : WF s) : (getRawQuoteViaDevice s rd).1 ≠ .panic := by
  show result s ≠ .panic
  unfold result
  cases hg : getReport s with
  | ok r =>
    have hl := dataAfter_len h r
    simp only
    split; · simp
    split; · simp
    split
    · split; · simp
      split <;> simp
    · split; · simp
      · rename_i h6
        unfold slice
        have : 0 ≤ s.outLen ∧ s.outLen ≤ (dataAfter s r).length := by omega
        simp [this]
  | err e => simp
  | panic => exact absurd hg (getReport_ne_panic s)

/-- Every other device outcome is an error. -/
theorem failure_is_error (s : DevScript) (rd : Bytes) (h : WF s)
    (hbad : ¬ (s.repErr = false ∧ s.repRes = 0 ∧ s.qErr = false ∧ s.qRes = 0 ∧ s.status = 0 ∧
       0 < s.outLen ∧ s.outLen ≤ reqBuf)) :
    ∃ e, (getRawQuoteViaDevice s rd).1 = .err e := by
  cases hr : (getRawQuoteViaDevice s rd).1 with
  | ok b =>
    have := (device_relay_spec s rd b h).mp hr
    exact absurd ⟨this.1, this.2.1, this.2.2.1, this.2.2.2.1, this.2.2.2.2.1, this.2.2.2.2.2.1, this.2.2.2.2.2.2.1⟩ hbad
  | err e => exact ⟨e, rfl⟩
  | panic => exact absurd hr (never_panics s rd h)

/-- The TD report is never returned in place of a quote: when the device wrote the buffer, the
    result is a prefix of what it wrote. -/
theorem result_is_device_output (s : DevScript) (rd bytes b : Bytes) (h : WF s) (hb : s.buf = some b)
    (hr : (getRawQuoteViaDevice s rd).1 = .ok bytes) : bytes = b.take s.outLen := by
  have := ((device_relay_spec s rd bytes h).mp hr).2.2.2.2.2.2.2
  simpa [dataAfter, hb] using this

/-- Quote provider: supported ⇒ the provider's pair verbatim; unsupported ⇒ the device path. -/
theorem provider_spec (p : ProvScript) :
    getRawQuoteViaProvider p = if p.supported then .verbatim p.bytes p.err else .devicePath := rfl

/-! ### the pinned tree (finding F8): OutLen unchecked on the success path -/

def f8Script (outLen : Nat) : DevScript :=
  { repErr := false, repRes := 0, report := zeros repSize, qErr := false, qRes := 0, status := 0,
    outLen := outLen, buf := none }

theorem f8Script_report (n : Nat) : getReport (f8Script n) = .ok (zeros repSize) := by
  simp [getReport, f8Script, attestSuccess_eq]

/-- OutLen 0 with status 0: the pinned tree returns an empty quote and no error. -/
theorem unfixed_witness_empty_quote : resultUnfixed (f8Script 0) = .ok [] := by
  unfold resultUnfixed
  rw [f8Script_report]
  simp [f8Script, attestSuccess_eq, slice]

/-- OutLen = ReqBufSize + 1 with status 0: the pinned tree slices out of range. -/
theorem unfixed_witness_panic : resultUnfixed (f8Script (reqBuf + 1)) = .panic := by
  unfold resultUnfixed
  rw [f8Script_report]
  have hl : (dataAfter (f8Script (reqBuf + 1)) (zeros repSize)).length = reqBuf := dataWithReport_len _
  simp [f8Script, attestSuccess_eq, slice] at hl ⊢
  omega

/-! ### non-vacuity: a concrete well-formed script that succeeds -/

def okScript : DevScript :=
  { repErr := false, repRes := 0, report := zeros repSize, qErr := false, qRes := 0, status := 0,
    outLen := 5, buf := some (zeros reqBuf) }

theorem okScript_wf : WF okScript :=
  ⟨by simp [okScript, zeros], by intro b hb; cases hb; simp [zeros]⟩

example : (getRawQuoteViaDevice okScript (zeros 64)).1 = .ok ((zeros reqBuf).take 5) :=
  (device_relay_spec okScript (zeros 64) _ okScript_wf).mpr
    ⟨rfl, rfl, rfl, rfl, rfl, by decide, by decide, rfl⟩

end Tdx.Props.C15
