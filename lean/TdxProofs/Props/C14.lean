/-
  C14 — a policy message means the same after conversion to validation options.
  Property theorems only.
-/
import TdxModel.Validate
import TdxProofs.Lemmas.Validate
import TdxProofs.Props.C08

namespace Tdx.Props.C14
open Tdx Tdx.Gen Tdx.Abi Tdx.Validate

/-- a byte-string expectation is well sized when it is absent (nil) or has exactly its field's size -/
def SizedOpt (n : Nat) (o : Option Bytes) : Prop := ∀ v, o = some v → v.length = n

/-- a list expectation is well sized when it is empty, or has the required count and every entry is empty or right-sized -/
def SizedList (count : Option Nat) (n : Nat) (l : List Bytes) : Prop :=
  l = [] ∨ ((∀ c, count = some c → l.length = c) ∧ ∀ e ∈ l, e.length = 0 ∨ e.length = n)

/-- exactly the policies that convert -/
structure WellSized (o : Options) : Prop where
  minQe : o.minimumQeSvn ≤ 65535
  minPce : o.minimumPceSvn ≤ 65535
  minTee : SizedOpt 16 o.minimumTeeTcbSvn
  mrSeam : SizedOpt 48 o.mrSeam
  tdAttributes : SizedOpt 8 o.tdAttributes
  xfam : SizedOpt 8 o.xfam
  mrTd : SizedOpt 48 o.mrTd
  mrConfigId : SizedOpt 48 o.mrConfigId
  mrOwner : SizedOpt 48 o.mrOwner
  mrOwnerConfig : SizedOpt 48 o.mrOwnerConfig
  reportData : SizedOpt 64 o.reportData
  qeVendorId : SizedOpt 16 o.qeVendorId
  rtmrs : SizedList (some 4) 48 o.rtmrs
  anyMrTd : SizedList none 48 o.anyMrTd

theorem lengthCheck_ok_iff (n : Nat) (o : Option Bytes) : lengthCheck n o = .ok () ↔ SizedOpt n o := by
  unfold lengthCheck SizedOpt
  cases o with
  | none => simp
  | some v => simp [guard_eq_ok_iff]

theorem lengthCheckMany_ok_iff (count : Option Nat) (n : Nat) (l : List Bytes) :
    lengthCheckMany count n l = .ok () ↔ SizedList count n l := by
  unfold lengthCheckMany SizedList
  by_cases h0 : l.length = 0
  · have : l = [] := List.eq_nil_of_length_eq_zero h0
    simp [this]
  · have hne : l ≠ [] := fun e => h0 (by simp [e])
    have hb : (l.length == 0) = false := by simpa using h0
    simp only [hb, Bool.false_eq_true, if_false, hne, false_or]
    cases count with
    | none =>
      simp only [guard_eq_ok_iff, List.all_eq_true, Bool.or_eq_true, beq_iff_eq]
      simp
    | some c =>
      dsimp only
      by_cases hc : l.length = c
      · rw [guard_true (by simpa using hc)]
        simp only [guard_eq_ok_iff, List.all_eq_true, Bool.or_eq_true, beq_iff_eq]
        simp [hc]
      · rw [guard_false (by simpa using hc)]
        simp [hc]

@[simp] theorem lengthCheck_ne_panic (n : Nat) (o : Option Bytes) : lengthCheck n o ≠ .panic := by
  unfold lengthCheck; cases o <;> simp

@[simp] theorem lengthCheckMany_ne_panic (count : Option Nat) (n : Nat) (l : List Bytes) :
    lengthCheckMany count n l ≠ .panic := by
  unfold lengthCheckMany
  split; · simp
  cases count <;> simp [bind_ne_panic_iff]

theorem checkOptionsLengths_ok_iff (o : Options) :
    checkOptionsLengths' true o = .ok () ↔
      SizedOpt 16 o.minimumTeeTcbSvn ∧ SizedOpt 48 o.mrSeam ∧ SizedOpt 8 o.tdAttributes ∧ SizedOpt 8 o.xfam ∧
      SizedOpt 48 o.mrTd ∧ SizedOpt 48 o.mrConfigId ∧ SizedOpt 48 o.mrOwner ∧ SizedOpt 48 o.mrOwnerConfig ∧
      SizedOpt 64 o.reportData ∧ SizedOpt 16 o.qeVendorId ∧ SizedList (some 4) 48 o.rtmrs ∧ SizedList none 48 o.anyMrTd := by
  unfold checkOptionsLengths'
  rw [combine_ok_iff]
  simp only [↓reduceIte, List.cons_append, List.nil_append, List.mem_cons, List.not_mem_nil, or_false,
    forall_eq_or_imp, forall_eq, gen_const, lengthCheck_ok_iff, lengthCheckMany_ok_iff]

theorem checkOptionsLengths_ne_panic (o : Options) : checkOptionsLengths' true o ≠ .panic := by
  unfold checkOptionsLengths'
  refine combine_ne_panic _ fun r hr => ?_
  simp only [↓reduceIte, List.cons_append, List.nil_append, List.mem_cons, List.not_mem_nil, or_false] at hr
  rcases hr with rfl | rfl | rfl | rfl | rfl | rfl | rfl | rfl | rfl | rfl | rfl | rfl <;> simp

/-- Conversion either fails or returns exactly the options that read the policy field by field
    (no field dropped, crossed or altered). -/
theorem field_mapping (p : Option Policy) (o : Options) (h : policyToOptions p = .ok o) : o = optionsOf p := by
  unfold policyToOptions policyToOptions' at h
  obtain ⟨_, h⟩ := guard_ok h
  obtain ⟨_, h⟩ := guard_ok h
  obtain ⟨_, _, h⟩ := bind_ok h
  simp only [pure, Outcome.ok.injEq] at h
  exact h.symm

/-- …and `optionsOf` is the like-named field of the like-named sub-policy, for each of the 14 fields. -/
theorem optionsOf_fields (hp : HeaderPolicy) (tp : TdBodyPolicy) :
    let o := optionsOf (some ⟨some hp, some tp⟩)
    o.minimumQeSvn = hp.minimumQeSvn ∧ o.minimumPceSvn = hp.minimumPceSvn ∧ o.qeVendorId = hp.qeVendorId ∧
    o.minimumTeeTcbSvn = tp.minimumTeeTcbSvn ∧ o.mrSeam = tp.mrSeam ∧ o.tdAttributes = tp.tdAttributes ∧ o.xfam = tp.xfam ∧
    o.mrTd = tp.mrTd ∧ o.mrConfigId = tp.mrConfigId ∧ o.mrOwner = tp.mrOwner ∧ o.mrOwnerConfig = tp.mrOwnerConfig ∧
    o.rtmrs = tp.rtmrs ∧ o.reportData = tp.reportData ∧ o.anyMrTd = tp.anyMrTd := by
  simp [optionsOf]

/-- Conversion succeeds exactly on well-sized policies: it fails whenever an SVN minimum exceeds 16 bits
    or any byte-string expectation — including the minimum TEE TCB SVN — has the wrong length. -/
theorem conversion_ok_iff (p : Option Policy) :
    (∃ o, policyToOptions p = .ok o) ↔ WellSized (optionsOf p) := by
  unfold policyToOptions policyToOptions'
  simp only
  constructor
  · rintro ⟨o, h⟩
    obtain ⟨h1, h⟩ := guard_ok h
    obtain ⟨h2, h⟩ := guard_ok h
    obtain ⟨u, h3, _⟩ := bind_ok h
    cases u
    obtain ⟨a1, a2, a3, a4, a5, a6, a7, a8, a9, a10, a11, a12⟩ := (checkOptionsLengths_ok_iff _).mp h3
    exact ⟨(nblt_iff _ _).mp h1, (nblt_iff _ _).mp h2, a1, a2, a3, a4, a5, a6, a7, a8, a9, a10, a11, a12⟩
  · intro w
    refine ⟨optionsOf p, ?_⟩
    rw [guard_true ((nblt_iff _ _).mpr w.minQe), guard_true ((nblt_iff _ _).mpr w.minPce)]
    have := (checkOptionsLengths_ok_iff (optionsOf p)).mpr
      ⟨w.minTee, w.mrSeam, w.tdAttributes, w.xfam, w.mrTd, w.mrConfigId, w.mrOwner, w.mrOwnerConfig, w.reportData,
       w.qeVendorId, w.rtmrs, w.anyMrTd⟩
    rw [bind_eq this]
    rfl

theorem conversion_never_panics (p : Option Policy) : policyToOptions p ≠ .panic := by
  unfold policyToOptions policyToOptions'
  refine guard_bind_ne_panic fun _ => guard_bind_ne_panic fun _ => ?_
  exact bind_ne_panic (checkOptionsLengths_ne_panic _) fun _ _ => by simp [pure]

theorem conversion_fails_when_malformed (p : Option Policy) (h : ¬ WellSized (optionsOf p)) :
    ∃ e, policyToOptions p = .err e := by
  cases hr : policyToOptions p with
  | ok o => exact absurd ((conversion_ok_iff p).mp ⟨o, hr⟩) h
  | err e => exact ⟨e, rfl⟩
  | panic => exact absurd hr (conversion_never_panics p)

/-- in particular: a non-empty minimum TEE TCB SVN of the wrong length does not convert -/
theorem min_tee_tcb_svn_wrong_length_fails (p : Option Policy) (v : Bytes)
    (hv : (optionsOf p).minimumTeeTcbSvn = some v) (hl : v.length ≠ 16) : ∃ e, policyToOptions p = .err e :=
  conversion_fails_when_malformed p fun w => hl (w.minTee v hv)

/-- **Main statement.** A policy that converts yields options under which validation gives, for every
    quote message, the verdict the policy literally describes, and can never crash validation. -/
theorem conversion_preserves_meaning (p : Option Policy) (o : Options) (h : policyToOptions p = .ok o) :
    (∀ q : QuoteV4, validate (some q) (some o) = .ok () ↔
        checkQuoteV4 (some q) = .ok () ∧
        C08.Meets (q.header.getD default) (q.tdQuoteBody.getD default) (optionsOf p)) ∧
    (∀ q : Option QuoteV4, validate q (some o) ≠ .panic) := by
  have := field_mapping p o h
  subst this
  exact ⟨fun q => C08.validate_ok_iff_meets q _, fun q => C08.validate_never_panics q _⟩

/-! ### the pinned tree (finding F7): the minimum TEE TCB SVN is not length-checked -/

def f7Policy : Option Policy := some ⟨none, some { minimumTeeTcbSvn := some [0] }⟩

theorem unfixed_witness_converts : (policyToOptionsUnfixed f7Policy).isOk = true := by decide
theorem fixed_rejects : (policyToOptions f7Policy).isErr = true := by decide

/-! ### non-vacuity -/

def okPolicy : Option Policy :=
  some ⟨some { minimumQeSvn := 7, minimumPceSvn := 5 }, some { mrTd := some (zeros 48), rtmrs := [[], zeros 48, [], []] }⟩

example : policyToOptions okPolicy = .ok C08.opts0 := by decide +kernel
example : WellSized (optionsOf okPolicy) := (conversion_ok_iff okPolicy).mp ⟨C08.opts0, by decide +kernel⟩

end Tdx.Props.C14
