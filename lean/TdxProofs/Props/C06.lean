/-
  C06 — nothing expired is accepted; each artifact is judged at its own configured time.
-/
import TdxModel.Verify
import TdxProofs.Lemmas.Verify

namespace Tdx.Props.C06
open Tdx Tdx.Gen Tdx.Abi Tdx.Verify

/-- the time set a call judges at: the caller's, or the clock reading of the call in all five entries -/
def timesOf (w : World) (o : Opts) : TimeSet := o.now.getD (defaultTimeSet w.clock)

/-- every certificate on a validated path is inside its validity period at `t` -/
def PathInWindow (w : World) (roots : List Nat) (inter : Option Nat) (c : Nat) (t : Int) : Prop :=
  inWindow (cert w c) t = true ∧ PathOk w roots inter c t

/-- what acceptance establishes about time, artifact by artifact, each at its own entry of the time set -/
structure InDate (w : World) (o : Opts) : Prop where
  witness : ∃ (ch : Chain), extractChain w.chainPem = .ok ch ∧
    let T := timesOf w o
    -- PCK chain, at T.pckCertChain: no certificate expired; leaf (and the path above it) inside the validity period
    T.pckCertChain ≤ (cert w ch.root).notAfter ∧ T.pckCertChain ≤ (cert w ch.inter).notAfter ∧
    T.pckCertChain ≤ (cert w ch.leaf).notAfter ∧
    PathInWindow w (effectiveRoots w) (some ch.inter) ch.leaf T.pckCertChain ∧
    -- collateral, when fetched
    (o.getCollateral = true → ∃ c : Collateral,
      -- TCB Info and its issuer chain at T.tcbInfo
      T.tcbInfo ≤ c.tcb.nextUpdate ∧ T.tcbInfo ≤ (cert w c.tcbSigner).notAfter ∧ T.tcbInfo ≤ (cert w c.tcbRoot).notAfter ∧
      PathInWindow w (effectiveRoots w) none c.tcbSigner T.tcbInfo ∧
      -- QE Identity and its issuer chain at T.qeIdentity
      T.qeIdentity ≤ c.qe.nextUpdate ∧ T.qeIdentity ≤ (cert w c.qeSigner).notAfter ∧ T.qeIdentity ≤ (cert w c.qeRoot).notAfter ∧
      PathInWindow w (effectiveRoots w) none c.qeSigner T.qeIdentity ∧
      -- CRLs, when revocation is checked: Root CA CRL at T.rootCaCrl; PCK CRL and its issuer chain at T.pckCrl
      (o.checkRevocations = true → ∃ rootCrl cs crt pckCrl, c.rootCrl = some rootCrl ∧ c.pckCrl = some (cs, crt, pckCrl) ∧
        T.rootCaCrl ≤ rootCrl.nextUpdate ∧ T.pckCrl ≤ pckCrl.nextUpdate ∧
        T.pckCrl ≤ (cert w cs).notAfter ∧ T.pckCrl ≤ (cert w crt).notAfter))

/-- **C06, main statement.** -/
theorem accept_implies_in_date (C : Crypto) (w : World) (q : Option QuoteV4) (o : Opts)
    (h : (tdxQuote Fixes.all C w q o).verdict = .ok ()) : InDate w o := by
  obtain ⟨q', ch, ext, col, rfl, _, hch, hext, hf, hev⟩ := ((tdxQuote_ok_iff C w q o).mp h).witness
  have hc := chainChecks_all w ch o _ col hev.chain
  refine ⟨ch, hch, hc.rootInDate, hc.interInDate, hc.leafInDate, (pathValid_iff ..).mp hc.anchored, ?_⟩
  intro hg
  obtain ⟨c, hcol, hcc, ht, hq⟩ := hev.collateral hg
  subst hcol
  have d := collateralChecks_all w o _ c hcc
  have t := tcbInfoChecks_all C w o _ c ht
  have qq := qeIdentityChecks_all C w o _ c hq
  exact ⟨c, d.tcb, d.tcbSigner, d.tcbRoot, (pathValid_iff ..).mp t.response.anchored,
    d.qe, d.qeSigner, d.qeRoot, (pathValid_iff ..).mp qq.response.anchored, d.crls⟩

/-- Each artifact class is judged at its own entry: an expired PCK-chain certificate is fatal exactly at the
    PckCertChain time, whatever the other four entries are. -/
theorem expired_chain_cert_rejected (C : Crypto) (w : World) (q : Option QuoteV4) (o : Opts) (ch : Chain)
    (hch : extractChain w.chainPem = .ok ch)
    (hexp : (cert w ch.root).notAfter < (timesOf w o).pckCertChain ∨ (cert w ch.inter).notAfter < (timesOf w o).pckCertChain ∨
            (cert w ch.leaf).notAfter < (timesOf w o).pckCertChain) :
    (tdxQuote Fixes.all C w q o).verdict ≠ .ok () := by
  intro h
  obtain ⟨ch', hch', a, b, c, _⟩ := (accept_implies_in_date C w q o h).witness
  rw [hch] at hch'; cases hch'
  rcases hexp with e | e | e <;> omega

/-- acceptance at the earlier times of a quote accepted at later times: all the *expiry* conditions are monotone
    (once something has expired it stays expired). Stated for the explicit expiry bounds of `InDate`. -/
theorem expired_stays_expired (t t' bound : Int) (hle : t ≤ t') (hexp : bound < t) : bound < t' := by omega

/-- Formal counterpart for a whole call: if a call with time set `T` is rejected *because an expiry bound is exceeded*,
    a call with a pointwise later time set exceeds the same bound; hence it cannot be accepted (by `accept_implies_in_date`).
    Here for the PCK chain; the same argument applies to every bound listed in `InDate`. -/
theorem chain_expiry_monotone (C : Crypto) (w : World) (q : Option QuoteV4) (o o' : Opts) (ch : Chain)
    (hch : extractChain w.chainPem = .ok ch)
    (hlater : (timesOf w o).pckCertChain ≤ (timesOf w o').pckCertChain)
    (hexp : (cert w ch.root).notAfter < (timesOf w o).pckCertChain ∨ (cert w ch.inter).notAfter < (timesOf w o).pckCertChain ∨
            (cert w ch.leaf).notAfter < (timesOf w o).pckCertChain) :
    (tdxQuote Fixes.all C w q o').verdict ≠ .ok () := by
  apply expired_chain_cert_rejected C w q o' ch hch
  rcases hexp with e | e | e
  · exact Or.inl (by omega)
  · exact Or.inr (Or.inl (by omega))
  · exact Or.inr (Or.inr (by omega))

/-- collateral artifacts likewise: an expired TCB Info / QE Identity / issuer-chain certificate / CRL is fatal at its own entry -/
theorem expired_collateral_rejected (C : Crypto) (w : World) (q : Option QuoteV4) (o : Opts)
    (hg : o.getCollateral = true)
    (hexp : ∀ c : Collateral,
      c.tcb.nextUpdate < (timesOf w o).tcbInfo ∨ c.qe.nextUpdate < (timesOf w o).qeIdentity ∨
      (cert w c.tcbSigner).notAfter < (timesOf w o).tcbInfo ∨ (cert w c.qeSigner).notAfter < (timesOf w o).qeIdentity ∨
      (cert w c.tcbRoot).notAfter < (timesOf w o).tcbInfo ∨ (cert w c.qeRoot).notAfter < (timesOf w o).qeIdentity) :
    (tdxQuote Fixes.all C w q o).verdict ≠ .ok () := by
  intro h
  obtain ⟨ch, _, _, _, _, _, hc⟩ := (accept_implies_in_date C w q o h).witness
  obtain ⟨c, a1, a2, a3, _, b1, b2, b3, _⟩ := hc hg
  rcases hexp c with e | e | e | e | e | e <;> omega

/-- with no caller-supplied times, all five entries are the clock reading of the call -/
theorem default_times (w : World) (o : Opts) (h : o.now = none) : timesOf w o = defaultTimeSet w.clock := by
  simp [timesOf, h]

end Tdx.Props.C06
