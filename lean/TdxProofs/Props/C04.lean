/-
  C04 — TCB status follows Intel's algorithm; only an UpToDate platform and module pass.
-/
import TdxModel.Verify
import TdxProofs.Lemmas.Verify
import TdxProofs.Lemmas.Tcb
import TdxProofs.Lemmas.Validate

namespace Tdx.Props.C04
open Tdx Tdx.Gen Tdx.Abi Tdx.Verify

/-- the identity fields of the TCB Info match the PCK certificate and the quote -/
structure IdentityMatches (doc : TcbInfoDoc) (t : TdQuoteBody) (ext : PckExt.PckExtensions) : Prop where
  fmspc : foldEq ext.fmspc doc.fmspc = true                 -- case-insensitive
  pceId : ext.pceid = doc.pceId
  seamSigner : doc.modMrsigner = t.mrSignerSeam
  maskSize : doc.modMask.length = t.seamAttributes.length
  seamAttributes : doc.modAttributes = applyMask doc.modMask t.seamAttributes   -- masked SEAMATTRIBUTES

/-- Intel's algorithm as the statement words it -/
def TcbUpToDate (doc : TcbInfoDoc) (tee : Bytes) (pcesvn : Nat) (comps : Bytes) (h2 : 2 ≤ tee.length) : Prop :=
  ∃ platform, FirstMatch comps pcesvn tee doc.levels platform ∧ upToDate platform = true ∧
    (tee[1]'(by omega) > 0 → ∃ m, ModuleLevel doc.identities (tee[0]'(by omega)) (tee[1]'(by omega)) m ∧ upToDate m = true)

/-- **C04, main statement** for `verifyTdQuoteBody`: it succeeds exactly when the identity fields match and the TCB
    algorithm yields UpToDate — for level lists and identity lists of any length. -/
theorem tcb_accept_iff (doc : TcbInfoDoc) (t : TdQuoteBody) (ext : PckExt.PckExtensions) (h2 : 2 ≤ t.teeTcbSvn.length) :
    tdBodyCheck Fixes.all doc t ext = .ok () ↔
      IdentityMatches doc t ext ∧ TcbUpToDate doc t.teeTcbSvn ext.tcb.pcesvn ext.tcb.comps h2 := by
  unfold tdBodyCheck TcbUpToDate
  rw [runChecks_bind_ok, tcbStatusCheck_ok_iff doc t.teeTcbSvn ext.tcb.pcesvn ext.tcb.comps h2]
  simp only [List.mem_cons, List.not_mem_nil, or_false, forall_eq_or_imp, forall_eq, beq_iff_eq]
  constructor
  · rintro ⟨⟨a, b, c, d, e⟩, f⟩; exact ⟨⟨a, b, c, d, e⟩, f⟩
  · rintro ⟨⟨a, b, c, d, e⟩, f⟩; exact ⟨⟨a, b, c, d, e⟩, f⟩

/-- what `Matches` means, component by component: SGX components and PCE SVN of the PCK certificate, TDX components of
    the quote from index 2 when TEE_TCB_SVN[1] ≠ 0 (from index 0 otherwise) -/
theorem matches_spelled_out (comps : Bytes) (pcesvn : Nat) (tee : Bytes) (l : TcbLevelF) :
    Matches comps pcesvn tee l ↔
      (comps.length = l.sgx.length ∧ ∀ i (h1 : i < comps.length) (h2 : i < l.sgx.length), l.sgx[i] ≤ comps[i].toNat) ∧
      l.pcesvn ≤ pcesvn ∧
      (tee.length = l.tdx.length ∧ ∀ i (h1 : i < tee.length) (h2 : i < l.tdx.length),
        (if (tee[1]?.getD 0) > 0 then 2 else 0) ≤ i → l.tdx[i] ≤ tee[i].toNat) := by
  unfold Matches CompsGe tdxStart
  simp only [Nat.zero_le, true_imp_iff]

/-- **C04 for whole calls.** -/
theorem accept_implies_tcb (C : Crypto) (w : World) (q : Option QuoteV4) (o : Opts)
    (hg : o.getCollateral = true) (h : (tdxQuote Fixes.all C w q o).verdict = .ok ()) :
    ∃ (q' : QuoteV4) (t : TdQuoteBody) (ch : Chain) (ext : PckExt.PckExtensions) (c : Collateral) (h2 : 2 ≤ t.teeTcbSvn.length),
      q = some q' ∧ q'.tdQuoteBody = some t ∧ extractChain w.chainPem = .ok ch ∧
      PckExt.pckCertificateExtensions (cert w ch.leaf).pck = .ok ext ∧
      IdentityMatches c.tcb t ext ∧ TcbUpToDate c.tcb t.teeTcbSvn ext.tcb.pcesvn ext.tcb.comps h2 := by
  obtain ⟨q', ch, ext, col, rfl, hc, hch, hext, hf, hev⟩ := ((tdxQuote_ok_iff C w q o).mp h).witness
  obtain ⟨c, hcol, _⟩ := hev.collateral hg
  subst hcol
  obtain ⟨_, hT, _⟩ := Validate.checkQuoteV4_ok hc
  obtain ⟨t, et, ht1, _⟩ := Validate.checkTDQuoteBody_ok hT
  have h2 : 2 ≤ t.teeTcbSvn.length := by omega
  have hb := (hev.tcb c rfl).1
  rw [et] at hb
  simp only [Option.getD_some] at hb
  obtain ⟨a, b⟩ := (tcb_accept_iff c.tcb t ext h2).mp hb
  exact ⟨q', t, ch, ext, c, h2, rfl, et, hch, hext, a, b⟩

/-- If no level matches, verification fails … -/
theorem no_match_is_error (doc : TcbInfoDoc) (tee : Bytes) (pcesvn : Nat) (comps : Bytes) (h2 : 2 ≤ tee.length)
    (hnone : ∀ l ∈ doc.levels, ¬ Matches comps pcesvn tee l) :
    ∃ e, tcbStatusCheck Fixes.all doc tee pcesvn comps = .err e := by
  unfold tcbStatusCheck
  rcases getMatchingTcbLevel_spec comps pcesvn tee doc.levels h2 with ⟨p, _, i, hi, e, hm, _⟩ | ⟨hn, _⟩
  · exact absurd hm (hnone p (e ▸ List.getElem_mem hi))
  · rw [hn]; exact ⟨_, rfl⟩

/-- … and the level-reporting API returns an error rather than an empty level. -/
theorem supported_levels_error_not_empty (doc : TcbInfoDoc) (qe : QeIdDoc) (tee : Bytes) (pcesvn : Nat) (comps : Bytes)
    (isvsvn : Nat) (h2 : 2 ≤ tee.length) (hnone : ∀ l ∈ doc.levels, ¬ Matches comps pcesvn tee l) :
    ∃ e, supportedTcbLevels true Fixes.all doc qe tee pcesvn comps isvsvn = .err e := by
  unfold supportedTcbLevels
  rcases getMatchingTcbLevel_spec comps pcesvn tee doc.levels h2 with ⟨p, _, i, hi, e, hm, _⟩ | ⟨hn, _⟩
  · exact absurd hm (hnone p (e ▸ List.getElem_mem hi))
  · rw [hn]
    simp only
    cases qe.levels.find? (fun l => decide (l.isvsvn ≤ isvsvn)) <;> exact ⟨_, rfl⟩

/-! ### the pinned tree: F4 (platform status ignored when the module is consulted) and F5 (errors dropped) -/

def lvl (status : String) : TcbLevelF := { sgx := [], pcesvn := 0, tdx := [0, 0], isvsvn := 0, status := status }
def f4Doc : TcbInfoDoc :=
  { levels := [lvl "OutOfDate"], identities := [{ id := "TDX_01", levels := [lvl "UpToDate"] }] }

/-- platform level OutOfDate, TDX module level UpToDate, TEE_TCB_SVN[1] = 1: accepted by the pinned tree, rejected repaired -/
theorem unfixed_witness_platform_ignored :
    tcbStatusCheck { Fixes.all with f4 := false } f4Doc [0, 1] 0 [] = .ok () ∧
    (tcbStatusCheck Fixes.all f4Doc [0, 1] 0 []).isErr = true := by decide

/-- no level matches: the pinned tree reports success with empty levels -/
theorem unfixed_witness_error_dropped :
    supportedTcbLevels false Fixes.all { levels := [{ sgx := [9], status := "UpToDate" }] } {} [0, 0] 0 [1] 0 = .ok (default, default) ∧
    (supportedTcbLevels true Fixes.all { levels := [{ sgx := [9], status := "UpToDate" }] } {} [0, 0] 0 [1] 0).isErr = true := by decide

/-! ### non-vacuity: a two-level list whose second level is the first match -/
example : tcbStatusCheck Fixes.all
    { levels := [{ sgx := [5], pcesvn := 0, tdx := [0, 0], status := "Revoked" }, { sgx := [3], pcesvn := 0, tdx := [0, 0], status := "UpToDate" }] }
    [0, 0] 7 [4] = .ok () := by decide

end Tdx.Props.C04
