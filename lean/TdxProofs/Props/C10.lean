/-
  C10 — no entry point crashes on untrusted quotes, quote messages or collateral.
  One theorem per public entry point, each for EVERY input; termination is by structural recursion of the model
  functions (no fuel), which is the model-level content of "does not hang".
-/
import TdxModel.Abi
import TdxModel.Validate
import TdxModel.Verify
import TdxModel.Ccel
import TdxProofs.Lemmas.AbiNoPanic
import TdxProofs.Lemmas.VerifyNoPanic
import TdxProofs.Props.C08
import TdxProofs.Props.C09
import TdxProofs.Props.C13
import TdxProofs.Props.C18

namespace Tdx.Props.C10
open Tdx Tdx.Abi Tdx.Verify

/-- abi.QuoteToProto: every byte string -/
theorem QuoteToProto_never_panics (b : Bytes) : quoteToProto b ≠ .panic := quoteToProto_np b

/-- abi.QuoteToAbiBytes, abi.CheckQuoteV4 and the exported sub-serialisers: every message (absent sub-messages, fields of
    any length, any number of RTMRs; `none` = typed nil pointer) -/
theorem QuoteToAbiBytes_never_panics (q : Option QuoteV4) : quoteToAbiBytes q ≠ .panic := quoteToAbiBytes_np q
theorem CheckQuoteV4_never_panics (q : Option QuoteV4) : checkQuoteV4 q ≠ .panic := checkQuoteV4_np q
theorem HeaderToAbiBytes_never_panics (h : Option Header) : headerToAbiBytes h ≠ .panic := headerToAbiBytes_np h
theorem TdQuoteBodyToAbiBytes_never_panics (t : Option TdQuoteBody) : tdQuoteBodyToAbiBytes t ≠ .panic := tdQuoteBodyToAbiBytes_np t
theorem EnclaveReportToAbiBytes_never_panics (r : Option EnclaveReport) : enclaveReportToAbiBytes r ≠ .panic := enclaveReportToAbiBytes_np r

/-- validate.TdxQuote: every message and every options value -/
theorem validate_TdxQuote_never_panics (q : Option QuoteV4) (o : Option Validate.Options) : Validate.validate q o ≠ .panic :=
  C08.validate_never_panics q o

/-- validate.RawTdxQuote: every byte string -/
theorem validate_RawTdxQuote_never_panics (b : Bytes) (o : Option Validate.Options) :
    (quoteToProto b >>= fun q => Validate.validate (some q) o) ≠ .panic :=
  bind_ne_panic (quoteToProto_np b) fun q _ => C08.validate_never_panics (some q) o

/-- verify.TdxQuote: every message, every world (arbitrary chain bytes, collateral, CRL and issuer-chain responses as
    decoded by the standard library), every option value — given only that SHA-256 returns 32 bytes -/
theorem verify_TdxQuote_never_panics (C : Crypto) (hsha : ∀ b, (C.sha256 b).length = 32) (w : World) (q : Option QuoteV4) (o : Opts) :
    (tdxQuote Fixes.all C w q o).verdict ≠ .panic := tdxQuote_np C hsha w q o

/-- verify.RawTdxQuote -/
theorem verify_RawTdxQuote_never_panics (C : Crypto) (hsha : ∀ b, (C.sha256 b).length = 32) (w : World) (b : Bytes) (o : Opts) :
    (quoteToProto b >>= fun q => (tdxQuote Fixes.all C w (some q) o).verdict) ≠ .panic :=
  bind_ne_panic (quoteToProto_np b) fun q _ => tdxQuote_np C hsha w (some q) o

/-- verify.ExtractChainFromQuote: every decoding of the chain bytes -/
theorem ExtractChainFromQuote_never_panics (pem : Option PemFacts) : extractChain pem ≠ .panic := extractChain_np pem

/-- pcs.PckCertificateExtensions: every decoded extension tree -/
theorem PckCertificateExtensions_never_panics (c : PckExt.Cert) : PckExt.pckCertificateExtensions c ≠ .panic :=
  C13.extract_never_panics c

/-- rtmr.GetRtmrsFromTdQuote: every message -/
theorem GetRtmrsFromTdQuote_never_panics (q : Option QuoteV4) : Ccel.getRtmrs true q ≠ .panic := C18.getRtmrs_never_panics q

/-- the TCB-level lookup behind verify.SupportedTcbLevelsFromCollateral (and behind verification): every TEE TCB SVN — of any
    length, also none at all — against every list of levels of any shape; the comparison of one level first -/
theorem tdxSvnGe_never_panics (tee : Bytes) (lvl : List Nat) : tdxSvnGe tee lvl ≠ .panic := by
  unfold tdxSvnGe
  split
  · simp
  · split <;> simp

theorem getMatchingTcbLevel_never_panics (comps : Bytes) (pcesvn : Nat) (tee : Bytes) (ls : List TcbLevelF) :
    getMatchingTcbLevel comps pcesvn tee ls ≠ .panic := by
  induction ls with
  | nil => simp [getMatchingTcbLevel]
  | cons l rest ih =>
    unfold getMatchingTcbLevel
    have hl : levelMatches comps pcesvn tee l ≠ .panic := by
      unfold levelMatches
      split
      · simp
      · split
        · simp
        · exact tdxSvnGe_never_panics tee l.tdx
    cases hm : levelMatches comps pcesvn tee l with
    | panic => exact absurd hm hl
    | err e => simp
    | ok b => cases b <;> simp [ih]

/-- every outcome is a result or an error -/
theorem result_or_error {α : Type} (x : Outcome α) (h : x ≠ .panic) : (∃ a, x = .ok a) ∨ ∃ e, x = .err e := by
  cases x with
  | ok a => exact Or.inl ⟨a, rfl⟩
  | err e => exact Or.inr ⟨e, rfl⟩
  | panic => exact absurd rfl h

/-! ### the pinned tree: F1 (parser), F2 (nil header), F7 (short minimum TEE TCB SVN), F12 (nil TD body), F16 (short TEE TCB SVN) -/

/-- F16: a TEE TCB SVN of no bytes (a message without TD quote body) against a level that lists no TDX component -/
theorem unfixed_witness_short_tee_tcb_svn : tdxSvnGeUnfixed [] [] = .panic ∧ tdxSvnGeUnfixed [7] [3] = .panic ∧
    tdxSvnGe [] [] = .ok false ∧ tdxSvnGe [7] [3] = .ok false := by decide


/-- F2: the log statements dereference `quote.Header` before the structural check -/
theorem unfixed_witness_nil_header (C : Crypto) (w : World) (o : Opts) :
    (tdxQuote { Fixes.all with f2 := false } C w (some { (default : QuoteV4) with header := none }) o).verdict = .panic ∧
    (tdxQuote { Fixes.all with f2 := false } C w none o).verdict = .panic := by
  constructor <;> simp [tdxQuote]

theorem unfixed_witnesses_elsewhere :
    quoteToProtoUnfixed C09.f1Witness = .panic ∧
    Validate.isSvnHigherOrEqualUnfixed (zeros 16) (some [0, 0, 0]) = .panic ∧
    Ccel.getRtmrs false (some { (default : QuoteV4) with tdQuoteBody := none }) = .panic :=
  ⟨C09.unfixed_witness_short_signed_data, C08.unfixed_witness_min_tee_tcb_svn_short, C18.unfixed_witness_nil_body⟩

end Tdx.Props.C10
