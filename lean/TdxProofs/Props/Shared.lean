/-
  Obligations shared by every property whose statement says "the result depends only on the inputs of the call"
  (verdicts, extracted values, relayed bytes, performed operations): the library keeps no state of its own between or
  across calls.  Both lists are regenerated from the source on every run.
-/
import TdxModel.Generated.Sites

namespace Tdx.Props.Shared
open Tdx

/-- no function of the parsing, verification, validation, extension-extraction, quote-fetching, RTMR and retry paths assigns
    to, increments, takes the address of, or calls a pointer-receiver method on a package-level variable (outside `init`):
    no scratch buffer, cache, pool, memo table or counter that one call could leave for the next or that concurrent calls
    could share -/
theorem no_package_state_written : Gen.packageStateWrites = [] := by decide

/-- the only state a call can leave behind in the caller's `verify.Options` are the three unexported fields the model's
    `stateAfter` speaks of; each is overwritten by `tdxQuoteV4` before it is read -/
theorem hidden_option_state_is_modelled :
    Gen.optionsHiddenFields = [("chain", "*verify.PCKCertificateChain"), ("collateral", "*verify.Collateral"),
                               ("pckCertExtensions", "*pcs.PckExtensions")] := by decide

end Tdx.Props.Shared
