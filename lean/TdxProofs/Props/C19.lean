/-
  C19 — the check tool's exit code is truthful, flags override the config, it never crashes.
  Property theorems, unfixed witnesses (F10, F11, F14) and non-vacuity examples only.
-/
import TdxModel.CheckTool
import TdxProofs.Lemmas.CheckTool

namespace Tdx.Props.C19
open Tdx Tdx.CheckTool Tdx.Lemmas.CheckTool

/-! ### the step-by-step `main` and the decision table agree; no crash -/

/-- For every library, command line, config shape and quote argument the (repaired) tool terminates
    through `os.Exit` with the code of the decision table `exitCode`. -/
theorem tool_eq_exit (L : Library) (i : ToolInput) : tool L i = .exit (exitCode L i) := by
  have er : mergeRot i.flags (baseOf i.config).rot = effectiveRot i := rfl
  have ep : ({ header := mergeHeader i.flags (baseOf i.config).header,
               body := mergeBody i.flags (baseOf i.config).body } : Policy) = effectivePolicy i := rfl
  unfold tool toolV exitCode usageOk
  by_cases h1 : i.flagPkgOk = true
  · by_cases h2 : i.flags.bytesOk = true
    · by_cases h3 : configReadable i.config = true
      · rw [ptrsOf_fixed _ h3, restOk_split]
        simp only [populateRootOfTrust, populateConfig, er, ep]
        by_cases hA : (i.flags.checkCrl.ok && i.flags.getCollateral.ok && i.flags.trustedRoots.ok) = true
        · by_cases hB : (i.flags.minimumQeSvn.ok && i.flags.minimumPceSvn.ok && i.flags.rtmrs.ok) = true
          · by_cases hc : ((effectiveRot i).checkCrl && !(effectiveRot i).getCollateral) = true
            · simp [h1, h2, h3, hA, hB, hc]
            · by_cases hq : i.quote = .parsed
              · by_cases hr : L.rotOk (effectiveRot i) = true
                · cases hv : L.verify (effectiveRot i) with
                  | fail c => simp [h1, h2, h3, hA, hB, hc, hq, hr, hv, clarify_fixed]
                  | ok =>
                    by_cases hp : policyConverts (effectivePolicy i) = true
                    · by_cases hval : L.validates (effectivePolicy i) = true <;>
                        simp [h1, h2, h3, hA, hB, hc, hq, hr, hv, hp, hval]
                    · simp [h1, h2, h3, hA, hB, hc, hq, hr, hv, hp]
                · simp [h1, h2, h3, hA, hB, hc, hq, hr]
              · simp [h1, h2, h3, hA, hB, hc, hq]
          · simp [h1, h2, h3, hA, hB]
        · by_cases hB : (i.flags.minimumQeSvn.ok && i.flags.minimumPceSvn.ok && i.flags.rtmrs.ok) = true <;>
            simp [h1, h2, h3, hA, hB]
      · have : i.config = .unreadable := by
          cases hc : i.config <;> simp [hc, configReadable] at h3 ⊢
        simp [h1, h2, this, ptrsOf_fixed_unreadable, configReadable]
    · simp [h1, h2]
  · simp [h1, fixed]

/-- **No input makes the tool crash** (no nil dereference in the merge, whatever sub-messages the
    config lacks, whatever the flags, whatever the library answers). -/
theorem never_crashes (L : Library) (i : ToolInput) : tool L i ≠ .crash := by
  rw [tool_eq_exit]; exact fun h => by cases h

/-- The merge itself never dereferences nil: for every config shape (policy, header_policy,
    td_quote_body_policy, root_of_trust each present or absent) and all flags. -/
theorem merge_never_crashes (c : ConfigMsg) (f : Flags) :
    populateConfig (parseFixed c) f ≠ .panic ∧ populateRootOfTrust (parseFixed c) f ≠ .panic := by
  constructor
  · unfold populateConfig parseFixed
    simp only
    split <;> simp
  · unfold populateRootOfTrust
    split <;> simp

/-- …and when the flags are well formed it yields exactly the effective policy / root of trust. -/
theorem merge_spec (c : ConfigMsg) (f : Flags) (h : f.restOk = true) :
    populateConfig (parseFixed c) f = .ok (effectivePolicy { flags := f, config := .file c }) ∧
    populateRootOfTrust (parseFixed c) f = .ok (effectiveRot { flags := f, config := .file c }) := by
  rw [restOk_split, Bool.and_eq_true] at h
  constructor
  · simp [populateConfig, parseFixed, h.2, effectivePolicy, baseOf]
  · simp [populateRootOfTrust, h.1, effectiveRot, baseOf, parseFixed]

/-! ### exit 0 only if … -/

/-- **Exit status 0 exactly when** the invocation is usable, the quote verifies under the effective
    root of trust, the effective policy converts to options and the quote satisfies it. -/
theorem exit_zero_iff (L : Library) (i : ToolInput) :
    exitCode L i = 0 ↔
      usageOk L i = true ∧ L.verify (effectiveRot i) = .ok ∧
      policyConverts (effectivePolicy i) = true ∧ L.validates (effectivePolicy i) = true := by
  unfold exitCode
  obtain ⟨e1, e2, e3, e4⟩ := codes
  by_cases hu : usageOk L i = true
  · cases hv : L.verify (effectiveRot i) with
    | fail c => cases hd : c.isDownload <;> simp [hu, hd, e2, e3]
    | ok =>
      by_cases hp : policyConverts (effectivePolicy i) = true
      · by_cases hval : L.validates (effectivePolicy i) = true <;> simp [hu, hp, hval, e4]
      · simp [hu, hp, e1]
  · simp [hu, e1]

/-- The same for the step-by-step tool. -/
theorem tool_exit_zero_iff (L : Library) (i : ToolInput) :
    tool L i = .exit 0 ↔
      usageOk L i = true ∧ L.verify (effectiveRot i) = .ok ∧
      policyConverts (effectivePolicy i) = true ∧ L.validates (effectivePolicy i) = true := by
  rw [tool_eq_exit, ← exit_zero_iff]
  constructor
  · intro h; exact Run.exit.inj h
  · intro h; rw [h]

/-! ### the exit-code table -/

/-- the failure classes of the property statement -/
inductive Class where
  | success | usage | verification | download | policy
deriving Repr, DecidableEq

def Class.code : Class → Nat
  | .success => 0
  | .usage => exitTool
  | .verification => exitVerify
  | .download => exitNetwork
  | .policy => exitPolicy

/-- the class of an invocation, written from the statement: usage problems first (flags, config,
    inconsistent options, quote argument, root bundles; an effective policy that cannot be converted),
    then how verification ended, then the policy -/
def classOf (L : Library) (i : ToolInput) : Class :=
  if usageOk L i = false then .usage
  else match L.verify (effectiveRot i) with
    | .fail c => if c.isDownload then .download else .verification
    | .ok =>
      if policyConverts (effectivePolicy i) = false then .usage
      else if L.validates (effectivePolicy i) = false then .policy
      else .success

/-- **Exit-code table** (total): the status is the code of the invocation's class — usage 1,
    verification 2, download 3, policy 4, success 0 — and the five codes are pairwise different, so the
    status identifies the class. -/
theorem exit_code_table (L : Library) (i : ToolInput) :
    exitCode L i = (classOf L i).code ∧
    (∀ a b : Class, a.code = b.code → a = b) ∧
    (Class.usage.code = 1 ∧ Class.verification.code = 2 ∧ Class.download.code = 3 ∧ Class.policy.code = 4) := by
  refine ⟨?_, ?_, rfl, rfl, rfl, rfl⟩
  · unfold exitCode classOf
    by_cases hu : usageOk L i = true
    · cases hv : L.verify (effectiveRot i) with
      | fail c => cases hd : c.isDownload <;> simp [hu, hd, Class.code]
      | ok =>
        by_cases hp : policyConverts (effectivePolicy i) = true
        · by_cases hval : L.validates (effectivePolicy i) = true <;> simp [hu, hp, hval, Class.code]
        · simp [hu, hp, Class.code]
    · simp [hu, Class.code]
  · intro a b; cases a <;> cases b <;> decide

theorem exit_code_range (L : Library) (i : ToolInput) : exitCode L i ∈ [0, 1, 2, 3, 4] := by
  rw [(exit_code_table L i).1]
  cases classOf L i <;> decide

/-- malformed flags / unreadable config / inconsistent options / unusable quote argument ⇒ 1 -/
theorem usage_error_is_exit_1 (L : Library) (i : ToolInput) (h : usageOk L i = false) : exitCode L i = 1 := by
  simp [exitCode, h, exitTool, Gen.tools_check_exitTool]

/-- a verification failure that is not a download failure ⇒ 2 -/
theorem verification_failure_is_exit_2 (L : Library) (i : ToolInput) (hu : usageOk L i = true)
    (c : VCause) (hv : L.verify (effectiveRot i) = .fail c) (hc : c.isDownload = false) : exitCode L i = 2 := by
  simp [exitCode, hu, hv, hc, exitVerify, Gen.tools_check_exitVerify]

/-- **a failed download of TCB info, QE identity, PCK CRL or root CRL ⇒ 3**, for each of the four -/
theorem network_failure_is_exit_3 (L : Library) (i : ToolInput) (hu : usageOk L i = true)
    (c : VCause) (hv : L.verify (effectiveRot i) = .fail c) (hc : c.isDownload = true) :
    exitCode L i = 3 ∧ tool L i = .exit 3 := by
  have : exitCode L i = 3 := by simp [exitCode, hu, hv, hc, exitNetwork, Gen.tools_check_exitNetwork]
  exact ⟨this, by rw [tool_eq_exit, this]⟩

/-- the library side of that clause: the error of each failed fetch is reachable through
    `errors.As` with the type the fetch function uses, through any number of further `%w` wrappers -/
theorem download_error_is_distinguishable (c : VCause) (hc : c.isDownload = true) (wrappers : Nat) :
    let e := GoErr.wrapN wrappers (libErrorFixed c)
    (errorsAs e .attPtr || errorsAs e .crlVal) = true := by
  intro e
  have base : (errorsAs (libErrorFixed c) .attPtr || errorsAs (libErrorFixed c) .crlVal) = true := by
    cases c <;> first | rfl | simp [VCause.isDownload] at hc
  have step : ∀ (x : GoErr) (t : ErrType), t ≠ .other → errorsAs (.wrapW x) t = errorsAs x t := by
    intro x t ht
    simp only [errorsAs, GoErr.chain, List.contains_cons]
    cases t <;> simp_all
  suffices h : ∀ n (x : GoErr), (errorsAs x .attPtr || errorsAs x .crlVal) = true →
      (errorsAs (GoErr.wrapN n x) .attPtr || errorsAs (GoErr.wrapN n x) .crlVal) = true from
    h wrappers _ base
  intro n
  induction n with
  | zero => intro x hx; exact hx
  | succ n ih =>
    intro x hx
    show (errorsAs (.wrapW (GoErr.wrapN n x)) .attPtr || errorsAs (.wrapW (GoErr.wrapN n x)) .crlVal) = true
    rw [step _ .attPtr (by decide), step _ .crlVal (by decide)]
    exact ih x hx

/-- policy that cannot be converted (wrong length, SVN above 65535) ⇒ 1; mismatch ⇒ 4 -/
theorem policy_mismatch_is_exit_4 (L : Library) (i : ToolInput) (hu : usageOk L i = true)
    (hv : L.verify (effectiveRot i) = .ok) (hp : policyConverts (effectivePolicy i) = true)
    (hval : L.validates (effectivePolicy i) = false) : exitCode L i = 4 := by
  simp [exitCode, hu, hv, hp, hval, exitPolicy, Gen.tools_check_exitPolicy]

theorem malformed_policy_is_exit_1 (L : Library) (i : ToolInput) (hu : usageOk L i = true)
    (hv : L.verify (effectiveRot i) = .ok) (hp : policyConverts (effectivePolicy i) = false) : exitCode L i = 1 := by
  simp [exitCode, hu, hv, hp, exitTool, Gen.tools_check_exitTool]

/-! ### a given flag overrides the config; an unset flag keeps it (every kind of field, all values) -/

section merge
variable (fl : Flags) (cfg : ConfigArg) (q : QuoteArg) (fp : Bool)

/-- optional bool flags `-check_crl`, `-get_collateral` -/
theorem flag_overrides_config_bool (v : Bool) :
    (fl.checkCrl = (if v then .t else .f) →
      (effectiveRot ⟨fp, fl, cfg, q⟩).checkCrl = v) ∧
    (fl.getCollateral = (if v then .t else .f) →
      (effectiveRot ⟨fp, fl, cfg, q⟩).getCollateral = v) := by
  constructor <;> intro h <;> cases v <;> simp [effectiveRot, mergeRot, mergeBool, h]

theorem unset_flag_keeps_config_bool (c : ConfigMsg) :
    (fl.checkCrl = .unset → (effectiveRot ⟨fp, fl, .file c, q⟩).checkCrl = (c.rootOfTrust.getD {}).checkCrl) ∧
    (fl.getCollateral = .unset → (effectiveRot ⟨fp, fl, .file c, q⟩).getCollateral = (c.rootOfTrust.getD {}).getCollateral) := by
  constructor <;> intro h <;> simp [effectiveRot, mergeRot, mergeBool, h, baseOf]

/-- numeric flags `-minimum_qe_svn`, `-minimum_pce_svn` (any value the 32-bit parser accepts) -/
theorem flag_overrides_config_num (n : Nat) :
    (fl.minimumQeSvn = .val n → (effectivePolicy ⟨fp, fl, cfg, q⟩).header.minimumQeSvn = n) ∧
    (fl.minimumPceSvn = .val n → (effectivePolicy ⟨fp, fl, cfg, q⟩).header.minimumPceSvn = n) := by
  constructor <;> intro h <;> simp [effectivePolicy, mergeHeader, mergeNum, h]

theorem unset_flag_keeps_config_num (c : ConfigMsg) :
    (fl.minimumQeSvn = .unset →
      (effectivePolicy ⟨fp, fl, .file c, q⟩).header.minimumQeSvn = (((c.policy.getD {}).header).getD {}).minimumQeSvn) ∧
    (fl.minimumPceSvn = .unset →
      (effectivePolicy ⟨fp, fl, .file c, q⟩).header.minimumPceSvn = (((c.policy.getD {}).header).getD {}).minimumPceSvn) := by
  constructor <;> intro h <;> simp [effectivePolicy, mergeHeader, mergeNum, h, baseOf]

/-- sized byte flags: the effective value is the decoded flag value zero-padded to the field size -/
theorem flag_overrides_config_bytes (b : Bytes) :
    (fl.qeVendorId = .dec b → (effectivePolicy ⟨fp, fl, cfg, q⟩).header.qeVendorId = pad qeVendorIdSize b) ∧
    (∀ k : BodyField, fl.body k = .dec b → (effectivePolicy ⟨fp, fl, cfg, q⟩).body.bytes k = pad k.size b) := by
  refine ⟨fun h => ?_, fun k h => ?_⟩ <;> simp [effectivePolicy, mergeHeader, mergeBody, mergeBytes, h]

/-- …which is the flag value itself when it has exactly the field's size -/
theorem pad_exact (size : Nat) (b : Bytes) (h : b.length = size) : pad size b = b := by
  simp [pad, h, zeros]

theorem pad_length (size : Nat) (b : Bytes) (h : b.length ≤ size) : (pad size b).length = size := by
  simp [pad, zeros]; omega

theorem unset_flag_keeps_config_bytes (c : ConfigMsg) :
    (fl.qeVendorId = .unset →
      (effectivePolicy ⟨fp, fl, .file c, q⟩).header.qeVendorId = (((c.policy.getD {}).header).getD {}).qeVendorId) ∧
    (∀ k : BodyField, fl.body k = .unset →
      (effectivePolicy ⟨fp, fl, .file c, q⟩).body.bytes k = (((c.policy.getD {}).body).getD {}).bytes k) := by
  refine ⟨fun h => ?_, fun k h => ?_⟩ <;> simp [effectivePolicy, mergeHeader, mergeBody, mergeBytes, h, baseOf]

/-- `-rtmrs` -/
theorem flag_overrides_config_rtmrs (l : List Bytes) (h : fl.rtmrs = .val l) :
    (effectivePolicy ⟨fp, fl, cfg, q⟩).body.rtmrs = l := by
  simp [effectivePolicy, mergeBody, mergeRtmrs, h]

theorem unset_flag_keeps_config_rtmrs (c : ConfigMsg) (h : fl.rtmrs = .unset) :
    (effectivePolicy ⟨fp, fl, .file c, q⟩).body.rtmrs = (((c.policy.getD {}).body).getD {}).rtmrs := by
  simp [effectivePolicy, mergeBody, mergeRtmrs, h, baseOf]

/-- `-trusted_roots` (a given flag names at least one path) -/
theorem flag_overrides_config_paths (l : List String) (hl : l ≠ []) (h : fl.trustedRoots = .val l) :
    (effectiveRot ⟨fp, fl, cfg, q⟩).cabundlePaths = l := by
  cases l with
  | nil => exact absurd rfl hl
  | cons a t => simp [effectiveRot, mergeRot, mergePaths, h]

theorem unset_flag_keeps_config_paths (c : ConfigMsg) (h : fl.trustedRoots = .unset) :
    (effectiveRot ⟨fp, fl, .file c, q⟩).cabundlePaths = (c.rootOfTrust.getD {}).cabundlePaths := by
  simp [effectiveRot, mergeRot, mergePaths, h, baseOf]

/-- fields without a flag (`any_mr_td`, inline `cabundles`) always come from the config -/
theorem flagless_fields_from_config (c : ConfigMsg) :
    (effectivePolicy ⟨fp, fl, .file c, q⟩).body.anyMrTd = (((c.policy.getD {}).body).getD {}).anyMrTd ∧
    (effectiveRot ⟨fp, fl, .file c, q⟩).cabundles = (c.rootOfTrust.getD {}).cabundles := by
  simp [effectivePolicy, effectiveRot, mergeBody, mergeRot, baseOf]

/-- no config file and no flag: the tool's defaults -/
theorem no_config_no_flags_defaults :
    effectiveRot ⟨fp, {}, .absent, q⟩ =
      { checkCrl := Gen.tools_check_defaultCheckCrl, getCollateral := Gen.tools_check_defaultGetCollateral } ∧
    (effectivePolicy ⟨fp, {}, .absent, q⟩).header =
      { minimumQeSvn := Gen.tools_check_defaultMinQeSvn, minimumPceSvn := Gen.tools_check_defaultMinPceSvn } ∧
    (∀ k, (effectivePolicy ⟨fp, {}, .absent, q⟩).body.bytes k = []) ∧
    (effectivePolicy ⟨fp, {}, .absent, q⟩).body.rtmrs = [] := by
  refine ⟨rfl, rfl, fun k => rfl, rfl⟩

end merge

/-- the exit status depends on the flags and the config only through the effective settings (and the
    usage verdict): two invocations with the same effective settings exit alike -/
theorem exit_depends_on_effective (L : Library) (i j : ToolInput)
    (hu : usageOk L i = usageOk L j) (hr : effectiveRot i = effectiveRot j)
    (hp : effectivePolicy i = effectivePolicy j) : exitCode L i = exitCode L j := by
  unfold exitCode; rw [hu, hr, hp]

/-! ### malformed flags -/

theorem malformed_flag_is_exit_1 (L : Library) (i : ToolInput)
    (h : i.flagPkgOk = false ∨ i.flags.checkCrl = .bad ∨ i.flags.getCollateral = .bad ∨
         i.flags.minimumQeSvn = .bad ∨ i.flags.minimumPceSvn = .bad ∨
         (∃ n, i.flags.minimumQeSvn = .val n ∧ 2 ^ 32 ≤ n) ∨ (∃ n, i.flags.minimumPceSvn = .val n ∧ 2 ^ 32 ≤ n) ∨
         i.flags.qeVendorId = .bad ∨ (∃ b, i.flags.qeVendorId = .dec b ∧ qeVendorIdSize < b.length) ∨
         (∃ k, i.flags.body k = .bad) ∨ (∃ k b, i.flags.body k = .dec b ∧ k.size < b.length) ∨
         i.flags.rtmrs = .bad ∨ i.flags.trustedRoots = .bad) :
    exitCode L i = 1 := by
  apply usage_error_is_exit_1
  have hall : ∀ k, (i.flags.body k).ok k.size = false → i.flags.bytesOk = false := by
    intro k hk
    unfold Flags.bytesOk
    have : (BodyField.all.all fun k => (i.flags.body k).ok k.size) = false := by
      rw [List.all_eq_false]
      exact ⟨k, by cases k <;> simp [BodyField.all], by simp [hk]⟩
    simp [this]
  unfold usageOk
  rcases h with h | h | h | h | h | ⟨n, h, hn⟩ | ⟨n, h, hn⟩ | h | ⟨b, h, hb⟩ | ⟨k, h⟩ | ⟨k, b, h, hb⟩ | h | h
  · simp [h]
  · simp [Flags.restOk, h, BoolFlag.ok]
  · simp [Flags.restOk, h, BoolFlag.ok]
  · simp [Flags.restOk, h, NumFlag.ok]
  · simp [Flags.restOk, h, NumFlag.ok]
  · have : ¬ n < 2 ^ 32 := by omega
    simp [Flags.restOk, h, NumFlag.ok, this]
  · have : ¬ n < 2 ^ 32 := by omega
    simp [Flags.restOk, h, NumFlag.ok, this]
  · simp [Flags.bytesOk, h, BytesFlag.ok]
  · have : ¬ b.length ≤ qeVendorIdSize := by omega
    simp [Flags.bytesOk, h, BytesFlag.ok, this]
  · simp [hall k (by simp [h, BytesFlag.ok])]
  · have : ¬ b.length ≤ k.size := by omega
    simp [hall k (by simp [h, BytesFlag.ok, this])]
  · simp [Flags.restOk, h, ListFlag.ok]
  · simp [Flags.restOk, h, ListFlag.ok]

/-- `-check_crl` without `-get_collateral` (from whichever sources the two values come) ⇒ 1 -/
theorem crl_without_collateral_is_exit_1 (L : Library) (i : ToolInput)
    (h1 : (effectiveRot i).checkCrl = true) (h2 : (effectiveRot i).getCollateral = false) : exitCode L i = 1 := by
  apply usage_error_is_exit_1
  simp [usageOk, h1, h2]

/-- an SVN flag that fits 32 bits but not 16 is rejected when the policy is converted ⇒ 1 (or an
    earlier verification failure's code; never 0 or 4) -/
theorem svn_above_16_bits_never_accepted (L : Library) (i : ToolInput) (n : Nat) (hn : maxSvn < n)
    (h : i.flags.minimumQeSvn = .val n ∨ i.flags.minimumPceSvn = .val n) :
    exitCode L i ≠ 0 ∧ exitCode L i ≠ 4 := by
  have hp : policyConverts (effectivePolicy i) = false := by
    have hn' : ¬ n ≤ maxSvn := by omega
    unfold policyConverts
    rcases h with h | h
    · have : (effectivePolicy i).header.minimumQeSvn = n := by simp [effectivePolicy, mergeHeader, mergeNum, h]
      simp [this, hn']
    · have : (effectivePolicy i).header.minimumPceSvn = n := by simp [effectivePolicy, mergeHeader, mergeNum, h]
      simp [this, hn']
  have hc := (exit_code_table L i).1
  have : classOf L i ≠ .success ∧ classOf L i ≠ .policy := by
    unfold classOf
    by_cases hu : usageOk L i = false
    · simp [hu]
    · cases hv : L.verify (effectiveRot i) with
      | fail c => cases hd : c.isDownload <;> simp [hu, hd]
      | ok => simp [hu, hp]
  rw [hc]
  cases hcl : classOf L i <;> simp_all [Class.code, exitTool, exitVerify, exitNetwork, exitPolicy,
    Gen.tools_check_exitTool, Gen.tools_check_exitVerify, Gen.tools_check_exitNetwork, Gen.tools_check_exitPolicy]

/-! ### the pinned tree (findings F11, F10, F14) -/

/-- a config whose `policy` has `td_quote_body_policy {}` but no `header_policy` -/
def f11Config : ConfigMsg := { policy := some { header := none, body := some {} } }

/-- F11: pinned `parseConfig` leaves the nil pointer in place and `populateConfig` dereferences it,
    with no flag given at all … -/
theorem unfixed_witness_header_policy_nil :
    populateConfig (parseUnfixed f11Config) {} = .panic ∧
    populateConfig (parseUnfixed { policy := some { header := some {}, body := none } }) {} = .panic := ⟨rfl, rfl⟩

/-- … so the pinned tool crashes on it whatever the library says, while the repaired one exits. -/
theorem unfixed_witness_tool_crashes (L : Library) :
    toolV pinned L { config := .file f11Config } = .crash ∧
    ∃ n, tool L { config := .file f11Config } = .exit n := ⟨rfl, _, tool_eq_exit L _⟩

/-- F10: with `%v` in `obtainCollateral` the typed error is not on the Unwrap chain, so for each of
    the four failed fetches the pinned `clarify` answers "not a network error" … -/
theorem unfixed_witness_exit3_unreachable (c : VCause) :
    clarify pinned.crlTarget (pinned.libError c) = false := by
  cases c <;> rfl

/-- … and `%w` alone does not repair the two CRL fetches: `errors.As` with a
    `*verify.CRLUnavailableErr` target never matches the struct *values* the library returns. -/
theorem unfixed_witness_pointer_target (c : VCause) (h : c = .pckCrlFetch ∨ c = .rootCrlFetch) :
    clarify .crlPtr (libErrorFixed c) = false ∧ clarify .crlVal (libErrorFixed c) = true := by
  rcases h with h | h <;> subst h <;> exact ⟨rfl, rfl⟩

/-- hence no input at all makes the pinned tool exit 3 (`exitNetwork` is unreachable), although the
    property demands it for every usable invocation whose download fails. -/
theorem unfixed_witness_never_exits_3 (L : Library) (i : ToolInput) : toolV pinned L i ≠ .exit 3 := by
  unfold toolV
  have e1 : exitTool = 1 := rfl
  have e4 : exitPolicy = 4 := rfl
  have e2 : exitVerify = 2 := rfl
  split; · simp [pinned]
  split; · simp [e1]
  split; · simp [e1]
  split
  · simp
  · simp
  · split; · simp [e1]
    split; · simp [e1]
    split; · simp [e1]
    split
    · rename_i c _
      rw [unfixed_witness_exit3_unreachable c]; simp [e2]
    · split; · simp [e1]
      split <;> simp [e4]
  · simp [e1]

/-- F14: a command line the flag package rejects ends the pinned tool with status 2, the code of a
    verification failure. -/
theorem unfixed_witness_flag_package_exit_2 (L : Library) (i : ToolInput) (h : i.flagPkgOk = false) :
    toolV pinned L i = .exit exitVerify ∧ tool L i = .exit exitTool := by
  constructor
  · simp [toolV, h, pinned]; rfl
  · simp [tool, toolV, h, fixed]

/-! ### non-vacuity: concrete invocations in every class -/

/-- a library under which everything verifies and validates -/
def okLib : Library := { rotOk := fun _ => true, verify := fun _ => .ok, validates := fun _ => true }

/-- one that rejects exactly the policies whose MR_TD option is 48 bytes of 0x11 -/
def pickyLib : Library :=
  { okLib with validates := fun p => p.body.bytes .mrTd != List.replicate 48 0x11 }

/-- a library whose TCB-info download fails as soon as collateral is requested -/
def offlineLib : Library :=
  { okLib with verify := fun r => if r.getCollateral then .fail .tcbInfoFetch else .ok }

def mismatchCfg : ConfigMsg :=
  { policy := some { header := some {}, body := some { bytes := fun k => if k = .mrTd then List.replicate 48 0x11 else [] } } }

example : exitCode okLib {} = 0 := by decide
example : usageOk okLib {} = true ∧ policyConverts (effectivePolicy {}) = true := by decide
-- config says "MR_TD must be 0x11…": exit 4; the flag with another value overrides it: exit 0
example : exitCode pickyLib { config := .file mismatchCfg } = 4 := by decide
example : exitCode pickyLib
    { config := .file mismatchCfg,
      flags := { body := fun k => if k = .mrTd then .dec (List.replicate 48 0x22) else .unset } } = 0 := by decide
-- and the other way round: config fine, flag mismatching ⇒ 4
example : exitCode pickyLib
    { config := .file {},
      flags := { body := fun k => if k = .mrTd then .dec (List.replicate 48 0x11) else .unset } } = 4 := by decide
-- a config with a 3-byte MR_TD cannot be converted: usage error
example : exitCode okLib { config := .file { policy := some { body := some { bytes := fun _ => [1, 2, 3] } } } } = 1 := by decide
-- get_collateral from the config, network down: exit 3; `-get_collateral=false` overrides: exit 0
example : exitCode offlineLib { config := .file { rootOfTrust := some { getCollateral := true } } } = 3 := by decide
example : exitCode offlineLib
    { config := .file { rootOfTrust := some { getCollateral := true } },
      flags := { getCollateral := .f } } = 0 := by decide
example : exitCode { okLib with verify := fun _ => .fail .other } {} = 2 := by decide
example : exitCode okLib { flags := { checkCrl := .t } } = 1 := by decide
example : exitCode okLib { flags := { minimumQeSvn := .val 70000 } } = 1 := by decide
example : exitCode okLib { quote := .unparsable } = 1 := by decide
-- hypotheses of `network_failure_is_exit_3` are satisfiable
example : usageOk offlineLib { flags := { getCollateral := .t } } = true ∧
    offlineLib.verify (effectiveRot { flags := { getCollateral := .t } }) = .fail .tcbInfoFetch ∧
    VCause.tcbInfoFetch.isDownload = true := by decide
-- hypotheses of `merge_spec`, `flag_overrides_config_paths`, `svn_above_16_bits_never_accepted`
example : ({} : Flags).restOk = true := by decide
example : (effectiveRot
    { flags := { trustedRoots := .val ["a.pem"] },
      config := .file { rootOfTrust := some { cabundlePaths := ["b.pem"] } } }).cabundlePaths = ["a.pem"] := by decide
example : maxSvn < 70000 := by decide
-- the F11 shape through the repaired tool: an ordinary run
example : tool okLib { config := .file f11Config } = .exit 0 := by decide

end Tdx.Props.C19
