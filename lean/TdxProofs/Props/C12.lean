/-
  C12 — options gate the checks exactly; more checking never accepts more; no history.
-/
import TdxModel.Verify
import TdxModel.Generated.Sites
import TdxProofs.Lemmas.Verify
import TdxProofs.Lemmas.VerifyConv

namespace Tdx.Props.C12
open Tdx Tdx.Gen Tdx.Abi Tdx.Verify

/-! ### fetches -/

/-- With collateral checking off the verifier performs no fetch at all (whatever else the options say). -/
theorem no_fetch_without_collateral (fx : Fixes) (C : Crypto) (w : World) (q : Option QuoteV4) (o : Opts)
    (h : o.getCollateral = false) : (tdxQuote fx C w q o).urls = [] := by
  have hf : ∀ ch ext, (fetchStage fx w o ch ext).1 = [] := by
    intro ch ext; unfold fetchStage; simp [h]
  unfold tdxQuote
  split; · rfl
  split; · rfl
  split; · rfl
  · rfl
  split; · rfl
  · rfl
  split; · rfl
  · rfl
  split <;> simp [hf]

/-- the URLs of a call are those of the fetch stage for the leaf of the quote's chain -/
theorem urls_are_fetch_stage (C : Crypto) (w : World) (q : Option QuoteV4) (o : Opts) (u : String)
    (hu : u ∈ (tdxQuote Fixes.all C w q o).urls) :
    ∃ q' ch ext, q = some q' ∧ extractChain w.chainPem = .ok ch ∧
      PckExt.pckCertificateExtensions (cert w ch.leaf).pck = .ok ext ∧ u ∈ (fetchStage Fixes.all w o ch ext).1 := by
  unfold tdxQuote at hu
  have hf2 : (!Fixes.all.f2 && (q.bind (·.header)).isNone) = false := rfl
  simp only [hf2, Bool.false_eq_true, ↓reduceIte] at hu
  cases q with
  | none => simp at hu
  | some q' =>
    simp only at hu
    cases hc : checkQuoteV4 (some q') with
    | err e => simp [hc] at hu
    | panic => simp [hc] at hu
    | ok v =>
      simp only [hc] at hu
      cases hch : extractChain w.chainPem with
      | err e => simp [hch] at hu
      | panic => simp [hch] at hu
      | ok ch =>
        simp only [hch] at hu
        cases hext : PckExt.pckCertificateExtensions (cert w ch.leaf).pck with
        | err e => simp [hext] at hu
        | panic => simp [hext] at hu
        | ok ext =>
          simp only [hext] at hu
          refine ⟨q', ch, ext, rfl, rfl, hext, ?_⟩
          cases hf : (fetchStage Fixes.all w o ch ext).2 <;> simp only [hf] at hu <;> exact hu

/-- which URLs the fetch stage can request: the TCB-Info URL for the FMSPC of the leaf's SGX extension, the QE-identity
    URL, and — only with revocation checking — the PCK-CRL URL for the CA that issued the leaf and distribution points of
    the QE-identity issuer root -/
theorem fetch_stage_urls (w : World) (o : Opts) (ch : Chain) (ext : PckExt.PckExtensions) (u : String)
    (hu : u ∈ (fetchStage Fixes.all w o ch ext).1) :
    o.getCollateral = true ∧
    (u = tcbInfoURL ext.fmspc ∨ u = qeIdentityURL ∨
     (o.checkRevocations = true ∧ ∃ ca, extractCa (cert w ch.leaf) = .ok ca ∧
        (u = pckCrlURL ca ∨ ∃ i, u ∈ (cert w i).crlDPs))) := by
  unfold fetchStage at hu
  by_cases hg : o.getCollateral = true
  · refine ⟨hg, ?_⟩
    simp only [hg, ↓reduceIte] at hu
    cases hca : extractCa (cert w ch.leaf) with
    | err e => simp [hca] at hu
    | panic => simp [hca] at hu
    | ok ca =>
      simp only [hca] at hu
      have hbase : ∀ x ∈ (obtainBase Fixes.all w ext.fmspc).1, x = tcbInfoURL ext.fmspc ∨ x = qeIdentityURL := by
        intro x hx
        unfold obtainBase at hx
        simp only at hx
        repeat' split at hx
        all_goals simp only [List.mem_cons, List.not_mem_nil, or_false] at hx
        all_goals first | exact Or.inl hx | exact hx
      unfold obtainCollateral at hu
      cases hb : (obtainBase Fixes.all w ext.fmspc).2 with
      | err e => simp only [hb] at hu; rcases hbase u hu with h | h; exact Or.inl h; exact Or.inr (Or.inl h)
      | panic => simp only [hb] at hu; rcases hbase u hu with h | h; exact Or.inl h; exact Or.inr (Or.inl h)
      | ok base =>
        simp only [hb] at hu
        by_cases hcr : o.checkRevocations = true
        · simp only [hcr, Bool.not_true, Bool.false_eq_true, ↓reduceIte, List.mem_append] at hu
          rcases hu with hu | hu
          · rcases hbase u hu with h | h; exact Or.inl h; exact Or.inr (Or.inl h)
          · refine Or.inr (Or.inr ⟨hcr, ca, rfl, ?_⟩)
            have hroot : ∀ dps x, x ∈ (getRootCrl w dps).1 → x ∈ dps := by
              intro dps
              induction dps with
              | nil => intro x hx; simp [getRootCrl] at hx
              | cons d rest ih =>
                intro x hx
                unfold getRootCrl at hx
                split at hx
                · simp only [List.mem_singleton] at hx; subst hx; exact List.mem_cons_self ..
                · simp only [List.mem_cons] at hx
                  rcases hx with rfl | hx
                  · exact List.mem_cons_self ..
                  · exact List.mem_cons_of_mem _ (ih x hx)
            unfold obtainCrls at hu
            simp only at hu
            repeat' split at hu
            all_goals simp only [List.mem_cons, List.not_mem_nil, or_false] at hu
            all_goals first
              | exact Or.inl hu
              | (rcases hu with h | h
                 · exact Or.inl h
                 · exact Or.inr ⟨base.qeRoot, hroot _ _ h⟩)
        · have hcr' : o.checkRevocations = false := by simpa using hcr
          simp only [hcr', Bool.not_false, ↓reduceIte] at hu
          rcases hbase u hu with h | h; exact Or.inl h; exact Or.inr (Or.inl h)
  · have hg' : o.getCollateral = false := by simpa using hg
    simp [hg'] at hu

/-- CRL endpoints are contacted only when revocation checking is on; the TCB-Info request names the FMSPC of the quote's
    PCK certificate and the PCK-CRL request the CA that issued it. -/
theorem requests_are_gated_and_named (C : Crypto) (w : World) (q : Option QuoteV4) (o : Opts) (u : String)
    (hu : u ∈ (tdxQuote Fixes.all C w q o).urls) :
    o.getCollateral = true ∧ ∃ ch ext, extractChain w.chainPem = .ok ch ∧
      PckExt.pckCertificateExtensions (cert w ch.leaf).pck = .ok ext ∧
      (u = tcbInfoURL ext.fmspc ∨ u = qeIdentityURL ∨
       (o.checkRevocations = true ∧ ∃ ca, extractCa (cert w ch.leaf) = .ok ca ∧ (u = pckCrlURL ca ∨ ∃ i, u ∈ (cert w i).crlDPs))) := by
  obtain ⟨q', ch, ext, _, hch, hext, hf⟩ := urls_are_fetch_stage C w q o u hu
  obtain ⟨hg, hcases⟩ := fetch_stage_urls w o ch ext u hf
  exact ⟨hg, ch, ext, hch, hext, hcases⟩

/-- the CA named in the PCK-CRL request is read from the leaf's issuer name -/
theorem ca_is_leaf_issuer (leaf : CertF) (ca : String) (h : extractCa leaf = .ok ca) :
    (leaf.issuerCN = "Intel SGX PCK Platform CA" ∧ ca = "platform") ∨ (leaf.issuerCN = "Intel SGX PCK Processor CA" ∧ ca = "processor") := by
  unfold extractCa at h
  simp only [gen_const] at h
  split at h
  · rename_i h1; cases h; exact Or.inl ⟨beq_iff_eq.mp h1, rfl⟩
  · split at h
    · rename_i _ h1; cases h; exact Or.inr ⟨beq_iff_eq.mp h1, rfl⟩
    · cases h

/-! ### more checking never accepts more -/

/-- accepted with collateral and revocation checking ⇒ accepted with collateral checking alone -/
theorem revocation_off_still_accepts (C : Crypto) (w : World) (q : Option QuoteV4) (now : Option TimeSet)
    (h : (tdxQuote Fixes.all C w q ⟨true, true, now⟩).verdict = .ok ()) :
    (tdxQuote Fixes.all C w q ⟨false, true, now⟩).verdict = .ok () := by
  obtain ⟨q', ch, ext, col, rfl, hc, hch, hext, hf, hev⟩ := ((tdxQuote_ok_iff C w q _).mp h).witness
  rcases hf with ⟨hg, _⟩ | ⟨_, ca, c, hca, hob, rfl⟩
  · cases hg
  · obtain ⟨base, hb, hcase⟩ := (obtainCollateral_ok_iff w ext.fmspc ca true c).mp hob
    rcases hcase with ⟨hh, _⟩ | ⟨_, hcrl⟩
    · cases hh
    · obtain ⟨hd, cs, crt, pckCrl, rootCrl, _, _, rfl, _⟩ := obtainCrls_ok w ca base _ hcrl
      rw [tdxQuote_ok_iff]
      refine ⟨q', ch, ext, some base, rfl, hc, hch, hext,
        Or.inr ⟨rfl, ca, base, hca, (obtainCollateral_ok_iff w ext.fmspc ca false base).mpr ⟨base, hb, Or.inl ⟨rfl, rfl⟩⟩, rfl⟩, ?_⟩
      have hco := chainChecks_all w ch _ _ _ hev.chain
      obtain ⟨c', hc', hcc, ht, hq⟩ := hev.collateral rfl
      cases hc'
      have d := collateralChecks_all w _ _ _ hcc
      have t := tcbInfoChecks_all C w _ _ _ ht
      have qq := qeIdentityChecks_all C w _ _ _ hq
      have hz : ∀ x ∈ collateralChecks w ⟨true, true, now⟩ (now.getD (defaultTimeSet w.clock))
          (some { base with pckCrl := some (cs, crt, pckCrl), rootCrl := some rootCrl }), x.1 = true := hcc
      have z1 := hz (!base.tcbZero, "tcbInfo empty") (by simp [collateralChecks])
      have z2 := hz (!base.qeZero, "qeIdentity empty") (by simp [collateralChecks])
      refine ⟨hev.teeType, ?_, ?_, hev.links, ?_⟩
      · exact chainChecks_of_ok _ _ _ _ _ ⟨hco.root, hco.inter, hco.leaf, hco.anchored, (fun hh => by cases hh),
          hco.rootInDate, hco.interInDate, hco.leafInDate⟩
      · intro _
        refine ⟨base, rfl, ?_, ?_, ?_⟩
        · exact collateralChecks_of_ok _ _ _ _ ⟨by simpa using z1, by simpa using z2⟩
            ⟨d.tcb, d.qe, d.tcbSigner, d.tcbRoot, d.qeRoot, d.qeSigner, (fun hh => by cases hh)⟩
        · exact tcbInfoChecks_of_ok _ _ _ _ _ ⟨t.id, t.version, t.levels,
            ⟨t.response.root, t.response.signer, t.response.anchored, t.response.signature, (fun hh => by cases hh)⟩⟩
        · exact qeIdentityChecks_of_ok _ _ _ _ _ ⟨qq.id, qq.version, qq.levels,
            ⟨qq.response.root, qq.response.signer, qq.response.anchored, qq.response.signature, (fun hh => by cases hh)⟩⟩
      · intro c hc'
        cases hc'
        exact hev.tcb { base with pckCrl := some (cs, crt, pckCrl), rootCrl := some rootCrl } rfl

/-- accepted with collateral checking ⇒ accepted with signature and chain checking alone -/
theorem collateral_off_still_accepts (C : Crypto) (w : World) (q : Option QuoteV4) (now : Option TimeSet)
    (h : (tdxQuote Fixes.all C w q ⟨false, true, now⟩).verdict = .ok ()) :
    (tdxQuote Fixes.all C w q ⟨false, false, now⟩).verdict = .ok () := by
  obtain ⟨q', ch, ext, col, rfl, hc, hch, hext, hf, hev⟩ := ((tdxQuote_ok_iff C w q _).mp h).witness
  rw [tdxQuote_ok_iff]
  refine ⟨q', ch, ext, none, rfl, hc, hch, hext, Or.inl ⟨rfl, rfl⟩, ?_⟩
  have hco := chainChecks_all w ch _ _ _ hev.chain
  refine ⟨hev.teeType, ?_, (fun hh => by cases hh), hev.links, (fun c hc' => by cases hc')⟩
  exact chainChecks_of_ok _ _ _ _ _ ⟨hco.root, hco.inter, hco.leaf, hco.anchored, (fun hh => by cases hh),
    hco.rootInDate, hco.interInDate, hco.leafInDate⟩

/-- turning on additional checks never turns a rejection into an acceptance (the two steps chained) -/
theorem more_checks_never_accept_more (C : Crypto) (w : World) (q : Option QuoteV4) (now : Option TimeSet)
    (h : (tdxQuote Fixes.all C w q ⟨true, true, now⟩).verdict = .ok ()) :
    (tdxQuote Fixes.all C w q ⟨false, true, now⟩).verdict = .ok () ∧ (tdxQuote Fixes.all C w q ⟨false, false, now⟩).verdict = .ok () :=
  ⟨revocation_off_still_accepts C w q now h, collateral_off_still_accepts C w q now (revocation_off_still_accepts C w q now h)⟩

/-! ### no history -/

/-- The call leaves the caller's options as it found them, so the verdict of a later call through the same options value
    is the verdict of a fresh one: `tdxQuote` is a function of (world, quote, options) and `Options.Now` — the only
    caller-visible field the code ever assigned — is unchanged. -/
theorem options_unchanged (C : Crypto) (w : World) (q : Option QuoteV4) (o : Opts) :
    (tdxQuote Fixes.all C w q o).nowAfter = o.now := by
  unfold tdxQuote
  have hf9 : Fixes.all.f9 = true := rfl
  repeat' split
  all_goals first | rfl | simp [hf9]

/-- Histories: any sequence of calls through one shared options value gives each call the verdict a fresh options value gives. -/
def runShared (C : Crypto) : Option TimeSet → List (World × Option QuoteV4 × Bool × Bool) → List (Outcome Unit)
  | _, [] => []
  | now, (w, q, cr, gc) :: rest =>
    let r := tdxQuote Fixes.all C w q ⟨cr, gc, now⟩
    r.verdict :: runShared C r.nowAfter rest

theorem verdict_independent_of_history (C : Crypto) (now : Option TimeSet) (calls : List (World × Option QuoteV4 × Bool × Bool)) :
    runShared C now calls = calls.map fun c => (tdxQuote Fixes.all C c.1 c.2.1 ⟨c.2.2.1, c.2.2.2, now⟩).verdict := by
  induction calls generalizing now with
  | nil => rfl
  | cons c rest ih =>
    obtain ⟨w, q, cr, gc⟩ := c
    simp only [runShared, List.map_cons, options_unchanged, ih]

/-! ### the pinned tree (finding F9): a defaulted Now is stored in the caller's options -/

/-- with f9 unrepaired, a call that reaches the evidence stage with `Now = nil` leaves `Now` set to the clock reading -/
theorem unfixed_now_after (C : Crypto) (w : World) (q : QuoteV4) (o : Opts) (hn : o.now = none)
    (ch : Chain) (ext : PckExt.PckExtensions) (col : Option Collateral)
    (hc : checkQuoteV4 (some q) = .ok ()) (hch : extractChain w.chainPem = .ok ch)
    (hext : PckExt.pckCertificateExtensions (cert w ch.leaf).pck = .ok ext)
    (hf : (fetchStage { Fixes.all with f9 := false } w o ch ext).2 = .ok col) :
    (tdxQuote { Fixes.all with f9 := false } C w (some q) o).nowAfter = some (defaultTimeSet w.clock) := by
  unfold tdxQuote
  have hf2 : (!({ Fixes.all with f9 := false } : Fixes).f2 && ((some q).bind (·.header)).isNone) = false := rfl
  simp only [hf2, Bool.false_eq_true, ↓reduceIte, hc, hch, hext, hf, hn, Option.getD_none]

/-- The only state a call can leave behind in the caller's `verify.Options` are the three unexported fields the model's
    `stateAfter` speaks of (chain, PCK extensions, collateral — each overwritten by `tdxQuoteV4` before it is read) and,
    before the repair of F9, `Now`.  Regenerated from the struct definition on every run: a new hidden field (a cache of
    pools, chains or validation results) is new history the theorems above do not cover. -/
theorem hidden_state_is_modelled :
    Tdx.Gen.optionsHiddenFields = [("chain", "*verify.PCKCertificateChain"), ("collateral", "*verify.Collateral"),
                               ("pckCertExtensions", "*pcs.PckExtensions")] := by decide

end Tdx.Props.C12
