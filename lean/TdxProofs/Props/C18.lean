/-
  C18 — an event log is returned only behind both gates and a matching RTMR replay.
-/
import TdxModel.Ccel
import TdxProofs.Lemmas.Basic

namespace Tdx.Props.C18
open Tdx Tdx.Abi Tdx.Ccel

variable {State : Type}

/-- **C18, main statement.** A state is returned (alone or next to an error) only if the quote passes verification,
    passes validation, the bank could be built, and replaying the log against that bank produced exactly this state. -/
theorem state_implies_gates (verify validate : Outcome Unit) (q : Option QuoteV4) (replay : Bank → Outcome (GoRet State))
    (r : GoRet State) (st : State) (h : parseCcel verify validate q replay = .ok r) (hs : r.state = some st) :
    verify = .ok () ∧ validate = .ok () ∧ ∃ bank, getRtmrs true q = .ok bank ∧ replay bank = .ok r := by
  unfold parseCcel at h
  cases verify with
  | panic => simp at h
  | err e => simp at h; subst h; simp at hs
  | ok u =>
    cases validate with
    | panic => simp at h
    | err e => simp at h; subst h; simp at hs
    | ok u2 =>
      cases hb : getRtmrs true q with
      | panic => simp [hb] at h
      | err e => simp [hb] at h; subst h; simp at hs
      | ok bank =>
        simp only [hb] at h
        cases hr : replay bank with
        | panic => simp [hr] at h
        | err e => simp [hr] at h; subst h; simp at hs
        | ok r' =>
          simp only [hr] at h
          cases h
          exact ⟨rfl, rfl, bank, rfl, hr⟩

/-- and conversely: with both gates passed the result is exactly the pair the replay hands back -/
theorem gates_passed (q : Option QuoteV4) (replay : Bank → Outcome (GoRet State)) (bank : Bank) (r : GoRet State)
    (hb : getRtmrs true q = .ok bank) (hr : replay bank = .ok r) :
    parseCcel (.ok ()) (.ok ()) q replay = .ok r := by
  unfold parseCcel
  simp [hb, hr]

/-- if either gate fails the call returns that gate's error and no state -/
theorem failure_returns_no_state (verify validate : Outcome Unit) (q : Option QuoteV4) (replay : Bank → Outcome (GoRet State))
    (h : (∃ e, verify = .err e) ∨ (verify = .ok () ∧ ∃ e, validate = .err e)) :
    ∃ e, parseCcel verify validate q replay = .ok ⟨none, some e⟩ := by
  rcases h with ⟨e, he⟩ | ⟨hv, e, he⟩
  · exact ⟨e, by simp [parseCcel, he]⟩
  · exact ⟨e, by simp [parseCcel, hv, he]⟩

/-- whichever way a gate fails (first or second), no result of the call carries a state -/
theorem failed_gate_never_yields_state (verify validate : Outcome Unit) (q : Option QuoteV4) (replay : Bank → Outcome (GoRet State))
    (h : (∃ e, verify = .err e) ∨ (∃ e, validate = .err e)) (r : GoRet State)
    (hr : parseCcel verify validate q replay = .ok r) : r.state = none := by
  cases hs : r.state with
  | none => rfl
  | some st =>
    obtain ⟨a, b, _⟩ := state_implies_gates verify validate q replay r st hr hs
    rcases h with ⟨e, he⟩ | ⟨e, he⟩
    · rw [he] at a; cases a
    · rw [he] at b; cases b

/-- a replay that yields no state (e.g. an RTMR value that does not match the log) yields none here: the state comes only
    from the replay -/
theorem replay_mismatch_returns_no_state (verify validate : Outcome Unit) (q : Option QuoteV4) (replay : Bank → Outcome (GoRet State))
    (hrp : ∀ bank r, replay bank = .ok r → r.state = none) (r : GoRet State)
    (hr : parseCcel verify validate q replay = .ok r) : r.state = none := by
  cases hs : r.state with
  | none => rfl
  | some st =>
    obtain ⟨_, _, bank, _, hb⟩ := state_implies_gates verify validate q replay r st hr hs
    rw [hrp bank r hb] at hs; cases hs

/-- the call never invents an outcome: without a crash of a gate or of the replay it does not crash -/
theorem parse_panics_only_if_part_does (verify validate : Outcome Unit) (q : Option QuoteV4) (replay : Bank → Outcome (GoRet State))
    (hv : verify ≠ .panic) (hva : validate ≠ .panic) (hrp : ∀ bank, replay bank ≠ .panic) (hq : getRtmrs true q ≠ .panic) :
    parseCcel verify validate q replay ≠ .panic := by
  unfold parseCcel
  cases verify with
  | panic => exact absurd rfl hv
  | err e => simp
  | ok u =>
    cases validate with
    | panic => exact absurd rfl hva
    | err e => simp
    | ok u2 =>
      cases hb : getRtmrs true q with
      | panic => exact absurd hb hq
      | err e => simp
      | ok bank =>
        simp only
        cases hr : replay bank with
        | panic => exact absurd hr (hrp bank)
        | err e => simp
        | ok r => simp

theorem bankLoop_spec (rs : List Bytes) (i : Nat) (bank : Bank) (h : bankLoop i rs = .ok bank) :
    bank.length = rs.length ∧ ∀ j (h1 : j < bank.length) (h2 : j < rs.length), bank[j] = (i + j, rs[j]) ∧ i + j ≤ 3 := by
  induction rs generalizing i bank with
  | nil => unfold bankLoop at h; cases h; simp
  | cons r rest ih =>
    unfold bankLoop at h
    split at h; · cases h
    rename_i hi
    cases hb : bankLoop (i + 1) rest with
    | err e => rw [hb] at h; cases h
    | panic => rw [hb] at h; cases h
    | ok b =>
      rw [hb] at h
      cases h
      obtain ⟨hl, hall⟩ := ih (i + 1) b hb
      refine ⟨by simp [hl], ?_⟩
      intro j h1 h2
      cases j with
      | zero => simp; omega
      | succ k =>
        have := hall k (by simpa using h1) (by simpa using h2)
        simp only [List.getElem_cons_succ]
        constructor
        · rw [this.1]; congr 1; omega
        · omega

/-- RTMR i of the quote becomes register index i of the replay bank; at most four -/
theorem bank_is_quote_rtmrs (q : QuoteV4) (t : TdQuoteBody) (bank : Bank) (ht : q.tdQuoteBody = some t)
    (h : getRtmrs true (some q) = .ok bank) :
    bank.length = t.rtmrs.length ∧ bank.length ≤ 4 ∧
    ∀ j (h1 : j < bank.length) (h2 : j < t.rtmrs.length), bank[j] = (j, t.rtmrs[j]) := by
  unfold getRtmrs at h
  simp only [ht] at h
  obtain ⟨hl, hall⟩ := bankLoop_spec t.rtmrs 0 bank h
  refine ⟨hl, ?_, fun j h1 h2 => by simpa using (hall j h1 h2).1⟩
  by_cases hlen : bank.length ≤ 4
  · exact hlen
  · have := (hall 4 (by omega) (by omega)).2
    omega

/-- more than four RTMRs is an error -/
theorem five_rtmrs_is_error (rs : List Bytes) (h : 4 < rs.length) : ∃ e, bankLoop 0 rs = .err e := by
  match rs, h with
  | a :: b :: c :: d :: e :: rest, _ => exact ⟨"too many RTMRs in quote", by simp [bankLoop]⟩

theorem bankLoop_never_panics (rs : List Bytes) (i : Nat) : bankLoop i rs ≠ .panic := by
  induction rs generalizing i with
  | nil => simp [bankLoop]
  | cons r rest ih =>
    unfold bankLoop
    split; · simp
    have := ih (i + 1)
    cases hb : bankLoop (i + 1) rest <;> simp_all

/-- `GetRtmrsFromTdQuote` never crashes, for every message (absent TD body, any number of RTMRs of any length) -/
theorem getRtmrs_never_panics (q : Option QuoteV4) : getRtmrs true q ≠ .panic := by
  unfold getRtmrs
  cases q with
  | none => simp
  | some q =>
    simp only
    cases hb : q.tdQuoteBody with
    | none => simp
    | some t => simpa using bankLoop_never_panics t.rtmrs 0

/-! ### the pinned tree (finding F12): nil TD body dereferenced -/
theorem unfixed_witness_nil_body : getRtmrs false (some { (default : QuoteV4) with tdQuoteBody := none }) = .panic := by
  simp [getRtmrs]

/-! ### non-vacuity -/
example : parseCcel (State := Nat) (.ok ()) (.ok ()) (some default) (fun _ => .ok ⟨some 7, some "no GRUB measurements found"⟩)
    = .ok ⟨some 7, some "no GRUB measurements found"⟩ := by decide
example : parseCcel (State := Nat) (.ok ()) (.err "policy") (some default) (fun _ => .ok ⟨some 7, none⟩) = .ok ⟨none, some "policy"⟩ := by decide
example : getRtmrs true (some { (default : QuoteV4) with tdQuoteBody := some { (default : TdQuoteBody) with rtmrs := [[1], [2], [3], [4]] } })
    = .ok [(0, [1]), (1, [2]), (2, [3]), (3, [4])] := by decide

end Tdx.Props.C18
