/-
  C09 — parsing and serialising quotes are exact inverses on the v4 wire format.
  Property theorems only (helper lemmas: TdxProofs/Lemmas/AbiRoundTrip.lean, AbiNoPanic.lean, AbiLayout.lean,
  AbiBack.lean; the independent specification of the layout — `WellFormed`, `V4Layout`, `FieldsAreSlices`,
  `specParse` — is TdxModel/AbiSpec.lean).
-/
import TdxModel.Abi
import TdxModel.AbiSpec
import TdxProofs.Lemmas.AbiRoundTrip
import TdxProofs.Lemmas.AbiNoPanic
import TdxProofs.Lemmas.AbiLayout
import TdxProofs.Lemmas.AbiBack

namespace Tdx.Props.C09
open Tdx Tdx.Abi Tdx.Gen

theorem quoteToProto_v4 {b : Bytes} {q : QuoteV4} (h : quoteToProto b = .ok q) : quoteToProtoV4' true b = .ok q := by
  unfold quoteToProto quoteToProto' at h
  obtain ⟨_, h⟩ := guard_ok h
  obtain ⟨v, _, h⟩ := bind_ok h
  obtain ⟨_, h⟩ := guard_ok h
  exact h

/-- For every byte string the parser accepts, serialising the parsed quote reproduces the input
    byte for byte. -/
theorem serialize_parse (b : Bytes) (q : QuoteV4) (h : quoteToProto b = .ok q) :
    quoteToAbiBytes (some q) = .ok b := by
  obtain ⟨_, _, _, _, _, _, _, _, _, _, _, _, hq⟩ := quoteV4_parts (quoteToProto_v4 h)
  exact hq

/-- …so the header and body that verification re-serialises and signature-checks are exactly
    bytes 0–631 of the input. -/
theorem signed_message_is_prefix (b : Bytes) (q : QuoteV4) (h : quoteToProto b = .ok q) :
    ∃ hb bb, headerToAbiBytes q.header = .ok hb ∧ tdQuoteBodyToAbiBytes q.tdQuoteBody = .ok bb ∧
      hb ++ bb = b.take 632 ∧ 632 ≤ b.length := by
  obtain ⟨hd, t, s, hb, bb, e1, e2, _, hs1, hH, hs2, hT, _⟩ := quoteV4_parts (quoteToProto_v4 h)
  refine ⟨hb, bb, by rw [e1]; exact hH, by rw [e2]; exact hT, ?_, (slice_ok hs2).2.1⟩
  have := slice_append hs1 hs2
  obtain ⟨_, _, e⟩ := slice_ok this
  simpa using e

/-- The regenerated offset table tiles each fixed-size record without gaps or overlaps, in the
    order of the Intel layout (field sizes as prefix sums). A swapped pair of offsets, a changed size
    or a gap fails this `decide`. -/
theorem layout_contiguous :
    -- header: version 2 ‖ key type 2 ‖ TEE type 4 ‖ PCE SVN 2 ‖ QE SVN 2 ‖ vendor id 16 ‖ user data 20
    [abi_headerVersionStart, abi_headerVersionEnd, abi_headerAttestationKeyTypeStart, abi_headerAttestationKeyTypeEnd,
     abi_headerTeeTypeStart, abi_headerTeeTypeEnd, abi_headerPceSvnStart, abi_headerPceSvnEnd, abi_headerQeSvnStart, abi_headerQeSvnEnd,
     abi_headerQeVendorIDStart, abi_headerQeVendorIDEnd, abi_headerUserDataStart, abi_headerUserDataEnd, abi_headerSize]
      = [0, 2, 2, 4, 4, 8, 8, 10, 10, 12, 12, 28, 28, 48, 48] ∧
    -- TD body: TEE_TCB_SVN 16 ‖ MRSEAM 48 ‖ MRSIGNERSEAM 48 ‖ SEAMATTRIBUTES 8 ‖ TDATTRIBUTES 8 ‖ XFAM 8 ‖ MRTD 48 ‖
    --          MRCONFIGID 48 ‖ MROWNER 48 ‖ MROWNERCONFIG 48 ‖ RTMR0–3 4×48 ‖ REPORTDATA 64
    [abi_tdTeeTcbSvnStart, abi_tdTeeTcbSvnEnd, abi_tdMrSeamStart, abi_tdMrSeamEnd, abi_tdMrSignerSeamStart, abi_tdMrSignerSeamEnd,
     abi_tdSeamAttributesStart, abi_tdSeamAttributesEnd, abi_tdAttributesStart, abi_tdAttributesEnd, abi_tdXfamStart, abi_tdXfamEnd,
     abi_tdMrTdStart, abi_tdMrTdEnd, abi_tdMrConfigIDStart, abi_tdMrConfigIDEnd, abi_tdMrOwnerStart, abi_tdMrOwnerEnd,
     abi_tdMrOwnerConfigStart, abi_tdMrOwnerConfigEnd, abi_tdRtmrsStart, abi_tdRtmrsEnd, abi_tdReportDataStart, abi_tdReportDataEnd,
     abi_tdQuoteBodySize, abi_RtmrSize, abi_rtmrsCount]
      = [0, 16, 16, 64, 64, 112, 112, 120, 120, 128, 128, 136, 136, 184, 184, 232, 232, 280, 280, 328, 328, 520, 520, 584, 584, 48, 4] ∧
    -- QE report: CPUSVN 16 ‖ MISCSELECT 4 ‖ reserved 28 ‖ ATTRIBUTES 16 ‖ MRENCLAVE 32 ‖ reserved 32 ‖ MRSIGNER 32 ‖
    --            reserved 96 ‖ ISVPRODID 2 ‖ ISVSVN 2 ‖ reserved 60 ‖ REPORTDATA 64
    [abi_qeCPUSvnStart, abi_qeCPUSvnEnd, abi_qeMiscSelectStart, abi_qeMiscSelectEnd, abi_qeReserved1Start, abi_qeReserved1End,
     abi_qeAttributesStart, abi_qeAttributesEnd, abi_qeMrEnclaveStart, abi_qeMrEnclaveEnd, abi_qeReserved2Start, abi_qeReserved2End,
     abi_qeMrSignerStart, abi_qeMrSignerEnd, abi_qeReserved3Start, abi_qeReserved3End, abi_qeIsvProdIDStart, abi_qeIsvProdIDEnd,
     abi_qeIsvSvnStart, abi_qeIsvSvnEnd, abi_qeReserved4Start, abi_qeReserved4End, abi_qeReportDataStart, abi_qeReportDataEnd, abi_qeReportSize]
      = [0, 16, 16, 20, 20, 48, 48, 64, 64, 96, 96, 128, 128, 160, 160, 256, 256, 258, 258, 260, 260, 320, 320, 384, 384] ∧
    -- quote: header 48 ‖ body 584 ‖ signed-data size 4 ‖ signed data; signed data: signature 64 ‖ key 64 ‖ certification data;
    -- certification data: type 2 ‖ size 4 ‖ data; QE data: report 384 ‖ signature 64 ‖ auth (size 2 ‖ data) ‖ PCK chain (type 2 ‖ size 4 ‖ data)
    [abi_quoteHeaderStart, abi_quoteHeaderEnd, abi_quoteBodyStart, abi_quoteBodyEnd, abi_quoteSignedDataSizeStart, abi_quoteSignedDataSizeEnd,
     abi_quoteSignedDataStart, abi_signedDataSignatureStart, abi_signedDataSignatureEnd, abi_signedDataAttestationKeyStart,
     abi_signedDataAttestationKeyEnd, abi_signedDataCertificationDataStart, abi_certificateDataTypeStart, abi_certificateDataTypeEnd,
     abi_certificateSizeStart, abi_certificateSizeEnd, abi_certificateDataStart, abi_enclaveReportStart, abi_enclaveReportEnd,
     abi_qeReportCertificationDataSignatureStart, abi_qeReportCertificationDataSignatureEnd, abi_qeReportCertificationDataAuthDataStart,
     abi_authDataParsedDataSizeStart, abi_authDataParsedDataSizeEnd, abi_authDataStart, abi_pckCertChainCertificationDataTypeStart,
     abi_pckCertChainCertificationDataTypeEnd, abi_pckCertChainSizeStart, abi_pckCertChainSizeEnd, abi_pckCertChainDataStart]
      = [0, 48, 48, 632, 632, 636, 636, 0, 64, 64, 128, 128, 0, 2, 2, 6, 6, 0, 384, 384, 448, 448, 0, 2, 2, 0, 2, 2, 6, 6] ∧
    -- field sizes used by the structural check, and the format constants
    [abi_qeSvnSize, abi_pceSvnSize, abi_QeVendorIDSize, abi_userDataSize, abi_TeeTcbSvnSize, abi_MrSeamSize, abi_mrSignerSeamSize,
     abi_seamAttributesSize, abi_TdAttributesSize, abi_XfamSize, abi_MrTdSize, abi_MrConfigIDSize, abi_MrOwnerSize, abi_MrOwnerConfigSize,
     abi_ReportDataSize, abi_cpuSvnSize, abi_reserved1Size, abi_attributesSize, abi_mrEnclaveSize, abi_reserved2Size, abi_mrSignerSize,
     abi_reserved3Size, abi_reserved4Size, abi_signatureSize, abi_attestationKeySize,
     abi_QuoteVersion, abi_intelQuoteV4Version, abi_AttestationKeyType, abi_TeeTDX, abi_qeReportCertificationDataType,
     abi_pckReportCertificationDataType, abi_QuoteMinSize]
      = [2, 2, 16, 20, 16, 48, 48, 8, 8, 8, 48, 48, 48, 48, 64, 16, 28, 16, 32, 32, 32, 96, 60, 64, 64, 4, 4, 2, 0x81, 6, 5, 0x3FC] := by
  decide

/-! ### the pinned tree (finding F1): no length guards in front of the variable-length tail -/

/-- a 1020-byte quote with a valid header and signed-data size 0 -/
def f1Witness : Bytes := [4, 0, 2, 0, 0x81, 0, 0, 0] ++ zeros 1012

theorem unfixed_witness_short_signed_data : quoteToProtoUnfixed f1Witness = .panic := by decide +kernel
theorem fixed_rejects_short_signed_data : (quoteToProto f1Witness).isErr = true := by decide +kernel
theorem unfixed_witness_signedData : signedDataToProto false [] = .panic := by decide
theorem unfixed_witness_certificationData : certificationDataToProto false [1, 2, 3] = .panic := by decide
theorem unfixed_witness_authData : qeAuthDataToProto false [0xff, 0xff, 1, 2, 3] = .panic := by decide
theorem unfixed_witness_pckChain : pckCertificateChainToProto false [5, 0] = .panic := by decide

/-! ### serialise → parse: every well-formed quote message survives unchanged -/

/-- Every well-formed quote message (`WellFormed`: all sub-messages present, `CheckQuoteV4` accepts, report data 64 bytes,
    32-bit fields in range, the two nested size fields equal to the actual lengths) serialises, and parsing the bytes gives
    back exactly that message (byte fields, numbers and `extraBytes` included). -/
theorem parse_serialize (q : QuoteV4) (wf : WellFormed q) :
    ∃ b, quoteToAbiBytes (some q) = .ok b ∧ quoteToProto b = .ok q := by
  obtain ⟨hp, hc, hrd, ⟨r1, r2, r3, r4⟩, ⟨s1, s2⟩⟩ := wf
  rw [allPresent_shape hp] at hc ⊢
  exact ⟨_, quote_back hc hrd r1 r2 r3 r4 s1 s2⟩

/-- a fully populated quote: distinct bytes in every field, 3 bytes of QE authentication data, a 5-byte certificate
    chain, 2 extra bytes -/
def sampleQuote : QuoteV4 :=
  ⟨some ⟨4, 2, 0x81, List.replicate 2 1, List.replicate 2 2, List.replicate 16 3, List.replicate 20 4⟩,
   some ⟨List.replicate 16 5, List.replicate 48 6, List.replicate 48 7, List.replicate 8 8, List.replicate 8 9,
         List.replicate 8 10, List.replicate 48 11, List.replicate 48 12, List.replicate 48 13, List.replicate 48 14,
         [List.replicate 48 15, List.replicate 48 16, List.replicate 48 17, List.replicate 48 18], List.replicate 64 19⟩,
   598,
   some ⟨List.replicate 64 20, List.replicate 64 21,
     some ⟨6, 464,
       some ⟨some ⟨List.replicate 16 22, 0x12345678, List.replicate 28 23, List.replicate 16 24, List.replicate 32 25,
                   List.replicate 32 26, List.replicate 32 27, List.replicate 96 28, 0x0102, 0x0304, List.replicate 60 29,
                   List.replicate 64 30⟩,
             List.replicate 64 31,
             some ⟨3, [32, 33, 34]⟩,
             some ⟨5, 5, [35, 36, 37, 38, 39]⟩⟩⟩⟩,
   [0xEE, 0xFF]⟩

example : WellFormed sampleQuote := by decide +kernel

/-- its wire form (1236 bytes) -/
def sampleBytes : Bytes :=
  match quoteToAbiBytes (some sampleQuote) with
  | .ok b => b
  | _ => []

example : sampleBytes.length = 1236 ∧ quoteToProto sampleBytes = .ok sampleQuote := by decide +kernel

/-- A message that serialises is re-parsed, if at all, into a message with the same wire form: the parser never
    "repairs" or mis-reads what the serialiser wrote. -/
theorem reparse_is_consistent (q q' : QuoteV4) (b : Bytes) (_hc : checkQuoteV4 (some q) = .ok ())
    (_hb : quoteToAbiBytes (some q) = .ok b) (hp : quoteToProto b = .ok q') : quoteToAbiBytes (some q') = .ok b :=
  serialize_parse b q' hp

/-- Inconsistent sizes are rejected, never mis-parsed: a message that passes `CheckQuoteV4` and whose 32-bit fields are
    in range, but whose nested size fields do not equal the actual lengths, serialises to bytes the parser refuses. -/
theorem size_inconsistent_rejected (q : QuoteV4) (b : Bytes) (hc : checkQuoteV4 (some q) = .ok ()) (hr : InRange q)
    (hs : ¬ SizeConsistent q) (hb : quoteToAbiBytes (some q) = .ok b) : ∃ e, quoteToProto b = .err e := by
  cases h : quoteToProto b with
  | ok q' => exact absurd (sizeConsistent_of_layout hc hr hb ((quoteToProto_ok_iff_abs q').mp h).1) hs
  | err e => exact ⟨e, rfl⟩
  | panic => exact absurd h (quoteToProto_np b)

/-- `sampleQuote` with a signed-data size that is one too large -/
def badSizeQuote : QuoteV4 := { sampleQuote with signedDataSize := 599 }

example : checkQuoteV4 (some badSizeQuote) = .ok () ∧ InRange badSizeQuote ∧ ¬ SizeConsistent badSizeQuote ∧
    (quoteToAbiBytes (some badSizeQuote)).isOk = true := by decide +kernel

/-- For a message that passes `CheckQuoteV4`, has 64 bytes of report data and in-range 32-bit fields, surviving the round
    trip is equivalent to the nested size fields being consistent. -/
theorem roundtrip_iff_sizeConsistent (q : QuoteV4) (hc : checkQuoteV4 (some q) = .ok ())
    (hrd : q.body.reportData.length = 64) (hr : InRange q) :
    (∃ b, quoteToAbiBytes (some q) = .ok b ∧ quoteToProto b = .ok q) ↔ SizeConsistent q := by
  constructor
  · rintro ⟨b, hb, hp⟩
    exact sizeConsistent_of_layout hc hr hb ((quoteToProto_ok_iff_abs q).mp hp).1
  · intro hs
    exact parse_serialize q ⟨allPresent_of_check hc, hc, hrd, hr, hs⟩

/-! ### the parser accepts exactly the v4 layout -/

/-- The parser accepts exactly the byte strings that follow the v4 layout (`V4Layout`, stated on the bytes alone:
    version 4, key type 2, TEE type 0x81, certification data types 6 and 5, and every nested size field equal to the
    number of bytes actually there). -/
theorem parse_ok_iff_layout (b : Bytes) : (∃ q, quoteToProto b = .ok q) ↔ V4Layout b := by
  constructor
  · rintro ⟨q, h⟩; exact ((quoteToProto_ok_iff_abs q).mp h).1
  · intro h; exact ⟨_, (quoteToProto_ok_iff_abs _).mpr ⟨h, rfl⟩⟩

/-- …and everything else is rejected with an error (never a panic, never a partial result). -/
theorem parse_err_iff_not_layout (b : Bytes) : (∃ e, quoteToProto b = .err e) ↔ ¬ V4Layout b := by
  rw [← parse_ok_iff_layout]
  cases h : quoteToProto b with
  | ok q => simp
  | err e => simp
  | panic => exact absurd h (quoteToProto_np b)

example : V4Layout sampleBytes := by decide +kernel
example : ¬ V4Layout f1Witness := by decide +kernel
example : ¬ V4Layout (sampleBytes.take 1233) := by decide +kernel

/-! ### every field of the result is the corresponding slice of the input -/

/-- Every field of an accepted quote is the corresponding absolute slice of the input (numeric fields little-endian);
    all sub-messages are present. -/
theorem fields_are_slices (b : Bytes) (q : QuoteV4) (h : quoteToProto b = .ok q) : FieldsAreSlices b q := by
  obtain ⟨_, rfl⟩ := (quoteToProto_ok_iff_abs q).mp h
  exact fieldsAreSlices_abs b

/-- The complete input/output relation of the parser: it returns `q` exactly when the bytes follow the layout and `q` is
    the record of slices. -/
theorem parse_ok_iff (b : Bytes) (q : QuoteV4) : quoteToProto b = .ok q ↔ V4Layout b ∧ FieldsAreSlices b q := by
  rw [quoteToProto_ok_iff_abs]
  constructor
  · rintro ⟨h, rfl⟩; exact ⟨h, fieldsAreSlices_abs b⟩
  · rintro ⟨h, hf⟩; exact ⟨h, eq_abs_of_fieldsAreSlices hf⟩

example : FieldsAreSlices sampleBytes sampleQuote := fields_are_slices _ _ (by decide +kernel)

/-- The parser agrees, on every input, with the independent cursor-based reference parser `specParse`
    (TdxModel/AbiSpec.lean: `(name, size)` tables, offsets by prefix sums): same accepted inputs, same result. -/
theorem parse_eq_spec (b : Bytes) : (quoteToProto b).toOption = specParse b :=
  quoteToProto_toOption b

/-- the tables of the reference parser have the record sizes of the Intel layout -/
theorem spec_tables_sizes :
    (headerTable.map (·.2)).sum = 48 ∧ (tdBodyTable.map (·.2)).sum = 584 ∧ (qeReportTable.map (·.2)).sum = 384 ∧
    headerTable.length = 7 ∧ tdBodyTable.length = 15 ∧ qeReportTable.length = 12 := by
  decide

example : specParse sampleBytes = some sampleQuote := by decide +kernel

end Tdx.Props.C09
