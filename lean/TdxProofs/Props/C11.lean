/-
  C11 — every honestly produced, in-date quote is accepted at every checking level.
  Together with C01–C07 this pins the verdict from both sides.
-/
import TdxModel.Verify
import TdxProofs.Lemmas.Verify
import TdxProofs.Lemmas.VerifyConv
import TdxProofs.Lemmas.Tcb
import TdxProofs.Lemmas.Validate
import TdxProofs.Props.C01
import TdxProofs.Props.C04
import TdxProofs.Props.C07

namespace Tdx.Props.C11
open Tdx Tdx.Gen Tdx.Abi Tdx.Verify

theorem links_imply_ok (C : Crypto) (q : QuoteV4) (leaf : Nat) (hsig : (C01.quoteSig q).length = 64) (hqsig : (C01.qeSig q).length = 64)
    (h : C01.Links C q leaf) : verifyQuoteLinks C q leaf = .ok () := by
  obtain ⟨msg, hmsg, hv⟩ := h.quoteSigned
  obtain ⟨rep, hrep, hvq⟩ := h.qeSigned
  have hb := h.hashBinding
  have hks := h.keySize
  have hkc := h.keyOnCurve
  simp only [C01.attKey, C01.quoteSig, C01.qeReport, C01.qeSig, C01.authData, C01.qeReportData] at hmsg hv hrep hvq hb hsig hqsig hks hkc
  unfold verifyQuoteLinks
  simp only [gen_const]
  have c1 : ∀ c ∈ [((q.signedData.getD default).ecdsaAttestationKey.length == 64, "attestation key size"),
      (C.onCurve (q.signedData.getD default).ecdsaAttestationKey, "attestation key not on curve"),
      (signatureToDerOk (q.signedData.getD default).signature, "quote signature size")], c.1 = true := by
    intro c hc
    simp only [List.mem_cons, List.not_mem_nil, or_false] at hc
    rcases hc with rfl | rfl | rfl
    · simpa using hks
    · exact hkc
    · simpa [signatureToDerOk] using hsig
  rw [runChecks_bind_ok]
  refine ⟨c1, ?_⟩
  rw [bind_eq hmsg, runChecks_bind_ok]
  refine ⟨by intro c hc; simp only [List.mem_singleton] at hc; subst hc; exact hv, ?_⟩
  rw [bind_eq hrep, runChecks_bind_ok]
  refine ⟨?_, ?_⟩
  · intro c hc
    simp only [List.mem_cons, List.not_mem_nil, or_false] at hc
    rcases hc with rfl | rfl
    · simpa [signatureToDerOk] using hqsig
    · exact hvq
  · have hlen := congrArg List.length hb
    simp only [List.length_append, zeros, List.length_replicate] at hlen
    rw [if_neg (by omega), runChecks_ok_iff]
    intro c hc
    simp only [List.mem_singleton] at hc
    subst hc
    simpa using hb.symm

/-- an honest world: every clause the statement lists, declaratively (no reference to the order of evaluation) -/
structure Honest (C : Crypto) (w : World) (q : QuoteV4) (o : Opts) (ch : Chain) (ext : PckExt.PckExtensions)
    (col : Option Collateral) : Prop where
  /-- produced the way the platform produces it: structurally valid, any field contents, any auth-data length -/
  wellFormed : checkQuoteV4 (some q) = .ok ()
  chainExtracted : extractChain w.chainPem = .ok ch           -- three CERTIFICATE blocks, optional NUL
  sgx : PckExt.pckCertificateExtensions (cert w ch.leaf).pck = .ok ext
  fetched : Fetched w o ch ext col
  /-- chain in date, rooted in the trusted pool, not revoked (when checked) -/
  chain : ChainOk w ch o (o.now.getD (defaultTimeSet w.clock)) col
  /-- the three signature links -/
  links : C01.Links C q ch.leaf
  /-- matching, in-date, UpToDate signed collateral -/
  collateral : o.getCollateral = true → ∃ (c : Collateral) (t : TdQuoteBody) (h2 : 2 ≤ t.teeTcbSvn.length), col = some c ∧ q.tdQuoteBody = some t ∧
    c.tcbZero = false ∧ c.qeZero = false ∧
    CollateralInDate w o (o.now.getD (defaultTimeSet w.clock)) c ∧
    TcbInfoOk C w o (o.now.getD (defaultTimeSet w.clock)) c ∧ QeIdentityOk C w o (o.now.getD (defaultTimeSet w.clock)) c ∧
    C04.IdentityMatches c.tcb t ext ∧ C04.TcbUpToDate c.tcb t.teeTcbSvn ext.tcb.pcesvn ext.tcb.comps h2 ∧
    C07.QeMatches c.qe (((qeCertData q).getD default).qeReport.getD default)

/-- **C11, main statement** — at every checking level (the option values are arbitrary). -/
theorem honest_accepted (C : Crypto) (w : World) (q : QuoteV4) (o : Opts) (ch : Chain) (ext : PckExt.PckExtensions)
    (col : Option Collateral) (h : Honest C w q o ch ext col) : (tdxQuote Fixes.all C w (some q) o).verdict = .ok () := by
  rw [tdxQuote_ok_iff]
  refine ⟨q, ch, ext, col, rfl, h.wellFormed, h.chainExtracted, h.sgx, h.fetched, ?_⟩
  obtain ⟨hH, hT, hS⟩ := Validate.checkQuoteV4_ok h.wellFormed
  obtain ⟨hd, ehd, _, _, _, _, _, _, htee⟩ := Validate.checkHeader_ok hH
  -- signature sizes from the structural check
  have hsizes : (C01.quoteSig q).length = 64 ∧ (C01.qeSig q).length = 64 := by
    cases hs : q.signedData with
    | none => rw [hs] at hS; simp [checkSignedData] at hS
    | some s =>
      rw [hs] at hS
      unfold checkSignedData lenIs at hS
      simp only [gen_const] at hS
      obtain ⟨a1, hS⟩ := guard_ok hS
      obtain ⟨_, hS⟩ := guard_ok hS
      cases hc : s.certificationData with
      | none => rw [hc] at hS; simp [checkCertificationData] at hS
      | some c =>
        rw [hc] at hS
        unfold checkCertificationData at hS
        obtain ⟨_, hS⟩ := guard_ok hS
        obtain ⟨_, hS⟩ := guard_ok hS
        cases hq : c.qeReportCertData with
        | none => rw [hq] at hS; simp [checkQeReportCertData] at hS
        | some qc =>
          rw [hq] at hS
          unfold checkQeReportCertData lenIs at hS
          simp only [gen_const] at hS
          obtain ⟨_, _, hS⟩ := bind_ok hS
          obtain ⟨a2, _⟩ := guard_ok hS
          simp only [beq_iff_eq] at a1 a2
          exact ⟨by simp [C01.quoteSig, hs, a1], by simp [C01.qeSig, qeCertData, hs, hc, hq, a2]⟩
  refine ⟨by rw [ehd]; simpa using htee, chainChecks_of_ok _ _ _ _ _ h.chain, ?_, links_imply_ok C q ch.leaf hsizes.1 hsizes.2 h.links, ?_⟩
  · intro hg
    obtain ⟨c, t, h2, hcol, _, z1, z2, d, ti, qi, _⟩ := h.collateral hg
    subst hcol
    exact ⟨c, rfl, collateralChecks_of_ok _ _ _ _ ⟨z1, z2⟩ d, tcbInfoChecks_of_ok _ _ _ _ _ ti, qeIdentityChecks_of_ok _ _ _ _ _ qi⟩
  · intro c hc
    subst hc
    have hg : o.getCollateral = true := by
      rcases h.fetched with ⟨_, hn⟩ | ⟨hg, _⟩
      · cases hn
      · exact hg
    obtain ⟨c', t, h2, hcol, et, _, _, _, _, _, im, tu, qm⟩ := h.collateral hg
    cases hcol
    refine ⟨?_, (C07.qe_accept_iff _ _).mpr qm⟩
    rw [et]
    simp only [Option.getD_some]
    exact (C04.tcb_accept_iff c.tcb t ext h2).mpr ⟨im, tu⟩

/-- the three levels named in the statement are instances: without collateral … -/
theorem honest_accepted_base (C : Crypto) (w : World) (q : QuoteV4) (now : Option TimeSet) (ch : Chain)
    (ext : PckExt.PckExtensions) (h : Honest C w q ⟨false, false, now⟩ ch ext none) :
    (tdxQuote Fixes.all C w (some q) ⟨false, false, now⟩).verdict = .ok () := honest_accepted C w q _ ch ext none h

/-- … with collateral checking, and with revocation checking -/
theorem honest_accepted_collateral (C : Crypto) (w : World) (q : QuoteV4) (now : Option TimeSet) (cr : Bool) (ch : Chain)
    (ext : PckExt.PckExtensions) (c : Collateral) (h : Honest C w q ⟨cr, true, now⟩ ch ext (some c)) :
    (tdxQuote Fixes.all C w (some q) ⟨cr, true, now⟩).verdict = .ok () := honest_accepted C w q _ ch ext (some c) h

/-- and conversely every accepted call is honest in this sense: the verdict is pinned from both sides -/
theorem accepted_is_honest (C : Crypto) (w : World) (q : QuoteV4) (o : Opts)
    (h : (tdxQuote Fixes.all C w (some q) o).verdict = .ok ()) :
    ∃ ch ext col, extractChain w.chainPem = .ok ch ∧ PckExt.pckCertificateExtensions (cert w ch.leaf).pck = .ok ext ∧
      Fetched w o ch ext col ∧ ChainOk w ch o (o.now.getD (defaultTimeSet w.clock)) col ∧ C01.Links C q ch.leaf := by
  obtain ⟨q', ch, ext, col, hq, _, hch, hext, hf, hev⟩ := ((tdxQuote_ok_iff C w (some q) o).mp h).witness
  cases hq
  exact ⟨ch, ext, col, hch, hext, hf, chainChecks_all _ _ _ _ _ hev.chain, C01.links_of_ok C q ch.leaf hev.links⟩

end Tdx.Props.C11
