/-
  C20 — the retrying HTTPS getter returns the first success intact and makes no further attempt;
  between failed attempts it waits, never longer than MaxRetryDelay and never in a busy loop; when
  the wrapped getter keeps failing it gives up in bounded time.
  Property theorems only; all are about `Tdx.Retry.get c script tie fuel` for EVERY configuration
  `c` (Timeout, MaxRetryDelay : Int ns, possibly ≤ 0), every script of the wrapped getter (total
  functions `Nat → Call ρ`: finite and infinite behaviours), every resolution `tie` of the selects
  in which timer and deadline are ready together, every fuel, every payload type `ρ`.
-/
import TdxModel.Retry
import TdxProofs.Lemmas.Retry

namespace Tdx.Props.C20
open Tdx Tdx.Retry

variable {ρ : Type}

/-- 2 · (initial delay) = 4 s: the first wait when the maximum allows it -/
def firstWait : Int := initialDelay + initialDelay

/-- the smallest wait of a configuration with a positive maximum -/
def minWait (c : Cfg) : Int := min firstWait c.maxDelay

/-- number of calls that suffices for every run of `c` when `0 < MaxRetryDelay` (computable) -/
def callBound (c : Cfg) : Nat := (max c.timeout 0 / minWait c).toNat + 1

theorem initialDelay_eq : initialDelay = 2000000000 := by decide
theorem firstWait_eq : firstWait = 4000000000 := by decide

/-! ### first success, intact, nothing after it -/

/-- If `Get` returns a response then it is, unchanged, the response of a successful call of the
    wrapped getter, and every earlier call failed: the FIRST success.  (`ρ` is abstract — the model
    has no operation on responses, so "intact" is the equality `some r = (script k).resp`.) -/
theorem returns_first_success_intact (c : Cfg) (script : Nat → Call ρ) (tie : Nat → Bool) (fuel : Nat)
    (k : Nat) (r : ρ) (t : Int) (h : (get c script tie fuel).res = .success k r t) :
    (script k).resp = some r ∧ ∀ i, i < k → (script i).resp = none := by
  obtain ⟨_, h2, h3, -⟩ := run_success c script tie fuel 0 initialDelay 0 k r t h
  exact ⟨h2, fun i hi => h3 i (Nat.zero_le _) hi⟩

/-- The successful call is the last call: exactly k+1 calls were made (k waits between them) and
    `Get` returned at the moment that call ended. -/
theorem no_call_after_success (c : Cfg) (script : Nat → Call ρ) (tie : Nat → Bool) (fuel : Nat)
    (k : Nat) (r : ρ) (t : Int) (h : (get c script tie fuel).res = .success k r t) :
    (get c script tie fuel).calls.length = k + 1 ∧ (get c script tie fuel).waits.length = k ∧
    ∃ s, (get c script tie fuel).calls.getLast? = some s ∧ t = s + (script k).dur := by
  obtain ⟨_, _, _, h4, h5, h6⟩ := run_success c script tie fuel 0 initialDelay 0 k r t h
  exact ⟨by simpa [Retry.get] using h4, by simpa [Retry.get] using h5, h6⟩

/-- A success is never passed over: a timeout is reported only after calls that all failed, and not
    before the deadline. -/
theorem timeout_only_after_failures (c : Cfg) (script : Nat → Call ρ) (tie : Nat → Bool) (fuel : Nat)
    (n : Nat) (t : Int) (h : (get c script tie fuel).res = .timeout n t) :
    0 < n ∧ (get c script tie fuel).calls.length = n ∧ (∀ i, i < n → (script i).resp = none) ∧ c.timeout ≤ t := by
  obtain ⟨h1, h2, h3, h4⟩ := run_timeout c script tie fuel 0 initialDelay 0 n t h
  exact ⟨h1, by simpa [Retry.get] using h2, fun i hi => h3 i (Nat.zero_le _) hi, h4⟩

/-- …and a run cut off by the fuel has seen only failures. -/
theorem out_of_fuel_only_after_failures (c : Cfg) (script : Nat → Call ρ) (tie : Nat → Bool) (fuel : Nat)
    (h : (get c script tie fuel).res = .outOfFuel) :
    (get c script tie fuel).calls.length = fuel ∧ ∀ i, i < fuel → (script i).resp = none := by
  obtain ⟨h1, h2⟩ := run_outOfFuel c script tie fuel 0 initialDelay 0 h
  exact ⟨h1, fun i hi => h2 i (Nat.zero_le _) (by omega)⟩

/-! ### the waits -/

theorem each_wait_le_max (c : Cfg) (script : Nat → Call ρ) (tie : Nat → Bool) (fuel : Nat)
    (hm : 0 ≤ c.maxDelay) : ∀ w ∈ (get c script tie fuel).waits, w ≤ c.maxDelay :=
  run_waits_le_max c script tie hm fuel 0 initialDelay 0

/-- no busy loop: with a positive maximum every wait is at least `min (4 s) Max` -/
theorem no_busy_loop (c : Cfg) (script : Nat → Call ρ) (tie : Nat → Bool) (fuel : Nat)
    (hm : 0 < c.maxDelay) : ∀ w ∈ (get c script tie fuel).waits, min 4000000000 c.maxDelay ≤ w := by
  have := run_waits_ge c script tie hm fuel 0 initialDelay 0 (by omega)
  rw [initialDelay_eq] at this
  exact this

/-- the exact back-off (DESIGN B.4 `retrySpec`): the i-th wait is `min (2^(i+2) s) Max` -/
theorem waits_exact (c : Cfg) (script : Nat → Call ρ) (tie : Nat → Bool) (fuel : Nat) (hm : 0 ≤ c.maxDelay)
    (i : Nat) (w : Int) (h : (get c script tie fuel).waits[i]? = some w) :
    w = min (2 ^ (i + 2) * 1000000000) c.maxDelay := by
  have := run_waits_exact c script tie hm fuel 0 initialDelay 0 (by decide) i w h
  rw [this, initialDelay_eq, Int.pow_succ 2 (i + 1), Int.mul_assoc]
  rfl

/-! ### bounded give-up -/

/-- Termination for a positive maximum: `fuel` calls are enough as soon as `fuel · minWait` exceeds
    the timeout (measure: time left to the deadline; every retry consumes at least `minWait`). -/
theorem terminates_of_lt (c : Cfg) (script : Nat → Call ρ) (tie : Nat → Bool) (fuel : Nat)
    (hm : 0 < c.maxDelay) (hf : max c.timeout 0 < (fuel : Int) * minWait c) :
    (get c script tie fuel).res ≠ .outOfFuel := by
  apply run_terminates c script tie hm fuel 0 initialDelay 0 (by omega)
  simpa [minWait, firstWait] using hf

theorem minWait_pos (c : Cfg) (hm : 0 < c.maxDelay) : 0 < minWait c := by
  unfold minWait; rw [firstWait_eq]; omega

/-- the computable bound: no run with `0 < Max` needs more than `callBound c` calls -/
theorem terminates (c : Cfg) (script : Nat → Call ρ) (tie : Nat → Bool) (fuel : Nat)
    (hm : 0 < c.maxDelay) (hf : callBound c ≤ fuel) : (get c script tie fuel).res ≠ .outOfFuel := by
  apply terminates_of_lt c script tie fuel hm
  have hp := minWait_pos c hm
  have h0 : 0 ≤ max c.timeout 0 / minWait c := Int.ediv_nonneg (by omega) (by omega)
  have h1 : max c.timeout 0 < (max c.timeout 0 / minWait c + 1) * minWait c := Int.lt_ediv_add_one_mul_self _ hp
  have h2 : (max c.timeout 0 / minWait c + 1) ≤ (fuel : Int) := by
    unfold callBound at hf
    omega
  have h3 : (max c.timeout 0 / minWait c + 1) * minWait c ≤ (fuel : Int) * minWait c :=
    Int.mul_le_mul_of_nonneg_right h2 (by omega)
  omega

/-- When the wrapped getter keeps failing and no call takes longer than `G`, `Get` (positive
    maximum, enough fuel) returns the timeout error, at or after the deadline and no later than
    `max Timeout 0 + G`. -/
theorem gives_up_in_bounded_time (c : Cfg) (script : Nat → Call ρ) (tie : Nat → Bool) (fuel : Nat) (G : Nat)
    (hm : 0 < c.maxDelay) (hfail : ∀ k, (script k).resp = none) (hG : ∀ k, (script k).dur ≤ G)
    (hf : callBound c ≤ fuel) :
    ∃ n t, (get c script tie fuel).res = .timeout n t ∧ c.timeout ≤ t ∧ t ≤ max c.timeout 0 + G := by
  have hne := terminates c script tie fuel hm hf
  cases hres : (get c script tie fuel).res with
  | success k r t =>
    have := (returns_first_success_intact c script tie fuel k r t hres).1
    rw [hfail k] at this; cases this
  | outOfFuel => exact absurd hres hne
  | timeout n t =>
    refine ⟨n, t, rfl, (timeout_only_after_failures c script tie fuel n t hres).2.2.2, ?_⟩
    exact run_timeout_le c script tie hm G hG fuel 0 initialDelay 0 (by omega) (by omega) n t hres

/-- …hence no later than "timeout plus one retry delay" when calls are no longer than the maximum -/
theorem gives_up_by_timeout_plus_max (c : Cfg) (script : Nat → Call ρ) (tie : Nat → Bool) (fuel : Nat)
    (hm : 0 < c.maxDelay) (hfail : ∀ k, (script k).resp = none) (hG : ∀ k, ((script k).dur : Int) ≤ c.maxDelay)
    (hf : callBound c ≤ fuel) :
    ∃ n t, (get c script tie fuel).res = .timeout n t ∧ t ≤ max c.timeout 0 + c.maxDelay := by
  obtain ⟨n, t, h1, _, h3⟩ := gives_up_in_bounded_time c script tie fuel c.maxDelay.toNat hm hfail
    (fun k => by have := hG k; omega) hf
  exact ⟨n, t, h1, by omega⟩

/-- The time bound itself does not depend on the fuel: whenever a timeout is reported (positive
    maximum, calls no longer than `G`) it is reported by `max Timeout 0 + G`. -/
theorem timeout_time_le (c : Cfg) (script : Nat → Call ρ) (tie : Nat → Bool) (fuel : Nat) (G : Nat)
    (hm : 0 < c.maxDelay) (hG : ∀ k, (script k).dur ≤ G) (n : Nat) (t : Int)
    (h : (get c script tie fuel).res = .timeout n t) : t ≤ max c.timeout 0 + G :=
  run_timeout_le c script tie hm G hG fuel 0 initialDelay 0 (by omega) (by omega) n t h

/-! ### F13 — `MaxRetryDelay ≤ 0 < Timeout`: unbounded attempts in zero virtual time (known finding) -/

/-- With `Max ≤ 0 < Timeout` and a getter that fails at once, for EVERY n, every tie resolution and
    every fuel n the run makes n calls, all at virtual time 0, all waits 0, and is still not
    finished: the loop never reaches the deadline. -/
theorem max_zero_spins_witness (c : Cfg) (hm : c.maxDelay ≤ 0) (ht : 0 < c.timeout)
    (script : Nat → Call ρ) (hs : ∀ k, (script k).dur = 0 ∧ (script k).resp = none)
    (tie : Nat → Bool) (n : Nat) :
    get c script tie n = ⟨List.replicate n 0, List.replicate n 0, .outOfFuel⟩ :=
  run_spin c script tie hm ht hs n initialDelay 0

/-- …so no number of calls suffices (contrast `terminates`), and `no_busy_loop` fails at `Max = 0`:
    there are waits, and they are 0. -/
theorem max_zero_never_terminates (c : Cfg) (hm : c.maxDelay ≤ 0) (ht : 0 < c.timeout)
    (tie : Nat → Bool) (n : Nat) :
    (get c (fun _ => (⟨0, none⟩ : Call ρ)) tie n).res = .outOfFuel ∧
    (get c (fun _ => (⟨0, none⟩ : Call ρ)) tie n).calls.length = n ∧
    ∀ s ∈ (get c (fun _ => (⟨0, none⟩ : Call ρ)) tie n).calls, s = 0 := by
  rw [max_zero_spins_witness c hm ht _ (fun _ => ⟨rfl, rfl⟩) tie n]
  exact ⟨rfl, by simp, fun s hs => (List.mem_replicate.mp hs).2⟩

/-- The other face of F13: with `Max ≤ 0` and ANY timeout (also ≤ 0, i.e. a deadline that has passed
    from the start) the timer is always ready, every select at or after the deadline is a tie, and
    under the resolution "timer first" the loop never ends.  Go resolves such a select at random, so
    the real code makes a geometrically distributed number of extra attempts after the deadline:
    `gives_up_in_bounded_time` has no analogue for `Max ≤ 0`. -/
theorem max_zero_tie_spins_witness (c : Cfg) (hm : c.maxDelay ≤ 0)
    (script : Nat → Call ρ) (hs : ∀ k, (script k).dur = 0 ∧ (script k).resp = none) (n : Nat) :
    get c script (fun _ => true) n = ⟨List.replicate n 0, List.replicate n 0, .outOfFuel⟩ :=
  run_spin_tie c script hm hs n initialDelay 0

/-! ### non-vacuity -/

/-- always failing, instantly -/
def failFast : Nat → Call Nat := fun _ => ⟨0, none⟩

/-- The default configuration (Timeout 120 s, Max 30 s) against a getter that fails at once: calls at
    0, 4, 12, 28, 58, 88, 118 s, then the timeout error at 120 s. -/
theorem default_trace (tie : Nat → Bool) :
    get defaultCfg failFast tie 100 =
      ⟨[0, 4000000000, 12000000000, 28000000000, 58000000000, 88000000000, 118000000000],
       [4000000000, 8000000000, 16000000000, 30000000000, 30000000000, 30000000000],
       .timeout 7 120000000000⟩ := by
  rfl

example : callBound defaultCfg = 31 := by decide +kernel

/-- `gives_up_in_bounded_time`'s hypotheses hold for the default configuration and `failFast`
    (G = 0), and its conclusion is the trace above. -/
example : ∃ n t, (get defaultCfg failFast (fun _ => true) 100).res = .timeout n t ∧ defaultCfg.timeout ≤ t ∧
    t ≤ max defaultCfg.timeout 0 + (0 : Nat) :=
  gives_up_in_bounded_time defaultCfg failFast _ 100 0 (by decide) (fun _ => rfl) (fun _ => Nat.le_refl _) (by decide +kernel)

/-- three failures of 1 s each, then a success carrying the payload 77 -/
def threeThenOk : Nat → Call Nat := ofList [⟨1000000000, none⟩, ⟨1000000000, none⟩, ⟨1000000000, none⟩, ⟨1000000000, some 77⟩]

theorem success_trace (tie : Nat → Bool) :
    get defaultCfg threeThenOk tie 100 =
      ⟨[0, 5000000000, 14000000000, 31000000000], [4000000000, 8000000000, 16000000000],
       .success 3 77 32000000000⟩ := by
  rfl

/-- the hypothesis of `returns_first_success_intact` / `no_call_after_success` is satisfiable -/
example : (threeThenOk 3).resp = some 77 ∧ ∀ i, i < 3 → (threeThenOk i).resp = none :=
  returns_first_success_intact defaultCfg threeThenOk (fun _ => false) 100 3 77 32000000000 (by rw [success_trace])

/-- a tie: Timeout 8 s, Max 4 s — after the second failure (at 4 s) the 4 s timer and the 8 s
    deadline fire together; both resolutions give the timeout at 8 s, with 3 resp. 2 calls. -/
theorem tie_trace_timer :
    get ⟨8000000000, 4000000000⟩ failFast (fun _ => true) 100 =
      ⟨[0, 4000000000, 8000000000], [4000000000, 4000000000], .timeout 3 8000000000⟩ := by decide +kernel
theorem tie_trace_deadline :
    get ⟨8000000000, 4000000000⟩ failFast (fun _ => false) 100 =
      ⟨[0, 4000000000], [4000000000], .timeout 2 8000000000⟩ := by decide +kernel

/-- F13 on concrete numbers: Timeout 1 s, Max 0 — five calls at time 0 and still running -/
example : get ⟨1000000000, 0⟩ failFast (fun _ => false) 5 = ⟨[0, 0, 0, 0, 0], [0, 0, 0, 0, 0], .outOfFuel⟩ :=
  max_zero_spins_witness _ (by decide) (by decide) _ (fun _ => ⟨rfl, rfl⟩) _ 5

/-- …while the deadline-first resolution ends the same configuration (Timeout 0, Max 0) after one call -/
example : get ⟨0, 0⟩ failFast (fun _ => false) 100 = ⟨[0], [], .timeout 1 0⟩ := by decide +kernel
example : get ⟨0, 0⟩ failFast (fun _ => true) 3 = ⟨[0, 0, 0], [0, 0, 0], .outOfFuel⟩ :=
  max_zero_tie_spins_witness _ (by decide) _ (fun _ => ⟨rfl, rfl⟩) 3

/-- Timeout ≤ 0: the context is done from the start; a positive maximum gives exactly one attempt -/
example (tie : Nat → Bool) : get ⟨0, 3000000000⟩ failFast tie 100 = ⟨[0], [], .timeout 1 0⟩ := by rfl

end Tdx.Props.C20
