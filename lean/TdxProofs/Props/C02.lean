/-
  C02 — trust is anchored only in the configured roots and in PCK-role certificates.
-/
import TdxModel.Verify
import TdxProofs.Lemmas.Verify

namespace Tdx.Props.C02
open Tdx Tdx.Gen Tdx.Abi Tdx.Verify

/-- what acceptance establishes about the embedded certificate chain -/
structure Anchored (w : World) (o : Opts) (ch : Chain) : Prop where
  /-- the chain is exactly three CERTIFICATE blocks (optional single NUL) — it was extracted -/
  extracted : extractChain w.chainPem = .ok ch
  /-- the leaf is an Intel SGX PCK certificate: the PCK subject name and a well-formed SGX extension -/
  leafName : (cert w ch.leaf).subjectCN = "Intel SGX PCK Certificate"
  leafSgx : ∃ ext, PckExt.pckCertificateExtensions (cert w ch.leaf).pck = .ok ext
  /-- … issued and signed by the intermediate CA carried in the quote (Platform CA), itself issued and signed by the
      quote's root (Root CA, self-signed) -/
  leafByInter : Certifies (cert w ch.inter) (cert w ch.leaf)
  interName : (cert w ch.inter).subjectCN = "Intel SGX PCK Platform CA"
  interByRoot : Certifies (cert w ch.root) (cert w ch.inter)
  rootName : (cert w ch.root).subjectCN = "Intel SGX Root CA"
  rootSelfSigned : Certifies (cert w ch.root) (cert w ch.root)
  /-- … and the leaf chains, through that intermediate, to a certificate of the caller's pool (the embedded Intel root
      when no pool is given), every certificate on the path inside its validity period -/
  path : PathOk w (effectiveRoots w) (some ch.inter) ch.leaf ((o.now.getD (defaultTimeSet w.clock)).pckCertChain)

/-- **C02, main statement.** -/
theorem accept_implies_anchored (C : Crypto) (w : World) (q : Option QuoteV4) (o : Opts)
    (h : (tdxQuote Fixes.all C w q o).verdict = .ok ()) : ∃ ch, Anchored w o ch := by
  obtain ⟨q', ch, ext, col, rfl, _, hch, hext, _, hev⟩ := ((tdxQuote_ok_iff C w q o).mp h).witness
  have hc := chainChecks_all w ch o _ col hev.chain
  obtain ⟨_, hp⟩ := (pathValid_iff ..).mp hc.anchored
  exact ⟨ch, hch, hc.leaf.name, ⟨ext, hext⟩, ⟨hc.leaf.issuer, hc.leaf.signed⟩, hc.inter.name,
    ⟨hc.inter.issuer, hc.inter.signed⟩, hc.root.name, ⟨hc.root.issuer, hc.root.signed⟩, hp⟩

/-- the effective pool: exactly the caller's list, or exactly the embedded root when none is given -/
theorem effective_roots (w : World) :
    (w.pool = none → effectiveRoots w = [w.embeddedRoot]) ∧ (∀ p, w.pool = some p → effectiveRoots w = p) := by
  constructor
  · intro h; simp [effectiveRoots, h]
  · intro p h; simp [effectiveRoots, h]

/-- A chain that is perfectly self-consistent under another root — even one with identical names — is rejected:
    if no certificate of the effective pool is the leaf or the intermediate itself, and none of them carries a key that
    signed the leaf or the intermediate, the verdict is not acceptance, whatever the names say. -/
theorem foreign_root_rejected (C : Crypto) (w : World) (q : Option QuoteV4) (o : Opts) (ch : Chain)
    (hch : extractChain w.chainPem = .ok ch)
    (hleaf : ch.leaf ∉ effectiveRoots w) (hinter : ch.inter ∉ effectiveRoots w)
    (hforeign : ∀ r ∈ effectiveRoots w, sigFrom (cert w ch.leaf) (cert w r) = false ∧ sigFrom (cert w ch.inter) (cert w r) = false) :
    (tdxQuote Fixes.all C w q o).verdict ≠ .ok () := by
  intro h
  obtain ⟨ch', a⟩ := accept_implies_anchored C w q o h
  have : ch' = ch := by have := a.extracted; rw [hch] at this; cases this; rfl
  subst this
  cases a.path with
  | isRoot h1 => exact hleaf h1
  | direct r hr hc _ => have := (hforeign r hr).1; rw [hc.2] at this; cases this
  | viaInter i hi _ _ _ top =>
    cases hi
    rcases top with h1 | ⟨r, hr, hc, _⟩
    · exact hinter h1
    · have := (hforeign r hr).2; rw [hc.2] at this; cases this

/-- Role confusion: a "leaf" that is not named as a PCK certificate, or carries no well-formed SGX extension, is
    rejected even if the trusted root issued it. -/
theorem role_confusion_rejected (C : Crypto) (w : World) (q : Option QuoteV4) (o : Opts) (ch : Chain)
    (hch : extractChain w.chainPem = .ok ch)
    (hrole : (cert w ch.leaf).subjectCN ≠ "Intel SGX PCK Certificate" ∨
             (∀ ext, PckExt.pckCertificateExtensions (cert w ch.leaf).pck ≠ .ok ext) ∨
             (cert w ch.inter).subjectCN ≠ "Intel SGX PCK Platform CA") :
    (tdxQuote Fixes.all C w q o).verdict ≠ .ok () := by
  intro h
  obtain ⟨ch', a⟩ := accept_implies_anchored C w q o h
  have : ch' = ch := by have := a.extracted; rw [hch] at this; cases this; rfl
  subst this
  rcases hrole with h1 | h1 | h1
  · exact h1 a.leafName
  · obtain ⟨ext, he⟩ := a.leafSgx; exact h1 ext he
  · exact h1 a.interName

/-- Chain shape: acceptance implies exactly three PEM CERTIFICATE blocks that parse, the first two followed by more
    bytes, and nothing but an optional single NUL after the third. -/
theorem chain_shape (pem : Option PemFacts) (ch : Chain) (h : extractChain pem = .ok ch) :
    ∃ steps b1 b2 b3, pem = some steps ∧ steps[0]? = some (some b1) ∧ steps[1]? = some (some b2) ∧ steps[2]? = some (some b3) ∧
      b1.isCert = true ∧ b2.isCert = true ∧ b3.isCert = true ∧ b1.remLen ≠ 0 ∧ b2.remLen ≠ 0 ∧
      (b3.remLen = 0 ∨ b3.remIsNul = true) ∧
      b1.cert = some ch.leaf ∧ b2.cert = some ch.inter ∧ b3.cert = some ch.root := by
  unfold extractChain at h
  cases pem with
  | none => cases h
  | some steps =>
    simp only at h
    split at h
    · rename_i b1 hb1
      split at h; · cases h
      rename_i hc1
      split at h; · cases h
      rename_i leaf hl
      split at h
      · rename_i b2 hb2
        split at h; · cases h
        rename_i hc2
        split at h; · cases h
        rename_i inter hi
        split at h
        · rename_i b3 hb3
          split at h; · cases h
          rename_i hc3
          split at h; · cases h
          rename_i hc4
          split at h; · cases h
          rename_i root hr
          cases h
          simp only [Bool.or_eq_true, beq_iff_eq, Bool.not_eq_true', not_or, Bool.not_eq_false, Bool.and_eq_true, bne_iff_ne,
            ne_eq, not_and] at hc1 hc2 hc3 hc4
          refine ⟨steps, b1, b2, b3, rfl, hb1, hb2, hb3, hc1.2, hc2.2, by simpa using hc3, hc1.1, hc2.1, ?_, hl, hi, hr⟩
          by_cases hz : b3.remLen = 0
          · exact Or.inl hz
          · exact Or.inr (by simpa using hc4 hz)
        · cases h
      · cases h
    · cases h

/-- A root-of-trust configuration trusts exactly the certificates it lists: `rotToPool` yields no pool iff nothing is
    configured, and otherwise a pool whose members are exactly the certificates of the listed bundles. -/
theorem pool_is_exactly_listed (files : List Bundle) (inline : List (List Nat)) :
    (rotToPool files inline = .ok none ↔ files = [] ∧ inline = []) ∧
    (∀ p, rotToPool files inline = .ok (some p) →
      ∀ c, c ∈ p ↔ (∃ b ∈ files, ∃ l, b = some l ∧ c ∈ l) ∨ (∃ l ∈ inline, c ∈ l)) := by
  unfold rotToPool
  constructor
  · by_cases h : files.isEmpty && inline.isEmpty
    · simp only [h, ↓reduceIte, true_iff]
      simpa using h
    · simp only [h, Bool.false_eq_true, ↓reduceIte]
      have hne : ¬ (files = [] ∧ inline = []) := by simpa using h
      split; · simp [hne]
      split <;> simp [hne]
  · intro p hp c
    by_cases h : files.isEmpty && inline.isEmpty
    · simp [h] at hp
    · simp only [h, Bool.false_eq_true, ↓reduceIte] at hp
      split at hp; · cases hp
      split at hp; · cases hp
      simp only [Outcome.ok.injEq, Option.some.injEq] at hp
      subst hp
      simp only [List.mem_append, List.mem_flatten, List.mem_filterMap, id_eq]
      constructor
      · rintro (⟨l, ⟨b, hb, rfl⟩, hc⟩ | ⟨l, hl, hc⟩)
        · exact Or.inl ⟨some l, hb, l, rfl, hc⟩
        · exact Or.inr ⟨l, hl, hc⟩
      · rintro (⟨b, hb, l, rfl, hc⟩ | ⟨l, hl, hc⟩)
        · exact Or.inl ⟨l, ⟨some l, hb, rfl⟩, hc⟩
        · exact Or.inr ⟨l, hl, hc⟩

/-- an unreadable or certificate-free bundle is an error, not a silently smaller pool -/
theorem bad_bundle_is_error (files : List Bundle) (inline : List (List Nat))
    (h : none ∈ files ∨ some [] ∈ files ∨ [] ∈ inline) : ∃ e, rotToPool files inline = .err e := by
  unfold rotToPool
  have hne : (files.isEmpty && inline.isEmpty) = false := by
    rcases h with h | h | h
    · cases files <;> simp_all
    · cases files <;> simp_all
    · cases inline <;> simp_all
  simp only [hne, Bool.false_eq_true, ↓reduceIte]
  rcases h with h | h | h
  · split
    · exact ⟨_, rfl⟩
    · rename_i hn; exact absurd (List.any_eq_true.mpr ⟨none, h, rfl⟩) hn
  · split
    · exact ⟨_, rfl⟩
    · rename_i hn; exact absurd (List.any_eq_true.mpr ⟨some [], h, rfl⟩) hn
  · split
    · exact ⟨_, rfl⟩
    · split
      · exact ⟨_, rfl⟩
      · rename_i _ hn; exact absurd (List.any_eq_true.mpr ⟨[], h, rfl⟩) hn

/-- the embedded root of trust (`verify/trusted_root.pem`, used when the caller gives no pool) is byte for byte Intel's
    SGX Root CA certificate file as pinned here: the SHA-256 the extractor computes from the source tree on every run
    equals the value written down from the pinned commit (Intel's root, SHA-256 of the PEM file).  A swapped or edited
    embedded anchor breaks this obligation although no generated world chains to it. -/
theorem embedded_root_is_pinned :
    verify_trusted_root_pem_sha256 = "194123d2a18be2beb525d0f0cc10a8998be1e63d7a0ecb723cb194f3e9833912" := by decide

/-! ### non-vacuity -/
example : rotToPool [some [1, 2]] [[3]] = .ok (some [1, 2, 3]) := by decide
example : rotToPool [] [] = .ok none := by decide

end Tdx.Props.C02
