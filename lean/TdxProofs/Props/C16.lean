/-
  C16 — parsing copies, checking never writes: quotes can be shared across goroutines.
  Model-level content: the check-side concatenations write only into buffers allocated during the call (so every
  pre-existing buffer is unchanged up to capacity — there is nothing to race on); tie to the source: the regenerated
  write-site inventory has only fresh destinations, and no parser function lets a field alias its input.
-/
import TdxModel.Heap
import TdxModel.Generated.Sites

namespace Tdx.Props.C16
open Tdx Tdx.Heap

/-- frame lemma: writes that only touch buffers with id ≥ n leave every buffer below n unchanged (to capacity) -/
theorem frame (n : Nat) (ws : List Write) (h : Heap) (hfresh : ∀ w ∈ ws, n ≤ w.1) (j : Nat) (hj : j < n) :
    (ws.foldl Heap.write h).bufs[j]? = h.bufs[j]? := by
  induction ws generalizing h with
  | nil => rfl
  | cons w rest ih =>
    simp only [List.foldl_cons]
    rw [ih (h.write w) (fun x hx => hfresh x (List.mem_cons_of_mem _ hx))]
    unfold Heap.write
    have : w.1 ≠ j := by have := hfresh w (List.mem_cons_self ..); omega
    simp [List.getElem?_modify, this]

theorem alloc_preserves (h : Heap) (len cap j : Nat) (hj : j < h.bufs.length) : ((h.alloc len cap).1).bufs[j]? = h.bufs[j]? := by
  unfold Heap.alloc
  simp [List.getElem?_append_left hj]

theorem alloc_length (h : Heap) (len cap : Nat) : ((h.alloc len cap).1).bufs.length = h.bufs.length + 1 := by
  simp [Heap.alloc]

theorem write_length (h : Heap) (w : Write) : (h.write w).bufs.length = h.bufs.length := by
  simp [Heap.write]

theorem write_other (h : Heap) (w : Write) (j : Nat) (hj : w.1 ≠ j) : (h.write w).bufs[j]? = h.bufs[j]? := by
  simp [Heap.write, List.getElem?_modify, hj]

/-- `append` on a slice of a buffer with id ≥ n never touches buffers below n, and its result slice lives in a buffer ≥ n -/
theorem append_fresh (h : Heap) (s : Slice) (data : Bytes) (n : Nat) (hs : n ≤ s.buf) (hn : n ≤ h.bufs.length) (j : Nat) (hj : j < n) :
    ((h.append s data).1).bufs[j]? = h.bufs[j]? ∧ n ≤ (h.append s data).2.1.buf ∧ n ≤ ((h.append s data).1).bufs.length := by
  unfold Heap.append
  split
  · refine ⟨write_other h _ j (by simp; omega), hs, by rw [write_length]; exact hn⟩
  · refine ⟨by simp [List.getElem?_append_left (by omega : j < h.bufs.length)], hn, by simp; omega⟩

/-- **verifyHash256 (repaired) writes only into the buffer it allocates**: every buffer that existed before the call —
    the attestation key's, the auth data's, any other — is unchanged, including spare capacity behind a field. -/
theorem concat_key_auth_writes_only_fresh (h : Heap) (key auth : Slice) (j : Nat) (hj : j < h.bufs.length) :
    ((concatKeyAuth h key auth).1).bufs[j]? = h.bufs[j]? := by
  unfold concatKeyAuth
  simp only
  have a0 := alloc_preserves h 0 (key.len + auth.len) j hj
  have l0 := alloc_length h 0 (key.len + auth.len)
  have fb : (h.alloc 0 (key.len + auth.len)).2.buf = h.bufs.length := rfl
  obtain ⟨a1, b1, c1⟩ := append_fresh (h.alloc 0 (key.len + auth.len)).1 (h.alloc 0 (key.len + auth.len)).2
    ((h.alloc 0 (key.len + auth.len)).1.read key) h.bufs.length (by rw [fb]; exact Nat.le_refl _) (by omega) j hj
  obtain ⟨a2, _, _⟩ := append_fresh ((h.alloc 0 (key.len + auth.len)).1.append (h.alloc 0 (key.len + auth.len)).2 ((h.alloc 0 (key.len + auth.len)).1.read key)).1
    ((h.alloc 0 (key.len + auth.len)).1.append (h.alloc 0 (key.len + auth.len)).2 ((h.alloc 0 (key.len + auth.len)).1.read key)).2.1
    (((h.alloc 0 (key.len + auth.len)).1.append (h.alloc 0 (key.len + auth.len)).2 ((h.alloc 0 (key.len + auth.len)).1.read key)).1.read auth)
    h.bufs.length b1 c1 j hj
  rw [a2, a1, a0]

/-- the same for the header‖body concatenation and for `applyMask` -/
theorem concat_header_body_writes_only_fresh (h : Heap) (hdr body : Bytes) (j : Nat) (hj : j < h.bufs.length) :
    ((concatHeaderBody h hdr body).1).bufs[j]? = h.bufs[j]? := by
  unfold concatHeaderBody
  simp only
  have a0 := alloc_preserves h hdr.length hdr.length j hj
  have l0 := alloc_length h hdr.length hdr.length
  have fb : (h.alloc hdr.length hdr.length).2.buf = h.bufs.length := rfl
  have a1 := write_other (h.alloc hdr.length hdr.length).1 ((h.alloc hdr.length hdr.length).2.buf, 0, hdr) j (by rw [fb]; simp; omega)
  obtain ⟨a2, _, _⟩ := append_fresh ((h.alloc hdr.length hdr.length).1.write ((h.alloc hdr.length hdr.length).2.buf, 0, hdr))
    (h.alloc hdr.length hdr.length).2 body h.bufs.length (by rw [fb]; exact Nat.le_refl _) (by rw [write_length]; omega) j hj
  rw [a2, a1, a0]

theorem apply_mask_writes_only_fresh (h : Heap) (a b : Slice) (j : Nat) (hj : j < h.bufs.length) :
    ((applyMaskH h a b).1).bufs[j]? = h.bufs[j]? := by
  unfold applyMaskH
  simp only
  have fb : (h.alloc a.len a.len).2.buf = h.bufs.length := rfl
  rw [write_other _ _ j (by rw [fb]; simp; omega), alloc_preserves h _ _ j hj]

/-- `clone` returns a slice of a new buffer (cap = len) holding the same bytes: a parsed quote shares no memory with its input -/
theorem clone_is_fresh_copy (h : Heap) (s : Slice) (hs : s.buf < h.bufs.length) :
    (h.clone s).2.1.buf = h.bufs.length ∧ (h.clone s).2.1.cap = (h.clone s).2.1.len ∧
    (h.clone s).1.read (h.clone s).2.1 = h.read s ∧ ∀ j, j < h.bufs.length → (h.clone s).1.bufs[j]? = h.bufs[j]? := by
  unfold Heap.clone
  refine ⟨rfl, rfl, ?_, fun j hj => by simp [List.getElem?_append_left hj]⟩
  simp only [Heap.read, List.getD_eq_getElem?_getD, List.getElem?_append_right (Nat.le_refl _), Nat.sub_self,
    List.getElem?_cons_zero, Option.getD_some, List.drop_zero]
  exact List.take_of_length_le (Nat.le_refl _)

/-- two calls whose writes avoid every pre-existing buffer commute on those buffers: whatever the interleaving of their
    write operations, the shared buffers read the same — the model-level statement of race freedom -/
theorem readers_commute (n : Nat) (ws1 ws2 : List Write) (h : Heap) (h1 : ∀ w ∈ ws1, n ≤ w.1) (h2 : ∀ w ∈ ws2, n ≤ w.1)
    (inter : List Write) (hperm : inter.Perm (ws1 ++ ws2)) (j : Nat) (hj : j < n) :
    (inter.foldl Heap.write h).bufs[j]? = ((ws1 ++ ws2).foldl Heap.write h).bufs[j]? := by
  have hi : ∀ w ∈ inter, n ≤ w.1 := fun w hw => by
    have := (hperm.mem_iff).mp hw
    rcases List.mem_append.mp this with a | a
    · exact h1 w a
    · exact h2 w a
  have h12 : ∀ w ∈ ws1 ++ ws2, n ≤ w.1 := fun w hw => by
    rcases List.mem_append.mp hw with a | a
    · exact h1 w a
    · exact h2 w a
  rw [frame n inter h hi j hj, frame n (ws1 ++ ws2) h h12 j hj]

/-! ### tie to the source: regenerated inventories -/

/-- every byte-write site (append / copy / element store / PutUintNN) of abi.go, verify.go and validate.go has a
    destination that is allocated in the same function (make, literal, fresh result of a serialiser, local array) -/
theorem all_write_sites_fresh :
    ∀ s ∈ Gen.writeSites, (s.1 = "abi/abi.go" ∨ s.1 = "verify/verify.go" ∨ s.1 = "validate/validate.go") → s.2.2.2 = Gen.Dest.fresh := by
  decide

/-- no parser function lets a field of its result alias the bytes it was given (every path goes through `clone`) -/
theorem parser_output_disjoint_from_input :
    (Gen.parserAliasesParam.lookup "quoteToProtoV4" = some false) ∧ (Gen.parserAliasesParam.lookup "QuoteToProto" = some false) := by
  decide

/-- no function of the parsing, verification, validation, extension-extraction, quote-fetching and retry paths assigns to,
    increments, takes the address of, or calls a pointer-receiver method on a package-level variable (outside `init`):
    there is no package state that concurrent calls could race on, and none that one call could leave for the next
    (lazily filled caches, pools of buffers or hashers, counters).  Regenerated from the source on every run. -/
theorem no_package_state_written : Gen.packageStateWrites = [] := by decide

/-! ### the pinned tree (finding F3): `append(attestKey, qeAuthData...)` writes behind the key -/

/-- a message buffer in which the 4-byte key is followed by spare capacity (here: the bytes `9 9 9 9`), and auth data `1 2` -/
def f3Heap : Heap := ⟨[[7, 7, 7, 7, 9, 9, 9, 9], [1, 2]]⟩
def f3Key : Slice := ⟨0, 0, 4, 8⟩
def f3Auth : Slice := ⟨1, 0, 2, 2⟩

theorem unfixed_witness_hash_append :
    (concatKeyAuthUnfixed f3Heap f3Key f3Auth).1.bufs[0]? = some [7, 7, 7, 7, 1, 2, 9, 9] ∧
    (concatKeyAuth f3Heap f3Key f3Auth).1.bufs[0]? = some [7, 7, 7, 7, 9, 9, 9, 9] := by decide

/-! ### non-vacuity -/
example : (concatKeyAuth f3Heap f3Key f3Auth).1.read (concatKeyAuth f3Heap f3Key f3Auth).2.1 = [7, 7, 7, 7, 1, 2] := by decide

end Tdx.Props.C16
